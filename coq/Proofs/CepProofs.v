(* C15 — proofs about the reference matcher of Model/Cep.v. *)
From Coq Require Import List ZArith NArith Bool Arith Lia.
From SV Require Import Model.Cep Spec.CepSpec.
Import ListNotations.

(* ================================================================== the pattern language *)
Inductive word_in : pat -> list N -> Prop :=
| WEps : word_in PEps []
| WLit : forall v, word_in (PLit v) [v]
| WSeq : forall p q w1 w2, word_in p w1 -> word_in q w2 -> word_in (PSeq p q) (w1 ++ w2)
| WAltL : forall p q w, word_in p w -> word_in (PAlt p q) w
| WAltR : forall p q w, word_in q w -> word_in (PAlt p q) w
| WStar0 : forall p, word_in (PStar p) []
| WStarS : forall p w1 w2, word_in p w1 -> word_in (PStar p) w2 -> word_in (PStar p) (w1 ++ w2).

Lemma nullable_iff : forall p, nullable p = true <-> word_in p [].
Proof.
  induction p; simpl.
  - split; [discriminate|intro H; inversion H].
  - split; [intro; constructor|intro; reflexivity].
  - split; [discriminate|intro H; inversion H].
  - rewrite andb_true_iff, IHp1, IHp2. split.
    + intros [H1 H2]. change (@nil N) with (@nil N ++ []). constructor; assumption.
    + intro H. inversion H; subst.
      match goal with E : _ ++ _ = [] |- _ => apply app_eq_nil in E; destruct E; subst end.
      split; assumption.
  - rewrite orb_true_iff, IHp1, IHp2. split.
    + intros [H|H]; [apply WAltL|apply WAltR]; assumption.
    + intro H; inversion H; subst; [left|right]; assumption.
  - split; [intro; constructor|intro; reflexivity].
Qed.

Lemma empty_no_word : forall w, ~ word_in PEmpty w.
Proof. intros w H; inversion H. Qed.

Lemma mk_seq_iff : forall p q w, word_in (mk_seq p q) w <-> word_in (PSeq p q) w.
Proof.
  intros p q w. unfold mk_seq.
  destruct p.
  - split; intro H; [inversion H|]. inversion H; subst. inversion H2.
  - split; intro H.
    + change w with ([] ++ w). constructor; [constructor|assumption].
    + inversion H; subst. inversion H2; subst. simpl. assumption.
  - destruct q; try tauto. split; intro H; [inversion H|]. inversion H; subst. inversion H4.
  - destruct q; try tauto. split; intro H; [inversion H|]. inversion H; subst. inversion H4.
  - destruct q; try tauto. split; intro H; [inversion H|]. inversion H; subst. inversion H4.
  - destruct q; try tauto. split; intro H; [inversion H|]. inversion H; subst. inversion H4.
Qed.

Lemma mk_alt_iff : forall p q w, word_in (mk_alt p q) w <-> word_in (PAlt p q) w.
Proof.
  intros p q w. unfold mk_alt.
  assert (E : forall p0, word_in p0 w <-> word_in (PAlt p0 PEmpty) w).
  { intro p0; split; intro H; [apply WAltL; assumption|]. inversion H; subst; [assumption|inversion H3]. }
  destruct p.
  - split; intro H; [apply WAltR; assumption|]. inversion H; subst; [inversion H3|assumption].
  - destruct q; try tauto. apply E.
  - destruct q; try tauto. apply E.
  - destruct q; try tauto. apply E.
  - destruct q; try tauto. apply E.
  - destruct q; try tauto. apply E.
Qed.

Lemma star_cons_inv : forall p v w, word_in (PStar p) (v :: w) ->
  exists w1 w2, w = w1 ++ w2 /\ word_in p (v :: w1) /\ word_in (PStar p) w2.
Proof.
  intros p v w H. remember (PStar p) as s eqn:Es. remember (v :: w) as vw eqn:Ew.
  revert p v w Es Ew.
  induction H; intros p0 v0 w0 Es Ew; try discriminate.
  inversion Es; subst p0.
  destruct w1 as [|a w1'].
  - simpl in Ew. apply (IHword_in2 p v0 w0); [reflexivity|assumption].
  - simpl in Ew. inversion Ew; subst a w0. exists w1', w2. repeat split; assumption.
Qed.

Lemma seq_cons_inv : forall p q v w, word_in (PSeq p q) (v :: w) ->
  (exists w1 w2, w = w1 ++ w2 /\ word_in p (v :: w1) /\ word_in q w2) \/ (word_in p [] /\ word_in q (v :: w)).
Proof.
  intros p q v w H. inversion H as [| |p' q' w1 w2 Hp Hq Ep Ew| | | |]; subst.
  destruct w1 as [|a w1'].
  - right. simpl in Ew. subst w2. split; assumption.
  - left. simpl in Ew. inversion Ew; subst. exists w1', w2. repeat split; assumption.
Qed.

(* the derivative by a set of variables: the words that remain after one row labelled by one of them *)
Lemma deriv_iff : forall f p w, word_in (deriv f p) w <-> exists v, f v = true /\ word_in p (v :: w).
Proof.
  intros f p. induction p; intro w; simpl.
  - split; [intro H; inversion H|intros [v [_ H]]; inversion H].
  - split; [intro H; inversion H|intros [v [_ H]]; inversion H].
  - destruct (f v) eqn:Ef.
    + split.
      * intro H. inversion H; subst. exists v. split; [assumption|constructor].
      * intros [v0 [_ H]]. inversion H; subst. constructor.
    + split; [intro H; inversion H|]. intros [v0 [Hf H]]. inversion H; subst. congruence.
  - rewrite mk_alt_iff. split.
    + intro H. inversion H; subst.
      * apply mk_seq_iff in H3. inversion H3; subst. apply IHp1 in H2. destruct H2 as [v [Hf Hp]].
        exists v. split; [assumption|]. change (v :: w1 ++ w2) with ((v :: w1) ++ w2). constructor; assumption.
      * destruct (nullable p1) eqn:En; [|inversion H3].
        apply IHp2 in H3. destruct H3 as [v [Hf Hq]]. exists v. split; [assumption|].
        change (v :: w) with ([] ++ v :: w). constructor; [apply nullable_iff; assumption|assumption].
    + intros [v [Hf H]]. apply seq_cons_inv in H. destruct H as [[w1 [w2 [E [H1 H2]]]]|[H1 H2]].
      * apply WAltL. apply mk_seq_iff. subst w. constructor; [|assumption]. apply IHp1. exists v; split; assumption.
      * apply WAltR. apply nullable_iff in H1. rewrite H1. apply IHp2. exists v; split; assumption.
  - rewrite mk_alt_iff. split.
    + intro H. inversion H; subst.
      * apply IHp1 in H3. destruct H3 as [v [Hf Hp]]. exists v; split; [assumption|apply WAltL; assumption].
      * apply IHp2 in H3. destruct H3 as [v [Hf Hp]]. exists v; split; [assumption|apply WAltR; assumption].
    + intros [v [Hf H]]. inversion H; subst.
      * apply WAltL. apply IHp1. exists v; split; assumption.
      * apply WAltR. apply IHp2. exists v; split; assumption.
  - rewrite mk_seq_iff. split.
    + intro H. inversion H; subst. apply IHp in H2. destruct H2 as [v [Hf Hp]].
      exists v. split; [assumption|]. change (v :: w1 ++ w2) with ((v :: w1) ++ w2). constructor; assumption.
    + intros [v [Hf H]]. apply star_cons_inv in H. destruct H as [w1 [w2 [E [H1 H2]]]].
      subst w. constructor; [|assumption]. apply IHp. exists v; split; assumption.
Qed.

(* a list of rows, each given as the set of variables it may be labelled with, spells a word of p *)
Definition cword (p : pat) (fs : list (N -> bool)) : Prop :=
  exists w, Forall2 (fun f v => f v = true) fs w /\ word_in p w.

Lemma derivs_iff : forall fs p, nullable (derivs p fs) = true <-> cword p fs.
Proof.
  induction fs as [|f r IH]; intro p; simpl.
  - rewrite nullable_iff. split.
    + intro H. exists []. split; [constructor|assumption].
    + intros [w [H1 H2]]. inversion H1; subst. assumption.
  - rewrite IH. split.
    + intros [w [H1 H2]]. apply deriv_iff in H2. destruct H2 as [v [Hf Hp]].
      exists (v :: w). split; [constructor; assumption|assumption].
    + intros [w [H1 H2]]. inversion H1; subst. exists l'. split; [assumption|].
      apply deriv_iff. exists y. split; assumption.
Qed.

Lemma forall2_eqb : forall w w', Forall2 (fun f v => f v = true) (map N.eqb w) w' <-> w' = w.
Proof.
  induction w as [|a w IH]; intro w'; simpl; split; intro H.
  - inversion H; reflexivity.
  - subst; constructor.
  - inversion H; subst. apply N.eqb_eq in H2. subst. f_equal. apply IH. assumption.
  - subst. constructor; [apply N.eqb_refl|apply IH; reflexivity].
Qed.

Theorem deriv_correct : forall p w, nullable (derivs p (map N.eqb w)) = true <-> word_in p w.
Proof.
  intros p w. rewrite derivs_iff. unfold cword. split.
  - intros [w' [H1 H2]]. apply forall2_eqb in H1. subst. assumption.
  - intro H. exists w. split; [apply forall2_eqb; reflexivity|assumption].
Qed.

(* ================================================================== valid matches *)
(* the rows of [seg] can be labelled by the variables [w]: each row satisfies the DEFINE of its
   variable, PREV being the previous row of the match (none for the first row) *)
Inductive spells (defs : list cdef) : option crow -> list crow -> list N -> Prop :=
| SpNil : forall prev, spells defs prev [] []
| SpCons : forall prev r t v w, sat defs prev r v = true -> spells defs (Some r) t w ->
                                spells defs prev (r :: t) (v :: w).

Lemma spells_iff : forall defs seg prev w,
  spells defs prev seg w <-> Forall2 (fun f v => f v = true) (preds defs prev seg) w.
Proof.
  induction seg as [|r t IH]; intros prev w; simpl; split; intro H.
  - inversion H; constructor.
  - inversion H; constructor.
  - inversion H; subst. constructor; [assumption|apply IH; assumption].
  - inversion H; subst. constructor; [assumption|apply IH; assumption].
Qed.

(* a valid match: a non-empty run of rows that spells a word of the pattern under DEFINE and whose
   rows all lie within WITHIN of the first one *)
Definition valid (c : ccfg) (seg : list crow) : Prop :=
  match seg with
  | [] => False
  | r0 :: _ => (exists w, word_in (c_pat c) w /\ spells (c_defs c) None seg w)
               /\ Forall (fun x => (r_ts x - r_ts r0 <= c_within c)%Z) seg
  end.

Lemma valid_b_iff : forall c seg, valid_b c seg = true <-> valid c seg.
Proof.
  intros c seg. unfold valid_b, valid, within_b. destruct seg as [|r0 t].
  - simpl. split; [discriminate|tauto].
  - rewrite andb_true_iff, derivs_iff, forallb_forall, Forall_forall. unfold cword. split.
    + intros [Hw [w [H1 H2]]]. split.
      * exists w. split; [assumption|apply spells_iff; assumption].
      * intros x Hx. apply Z.leb_le. apply Hw; assumption.
    + intros [[w [H1 H2]] Hw]. split.
      * intros x Hx. apply Z.leb_le. apply Hw; assumption.
      * exists w. split; [apply spells_iff; assumption|assumption].
Qed.

(* ================================================================== longest *)
Definition win (c : ccfg) (t0 : Z) (r : crow) : bool := Z.leb (r_ts r - t0) (c_within c).
Definition okk (c : ccfg) (t0 : Z) (p : pat) (prev : option crow) (l : list crow) (k : nat) : bool :=
  forallb (win c t0) (firstn k l) && nullable (derivs p (preds (c_defs c) prev (firstn k l))).

Lemma okk_cons : forall c t0 p prev r t k,
  okk c t0 p prev (r :: t) (S k) = win c t0 r && okk c t0 (deriv (sat (c_defs c) prev r) p) (Some r) t k.
Proof. intros. unfold okk. simpl. rewrite andb_assoc. reflexivity. Qed.

Lemma okk_0 : forall c t0 p prev l, okk c t0 p prev l 0 = nullable p.
Proof. intros. unfold okk. simpl. reflexivity. Qed.

Lemma longest_char : forall l c t0 p prev len best,
  (forall b, best = Some b -> b <= len) ->
  match longest c t0 p prev l len best with
  | Some m => (best = Some m \/ exists k, 1 <= k <= length l /\ m = len + k /\ okk c t0 p prev l k = true)
              /\ (forall k, 1 <= k <= length l -> okk c t0 p prev l k = true -> len + k <= m)
              /\ (forall b, best = Some b -> b <= m)
  | None => best = None /\ forall k, 1 <= k <= length l -> okk c t0 p prev l k = false
  end.
Proof.
  induction l as [|r t IH]; intros c t0 p prev len best Hb; simpl.
  - destruct best as [b|].
    + split; [left; reflexivity|]. split; [intros k Hk; lia|]. intros b0 E; inversion E; lia.
    + split; [reflexivity|intros k Hk; lia].
  - fold (win c t0 r). destruct (win c t0 r) eqn:Ew; simpl.
    + set (p' := deriv (sat (c_defs c) prev r) p).
      set (best' := if nullable p' then Some (S len) else best).
      assert (Hb' : forall b, best' = Some b -> b <= S len).
      { intros b E. unfold best' in E. destruct (nullable p'); [inversion E; lia|]. apply Hb in E. lia. }
      specialize (IH c t0 p' (Some r) (S len) best' Hb').
      destruct (longest c t0 p' (Some r) t (S len) best') as [m|].
      * destruct IH as [I1 [I2 I3]]. split; [|split].
        -- destruct I1 as [I1|[k [Hk [Em Ok]]]].
           ++ unfold best' in I1. destruct (nullable p') eqn:En.
              ** right. exists 1. split; [lia|]. split; [inversion I1; lia|].
                 rewrite okk_cons, Ew, okk_0. exact En.
              ** left; assumption.
           ++ right. exists (S k). split; [lia|]. split; [lia|]. rewrite okk_cons, Ew. exact Ok.
        -- intros k Hk Ok. destruct k as [|k]; [lia|]. rewrite okk_cons, Ew in Ok. simpl in Ok.
           destruct k as [|k].
           ++ rewrite okk_0 in Ok. fold p' in Ok. assert (E : best' = Some (S len)) by (unfold best'; rewrite Ok; reflexivity).
              apply I3 in E. lia.
           ++ assert (S len + S k <= m) by (apply I2; [lia|assumption]). lia.
        -- intros b E. assert (Hx : exists b', best' = Some b' /\ b <= b').
           { unfold best'. destruct (nullable p'); [exists (S len); split; [reflexivity|apply Hb in E; lia]|exists b; split; [assumption|lia]]. }
           destruct Hx as [b' [E' Hle]]. apply I3 in E'. lia.
      * destruct IH as [I1 I2]. unfold best' in I1. destruct (nullable p') eqn:En; [discriminate|].
        split; [assumption|]. intros k Hk. destruct k as [|k]; [lia|]. rewrite okk_cons, Ew. simpl.
        destruct k as [|k]; [rewrite okk_0; exact En|]. apply I2. lia.
    + destruct best as [b|].
      * split; [left; reflexivity|]. split.
        -- intros k Hk Ok. destruct k as [|k]; [lia|]. rewrite okk_cons, Ew in Ok. discriminate.
        -- intros b0 E; inversion E; lia.
      * split; [reflexivity|]. intros k Hk. destruct k as [|k]; [lia|]. rewrite okk_cons, Ew. reflexivity.
Qed.

Lemma okk_valid_b : forall c r t k, 1 <= k ->
  okk c (r_ts r) (c_pat c) None (r :: t) k = valid_b c (firstn k (r :: t)).
Proof.
  intros c r t k Hk. destruct k as [|k]; [lia|]. unfold okk, valid_b, within_b. simpl. reflexivity.
Qed.

Lemma firstn_ge : forall {A} (l : list A) k, length l <= k -> firstn k l = firstn (length l) l.
Proof. intros A l k H. rewrite firstn_all2 by assumption. rewrite firstn_all. reflexivity. Qed.

(* the longest valid match at the head of l *)
Lemma longest_at_some : forall c l m, longest_at c l = Some m ->
  1 <= m <= length l /\ valid c (firstn m l) /\ forall k, m < k <= length l -> ~ valid c (firstn k l).
Proof.
  intros c l m H. destruct l as [|r t]; [discriminate|]. unfold longest_at in H.
  pose proof (longest_char (r :: t) c (r_ts r) (c_pat c) None 0 None) as L.
  rewrite H in L. destruct L as [L1 [L2 _]]; [intros b E; discriminate|].
  destruct L1 as [L1|[k [Hk [Em Ok]]]]; [discriminate|]. simpl in Em. subst k.
  split; [assumption|]. split.
  - apply valid_b_iff. rewrite <- okk_valid_b by lia. assumption.
  - intros k Hk' V. apply valid_b_iff in V.
    rewrite <- okk_valid_b in V by lia. apply L2 in V; [simpl in V; lia|lia].
Qed.

Lemma longest_at_none : forall c l, longest_at c l = None -> forall k, ~ valid c (firstn k l).
Proof.
  intros c l H k V. destruct l as [|r t].
  - destruct k; simpl in V; exact V.
  - unfold longest_at in H.
    pose proof (longest_char (r :: t) c (r_ts r) (c_pat c) None 0 None) as L.
    rewrite H in L. destruct L as [_ L]; [intros b E; discriminate|].
    destruct k as [|k]; [simpl in V; exact V|].
    apply valid_b_iff in V.
    destruct (le_lt_dec (S k) (length (r :: t))) as [Hle|Hgt].
    + rewrite <- okk_valid_b in V by lia. rewrite L in V by lia. discriminate.
    + rewrite firstn_ge in V by lia. rewrite <- okk_valid_b in V by (simpl; lia).
      rewrite L in V by (simpl; lia). discriminate.
Qed.

(* ================================================================== the scan *)
Arguments longest_at : simpl never.
Arguments skip_to : simpl never.

Lemma skipn_S_sub : forall {A} (r : A) t q pos, S pos <= q -> skipn (q - pos) (r :: t) = skipn (q - S pos) t.
Proof. intros A r t q pos H. replace (q - pos) with (S (q - S pos)) by lia. reflexivity. Qed.

Lemma scan_cons : forall c pos next r t,
  cep_scan c pos next (r :: t) =
  if Nat.ltb pos next then cep_scan c (S pos) next t
  else match longest_at c (r :: t) with
       | None => cep_scan c (S pos) next t
       | Some k => (pos, k) :: cep_scan c (S pos) (skip_to c pos k (firstn k (r :: t))) t
       end.
Proof. reflexivity. Qed.

(* every reported match starts at an allowed position and is the longest valid match there *)
Lemma scan_in : forall l c pos next q k,
  In (q, k) (cep_scan c pos next l) ->
  pos <= q /\ next <= q /\ q < pos + length l /\ longest_at c (skipn (q - pos) l) = Some k.
Proof.
  induction l as [|r t IH]; intros c pos next q k H; [simpl in H; contradiction|].
  rewrite scan_cons in H. simpl length.
  destruct (Nat.ltb pos next) eqn:El.
  - apply Nat.ltb_lt in El. apply IH in H. destruct H as [H1 [H2 [H3 H4]]].
    rewrite skipn_S_sub by lia. simpl. repeat split; try lia. assumption.
  - apply Nat.ltb_ge in El. destruct (longest_at c (r :: t)) as [k0|] eqn:E.
    + destruct H as [H|H].
      * inversion H; subst. rewrite Nat.sub_diag. simpl. repeat split; try lia. assumption.
      * apply IH in H. destruct H as [H1 [H2 [H3 H4]]].
        rewrite skipn_S_sub by lia. simpl. repeat split; try lia. assumption.
    + apply IH in H. destruct H as [H1 [H2 [H3 H4]]].
      rewrite skipn_S_sub by lia. simpl. repeat split; try lia. assumption.
Qed.

(* the matches are chained by AFTER MATCH SKIP: each start is at or after the position the
   previous match allows; [rows] is the whole partition, the scan runs on its suffix from [pos] *)
Fixpoint chained (c : ccfg) (rows : list crow) (next : nat) (ms : list (nat * nat)) : Prop :=
  match ms with
  | [] => True
  | (q, k) :: t => next <= q /\ 1 <= k /\ chained c rows (skip_to c q k (firstn k (skipn q rows))) t
  end.

Lemma skipn_cons_nth : forall {A} (rows : list A) pos r t, skipn pos rows = r :: t -> skipn (S pos) rows = t.
Proof.
  intros A rows. induction rows as [|a rows IH]; intros pos r t H.
  - destruct pos; discriminate.
  - destruct pos as [|pos]; simpl in *; [inversion H; reflexivity|]. apply IH with r. assumption.
Qed.

Lemma scan_chained : forall l c rows pos next, skipn pos rows = l ->
  chained c rows next (cep_scan c pos next l).
Proof.
  induction l as [|r t IH]; intros c rows pos next E; [simpl; exact I|].
  rewrite scan_cons.
  pose proof (skipn_cons_nth rows pos r t E) as E'.
  destruct (Nat.ltb pos next) eqn:El.
  - apply IH. assumption.
  - apply Nat.ltb_ge in El. destruct (longest_at c (r :: t)) as [k0|] eqn:Ek.
    + simpl. split; [assumption|]. split.
      * apply longest_at_some in Ek. lia.
      * rewrite E. apply IH. assumption.
    + apply IH. assumption.
Qed.

Lemma first_sat_ge : forall defs v l prev i j, first_sat defs v prev l i = Some j -> i <= j.
Proof.
  induction l as [|r t IH]; intros prev i j H; simpl in H; [discriminate|].
  destruct (sat defs prev r v); [inversion H; lia|]. apply IH in H. lia.
Qed.
Lemma last_sat_ge : forall defs v l prev i acc j, last_sat defs v prev l i acc = Some j ->
  (acc = Some j) \/ i <= j.
Proof.
  induction l as [|r t IH]; intros prev i acc j H; simpl in H; [left; assumption|].
  apply IH in H. destruct H as [H|H]; [|right; lia].
  destruct (sat defs prev r v); [inversion H; right; lia|left; assumption].
Qed.

(* every SKIP mode moves forward *)
Lemma skip_to_gt : forall c pos k seg, 1 <= k -> pos < skip_to c pos k seg.
Proof.
  intros c pos k seg Hk. unfold skip_to. destruct (c_skip c); try lia.
  - destruct (first_sat (c_defs c) v None seg 0); lia.
  - destruct (last_sat (c_defs c) v None seg 0 None); lia.
Qed.

Lemma chained_weaken : forall c rows ms n n', n' <= n -> chained c rows n ms -> chained c rows n' ms.
Proof. intros c rows ms n n' H C. destruct ms as [|[q k] t]; simpl in *; [exact I|]. destruct C as [C1 C2]. split; [lia|assumption]. Qed.

Lemma chained_lower : forall c rows ms n, chained c rows n ms -> Forall (fun m => n <= fst m) ms.
Proof.
  intros c rows ms. induction ms as [|[q k] t IH]; intros n C; constructor; simpl in *.
  - lia.
  - destruct C as [C1 [C2 C3]]. apply IH in C3.
    pose proof (skip_to_gt c q k (firstn k (skipn q rows)) C2) as G.
    eapply Forall_impl; [|exact C3]. intros m Hm. simpl in Hm. lia.
Qed.

(* completeness: a position with a valid match is reported, unless it is before [next] or was
   skipped by an earlier reported match *)
Lemma scan_complete : forall l c pos next q k,
  pos <= q -> q < pos + length l -> longest_at c (skipn (q - pos) l) = Some k ->
  In (q, k) (cep_scan c pos next l) \/ q < next \/
  exists q0 k0, In (q0, k0) (cep_scan c pos next l) /\ q0 < q /\
                q < skip_to c q0 k0 (firstn k0 (skipn (q0 - pos) l)).
Proof.
  induction l as [|r t IH]; intros c pos next q k H1 H2 H3; simpl in H2; [lia|]. rewrite scan_cons.
  destruct (Nat.eq_dec q pos) as [Eq|Ne].
  - subst q. rewrite Nat.sub_diag in H3. simpl in H3.
    destruct (Nat.ltb pos next) eqn:El.
    + apply Nat.ltb_lt in El. right; left; assumption.
    + rewrite H3. left. left. reflexivity.
  - assert (Hq : S pos <= q) by lia.
    rewrite skipn_S_sub in H3 by assumption.
    assert (Step : forall next', In (q, k) (cep_scan c (S pos) next' t) \/ q < next' \/
        exists q0 k0, In (q0, k0) (cep_scan c (S pos) next' t) /\ q0 < q /\
                      q < skip_to c q0 k0 (firstn k0 (skipn (q0 - pos) (r :: t)))).
    { intro next'. destruct (IH c (S pos) next' q k Hq ltac:(lia) H3) as [A|[A|[q0 [k0 [A1 [A2 A3]]]]]].
      - left; assumption.
      - right; left; assumption.
      - right; right. exists q0, k0. split; [assumption|]. split; [assumption|].
        apply scan_in in A1 as A4. destruct A4 as [A4 _]. rewrite skipn_S_sub by lia. assumption. }
    destruct (Nat.ltb pos next) eqn:El.
    + destruct (Step next) as [A|[A|[q0 [k0 [A1 A2]]]]]; [left; assumption|right; left; assumption|].
      right; right. exists q0, k0. split; assumption.
    + destruct (longest_at c (r :: t)) as [k1|] eqn:Ek.
      * destruct (Step (skip_to c pos k1 (firstn k1 (r :: t)))) as [A|[A|[q0 [k0 [A1 A2]]]]].
        -- left. right. assumption.
        -- right; right. exists pos, k1. split; [left; reflexivity|]. split; [lia|].
           rewrite Nat.sub_diag. simpl skipn. assumption.
        -- right; right. exists q0, k0. split; [right; assumption|assumption].
      * destruct (Step next) as [A|[A|[q0 [k0 [A1 A2]]]]]; [left; assumption|right; left; assumption|].
        right; right. exists q0, k0. split; assumption.
Qed.

(* ================================================================== theorems about ref_matches *)
Theorem ref_valid : forall c rows q k, In (q, k) (ref_matches c rows) ->
  1 <= k /\ q + k <= length rows /\ valid c (firstn k (skipn q rows)).
Proof.
  intros c rows q k H. apply scan_in in H. destruct H as [_ [_ [H3 H4]]]. rewrite Nat.sub_0_r in H4.
  apply longest_at_some in H4. destruct H4 as [[A B] [C _]]. rewrite skipn_length in B.
  split; [assumption|]. split; [lia|assumption].
Qed.

Theorem ref_longest : forall c rows q k, In (q, k) (ref_matches c rows) ->
  forall k', k < k' -> q + k' <= length rows -> ~ valid c (firstn k' (skipn q rows)).
Proof.
  intros c rows q k H. apply scan_in in H. destruct H as [_ [_ [_ H4]]]. rewrite Nat.sub_0_r in H4.
  apply longest_at_some in H4. destruct H4 as [_ [_ C]]. intros k' H1 H2. apply C.
  rewrite skipn_length. lia.
Qed.

Theorem ref_chained : forall c rows, chained c rows 0 (ref_matches c rows).
Proof. intros c rows. apply scan_chained. reflexivity. Qed.

Lemma chained_nth : forall c rows ms n i j q1 k1 q2 k2, chained c rows n ms -> i < j ->
  nth_error ms i = Some (q1, k1) -> nth_error ms j = Some (q2, k2) ->
  skip_to c q1 k1 (firstn k1 (skipn q1 rows)) <= q2.
Proof.
  intros c rows ms. induction ms as [|[q k] t IH]; intros n i j q1 k1 q2 k2 C Hij Hi Hj.
  - destruct i; discriminate.
  - simpl in C. destruct C as [C1 [C2 C3]]. destruct j as [|j]; [lia|]. simpl in Hj.
    destruct i as [|i].
    + simpl in Hi. inversion Hi; subst. apply chained_lower in C3.
      apply nth_error_In in Hj. rewrite Forall_forall in C3. apply C3 in Hj. simpl in Hj. assumption.
    + simpl in Hi. eapply IH; [exact C3| |exact Hi|exact Hj]. lia.
Qed.

(* leftmost-first with AFTER MATCH SKIP: a later match starts at or after the position the earlier
   one allows; under SKIP PAST LAST ROW the matches are therefore row-disjoint and ordered *)
Theorem ref_leftmost_skip : forall c rows i j q1 k1 q2 k2, i < j ->
  nth_error (ref_matches c rows) i = Some (q1, k1) -> nth_error (ref_matches c rows) j = Some (q2, k2) ->
  q1 < q2 /\ skip_to c q1 k1 (firstn k1 (skipn q1 rows)) <= q2 /\ (c_skip c = SkPast -> q1 + k1 <= q2).
Proof.
  intros c rows i j q1 k1 q2 k2 Hij Hi Hj.
  pose proof (chained_nth c rows _ 0 i j q1 k1 q2 k2 (ref_chained c rows) Hij Hi Hj) as H.
  assert (K : 1 <= k1). { apply nth_error_In in Hi. apply ref_valid in Hi. lia. }
  pose proof (skip_to_gt c q1 k1 (firstn k1 (skipn q1 rows)) K) as G.
  split; [lia|]. split; [assumption|]. intro Es. unfold skip_to in H. rewrite Es in H. assumption.
Qed.

(* no valid match at an allowed start is omitted (this includes runs that are still accepting when
   the stream ends, i.e. what Flush reports at Stop): a position q at which some valid match starts
   is either reported, with its longest match, or lies before the position allowed by an earlier
   reported match *)
Theorem ref_complete : forall c rows q k0, valid c (firstn k0 (skipn q rows)) ->
  (exists k, In (q, k) (ref_matches c rows)) \/
  exists q0 k1, In (q0, k1) (ref_matches c rows) /\ q0 < q /\
                q < skip_to c q0 k1 (firstn k1 (skipn q0 rows)).
Proof.
  intros c rows q k0 V.
  assert (Hq : q < length rows).
  { destruct (le_lt_dec (length rows) q) as [H|H]; [|assumption]. rewrite skipn_all2 in V by assumption.
    destruct k0; simpl in V; contradiction. }
  destruct (longest_at c (skipn q rows)) as [k|] eqn:E.
  - destruct (scan_complete rows c 0 0 q k ltac:(lia) ltac:(lia)) as [A|[A|[q0 [k1 [A1 [A2 A3]]]]]].
    + rewrite Nat.sub_0_r. assumption.
    + left. exists k. assumption.
    + lia.
    + right. exists q0, k1. rewrite Nat.sub_0_r in A3. repeat split; assumption.
  - exfalso. apply (longest_at_none _ _ E k0). assumption.
Qed.

(* Flush: a valid match that reaches the last row of the partition at an allowed start is reported *)
Theorem ref_flush : forall c rows q, q < length rows -> valid c (skipn q rows) ->
  In (q, length rows - q) (ref_matches c rows) \/
  exists q0 k1, In (q0, k1) (ref_matches c rows) /\ q0 < q /\
                q < skip_to c q0 k1 (firstn k1 (skipn q0 rows)).
Proof.
  intros c rows q Hq V.
  assert (V' : valid c (firstn (length rows - q) (skipn q rows))).
  { rewrite <- (skipn_length q rows). rewrite firstn_all. assumption. }
  destruct (ref_complete c rows q _ V') as [[k H]|H]; [|right; assumption].
  left. pose proof (ref_valid _ _ _ _ H) as [_ [B _]]. pose proof (ref_longest _ _ _ _ H) as L.
  destruct (Nat.eq_dec k (length rows - q)) as [E|N]; [subst; assumption|].
  exfalso. apply (L (length rows - q)); [lia|lia|assumption].
Qed.

(* MATCH_NUMBER counts 1, 2, 3, ... in the order of the partition's matches *)
Lemma map_fst_combine : forall {A B} (a : list A) (b : list B), length a = length b -> map fst (combine a b) = a.
Proof.
  intros A B a. induction a as [|x a IH]; intros b H; destruct b; simpl in *; try discriminate; [reflexivity|].
  f_equal. apply IH. lia.
Qed.

Theorem ref_match_number : forall c rows,
  map (fun o : cobs => fst (fst (fst o))) (ref_obs c rows) = seq 1 (length (ref_matches c rows)).
Proof.
  intros c rows. unfold ref_obs, cep_number. rewrite map_map.
  rewrite <- (map_fst_combine (seq 1 (length (ref_matches c rows))) (ref_matches c rows)) at 2
    by (rewrite seq_length; reflexivity).
  apply map_ext. intros [mn [pos k]]. reflexivity.
Qed.

(* partitions: only the partition's own rows, in arrival order, matter *)
Theorem ref_partition_isolation : forall c s1 s2 p,
  part_rows p s1 = part_rows p s2 -> ref_part c s1 p = ref_part c s2 p.
Proof. intros c s1 s2 p H. unfold ref_part. rewrite H. reflexivity. Qed.

Theorem part_rows_other : forall p q r s1 s2, q <> p ->
  part_rows p (s1 ++ (q, r) :: s2) = part_rows p (s1 ++ s2).
Proof.
  intros p q r s1 s2 H. unfold part_rows. rewrite !filter_app. simpl.
  destruct (N.eqb q p) eqn:E; [apply N.eqb_eq in E; contradiction|]. reflexivity.
Qed.

(* ================================================================== the checker *)
Lemma obs_list_eqb_eq : forall a b, obs_list_eqb a b = true -> a = b.
Proof.
  induction a as [|x a IH]; intros b H; destruct b as [|y b]; simpl in H; try discriminate; [reflexivity|].
  apply andb_true_iff in H. destruct H as [H1 H2]. f_equal; [|apply IH; assumption].
  destruct x as [[[m1 f1] l1] n1]. destruct y as [[[m2 f2] l2] n2]. simpl in H1.
  repeat (apply andb_true_iff in H1; destruct H1 as [H1 ?]).
  apply Nat.eqb_eq in H1. apply Z.eqb_eq in H0. apply Z.eqb_eq in H3. apply Nat.eqb_eq in H. subst. reflexivity.
Qed.

(* a run of the checker without alarm means: the implementation reported exactly the reference's matches *)
Theorem chk_sound : forall c rows out, chk_C15 c rows out = None -> out = ref_obs c rows.
Proof.
  intros c rows out H. unfold chk_C15 in H.
  destruct (locate_all rows out); [|discriminate].
  repeat match type of H with (if negb ?b then _ else _) = _ => destruct b eqn:?; simpl in H; try discriminate end.
  match goal with E : obs_list_eqb _ _ = true |- _ => apply obs_list_eqb_eq in E; exact E end.
Qed.
