(* C20 — proofs about Model/Isolation.v:
   frame property of one Emit on the heap (caller's map and every older map untouched),
   stability of delivered rows, transparency of the expression cache, independence of instances. *)
From Coq Require Import Lia Arith.
From SV Require Import Model.Isolation.

(* ------------------------------------------------------------------ bytes *)
Lemma iso_bytes_eqb_eq : forall a b, bytes_eqb a b = true -> a = b.
Proof.
  induction a as [|x a IH]; destruct b as [|y b]; simpl; intros H; try discriminate; auto.
  apply andb_prop in H. destruct H as [H1 H2]. apply N.eqb_eq in H1. subst. f_equal. auto.
Qed.

Lemma iso_bytes_eqb_refl : forall a, bytes_eqb a a = true.
Proof. induction a as [|x a IH]; simpl; auto. rewrite N.eqb_refl. auto. Qed.

(* ------------------------------------------------------------------ heap *)
Lemma iso_hput_length : forall h a r, length (iso_hput h a r) = length h.
Proof. induction h as [|x h IH]; intros [|a] r; simpl; auto. Qed.

Lemma iso_hput_same : forall h a r, a < length h -> iso_hget (iso_hput h a r) a = r.
Proof.
  unfold iso_hget. induction h as [|x h IH]; intros [|a] r Hl; simpl in *; try lia; auto.
  apply IH. lia.
Qed.

Lemma iso_hput_other : forall h a b r, a <> b -> iso_hget (iso_hput h a r) b = iso_hget h b.
Proof.
  unfold iso_hget. induction h as [|x h IH]; intros [|a] [|b] r Hn; simpl; auto; try congruence.
Qed.

Lemma iso_hput_id : forall h a, iso_hput h a (iso_hget h a) = h.
Proof.
  unfold iso_hget. induction h as [|x h IH]; intros [|a]; simpl; auto. f_equal. apply IH.
Qed.

Lemma iso_hget_app_lt : forall h l b, b < length h -> iso_hget (h ++ l) b = iso_hget h b.
Proof. intros. unfold iso_hget. apply app_nth1. auto. Qed.

Lemma iso_hget_app_end : forall h r, iso_hget (h ++ [r]) (length h) = r.
Proof. intros. unfold iso_hget. rewrite app_nth2 by lia. rewrite Nat.sub_diag. reflexivity. Qed.

(* ------------------------------------------------------------------ no injection without a copy *)
Lemma iso_inject_none : forall P (E : iengine P) gks w c,
  existsb iso_has_paren gks = false -> iso_inject_gkeys E gks w c = (w, c).
Proof.
  induction gks as [|g r IH]; intros w c H; simpl in *; auto.
  apply orb_false_elim in H. destruct H as [H1 H2]. rewrite H1. auto.
Qed.

Lemma iso_calls_nil_where : forall q, iso_calls q = [] -> iso_where_uses_analytic (iq_where q) = false.
Proof.
  intros q H. unfold iso_calls in H. apply app_eq_nil in H. destruct H as [_ H].
  destruct (iq_where q); simpl in *; auto. discriminate.
Qed.

(* case analysis on every match of a hypothesis *)
Ltac iso_cases H :=
  repeat match type of H with
         | context [match ?x with _ => _ end] => destruct x eqn:?
         end.

(* enrichData hands out the caller's own map only to queries that inject nothing *)
Lemma iso_enrich_inplace : forall fixd q caller w0,
  iso_enrich fixd q caller = Some (true, w0) ->
  w0 = caller /\ iq_join q = None /\ (fixd = true -> iso_writes_into_row q = false).
Proof.
  intros fixd q caller w0 H. unfold iso_enrich in H.
  destruct (iq_join q) as [j|].
  - iso_cases H; inversion H.
  - destruct fixd; simpl in H.
    + destruct (iso_writes_into_row q); inversion H. auto.
    + inversion H. split; [auto|split; [auto|discriminate]].
Qed.

(* the flag and the working map reported by the row functions *)
Lemma iso_direct_shape : forall P (E : iengine P) fixd q st c caller st' c' res ip w,
  iso_direct E fixd q st c caller = (st', c', res, (ip, w)) ->
  (iso_enrich fixd q caller = None /\ ip = true /\ w = caller) \/
  (exists w0, iso_enrich fixd q caller = Some (ip, w0) /\ (iso_calls q = [] -> w = w0)).
Proof.
  intros P E fixd q st c caller st' c' res ip w H. unfold iso_direct in H.
  destruct (iso_enrich fixd q caller) as [[ip0 w0]|].
  - right. exists w0.
    destruct (iso_calls q) as [|cl cls] eqn:Hc.
    + rewrite (iso_calls_nil_where q Hc) in H.
      iso_cases H; inversion H; subst; auto.
    + assert (ip0 = ip) by (iso_cases H; inversion H; subst; auto).
      subst. split; [auto|discriminate].
  - left. inversion H. auto.
Qed.

Lemma iso_window_shape : forall P (E : iengine P) fixd q st c caller st' c' res ip w,
  iso_window E fixd q st c caller = (st', c', res, (ip, w)) ->
  (iso_enrich fixd q caller = None /\ ip = true /\ w = caller) \/
  (exists w0, iso_enrich fixd q caller = Some (ip, w0) /\
              (existsb iso_has_paren (iq_gkeys q) = false -> w = w0)).
Proof.
  intros P E fixd q st c caller st' c' res ip w H. unfold iso_window in H.
  destruct (iso_enrich fixd q caller) as [[ip0 w0]|].
  - right. exists w0. destruct (iso_cond (iq_where q) w0).
    + destruct (iso_inject_gkeys E (iq_gkeys q) w0 c) as [w1 c1] eqn:Hi. inversion H. subst.
      split; [auto|]. intros Hn. rewrite (iso_inject_none P E _ w0 c Hn) in Hi. inversion Hi. auto.
    + inversion H. subst. auto.
  - left. inversion H. auto.
Qed.

(* whenever the working map IS the caller's map, it is left as it was -- provided the query
   injects nothing or the code is the repaired one *)
Lemma iso_row_inplace_gen : forall P (E : iengine P) fixd q st c caller st' c' res w,
  (fixd = true \/ iso_writes_into_row q = false) ->
  iso_row E fixd q st c caller = (st', c', res, (true, w)) -> w = caller.
Proof.
  intros P E fixd q st c caller st' c' res w Hfix H. unfold iso_row in H.
  destruct (iq_window q) eqn:Hw.
  - apply iso_window_shape in H. destruct H as [[_ [_ H]]|[w0 [He Hn]]]; auto.
    apply iso_enrich_inplace in He. destruct He as [He1 [_ He2]]. subst w0.
    apply Hn. assert (Hwr : iso_writes_into_row q = false) by (destruct Hfix; auto).
    unfold iso_writes_into_row in Hwr. rewrite Hw in Hwr. exact Hwr.
  - apply iso_direct_shape in H. destruct H as [[_ [_ H]]|[w0 [He Hn]]]; auto.
    apply iso_enrich_inplace in He. destruct He as [He1 [_ He2]]. subst w0.
    apply Hn. assert (Hwr : iso_writes_into_row q = false) by (destruct Hfix; auto).
    unfold iso_writes_into_row in Hwr. rewrite Hw in Hwr.
    destruct (iso_calls q); [auto|discriminate].
Qed.

Lemma iso_row_inplace : forall P (E : iengine P) q st c caller st' c' res w,
  iso_row E true q st c caller = (st', c', res, (true, w)) -> w = caller.
Proof. intros. eapply iso_row_inplace_gen; eauto. Qed.

(* ------------------------------------------------------------------ frame property of one Emit *)
Definition iso_frame (h h' : iheap) : Prop :=
  length h <= length h' /\ forall b, b < length h -> iso_hget h' b = iso_hget h b.

Lemma iso_frame_refl : forall h, iso_frame h h.
Proof. intros h. split; auto. Qed.

Lemma iso_frame_trans : forall h1 h2 h3, iso_frame h1 h2 -> iso_frame h2 h3 -> iso_frame h1 h3.
Proof.
  intros h1 h2 h3 [L1 F1] [L2 F2]. split; [lia|].
  intros b Hb. rewrite F2 by lia. apply F1. auto.
Qed.

Lemma iso_frame_app : forall h l, iso_frame h (h ++ l).
Proof.
  intros h l. split; [rewrite app_length; lia|]. intros b Hb. apply iso_hget_app_lt. auto.
Qed.

Lemma iso_process_frame : forall P (E : iengine P) q st c h a st' c' h' out,
  iso_process E true q st c h a = (st', c', h', out) -> iso_frame h h'.
Proof.
  intros P E q st c h a st' c' h' out H. unfold iso_process in H.
  destruct (iso_row E true q st c (iso_hget h a)) as [[[st1 c1] res] [inplace w]] eqn:Hr.
  assert (F1 : iso_frame h (if inplace then iso_hput h a w else h ++ [w])).
  { destruct inplace.
    - apply iso_row_inplace in Hr. subst w. rewrite iso_hput_id. apply iso_frame_refl.
    - apply iso_frame_app. }
  destruct res as [r|].
  - destruct (iq_window q).
    + inversion H. subst. exact F1.
    + inversion H. subst. eapply iso_frame_trans; [exact F1|apply iso_frame_app].
  - inversion H. subst. exact F1.
Qed.

(* the caller's own map *)
Lemma iso_caller_unchanged : forall P (E : iengine P) q st c h a st' c' h' out,
  a < length h -> iso_process E true q st c h a = (st', c', h', out) -> iso_hget h' a = iso_hget h a.
Proof. intros. eapply iso_process_frame in H0. destruct H0 as [_ F]. apply F. auto. Qed.

(* direct path: the row given to the sink (or returned by EmitSync) is a map allocated by this very
   Emit - not the caller's map, not any map that existed before.  So whatever the receiver then does
   to the row it was given (here: overwrite it with any content r) changes none of the older maps. *)
Lemma iso_delivered_fresh : forall P (E : iengine P) q st c h a st' c' h' d,
  iq_window q = false ->
  iso_process E true q st c h a = (st', c', h', Some d) ->
  length h <= d /\ d < length h' /\
  forall r b, b < length h -> iso_hget (iso_hput h' d r) b = iso_hget h b.
Proof.
  intros P E q st c h a st' c' h' d Hw H.
  pose proof H as H2. apply iso_process_frame in H2. destruct H2 as [L F].
  unfold iso_process in H.
  destruct (iso_row E true q st c (iso_hget h a)) as [[[st1 c1] res] [inplace w]] eqn:Hr.
  destruct res as [r0|]; [|inversion H].
  rewrite Hw in H. inversion H. subst. clear H.
  remember (if inplace then iso_hput h a w else h ++ [w]) as h1 eqn:Hh1.
  assert (L1 : length h <= length h1).
  { subst h1. destruct inplace; [rewrite iso_hput_length; lia | rewrite app_length; simpl; lia]. }
  clear Hh1.
  split; [exact L1|]. split; [rewrite app_length; simpl; lia|].
  intros r b Hb. rewrite iso_hput_other by lia. apply F. exact Hb.
Qed.

(* content of the delivered row = the result computed by the row function *)
Lemma iso_process_out : forall P (E : iengine P) fixd q st c h a st' c' h' out st1 c1 res m,
  a < length h ->
  iso_row E fixd q st c (iso_hget h a) = (st1, c1, res, m) ->
  iso_process E fixd q st c h a = (st', c', h', out) ->
  st' = st1 /\ c' = c1 /\
  match out with Some d => Some (iso_hget h' d) | None => None end = res /\
  match out with Some d => d < length h' | None => True end.
Proof.
  intros P E fixd q st c h a st' c' h' out st1 c1 res [inplace w] Ha Hr H.
  unfold iso_process in H. rewrite Hr in H.
  destruct res as [r|].
  - destruct (iq_window q) eqn:Hw.
    + inversion H. subst. split; [auto|split; [auto|]].
      (* on the window path the delivered row is the working map *)
      unfold iso_row in Hr. rewrite Hw in Hr. unfold iso_window in Hr.
      destruct (iso_enrich fixd q (iso_hget h a)) as [[ip w0]|].
      * destruct (iso_cond (iq_where q) w0).
        -- destruct (iso_inject_gkeys E (iq_gkeys q) w0 c) as [w1 c2]. inversion Hr. subst.
           destruct inplace.
           ++ rewrite iso_hput_same by auto. rewrite iso_hput_length. auto.
           ++ rewrite iso_hget_app_end. rewrite app_length. simpl. split; [auto|lia].
        -- inversion Hr.
      * inversion Hr.
    + inversion H. subst. split; [auto|split; [auto|]].
      rewrite iso_hget_app_end. rewrite app_length. simpl. split; [auto|lia].
  - inversion H. subst. auto.
Qed.

(* ------------------------------------------------------------------ system level: frames *)
Lemma iso_sys_step_frame : forall P (E : iengine P) qs s ev s' o,
  iso_sys_step E true qs s ev = (s', o) -> iso_frame (is_heap s) (is_heap s').
Proof.
  intros P E qs s ev s' o H. unfold iso_sys_step in H.
  destruct (iso_process E true (qs (fst ev)) (is_st s (fst ev)) (is_cache s) (is_heap s ++ [snd ev]) (length (is_heap s)))
    as [[[st1 c1] h1] out] eqn:Hp.
  inversion H. subst. simpl.
  eapply iso_frame_trans; [apply iso_frame_app|]. eapply iso_process_frame. exact Hp.
Qed.

Lemma iso_sys_run_frame : forall P (E : iengine P) qs evs s s' os,
  iso_sys_run E true qs s evs = (s', os) -> iso_frame (is_heap s) (is_heap s').
Proof.
  induction evs as [|ev r IH]; intros s s' os H; simpl in H.
  - inversion H. apply iso_frame_refl.
  - destruct (iso_sys_step E true qs s ev) as [s1 o] eqn:H1.
    destruct (iso_sys_run E true qs s1 r) as [s2 os2] eqn:H2.
    inversion H. subst.
    eapply iso_frame_trans; [eapply iso_sys_step_frame; exact H1|eapply IH; exact H2].
Qed.

(* every address reported by a run (caller's maps and delivered rows) is allocated *)
Lemma iso_sys_step_addr : forall P (E : iengine P) fixd qs s ev s' i a out,
  iso_sys_step E fixd qs s ev = (s', (i, a, out)) ->
  a = length (is_heap s) /\ a < length (is_heap s') /\
  match out with Some d => d < length (is_heap s') | None => True end /\
  length (is_heap s) < length (is_heap s').
Proof.
  intros P E fixd qs s ev s' i a out H. unfold iso_sys_step in H.
  destruct (iso_process E fixd (qs (fst ev)) (is_st s (fst ev)) (is_cache s) (is_heap s ++ [snd ev]) (length (is_heap s)))
    as [[[st1 c1] h1] out1] eqn:Hp.
  inversion H. subst. simpl.
  assert (Ha : length (is_heap s) < length (is_heap s ++ [snd ev])) by (rewrite app_length; simpl; lia).
  destruct (iso_row E fixd (qs (fst ev)) (is_st s (fst ev)) (is_cache s) (iso_hget (is_heap s ++ [snd ev]) (length (is_heap s))))
    as [[[st2 c2] res] m] eqn:Hr.
  destruct (iso_process_out P E fixd _ _ _ _ _ _ _ _ _ _ _ _ _ Ha Hr Hp) as [_ [_ [_ Hd]]].
  assert (Hl : length (is_heap s ++ [snd ev]) <= length h1).
  { unfold iso_process in Hp. rewrite Hr in Hp. destruct m as [inplace w].
    match type of Hp with context [if inplace then ?x else ?y] => set (X := if inplace then x else y) in * end.
    assert (Hq : length (is_heap s ++ [snd ev]) <= length X).
    { unfold X. destruct inplace; [rewrite iso_hput_length; lia|rewrite !app_length; simpl; lia]. }
    destruct res as [r|].
    - destruct (iq_window (qs (fst ev))); inversion Hp; subst h1; auto.
      rewrite (app_length X [r]). simpl. lia.
    - inversion Hp. subst h1. auto. }
  repeat split; auto; lia.
Qed.

(* rows given to sinks (and callers' maps) during a first part of a history are the same objects
   with the same content after any continuation *)
Lemma iso_sys_run_addrs : forall P (E : iengine P) qs evs s s' os,
  iso_sys_run E true qs s evs = (s', os) ->
  forall i a out, In (i, a, out) os ->
    a < length (is_heap s') /\ match out with Some d => d < length (is_heap s') | None => True end.
Proof.
  induction evs as [|ev r IH]; intros s s' os H i a out Hin; simpl in H.
  - inversion H. subst. inversion Hin.
  - destruct (iso_sys_step E true qs s ev) as [s1 o] eqn:H1.
    destruct (iso_sys_run E true qs s1 r) as [s2 os2] eqn:H2.
    inversion H. subst. destruct Hin as [Heq|Hin].
    + subst o. apply iso_sys_step_addr in H1. destruct H1 as [_ [Ha [Hd _]]].
      apply iso_sys_run_frame in H2. destruct H2 as [L _].
      split; [lia|]. destruct out; auto. lia.
    + eapply IH; eauto.
Qed.

Lemma iso_sink_rows_stable : forall P (E : iengine P) qs evs1 evs2 s0 s1 os1 s2 os2,
  iso_sys_run E true qs s0 evs1 = (s1, os1) ->
  iso_sys_run E true qs s1 evs2 = (s2, os2) ->
  forall i a d, In (i, a, Some d) os1 ->
    iso_hget (is_heap s2) d = iso_hget (is_heap s1) d /\ iso_hget (is_heap s2) a = iso_hget (is_heap s1) a.
Proof.
  intros P E qs evs1 evs2 s0 s1 os1 s2 os2 H1 H2 i a d Hin.
  destruct (iso_sys_run_addrs P E qs evs1 s0 s1 os1 H1 i a (Some d) Hin) as [Ha Hd].
  apply iso_sys_run_frame in H2. destruct H2 as [_ F]. split; apply F; auto.
Qed.

(* ------------------------------------------------------------------ the expression cache *)
Definition iso_sound {P} (E : iengine P) : Prop :=
  forall t sh p r v, ie_compile E t sh = Some p -> ie_exec E p r = Some v -> ie_fresh E t r = Some v.

Definition iso_cache_ok {P} (E : iengine P) (c : icache P) : Prop :=
  forall t p, iso_cfind t c = Some p -> exists sh, ie_compile E t sh = Some p.

Lemma iso_cache_ok_nil : forall P (E : iengine P), iso_cache_ok E [].
Proof. intros P E t p H. inversion H. Qed.

Lemma iso_cache_transparent : forall P (E : iengine P) c t r,
  iso_sound E -> iso_cache_ok E c ->
  fst (iso_eval_cached E c t r) = ie_fresh E t r /\ iso_cache_ok E (snd (iso_eval_cached E c t r)).
Proof.
  intros P E c t r Hs Hok. unfold iso_eval_cached.
  destruct (iso_cfind t c) as [p|] eqn:Hf.
  - destruct (Hok t p Hf) as [sh Hc].
    destruct (ie_exec E p r) as [v|] eqn:He; simpl; split; auto.
    symmetry. eapply Hs; eauto.
  - destruct (ie_compile E t (iso_shape_of r)) as [p|] eqn:Hc.
    + assert (Hok' : iso_cache_ok E ((t, p) :: c)).
      { intros t' p' H. simpl in H. destruct (bytes_eqb t' t) eqn:Hb.
        - inversion H. subst. apply iso_bytes_eqb_eq in Hb. subst. eauto.
        - apply Hok. auto. }
      destruct (ie_exec E p r) as [v|] eqn:He; simpl; split; auto.
      symmetry. eapply Hs; eauto.
    + simpl. split; auto.
Qed.

(* ------------------------------------------------------------------ the retry is necessary
   Instance A evaluates the text t on a row rA, which puts a program specialised on rA's shape into the
   process-wide cache; that program fails at run time on instance B's row rB, although the program
   compiled on rB's own shape runs and returns v.  With the failure taken as final (iso_eval_final) B is
   told "error" next to A and v alone; the code (iso_eval_cached, which retries on the env path) tells B
   v in both situations, for every sound engine. *)
Lemma iso_cfind_hd : forall P (t : bytes) (p : P) c, iso_cfind t ((t, p) :: c) = Some p.
Proof. intros. simpl. rewrite iso_bytes_eqb_refl. reflexivity. Qed.

Lemma iso_final_interference : forall P (E : iengine P) t rA rB pA pB v,
  ie_compile E t (iso_shape_of rA) = Some pA -> ie_exec E pA rB = None ->
  ie_compile E t (iso_shape_of rB) = Some pB -> ie_exec E pB rB = Some v ->
  fst (iso_eval_final E (snd (iso_eval_final E [] t rA)) t rB) = None /\
  fst (iso_eval_final E [] t rB) = Some v /\
  (iso_sound E ->
   fst (iso_eval_cached E (snd (iso_eval_cached E [] t rA)) t rB) = Some v /\
   fst (iso_eval_cached E [] t rB) = Some v).
Proof.
  intros P E t rA rB pA pB v HcA HeA HcB HeB.
  assert (HfA : snd (iso_eval_final E [] t rA) = [(t, pA)]).
  { unfold iso_eval_final. simpl. rewrite HcA. reflexivity. }
  split; [|split].
  - rewrite HfA. unfold iso_eval_final. rewrite iso_cfind_hd. simpl. exact HeA.
  - unfold iso_eval_final. simpl. rewrite HcB. simpl. exact HeB.
  - intro Hs.
    assert (Hfr : ie_fresh E t rB = Some v) by (eapply Hs; eauto).
    split.
    + assert (Hok : iso_cache_ok E (snd (iso_eval_cached E [] t rA))).
      { destruct (iso_cache_transparent P E [] t rA Hs (iso_cache_ok_nil P E)) as [_ T2]. exact T2. }
      destruct (iso_cache_transparent P E (snd (iso_eval_cached E [] t rA)) t rB Hs Hok) as [T _].
      rewrite T. exact Hfr.
    + destruct (iso_cache_transparent P E [] t rB Hs (iso_cache_ok_nil P E)) as [T _].
      rewrite T. exact Hfr.
Qed.

(* cache-free meaning of the row functions: every expression is computed by the env path *)
Fixpoint iso_project_pure {P} (E : iengine P) (its : list iitem) (w : irow) (ares : list (bytes * ival)) (res : irow) : irow :=
  match its with
  | [] => res
  | ItField f out :: r => iso_project_pure E r w ares (iso_set out (iso_opt (iso_lookup f w)) res)
  | ItPath a b out :: r =>
      let v := match iso_lookup a w with
               | Some (IMap m) => iso_opt (iso_lookup b m)
               | _ => INull
               end in
      iso_project_pure E r w ares (iso_set out v res)
  | ItLag _ al :: r => iso_project_pure E r w ares (iso_set al (iso_opt (iso_lookup al ares)) res)
  | ItExpr t out :: r => iso_project_pure E r w ares (iso_set out (iso_opt (ie_fresh E t w)) res)
  end.

Fixpoint iso_inject_pure {P} (E : iengine P) (gks : list bytes) (w : irow) : irow :=
  match gks with
  | [] => w
  | g :: r =>
      if iso_has_paren g then
        match ie_fresh E g w with
        | Some x => iso_inject_pure E r (iso_set g x w)
        | None => iso_inject_pure E r w
        end
      else iso_inject_pure E r w
  end.

Lemma iso_project_cache : forall P (E : iengine P) its w ares c res,
  iso_sound E -> iso_cache_ok E c ->
  fst (iso_project E its w ares c res) = iso_project_pure E its w ares res /\
  iso_cache_ok E (snd (iso_project E its w ares c res)).
Proof.
  induction its as [|it r IH]; intros w ares c res Hs Hok; simpl; auto.
  destruct it as [f out|a b out|f al|t out]; try (apply IH; auto).
  destruct (iso_eval_cached E c t w) as [v c1] eqn:He.
  destruct (iso_cache_transparent P E c t w Hs Hok) as [T1 T2]. rewrite He in T1, T2. simpl in T1, T2.
  subst v. apply IH; auto.
Qed.

Lemma iso_inject_cache : forall P (E : iengine P) gks w c,
  iso_sound E -> iso_cache_ok E c ->
  fst (iso_inject_gkeys E gks w c) = iso_inject_pure E gks w /\
  iso_cache_ok E (snd (iso_inject_gkeys E gks w c)).
Proof.
  induction gks as [|g r IH]; intros w c Hs Hok; simpl; auto.
  destruct (iso_has_paren g); [|apply IH; auto].
  destruct (iso_eval_cached E c g w) as [v c1] eqn:He.
  destruct (iso_cache_transparent P E c g w Hs Hok) as [T1 T2]. rewrite He in T1, T2. simpl in T1, T2.
  subst v. destruct (ie_fresh E g w); apply IH; auto.
Qed.

Definition iso_direct_pure {P} (E : iengine P) (fixd : bool) (q : iquery) (st : istate) (caller : irow)
  : istate * option irow * (bool * irow) :=
  match iso_enrich fixd q caller with
  | None => (st, None, (true, caller))
  | Some (inplace, w0) =>
      let calls := iso_calls q in
      let finish (st' : istate) (ares : list (bytes * ival)) (w1 : irow) :=
        (st', Some (iso_project_pure E (iq_items q) w1 ares (if iq_star q then w1 else [])), (inplace, w1)) in
      if iso_where_uses_analytic (iq_where q) then
        let '(ares, st') := iso_analytic st calls w0 in
        let w1 := iso_set_all ares w0 in
        if iso_cond (iq_where q) w1 then finish st' ares w1
        else (st', None, (inplace, w1))
      else if iso_cond (iq_where q) w0 then
        match calls with
        | [] => finish st [] w0
        | _ => let '(ares, st') := iso_analytic st calls w0 in
               finish st' ares (iso_set_all ares w0)
        end
      else (st, None, (inplace, w0))
  end.

Definition iso_window_pure {P} (E : iengine P) (fixd : bool) (q : iquery) (st : istate) (caller : irow)
  : istate * option irow * (bool * irow) :=
  match iso_enrich fixd q caller with
  | None => (st, None, (true, caller))
  | Some (inplace, w0) =>
      if iso_cond (iq_where q) w0 then
        let w1 := iso_inject_pure E (iq_gkeys q) w0 in (st, Some w1, (inplace, w1))
      else (st, None, (inplace, w0))
  end.

Definition iso_row_pure {P} (E : iengine P) (fixd : bool) (q : iquery) (st : istate) (caller : irow) :=
  if iq_window q then iso_window_pure E fixd q st caller else iso_direct_pure E fixd q st caller.

Lemma iso_row_cache : forall P (E : iengine P) fixd q st c caller,
  iso_sound E -> iso_cache_ok E c ->
  let '(st', c', res, m) := iso_row E fixd q st c caller in
  (st', res, m) = iso_row_pure E fixd q st caller /\ iso_cache_ok E c'.
Proof.
  intros P E fixd q st c caller Hs Hok. unfold iso_row, iso_row_pure.
  destruct (iq_window q).
  - unfold iso_window, iso_window_pure.
    destruct (iso_enrich fixd q caller) as [[inplace w0]|]; [|auto].
    destruct (iso_cond (iq_where q) w0); [|auto].
    destruct (iso_inject_cache P E (iq_gkeys q) w0 c Hs Hok) as [I1 I2].
    destruct (iso_inject_gkeys E (iq_gkeys q) w0 c) as [w1 c1]. simpl in I1, I2. subst w1. auto.
  - unfold iso_direct, iso_direct_pure.
    destruct (iso_enrich fixd q caller) as [[inplace w0]|]; [|auto].
    destruct (iso_where_uses_analytic (iq_where q)).
    + destruct (iso_analytic st (iso_calls q) w0) as [ares st1].
      destruct (iso_cond (iq_where q) (iso_set_all ares w0)); [|auto].
      match goal with |- context [iso_project E ?its ?w ?a c ?r] =>
        destruct (iso_project_cache P E its w a c r Hs Hok) as [J1 J2];
        destruct (iso_project E its w a c r) as [res c1] end.
      simpl in J1, J2. subst res. auto.
    + destruct (iso_cond (iq_where q) w0); [|auto].
      destruct (iso_calls q) as [|cl cls].
      * match goal with |- context [iso_project E ?its ?w ?a c ?r] =>
          destruct (iso_project_cache P E its w a c r Hs Hok) as [J1 J2];
          destruct (iso_project E its w a c r) as [res c1] end.
        simpl in J1, J2. subst res. auto.
      * destruct (iso_analytic st (cl :: cls) w0) as [ares st1].
        match goal with |- context [iso_project E ?its ?w ?a c ?r] =>
          destruct (iso_project_cache P E its w a c r Hs Hok) as [J1 J2];
          destruct (iso_project E its w a c r) as [res c1] end.
        simpl in J1, J2. subst res. auto.
Qed.

(* one instance alone, cache-free *)
Fixpoint iso_solo_pure {P} (E : iengine P) (q : iquery) (st : istate) (rows : list irow) : list (option irow) :=
  match rows with
  | [] => []
  | r :: rs =>
      let '(st', res, _) := iso_row_pure E true q st r in
      res :: iso_solo_pure E q st' rs
  end.

Lemma iso_solo_cache : forall P (E : iengine P) q rows st c,
  iso_sound E -> iso_cache_ok E c -> iso_solo E q st c rows = iso_solo_pure E q st rows.
Proof.
  induction rows as [|r rs IH]; intros st c Hs Hok; simpl; auto.
  pose proof (iso_row_cache P E true q st c r Hs Hok) as H.
  destruct (iso_row E true q st c r) as [[[st1 c1] res] m]. destruct H as [H1 H2].
  rewrite <- H1. f_equal. apply IH; auto.
Qed.

(* ------------------------------------------------------------------ independence of instances *)
Lemma iso_sys_indep_pure : forall P (E : iengine P) qs i evs s,
  iso_sound E -> iso_cache_ok E (is_cache s) ->
  iso_proj_out i (iso_sys_outputs E true qs s evs) = iso_solo_pure E (qs i) (is_st s i) (iso_proj_in i evs).
Proof.
  intros P E qs i. induction evs as [|ev r IH]; intros s Hs Hok; simpl; auto.
  unfold iso_sys_step.
  set (h := is_heap s ++ [snd ev]). set (a := length (is_heap s)).
  assert (Ha : a < length h) by (unfold h, a; rewrite app_length; simpl; lia).
  assert (Hg : iso_hget h a = snd ev) by (unfold h, a; apply iso_hget_app_end).
  destruct (iso_process E true (qs (fst ev)) (is_st s (fst ev)) (is_cache s) h a) as [[[st1 c1] h1] out] eqn:Hp.
  destruct (iso_row E true (qs (fst ev)) (is_st s (fst ev)) (is_cache s) (iso_hget h a)) as [[[st2 c2] res] m] eqn:Hr.
  destruct (iso_process_out P E true _ _ _ _ _ _ _ _ _ _ _ _ _ Ha Hr Hp) as [E1 [E2 [E3 _]]]. subst st1 c1.
  pose proof (iso_row_cache P E true (qs (fst ev)) (is_st s (fst ev)) (is_cache s) (iso_hget h a) Hs Hok) as Hc.
  rewrite Hr in Hc. destruct Hc as [Hc1 Hc2]. rewrite Hg in Hc1.
  unfold iso_proj_out, iso_proj_in in *. simpl.
  destruct (Nat.eqb (fst ev) i) eqn:Hi.
  - apply Nat.eqb_eq in Hi. simpl. rewrite Hi in *. rewrite <- Hc1. rewrite E3. f_equal.
    rewrite IH; auto. simpl. rewrite Nat.eqb_refl. reflexivity.
  - rewrite IH; auto. simpl. rewrite Nat.eqb_sym. rewrite Hi. reflexivity.
Qed.

Theorem iso_instances_independent : forall P (E : iengine P) qs i evs,
  iso_sound E ->
  iso_proj_out i (iso_sys_outputs E true qs (iso_sys0 qs) evs) =
  iso_solo E (qs i) (iso_st0 (qs i)) [] (iso_proj_in i evs).
Proof.
  intros P E qs i evs Hs.
  rewrite iso_solo_cache by (auto; apply iso_cache_ok_nil).
  rewrite iso_sys_indep_pure by (auto; apply iso_cache_ok_nil). reflexivity.
Qed.

(* ------------------------------------------------------------------ the concrete engine is sound *)
Lemma iso_eng0_sound : iso_sound iso_eng0.
Proof.
  intros t sh p r v Hc He. simpl in *.
  destruct (iso_parse t) as [[fn f]|]; [|discriminate].
  inversion Hc. subst p. clear Hc.
  destruct (iso_shape_find f sh); auto.
  destruct (iso_lookup f r) as [[| | s | |]|]; try discriminate. auto.
Qed.

(* ------------------------------------------------------------------ the code before the repair *)
Definition iso_kb (s : list N) : bytes := s.
Definition iso_q_lag : iquery :=   (* SELECT id, lag(v) AS prev FROM stream *)
  {| iq_join := None; iq_where := ICnone; iq_star := false;
     iq_items := [ItField [105; 100]%N [105; 100]%N; ItLag [118]%N [112; 114; 101; 118]%N];
     iq_window := false; iq_gkeys := [] |}.
Definition iso_row_lag : irow := [([105; 100]%N, IInt 1); ([118]%N, IInt 10)].

Definition iso_gk_upper_dev : bytes := [117; 112; 112; 101; 114; 40; 100; 101; 118; 41]%N.   (* "upper(dev)" *)
Definition iso_q_gk : iquery :=    (* ... GROUP BY upper(dev), <window> *)
  {| iq_join := None; iq_where := ICnone; iq_star := false; iq_items := [];
     iq_window := true; iq_gkeys := [iso_gk_upper_dev] |}.
Definition iso_row_dev : irow := [([100; 101; 118]%N, IStr [97]%N)].

Lemma iso_asis_lag :
  let '(_, _, h', _) := iso_process iso_eng0 false iso_q_lag (iso_st0 iso_q_lag) [] [iso_row_lag] 0 in
  iso_hget h' 0 = iso_row_lag ++ [([112; 114; 101; 118]%N, INull)].
Proof. vm_compute. reflexivity. Qed.

Lemma iso_asis_gk :
  let '(_, _, h', _) := iso_process iso_eng0 false iso_q_gk (iso_st0 iso_q_gk) [] [iso_row_dev] 0 in
  iso_hget h' 0 = iso_row_dev ++ [(iso_gk_upper_dev, IStr [65]%N)].
Proof. vm_compute. reflexivity. Qed.

Lemma iso_asis_refuted :
  exists q row, let '(_, _, h', _) := iso_process iso_eng0 false q (iso_st0 q) [] [row] 0 in iso_hget h' 0 <> row.
Proof.
  exists iso_q_lag, iso_row_lag. pose proof iso_asis_lag as H.
  destruct (iso_process iso_eng0 false iso_q_lag (iso_st0 iso_q_lag) [] [iso_row_lag] 0) as [[[a b] h'] o].
  rewrite H. intro Hc. apply (f_equal (@length _)) in Hc. simpl in Hc. discriminate.
Qed.

(* before the repair the caller's map was safe exactly for the queries that inject nothing, or JOIN *)
Lemma iso_row_inplace_asis : forall P (E : iengine P) q st c caller st' c' res w,
  iso_writes_into_row q = false ->
  iso_row E false q st c caller = (st', c', res, (true, w)) -> w = caller.
Proof. intros. eapply iso_row_inplace_gen; eauto. Qed.

Lemma iso_caller_unchanged_asis_partial : forall P (E : iengine P) q st c h a st' c' h' out,
  iso_writes_into_row q = false ->
  a < length h -> iso_process E false q st c h a = (st', c', h', out) -> iso_hget h' a = iso_hget h a.
Proof.
  intros P E q st c h a st' c' h' out Hwr Ha H. unfold iso_process in H.
  destruct (iso_row E false q st c (iso_hget h a)) as [[[st1 c1] res] [inplace w]] eqn:Hr.
  assert (F1 : iso_frame h (if inplace then iso_hput h a w else h ++ [w])).
  { destruct inplace.
    - apply iso_row_inplace_asis in Hr; auto. subst w. rewrite iso_hput_id. apply iso_frame_refl.
    - apply iso_frame_app. }
  assert (F : iso_frame h h').
  { destruct res as [r|].
    - destruct (iq_window q).
      + inversion H. subst. exact F1.
      + inversion H. subst. eapply iso_frame_trans; [exact F1|apply iso_frame_app].
    - inversion H. subst. exact F1. }
  destruct F as [_ F]. apply F. auto.
Qed.
