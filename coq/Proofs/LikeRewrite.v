(* Soundness of convertLikeToFunction: the operator chosen for each pattern class
   (==, true, contains, endsWith, startsWith, like_match) decides exactly LIKE. *)
From Coq Require Import Arith Lia.
From SV Require Import Model.Like Proofs.LikeProofs.

Lemma bytes_eqb_eq a b : bytes_eqb a b = true <-> a = b.
Proof.
  revert b; induction a as [|x a IH]; intros [|y b]; cbn; split; intros H; try congruence; try discriminate.
  - apply andb_true_iff in H as [H1 H2]. apply N.eqb_eq in H1. apply IH in H2. congruence.
  - inversion H; subst. rewrite N.eqb_refl. cbn. apply IH. reflexivity.
Qed.

Lemma has_prefix_iff t p : has_prefix t p = true <-> exists r, t = p ++ r.
Proof.
  revert t; induction p as [|x p IH]; intros t.
  - cbn. split; [intros _; exists t; reflexivity|reflexivity].
  - destruct t as [|c t]; cbn [has_prefix].
    + split; [discriminate|intros [r Hr]; discriminate].
    + rewrite andb_true_iff, N.eqb_eq, IH. split.
      * intros [-> [r ->]]. exists r. reflexivity.
      * intros [r Hr]. inversion Hr; subst. split; [reflexivity|exists r; reflexivity].
Qed.

Lemma has_suffix_iff t p : has_suffix t p = true <-> exists r, t = r ++ p.
Proof.
  unfold has_suffix. rewrite has_prefix_iff. split.
  - intros [r Hr]. exists (rev r). apply (f_equal (@rev _)) in Hr.
    rewrite rev_involutive, rev_app_distr, rev_involutive in Hr. exact Hr.
  - intros [r ->]. exists (rev r). apply rev_app_distr.
Qed.

Lemma contains_iff t p : contains t p = true <-> exists a b, t = a ++ p ++ b.
Proof.
  induction t as [|c t IH]; cbn [contains].
  - rewrite orb_false_r, has_prefix_iff. split.
    + intros [r Hr]. exists [], r. exact Hr.
    + intros [a [b H]]. destruct a; [exists b; exact H|discriminate].
  - rewrite orb_true_iff, has_prefix_iff, IH. split.
    + intros [[r Hr]|[a [b H]]]; [exists [], r; exact Hr|exists (c :: a), b; rewrite H; reflexivity].
    + intros [[|a0 a] [b H]]; [left; exists b; exact H|right].
      inversion H; subst. exists a, b. reflexivity.
Qed.

Definition nowild (s : bytes) : Prop := has us s = false /\ has pct s = false.

Lemma nowild_cons x s : nowild (x :: s) <-> (N.eqb us x = false /\ N.eqb pct x = false) /\ nowild s.
Proof. unfold nowild, has. cbn. rewrite !orb_false_iff. tauto. Qed.

Lemma isp_false x : N.eqb pct x = false -> isp x = false.
Proof. unfold isp. rewrite N.eqb_sym. auto. Qed.

Lemma like_app_nowild core q t :
  nowild core -> (like (core ++ q) t = true <-> exists r, t = core ++ r /\ like q r = true).
Proof.
  revert t; induction core as [|x core IH]; intros t Hn.
  - cbn. split; [intros H; exists t; auto|intros [r [-> H]]; exact H].
  - apply nowild_cons in Hn as [[Hu Hp] Hn]. cbn [app].
    destruct t as [|c t].
    + rewrite like_lit_nil by (apply isp_false; exact Hp). split; [discriminate|intros [r [Hr _]]; discriminate].
    + rewrite like_lit by (apply isp_false; exact Hp). rewrite andb_true_iff, (IH t Hn).
      unfold lit. rewrite N.eqb_sym, Hu. cbn. rewrite N.eqb_eq. split.
      * intros [-> [r [-> H]]]. exists r. auto.
      * intros [r [Hr H]]. inversion Hr; subst. split; [reflexivity|exists r; auto].
Qed.

Lemma like_nowild p t : nowild p -> (like p t = true <-> t = p).
Proof.
  intros Hn. rewrite <- (app_nil_r p) at 1. rewrite like_app_nowild by exact Hn. split.
  - intros [r [-> H]]. destruct r; [apply app_nil_r|discriminate].
  - intros ->. exists []. split; [symmetry; apply app_nil_r|reflexivity].
Qed.

Lemma anyb_iff q t : anyb q t = true <-> exists a b, t = a ++ b /\ like q b = true.
Proof.
  induction t as [|c t IH]; cbn [anyb].
  - rewrite orb_false_r. split.
    + intros H. exists [], []. auto.
    + intros [a [b [H1 H2]]]. symmetry in H1. apply app_eq_nil in H1 as [_ ->]. exact H2.
  - rewrite orb_true_iff, IH. split.
    + intros [H|[a [b [-> H]]]]; [exists [], (c :: t); auto|exists (c :: a), b; auto].
    + intros [[|a0 a] [b [H1 H2]]]; [left; cbn in H1; subst; exact H2|right].
      inversion H1; subst. exists a, b. auto.
Qed.

Lemma pct_isp : isp pct = true. Proof. reflexivity. Qed.

Lemma like_pcts_app n q t : like (repeat pct (S n) ++ q) t = anyb q t.
Proof.
  revert t; induction n as [|n IH]; intros t.
  - cbn [repeat app]. apply like_pct, pct_isp.
  - change (repeat pct (S (S n)) ++ q) with (pct :: (repeat pct (S n) ++ q)).
    rewrite like_pct by apply pct_isp.
    apply eq_true_iff_eq. rewrite !anyb_iff. split.
    + intros [a [b [-> H]]]. rewrite IH in H. apply anyb_iff in H as [a' [b' [-> H]]].
      exists (a ++ a'), b'. rewrite app_assoc. auto.
    + intros [a [b [-> H]]]. exists a, b. split; [reflexivity|]. rewrite IH. apply like_anyb, H.
Qed.

Lemma like_pcts n s : like (repeat pct (S n)) s = true.
Proof.
  rewrite <- (app_nil_r (repeat pct (S n))), like_pcts_app. apply anyb_iff.
  exists s, []. split; [symmetry; apply app_nil_r|reflexivity].
Qed.

(* ---- the four pattern classes ---- *)
Lemma class_exact core t : nowild core -> like core t = bytes_eqb t core.
Proof. intros Hn. apply eq_true_iff_eq. rewrite like_nowild, bytes_eqb_eq by exact Hn. reflexivity. Qed.

Lemma class_starts core m t : nowild core -> like (core ++ repeat pct (S m)) t = has_prefix t core.
Proof.
  intros Hn. apply eq_true_iff_eq. rewrite like_app_nowild, has_prefix_iff by exact Hn. split.
  - intros [r [-> _]]. exists r. reflexivity.
  - intros [r ->]. exists r. split; [reflexivity|apply like_pcts].
Qed.

Lemma class_ends core n t : nowild core -> like (repeat pct (S n) ++ core) t = has_suffix t core.
Proof.
  intros Hn. rewrite like_pcts_app. apply eq_true_iff_eq. rewrite anyb_iff, has_suffix_iff. split.
  - intros [a [b [-> H]]]. apply like_nowild in H; [subst; exists a; reflexivity|exact Hn].
  - intros [r ->]. exists r, core. split; [reflexivity|apply like_nowild; auto].
Qed.

Lemma class_contains core n m t :
  nowild core -> like (repeat pct (S n) ++ core ++ repeat pct (S m)) t = contains t core.
Proof.
  intros Hn. rewrite like_pcts_app. apply eq_true_iff_eq. rewrite anyb_iff, contains_iff. split.
  - intros [a [b [-> H]]]. apply like_app_nowild in H as [r [-> _]]; [|exact Hn]. exists a, r. reflexivity.
  - intros [a [b ->]]. exists a, (core ++ b). split; [reflexivity|].
    apply like_app_nowild; [exact Hn|]. exists b. split; [reflexivity|apply like_pcts].
Qed.

(* ---- decomposition p = %^n ++ core ++ %^m ---- *)
Lemma isp_eq x : isp x = true -> x = pct.
Proof. unfold isp. apply N.eqb_eq. Qed.

Lemma ltrim_spec p : exists n, p = repeat pct n ++ ltrim p /\ starts_pct (ltrim p) = false.
Proof.
  induction p as [|x p [n [IH1 IH2]]]; [exists 0; auto|].
  cbn [ltrim]. destruct (isp x) eqn:E.
  - exists (S n). apply isp_eq in E. subst x. cbn. rewrite <- IH1. auto.
  - exists 0. cbn. auto.
Qed.

Lemma rev_repeat (A : Type) (a : A) n : rev (repeat a n) = repeat a n.
Proof.
  induction n as [|n IH]; [reflexivity|]. cbn. rewrite IH.
  clear IH. induction n as [|n IH]; [reflexivity|]. cbn. rewrite IH. reflexivity.
Qed.

Lemma decomp p : exists n m,
  p = repeat pct n ++ trim_pct p ++ repeat pct m /\
  starts_pct (trim_pct p) = false /\ ends_pct (trim_pct p) = false.
Proof.
  unfold trim_pct. destruct (ltrim_spec p) as [n [H1 H2]].
  destruct (ltrim_spec (rev (ltrim p))) as [m [H3 H4]].
  exists n, m. set (q := ltrim p) in *. set (c := ltrim (rev q)) in *.
  assert (Hq: q = rev c ++ repeat pct m).
  { rewrite <- (rev_involutive q), H3, rev_app_distr, rev_repeat. reflexivity. }
  split; [rewrite <- Hq; exact H1|]. split.
  - destruct (rev c) as [|y r] eqn:Er; [reflexivity|].
    rewrite Hq in H2. cbn in H2. cbn. exact H2.
  - unfold ends_pct. rewrite rev_involutive. exact H4.
Qed.

Lemma has_false_head b x s : has b (x :: s) = false -> N.eqb b x = false.
Proof. unfold has. cbn. rewrite orb_false_iff. tauto. Qed.

Lemma starts_repeat_app n s : starts_pct (repeat pct (S n) ++ s) = true.
Proof. reflexivity. Qed.

Lemma ends_app_repeat s m : ends_pct (s ++ repeat pct (S m)) = true.
Proof. unfold ends_pct. rewrite rev_app_distr, rev_repeat. reflexivity. Qed.

Lemma ends_app_nonempty a s : s <> [] -> ends_pct (a ++ s) = ends_pct s.
Proof.
  intros Hs. unfold ends_pct. rewrite rev_app_distr.
  destruct (rev s) as [|y r] eqn:E; [|reflexivity].
  apply (f_equal (@rev _)) in E. rewrite rev_involutive in E. contradiction.
Qed.

Lemma has_app b s1 s2 : has b (s1 ++ s2) = has b s1 || has b s2.
Proof. unfold has. apply existsb_app. Qed.

Lemma has_repeat_pct_us n : has us (repeat pct n) = false.
Proof. induction n; [reflexivity|]. unfold has in *. cbn. exact IHn. Qed.

Theorem convert_correct p t : eval_rewritten (convert p) t = like p t.
Proof.
  destruct p as [|x0 p0]; [destruct t; reflexivity|].
  change (convert (x0 :: p0)) with (convert_ne (x0 :: p0)).
  assert (Hne: x0 :: p0 <> []) by discriminate.
  generalize dependent (x0 :: p0). clear x0 p0. intros p Hne. unfold convert_ne.
  destruct (decomp p) as [n [m [Hp [Hs He]]]].
  set (core := trim_pct p) in *.
  destruct core as [|c core'] eqn:Ec.
  - (* all wildcards *)
    cbn [negb andb]. cbn [app] in Hp.
    assert (Hall: p = repeat pct (n + m)) by (rewrite repeat_app; exact Hp).
    assert (Hnm: n + m <> 0) by (intros E; apply Hne; rewrite Hall, E; reflexivity).
    destruct (n + m) as [|k] eqn:Ek; [contradiction|].
    rewrite Hall, like_pcts.
    assert (starts_pct (repeat pct (S k)) = true) as -> by reflexivity.
    assert (ends_pct (repeat pct (S k)) = true) as ->.
    { unfold ends_pct. rewrite rev_repeat. reflexivity. }
    destruct k; reflexivity.
  - cbn [negb andb].
    destruct (has us (c :: core') || has pct (c :: core')) eqn:Ew.
    + cbn [eval_rewritten]. apply like_match_correct.
    + apply orb_false_iff in Ew as [Hu Hpc].
      assert (Hn: nowild (c :: core')) by (split; assumption).
      assert (Hcne: c :: core' <> []) by discriminate.
      assert (Hc: isp c = false) by (apply isp_false, (has_false_head _ _ _ Hpc)).
      destruct n as [|n], m as [|m].
      * (* exact *)
        cbn [repeat app] in Hp. rewrite app_nil_r in Hp.
        assert (starts_pct p = false) as -> by (rewrite Hp; exact Hs).
        assert (ends_pct p = false) as -> by (rewrite Hp; exact He).
        cbn [andb].
        assert (bytes_eqb p [pct] = false) as ->.
        { rewrite Hp. cbn. unfold isp in Hc. rewrite Hc. reflexivity. }
        rewrite Hp at 1 2. rewrite Hpc, Hu. cbn [orb eval_rewritten].
        rewrite Hp. symmetry. apply class_exact, Hn.
      * (* starts with *)
        assert (Hp': p = (c :: core') ++ repeat pct (S m)) by exact Hp. clear Hp.
        assert (starts_pct p = false) as -> by (rewrite Hp'; cbn; exact Hc).
        assert (ends_pct p = true) as -> by (rewrite Hp'; apply ends_app_repeat).
        assert (Nat.ltb 1 (length p) = true) as ->.
        { rewrite Hp'. rewrite app_length. cbn [length repeat]. apply Nat.ltb_lt. lia. }
        cbn [andb eval_rewritten]. rewrite Hp'. symmetry. apply class_starts, Hn.
      * (* ends with *)
        assert (Hp': p = repeat pct (S n) ++ (c :: core')).
        { rewrite Hp. cbn [repeat]. rewrite app_nil_r. reflexivity. }
        clear Hp.
        assert (starts_pct p = true) as -> by (rewrite Hp'; reflexivity).
        assert (ends_pct p = false) as ->.
        { rewrite Hp'. rewrite ends_app_nonempty by exact Hcne. exact He. }
        assert (Nat.ltb 1 (length p) = true) as ->.
        { rewrite Hp'. cbn [repeat app length]. rewrite app_length. cbn [length].
          apply Nat.ltb_lt. lia. }
        cbn [andb eval_rewritten]. rewrite Hp'. symmetry. apply class_ends, Hn.
      * (* contains *)
        assert (Hp': p = repeat pct (S n) ++ (c :: core') ++ repeat pct (S m)) by exact Hp. clear Hp.
        assert (starts_pct p = true) as -> by (rewrite Hp'; reflexivity).
        assert (ends_pct p = true) as ->.
        { rewrite Hp', app_assoc. apply ends_app_repeat. }
        assert (Nat.ltb 1 (length p) = true) as ->.
        { rewrite Hp'. cbn [repeat app length]. rewrite !app_length. cbn [length].
          apply Nat.ltb_lt. lia. }
        cbn [andb eval_rewritten]. rewrite Hp'. symmetry. apply class_contains, Hn.
Qed.

(* ---- the declarative reading of the statement, as an inductive relation ---- *)
Inductive Like : bytes -> bytes -> Prop :=
| L_nil : Like [] []
| L_pct p s t : Like p t -> Like (pct :: p) (s ++ t)          (* % : any, possibly empty, sequence *)
| L_us p c t : Like p t -> Like (us :: p) (c :: t)             (* _ : exactly one byte *)
| L_lit x p t : x <> pct -> x <> us -> Like p t -> Like (x :: p) (x :: t).  (* any other byte: itself *)

Lemma like_iff p t : like p t = true <-> Like p t.
Proof.
  split.
  - revert t; induction p as [|x p IH]; intros t H.
    + destruct t; [constructor|discriminate].
    + destruct (isp x) eqn:E.
      * rewrite like_pct in H by exact E. apply anyb_iff in H as [a [b [-> H]]].
        apply isp_eq in E. subst x. constructor. apply IH, H.
      * destruct t as [|c t]; [rewrite like_lit_nil in H by exact E; discriminate|].
        rewrite like_lit in H by exact E. apply andb_true_iff in H as [Hl H].
        unfold lit in Hl. destruct (N.eqb x us) eqn:Eu.
        -- apply N.eqb_eq in Eu. subst x. constructor. apply IH, H.
        -- cbn in Hl. apply N.eqb_eq in Hl. subst c. constructor.
           ++ intros ->. discriminate.
           ++ intros ->. rewrite N.eqb_refl in Eu. discriminate.
           ++ apply IH, H.
  - induction 1 as [|p s t _ IH|p c t _ IH|x p t Hp Hu _ IH].
    + reflexivity.
    + rewrite like_pct by reflexivity. apply anyb_iff. exists s, t. auto.
    + rewrite like_lit by reflexivity. rewrite IH. reflexivity.
    + assert (E: isp x = false) by (unfold isp; apply N.eqb_neq; exact Hp).
      rewrite like_lit by exact E. unfold lit. rewrite N.eqb_refl, orb_true_r, IH. reflexivity.
Qed.

Lemma like_match_iff t p : like_match t p = true <-> Like p t.
Proof. rewrite like_match_correct. apply like_iff. Qed.

Lemma rewrite_iff t p : eval_rewritten (convert p) t = true <-> Like p t.
Proof. rewrite convert_correct. apply like_iff. Qed.

Lemma is_null_iff v : is_null v = true <-> (v = Absent \/ v = Null).
Proof. destruct v; cbn; split; intros H; try tauto; try discriminate; destruct H; discriminate. Qed.

Lemma is_not_null_neg v : is_not_null v = negb (is_null v).
Proof. reflexivity. Qed.
