(* The fire decision of Model/Sliding.v is taken from the LIVE buffer at every firing: a row that is in the buffer when
   a firing step starts - whenever it was ingested, also during the callback of the previous firing of the same
   watermark - forces a firing if one of its covering intervals on the slot grid has ended before the watermark. *)
From Coq Require Import Lia.
From SV Require Import Model.Sliding.

Lemma omin_list_le : forall l a, In (Some a) l -> exists m, omin_list l = Some m /\ m <= a.
Proof.
  induction l as [|x l IH]; simpl; intros a H; [contradiction|].
  destruct H as [H|H].
  - subst x. destruct (omin_list l) as [m|]; eexists; split; try reflexivity; lia.
  - destruct (IH a H) as [m [Hm Hle]]. rewrite Hm. destruct x as [y|]; eexists; split; try reflexivity; lia.
Qed.

Lemma sfire_step_fires_for_buffered : forall c s wmk r a,
  s_pend s = Some wmk -> s_init s = true -> In r (s_data s) ->
  first_win c (s_slot s) (rts r) = Some a -> a + ssize c <= wmk ->
  exists b, snd (sfire_step c s) = [EvBatch b] /\ b_start b <= a /\ b_end b <= wmk /\ s_pend (fst (sfire_step c s)) = Some wmk.
Proof.
  intros c s wmk r a Hp Hi Hin Hf Hw.
  unfold sfire_step. rewrite Hp, Hi. simpl negb. cbv iota.
  assert (HIn : In (Some a) (map (fun r0 => first_win c (s_slot s) (rts r0)) (s_data s))).
  { rewrite <- Hf. apply in_map_iff. exists r. split; auto. }
  destruct (omin_list_le _ _ HIn) as [m [Hm Hle]]. rewrite Hm.
  assert (Hc : (m + ssize c <=? wmk) = true) by (apply Z.leb_le; lia).
  rewrite Hc. simpl. eexists. split; [reflexivity|]. simpl. repeat split; try lia.
Qed.

(* a row ingested while a watermark is being handled, with a timestamp inside the current slot, is buffered and the
   slot stays where it is *)
Lemma sadd_in_slot_kept : forall c s id ts now s1 bs,
  s_init s = true -> sinwin c (s_slot s) ts = true -> sadd_core c id ts now s = (s1, bs) ->
  In (id, ts) (s_data s1) /\ s_slot s1 = s_slot s /\ s_init s1 = true /\ s_pend s1 = s_pend s.
Proof.
  intros c s id ts now s1 bs Hi Hin H.
  unfold sadd_core in H. rewrite Hi in H.
  assert (Hlt : (ts <? s_slot s) = false).
  { unfold sinwin in Hin. apply andb_prop in Hin. destruct Hin as [H1 _]. apply Z.leb_le in H1. apply Z.ltb_ge. lia. }
  rewrite Hlt in H. rewrite !Bool.andb_false_r in H. simpl in H. rewrite Hin in H.
  destruct (is_late ts (update_event_time (sooo c) now ts (s_w s))).
  - destruct (0 <? slateness c).
    + destruct (late_updates ts (s_data s ++ [(id, ts)]) (s_trig s)) as [tr bs']. inversion H; subst; simpl.
      repeat split; auto. apply in_or_app. right. left. reflexivity.
    + inversion H; subst; simpl. repeat split; auto. apply in_or_app. right. left. reflexivity.
  - inversion H; subst; simpl. repeat split; auto. apply in_or_app. right. left. reflexivity.
Qed.

Theorem sliding_row_during_pass_forces_firing : forall c s wmk id ts now s1 bs a,
  s_pend s = Some wmk -> s_init s = true -> sinwin c (s_slot s) ts = true ->
  sadd_core c id ts now s = (s1, bs) ->
  first_win c (s_slot s) ts = Some a -> a + ssize c <= wmk ->
  In (id, ts) (s_data s1) /\
  exists b, snd (sfire_step c s1) = [EvBatch b] /\ b_start b <= a /\ b_end b <= wmk /\ s_pend (fst (sfire_step c s1)) = Some wmk.
Proof.
  intros c s wmk id ts now s1 bs a Hp Hi Hin Ha Hf Hw.
  destruct (sadd_in_slot_kept c s id ts now s1 bs Hi Hin Ha) as [HIn [Hs [Hi1 Hp1]]].
  split; [exact HIn|].
  apply (sfire_step_fires_for_buffered c s1 wmk (id, ts) a); auto.
  - rewrite Hp1. exact Hp.
  - rewrite Hs. exact Hf.
Qed.
