(* C05 — proofs about the bounded FIFO with the drop strategy (Model/LossyFifo.v): a drop never reorders *)
From SV Require Import Model.LossyFifo Spec.ResultChanSpec Proofs.ResultChanProofs.
From Coq Require Import List ZArith Bool Arith Lia.
Import ListNotations.
Local Open Scope nat_scope.

Lemma subseq_map : forall {A B} (f : A -> B) (l m : list A), subseq l m -> subseq (map f l) (map f m).
Proof. intros A B f l m H. induction H; simpl; constructor; assumption. Qed.

Lemma subseq_filter : forall {A} (p : A -> bool) (l : list A), subseq (filter p l) l.
Proof.
  intros A p l. induction l as [|x l IH]; simpl; [constructor|].
  destruct (p x); constructor; exact IH.
Qed.

Lemma subseq_snoc : forall {A} (l m : list A) x, subseq l m -> subseq (l ++ [x]) (m ++ [x]).
Proof. intros A l m x H. apply subseq_app; [exact H|apply subseq_refl]. Qed.

(* ---- the consumer is a FIFO reader: handled ++ buffered = accepted ---- *)
Lemma lstep_fifo : forall inline cap s o,
  l_done s ++ l_chan s = l_acc s ->
  l_done (lstep inline cap s o) ++ l_chan (lstep inline cap s o) = l_acc (lstep inline cap s o).
Proof.
  intros inline cap [ch pk acc dn dr] o H. simpl in H.
  destruct o as [row| | |]; simpl.
  - destruct pk as [|p pk]; [|destruct inline]; simpl; try exact H;
      unfold l_room; simpl; destruct (Nat.ltb (length ch) cap); simpl; try exact H;
      rewrite app_assoc, H; reflexivity.
  - destruct pk as [|p pk]; simpl; [exact H|].
    unfold l_room; simpl. destruct (Nat.ltb (length ch) cap); simpl; [|exact H].
    rewrite app_assoc, H. reflexivity.
  - destruct pk as [|p pk]; simpl; exact H.
  - destruct ch as [|row rest]; simpl; [exact H|]. rewrite <- app_assoc. exact H.
Qed.

Lemma lfold_fifo : forall inline cap ops s,
  l_done s ++ l_chan s = l_acc s ->
  let s' := fold_left (lstep inline cap) ops s in l_done s' ++ l_chan s' = l_acc s'.
Proof.
  intros inline cap ops. induction ops as [|o ops IH]; intros s H; simpl; [exact H|].
  apply IH. apply lstep_fifo. exact H.
Qed.

Theorem lossy_fifo : forall inline cap ops,
  let s := lrun inline cap ops in l_done s ++ l_chan s = l_acc s.
Proof. intros inline cap ops. apply lfold_fifo. reflexivity. Qed.

Definition lrows (o : lop) : list xrow := match o with LEmit r => [r] | _ => [] end.
Lemma lemitted_cons : forall o ops, lemitted (o :: ops) = lrows o ++ lemitted ops.
Proof. reflexivity. Qed.

(* ---- with the producer waiting inside Emit: accepted ++ parked is a subsequence of the emission ---- *)
Lemma lstep_order : forall cap s o E,
  subseq (l_acc s ++ l_parked s) E ->
  subseq (l_acc (lstep true cap s o) ++ l_parked (lstep true cap s o))
         (E ++ lrows o).
Proof.
  intros cap [ch pk acc dn dr] o E H. simpl in H.
  destruct o as [row| | |]; simpl; try rewrite app_nil_r.
  - destruct pk as [|p pk]; simpl.
    + rewrite app_nil_r in H.
      unfold l_room; simpl. destruct (Nat.ltb (length ch) cap); simpl.
      * rewrite app_nil_r. apply subseq_snoc. exact H.
      * apply subseq_snoc. exact H.
    + apply subseq_app_r. exact H.
  - destruct pk as [|p pk]; simpl; [exact H|].
    unfold l_room; simpl. destruct (Nat.ltb (length ch) cap); simpl; [|exact H].
    rewrite <- app_assoc. exact H.
  - destruct pk as [|p pk]; simpl; [exact H|].
    eapply subseq_trans; [apply subseq_drop_mid|exact H].
  - destruct ch as [|row rest]; simpl; exact H.
Qed.

Lemma lfold_order : forall cap ops s E,
  subseq (l_acc s ++ l_parked s) E ->
  let s' := fold_left (lstep true cap) ops s in
  subseq (l_acc s' ++ l_parked s') (E ++ lemitted ops).
Proof.
  intros cap ops. induction ops as [|o ops IH]; intros s E H.
  - simpl. rewrite app_nil_r. exact H.
  - rewrite lemitted_cons. rewrite app_assoc. simpl fold_left. apply IH. apply lstep_order. exact H.
Qed.

Theorem lossy_accepts_in_order : forall cap ops,
  subseq (l_acc (lrun true cap ops)) (lemitted ops).
Proof.
  intros cap ops. pose proof (lfold_order cap ops linit [] (ss_nil _)) as H. simpl in H.
  eapply subseq_trans; [|exact H]. apply subseq_app_r. apply subseq_refl.
Qed.

(* what the consumer has handled is a prefix of what was accepted, hence a subsequence of the emission *)
Theorem lossy_done_in_order : forall cap ops,
  subseq (l_done (lrun true cap ops)) (lemitted ops).
Proof.
  intros cap ops. eapply subseq_trans; [|apply lossy_accepts_in_order].
  rewrite <- (lossy_fifo true cap ops). apply subseq_app_r. apply subseq_refl.
Qed.

(* the synchronous sink: the results of a subsequence of the emitted rows, in emission order;
   everything accepted once nothing is buffered *)
Theorem lossy_sink : forall cap q ops,
  let s := lrun true cap ops in
  l_sink q s ++ map (direct q) (l_chan s) = map (direct q) (l_acc s) /\
  subseq (l_acc s) (lemitted ops).
Proof.
  intros cap q ops s. split; [|apply lossy_accepts_in_order].
  unfold l_sink. rewrite <- map_app. f_equal. apply lossy_fifo.
Qed.

Theorem lossy_delivered_in_order : forall cap q ops,
  subseq (l_delivered_rows q (lrun true cap ops)) (lemitted ops).
Proof.
  intros cap q ops. eapply subseq_trans; [apply subseq_filter|apply lossy_done_in_order].
Qed.

(* ... and the extracted checker accepts every run of the model, whatever identifies a row *)
Theorem lossy_passes_checker : forall (f : xrow -> Z) cap q ops,
  rc_check (map f (lemitted ops)) (map f (l_delivered_rows q (lrun true cap ops))) = RCOk.
Proof.
  intros f cap q ops. apply rc_check_iff. apply subseq_map. apply lossy_delivered_in_order.
Qed.

(* nothing is lost while there is room: with a buffer that never fills the model is the plain FIFO *)
Theorem lossy_no_loss_accounting : forall cap ops,
  let s := lrun true cap ops in
  length (l_acc s) + length (l_parked s) + l_dropped s <= length (lemitted ops).
Proof.
  intros cap ops.
  assert (G : forall ops s n,
    length (l_acc s) + length (l_parked s) + l_dropped s <= n ->
    let s' := fold_left (lstep true cap) ops s in
    length (l_acc s') + length (l_parked s') + l_dropped s' <= n + length (lemitted ops)).
  { clear ops. induction ops as [|o ops IH]; intros s n H; [simpl; lia|].
    rewrite lemitted_cons. rewrite app_length.
    rewrite Nat.add_assoc. simpl fold_left. apply IH.
    destruct s as [ch pk acc dn dr]. simpl in H.
    destruct o as [row| | |]; simpl.
    - destruct pk as [|p pk]; simpl in *.
      + unfold l_room; simpl. destruct (Nat.ltb (length ch) cap); simpl; try rewrite app_length; simpl; lia.
      + lia.
    - destruct pk as [|p pk]; simpl in *; [lia|].
      unfold l_room; simpl. destruct (Nat.ltb (length ch) cap); simpl; try rewrite app_length; simpl; lia.
    - destruct pk as [|p pk]; simpl in *; lia.
    - destruct ch as [|r rest]; simpl; lia. }
  intros s. apply (G ops linit 0). simpl. lia.
Qed.
