(* C14 — several analytic select items and a WHERE that may hold an analytic call: every item's engine runs on
   its own (its column of results is the run of that item alone), on EVERY row when WHERE holds an analytic call,
   on the passing rows otherwise; Emit = EmitSync under every schedule. *)
From Coq Require Import Lia.
From SV Require Import Model.Analytic Model.AnalyticMulti Proofs.AnalyticQuery.

Fixpoint an_items_run (cap : nat) (fs : list afield) (es : list afeng) (h : list arow) : list (list aout) :=
  match h with
  | [] => []
  | r :: t => let '(es', os) := an_items_step cap fs es r in os :: an_items_run cap fs es' t
  end.

(* put a column of values in front of the rows *)
Fixpoint zipcons {A : Type} (xs : list A) (rows : list (list A)) : list (list A) :=
  match xs, rows with
  | x :: xt, row :: rt => (x :: row) :: zipcons xt rt
  | _, _ => []
  end.

(* the rows of results, built item by item: the column of item f is the run of f's engine ALONE over h *)
Fixpoint item_rows (cap : nat) (fs : list afield) (es : list afeng) (h : list arow) : list (list aout) :=
  match fs, es with
  | f :: ft, e :: et => zipcons (snd (an_frun cap f e h)) (item_rows cap ft et h)
  | _, _ => map (fun _ => []) h
  end.

Lemma item_rows_cons cap r t : forall fs es,
  item_rows cap fs es (r :: t) =
  snd (an_items_step cap fs es r) :: item_rows cap fs (fst (an_items_step cap fs es r)) t.
Proof.
  induction fs as [|f ft IH]; intros es.
  - destruct es; reflexivity.
  - destruct es as [|e et]; [reflexivity|].
    cbn [item_rows an_items_step]. rewrite frun_cons.
    destruct (an_fstep cap f e r) as [e1 o].
    rewrite (IH et). destruct (an_items_step cap ft et r) as [et' os]. cbn [fst snd].
    destruct (an_frun cap f e1 t) as [e2 os2]. reflexivity.
Qed.

Lemma items_run_rows cap : forall h fs es, an_items_run cap fs es h = item_rows cap fs es h.
Proof.
  induction h as [|r t IH]; intros fs es.
  - destruct fs as [|f ft]; destruct es as [|e et]; reflexivity.
  - cbn [an_items_run]. rewrite item_rows_cons.
    destruct (an_items_step cap fs es r) as [es' os]. cbn [fst snd]. f_equal. apply IH.
Qed.

Fixpoint spread_g {A : Type} (pass : arow -> bool) (h : list arow) (outs : list A) : list (option A) :=
  match h with
  | [] => []
  | r :: t => if pass r then match outs with o :: ot => Some o :: spread_g pass t ot | [] => [] end
              else None :: spread_g pass t outs
  end.

Fixpoint mask (pass : arow -> aout -> bool) (h : list arow) (ws : list aout) (rows : list (list aout))
  : list (option (list aout)) :=
  match h, ws, rows with
  | r :: t, w :: wt, row :: rt => (if pass r w then Some row else None) :: mask pass t wt rt
  | _, _, _ => []
  end.

Lemma mwhere_analytic q wf tst : mq_wan q = Some (wf, tst) -> forall h es ew,
  an_mrun q {| ms_items := es; ms_whr := ew |} h =
  mask (fun r w => an_mcolpass q r && an_wtest tst w) h (snd (an_frun (mq_cap q) wf ew h))
       (item_rows (mq_cap q) (mq_items q) es h).
Proof.
  intros Hw. induction h as [|r t IH]; intros es ew; [reflexivity|].
  cbn [an_mrun]. unfold an_mstep. rewrite Hw. cbn [ms_items ms_whr].
  rewrite item_rows_cons, frun_cons.
  destruct (an_items_step (mq_cap q) (mq_items q) es r) as [es' os].
  destruct (an_fstep (mq_cap q) wf ew r) as [ew' w]. rewrite IH. cbn [fst snd].
  destruct (an_frun (mq_cap q) wf ew' t) as [e2 ws]. reflexivity.
Qed.

Lemma mwhere_plain q : mq_wan q = None -> forall h es ew,
  an_mrun q {| ms_items := es; ms_whr := ew |} h =
  spread_g (an_mcolpass q) h (item_rows (mq_cap q) (mq_items q) es (filter (an_mcolpass q) h)).
Proof.
  intros Hw. induction h as [|r t IH]; intros es ew; [reflexivity|].
  cbn [an_mrun filter spread_g]. unfold an_mstep. rewrite Hw. cbn [ms_items ms_whr].
  destruct (an_mcolpass q r) eqn:Ep.
  - rewrite item_rows_cons.
    destruct (an_items_step (mq_cap q) (mq_items q) es r) as [es' os]. rewrite IH. reflexivity.
  - rewrite IH. reflexivity.
Qed.

Definition m_eng0s (q : amquery) : list afeng := map (fun _ => an_eng0 afstate aout) (mq_items q).

(* mwhere_order *)
Theorem mwhere_order : forall q h,
  an_msync q h =
  match mq_wan q with
  | Some (wf, tst) =>
      mask (fun r w => an_mcolpass q r && an_wtest tst w) h
           (snd (an_frun (mq_cap q) wf (an_eng0 _ _) h))
           (item_rows (mq_cap q) (mq_items q) (m_eng0s q) h)
  | None =>
      spread_g (an_mcolpass q) h
               (item_rows (mq_cap q) (mq_items q) (m_eng0s q) (filter (an_mcolpass q) h))
  end.
Proof.
  intros q h. unfold an_msync, an_m0, m_eng0s. destruct (mq_wan q) as [[wf tst]|] eqn:Hw.
  - apply mwhere_analytic. exact Hw.
  - apply mwhere_plain. exact Hw.
Qed.

(* the j-th component of every row of results is the j-th item's own run *)
Lemma zipcons_length (A : Type) : forall (xs : list A) rows, length xs = length rows -> length (zipcons xs rows) = length rows.
Proof.
  induction xs as [|x xt IH]; intros [|row rt] H; simpl in *; try reflexivity; try discriminate.
  f_equal. apply IH. lia.
Qed.

Lemma frun_length cap f : forall h e, length (snd (an_frun cap f e h)) = length h.
Proof.
  induction h as [|r t IH]; intros e; [reflexivity|].
  rewrite frun_cons. destruct (an_fstep cap f e r) as [e1 o]. specialize (IH e1).
  destruct (an_frun cap f e1 t) as [e2 os]. simpl in *. f_equal. exact IH.
Qed.

Lemma item_rows_length cap h : forall fs es, length (item_rows cap fs es h) = length h.
Proof.
  induction fs as [|f ft IH]; intros es.
  - destruct es; simpl; apply map_length.
  - destruct es as [|e et]; [simpl; apply map_length|].
    cbn [item_rows]. rewrite zipcons_length; [apply IH|]. rewrite frun_length, IH. reflexivity.
Qed.

Lemma zipcons_head (A : Type) : forall (xs : list A) rows, length xs = length rows ->
  map (fun row => nth_error row 0) (zipcons xs rows) = map Some xs.
Proof.
  induction xs as [|x xt IH]; intros [|row rt] H; simpl in *; try reflexivity; try discriminate.
  f_equal. apply IH. lia.
Qed.

Lemma zipcons_tail (A : Type) j : forall (xs : list A) rows, length xs = length rows ->
  map (fun row => nth_error row (S j)) (zipcons xs rows) = map (fun row => nth_error row j) rows.
Proof.
  induction xs as [|x xt IH]; intros [|row rt] H; simpl in *; try reflexivity; try discriminate.
  f_equal. apply IH. lia.
Qed.

Theorem item_column : forall cap h fs es j f e,
  nth_error fs j = Some f -> nth_error es j = Some e ->
  map (fun row => nth_error row j) (item_rows cap fs es h) = map Some (snd (an_frun cap f e h)).
Proof.
  intros cap h. induction fs as [|f0 ft IH]; intros es j f e Hf He.
  - destruct j; discriminate.
  - destruct es as [|e0 et]; [destruct j; discriminate|].
    cbn [item_rows].
    assert (Hlen : length (snd (an_frun cap f0 e0 h)) = length (item_rows cap ft et h))
      by (rewrite frun_length, item_rows_length; reflexivity).
    destruct j as [|j].
    + simpl in Hf, He. injection Hf as <-. injection He as <-. apply zipcons_head. exact Hlen.
    + simpl in Hf, He. rewrite zipcons_tail by exact Hlen. apply (IH et j f e Hf He).
Qed.

Lemma masync_gen q : forall sch pending chan s,
  an_masync q sch pending chan s = an_mrun q s (chan ++ pending).
Proof.
  induction sch as [|[|] t IH]; intros pending chan s; cbn [an_masync].
  - reflexivity.
  - destruct pending as [|r p]; rewrite IH; [reflexivity|]. rewrite <- app_assoc. reflexivity.
  - destruct chan as [|r c]; [apply IH|].
    cbn [app an_mrun]. destruct (an_mstep q s r) as [s1 o]. rewrite IH. reflexivity.
Qed.

Theorem msync_async_same : forall q sch h, an_masync q sch h [] (an_m0 q) = an_msync q h.
Proof. intros q sch h. rewrite masync_gen. reflexivity. Qed.
