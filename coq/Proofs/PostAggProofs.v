(* C07: the clauses of processAggregationResults and their composition. *)
From Coq Require Import QArith Permutation Sorted Lia.
From SV Require Import Model.PostAgg Proofs.PostAggSort.
Local Open Scope nat_scope.

(* ------------------------------------------------------------------ ORDER BY *)
Lemma pa_sort_perm : forall keys l, Permutation (pa_sort keys l) l.
Proof.
  intros keys l. unfold pa_sort. destruct keys as [|kd ks]; [reflexivity|].
  destruct (Nat.ltb (length l) 2); [reflexivity|apply pa_isort_perm].
Qed.

Lemma pa_ss_short : forall (A : Type) (R : A -> A -> Prop) (l : list A),
  length l < 2 -> StronglySorted R l.
Proof.
  intros A R [|x [|y l]] H; simpl in H; try lia; repeat constructor.
Qed.

Lemma pa_ss_trivial : forall (A : Type) (R : A -> A -> Prop) (l : list A),
  (forall a b, R a b) -> StronglySorted R l.
Proof.
  intros A R l H. induction l as [|x l IH]; constructor; [assumption|].
  rewrite Forall_forall. intros; apply H.
Qed.

(* rows in ORDER BY order: a row is never less than a row delivered before it *)
Lemma pa_sort_sorted : forall keys cls l,
  Forall (pa_row_class keys cls) l ->
  StronglySorted (fun a b => pa_less keys b a = false) (pa_sort keys l).
Proof.
  intros keys cls l Hc. unfold pa_sort. destruct keys as [|kd ks].
  - apply pa_ss_trivial. reflexivity.
  - destruct (Nat.ltb (length l) 2) eqn:E.
    + apply pa_ss_short. apply Nat.ltb_lt. assumption.
    + apply (pa_isort_sorted pa_row (pa_less (kd :: ks)) (pa_row_class (kd :: ks) cls)); [| |assumption].
      * intros a b _ _. apply pa_less_asym.
      * intros a b c. apply pa_less_ntrans.
Qed.

Lemma pa_sort_stable : forall keys (S : pa_row -> bool) l,
  (forall x y, S x = true -> S y = true -> pa_less keys x y = false) ->
  filter S (pa_sort keys l) = filter S l.
Proof.
  intros keys S l H. unfold pa_sort. destruct keys as [|kd ks]; [reflexivity|].
  destruct (Nat.ltb (length l) 2); [reflexivity|]. apply pa_isort_stable. assumption.
Qed.

(* compareOrderValues is not transitive across types: 9 < 10 (numbers), 10 < "1a" (strings "10" < "1a"),
   "1a" < 9 ("1a" < "9") *)
Lemma pa_cmp_mixed_cycle :
  let n9 := Some (PaNum (9 # 1)%Q) in let n10 := Some (PaNum (10 # 1)%Q) in
  let s := Some (PaStr [49; 97]%N) in
  pa_cmp_val n9 n10 = Lt /\ pa_cmp_val n10 s = Lt /\ pa_cmp_val s n9 = Lt.
Proof. vm_compute. repeat split. Qed.

(* ------------------------------------------------------------------ LIMIT *)
Lemma pa_limit_firstn : forall n l, n <> 0 -> pa_limit n l = firstn n l.
Proof.
  intros n l Hn. unfold pa_limit. destruct n as [|n]; [congruence|].
  destruct (Nat.ltb (S n) (length l)) eqn:E; [reflexivity|].
  apply Nat.ltb_ge in E. symmetry. apply firstn_all2. assumption.
Qed.

Lemma pa_limit_prefix : forall n l, exists rest, l = pa_limit n l ++ rest.
Proof.
  intros n l. unfold pa_limit. destruct n as [|n]; [exists []; symmetry; apply app_nil_r|].
  destruct (Nat.ltb (S n) (length l)).
  - exists (skipn (S n) l). symmetry. apply firstn_skipn.
  - exists []. symmetry. apply app_nil_r.
Qed.

Lemma pa_limit_length : forall n l, n <> 0 -> length (pa_limit n l) = Nat.min n (length l).
Proof. intros n l Hn. rewrite pa_limit_firstn by assumption. apply firstn_length. Qed.

Lemma pa_limit_zero : forall l, pa_limit 0 l = l.
Proof. reflexivity. Qed.

Lemma pa_limit_incl : forall n l r, In r (pa_limit n l) -> In r l.
Proof.
  intros n l r H. destruct (pa_limit_prefix n l) as [rest E]. rewrite E. apply in_or_app. left. assumption.
Qed.

(* ------------------------------------------------------------------ HAVING *)
Lemma pa_having_filter : forall p l, pa_having p l = filter (pa_hkeep p) l.
Proof.
  induction l as [|r l IH]; [reflexivity|]. simpl. rewrite IH. reflexivity.
Qed.

Lemma pa_having_in : forall p l r, In r (pa_having p l) <-> In r l /\ pa_hkeep p r = true.
Proof. intros. rewrite pa_having_filter. apply filter_In. Qed.

(* ------------------------------------------------------------------ DISTINCT *)
Lemma pa_distinct_go_spec : forall l seen,
  ForallOrdPairs (fun a b => pa_row_eqb a b = false) (pa_distinct_go seen l)
  /\ (forall r, In r (pa_distinct_go seen l) -> In r l /\ forall s, In s seen -> pa_row_eqb s r = false).
Proof.
  induction l as [|x l IH]; intro seen; simpl.
  - split; [constructor|intros r []].
  - destruct (existsb (fun s => pa_row_eqb s x) seen) eqn:E.
    + destruct (IH seen) as [H1 H2]. split; [assumption|].
      intros r Hr. destruct (H2 r Hr). split; auto.
    + destruct (IH (x :: seen)) as [H1 H2]. split.
      * constructor; [|assumption].
        rewrite Forall_forall. intros r Hr. destruct (H2 r Hr) as [_ Hs]. apply Hs. left. reflexivity.
      * intros r [<-|Hr].
        -- split; [left; reflexivity|]. intros s Hs.
           destruct (pa_row_eqb s x) eqn:Es; [|reflexivity].
           assert (existsb (fun s => pa_row_eqb s x) seen = true) by (apply existsb_exists; eauto).
           congruence.
        -- destruct (H2 r Hr) as [Hin Hs]. split; [right; assumption|].
           intros s Hin'. apply Hs. right. assumption.
Qed.

(* no two delivered rows have the same serialisation *)
Lemma pa_distinct_nodup : forall l, ForallOrdPairs (fun a b => pa_row_eqb a b = false) (pa_distinct l).
Proof. intro l. apply (pa_distinct_go_spec l []). Qed.

Lemma pa_distinct_incl : forall l r, In r (pa_distinct l) -> In r l.
Proof. intros l r H. apply (pa_distinct_go_spec l []). assumption. Qed.

(* DISTINCT is the identity on pairwise different rows *)
Lemma pa_distinct_go_id : forall l seen,
  ForallOrdPairs (fun a b => pa_row_eqb a b = false) l ->
  (forall s r, In s seen -> In r l -> pa_row_eqb s r = false) ->
  pa_distinct_go seen l = l.
Proof.
  induction l as [|x l IH]; intros seen Hp Hs; [reflexivity|]. simpl.
  inversion Hp as [|? ? Hx Hl]; subst.
  destruct (existsb (fun s => pa_row_eqb s x) seen) eqn:E.
  - apply existsb_exists in E. destruct E as [s [Hin He]].
    rewrite (Hs s x Hin (or_introl eq_refl)) in He. discriminate.
  - f_equal. apply IH; [assumption|].
    intros s r [<-|Hin] Hr.
    + rewrite Forall_forall in Hx. apply Hx. assumption.
    + apply Hs; [assumption|right; assumption].
Qed.

Lemma pa_distinct_id : forall l,
  ForallOrdPairs (fun a b => pa_row_eqb a b = false) l -> pa_distinct l = l.
Proof. intros l H. apply pa_distinct_go_id; [assumption|intros s r []]. Qed.

(* ------------------------------------------------------------------ equality of columns and rows *)
Lemma pa_agg_eqb_eq : forall a b, pa_agg_eqb a b = true -> a = b.
Proof. destruct a, b; simpl; congruence. Qed.
Lemma pa_op_eqb_eq : forall a b, pa_op_eqb a b = true -> a = b.
Proof. destruct a, b; simpl; congruence. Qed.
Lemma pa_aexp_eqb_eq : forall a b, pa_aexp_eqb a b = true -> a = b.
Proof.
  induction a as [f|z|o x IHx y IHy|]; destruct b as [g|w|o' x' y'|]; simpl; intro H; try discriminate.
  - apply Nat.eqb_eq in H. congruence.
  - apply Z.eqb_eq in H. congruence.
  - apply andb_prop in H. destruct H as [H Hy]. apply andb_prop in H. destruct H as [Ho Hx].
    apply pa_op_eqb_eq in Ho. apply IHx in Hx. apply IHy in Hy. congruence.
  - reflexivity.
Qed.
Lemma pa_aexp_eqb_refl : forall a, pa_aexp_eqb a a = true.
Proof.
  induction a as [f|z|o x IHx y IHy|]; simpl; auto using Nat.eqb_refl, Z.eqb_refl.
  rewrite IHx, IHy. destruct o; reflexivity.
Qed.
Lemma pa_call_eqb_eq : forall a b, pa_call_eqb a b = true -> a = b.
Proof.
  intros [a x] [b y]. unfold pa_call_eqb. simpl. intro H. apply andb_prop in H. destruct H as [H1 H2].
  apply pa_agg_eqb_eq in H1. apply pa_aexp_eqb_eq in H2. congruence.
Qed.
Lemma pa_call_eqb_refl : forall a, pa_call_eqb a a = true.
Proof. intros [a x]. unfold pa_call_eqb. simpl. rewrite pa_aexp_eqb_refl. destruct a; reflexivity. Qed.
Lemma pa_col_eqb_eq : forall a b, pa_col_eqb a b = true -> a = b.
Proof.
  destruct a, b; simpl; intro H; try discriminate;
    try (apply Nat.eqb_eq in H; congruence).
  apply pa_call_eqb_eq in H. congruence.
Qed.
Lemma pa_col_eqb_refl : forall a, pa_col_eqb a a = true.
Proof. destruct a; simpl; auto using Nat.eqb_refl, pa_call_eqb_refl. Qed.

Definition pa_ov_eqb (a b : option pa_val) : bool :=
  match a, b with
  | Some x, Some y => pa_val_eqb x y
  | None, None => true
  | _, _ => false
  end.

(* equal serialisations have equal values in every column *)
Lemma pa_row_eqb_lookup : forall a b c, pa_row_eqb a b = true ->
  pa_ov_eqb (pa_lookup c a) (pa_lookup c b) = true.
Proof.
  induction a as [|[ca va] a IH]; destruct b as [|[cb vb] b]; simpl; intros c H; try discriminate; [reflexivity|].
  apply andb_prop in H. destruct H as [H Hr]. apply andb_prop in H. destruct H as [Hc Hv].
  apply pa_col_eqb_eq in Hc. subst cb.
  destruct (pa_col_eqb c ca); simpl; [assumption|apply IH; assumption].
Qed.

Lemma pa_lookup_delete : forall p c r, p c = false -> pa_lookup c (pa_delete p r) = pa_lookup c r.
Proof.
  intros p c. induction r as [|[c' v] r IH]; intro Hp; [reflexivity|]. unfold pa_delete in *. simpl.
  destruct (p c') eqn:E; simpl.
  - destruct (pa_col_eqb c c') eqn:Ec; [|apply IH; assumption].
    apply pa_col_eqb_eq in Ec. congruence.
  - destruct (pa_col_eqb c c'); [reflexivity|apply IH; assumption].
Qed.

Lemma pa_delete_in : forall p r c v, In (c, v) (pa_delete p r) -> p c = false /\ In (c, v) r.
Proof.
  intros p r c v H. unfold pa_delete in H. apply filter_In in H. destruct H as [H1 H2]. simpl in H2.
  split; [|assumption]. destruct (p c); [discriminate|reflexivity].
Qed.

(* ------------------------------------------------------------------ pipeline = relational order *)
(* two rows differ in some group column *)
Definition pa_group_differs (n : nat) (a b : pa_row) : Prop :=
  exists j, j < n /\ pa_ov_eqb (pa_lookup (PaGroup j) a) (pa_lookup (PaGroup j) b) = false.

Lemma pa_differs_not_eqb : forall n a b, pa_group_differs n a b -> pa_row_eqb a b = false.
Proof.
  intros n a b [j [_ H]]. destruct (pa_row_eqb a b) eqn:E; [|reflexivity].
  rewrite (pa_row_eqb_lookup a b (PaGroup j) E) in H. discriminate.
Qed.

Lemma pa_differs_delete : forall n a b, pa_group_differs n a b ->
  pa_group_differs n (pa_delete pa_is_hidden a) (pa_delete pa_is_hidden b).
Proof.
  intros n a b [j [Hj H]]. exists j. split; [assumption|].
  rewrite !pa_lookup_delete by reflexivity. assumption.
Qed.

Lemma pa_fop_filter : forall (A : Type) (R : A -> A -> Prop) (f : A -> bool) l,
  ForallOrdPairs R l -> ForallOrdPairs R (filter f l).
Proof.
  intros A R f l H. induction H as [|x l Hx Hl IH]; simpl; [constructor|].
  destruct (f x); [|assumption]. constructor; [|assumption].
  rewrite Forall_forall in *. intros y Hy. apply filter_In in Hy. apply Hx. tauto.
Qed.

Lemma pa_fop_map : forall (A B : Type) (R : A -> A -> Prop) (R' : B -> B -> Prop) (g : A -> B) l,
  (forall a b, R a b -> R' (g a) (g b)) -> ForallOrdPairs R l -> ForallOrdPairs R' (map g l).
Proof.
  intros A B R R' g l Hg H. induction H as [|x l Hx Hl IH]; simpl; constructor; [|assumption].
  rewrite Forall_forall in *. intros y Hy. apply in_map_iff in Hy. destruct Hy as [z [<- Hz]]. auto.
Qed.

Lemma pa_fop_weaken : forall (A : Type) (R R' : A -> A -> Prop) l,
  (forall a b, R a b -> R' a b) -> ForallOrdPairs R l -> ForallOrdPairs R' l.
Proof.
  intros A R R' l H F. induction F as [|x l Hx Hl IH]; constructor; [|assumption].
  rewrite Forall_forall in *. auto.
Qed.

(* the order of the clauses in the code (DISTINCT, HAVING, drop hidden, ORDER BY, LIMIT) gives the
   relational result (HAVING, projection, DISTINCT, ORDER BY, LIMIT) on a grouped batch *)
Lemma pa_pipeline_relational : forall q rows,
  ForallOrdPairs (pa_group_differs (pq_ngroup q)) rows ->
  pa_pipeline q rows = pa_relational q rows.
Proof.
  intros q rows H. unfold pa_pipeline, pa_relational.
  assert (Hd : pa_distinct rows = rows).
  { apply pa_distinct_id. eapply pa_fop_weaken; [|exact H]. apply pa_differs_not_eqb. }
  destruct (pq_distinct q); [|reflexivity]. rewrite Hd.
  destruct (fst (pa_hx q)) as [p|]; [|rewrite Hd; reflexivity].
  rewrite pa_distinct_id; [reflexivity|].
  eapply pa_fop_weaken; [apply (pa_differs_not_eqb (pq_ngroup q))|].
  eapply pa_fop_map; [apply pa_differs_delete|].
  rewrite pa_having_filter. apply pa_fop_filter. assumption.
Qed.

(* pipeline = limit . sort . having . distinct, literally *)
Lemma pa_pipeline_unfold : forall q rows,
  pa_pipeline q rows =
  pa_limit (pq_limit q) (pa_sort (pq_order q)
    (match fst (pa_hx q) with
     | None => (if pq_distinct q then pa_distinct rows else rows)
     | Some p => map (pa_delete pa_is_hidden) (pa_having p (if pq_distinct q then pa_distinct rows else rows))
     end)).
Proof. reflexivity. Qed.

(* ------------------------------------------------------------------ columns of a result row *)
Lemma pa_enum_in : forall (A B : Type) (f : nat -> A -> B) l n y,
  In y (pa_enum f n l) -> exists i x, nth_error l i = Some x /\ y = f (n + i) x.
Proof.
  induction l as [|x l IH]; intros n y H; simpl in H; [destruct H|].
  destruct H as [<-|H].
  - exists 0, x. split; [reflexivity|]. f_equal. lia.
  - destruct (IH (S n) y H) as [i [x' [Hn Hy]]]. exists (S i), x'. split; [assumption|].
    rewrite Hy. f_equal. lia.
Qed.

Definition pa_col_ok (nh : nat) (c : pa_col) : Prop :=
  match c with
  | PaGroup _ | PaItem _ => True
  | PaHidden n => n < nh
  | _ => False
  end.

Lemma pa_post_row_cols : forall q hc g c v,
  In (c, v) (pa_post_row q (pa_base_row q hc g)) -> pa_col_ok (length hc) c.
Proof.
  intros q hc g c v H. unfold pa_post_row in H. apply pa_delete_in in H. destruct H as [Hp H].
  apply in_app_or in H. destruct H as [H|H].
  - unfold pa_base_row in H. repeat (apply in_app_or in H; destruct H as [H|H]).
    + apply pa_enum_in in H. destruct H as [i [x [_ E]]]. inversion E. exact I.
    + apply in_flat_map in H. destruct H as [l [Hl Hin]]. apply pa_enum_in in Hl.
      destruct Hl as [i [p [_ E]]]. subst l. destruct (pa_is_plain p); [|destruct Hin].
      destruct Hin as [E|[]]. inversion E. exact I.
    + unfold pa_place_cols in H. apply in_flat_map in H. destruct H as [p [_ Hin]].
      destruct (pa_is_plain p); [destruct Hin|]. apply in_map_iff in Hin. destruct Hin as [c' [E _]].
      inversion E. subst c. discriminate.
    + apply pa_enum_in in H. destruct H as [i [x [Hn E]]]. inversion E. subst c. simpl.
      apply nth_error_Some. rewrite Hn. discriminate.
  - apply in_flat_map in H. destruct H as [l [Hl Hin]]. apply pa_enum_in in Hl.
    destruct Hl as [i [p [_ E]]]. subst l. destruct (pa_is_plain p); [destruct Hin|].
    destruct Hin as [E|[]]. inversion E. exact I.
Qed.

Lemma pa_hx_none : forall q, pq_having q = None -> pa_hx q = (None, []).
Proof. intros q H. unfold pa_hx. rewrite H. reflexivity. Qed.

Lemma pa_hx_some_fst : forall q, (exists p, fst (pa_hx q) = Some p) \/ (fst (pa_hx q) = None /\ snd (pa_hx q) = []).
Proof.
  intro q. unfold pa_hx. destruct (pq_having q) as [p|]; [left|right; split; reflexivity].
  destruct (pa_hx_pred 0 p) as [p' cs]. exists p'. reflexivity.
Qed.

Definition pa_visible_col (c : pa_col) : Prop :=
  match c with PaGroup _ | PaItem _ => True | _ => False end.

(* every column of every delivered row is a group column or a SELECT item *)
Lemma pa_no_hidden_columns : forall q gs r c v,
  In r (pa_pipeline q (pa_results q gs)) -> In (c, v) r -> pa_visible_col c.
Proof.
  intros q gs r c v Hr Hc. unfold pa_pipeline in Hr.
  apply pa_limit_incl in Hr. apply (Permutation_in _ (pa_sort_perm _ _)) in Hr.
  assert (Hres : forall r', In r' (if pq_distinct q then pa_distinct (pa_results q gs) else pa_results q gs) ->
                 forall c' v', In (c', v') r' -> pa_col_ok (length (snd (pa_hx q))) c').
  { intros r' Hr' c' v' Hc'. assert (Hin : In r' (pa_results q gs)).
    { destruct (pq_distinct q); [apply pa_distinct_incl|]; assumption. }
    unfold pa_results in Hin. apply in_map_iff in Hin. destruct Hin as [g [<- _]].
    eapply pa_post_row_cols. eassumption. }
  destruct (pa_hx_some_fst q) as [[p Hp]|[Hn Hs]].
  - rewrite Hp in Hr. apply in_map_iff in Hr. destruct Hr as [r' [<- Hr']].
    apply pa_delete_in in Hc. destruct Hc as [Hh Hc]. apply pa_having_in in Hr'. destruct Hr' as [Hr' _].
    pose proof (Hres r' Hr' c v Hc) as Hok. destruct c; simpl in *; try exact I; try discriminate; try contradiction.
  - rewrite Hn in Hr. pose proof (Hres r Hr c v Hc) as Hok. rewrite Hs in Hok.
    destruct c; simpl in *; try exact I; try contradiction. lia.
Qed.

(* ------------------------------------------------------------------ DISTINCT removes duplicates ONLY *)
Lemma pa_bytes_eqb_refl : forall a, bytes_eqb a a = true.
Proof. induction a as [|x a IH]; simpl; [reflexivity|]. rewrite N.eqb_refl. exact IH. Qed.

Lemma pa_val_eqb_refl : forall v, pa_val_eqb v v = true.
Proof.
  intros [x|s| |b]; simpl.
  - apply Qeq_bool_iff. reflexivity.
  - apply pa_bytes_eqb_refl.
  - reflexivity.
  - destruct b; reflexivity.
Qed.

Lemma pa_row_eqb_refl : forall r, pa_row_eqb r r = true.
Proof.
  induction r as [|[c v] r IH]; simpl; [reflexivity|].
  rewrite pa_col_eqb_refl, pa_val_eqb_refl. exact IH.
Qed.

(* every row of the batch is still represented: a row is removed only when a kept row has the same
   serialisation *)
Lemma pa_distinct_go_complete : forall l seen r, In r l ->
  exists s, (In s seen \/ In s (pa_distinct_go seen l)) /\ pa_row_eqb s r = true.
Proof.
  induction l as [|x l IH]; intros seen r Hin; [destruct Hin|]. simpl.
  destruct (existsb (fun s => pa_row_eqb s x) seen) eqn:E.
  - destruct Hin as [->|Hin]; [|apply IH; assumption].
    apply existsb_exists in E. destruct E as [s [Hs He]]. exists s. split; [left; assumption|assumption].
  - destruct Hin as [->|Hin].
    + exists r. split; [right; left; reflexivity|apply pa_row_eqb_refl].
    + destruct (IH (x :: seen) r Hin) as [s [[[->|Hs]|Hs] He]].
      * exists s. split; [right; left; reflexivity|assumption].
      * exists s. split; [left; assumption|assumption].
      * exists s. split; [right; right; assumption|assumption].
Qed.

Lemma pa_distinct_complete : forall l r, In r l ->
  exists s, In s (pa_distinct l) /\ pa_row_eqb s r = true.
Proof.
  intros l r Hin. destruct (pa_distinct_go_complete l [] r Hin) as [s [[[]|Hs] He]].
  exists s. split; assumption.
Qed.

(* values of different Go types are never equal, whatever they print: 7 / "7", true / "true", NULL / "<nil>" *)
Definition pa_val_kind (v : pa_val) : nat :=
  match v with PaNum _ => 0 | PaStr _ => 1 | PaNull => 2 | PaBool _ => 3 end.
Lemma pa_val_eqb_kind : forall a b, pa_val_eqb a b = true -> pa_val_kind a = pa_val_kind b.
Proof. intros [x|s| |b] [y|t| |c]; simpl; intro H; try discriminate; reflexivity. Qed.

(* two rows that carry values of different types in one column have different serialisations *)
Lemma pa_row_eqb_typed : forall a b c v w,
  pa_lookup c a = Some v -> pa_lookup c b = Some w -> pa_val_kind v <> pa_val_kind w -> pa_row_eqb a b = false.
Proof.
  intros a b c v w Ha Hb Hk. destruct (pa_row_eqb a b) eqn:E; [|reflexivity].
  pose proof (pa_row_eqb_lookup a b c E) as H. rewrite Ha, Hb in H. simpl in H.
  apply pa_val_eqb_kind in H. contradiction.
Qed.

(* so DISTINCT keeps both rows of a pair that differs only in the type of a value *)
Lemma pa_distinct_keeps_typed : forall l r,
  In r l ->
  (forall r', In r' l -> r' = r \/ exists c v w, pa_lookup c r' = Some v /\ pa_lookup c r = Some w
                                   /\ pa_val_kind v <> pa_val_kind w) ->
  In r (pa_distinct l).
Proof.
  intros l r Hin Hoth. destruct (pa_distinct_complete l r Hin) as [s [Hs He]].
  destruct (Hoth s (pa_distinct_incl l s Hs)) as [->|[c [v [w [Hv [Hw Hk]]]]]]; [assumption|].
  rewrite (pa_row_eqb_typed s r c v w Hv Hw Hk) in He. discriminate.
Qed.
