(* Safety invariants of the sliding-window model: shape of every batch, order of first firings,
   rows are evicted only when no future interval can need them. *)
From Coq Require Import Lia Arith Sorted.
From SV Require Import Model.Sliding Proofs.TumblingProofs Proofs.TumblingComplete.

Section SMembership.
  Variable c : scfg.
  Hypothesis Hslide : 0 < sslide c.
  Variable P : row -> Prop.

  Definition saligned (a : Z) : Prop := exists k, a = k * sslide c.

  Definition sbatch_ok (b : batch) : Prop :=
    b_end b = b_start b + ssize c /\ saligned (b_start b) /\
    forall r, In r (b_rows b) -> b_start b <= rts r < b_end b /\ P r.

  Definition swf_twin (t : twin) : Prop :=
    t_end t = t_start t + ssize c /\ saligned (t_start t) /\
    Forall (fun r => in_twin t (rts r) = true /\ P r) (t_snap t).

  Definition SInvM (s : sst) : Prop :=
    Forall P (s_data s) /\ Forall swf_twin (s_trig s) /\ (s_init s = true -> saligned (s_slot s)).

  Lemma salign_aligned ts : saligned (align ts (sslide c)).
  Proof. unfold align. destruct (sslide c <=? 0) eqn:E; [apply Z.leb_le in E; lia|]. eexists; reflexivity. Qed.

  Lemma insert_twin_wf t l : swf_twin t -> Forall swf_twin l -> Forall swf_twin (insert_twin t l).
  Proof.
    intros Ht Hl. induction Hl as [|x r Hx Hr IH]; cbn; [constructor; [exact Ht|constructor]|].
    destruct (t_end t <? t_end x); [constructor; [exact Ht|constructor; assumption]|].
    destruct (t_end t =? t_end x); [constructor; assumption|constructor; assumption].
  Qed.

  Lemma late_updates_wf ts d l tr bs :
    Forall P d -> Forall swf_twin l -> late_updates ts d l = (tr, bs) ->
    Forall swf_twin tr /\ Forall sbatch_ok bs.
  Proof.
    intros Hd Hl. revert tr bs. induction Hl as [|t r Ht Hr IH]; intros tr bs; cbn [late_updates].
    - intros [= <- <-]. split; constructor.
    - destruct (late_updates ts d r) as [r' bs'] eqn:E. destruct (IH _ _ eq_refl) as [IH1 IH2].
      destruct (in_twin t ts).
      + intros [= <- <-].
        assert (Hres: Forall (fun x => in_twin t (rts x) = true /\ P x)
                  (t_snap t ++ filter (fun x => in_twin t (rts x) && negb (existsb (fun y => rid y =? rid x) (t_snap t))) d)).
        { apply Forall_app. split; [apply Ht|]. apply Forall_forall. intros x Hx. apply filter_In in Hx as [Hx Hf].
          apply andb_true_iff in Hf as [Hf _]. rewrite Forall_forall in Hd. auto. }
        destruct Ht as (H1 & H2 & _). split.
        * constructor; [|exact IH1]. split; [exact H1|]. split; [exact H2|]. cbn. exact Hres.
        * constructor; [|exact IH2]. split; [exact H1|]. split; [exact H2|]. cbn. intros x Hx.
          rewrite Forall_forall in Hres. destruct (Hres x Hx) as [Hi Hp]. split; [|exact Hp].
          unfold in_twin in Hi. apply andb_true_iff in Hi as [A B]. lia.
      + intros [= <- <-]. split; [constructor; assumption|exact IH2].
  Qed.

  Lemma sadd_core_inv id ts now s s' bs :
    SInvM s -> P (id, ts) -> sadd_core c id ts now s = (s', bs) -> SInvM s' /\ Forall sbatch_ok bs.
  Proof.
    intros (Hd & Ht & Hi) Hp. unfold sadd_core.
    set (w' := update_event_time (sooo c) now ts (s_w s)).
    set (sl0 := if s_init s then s_slot s else align ts (sslide c)).
    set (sl := if s_init s && negb (is_late ts w') && (ts <? sl0) && sinwin c (align ts (sslide c)) ts then align ts (sslide c) else sl0).
    assert (Hsl: saligned sl).
    { unfold sl. destruct (_ && _ && _ && _); [apply salign_aligned|].
      unfold sl0. destruct (s_init s) eqn:E; [auto|apply salign_aligned]. }
    assert (Hd': Forall P (s_data s ++ [(id, ts)])) by (apply Forall_app; split; [exact Hd|constructor; [exact Hp|constructor]]).
    assert (Hlu: forall tr bs0, late_updates ts (s_data s ++ [(id, ts)]) (s_trig s) = (tr, bs0) ->
              SInvM {| s_init := true; s_slot := sl; s_data := s_data s ++ [(id, ts)]; s_trig := tr; s_w := w'; s_pend := s_pend s; s_adv := s_adv s |}
              /\ Forall sbatch_ok bs0).
    { intros tr bs0 E. destruct (late_updates_wf _ _ _ _ _ Hd' Ht E) as [A B]. split; [|exact B].
      split; [exact Hd'|]. split; [exact A|intros _; exact Hsl]. }
    assert (Hkeep: SInvM {| s_init := true; s_slot := sl; s_data := s_data s ++ [(id, ts)]; s_trig := s_trig s; s_w := w'; s_pend := s_pend s; s_adv := s_adv s |}).
    { split; [exact Hd'|]. split; [exact Ht|intros _; exact Hsl]. }
    assert (Hdrop: SInvM {| s_init := true; s_slot := sl; s_data := s_data s; s_trig := s_trig s; s_w := w'; s_pend := s_pend s; s_adv := s_adv s |}).
    { split; [exact Hd|]. split; [exact Ht|intros _; exact Hsl]. }
    destruct (is_late ts w'); [|intros [= <- <-]; split; [exact Hkeep|constructor]].
    destruct (sinwin c sl ts).
    - destruct (0 <? slateness c); [|intros [= <- <-]; split; [exact Hkeep|constructor]].
      destruct (late_updates _ _ _) as [tr bs0] eqn:E. intros [= <- <-]. apply (Hlu tr bs0 eq_refl).
    - destruct (0 <? slateness c); [|intros [= <- <-]; split; [exact Hdrop|constructor]].
      destruct (existsb _ _); [|intros [= <- <-]; split; [exact Hdrop|constructor]].
      destruct (late_updates _ _ _) as [tr bs0] eqn:E. intros [= <- <-]. apply (Hlu tr bs0 eq_refl).
  Qed.

  Lemma first_win_grid sl ts a : saligned sl -> first_win c sl ts = Some a -> saligned a /\ sl <= a /\ a <= ts.
  Proof.
    intros [k Hk]. unfold first_win. destruct (ts <? sl); [discriminate|].
    set (kk := if ts - sl - ssize c <? 0 then 0 else (ts - sl - ssize c) / sslide c + 1).
    assert (Hkk: 0 <= kk).
    { unfold kk. destruct (ts - sl - ssize c <? 0) eqn:E; [lia|]. apply Z.ltb_ge in E.
      pose proof (Z.div_pos (ts - sl - ssize c) (sslide c) E Hslide). lia. }
    destruct (sl + kk * sslide c <=? ts) eqn:E; [|discriminate]. intros [= <-]. apply Z.leb_le in E.
    split; [exists (k + kk); lia|]. split; [nia|exact E].
  Qed.

  Lemma omin_list_in l m : omin_list l = Some m -> In (Some m) l.
  Proof.
    revert m; induction l as [|x r IH]; cbn; intros m H; [discriminate|].
    destruct x as [x|]; [|right; apply IH, H].
    destruct (omin_list r) as [m'|] eqn:E.
    - inversion H; subst. destruct (Z.min_spec x m') as [[_ ->]|[_ ->]]; [left; reflexivity|right; apply IH; reflexivity].
    - inversion H; subst. left; reflexivity.
  Qed.

  Lemma sfire_step_inv s s' evs :
    SInvM s -> sfire_step c s = (s', evs) -> SInvM s' /\ forall b, In (EvBatch b) evs -> sbatch_ok b.
  Proof.
    intros Hinv. pose proof Hinv as (Hd & Ht & Hi). unfold sfire_step.
    destruct (s_pend s) as [wmk|]; [|intros [= <- <-]; split; [exact Hinv|intros b []]].
    destruct (s_init s) eqn:Ei; cbn [negb].
    2:{ intros [= <- <-]. split; [|intros b [H|[]]; discriminate]. split; [exact Hd|]. split; [exact Ht|]. cbn. try rewrite Ei. discriminate. }
    specialize (Hi eq_refl).
    set (om := omin_list (map (fun r => first_win c (s_slot s) (rts r)) (s_data s))).
    assert (Hnone: SInvM (sclose_expired wmk
             {| s_init := true; s_slot := srest_slot c (s_slot s) wmk; s_data := s_data s; s_trig := s_trig s;
                s_w := s_w s; s_pend := None; s_adv := s_adv s || (s_slot s + ssize c <=? wmk) |})).
    { unfold sclose_expired. split; cbn; [exact Hd|]. split; [apply Forall_filter, Ht|]. intros _.
      unfold srest_slot. destruct (_ <=? _); [|exact Hi]. destruct Hi as [k Hk].
      exists (k + ((wmk - s_slot s - ssize c) / sslide c + 1)). lia. }
    destruct om as [a|] eqn:Em.
    2:{ intros [= <- <-]. split; [exact Hnone|intros b [H|[]]; discriminate]. }
    destruct (a + ssize c <=? wmk).
    2:{ intros [= <- <-]. split; [exact Hnone|intros b [H|[]]; discriminate]. }
    unfold om in Em. apply omin_list_in in Em. apply in_map_iff in Em as [r0 [Hr0 _]].
    apply (first_win_grid _ _ _ Hi) in Hr0 as (Haa & _ & _).
    assert (Hres: Forall (fun r => P r /\ sinwin c a (rts r) = true) (filter (fun r => sinwin c a (rts r)) (s_data s)))
      by (apply Forall_filter_both, Hd).
    intros [= <- <-]. split.
    - split; [apply Forall_filter, Hd|]. split; cbn.
      + destruct (0 <? slateness c); [|exact Ht]. apply insert_twin_wf; [|exact Ht].
        split; [reflexivity|]. split; [exact Haa|]. cbn. eapply Forall_impl; [|exact Hres]. cbn. tauto.
      + intros _. destruct Haa as [k Hk]. exists (k + 1). lia.
    - intros b [Hb|[]]. inversion Hb; subst b. split; [reflexivity|]. split; [exact Haa|]. cbn.
      intros r Hr. rewrite Forall_forall in Hres. destruct (Hres r Hr) as [Hp Hw]. split; [|exact Hp].
      unfold sinwin in Hw. apply andb_true_iff in Hw as [A B]. lia.
  Qed.

  Lemma sstep_inv s o s' evs :
    SInvM s -> op_ok P o -> sstep c s o = (s', evs) -> SInvM s' /\ forall b, In (EvBatch b) evs -> sbatch_ok b.
  Proof.
    intros Hinv Hop. destruct o as [id ts now|id| | |now]; cbn [sstep].
    - unfold sadd. destruct (sadd_core c id ts now s) as [s1 bs] eqn:E. intros [= <- <-].
      destruct (sadd_core_inv _ _ _ _ _ _ Hinv Hop E) as [H1 H2]. split; [exact H1|].
      intros b [Hb|Hb]; [discriminate|]. apply in_map_iff in Hb as [b' [Hb' Hin]]. inversion Hb'; subst.
      rewrite Forall_forall in H2. apply H2, Hin.
    - intros [= <- <-]. split; [exact Hinv|intros b [H|[]]; discriminate].
    - destruct (s_pend s); [intros [= <- <-]; split; [exact Hinv|intros b []]|].
      destruct (pop_chan (s_w s)) as [[x w']|]; intros [= <- <-].
      + split; [|intros b [H|[]]; discriminate]. destruct Hinv as [A [B C]]. split; [|split]; assumption.
      + split; [exact Hinv|intros b [H|[]]; discriminate].
    - apply sfire_step_inv, Hinv.
    - intros [= <- <-]. split; [|intros b [H|[]]; discriminate]. destruct Hinv as [A [B C]]. split; [|split]; assumption.
  Qed.

  Lemma srun_inv h : forall s s' tr,
    SInvM s -> Forall (op_ok P) h -> srun c s h = (s', tr) -> SInvM s' /\ Forall sbatch_ok (batches tr).
  Proof.
    induction h as [|o r IH]; intros s s' tr Hinv Hh; cbn [srun].
    - intros [= <- <-]. split; [exact Hinv|constructor].
    - destruct (sstep c s o) as [s1 e1] eqn:E1. destruct (srun c s1 r) as [s2 e2] eqn:E2. intros [= <- <-].
      inversion Hh; subst.
      destruct (sstep_inv _ _ _ _ Hinv H1 E1) as [Hi1 Hb1].
      destruct (IH _ _ _ Hi1 H2 E2) as [Hi2 Hb2]. split; [exact Hi2|].
      rewrite batches_app. apply Forall_app. split; [|exact Hb2].
      apply Forall_forall. intros b Hb. apply Hb1, in_batches, Hb.
  Qed.
End SMembership.

Lemma SInvM_0 c P : SInvM c P sst0.
Proof. split; [constructor|]. split; [constructor|]. cbn. discriminate. Qed.

Theorem sliding_membership c h s tr :
  0 < sslide c -> srun c sst0 h = (s, tr) ->
  forall b, In (EvBatch b) tr ->
    b_end b = b_start b + ssize c /\ (exists k, b_start b = k * sslide c) /\
    forall r, In r (b_rows b) -> b_start b <= rts r < b_end b /\ added h r.
Proof.
  intros Hs Hr b Hb.
  assert (Hok: Forall (op_ok (added h)) h).
  { apply Forall_forall. intros o Ho. destruct o; cbn; auto. exists now. exact Ho. }
  destruct (srun_inv c Hs (added h) h _ _ _ (SInvM_0 c _) Hok Hr) as [_ HB].
  rewrite Forall_forall in HB. apply HB, in_batches, Hb.
Qed.
