(* The current watermark of the tumbling model never decreases, for every configuration (idle timeout or not),
   every history and every clock reading passed to its operations. *)
From Coq Require Import Lia.
From SV Require Import Model.Tumbling Spec.WmMonoSpec Proofs.TumblingProofs Proofs.TumblingComplete.

Lemma wm_le_refl o : wm_le o o = true.
Proof. destruct o; cbn; [apply Z.leb_refl|reflexivity]. Qed.

Lemma wm_le_of_ole a b : (forall x, ole x a -> ole x b) -> wm_le a b = true.
Proof.
  intros H. destruct a as [x|]; [|reflexivity]. specialize (H x). cbn in H.
  destruct b as [y|]; cbn in *; [apply Z.leb_le; apply H; lia|exfalso; apply H; lia].
Qed.

Lemma add_core_w c id ts now s : w (fst (add_core c id ts now s)) = update_event_time (ooo c) now ts (w s).
Proof.
  unfold add_core. destruct (is_late _ _); [|reflexivity].
  destruct (inwin _ _ _); [reflexivity|]. destruct (0 <? lateness c); [|reflexivity].
  destruct (find _ _); reflexivity.
Qed.

Lemma close_expired_w x s : w (close_expired x s) = w s.
Proof. reflexivity. Qed.

Lemma fire_step_w c s : w (fst (fire_step c s)) = w s.
Proof.
  unfold fire_step. destruct (pend s); [|reflexivity]. destruct (negb (init s)); [reflexivity|].
  destruct (minl _); reflexivity.
Qed.

Lemma pop_chan_cur wm0' x w' : pop_chan wm0' = Some (x, w') -> cur w' = cur wm0'.
Proof. unfold pop_chan. destruct (chan wm0'); [discriminate|]. intros H. inversion H; subst. reflexivity. Qed.

Lemma step_cur_mono c s o : wm_le (cur (w s)) (cur (w (fst (step c s o)))) = true.
Proof.
  destruct o as [id ts now|id| | |now]; cbn [step].
  - unfold add. destruct (add_core c id ts now s) as [s' bs] eqn:E. cbn [fst].
    replace s' with (fst (add_core c id ts now s)) by (rewrite E; reflexivity).
    rewrite add_core_w. apply wm_le_of_ole. intros x. apply uet_mono.
  - apply wm_le_refl.
  - destruct (pend s); [apply wm_le_refl|]. destruct (pop_chan (w s)) as [[x w']|] eqn:E; cbn [fst w].
    + rewrite (pop_chan_cur _ _ _ E). apply wm_le_refl.
    + apply wm_le_refl.
  - rewrite fire_step_w. apply wm_le_refl.
  - cbn [fst set_w w]. apply wm_le_of_ole. intros x. apply tick_mono.
Qed.

Lemma wm_le_trans a b d : wm_le a b = true -> wm_le b d = true -> wm_le a d = true.
Proof.
  destruct a as [x|], b as [y|], d as [z|]; cbn; intros H1 H2; try reflexivity; try discriminate.
  apply Z.leb_le. apply Z.leb_le in H1. apply Z.leb_le in H2. lia.
Qed.

Theorem run_curs_nondecreasing c h : forall s i, wm_regress_at (cur (w s)) (run_curs c s h) i = None.
Proof.
  induction h as [|o r IH]; intros s i; cbn [run_curs wm_regress_at]; [reflexivity|].
  rewrite step_cur_mono. apply IH.
Qed.

Theorem model_never_regresses c h : wm_regress (run_curs c st0 h) = None.
Proof. apply (run_curs_nondecreasing c h st0 0%nat). Qed.

(* the statement the clause protects, on the two writers themselves *)
Theorem event_never_lowers_watermark ooo now ts wm1 :
  wm_le (cur wm1) (cur (update_event_time ooo now ts wm1)) = true.
Proof. apply wm_le_of_ole. intros x. apply uet_mono. Qed.
Theorem tick_never_lowers_watermark ooo idle now wm1 :
  wm_le (cur wm1) (cur (tick ooo idle now wm1)) = true.
Proof. apply wm_le_of_ole. intros x. apply tick_mono. Qed.

(* non-vacuity: the idle advance moves the watermark past an event that is newer than every earlier one; the
   event does not pull it back. idle = 1000, clock 5000 after the last event: watermark 4995; then ts = 200 *)
Example idle_then_newer_event :
  let c := {| size := 10; ooo := 5; lateness := 0; idle := 1000 |} in
  run_curs c st0 [Add 1 100 0; Tick 5000; Add 2 200 5000] = [Some 95; Some 4995; Some 4995].
Proof. vm_compute. reflexivity. Qed.

(* ---- the future guard bounds every received watermark ---- *)
From SV Require Import Proofs.TumblingWatermark Proofs.TumblingIdle.

Lemma wm_beyond_at_none limit tr : (forall x, In (EvDB x) tr -> x <= limit) -> forall i, wm_beyond_at limit tr i = None.
Proof.
  induction tr as [|e r IH]; intros H i; cbn [wm_beyond_at]; [reflexivity|].
  destruct e as [| | |wk| | |]; try (apply IH; intros x Hx; apply H; right; exact Hx).
  assert (Hle : wk <= limit) by (apply H; left; reflexivity).
  destruct (limit <? wk) eqn:E; [apply Z.ltb_lt in E; lia|].
  apply IH. intros x Hx. apply H. right. exact Hx.
Qed.

Theorem model_respects_future_guard c h n s tr :
  0 <= ooo c -> Forall (op_clock_le n) h -> run c st0 h = (s, tr) -> wm_beyond_guard n tr = None.
Proof.
  intros Hooo Hclk Hrun. unfold wm_beyond_guard. apply wm_beyond_at_none.
  intros x Hx. destruct (tumbling_no_early_fire_idle c h s tr Hrun) as [Hwm _].
  destruct (Hwm x Hx) as [(id & ts & now & Hin & Hsane & ->)|(_ & now & l & Hin & _ & _ & ->)].
  - rewrite Forall_forall in Hclk. specialize (Hclk _ Hin). cbn in Hclk.
    apply Z.ltb_ge in Hsane. unfold day in *. lia.
  - rewrite Forall_forall in Hclk. specialize (Hclk _ Hin). cbn in Hclk. unfold day. lia.
Qed.
