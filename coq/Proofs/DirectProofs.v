(* C05 — proofs about the direct (non-aggregate) query model, Model/Direct.v *)
From SV Require Import Model.Direct.
From Coq Require Import Lia.
Local Open Scope nat_scope.

(* ---- the result is produced iff WHERE is true, and it is the projection ---- *)
Theorem direct_row_iff : forall q row r,
  direct q row = DRow r <-> (where_ok q row = Some true /\ project q row = Some r).
Proof.
  intros q row r. unfold direct. destruct (where_ok q row) as [[|]|]; split.
  - destruct (project q row); intros H; inversion H; auto.
  - intros [_ ->]. reflexivity.
  - discriminate.
  - intros [H _]. discriminate.
  - discriminate.
  - intros [H _]. discriminate.
Qed.

Theorem direct_none_iff : forall q row, direct q row = DNone <-> where_ok q row = Some false.
Proof.
  intros q row. unfold direct. destruct (where_ok q row) as [[|]|]; split; try discriminate; auto.
  destruct (project q row); discriminate.
Qed.

(* ---- the key set of the result ---- *)
Lemma bytes_eqb_refl : forall a, bytes_eqb a a = true.
Proof. induction a as [|x a IH]; simpl; auto. rewrite N.eqb_refl. exact IH. Qed.
Lemma bytes_eqb_eq : forall a b, bytes_eqb a b = true -> a = b.
Proof.
  induction a as [|x a IH]; destruct b as [|y b]; simpl; intros H; try discriminate; auto.
  apply andb_prop in H. destruct H as [H1 H2]. apply N.eqb_eq in H1. subst. f_equal. auto.
Qed.

Lemma lookup_set_same : forall r k v, xlookup (set_field r k v) k = Some v.
Proof.
  induction r as [|[k' v'] r IH]; intros k v; simpl.
  - rewrite bytes_eqb_refl. reflexivity.
  - destruct (bytes_eqb k k') eqn:E; simpl; [rewrite bytes_eqb_refl|rewrite E]; auto.
Qed.

Lemma lookup_set_other : forall r k v k', bytes_eqb k' k = false -> xlookup (set_field r k v) k' = xlookup r k'.
Proof.
  induction r as [|[k0 v0] r IH]; intros k v k' Hne; simpl.
  - rewrite Hne. reflexivity.
  - destruct (bytes_eqb k k0) eqn:E; simpl.
    + apply bytes_eqb_eq in E. subst. rewrite Hne. reflexivity.
    + destruct (bytes_eqb k' k0); auto.
Qed.

Definition no_star (q : xquery) : Prop := Forall (fun i => i <> IStar) (q_items q).

Fixpoint out_names (is : list xitem) : list bytes :=
  match is with
  | [] => []
  | i :: is' => match out_name i with Some o => o :: out_names is' | None => out_names is' end
  end.

Lemma project_items_keys : forall row is acc r,
  Forall (fun i => i <> IStar) is -> project_items row acc is = Some r ->
  forall k, xlookup r k <> None <-> (xlookup acc k <> None \/ In k (out_names is)).
Proof.
  intros row is. induction is as [|i is IH]; intros acc r HF H k; simpl in *.
  - inversion H; subst. tauto.
  - inversion HF as [|? ? Hi HF']; subst.
    destruct (project_item row acc i) as [acc'|] eqn:Ei; [|discriminate].
    rewrite (IH acc' r HF' H k).
    assert (K : forall o v, acc' = set_field acc o v ->
                (xlookup acc' k <> None <-> (xlookup acc k <> None \/ o = k))).
    { intros o v ->. destruct (bytes_eqb k o) eqn:E.
      - apply bytes_eqb_eq in E. subst. rewrite lookup_set_same. split; [auto|discriminate].
      - rewrite lookup_set_other by auto. split; [auto|]. intros [Hx|Hx]; auto. subst. rewrite bytes_eqb_refl in E. discriminate. }
    destruct i as [|src out|s out|t out]; simpl in *.
    + congruence.
    + injection Ei as E1. pose proof (K out _ (eq_sym E1)) as Kk. tauto.
    + injection Ei as E1. pose proof (K out _ (eq_sym E1)) as Kk. tauto.
    + destruct (expr_item_value row t); [|discriminate]. injection Ei as E1.
      pose proof (K out _ (eq_sym E1)) as Kk. tauto.
Qed.

(* a query without * yields exactly the selected output names *)
Theorem direct_columns : forall q row r,
  no_star q -> direct q row = DRow r ->
  forall k, xlookup r k <> None <-> In k (out_names (q_items q)).
Proof.
  intros q row r Hs Hd k. apply direct_row_iff in Hd. destruct Hd as [_ Hp]. unfold project in Hp.
  rewrite (project_items_keys row (q_items q) [] r Hs Hp k). simpl. tauto.
Qed.

(* a plain column item: the field's value, NULL when the source is missing *)
Theorem direct_column_value : forall row acc src out acc',
  project_item row acc (ICol src out) = Some acc' ->
  xlookup acc' out = Some (match xlookup row src with Some v => v | None => VNull end).
Proof. intros row acc src out acc' H. simpl in H. inversion H. apply lookup_set_same. Qed.

(* SELECT * alone copies the row (rows built from Go maps have distinct keys) *)
Lemma star_fold : forall row acc k,
  NoDup (map fst row) ->
  xlookup (fold_left (fun a kv => set_field a (fst kv) (snd kv)) row acc) k =
  match xlookup row k with Some v => Some v | None => xlookup acc k end.
Proof.
  induction row as [|[k0 v0] row IH]; intros acc k Hnd; simpl; auto.
  inversion Hnd as [|? ? Hnin Hnd']; subst. rewrite IH by auto.
  destruct (bytes_eqb k k0) eqn:E.
  - apply bytes_eqb_eq in E. subst.
    assert (xlookup row k0 = None).
    { clear -Hnin. induction row as [|[k1 v1] row IH]; simpl in *; auto.
      destruct (bytes_eqb k0 k1) eqn:E; [apply bytes_eqb_eq in E; subst; tauto|]. apply IH. tauto. }
    rewrite H. apply lookup_set_same.
  - destruct (xlookup row k); auto. apply lookup_set_other; auto.
Qed.

Theorem direct_star : forall row k w r,
  NoDup (map fst row) ->
  direct {| q_items := [IStar]; q_where := w |} row = DRow r -> xlookup r k = xlookup row k.
Proof.
  intros row k w r Hnd Hd. apply direct_row_iff in Hd. destruct Hd as [_ Hp].
  unfold project in Hp. simpl in Hp. inversion Hp; subst. rewrite star_fold by auto.
  destruct (xlookup row k); reflexivity.
Qed.

(* ---- no history: the result for a row is a function of the row and the query ---- *)
Theorem direct_history_free : forall q h row,
  nth (length h) (map (direct q) (h ++ [row])) DNone = direct q row.
Proof.
  intros q h row. rewrite map_app. rewrite app_nth2; rewrite map_length; [|lia].
  replace (length h - length h) with 0 by lia. reflexivity.
Qed.

(* ---- Emit (FIFO + single consumer + inline synchronous sinks) delivers what EmitSync returns,
   in emission order, for every interleaving of the producer with the consumer ---- *)
Lemma run_invariant : forall q ops s,
  let s' := fold_left (step q) ops s in
  st_sink s' ++ map (direct q) (st_chan s') = st_sink s ++ map (direct q) (st_chan s ++ emitted ops).
Proof.
  intros q ops. induction ops as [|o ops IH]; intros s; simpl.
  - rewrite app_nil_r. reflexivity.
  - specialize (IH (step q s o)). simpl in IH. rewrite IH. clear IH.
    destruct o as [row|]; simpl.
    + rewrite <- app_assoc. reflexivity.
    + destruct (st_chan s) as [|row rest] eqn:E; simpl.
      * rewrite E. reflexivity.
      * rewrite <- app_assoc. reflexivity.
Qed.

Theorem sync_async_same : forall q ops,
  st_chan (run q ops) = [] ->
  st_sink (run q ops) = map (direct q) (emitted ops).
Proof.
  intros q ops H. pose proof (run_invariant q ops {| st_chan := []; st_sink := [] |}) as I.
  simpl in I. unfold run in *. rewrite H in I. simpl in I. rewrite app_nil_r in I. exact I.
Qed.

(* what reaches a synchronous sink: the produced results, in emission order *)
Theorem single_producer_order : forall q ops,
  st_chan (run q ops) = [] ->
  delivered (st_sink (run q ops)) = delivered (map (direct q) (emitted ops)).
Proof. intros q ops H. rewrite (sync_async_same q ops H). reflexivity. Qed.

(* at every moment the sink has seen a prefix of that sequence *)
Theorem sink_is_prefix : forall q ops,
  exists rest, map (direct q) (emitted ops) = st_sink (run q ops) ++ rest.
Proof.
  intros q ops. pose proof (run_invariant q ops {| st_chan := []; st_sink := [] |}) as I.
  simpl in I. eexists. symmetry. exact I.
Qed.

(* ---- the FIFO with channel expansion ---- *)
Lemma ystep_invariant : forall q s o,
  y_sink s ++ map (direct q) (ypending s) = map (direct q) (y_acc s) ->
  let s' := ystep true q s o in
  y_sink s' ++ map (direct q) (ypending s') = map (direct q) (y_acc s').
Proof.
  intros q [old new acc sink] o H. unfold ypending in *. simpl in *.
  destruct o as [row| | | |]; destruct new as [n|]; simpl in *; try exact H.
  - (* emit *) rewrite !map_app. rewrite app_assoc. rewrite H. reflexivity.
  - (* step *) destruct old as [|row rest]; simpl in *; [exact H|].
    rewrite <- app_assoc. exact H.
  - (* move *) destruct old as [|row rest]; simpl in *; [exact H|].
    rewrite <- app_assoc. exact H.
  - (* swap *) destruct old as [|row rest]; simpl in *; [|exact H].
    rewrite app_nil_r in H. exact H.
Qed.

Lemma yrun_invariant : forall q ops s,
  y_sink s ++ map (direct q) (ypending s) = map (direct q) (y_acc s) ->
  let s' := fold_left (ystep true q) ops s in
  y_sink s' ++ map (direct q) (ypending s') = map (direct q) (y_acc s').
Proof.
  intros q ops. induction ops as [|o ops IH]; intros s H; simpl; [exact H|].
  apply IH. apply ystep_invariant. exact H.
Qed.

(* with the receive covered by the lock: whatever the schedule (emissions, consumer steps, any number
   of expansions, each with its row-by-row migration), the sink has seen a prefix of
   map (direct q) (accepted rows), and everything once nothing is buffered *)
Theorem expand_sink_is_prefix : forall q ops,
  let s := yrun true q ops in
  y_sink s ++ map (direct q) (ypending s) = map (direct q) (y_acc s).
Proof. intros q ops. apply yrun_invariant. reflexivity. Qed.

Theorem expand_keeps_order : forall q ops,
  ypending (yrun true q ops) = [] ->
  delivered (y_sink (yrun true q ops)) = delivered (map (direct q) (y_acc (yrun true q ops))).
Proof.
  intros q ops H. pose proof (expand_sink_is_prefix q ops) as I. simpl in I.
  rewrite H in I. simpl in I. rewrite app_nil_r in I. rewrite I. reflexivity.
Qed.

(* accepted rows = emitted rows that were not blocked by a migration in progress; without expansion
   steps this is the plain FIFO *)
Lemma yacc_no_expansion : forall q ops s,
  y_new s = None ->
  Forall (fun o => match o with YEmit _ | YStep => True | _ => False end) ops ->
  y_acc (fold_left (ystep true q) ops s)
  = y_acc s ++ flat_map (fun o => match o with YEmit r => [r] | _ => [] end) ops.
Proof.
  intros q ops. induction ops as [|o ops IH]; intros s Hn HF; simpl.
  - rewrite app_nil_r. reflexivity.
  - inversion HF as [|o' ops' Ho HF']; subst.
    destruct o as [row| | | |]; try contradiction.
    + rewrite IH; [|destruct s; simpl in *; rewrite Hn; reflexivity|exact HF'].
      destruct s as [old new acc sink]; simpl in *. subst new. simpl. rewrite <- app_assoc. reflexivity.
    + rewrite IH; [|destruct s as [old new acc sink]; simpl in *; subst new; destruct old; reflexivity|exact HF'].
      destruct s as [old new acc sink]; simpl in *. subst new. destruct old; reflexivity.
Qed.
