(* C14 — one select item (field) as a state machine over the counted rows of a partition equals its declarative
   specification, for every history: wrappers over one or several calls (every call advances its own state on
   every row; the value is the wrapper's arithmetic over what each call returns by its own definition),
   changed_cols (per column), had_changed(ign, * ) (by column name). *)
From Coq Require Import Lia.
From SV Require Import Model.Analytic Spec.AnalyticSpec Proofs.AnalyticSeq Proofs.AnalyticEngine.

(* ---------------------------------------------------------------- prefix lemma with a condition on the rows *)
Section PrefixP.
  Variables (A B S : Type).
  Variable step : S -> A -> S * B.
  Variable spec : list A -> A -> B.
  Variable P : A -> Prop.
  Variable Inv : list A -> S -> Prop.
  Hypothesis Hstep : forall l s x, P x -> Inv l s -> Inv (l ++ [x]) (fst (step s x)) /\ snd (step s x) = spec l x.

  Lemma sm_run_prefix_P : forall l l0 s, Forall P l -> Inv l0 s -> sm_run step s l = map_prefix_aux spec l0 l.
  Proof.
    induction l as [|x t IH]; intros l0 s HP HI; simpl; [reflexivity|].
    inversion HP as [|x' t' Hx Ht]; subst.
    destruct (Hstep l0 s x Hx HI) as [HI' Hout].
    destruct (step s x) as [s' b] eqn:E. simpl in *. subst b. f_equal. apply IH; assumption.
  Qed.
End PrefixP.

Lemma flat_map_ext_in_l (A B : Type) (f g : A -> list B) l :
  (forall x, In x l -> f x = g x) -> flat_map f l = flat_map g l.
Proof.
  induction l as [|x t IH]; simpl; intros H; [reflexivity|].
  rewrite (H x) by (left; reflexivity). rewrite IH; [reflexivity|]. intros y Hy. apply H. right. exact Hy.
Qed.

(* ---------------------------------------------------------------- several calls of one item *)
Lemma calls_step earlier r : forall cs ss,
  forallb an_call_wf cs = true ->
  Forall2 (fun c s => call_inv c earlier s) cs ss ->
  Forall2 (fun c s => call_inv c (earlier ++ [r]) s) cs (fst (an_calls_apply cs ss r)) /\
  snd (an_calls_apply cs ss r) = map (fun c => an_call_spec_rows c earlier r) cs.
Proof.
  induction cs as [|c ct IH]; intros ss Hwf HI.
  - inversion HI; subst. simpl. split; [constructor|reflexivity].
  - inversion HI as [|c' s ct' st Hc Ht]; subst. simpl in Hwf. apply andb_prop in Hwf. destruct Hwf as [Hwc Hwt].
    cbn [an_calls_apply].
    destruct (call_step c earlier s r Hwc Hc) as [H1 H2].
    destruct (an_call_apply c s r) as [s' v]. cbn [fst snd] in H1, H2.
    destruct (IH st Hwt Ht) as [H3 H4].
    destruct (an_calls_apply ct st r) as [st' vs]. cbn [fst snd] in *.
    split; [constructor; assumption|]. rewrite H2, H4. reflexivity.
Qed.

Lemma calls_init : forall cs, forallb an_call_wf cs = true ->
  Forall2 (fun c s => call_inv c [] s) cs (map (fun c => an_new_state (ca_fn c)) cs).
Proof.
  induction cs as [|c ct IH]; simpl; intros H; [constructor|].
  apply andb_prop in H. destruct H as [H1 H2]. constructor; [apply call_inv_init; exact H1|apply IH; exact H2].
Qed.

(* the i-th call of an item run on its own gives the i-th component: no call depends on another *)
Fixpoint calls_run (cs : list acall) (ss : list acstate) (h : list arow) : list (list ares) :=
  match h with
  | [] => []
  | r :: t => let '(ss', vs) := an_calls_apply cs ss r in vs :: calls_run cs ss' t
  end.

Lemma calls_apply_nth : forall cs ss r i c s,
  length cs = length ss -> nth_error cs i = Some c -> nth_error ss i = Some s ->
  nth_error (fst (an_calls_apply cs ss r)) i = Some (fst (an_call_apply c s r)) /\
  nth_error (snd (an_calls_apply cs ss r)) i = Some (snd (an_call_apply c s r)) /\
  length cs = length (fst (an_calls_apply cs ss r)).
Proof.
  induction cs as [|c0 ct IH]; intros ss r i c s Hlen Hc Hs.
  - destruct i; discriminate.
  - destruct ss as [|s0 st]; [discriminate|]. simpl in Hlen. injection Hlen as Hlen.
    cbn [an_calls_apply].
    destruct (an_call_apply c0 s0 r) as [s0' v0] eqn:E0.
    destruct i as [|i].
    + simpl in Hc, Hs. injection Hc as <-. injection Hs as <-.
      destruct (an_calls_apply ct st r) as [st' vs] eqn:Et. rewrite E0. cbn [fst snd nth_error].
      repeat split. simpl. f_equal.
      destruct ct as [|c1 ct1]; destruct st as [|s1 st1]; try discriminate.
      * simpl in Et. injection Et as <- <-. reflexivity.
      * destruct (IH (s1 :: st1) r 0 c1 s1 Hlen eq_refl eq_refl) as (_ & _ & H3). rewrite Et in H3. exact H3.
    + simpl in Hc, Hs. destruct (IH st r i c s Hlen Hc Hs) as (H1 & H2 & H3).
      destruct (an_calls_apply ct st r) as [st' vs]. cbn [fst snd nth_error] in *.
      repeat split; try assumption. simpl. f_equal. exact H3.
Qed.

Lemma calls_independent : forall h cs ss i c s,
  length cs = length ss -> nth_error cs i = Some c -> nth_error ss i = Some s ->
  map (fun vs => nth_error vs i) (calls_run cs ss h) = map Some (sm_run (an_call_apply c) s h).
Proof.
  induction h as [|r t IH]; intros cs ss i c s Hlen Hc Hs; [reflexivity|].
  cbn [calls_run sm_run].
  destruct (calls_apply_nth cs ss r i c s Hlen Hc Hs) as (H1 & H2 & H3).
  destruct (an_calls_apply cs ss r) as [ss' vs]. destruct (an_call_apply c s r) as [s' v].
  cbn [fst snd map] in *. rewrite H2. f_equal. apply IH; assumption.
Qed.

(* ---------------------------------------------------------------- changed_cols *)
Section Cols.
  Variable prefix : bytes.
  Variable b : bool.
  Variable val : bytes -> aval.

  Lemma ccol_lookup_after n p :
    alookup n (match fst (an_ccol_step b (alookup n p) (val n)) with Some x => aset n x p | None => p end) =
    fst (an_ccol_step b (alookup n p) (val n)).
  Proof.
    unfold an_ccol_step. destruct (b && an_is_null (val n)); cbn [fst].
    - destruct (alookup n p) as [x|] eqn:E; [apply alookup_aset_same|exact E].
    - apply alookup_aset_same.
  Qed.

  Lemma ccols_apply_spec : forall cs p, NoDup cs ->
    (forall n, In n cs -> alookup n (fst (an_ccols_apply prefix b p (map (fun n => (n, val n)) cs))) =
                          fst (an_ccol_step b (alookup n p) (val n))) /\
    (forall n, ~ In n cs -> alookup n (fst (an_ccols_apply prefix b p (map (fun n => (n, val n)) cs))) = alookup n p) /\
    snd (an_ccols_apply prefix b p (map (fun n => (n, val n)) cs)) =
    flat_map (fun n => match snd (an_ccol_step b (alookup n p) (val n)) with
                       | Some x => [(prefix ++ n, x)] | None => [] end) cs.
  Proof.
    induction cs as [|n t IH]; intros p Hnd.
    - simpl. repeat split; intros; try reflexivity. contradiction.
    - inversion Hnd as [|n' t' Hnin Hnd']; subst. cbn [map an_ccols_apply].
      pose proof (ccol_lookup_after n p) as Hla.
      destruct (an_ccol_step b (alookup n p) (val n)) as [st' c] eqn:Es. cbn [fst snd] in Hla.
      set (p1 := match st' with Some x => aset n x p | None => p end) in *.
      assert (Hother : forall m, m <> n -> alookup m p1 = alookup m p).
      { intros m Hm. unfold p1. destruct st'; [apply alookup_aset_other; exact Hm|reflexivity]. }
      destruct (IH p1 Hnd') as (H1 & H2 & H3).
      destruct (an_ccols_apply prefix b p1 (map (fun n0 => (n0, val n0)) t)) as [p2 out]. cbn [fst snd] in *.
      repeat split.
      + intros m [Hm|Hm].
        * subst m. rewrite Es. cbn [fst]. rewrite (H2 n Hnin). exact Hla.
        * rewrite (H1 m Hm). rewrite Hother; [reflexivity|]. intros ->. contradiction.
      + intros m Hm. rewrite H2 by (intros Hi; apply Hm; right; exact Hi).
        apply Hother. intros ->. apply Hm. left. reflexivity.
      + cbn [flat_map]. rewrite Es. cbn [snd]. rewrite H3.
        assert (Hfm : flat_map (fun n0 => match snd (an_ccol_step b (alookup n0 p1) (val n0)) with
                                          | Some x => [(prefix ++ n0, x)] | None => [] end) t =
                      flat_map (fun n0 => match snd (an_ccol_step b (alookup n0 p) (val n0)) with
                                          | Some x => [(prefix ++ n0, x)] | None => [] end) t).
        { apply flat_map_ext_in_l. intros m Hm. rewrite Hother; [reflexivity|]. intros ->. contradiction. }
        rewrite Hfm. destruct c; reflexivity.
  Qed.
End Cols.

Fixpoint bytes_nodupb (l : list bytes) : bool :=
  match l with
  | [] => true
  | x :: t => negb (existsb (bytes_eqb x) t) && bytes_nodupb t
  end.

Lemma bytes_nodupb_ok l : bytes_nodupb l = true -> NoDup l.
Proof.
  induction l as [|x t IH]; simpl; intros H; [constructor|].
  apply andb_prop in H. destruct H as [H1 H2]. constructor; [|apply IH; exact H2].
  intros Hin. apply Bool.negb_true_iff in H1.
  assert (existsb (bytes_eqb x) t = true) by (apply existsb_exists; exists x; split; [exact Hin|apply bytes_eqb_refl]).
  congruence.
Qed.

Definition cols_inv (b : bool) (cols : list bytes) (earlier : list arow) (p : arow) : Prop :=
  forall n, In n cols -> ccol_inv b (map (an_col_val n) earlier) (alookup n p).

(* ---------------------------------------------------------------- had_changed(ign, * ) *)
Definition row_ok (r : arow) : Prop := NoDup (map fst r).

Lemma alookup_in_nodup (V : Type) (m : list (bytes * V)) k v : NoDup (map fst m) -> In (k, v) m -> alookup k m = Some v.
Proof.
  induction m as [|[k' v'] t IH]; simpl; intros Hnd Hin; [contradiction|].
  inversion Hnd as [|a l Hnin Hnd']; subst.
  destruct Hin as [Hin|Hin].
  - injection Hin as -> ->. rewrite bytes_eqb_refl. reflexivity.
  - destruct (bytes_eqb k k') eqn:E.
    + apply bytes_eqb_eq in E. subst k'. exfalso. apply Hnin. apply (in_map fst) in Hin. exact Hin.
    + apply IH; assumption.
Qed.

(* the entries a named state holds: the columns of the last row that have a baseline *)
Definition named_state (ign : bool) (revl : list arow) (lastrow : arow) : arow :=
  flat_map (fun kv => match an_bl_rev ign revl (fst kv) with Some pv => [(fst kv, pv)] | None => [] end) lastrow.

Lemma alookup_flat_map_sel (V W : Type) (g : bytes -> option W) : forall (m : list (bytes * V)) n,
  alookup n (flat_map (fun kv => match g (fst kv) with Some pv => [(fst kv, pv)] | None => [] end) m) =
  match alookup n m with Some _ => g n | None => None end.
Proof.
  induction m as [|[k v] t IH]; intros n; simpl; [reflexivity|].
  destruct (bytes_eqb n k) eqn:E.
  - apply bytes_eqb_eq in E. subst k. destruct (g n) as [pv|] eqn:Eg; simpl.
    + rewrite bytes_eqb_refl. reflexivity.
    + rewrite IH. destruct (alookup n t); [exact Eg|reflexivity].
  - destruct (g k) as [pv|]; simpl; [rewrite E|]; apply IH.
Qed.

Lemma bl_rev_cons ign r t n :
  an_bl_rev ign (r :: t) n =
  match alookup n r with None => None | Some v => if an_skip ign v then an_bl_rev ign t n else Some v end.
Proof. reflexivity. Qed.

Lemma bl_rev_head_none ign lastrow t n : alookup n lastrow = None -> an_bl_rev ign (lastrow :: t) n = None.
Proof. intros H. simpl. rewrite H. reflexivity. Qed.

Lemma named_lookup ign lastrow t n :
  alookup n (named_state ign (lastrow :: t) lastrow) = an_bl_rev ign (lastrow :: t) n.
Proof.
  unfold named_state. rewrite alookup_flat_map_sel.
  destruct (alookup n lastrow) eqn:E; [reflexivity|]. symmetry. apply bl_rev_head_none. exact E.
Qed.

Definition named_inv (ign : bool) (earlier : list arow) (st : option arow) : Prop :=
  Forall row_ok earlier /\
  st = match rev earlier with
       | [] => None
       | lastrow :: t => Some (named_state ign (lastrow :: t) lastrow)
       end.

Lemma existsb_ext_in (A : Type) (f g : A -> bool) l : (forall x, In x l -> f x = g x) -> existsb f l = existsb g l.
Proof.
  induction l as [|x t IH]; simpl; intros H; [reflexivity|].
  rewrite (H x) by (left; reflexivity). rewrite IH; [reflexivity|]. intros y Hy. apply H. right. exact Hy.
Qed.

Lemma existsb_flat_map_sel (V : Type) (g : bytes -> option V) (f : bytes * V -> bool) : forall (m : list (bytes * V)),
  existsb f (flat_map (fun kv => match g (fst kv) with Some pv => [(fst kv, pv)] | None => [] end) m) =
  existsb (fun kv => match g (fst kv) with Some pv => f (fst kv, pv) | None => false end) m.
Proof.
  induction m as [|[k v] t IH]; simpl; [reflexivity|].
  destruct (g k) as [pv|]; simpl; rewrite IH; reflexivity.
Qed.

Lemma named_step ign earlier st r :
  row_ok r -> named_inv ign earlier st ->
  named_inv ign (earlier ++ [r]) (fst (an_named_apply st ign r)) /\
  snd (an_named_apply st ign r) = AVBool (an_named_spec ign earlier r).
Proof.
  intros Hr [Hall Hst].
  assert (Hall' : Forall row_ok (earlier ++ [r])).
  { apply Forall_app. split; [exact Hall|]. constructor; [exact Hr|constructor]. }
  unfold an_named_apply, an_named_spec, named_inv.
  rewrite rev_app_distr. cbn [rev app].
  destruct (rev earlier) as [|lastrow t] eqn:Erev.
  - subst st. cbn [fst snd]. split; [|reflexivity]. split; [exact Hall'|]. f_equal.
    unfold named_state.
    (* filter = flat_map over the first row *)
    assert (Hgen : forall m : arow, (forall kv, In kv m -> alookup (fst kv) r = Some (snd kv)) ->
              filter (fun kv => negb (an_skip ign (snd kv))) m =
              flat_map (fun kv => match an_bl_rev ign [r] (fst kv) with Some pv => [(fst kv, pv)] | None => [] end) m).
    { induction m as [|[k v] m IHm]; intros Hm; [reflexivity|]. cbn [filter flat_map fst snd].
      assert (Hk := Hm (k, v) (or_introl eq_refl)). cbn [fst snd] in Hk.
      rewrite bl_rev_cons. rewrite Hk. cbn [an_bl_rev].
      rewrite IHm by (intros kv Hkv; apply Hm; right; exact Hkv).
      destruct (an_skip ign v); reflexivity. }
    apply Hgen. intros [k v] Hkv. apply alookup_in_nodup; assumption.
  - subst st. cbn [fst snd].
    set (prev := named_state ign (lastrow :: t) lastrow).
    assert (Hprev : forall n, alookup n prev = an_bl_rev ign (lastrow :: t) n) by (intros n; apply named_lookup).
    split.
    + split; [exact Hall'|]. f_equal. unfold named_state.
      apply flat_map_ext_in_l. intros [k v] Hkv. cbn [fst snd].
      rewrite bl_rev_cons. rewrite (alookup_in_nodup _ r k v Hr Hkv).
      rewrite Hprev. destruct (an_skip ign v); [|reflexivity].
      destruct (an_bl_rev ign (lastrow :: t) k); reflexivity.
    + f_equal. f_equal.
      * apply existsb_ext_in. intros [k v] _. cbn [fst snd]. rewrite Hprev. reflexivity.
      * unfold prev, named_state. rewrite existsb_flat_map_sel.
        apply existsb_ext_in. intros [k v] _. cbn [fst snd].
        destruct (an_bl_rev ign (lastrow :: t) k); [|reflexivity].
        destruct (alookup k r); reflexivity.
Qed.

(* ---------------------------------------------------------------- every field kind *)
Definition an_fkind_wf (k : afkind) : bool :=
  match k with
  | AKSingle c => an_call_wf c
  | AKWrapF _ c => an_call_wf c
  | AKWrap2 c1 c2 => an_call_wf c1 && an_call_wf c2
  | AKNamed _ => true
  | AKCols _ ign cols => an_const ign && bytes_nodupb cols
  | AKExpr cs _ => forallb an_call_wf cs
  end.

Definition field_inv (k : afkind) (earlier : list arow) (st : afstate) : Prop :=
  match k, st with
  | AKSingle c, AFSCalls [s] => call_inv c earlier s
  | AKWrapF _ c, AFSCalls [s] => call_inv c earlier s
  | AKWrap2 c1 c2, AFSCalls [s1; s2] => call_inv c1 earlier s1 /\ call_inv c2 earlier s2
  | AKNamed ign, AFSNamed p => named_inv ign earlier p
  | AKCols _ ign cols, AFSCols p => cols_inv (an_to_bool (an_eval [] ign)) cols earlier p
  | AKExpr cs _, AFSCalls ss => Forall2 (fun c s => call_inv c earlier s) cs ss
  | _, _ => False
  end.

Lemma field_inv_init k : an_fkind_wf k = true -> field_inv k [] (an_field_init k).
Proof.
  destruct k as [c|n c|c1 c2|ign|prefix ign cols|cs w]; simpl; intros Hwf.
  - apply call_inv_init. exact Hwf.
  - apply call_inv_init. exact Hwf.
  - apply andb_prop in Hwf. destruct Hwf. split; apply call_inv_init; assumption.
  - split; [constructor|reflexivity].
  - intros n _. reflexivity.
  - apply calls_init. exact Hwf.
Qed.

Lemma field_step sql k earlier st r : an_fkind_wf k = true -> row_ok r -> field_inv k earlier st ->
  field_inv k (earlier ++ [r]) (fst (an_field_apply_g sql k st r)) /\
  snd (an_field_apply_g sql k st r) = an_field_spec_g sql k earlier r.
Proof.
  intros Hwf Hr HI.
  destruct k as [c|n c|c1 c2|ign|prefix ign cols|cs w]; simpl in Hwf.
  - destruct st as [[|s [|? ?]]| |]; try contradiction. cbn [field_inv an_field_apply_g an_field_spec_g] in *.
    destruct (call_step c earlier s r Hwf HI) as [H1 H2].
    destruct (an_call_apply c s r) as [s' v]. cbn [fst snd] in *. split; [exact H1|rewrite H2; reflexivity].
  - destruct st as [[|s [|? ?]]| |]; try contradiction. cbn [field_inv an_field_apply_g an_field_spec_g] in *.
    destruct (call_step c earlier s r Hwf HI) as [H1 H2].
    destruct (an_call_apply c s r) as [s' v]. cbn [fst snd] in *. split; [exact H1|rewrite H2; reflexivity].
  - destruct st as [[|s1 [|s2 [|? ?]]]| |]; try contradiction. cbn [field_inv an_field_apply_g an_field_spec_g] in *.
    apply andb_prop in Hwf. destruct Hwf as [Hw1 Hw2]. destruct HI as [HI1 HI2].
    destruct (call_step c1 earlier s1 r Hw1 HI1) as [H1 H2].
    destruct (call_step c2 earlier s2 r Hw2 HI2) as [H3 H4].
    destruct (an_call_apply c1 s1 r) as [s1' v1]. destruct (an_call_apply c2 s2 r) as [s2' v2].
    cbn [fst snd] in *. split; [split; assumption|rewrite H2, H4; reflexivity].
  - destruct st as [|p|]; try contradiction. cbn [field_inv an_field_apply_g an_field_spec_g] in *.
    destruct (named_step ign earlier p r Hr HI) as [H1 H2].
    destruct (an_named_apply p ign r) as [p' v]. cbn [fst snd] in *. split; [exact H1|rewrite H2; reflexivity].
  - destruct st as [| |p]; try contradiction. cbn [field_inv an_field_apply_g an_field_spec_g] in *.
    apply andb_prop in Hwf. destruct Hwf as [Hc Hnd]. apply bytes_nodupb_ok in Hnd.
    assert (Hb : an_to_bool (an_eval r ign) = an_to_bool (an_eval [] ign)) by (rewrite (const_eval ign r [] Hc); reflexivity).
    rewrite Hb. set (b := an_to_bool (an_eval [] ign)) in *.
    destruct (ccols_apply_spec prefix b (fun n => an_eval r (AEField n)) cols p Hnd) as (H1 & _ & H3).
    destruct (an_ccols_apply prefix b p (map (fun n => (n, an_eval r (AEField n))) cols)) as [p' out].
    cbn [fst snd] in *. split.
    + intros n Hn. rewrite (H1 n Hn). rewrite map_app. cbn [map].
      exact (proj1 (ccol_step_ok b _ (alookup n p) (an_col_val n r) (HI n Hn))).
    + rewrite H3. f_equal. apply flat_map_ext_in_l. intros n Hn.
      cbv beta. change (an_eval r (AEField n)) with (an_col_val n r).
      rewrite (proj2 (ccol_step_ok b _ (alookup n p) (an_col_val n r) (HI n Hn))). reflexivity.
  - destruct st as [ss| |]; try contradiction. cbn [field_inv an_field_apply_g an_field_spec_g] in *.
    destruct (calls_step earlier r cs ss Hwf HI) as [H1 H2].
    destruct (an_calls_apply cs ss r) as [ss' vs]. cbn [fst snd] in *. split; [exact H1|rewrite H2; reflexivity].
Qed.

(* field_seq: for every item kind and every history of counted rows of a partition (rows are maps: distinct
   column names), under both arithmetics *)
Theorem field_seq : forall sql k h, an_fkind_wf k = true -> Forall row_ok h ->
  sm_run (an_field_apply_g sql k) (an_field_init k) h = map_prefix (an_field_spec_g sql k) h.
Proof.
  intros sql k h Hwf Hh. unfold map_prefix.
  apply (sm_run_prefix_P _ _ _ (an_field_apply_g sql k) (an_field_spec_g sql k) row_ok (field_inv k)).
  - intros l s x Hx HI. apply field_step; assumption.
  - exact Hh.
  - apply field_inv_init. exact Hwf.
Qed.

(* the value of a wrapper item is the wrapper's arithmetic over the values that each of its calls - run ALONE on
   the same rows - returns: a call that returns NULL (and makes the item NULL) does not stop the others *)
Theorem item_calls_alone : forall sql cs w h, forallb an_call_wf cs = true ->
  sm_run (an_field_apply_g sql (AKExpr cs w)) (an_field_init (AKExpr cs w)) h =
  map_prefix (fun earlier r =>
                an_weval sql w (map (fun c => last (sm_run (an_call_apply c) (an_new_state (ca_fn c)) (earlier ++ [r]))
                                                   (ARV AVNull)) cs) r) h.
Proof.
  intros sql cs w h Hwf.
  assert (Hgen : forall l l0 ss, Forall2 (fun c s => call_inv c l0 s) cs ss ->
            sm_run (an_field_apply_g sql (AKExpr cs w)) (AFSCalls ss) l =
            map_prefix_aux (fun earlier r =>
                an_weval sql w (map (fun c => last (sm_run (an_call_apply c) (an_new_state (ca_fn c)) (earlier ++ [r]))
                                                   (ARV AVNull)) cs) r) l0 l).
  { induction l as [|r t IH]; intros l0 ss HI; [reflexivity|].
    cbn [sm_run map_prefix_aux an_field_apply_g].
    destruct (calls_step l0 r cs ss Hwf HI) as [H1 H2].
    destruct (an_calls_apply cs ss r) as [ss' vs]. cbn [fst snd] in *. f_equal.
    - rewrite H2. f_equal. apply map_ext_in. intros c Hc.
      assert (Hwc : an_call_wf c = true) by (rewrite forallb_forall in Hwf; apply Hwf; exact Hc).
      rewrite (call_seq c (l0 ++ [r]) Hwc). unfold map_prefix.
      assert (Hlast : forall a b x, last (map_prefix_aux (an_call_spec_rows c) a (b ++ [x])) (ARV AVNull) =
                                    an_call_spec_rows c (a ++ b) x).
      { intros a b x.
        assert (Hsn : forall b2 a2, map_prefix_aux (an_call_spec_rows c) a2 (b2 ++ [x]) =
                                  map_prefix_aux (an_call_spec_rows c) a2 b2 ++ [an_call_spec_rows c (a2 ++ b2) x]).
        { induction b2 as [|y b' IHb]; intros a'; cbn [app map_prefix_aux].
          - rewrite app_nil_r. reflexivity.
          - rewrite IHb. rewrite <- app_assoc. reflexivity. }
        rewrite Hsn. apply last_last. }
      rewrite Hlast. reflexivity.
    - apply IH. exact H1. }
  apply Hgen. apply calls_init. exact Hwf.
Qed.

(* ---------------------------------------------------------------- the code's + over a NULL call result *)
(* lag(v) + acc_sum(v) on the first row of a partition (v = 3): lag is NULL, acc_sum is 3.  The code answers the
   STRING "3" (string-concatenation fallback of the expr bridge); NULL-propagating arithmetic answers NULL, and so
   does the code for lag(v) - acc_sum(v). *)
Lemma wrapper_sum_null_asis_refuted :
  let cs := [ {| ca_fn := AFLag; ca_args := [AEField colv] |}; {| ca_fn := AFAcc AKSum; ca_args := [AEField colv] |} ] in
  let h := [[(colv, AVInt 3)]] in
  sm_run (an_field_apply_g false (AKExpr cs (WBin WAdd (WSelf 0) (WSelf 1)))) (AFSCalls (map (fun c => an_new_state (ca_fn c)) cs)) h
    = [AOV (AVStr [51]%N)] /\
  sm_run (an_field_apply_g true (AKExpr cs (WBin WAdd (WSelf 0) (WSelf 1)))) (AFSCalls (map (fun c => an_new_state (ca_fn c)) cs)) h
    = [AOV AVNull] /\
  sm_run (an_field_apply_g false (AKExpr cs (WBin WSub (WSelf 0) (WSelf 1)))) (AFSCalls (map (fun c => an_new_state (ca_fn c)) cs)) h
    = [AOV AVNull].
Proof. vm_compute. repeat split; reflexivity. Qed.
