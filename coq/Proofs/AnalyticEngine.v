(* C14 — the per-partition engine of stream/analytic.go: isolation of partitions while the number of
   partitions stays within the cap, exactness of the LRU eviction above it, WHERE order, sync = async. *)
From Coq Require Import Lia.
From SV Require Import Model.Analytic.

(* ---------------------------------------------------------------- association lists keyed by byte strings *)
Lemma bytes_eqb_eq a b : bytes_eqb a b = true <-> a = b.
Proof.
  revert b. induction a as [|x a IH]; intros [|y b]; simpl; split; intros H; try reflexivity; try discriminate.
  - apply andb_prop in H. destruct H as [H1 H2]. apply N.eqb_eq in H1. apply IH in H2. subst. reflexivity.
  - injection H as -> ->. rewrite N.eqb_refl. simpl. apply IH. reflexivity.
Qed.

Lemma bytes_eqb_refl a : bytes_eqb a a = true.
Proof. apply bytes_eqb_eq. reflexivity. Qed.

Lemma bytes_eqb_neq a b : a <> b -> bytes_eqb a b = false.
Proof. intros H. destruct (bytes_eqb a b) eqn:E; [apply bytes_eqb_eq in E; contradiction|reflexivity]. Qed.

Definition bytes_dec : forall a b : bytes, {a = b} + {a <> b} := list_eq_dec N.eq_dec.

Definition akeys {V : Type} (m : list (bytes * V)) : list bytes := map fst m.

Section AList.
  Variable V : Type.
  Implicit Types m : list (bytes * V).

  Lemma alookup_none m k : alookup k m = None <-> ~ In k (akeys m).
  Proof.
    induction m as [|[k' v] t IH]; simpl; [tauto|].
    destruct (bytes_eqb k k') eqn:E.
    - apply bytes_eqb_eq in E. subst. split; [discriminate|]. intros H. exfalso. apply H. left. reflexivity.
    - rewrite IH. split; intros H; [intros [H1|H1]; [subst; rewrite bytes_eqb_refl in E; discriminate|tauto]|tauto].
  Qed.

  Lemma alookup_aset_same m k v : alookup k (aset k v m) = Some v.
  Proof.
    induction m as [|[k' v'] t IH]; simpl; [rewrite bytes_eqb_refl; reflexivity|].
    destruct (bytes_eqb k k') eqn:E; simpl; [rewrite bytes_eqb_refl; reflexivity|rewrite E; exact IH].
  Qed.

  Lemma alookup_aset_other m k k' v : k' <> k -> alookup k' (aset k v m) = alookup k' m.
  Proof.
    intros Hne. induction m as [|[k2 v2] t IH]; simpl; [rewrite (bytes_eqb_neq _ _ Hne); reflexivity|].
    destruct (bytes_eqb k k2) eqn:E; simpl.
    - apply bytes_eqb_eq in E. subst k2. rewrite (bytes_eqb_neq _ _ Hne). reflexivity.
    - rewrite IH. reflexivity.
  Qed.

  Lemma alookup_aremove_other m k k' : k' <> k -> alookup k' (aremove k m) = alookup k' m.
  Proof.
    intros Hne. induction m as [|[k2 v2] t IH]; simpl; [reflexivity|].
    destruct (bytes_eqb k k2) eqn:E; simpl.
    - apply bytes_eqb_eq in E. subst k2. rewrite (bytes_eqb_neq _ _ Hne). exact IH.
    - rewrite IH. reflexivity.
  Qed.

  Lemma akeys_aremove m k : akeys (aremove k m) = filter (fun x => negb (bytes_eqb k x)) (akeys m).
  Proof.
    induction m as [|[k2 v2] t IH]; simpl; [reflexivity|].
    destruct (bytes_eqb k k2); simpl; rewrite IH; reflexivity.
  Qed.

  Lemma aremove_notin m k : ~ In k (akeys m) -> aremove k m = m.
  Proof.
    induction m as [|[k2 v2] t IH]; simpl; intros H; [reflexivity|].
    rewrite bytes_eqb_neq by (intros ->; apply H; left; reflexivity).
    rewrite IH by tauto. reflexivity.
  Qed.

  Lemma akeys_aset_incl m k v : incl (akeys (aset k v m)) (k :: akeys m).
  Proof.
    induction m as [|[k2 v2] t IH]; simpl; [apply incl_refl|].
    destruct (bytes_eqb k k2) eqn:E; simpl.
    - apply bytes_eqb_eq in E. subst. intros x [Hx|Hx]; [left; exact Hx|right; right; exact Hx].
    - intros x [Hx|Hx]; [right; left; exact Hx|]. destruct (IH x Hx) as [H|H]; [left; exact H|right; right; exact H].
  Qed.

  Lemma akeys_aremove_incl m k : incl (akeys (aremove k m)) (akeys m).
  Proof. rewrite akeys_aremove. intros x Hx. apply filter_In in Hx. tauto. Qed.
End AList.

Lemma filter_neq_notin k (l : list bytes) : ~ In k (filter (fun x => negb (bytes_eqb k x)) l).
Proof. intros H. apply filter_In in H. destruct H as [_ H]. rewrite bytes_eqb_refl in H. discriminate. Qed.

Lemma NoDup_filter_l (A : Type) (f : A -> bool) l : NoDup l -> NoDup (filter f l).
Proof.
  induction 1 as [|x l Hx Hl IH]; simpl; [constructor|].
  destruct (f x); [constructor; [intros H; apply filter_In in H; tauto|exact IH]|exact IH].
Qed.

(* ---------------------------------------------------------------- the engine with PARTITION BY *)
Section EngineProofs.
  Variables St Out : Type.
  Variable init : St.
  Variable apply : St -> arow -> St * Out.
  Variable dflt : Out.
  Variable gate : arow -> bool.
  Variable pkey : arow -> bytes.
  Variable cap : nat.

  Notation eng := (aeng St Out).
  Notation step := (an_eng_step St Out init apply dflt gate pkey true cap).
  Notation run := (an_eng_run St Out init apply dflt gate pkey true cap).
  Notation e0 := (an_eng0 St Out).

  (* the partition keys of the rows that reach getStateLocked (WHEN true), in arrival order *)
  Definition ckeys (h : list arow) : list bytes := map pkey (filter gate h).

  Definition only_part (p : bytes) (h : list arow) : list arow := filter (fun r => bytes_eqb (pkey r) p) h.

  Fixpoint project (p : bytes) (h : list arow) (os : list Out) : list Out :=
    match h, os with
    | r :: t, o :: ot => if bytes_eqb (pkey r) p then o :: project p t ot else project p t ot
    | _, _ => []
    end.

  (* a gated row when the table has room (or the key is already present): hit and miss coincide *)
  Definition norm_step (e : eng) (r : arow) : eng * Out :=
    let k := pkey r in
    let '(s', o) := apply (match alookup k (ae_parts e) with Some s => s | None => init end) r in
    ({| ae_nopart := ae_nopart e; ae_parts := (k, s') :: aremove k (ae_parts e); ae_last := aset k o (ae_last e) |}, o).

  Definition room (keys : list bytes) (more : list bytes) : Prop :=
    forall L, NoDup L -> incl L (keys ++ more) -> length L <= cap.

  Lemma step_room e r : gate r = true -> NoDup (akeys (ae_parts e)) ->
    room (akeys (ae_parts e)) [pkey r] -> step e r = norm_step e r.
  Proof.
    intros Hg Hnd Hroom. unfold an_eng_step, norm_step. rewrite Hg. cbn [negb].
    destruct (alookup (pkey r) (ae_parts e)) as [s|] eqn:El; [reflexivity|].
    destruct (apply init r) as [s' o].
    apply alookup_none in El.
    assert (Hlen : S (length (ae_parts e)) <= cap).
    { assert (Hl : length (pkey r :: akeys (ae_parts e)) <= cap).
      { apply Hroom.
        - constructor; assumption.
        - intros x [Hx|Hx]; [apply in_or_app; right; left; exact Hx|apply in_or_app; left; exact Hx]. }
      simpl in Hl. unfold akeys in Hl. rewrite map_length in Hl. exact Hl. }
    unfold an_insert. cbn [length].
    assert (E : (cap <? S (length (ae_parts e))) = false) by (apply Nat.ltb_ge; lia).
    rewrite E. rewrite (aremove_notin _ _ _ El). reflexivity.
  Qed.

  Lemma norm_keys e r : NoDup (akeys (ae_parts e)) ->
    NoDup (akeys (ae_parts (fst (norm_step e r)))) /\
    incl (akeys (ae_parts (fst (norm_step e r)))) (pkey r :: akeys (ae_parts e)).
  Proof.
    intros Hnd. unfold norm_step. destruct (apply _ r) as [s' o]. cbn [fst ae_parts].
    change (akeys ((pkey r, s') :: aremove (pkey r) (ae_parts e)))
      with (pkey r :: akeys (aremove (pkey r) (ae_parts e))).
    rewrite akeys_aremove. split.
    - constructor; [apply filter_neq_notin|apply NoDup_filter_l; exact Hnd].
    - intros x [Hx|Hx]; [left; exact Hx|right; apply filter_In in Hx; tauto].
  Qed.

  Lemma norm_lookup_same e r :
    alookup (pkey r) (ae_parts (fst (norm_step e r))) =
      Some (fst (apply (match alookup (pkey r) (ae_parts e) with Some s => s | None => init end) r)) /\
    alookup (pkey r) (ae_last (fst (norm_step e r))) = Some (snd (norm_step e r)) /\
    snd (norm_step e r) = snd (apply (match alookup (pkey r) (ae_parts e) with Some s => s | None => init end) r).
  Proof.
    unfold norm_step. destruct (apply _ r) as [s' o]. cbn [fst snd ae_parts ae_last alookup].
    rewrite bytes_eqb_refl, alookup_aset_same. repeat split; reflexivity.
  Qed.

  Lemma norm_lookup_other e r p : p <> pkey r ->
    alookup p (ae_parts (fst (norm_step e r))) = alookup p (ae_parts e) /\
    alookup p (ae_last (fst (norm_step e r))) = alookup p (ae_last e).
  Proof.
    intros Hne. unfold norm_step. destruct (apply _ r) as [s' o]. cbn [fst ae_parts ae_last alookup].
    rewrite (bytes_eqb_neq _ _ Hne), alookup_aremove_other, alookup_aset_other by exact Hne. split; reflexivity.
  Qed.

  Lemma room_weaken keys keys' more more' :
    incl (keys' ++ more') (keys ++ more) -> room keys more -> room keys' more'.
  Proof. intros Hi Hr L HL Hincl. apply Hr; [exact HL|]. intros x Hx. apply Hi, Hincl, Hx. Qed.

  Lemma iso_gen p : forall h e e',
    NoDup (akeys (ae_parts e)) -> NoDup (akeys (ae_parts e')) ->
    room (akeys (ae_parts e)) (ckeys h) -> room (akeys (ae_parts e')) (ckeys (only_part p h)) ->
    alookup p (ae_parts e) = alookup p (ae_parts e') -> alookup p (ae_last e) = alookup p (ae_last e') ->
    project p h (snd (run e h)) = snd (run e' (only_part p h)).
  Proof.
    induction h as [|r t IH]; intros e e' Hnd Hnd' Hroom Hroom' Hparts Hlast; [reflexivity|].
    cbn [an_eng_run only_part filter]. fold (only_part p t).
    destruct (gate r) eqn:Hg.
    - (* counted row *)
      assert (Hck : ckeys (r :: t) = pkey r :: ckeys t) by (unfold ckeys; simpl; rewrite Hg; reflexivity).
      rewrite (step_room e r Hg Hnd)
        by (eapply room_weaken; [|exact Hroom]; rewrite Hck; intros x Hx; apply in_app_or in Hx;
            apply in_or_app; destruct Hx as [Hx|[Hx|[]]]; [left; exact Hx|right; left; exact Hx]).
      destruct (norm_keys e r Hnd) as [Hnd1 Hincl1].
      assert (Hroom1 : room (akeys (ae_parts (fst (norm_step e r)))) (ckeys t)).
      { eapply room_weaken; [|exact Hroom]. rewrite Hck. intros x Hx. apply in_app_or in Hx. apply in_or_app.
        destruct Hx as [Hx|Hx]; [|right; right; exact Hx].
        destruct (Hincl1 x Hx) as [H|H]; [right; left; exact H|left; exact H]. }
      destruct (bytes_eqb (pkey r) p) eqn:Ep.
      + apply bytes_eqb_eq in Ep.
        assert (Hck' : ckeys (r :: only_part p t) = pkey r :: ckeys (only_part p t))
          by (unfold ckeys; simpl; rewrite Hg; reflexivity).
        cbn [an_eng_run].
        rewrite (step_room e' r Hg Hnd')
          by (eapply room_weaken; [|exact Hroom']; unfold only_part at 1; simpl filter;
              rewrite (proj2 (bytes_eqb_eq _ _) Ep); fold (only_part p t); rewrite Hck'; intros x Hx; apply in_app_or in Hx;
              apply in_or_app; destruct Hx as [Hx|[Hx|[]]]; [left; exact Hx|right; left; exact Hx]).
        destruct (norm_keys e' r Hnd') as [Hnd1' Hincl1'].
        assert (Hroom1' : room (akeys (ae_parts (fst (norm_step e' r)))) (ckeys (only_part p t))).
        { eapply room_weaken; [|exact Hroom']. unfold only_part at 2. simpl filter.
          rewrite (proj2 (bytes_eqb_eq _ _) Ep). fold (only_part p t). rewrite Hck'.
          intros x Hx. apply in_app_or in Hx. apply in_or_app.
          destruct Hx as [Hx|Hx]; [|right; right; exact Hx].
          destruct (Hincl1' x Hx) as [H|H]; [right; left; exact H|left; exact H]. }
        destruct (norm_lookup_same e r) as (Hp1 & Hl1 & Ho1).
        destruct (norm_lookup_same e' r) as (Hp1' & Hl1' & Ho1').
        assert (Hsame : alookup (pkey r) (ae_parts e) = alookup (pkey r) (ae_parts e')) by (rewrite Ep; exact Hparts).
        rewrite Hsame in Hp1, Ho1.
        specialize (IH (fst (norm_step e r)) (fst (norm_step e' r)) Hnd1 Hnd1' Hroom1 Hroom1').
        destruct (norm_step e r) as [e1 o1]. destruct (norm_step e' r) as [e1' o1']. cbn [fst snd] in *.
        destruct (run e1 t) as [e2 os] eqn:Er. destruct (run e1' (only_part p t)) as [e2' os'] eqn:Er'.
        cbn [snd project]. rewrite (proj2 (bytes_eqb_eq _ _) Ep).
        assert (Ho : o1 = o1') by congruence. rewrite Ho. f_equal.
        apply IH; rewrite <- Ep; congruence.
      + assert (Hne : p <> pkey r) by (intros ->; rewrite bytes_eqb_refl in Ep; discriminate).
        destruct (norm_lookup_other e r p Hne) as [Hp1 Hl1].
        assert (Hop : only_part p (r :: t) = only_part p t) by (unfold only_part; simpl; rewrite Ep; reflexivity).
        rewrite Hop in Hroom'.
        specialize (IH (fst (norm_step e r)) e' Hnd1 Hnd' Hroom1 Hroom').
        destruct (norm_step e r) as [e1 o1]. cbn [fst snd] in *.
        destruct (run e1 t) as [e2 os] eqn:Er.
        cbn [snd project]. rewrite Ep. apply IH; congruence.
    - (* WHEN false: the partition's last result *)
      assert (Hck : ckeys (r :: t) = ckeys t) by (unfold ckeys; simpl; rewrite Hg; reflexivity).
      rewrite Hck in Hroom.
      assert (Hs : forall x : eng, step x r = (x, match alookup (pkey r) (ae_last x) with Some o => o | None => dflt end)).
      { intros x. unfold an_eng_step. rewrite Hg. reflexivity. }
      rewrite Hs.
      destruct (bytes_eqb (pkey r) p) eqn:Ep.
      + apply bytes_eqb_eq in Ep. cbn [an_eng_run]. rewrite Hs.
        assert (Hck' : ckeys (r :: only_part p t) = ckeys (only_part p t))
          by (unfold ckeys; simpl; rewrite Hg; reflexivity).
        unfold only_part in Hroom' at 1. simpl filter in Hroom'. rewrite (proj2 (bytes_eqb_eq _ _) Ep) in Hroom'.
        fold (only_part p t) in Hroom'. rewrite Hck' in Hroom'.
        specialize (IH e e' Hnd Hnd' Hroom Hroom' Hparts Hlast).
        destruct (run e t) as [e2 os] eqn:Er. destruct (run e' (only_part p t)) as [e2' os'] eqn:Er'.
        cbn [snd project]. rewrite (proj2 (bytes_eqb_eq _ _) Ep). rewrite Ep, Hlast. f_equal. exact IH.
      + unfold only_part in Hroom' at 1. simpl filter in Hroom'. rewrite Ep in Hroom'. fold (only_part p t) in Hroom'.
        specialize (IH e e' Hnd Hnd' Hroom Hroom' Hparts Hlast).
        destruct (run e t) as [e2 os] eqn:Er.
        cbn [snd project]. rewrite Ep. exact IH.
  Qed.

  Lemma ckeys_only_part_incl p h : incl (ckeys (only_part p h)) (ckeys h).
  Proof.
    unfold ckeys, only_part. intros x Hx. apply in_map_iff in Hx. destruct Hx as (r & <- & Hr).
    apply filter_In in Hr. destruct Hr as [Hr Hg]. apply filter_In in Hr. destruct Hr as [Hr _].
    apply in_map. apply filter_In. split; assumption.
  Qed.

  Lemma room_of_nodup (ks : list bytes) : length (nodup bytes_dec ks) <= cap -> room [] ks.
  Proof.
    intros Hlen L HL Hincl. simpl in Hincl.
    transitivity (length (nodup bytes_dec ks)); [|exact Hlen].
    apply NoDup_incl_length; [exact HL|]. intros x Hx. apply nodup_In. apply Hincl. exact Hx.
  Qed.

  (* partition_isolation: while the number of distinct partitions that were given state stays within the cap, the
     results of partition p are those of a run that sees p's rows only, however the others are interleaved *)
  Theorem partition_isolation : forall h p,
    length (nodup bytes_dec (ckeys h)) <= cap ->
    project p h (snd (run e0 h)) = snd (run e0 (only_part p h)).
  Proof.
    intros h p Hcap. apply iso_gen; try (simpl; constructor); try reflexivity.
    - apply room_of_nodup. exact Hcap.
    - apply (room_weaken [] [] (ckeys h)); [apply ckeys_only_part_incl|apply room_of_nodup; exact Hcap].
  Qed.
End EngineProofs.

(* ---------------------------------------------------------------- LRU eviction *)
(* keep the first occurrence of every key *)
Fixpoint dedup (l : list bytes) : list bytes :=
  match l with [] => [] | x :: t => x :: filter (fun y => negb (bytes_eqb x y)) (dedup t) end.

Lemma dedup_nodup l : NoDup (dedup l).
Proof.
  induction l as [|x t IH]; simpl; [constructor|].
  constructor; [apply filter_neq_notin|apply NoDup_filter_l; exact IH].
Qed.

Lemma filter_neq_id k (l : list bytes) : ~ In k l -> filter (fun y => negb (bytes_eqb k y)) l = l.
Proof.
  induction l as [|x t IH]; simpl; intros H; [reflexivity|].
  rewrite bytes_eqb_neq by (intros ->; apply H; left; reflexivity). simpl. rewrite IH by tauto. reflexivity.
Qed.

Lemma firstn_filter_notin k : forall n (D : list bytes), ~ In k (firstn n D) ->
  firstn n (filter (fun y => negb (bytes_eqb k y)) D) = firstn n D.
Proof.
  induction n as [|n IH]; intros D H; [reflexivity|].
  destruct D as [|x D]; [reflexivity|]. simpl in H. simpl.
  rewrite bytes_eqb_neq by (intros ->; apply H; left; reflexivity). simpl. rewrite IH by tauto. reflexivity.
Qed.

Lemma filter_firstn_in k : forall (D : list bytes) n, NoDup D -> In k (firstn n D) ->
  filter (fun y => negb (bytes_eqb k y)) (firstn n D) = firstn (n - 1) (filter (fun y => negb (bytes_eqb k y)) D).
Proof.
  induction D as [|x D IH]; intros n Hnd Hin; [destruct n; contradiction|].
  destruct n as [|m]; [contradiction|]. inversion Hnd as [|? ? Hx HD]; subst.
  simpl. replace (m - 0) with m by lia.
  destruct (bytes_eqb k x) eqn:E.
  - apply bytes_eqb_eq in E. subst x. simpl.
    rewrite (filter_neq_id k D Hx). apply filter_neq_id. intros H. apply Hx. rewrite <- (firstn_skipn m D). apply in_or_app. left. exact H.
  - simpl. destruct Hin as [Hin|Hin]; [subst; rewrite bytes_eqb_refl in E; discriminate|].
    destruct m as [|m']; [contradiction|]. rewrite (IH (S m') HD Hin). simpl. replace (m' - 0) with m' by lia. reflexivity.
Qed.

Lemma akeys_removelast (V : Type) (m : list (bytes * V)) : akeys (removelast m) = removelast (akeys m).
Proof.
  induction m as [|a [|b t] IH]; try reflexivity.
  change (akeys (removelast (a :: b :: t))) with (fst a :: akeys (removelast (b :: t))). rewrite IH. reflexivity.
Qed.

Section Lru.
  Variables St Out : Type.
  Variable init : St.
  Variable apply : St -> arow -> St * Out.
  Variable dflt : Out.
  Variable gate : arow -> bool.
  Variable pkey : arow -> bytes.
  Variable cap : nat.

  Notation eng := (aeng St Out).
  Notation step := (an_eng_step St Out init apply dflt gate pkey true cap).
  Notation run := (an_eng_run St Out init apply dflt gate pkey true cap).
  Notation e0 := (an_eng0 St Out).
  Notation ckeys := (ckeys gate pkey).

  (* the partitions that ever got state, most recently used first *)
  Definition recency (h : list arow) : list bytes := dedup (rev (ckeys h)).

  Lemma run_snoc : forall h e r, fst (run e (h ++ [r])) = fst (step (fst (run e h)) r).
  Proof.
    induction h as [|x t IH]; intros e r; simpl.
    - destruct (step e r) as [e1 o]. reflexivity.
    - destruct (step e x) as [e1 o]. specialize (IH e1 r).
      destruct (run e1 (t ++ [r])) as [e2 os]. destruct (run e1 t) as [e3 os']. simpl in *. exact IH.
  Qed.

  Lemma step_keys (e : eng) r D : 1 <= cap -> NoDup D -> akeys (ae_parts e) = firstn cap D ->
    akeys (ae_parts (fst (step e r))) =
    if gate r then firstn cap (pkey r :: filter (fun y => negb (bytes_eqb (pkey r) y)) D) else firstn cap D.
  Proof.
    intros Hcap HD HK. unfold an_eng_step. destruct (gate r); cbn [negb]; [|exact HK].
    set (k := pkey r).
    destruct cap as [|c] eqn:Ecap; [lia|]. cbn [firstn].
    destruct (alookup k (ae_parts e)) as [s|] eqn:El.
    - (* hit *)
      destruct (apply s r) as [s' o]. cbn [fst ae_parts].
      change (akeys ((k, s') :: aremove k (ae_parts e))) with (k :: akeys (aremove k (ae_parts e))).
      rewrite akeys_aremove, HK. f_equal.
      assert (Hin : In k (firstn (S c) D)).
      { rewrite <- HK. destruct (in_dec bytes_dec k (akeys (ae_parts e))) as [H|H]; [exact H|].
        apply alookup_none in H. congruence. }
      rewrite (filter_firstn_in k D (S c) HD Hin). simpl. replace (c - 0) with c by lia. reflexivity.
    - (* miss *)
      apply alookup_none in El. rewrite HK in El.
      destruct (apply init r) as [s' o]. unfold an_insert. cbn [length].
      assert (Hlen : length (ae_parts e) = length (firstn (S c) D)) by (rewrite <- HK; unfold akeys; rewrite map_length; reflexivity).
      destruct (S c <? S (length (ae_parts e))) eqn:E.
      + (* full: evict the least recently used *)
        apply Nat.ltb_lt in E. cbn [fst ae_parts].
        rewrite akeys_removelast.
        change (akeys ((k, s') :: ae_parts e)) with (k :: akeys (ae_parts e)). rewrite HK.
        assert (HlenD : S c <= length D).
        { rewrite firstn_length in Hlen. lia. }
        destruct (firstn (S c) D) as [|d0 dt] eqn:Ef; [simpl in Hlen; lia|].
        change (removelast (k :: d0 :: dt)) with (k :: removelast (d0 :: dt)). f_equal.
        rewrite <- Ef. rewrite removelast_firstn by lia.
        symmetry. apply firstn_filter_notin. intros H. apply El. rewrite <- Ef.
        rewrite <- (firstn_skipn c (firstn (S c) D)). apply in_or_app. left.
        rewrite firstn_firstn. replace (Nat.min c (S c)) with c by lia. exact H.
      + apply Nat.ltb_ge in E. cbn [fst ae_parts].
        change (akeys ((k, s') :: ae_parts e)) with (k :: akeys (ae_parts e)). rewrite HK. f_equal.
        assert (HlenD : length D <= c). { rewrite firstn_length in Hlen. lia. }
        rewrite (firstn_all2 D) in * by lia.
        rewrite (filter_neq_id k D El). symmetry. apply firstn_all2. exact HlenD.
  Qed.

  (* lru_eviction_exact: at any time the partitions that have state are exactly the `cap` most recently used
     ones, in LRU order; a new partition arriving at a full table evicts the least recently used one *)
  Theorem lru_eviction_exact : forall h, 1 <= cap ->
    akeys (ae_parts (fst (run e0 h))) = firstn cap (recency h).
  Proof.
    intros h Hcap. induction h as [|r h IH] using rev_ind.
    - destruct cap; reflexivity.
    - rewrite run_snoc. rewrite (step_keys _ r (recency h) Hcap (dedup_nodup _) IH).
      unfold recency, AnalyticEngine.ckeys. rewrite filter_app, map_app. simpl.
      destruct (gate r); simpl; [|rewrite app_nil_r; reflexivity].
      rewrite rev_app_distr. reflexivity.
  Qed.

  (* a row of a partition that is not among the `cap` most recently used ones starts from the initial state *)
  Theorem lru_restart : forall h r, 1 <= cap -> gate r = true -> ~ In (pkey r) (firstn cap (recency h)) ->
    snd (step (fst (run e0 h)) r) = snd (apply init r).
  Proof.
    intros h r Hcap Hg Hnot. rewrite <- (lru_eviction_exact h Hcap) in Hnot.
    apply alookup_none in Hnot. unfold an_eng_step. rewrite Hg. cbn [negb]. rewrite Hnot.
    destruct (apply init r) as [s' o]. destruct (an_insert _ _ _ _ _ _) as [a b]. reflexivity.
  Qed.
End Lru.
