(* C19 — invariants of Model/Ingest.v over all schedules (lists of atomic steps), all producer counts,
   all configurations. *)
From Coq Require Import List Arith Bool PeanoNat Lia Permutation ZArith.
From SV Require Import Model.Ingest Spec.IngestSpec.
Import ListNotations.

Definition igid_dec : forall x y : igid, {x = y} + {x <> y}.
Proof. decide equality; apply Nat.eq_dec. Defined.
Notation cnt := (count_occ igid_dec).

(* ------------------------------------------------------------------ lists with one position replaced *)
Lemma ig_upd_length {A} n (x : A) l : length (ig_upd n x l) = length l.
Proof. revert n; induction l; destruct n; simpl; auto. Qed.

Lemma nth_error_upd {A} (l : list A) n a0 a m :
  nth_error l n = Some a0 ->
  nth_error (ig_upd n a l) m = if m =? n then Some a else nth_error l m.
Proof.
  revert n m; induction l as [|h t IH]; intros n m H.
  - destruct n; discriminate.
  - destruct n, m; simpl in *; auto.
Qed.

Lemma cnt_concat_upd {A} (f : A -> list igid) l n a0 a x :
  nth_error l n = Some a0 ->
  cnt (concat (map f (ig_upd n a l))) x + cnt (f a0) x = cnt (concat (map f l)) x + cnt (f a) x.
Proof.
  revert n; induction l as [|h t IH]; intros n H.
  - destruct n; discriminate.
  - destruct n; simpl in *.
    + inversion H; subst. rewrite !count_occ_app. lia.
    + rewrite !count_occ_app. specialize (IH _ H). lia.
Qed.

Lemma cnt_snoc l (y x : igid) : cnt (l ++ [y]) x = cnt l x + (if igid_dec y x then 1 else 0).
Proof. rewrite count_occ_app. simpl. destruct (igid_dec y x); lia. Qed.

(* ------------------------------------------------------------------ what is where *)
Definition ig_queued (s : igst) : list igid := concat (map snd (ig_chans s)).
Definition ig_handl (pr : igprod) : list igid := match ig_hand pr with Some x => [x] | None => [] end.
Definition ig_inflight (s : igst) : list igid := concat (map ig_handl (ig_prods s)).
Definition ig_started_of (s : igst) (p : nat) : nat :=
  match nth_error (ig_prods s) p with Some pr => ig_started pr | None => 0 end.

Lemma ig_push_cnt chs r y chs' x :
  ig_push chs r y = Some chs' ->
  cnt (concat (map snd chs')) x = cnt (concat (map snd chs)) x + (if igid_dec y x then 1 else 0).
Proof.
  unfold ig_push. destruct (nth_error chs r) as [[cp q]|] eqn:E; try discriminate.
  destruct (length q <? cp); try discriminate. intro H; inversion H; subst; clear H.
  pose proof (cnt_concat_upd snd chs r (cp, q) (cp, q ++ [y]) x E) as P. simpl in P.
  rewrite cnt_snoc in P. lia.
Qed.

Lemma ig_pop_cnt chs r y chs' x :
  ig_pop chs r = Some (y, chs') ->
  cnt (concat (map snd chs')) x + (if igid_dec y x then 1 else 0) = cnt (concat (map snd chs)) x.
Proof.
  unfold ig_pop. destruct (nth_error chs r) as [[cp [|z q]]|] eqn:E; try discriminate.
  intro H; inversion H; subst; clear H.
  pose proof (cnt_concat_upd snd chs r (cp, y :: q) (cp, q) x E) as P. simpl in P.
  destruct (igid_dec y x); lia.
Qed.

Lemma ig_push_length chs r y chs' : ig_push chs r y = Some chs' -> length chs' = length chs.
Proof.
  unfold ig_push. destruct (nth_error chs r) as [[cp q]|]; try discriminate.
  destruct (length q <? cp); try discriminate. intro H; inversion H. apply ig_upd_length.
Qed.
Lemma ig_pop_length chs r y chs' : ig_pop chs r = Some (y, chs') -> length chs' = length chs.
Proof.
  unfold ig_pop. destruct (nth_error chs r) as [[cp [|z q]]|]; try discriminate.
  intro H; inversion H. apply ig_upd_length.
Qed.

(* ------------------------------------------------------------------ case analysis of one step *)
Ltac ig_cases H :=
  repeat match type of H with
  | match ?x with _ => _ end = Some _ => let E := fresh "E" in destruct x eqn:E; try discriminate H
  | (if ?x then _ else _) = Some _ => let E := fresh "E" in destruct x eqn:E; try discriminate H
  | (let '(_, _) := ?x in _) = Some _ => let E := fresh "E" in destruct x eqn:E
  end;
  try (injection H as H; subst).

(* ------------------------------------------------------------------ conservation *)
Record ig_inv1 (s : igst) : Prop := {
  i1_cons : forall x, cnt (ig_processed s) x + cnt (ig_queued s) x + cnt (ig_inflight s) x
                      + cnt (ig_dropped_ids s) x + cnt (ig_lost_ids s) x = cnt (ig_emitted_ids s) x;
  i1_fresh : forall p k, In (p, k) (ig_emitted_ids s) -> k < ig_started_of s p;
  i1_idle : forall p pr, nth_error (ig_prods s) p = Some pr -> ig_pc pr = IgIdle -> ig_hand pr = None;
  i1_counts : ig_dropped s = length (ig_dropped_ids s) /\ ig_emitted s = length (ig_emitted_ids s);
  i1_nodup : forall x, cnt (ig_emitted_ids s) x <= 1
}.

Lemma ig_inflight_upd s p pr pr' x :
  nth_error (ig_prods s) p = Some pr ->
  cnt (concat (map ig_handl (ig_upd p pr' (ig_prods s)))) x + cnt (ig_handl pr) x
  = cnt (ig_inflight s) x + cnt (ig_handl pr') x.
Proof. intro H. apply (cnt_concat_upd ig_handl _ _ _ _ _ H). Qed.

Lemma ig_started_upd s p pr pr' q :
  nth_error (ig_prods s) p = Some pr ->
  match nth_error (ig_upd p pr' (ig_prods s)) q with Some r => ig_started r | None => 0 end
  = if q =? p then ig_started pr' else ig_started_of s q.
Proof.
  intro H. rewrite (nth_error_upd _ _ _ _ _ H). unfold ig_started_of. destruct (q =? p); auto.
Qed.

Ltac ig_facts x :=
  repeat match goal with
  | E : ig_push _ _ _ = Some _ |- _ => pose proof (ig_push_cnt _ _ _ _ x E); pose proof (ig_push_length _ _ _ _ E); revert E
  | E : ig_pop _ _ = Some _ |- _ => pose proof (ig_pop_cnt _ _ _ _ x E); pose proof (ig_pop_length _ _ _ _ E); revert E
  end; intros.

Ltac ig_hand_facts x :=
  match goal with
  | E : nth_error (ig_prods ?s) ?p = Some ?pr |- context [ig_upd ?p ?pr' (ig_prods ?s)] =>
      pose proof (cnt_concat_upd ig_handl _ _ _ pr' x E)
  | _ => idtac
  end.

Lemma ig_inv1_step c s a s' : ig_inv1 s -> ig_step c s a = Some s' -> ig_inv1 s'.
Proof.
  intros I H. destruct I as [Ic If Ii [Id Ie] In].
  destruct a; unfold ig_step, ig_sent, ig_drop, ig_set_pc, ig_set_prods, ig_swap in H; ig_cases H.
  all: constructor; simpl.
  (* conservation *)
  all: try (intro x; specialize (Ic x); unfold ig_queued, ig_inflight in *; simpl;
            ig_facts x; ig_hand_facts x;
            try match goal with E : nth_error (ig_prods _) ?p = Some ?pr, E0 : ig_pc ?pr = IgIdle |- _ =>
                  pose proof (Ii _ _ E E0) end;
            unfold ig_handl in *; simpl in *;
            repeat match goal with E : ig_hand _ = _ |- _ => rewrite E in *; clear E end;
            simpl in *; rewrite ?cnt_snoc, ?map_app, ?concat_app, ?count_occ_app; simpl;
            repeat match goal with |- context [igid_dec ?a ?b] => destruct (igid_dec a b) end;
            repeat match goal with H : context [igid_dec ?a ?b] |- _ => destruct (igid_dec a b) end;
            try lia; fail).
  (* emitted ids are pairwise distinct *)
  all: try exact In.
  all: try (intro x; rewrite cnt_snoc; specialize (In x); destruct (igid_dec (p, ig_started i) x) as [EQ|]; [|lia];
            subst x; assert (Z : cnt (ig_emitted_ids s) (p, ig_started i) = 0);
            [apply count_occ_not_In; intro HI; apply If in HI; unfold ig_started_of in HI; rewrite E in HI; lia|lia]).
  (* counts *)
  all: try (rewrite ?app_length; simpl; lia).
  (* freshness *)
  all: try (intros p0 k HI; unfold ig_started_of; simpl; rewrite ?in_app_iff in HI; simpl in HI;
            try match goal with E : nth_error (ig_prods _) ?p = Some ?pr |- context [ig_upd ?p ?pr' _] =>
                  rewrite (nth_error_upd _ _ _ pr' p0 E) end;
            pose proof (If p0 k) as If'; unfold ig_started_of in If';
            try (destruct (p0 =? _) eqn:EQ; [apply Nat.eqb_eq in EQ; subst p0|]);
            repeat match goal with E : nth_error (ig_prods _) _ = Some _ |- _ => rewrite E in *; clear E end;
            simpl;
            try (destruct HI as [HI|[HI|[]]]; [|inversion HI; subst]); try (apply Nat.eqb_neq in EQ);
            try (specialize (If' HI)); try lia; try congruence; fail).
  (* idle producers hold nothing *)
  all: try (intros p0 pr0 HN HP;
            try match type of HN with nth_error (ig_upd ?p ?pr' _) _ = _ =>
                  match goal with E : nth_error (ig_prods _) p = Some _ |- _ =>
                    rewrite (nth_error_upd _ _ _ pr' p0 E) in HN end end;
            try (destruct (p0 =? _) eqn:EQ; [inversion HN; subst pr0; simpl in *; try destruct (ig_strat c); auto; discriminate|]);
            eauto; fail).
Qed.

Lemma ig_inflight_init n x :
  cnt (concat (map ig_handl (repeat {| ig_pc := IgIdle; ig_started := 0; ig_hand := None |} n))) x = 0.
Proof. induction n; simpl; auto. Qed.

Lemma ig_inv1_init c n : ig_inv1 (ig_init c n).
Proof.
  constructor; simpl; auto.
  - intro x. unfold ig_queued, ig_inflight; simpl. rewrite ig_inflight_init. reflexivity.
  - intros p k [].
  - intros p pr H _. apply nth_error_In in H. apply repeat_spec in H. subst; reflexivity.
Qed.

Lemma ig_inv1_run c l : forall s s', ig_inv1 s -> ig_run c s l = Some s' -> ig_inv1 s'.
Proof.
  induction l as [|a l IH]; simpl; intros s s' I H.
  - inversion H; subst; auto.
  - destruct (ig_step c s a) eqn:E; try discriminate. eapply IH; [|eauto]. eapply ig_inv1_step; eauto.
Qed.

(* rows lost by the migration timeout: none unless the timeout of the inner select fires *)
Definition ig_no_mt (a : igstep) : Prop := match a with IgMt1 _ | IgMt2 _ => False | _ => True end.

Lemma ig_lost_step c s a s' : ig_no_mt a -> ig_step c s a = Some s' -> ig_lost_ids s = [] -> ig_lost_ids s' = [].
Proof.
  intros NM H L. destruct a; try contradiction;
  unfold ig_step, ig_sent, ig_drop, ig_set_pc, ig_set_prods, ig_swap in H; ig_cases H; simpl; auto.
  all: rewrite L; reflexivity.
Qed.
Lemma ig_lost_run c l : forall s s', Forall ig_no_mt l -> ig_run c s l = Some s' -> ig_lost_ids s = [] -> ig_lost_ids s' = [].
Proof.
  induction l as [|a l IH]; simpl; intros s s' F H L.
  - inversion H; subst; auto.
  - destruct (ig_step c s a) eqn:E; try discriminate. inversion F; subst.
    eapply IH; eauto. eapply ig_lost_step; eauto.
Qed.

(* ---- the theorems about conservation *)
Definition ig_accounted (s : igst) : list igid :=
  ig_processed s ++ ig_queued s ++ ig_inflight s ++ ig_dropped_ids s ++ ig_lost_ids s.

Theorem ig_conservation c n l s :
  ig_run c (ig_init c n) l = Some s ->
  Permutation (ig_accounted s) (ig_emitted_ids s) /\ NoDup (ig_emitted_ids s)
  /\ ig_emitted s = length (ig_emitted_ids s) /\ ig_dropped s = length (ig_dropped_ids s).
Proof.
  intro H. pose proof (ig_inv1_run _ _ _ _ (ig_inv1_init c n) H) as [Ic _ _ [Id Ie] In].
  split; [|split; [|split]]; auto.
  - apply (Permutation_count_occ igid_dec). intro x. unfold ig_accounted. rewrite !count_occ_app.
    specialize (Ic x). lia.
  - apply (NoDup_count_occ igid_dec). auto.
Qed.

Theorem ig_conservation_count c n l s :
  ig_run c (ig_init c n) l = Some s -> Forall ig_no_mt l ->
  length (ig_processed s) + length (ig_queued s) + length (ig_inflight s) + ig_dropped s = ig_emitted s.
Proof.
  intros H F. destruct (ig_conservation _ _ _ _ H) as (P & _ & Ee & Ed).
  apply Permutation_length in P. unfold ig_accounted in P. rewrite !app_length in P.
  rewrite (ig_lost_run _ _ _ _ F H eq_refl) in P. simpl in P. lia.
Qed.

(* quiescence: nothing queued in any channel, no producer inside Emit *)
Theorem ig_quiescent_count c n l s :
  ig_run c (ig_init c n) l = Some s -> Forall ig_no_mt l ->
  ig_queued s = [] -> ig_inflight s = [] ->
  length (ig_processed s) + ig_dropped s = ig_emitted s.
Proof.
  intros H F Q I. pose proof (ig_conservation_count _ _ _ _ H F) as P. rewrite Q, I in P. simpl in P. lia.
Qed.

Theorem ig_no_duplicate c n l s : ig_run c (ig_init c n) l = Some s -> NoDup (ig_processed s).
Proof.
  intro H. destruct (ig_conservation _ _ _ _ H) as (P & N & _).
  apply Permutation_sym in P. apply (Permutation_NoDup P) in N. unfold ig_accounted in N.
  revert N. generalize (ig_queued s ++ ig_inflight s ++ ig_dropped_ids s ++ ig_lost_ids s).
  induction (ig_processed s) as [|a t IH]; simpl; intros r N; [constructor|].
  inversion N; subst. constructor; [|eapply IH; eauto].
  intro HI. apply H2. apply in_or_app; auto.
Qed.

Theorem ig_only_emitted c n l s x :
  ig_run c (ig_init c n) l = Some s -> In x (ig_processed s) -> In x (ig_emitted_ids s).
Proof.
  intros H I. destruct (ig_conservation _ _ _ _ H) as (P & _). eapply Permutation_in; [exact P|].
  unfold ig_accounted. apply in_or_app; auto.
Qed.

(* ------------------------------------------------------------------ block never drops *)
Lemma ig_block_step c s a s' : ig_strat c = IgBlock -> ig_step c s a = Some s' -> ig_dropped s' = ig_dropped s.
Proof.
  intros B H. destruct a; unfold ig_step, ig_sent, ig_drop, ig_set_pc, ig_set_prods, ig_swap in H; ig_cases H; simpl; auto.
  all: congruence.
Qed.

Theorem ig_block_never_drops c n l s :
  ig_strat c = IgBlock -> ig_run c (ig_init c n) l = Some s -> ig_dropped s = 0.
Proof.
  intros B. change 0 with (ig_dropped (ig_init c n)). generalize (ig_init c n). revert s.
  induction l as [|a l IH]; simpl; intros s s0 H.
  - inversion H; auto.
  - destruct (ig_step c s0 a) eqn:E; try discriminate. rewrite (IH _ _ H). eapply ig_block_step; eauto.
Qed.

(* the configuration boundary: strategy "block" runs the timer-free program exactly for BlockTimeout <= 0 *)
Lemma ig_strat_of_block t : ig_strat_of IgNBlock t = IgBlock <-> (t <= 0)%Z.
Proof.
  unfold ig_strat_of. destruct (t <=? 0)%Z eqn:E.
  - apply Z.leb_le in E. tauto.
  - apply Z.leb_gt in E. split; [discriminate|lia].
Qed.

Lemma ig_strat_of_block_pos t : ig_strat_of IgNBlock t = IgBlockTO <-> (0 < t)%Z.
Proof.
  unfold ig_strat_of. destruct (t <=? 0)%Z eqn:E.
  - apply Z.leb_le in E. split; [discriminate|lia].
  - apply Z.leb_gt in E. tauto.
Qed.

Theorem ig_block_nonpositive_timeout_never_drops c n l s t :
  (t <= 0)%Z -> ig_strat c = ig_strat_of IgNBlock t -> ig_run c (ig_init c n) l = Some s -> ig_dropped s = 0.
Proof.
  intros T B. apply ig_block_never_drops. rewrite B. apply ig_strat_of_block; exact T.
Qed.

(* ... and only there: with any positive timeout a full buffer and a parked consumer let the timer win *)
Definition ig_bto_cfg (t : Z) : igcfg :=
  {| ig_strat := ig_strat_of IgNBlock t; ig_cap0 := 1; ig_max := 0; ig_mininc := 1; ig_gnum := 3; ig_gden := 2;
     ig_tnum := 4; ig_tden := 5; ig_locked_recv := true |}.
Definition ig_bto_schedule : list igstep := [IgEm 0; IgGr 0; IgCs 0; IgEm 0; IgGr 0; IgTo 0].

Theorem ig_block_positive_timeout_may_drop t :
  (0 < t)%Z ->
  exists s, ig_run (ig_bto_cfg t) (ig_init (ig_bto_cfg t) 1) ig_bto_schedule = Some s /\
            ig_dropped s = 1 /\ ig_emitted s = 2.
Proof.
  intros T. apply ig_strat_of_block_pos in T.
  unfold ig_bto_cfg. rewrite T. eexists; split; [vm_compute; reflexivity|]. split; reflexivity.
Qed.

(* the same schedule is not executable without a timeout: the second sender stays blocked *)
Theorem ig_block_nonpositive_timeout_blocks t :
  (t <= 0)%Z ->
  ig_run (ig_bto_cfg t) (ig_init (ig_bto_cfg t) 1) ig_bto_schedule = None /\
  exists s, ig_run (ig_bto_cfg t) (ig_init (ig_bto_cfg t) 1) (firstn 5 ig_bto_schedule) = Some s /\
            ig_step (ig_bto_cfg t) s (IgTo 0) = None /\ ig_step (ig_bto_cfg t) s (IgCs 0) = None.
Proof.
  intros T. apply ig_strat_of_block in T.
  unfold ig_bto_cfg. rewrite T. split; [vm_compute; reflexivity|].
  eexists; split; [vm_compute; reflexivity|]. split; vm_compute; reflexivity.
Qed.

(* ------------------------------------------------------------------ capacity ceiling *)
Lemma ig_newcap_le c cp len nc : 0 < ig_max c -> ig_newcap c cp len = Some nc -> nc <= ig_max c.
Proof.
  intros M. unfold ig_newcap.
  destruct (cp =? 0); try discriminate.
  destruct ((0 <? ig_max c) && (ig_max c <=? cp)); try discriminate.
  destruct (if ig_tnum c =? 0 then (4, 5) else (ig_tnum c, ig_tden c)) as [tn td].
  destruct (len * td <? tn * cp); try discriminate.
  destruct (if ig_gnum c <=? ig_gden c then (3, 2) else (ig_gnum c, ig_gden c)) as [gn gd].
  set (n2 := if cp * gn / gd <? cp + _ then _ else _).
  destruct ((0 <? ig_max c) && (ig_max c <? n2)) eqn:E.
  - destruct (ig_max c <=? cp); intro H; inversion H; subst; lia.
  - destruct (n2 <=? cp); intro H; inversion H; subst.
    apply andb_false_iff in E. destruct E as [E|E].
    + apply Nat.ltb_ge in E. lia.
    + apply Nat.ltb_ge in E. lia.
Qed.

Lemma ig_newcap_gt c cp len nc : ig_newcap c cp len = Some nc -> cp < nc.
Proof.
  unfold ig_newcap.
  destruct (cp =? 0); try discriminate.
  destruct ((0 <? ig_max c) && (ig_max c <=? cp)); try discriminate.
  destruct (if ig_tnum c =? 0 then (4, 5) else (ig_tnum c, ig_tden c)) as [tn td].
  destruct (len * td <? tn * cp); try discriminate.
  destruct (if ig_gnum c <=? ig_gden c then (3, 2) else (ig_gnum c, ig_gden c)) as [gn gd].
  match goal with |- (if ?b then _ else _) = _ -> _ => destruct b eqn:E end; try discriminate.
  intro H; inversion H; subst. apply Nat.leb_gt in E. lia.
Qed.

Definition ig_capok (M : nat) (ch : nat * list igid) : Prop := fst ch <= M.

Lemma ig_upd_Forall {A} (P : A -> Prop) n a l : Forall P l -> P a -> Forall P (ig_upd n a l).
Proof.
  revert n; induction l as [|h t IH]; intros n F Pa; destruct n; simpl; auto; inversion F; subst; constructor; auto.
Qed.
Lemma ig_nth_Forall {A} (P : A -> Prop) n a l : Forall P l -> nth_error l n = Some a -> P a.
Proof. intros F H. apply nth_error_In in H. rewrite Forall_forall in F. auto. Qed.

Lemma ig_push_caps M chs r x chs' : ig_push chs r x = Some chs' -> Forall (ig_capok M) chs -> Forall (ig_capok M) chs'.
Proof.
  unfold ig_push. destruct (nth_error chs r) as [[cp q]|] eqn:E; try discriminate.
  destruct (length q <? cp); try discriminate. intros H F; inversion H; subst.
  apply ig_upd_Forall; auto. apply (ig_nth_Forall _ _ _ _ F E).
Qed.
Lemma ig_pop_caps M chs r x chs' : ig_pop chs r = Some (x, chs') -> Forall (ig_capok M) chs -> Forall (ig_capok M) chs'.
Proof.
  unfold ig_pop. destruct (nth_error chs r) as [[cp [|z q]]|] eqn:E; try discriminate.
  intros H F; inversion H; subst.
  apply ig_upd_Forall; auto. apply (ig_nth_Forall _ _ _ _ F E).
Qed.

Definition ig_inv2 (c : igcfg) (s : igst) : Prop :=
  Forall (ig_capok (ig_max c)) (ig_chans s) /\
  forall p pr nc, nth_error (ig_prods s) p = Some pr ->
                  ig_pc pr = IgExpDecided nc \/ ig_pc pr = IgExpLocked nc -> nc <= ig_max c.

Lemma ig_inv2_step c s a s' : 0 < ig_max c -> ig_inv2 c s -> ig_step c s a = Some s' -> ig_inv2 c s'.
Proof.
  intros M [F Hpc] H.
  destruct a; unfold ig_step, ig_sent, ig_drop, ig_set_pc, ig_set_prods, ig_swap in H; ig_cases H.
  all: split; simpl.
  all: try assumption.
  all: try (eapply ig_push_caps; eauto; try (eapply ig_pop_caps; eauto); fail).
  all: try (eapply ig_pop_caps; eauto; fail).
  all: try (apply Forall_app; split; auto; constructor; [|constructor]; unfold ig_capok; simpl; eapply Hpc; eauto; fail).
  all: try (intros p0 pr0 nc0 HN HP;
            match type of HN with nth_error (ig_upd ?p ?pr' _) _ = _ =>
              match goal with E : nth_error (ig_prods _) p = Some _ |- _ =>
                rewrite (nth_error_upd _ _ _ pr' p0 E) in HN end end;
            destruct (p0 =? _) eqn:EQ;
            [inversion HN; subst pr0; simpl in HP; try destruct (ig_strat c); destruct HP as [HP|HP]; try discriminate HP;
             inversion HP; subst; try (eapply ig_newcap_le; eauto; fail); eapply Hpc; eauto
            |eapply Hpc; eauto]; fail).
Qed.

Theorem ig_cap_bounded c n l s :
  0 < ig_max c -> ig_cap0 c <= ig_max c -> ig_run c (ig_init c n) l = Some s ->
  Forall (fun ch => fst ch <= ig_max c) (ig_chans s) /\ ig_cap s <= ig_max c.
Proof.
  intros M C0 H.
  assert (I : ig_inv2 c s).
  { revert H. assert (I0 : ig_inv2 c (ig_init c n)).
    { split; simpl. - constructor; auto.
      - intros p pr nc HN HP. apply nth_error_In in HN. apply repeat_spec in HN. subst. simpl in HP. destruct HP; discriminate. }
    revert I0. generalize (ig_init c n). revert s.
    induction l as [|a l IH]; simpl; intros s s0 I0 H.
    - inversion H; subst; auto.
    - destruct (ig_step c s0 a) eqn:E; try discriminate. eapply IH; [|eauto]. eapply ig_inv2_step; eauto. }
  destruct I as [F _]. split; auto.
  unfold ig_cap. destruct (nth_error (ig_chans s) (ig_cur s)) as [[cp q]|] eqn:E; [|lia].
  apply (ig_nth_Forall _ _ _ _ F E).
Qed.
