(* Proofs about Model/CountingFail.v: a batch that fails half-way is lost as a whole and leaves nothing behind. *)
From Coq Require Import List Bool Arith Lia.
From SV Require Import Model.GroupKey Model.Counting Model.CountingLag Model.CountingFail Spec.GroupSpec
  Proofs.GroupKeyProofs Proofs.CountingProofs Proofs.CountingLagProofs.
Import ListNotations.

Lemma fc_add_rows_clean : forall fails b agg,
  forallb (fun r => negb (fails r)) b = true -> fc_add_rows fails agg b = (agg ++ b, true).
Proof.
  intros fails b. induction b as [|r b IH]; intros agg H; simpl in *.
  - rewrite app_nil_r. reflexivity.
  - apply andb_true_iff in H. destruct H as [Hr Hb]. apply negb_true_iff in Hr. rewrite Hr.
    rewrite (IH _ Hb). rewrite <- app_assoc. reflexivity.
Qed.

Lemma fc_add_rows_failed : forall fails b agg,
  forallb (fun r => negb (fails r)) b = false -> snd (fc_add_rows fails agg b) = false.
Proof.
  intros fails b. induction b as [|r b IH]; intros agg H; simpl in *.
  - discriminate.
  - destruct (fails r) eqn:Hr; simpl in *; [reflexivity|]. apply IH. exact H.
Qed.

Lemma fc_fold : forall fails bs out,
  fold_left (fc_step fails) bs (mkFc [] out) = mkFc [] (out ++ filter (fc_clean fails) bs).
Proof.
  intros fails bs. induction bs as [|b bs IH]; intros out; simpl.
  - rewrite app_nil_r. reflexivity.
  - unfold fc_step at 2. simpl. unfold fc_clean at 1. destruct (forallb (fun r => negb (fails r)) (snd b)) eqn:C.
    + rewrite (fc_add_rows_clean fails (snd b) [] C). simpl. rewrite IH. rewrite <- app_assoc. simpl.
      destruct b; reflexivity.
    + pose proof (fc_add_rows_failed fails (snd b) [] C) as F.
      destruct (fc_add_rows fails [] (snd b)) as [a ok]. simpl in F. subst ok. apply IH.
Qed.

(* what is delivered = the window's batches without the failed ones, each delivered result over exactly the
   rows of its own batch; the aggregator is empty between batches *)
Theorem fail_loses_whole_batches : forall fails bs,
  fc_out (fc_run fails bs) = filter (fc_clean fails) bs /\ fc_agg (fc_run fails bs) = [].
Proof. intros fails bs. unfold fc_run. rewrite fc_fold. split; reflexivity. Qed.

Lemma sublist_filter_self : forall (A : Type) (f : A -> bool) (l : list A), sublist (filter f l) l.
Proof.
  intros A f l. induction l as [|x l IH]; simpl; [constructor|].
  destruct (f x); [apply sub_keep|apply sub_skip]; exact IH.
Qed.

Theorem fail_never_merges : forall fails bs, sublist (fc_out (fc_run fails bs)) bs.
Proof. intros fails bs. rewrite (proj1 (fail_loses_whole_batches fails bs)). apply sublist_filter_self. Qed.

Theorem fail_exact_without_failure : forall fails bs,
  forallb (fc_clean fails) bs = true -> fc_out (fc_run fails bs) = bs.
Proof.
  intros fails bs H. rewrite (proj1 (fail_loses_whole_batches fails bs)).
  induction bs as [|b bs IH]; simpl in *; [reflexivity|].
  apply andb_true_iff in H. destruct H as [Hb Hbs]. rewrite Hb. f_equal. exact (IH Hbs).
Qed.

(* per key tuple: the delivered id lists are N-blocks of the tuple's rows, in increasing order *)
Theorem fail_blocks_per_key : forall fails n sch h t, 1 <= n ->
  Forall (fun r => conforms sch (ktuple_of r)) h -> conforms sch t ->
  sublist (map (map krid) (kbatches_of (tuple_key s_global t) (fc_out (fc_run fails (cw_run n h)))))
          (let ids := map krid (krows_of t h) in chunks (length ids) n ids).
Proof.
  intros fails n sch h t N HC HT.
  rewrite <- (counting_matches_spec_blocks n sch h t N HC HT).
  apply sublist_map. unfold kbatches_of. apply sublist_map. apply sublist_filter. apply fail_never_merges.
Qed.
