(* C04: the pair judgement of the correspondence check (P lines of harness/c04float.go: two tuples pushed
   through ONE real encoder). Key equality IS tuple equality, as booleans. *)
From SV Require Import Model.GroupKey Proofs.GroupKeyProofs.

(* ---- the pair judgement of the correspondence check (P lines: two tuples through one encoder) ----
   key equality IS tuple equality, as booleans: an encoder that behaves like the model yields neither
   key_collision (different tuples, one key) nor key_split (one tuple, two keys). *)
Lemma pair_judgement_agg : forall r1 r2,
  bytes_eqb (agg_key r1) (agg_key r2) = ktuple_eqb (ktuple_of r1) (ktuple_of r2).
Proof.
  intros r1 r2. destruct (ktuple_eqb (ktuple_of r1) (ktuple_of r2)) eqn:E.
  - apply ktuple_eqb_iff in E. apply bytes_eqb_iff. apply agg_key_iff. exact E.
  - destruct (bytes_eqb (agg_key r1) (agg_key r2)) eqn:K; [|reflexivity].
    apply bytes_eqb_iff in K. apply agg_key_iff in K. apply ktuple_eqb_iff in K. congruence.
Qed.

Lemma pair_judgement_win : forall g sch r1 r2,
  conforms sch (ktuple_of r1) -> conforms sch (ktuple_of r2) ->
  bytes_eqb (win_key g r1) (win_key g r2) = ktuple_eqb (ktuple_of r1) (ktuple_of r2).
Proof.
  intros g sch r1 r2 C1 C2. destruct (ktuple_eqb (ktuple_of r1) (ktuple_of r2)) eqn:E.
  - apply ktuple_eqb_iff in E. apply bytes_eqb_iff. apply (win_key_iff g sch r1 r2 C1 C2). exact E.
  - destruct (bytes_eqb (win_key g r1) (win_key g r2)) eqn:K; [|reflexivity].
    apply bytes_eqb_iff in K. apply (win_key_iff g sch r1 r2 C1 C2) in K. apply ktuple_eqb_iff in K. congruence.
Qed.

Lemma pair_judgement_part : forall v w,
  bytes_eqb (k_key_part v) (k_key_part w) = kvalue_eqb v w.
Proof.
  intros v w. destruct (kvalue_eqb v w) eqn:E.
  - apply kvalue_eqb_iff in E. subst w. apply bytes_eqb_iff. reflexivity.
  - destruct (bytes_eqb (k_key_part v) (k_key_part w)) eqn:K; [|reflexivity].
    apply bytes_eqb_iff in K.
    assert (H : k_key_part v ++ [] = k_key_part w ++ []) by (rewrite !app_nil_r; exact K).
    apply key_part_app_inj in H. destruct H as [H _]. apply kvalue_eqb_iff in H. congruence.
Qed.
