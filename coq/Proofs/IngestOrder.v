(* C19 — producer_order: with the repaired consumer (it receives while holding the read lock), or for the
   drop / block strategies (which never expand), every producer's rows reach processItem in emission
   order, for all schedules. For the consumer as found the statement is refuted by a schedule. *)
From Coq Require Import List Arith Bool PeanoNat Lia.
From SV Require Import Model.Ingest Spec.IngestSpec Proofs.IngestProofs.
Import ListNotations.

Definition ig_lt (x y : igid) : Prop := fst y = fst x -> snd x < snd y.
Fixpoint ig_ordered (l : list igid) : Prop :=
  match l with [] => True | x :: r => Forall (ig_lt x) r /\ ig_ordered r end.

Lemma ig_ordered_app l1 l2 :
  ig_ordered (l1 ++ l2) <-> ig_ordered l1 /\ ig_ordered l2 /\ (forall x y, In x l1 -> In y l2 -> ig_lt x y).
Proof.
  induction l1 as [|a t IH]; simpl.
  - split; [intro H; repeat split; auto; intros x y []|intros (_ & H & _); auto].
  - rewrite IH, Forall_app. split.
    + intros ((F1 & F2) & O1 & O2 & C). repeat split; auto.
      intros x y [<-|Hx] Hy; [rewrite Forall_forall in F2; auto|auto].
    + intros ((F1 & O1) & O2 & C). repeat split; auto.
      rewrite Forall_forall. intros y Hy. apply C; auto.
Qed.

Lemma ig_orderedb_ok l : ig_orderedb l = true <-> ig_ordered l.
Proof.
  induction l as [|a t IH]; simpl; [tauto|].
  rewrite andb_true_iff, IH, forallb_forall, Forall_forall.
  assert (E : forall y, ig_before a y = true <-> ig_lt a y).
  { intro y. unfold ig_before, ig_lt. rewrite orb_true_iff, negb_true_iff, Nat.eqb_neq, Nat.ltb_lt. split.
    - intros [H|H] Q; [contradiction|auto].
    - intro H. destruct (Nat.eq_dec (fst y) (fst a)); auto. }
  split; intros [H1 H2]; split; auto; intros y Hy; apply E; auto.
Qed.

(* the rows of one producer, in the order of the list, have increasing sequence numbers *)
Lemma ig_ordered_spec l : ig_ordered l <->
  forall l1 x l2 y l3, l = l1 ++ x :: l2 ++ y :: l3 -> fst x = fst y -> snd x < snd y.
Proof.
  split.
  - intros O l1 x l2 y l3 -> E. apply ig_ordered_app in O. destruct O as (_ & O & _). simpl in O.
    destruct O as [F _]. rewrite Forall_forall in F. apply F; auto. apply in_or_app; right; left; auto.
  - induction l as [|a t IH]; simpl; auto. intro H. split.
    + rewrite Forall_forall. intros y Hy. apply in_split in Hy. destruct Hy as (l2 & l3 & ->).
      intro E. apply (H [] a l2 y l3); auto.
    + apply IH. intros l1 x l2 y l3 -> E. apply (H (a :: l1) x l2 y l3); auto.
Qed.

Definition ig_chan_q (chs : list (nat * list igid)) (r : nat) : list igid :=
  match nth_error chs r with Some (_, q) => q | None => [] end.
Definition ig_seq (s : igst) : list igid :=
  ig_processed s ++ ig_chan_q (ig_chans s) (S (ig_cur s)) ++ ig_chan_q (ig_chans s) (ig_cur s).

Lemma ig_push_q chs r x chs' : ig_push chs r x = Some chs' ->
  forall m, ig_chan_q chs' m = if m =? r then ig_chan_q chs r ++ [x] else ig_chan_q chs m.
Proof.
  unfold ig_push, ig_chan_q. destruct (nth_error chs r) as [[cp q]|] eqn:E; try discriminate.
  destruct (length q <? cp); try discriminate. intros H m; inversion H; subst.
  rewrite (nth_error_upd _ _ _ _ m E). destruct (m =? r); auto.
Qed.
Lemma ig_pop_q chs r x chs' : ig_pop chs r = Some (x, chs') ->
  ig_chan_q chs r = x :: ig_chan_q chs' r /\ forall m, m <> r -> ig_chan_q chs' m = ig_chan_q chs m.
Proof.
  unfold ig_pop, ig_chan_q. destruct (nth_error chs r) as [[cp [|z q]]|] eqn:E; try discriminate.
  intros H; inversion H; subst. split.
  - rewrite (nth_error_upd _ _ _ _ r E), Nat.eqb_refl. auto.
  - intros m Hm. rewrite (nth_error_upd _ _ _ _ m E). apply Nat.eqb_neq in Hm. rewrite Hm. auto.
Qed.
Lemma ig_chan_q_none chs m : length chs <= m -> ig_chan_q chs m = [].
Proof. intro H. unfold ig_chan_q. apply nth_error_None in H. rewrite H. auto. Qed.

Definition ig_pcok (c : igcfg) (s : igst) (p : nat) (pc : igpc) : Prop :=
  match pc with
  | IgGetRef => ig_strat c <> IgExpand
  | IgCached r _ => ig_strat c <> IgExpand /\ r = ig_cur s
  | IgExpBegin | IgExpRead | IgExpDecided _ | IgWait _ => ig_strat c = IgExpand
  | IgExpLocked _ => ig_strat c = IgExpand /\ ig_wlock s = Some p
  | _ => True
  end.

Record ig_inv3 (c : igcfg) (s : igst) : Prop := {
  i3_ord : ig_ordered (ig_seq s);
  i3_below : forall p k pr, In (p, k) (ig_seq s) -> nth_error (ig_prods s) p = Some pr ->
                            k + length (ig_handl pr) < ig_started pr;
  i3_hand : forall p pr x, nth_error (ig_prods s) p = Some pr -> ig_hand pr = Some x ->
                           x = (p, ig_started pr - 1) /\ 0 < ig_started pr;
  i3_len : length (ig_chans s) = ig_cur s + (if ig_wl s then 2 else 1);
  i3_cref : forall r, ig_cref s = Some r -> r = ig_cur s /\ ig_wlock s = None;
  i3_pc : forall p pr, nth_error (ig_prods s) p = Some pr -> ig_pcok c s p (ig_pc pr);
  i3_owner : forall q, ig_wlock s = Some q -> exists pr nc, nth_error (ig_prods s) q = Some pr /\ ig_pc pr = IgExpLocked nc;
  i3_idle : forall p pr, nth_error (ig_prods s) p = Some pr -> ig_pc pr = IgIdle -> ig_hand pr = None
}.

Ltac upd_at HN p0 :=
  match type of HN with nth_error (ig_upd ?p ?pr' _) _ = _ =>
    match goal with E : nth_error (ig_prods _) p = Some _ |- _ =>
      rewrite (nth_error_upd _ _ _ pr' p0 E) in HN end end.


Lemma ig_sent_seq (c : igcfg) s p pr x l :
  ig_ordered (ig_seq s) ->
  (forall p k pr, In (p, k) (ig_seq s) -> nth_error (ig_prods s) p = Some pr -> k + length (ig_handl pr) < ig_started pr) ->
  (forall p pr x, nth_error (ig_prods s) p = Some pr -> ig_hand pr = Some x -> x = (p, ig_started pr - 1) /\ 0 < ig_started pr) ->
  length (ig_chans s) = ig_cur s + 1 ->
  nth_error (ig_prods s) p = Some pr -> ig_hand pr = Some x ->
  ig_push (ig_chans s) (ig_cur s) x = Some l ->
  ig_ordered (ig_processed s ++ ig_chan_q l (S (ig_cur s)) ++ ig_chan_q l (ig_cur s)) /\
  (forall p0 k pr0, In (p0, k) (ig_processed s ++ ig_chan_q l (S (ig_cur s)) ++ ig_chan_q l (ig_cur s)) ->
     nth_error (ig_upd p {| ig_pc := IgIdle; ig_started := ig_started pr; ig_hand := None |} (ig_prods s)) p0 = Some pr0 ->
     k + length (ig_handl pr0) < ig_started pr0).
Proof.
  intros Io Ib Ih Il E E1 E3.
  pose proof (ig_push_q _ _ _ _ E3) as Q.
  assert (Hs : ig_processed s ++ ig_chan_q l (S (ig_cur s)) ++ ig_chan_q l (ig_cur s) = ig_seq s ++ [x]).
  { unfold ig_seq. rewrite (Q (S (ig_cur s))), (Q (ig_cur s)), Nat.eqb_refl.
    replace (S (ig_cur s) =? ig_cur s) with false by (symmetry; apply Nat.eqb_neq; lia).
    rewrite (ig_chan_q_none (ig_chans s) (S (ig_cur s))) by lia. simpl. rewrite app_assoc. reflexivity. }
  rewrite Hs. destruct (Ih _ _ _ E E1) as [Hx Hpos].
  assert (Hb : forall k, In (p, k) (ig_seq s) -> k + 1 < ig_started pr).
  { intros k HI. pose proof (Ib _ _ _ HI E) as B. unfold ig_handl in B. rewrite E1 in B. simpl in B. lia. }
  split.
  - apply ig_ordered_app. split; [auto|split; [simpl; auto|]].
    intros [py ky] y HI [<-|[]]. subst x. unfold ig_lt. simpl. intro Q'. subst py. apply Hb in HI. lia.
  - intros p0 k pr0 HI HN. rewrite (nth_error_upd _ _ _ _ p0 E) in HN.
    apply in_app_or in HI. destruct (p0 =? p) eqn:EQ.
    + apply Nat.eqb_eq in EQ. subst p0. inversion HN; subst pr0. simpl.
      destruct HI as [HI|[HI|[]]]; [apply Hb in HI; lia|]. subst x. inversion HI; subst. lia.
    + destruct HI as [HI|[HI|[]]]; [eapply Ib; eauto|]. subst x. inversion HI; subst. rewrite Nat.eqb_refl in EQ. discriminate.
Qed.

Ltac below_same Ib :=
  let p0 := fresh "p0" in let k := fresh "k" in let pr0 := fresh "pr0" in
  let HI := fresh "HI" in let HN := fresh "HN" in let EQ := fresh "EQ" in let Q := fresh "Q" in
  intros p0 k pr0 HI HN; try upd_at HN p0;
  first [exact (Ib _ _ _ HI HN)
        |destruct (p0 =? _) eqn:EQ;
         [apply Nat.eqb_eq in EQ; subst p0; inversion HN; subst pr0;
          match goal with E : nth_error (ig_prods _) ?p = Some ?pr |- _ => pose proof (Ib _ _ _ HI E) as Q end;
          unfold ig_handl in *; simpl in *; lia
         |exact (Ib _ _ _ HI HN)]].

Lemma ig_inv3_step c s a s' :
  (ig_locked_recv c = true \/ ig_strat c <> IgExpand) -> ig_no_mt a ->
  ig_inv3 c s -> ig_step c s a = Some s' -> ig_inv3 c s'.
Proof.
  intros Hc NM I H. destruct I as [Io Ib Ih Il Ic Ip Iw Ii].
  destruct a; try contradiction; unfold ig_step, ig_sent, ig_drop, ig_set_pc, ig_set_prods, ig_swap in H; ig_cases H.
  all: try match goal with E : nth_error (ig_prods _) ?p = Some ?pr, E0 : ig_pc ?pr = _ |- _ =>
         pose proof (Ip _ _ E) as Ipc; rewrite E0 in Ipc; simpl in Ipc end.
  all: unfold ig_wl in *.
  all: constructor; simpl; unfold ig_wl; simpl.
  (* i3_idle *)
  all: try (intros p0 pr0 HN HP; try upd_at HN p0;
            try (destruct (p0 =? _) eqn:EQ; [inversion HN; subst pr0; simpl in *; try destruct (ig_strat c); auto; discriminate|]);
            eauto; fail).
  (* i3_hand *)
  all: try (intros p0 pr0 x0 HN HP; try upd_at HN p0;
            try (destruct (p0 =? _) eqn:EQ; [apply Nat.eqb_eq in EQ; subst p0; inversion HN; subst pr0; simpl in *;
                 try discriminate; try (inversion HP; subst; split; [f_equal; lia|lia]); try (inversion HP; subst; eapply Ih; eauto; fail); eauto|]);
            eauto; fail).
  (* i3_len *)
  all: try (rewrite ?app_length; simpl;
            repeat match goal with
            | E : ig_push _ _ _ = Some _ |- _ => rewrite (ig_push_length _ _ _ _ E); clear E
            | E : ig_pop _ _ = Some _ |- _ => rewrite (ig_pop_length _ _ _ _ E); clear E end;
            try (destruct Ipc as [Ipc1 Ipc2]; rewrite Ipc2 in * );
            destruct (ig_wlock s); try discriminate; lia).
  (* i3_cref *)
  all: try (intros r HR; try discriminate HR;
            try (destruct Ipc as [Ipc1 Ipc2]; idtac Ipc1 Ipc2);
            try (inversion HR; subst r; destruct (ig_wlock s); try discriminate; auto; fail);
            try (apply Ic in HR; destruct HR as [HR1 HR2]; split; auto; congruence);
            fail).
  (* i3_owner *)
  all: try (intros q HQ; try discriminate HQ;
            try (inversion HQ; subst q;
                 match goal with E : nth_error (ig_prods _) ?p = Some _ |- context [ig_upd ?p ?pr' _] =>
                   rewrite (nth_error_upd _ _ _ pr' p E), Nat.eqb_refl; eauto end; fail);
            destruct (Iw q HQ) as (prq & ncq & A & B);
            try (exists prq, ncq; split; auto; fail);
            match goal with E : nth_error (ig_prods _) ?p = Some _ |- context [ig_upd ?p ?pr' _] =>
              rewrite (nth_error_upd _ _ _ pr' q E); destruct (q =? p) eqn:EQ;
              [apply Nat.eqb_eq in EQ; subst q; rewrite E in A; inversion A; subst prq; congruence
              |exists prq, ncq; split; auto] end; fail).
  (* i3_pc *)
  all: try (intros p0 pr0 HN; try upd_at HN p0;
            first [exact (Ip _ _ HN) |
            destruct (p0 =? _) eqn:EQ;
            [apply Nat.eqb_eq in EQ; subst p0; inversion HN; subst pr0; unfold ig_pcok; simpl;
             try destruct (ig_strat c) eqn:ES; simpl; try tauto; try (split; auto; congruence); try congruence; intuition congruence
            |try (exact (Ip _ _ HN));
             apply Nat.eqb_neq in EQ; pose proof (Ip _ _ HN) as Q; unfold ig_pcok in *; simpl;
             destruct (ig_pc pr0); auto; try (destruct Ipc as [Ipc1 Ipc2]); intuition congruence]]; fail).
  (* unchanged sequence *)
  all: try exact Io.
  all: try (intros p0 k pr0 HI HN; try upd_at HN p0;
     first [exact (Ib _ _ _ HI HN) |
     destruct (p0 =? _) eqn:EQ; [apply Nat.eqb_eq in EQ; subst p0; inversion HN; subst pr0; 
        match goal with E : nth_error (ig_prods _) ?p = Some ?pr |- _ => pose proof (Ib _ _ _ HI E) as Q end;
        try match goal with E : nth_error (ig_prods _) ?p = Some ?pr, E0 : ig_pc ?pr = IgIdle |- _ => pose proof (Ii _ _ E E0) end;
        unfold ig_handl in *; simpl in *; repeat match goal with E : ig_hand _ = _ |- _ => rewrite E in *; clear E end; simpl in *; lia
      | exact (Ib _ _ _ HI HN)]]; fail).
  all: unfold ig_seq; simpl.
  (* Sd delivered *)
  1: { match goal with E : nth_error (ig_prods s) _ = Some _, E1 : ig_hand _ = Some _, E3 : ig_push _ _ _ = Some _ |- _ =>
         exact (proj1 (ig_sent_seq c s _ _ _ _ Io Ib Ih Il E E1 E3)) end. }
  1: { match goal with E : nth_error (ig_prods s) _ = Some _, E1 : ig_hand _ = Some _, E3 : ig_push _ _ _ = Some _ |- _ =>
         exact (proj2 (ig_sent_seq c s _ _ _ _ Io Ib Ih Il E E1 E3)) end. }
  (* Cs delivered *)
  1-2: assert (W : ig_wlock s = None) by
      (destruct (ig_wlock s) as [q|] eqn:EW; auto; destruct (Iw q eq_refl) as (prq & ncq & A & B);
       pose proof (Ip _ _ A) as Q; rewrite B in Q; simpl in Q; destruct Q, Ipc; contradiction).
  1-2: destruct Ipc as [_ ->]; rewrite W in Il.
  1: { match goal with E : nth_error (ig_prods s) _ = Some _, E1 : ig_hand _ = Some _, E3 : ig_push _ _ _ = Some _ |- _ =>
         exact (proj1 (ig_sent_seq c s _ _ _ _ Io Ib Ih Il E E1 E3)) end. }
  1: { match goal with E : nth_error (ig_prods s) _ = Some _, E1 : ig_hand _ = Some _, E3 : ig_push _ _ _ = Some _ |- _ =>
         exact (proj2 (ig_sent_seq c s _ _ _ _ Io Ib Ih Il E E1 E3)) end. }
  (* Xl *)
  1-5: destruct (ig_wlock s) eqn:EW; try discriminate.
  1-2: assert (Hs : ig_processed s ++ ig_chan_q (ig_chans s ++ [(nc, [])]) (S (ig_cur s)) ++
                    ig_chan_q (ig_chans s ++ [(nc, [])]) (ig_cur s) = ig_seq s) by
      (simpl in Il; unfold ig_seq, ig_chan_q; rewrite nth_error_app2 by lia; rewrite nth_error_app1 by lia;
       replace (S (ig_cur s) - length (ig_chans s)) with 0 by lia;
       assert (N : nth_error (ig_chans s) (S (ig_cur s)) = None) by (apply nth_error_None; lia);
       rewrite N; reflexivity).
  1-2: rewrite Hs.
  1: exact Io.
  1: below_same Ib.
  1: { intros r HR. exfalso. destruct Hc as [Hc|Hc]; [|congruence].
       match goal with E : _ && _ = false |- _ => rewrite Hc, HR in E; discriminate E end. }
  1: { intros p0 pr0 HN. upd_at HN p0. destruct (p0 =? p) eqn:EQ.
       - apply Nat.eqb_eq in EQ. subst p0. inversion HN; subst pr0. simpl. auto.
       - pose proof (Ip _ _ HN) as Q. unfold ig_pcok in *. simpl. destruct (ig_pc pr0); auto.
         destruct Q; congruence. }
  1: { intros q HQ. inversion HQ; subst q.
       match goal with E : nth_error (ig_prods _) ?p = Some _ |- context [ig_upd ?p ?pr' _] =>
         rewrite (nth_error_upd _ _ _ pr' p E), Nat.eqb_refl end. do 2 eexists; split; reflexivity. }
  (* Mg *)
  1-2: match goal with E1 : ig_pop _ _ = Some _, E2 : ig_push _ _ _ = Some _ |- _ =>
         pose proof (ig_pop_q _ _ _ _ E1) as [Q1 Q2]; pose proof (ig_push_q _ _ _ _ E2) as Q3 end.
  1-2: assert (Hs : ig_processed s ++ ig_chan_q l0 (S (ig_cur s)) ++ ig_chan_q l0 (ig_cur s) = ig_seq s) by
      (unfold ig_seq; rewrite (Q3 (S (ig_cur s))), (Q3 (ig_cur s)), Nat.eqb_refl;
       replace (ig_cur s =? S (ig_cur s)) with false by (symmetry; apply Nat.eqb_neq; lia);
       rewrite Q1, (Q2 (S (ig_cur s))) by lia; rewrite <- !app_assoc; reflexivity).
  1-2: rewrite Hs.
  1: exact Io.
  1: below_same Ib.
  (* Sw *)
  1-3: destruct Ipc as [Ipc1 Ipc2]; rewrite Ipc2 in Il; simpl in Il.
  1-2: assert (Hs : ig_processed s ++ ig_chan_q (ig_chans s) (S (S (ig_cur s))) ++ ig_chan_q (ig_chans s) (S (ig_cur s)) = ig_seq s) by
      (unfold ig_seq; rewrite (ig_chan_q_none (ig_chans s) (S (S (ig_cur s)))) by lia;
       unfold ig_chan_q at 3; rewrite E1; simpl; rewrite app_nil_r; reflexivity).
  1-2: rewrite Hs.
  1: exact Io.
  1: below_same Ib.
  1: { intros r HR. apply Ic in HR. destruct HR; congruence. }
  (* Rc *)
  1-2: destruct (Ic _ eq_refl) as [-> W].
  1-2: rewrite W in Il; simpl in Il.
  1-2: match goal with E1 : ig_pop _ _ = Some _ |- _ => pose proof (ig_pop_q _ _ _ _ E1) as [Q1 Q2] end.
  1-2: assert (Hs : (ig_processed s ++ [i]) ++ ig_chan_q l (S (ig_cur s)) ++ ig_chan_q l (ig_cur s) = ig_seq s) by
      (unfold ig_seq; rewrite Q1, (Q2 (S (ig_cur s))) by lia;
       rewrite (ig_chan_q_none (ig_chans s) (S (ig_cur s))) by lia; simpl; rewrite <- app_assoc; reflexivity).
  1-2: rewrite Hs.
  1: exact Io.
  1: below_same Ib.
Qed.


Lemma ig_inv3_init c n : ig_inv3 c (ig_init c n).
Proof.
  assert (R : forall p pr, nth_error (ig_prods (ig_init c n)) p = Some pr ->
                           pr = {| ig_pc := IgIdle; ig_started := 0; ig_hand := None |}).
  { intros p pr H. apply nth_error_In in H. simpl in H. apply repeat_spec in H. auto. }
  constructor; simpl.
  - unfold ig_seq, ig_chan_q; simpl. auto.
  - unfold ig_seq, ig_chan_q; simpl. intros p k pr [].
  - intros p pr x H E. apply R in H. subst. discriminate.
  - reflexivity.
  - intros r H; discriminate.
  - intros p pr H. apply R in H. subst. simpl. auto.
  - intros q H; discriminate.
  - intros p pr H _. apply R in H. subst. auto.
Qed.

Lemma ig_inv3_run c l : (ig_locked_recv c = true \/ ig_strat c <> IgExpand) -> Forall ig_no_mt l ->
  forall s s', ig_inv3 c s -> ig_run c s l = Some s' -> ig_inv3 c s'.
Proof.
  intros Hc. induction l as [|a l IH]; simpl; intros F s s' I H.
  - inversion H; subst; auto.
  - destruct (ig_step c s a) eqn:E; try discriminate. inversion F; subst.
    apply (IH H3 i s'); auto. eapply ig_inv3_step; eauto.
Qed.

(* producer_order: every producer's rows are processed in emission order *)
Theorem ig_producer_order c n l s :
  ig_locked_recv c = true \/ ig_strat c <> IgExpand -> Forall ig_no_mt l ->
  ig_run c (ig_init c n) l = Some s -> ig_ordered (ig_processed s).
Proof.
  intros Hc F H. pose proof (ig_inv3_run c l Hc F _ _ (ig_inv3_init c n) H) as [Io _ _ _ _ _ _ _].
  unfold ig_seq in Io. apply ig_ordered_app in Io. tauto.
Qed.

Corollary ig_producer_order_pairs c n l s :
  ig_locked_recv c = true \/ ig_strat c <> IgExpand -> Forall ig_no_mt l ->
  ig_run c (ig_init c n) l = Some s ->
  forall l1 p k1 l2 k2 l3, ig_processed s = l1 ++ (p, k1) :: l2 ++ (p, k2) :: l3 -> k1 < k2.
Proof.
  intros Hc F H l1 p k1 l2 k2 l3 E.
  pose proof (proj1 (ig_ordered_spec _) (ig_producer_order _ _ _ _ Hc F H) _ _ _ _ _ E). auto.
Qed.

(* ---- the consumer as found (RUnlock before the select): refuted by the schedule of finding F14 *)
Definition ig_f14_cfg (locked : bool) : igcfg :=
  {| ig_strat := IgExpand; ig_cap0 := 2; ig_max := 64; ig_mininc := 1; ig_gnum := 3; ig_gden := 2;
     ig_tnum := 4; ig_tden := 5; ig_locked_recv := locked |}.
Definition ig_f14_schedule : list igstep :=
  [IgLd; IgEm 0; IgSd 0; IgEm 0; IgSd 0; IgEm 0; IgSd 0; IgXb 0; IgXr 0; IgXl 0; IgMg 0; IgRc; IgSw 0; IgSd 0;
   IgLd; IgRc; IgLd; IgRc].

Lemma ig_f14_run : option_map ig_processed (ig_run (ig_f14_cfg false) (ig_init (ig_f14_cfg false) 1) ig_f14_schedule)
                   = Some [(0, 1); (0, 0); (0, 2)].
Proof. vm_compute. reflexivity. Qed.

Theorem ig_producer_order_asis_refuted :
  exists c n l s, ig_locked_recv c = false /\ Forall ig_no_mt l /\ ig_run c (ig_init c n) l = Some s /\
                  ~ ig_ordered (ig_processed s).
Proof.
  pose proof ig_f14_run as R.
  destruct (ig_run (ig_f14_cfg false) (ig_init (ig_f14_cfg false) 1) ig_f14_schedule) as [s|] eqn:E; [|discriminate].
  exists (ig_f14_cfg false), 1, ig_f14_schedule, s. repeat split; auto.
  - unfold ig_f14_schedule. repeat constructor.
  - simpl in R. inversion R as [R']. rewrite R'. simpl. intros [F _]. inversion F; subst.
    unfold ig_lt in H1. simpl in H1. specialize (H1 eq_refl). lia.
Qed.

(* the repaired consumer cannot run that schedule: the write lock is not available while it holds its reference *)
Lemma ig_f14_blocked_after_repair :
  ig_run (ig_f14_cfg true) (ig_init (ig_f14_cfg true) 1) ig_f14_schedule = None /\
  (exists s, ig_run (ig_f14_cfg true) (ig_init (ig_f14_cfg true) 1) (firstn 9 ig_f14_schedule) = Some s /\
             ig_step (ig_f14_cfg true) s (IgXl 0) = None).
Proof. split; [vm_compute; reflexivity|]. eexists; split; vm_compute; reflexivity. Qed.

(* the 5 s migration timeout loses the row in hand silently (not counted as dropped) *)
Definition ig_mt_schedule : list igstep :=
  [IgEm 0; IgSd 0; IgEm 0; IgSd 0; IgEm 0; IgSd 0; IgXb 0; IgXr 0; IgXl 0; IgMt1 0; IgSd 0;
   IgLd; IgRc; IgLd; IgTk].
Lemma ig_migration_timeout_loses :
  exists s, ig_run (ig_f14_cfg true) (ig_init (ig_f14_cfg true) 1) ig_mt_schedule = Some s /\
            ig_emitted s = 3 /\ ig_dropped s = 0 /\ ig_lost_ids s = [(0, 0)] /\ ig_inflight s = [] /\
            ig_len s = 0 /\ ig_processed s = [(0, 2)] /\ ig_queued s = [(0, 1)].
Proof. eexists; split; [vm_compute; reflexivity|]. vm_compute. repeat split. Qed.

(* non-vacuity: a run of the repaired model with two producers, an expansion 2 -> 3 = MaxBufferSize, a drop at
   the ceiling, everything else processed *)
Definition ig_ex_cfg : igcfg :=
  {| ig_strat := IgExpand; ig_cap0 := 2; ig_max := 3; ig_mininc := 1; ig_gnum := 3; ig_gden := 2;
     ig_tnum := 4; ig_tden := 5; ig_locked_recv := true |}.
Definition ig_ex_schedule : list igstep :=
  [IgEm 0; IgSd 0; IgEm 1; IgSd 1; IgEm 0; IgSd 0; IgXb 0; IgXr 0; IgXl 0; IgMg 0; IgMg 0; IgSw 0; IgSd 0;
   IgEm 1; IgSd 1; IgXb 1; IgXr 1; IgSd 1; IgTo 1; IgSd 1; IgTo 1; IgSd 1; IgTo 1; IgSd 1;
   IgLd; IgRc; IgLd; IgRc; IgLd; IgRc].
Lemma ig_example_run :
  exists s, ig_run ig_ex_cfg (ig_init ig_ex_cfg 2) ig_ex_schedule = Some s /\
            ig_processed s = [(0, 0); (1, 0); (0, 1)] /\ ig_dropped s = 1 /\ ig_emitted s = 4 /\ ig_cap s = 3 /\
            ig_queued s = [] /\ ig_inflight s = [] /\ Forall ig_no_mt ig_ex_schedule.
Proof. eexists; split; [vm_compute; reflexivity|]. vm_compute. repeat split. repeat constructor. Qed.

(* ---- the boolean clauses of the end-state checker (Spec/IngestSpec.v) decide the Props proved above *)
Lemma ig_ideq_ok a b : ig_ideq a b = true <-> a = b.
Proof.
  destruct a as [a1 a2], b as [b1 b2]. unfold ig_ideq. simpl.
  rewrite andb_true_iff, !Nat.eqb_eq. split; [intros [-> ->]; auto|intro H; inversion H; auto].
Qed.
Lemma ig_mem_ok x l : ig_mem x l = true <-> In x l.
Proof.
  unfold ig_mem. rewrite existsb_exists. split.
  - intros (y & Hy & E). apply ig_ideq_ok in E. subst; auto.
  - intro H. exists x. split; auto. apply ig_ideq_ok; auto.
Qed.
Lemma ig_nodupb_ok l : ig_nodupb l = true <-> NoDup l.
Proof.
  induction l as [|a t IH]; simpl.
  - split; auto. constructor.
  - rewrite andb_true_iff, negb_true_iff, IH. split.
    + intros [M N]. constructor; auto. intro HI. apply ig_mem_ok in HI. congruence.
    + intro N. inversion N; subst. split; auto. destruct (ig_mem a t) eqn:E; auto. apply ig_mem_ok in E. contradiction.
Qed.
