(* C16 — the table store keyed by encoded strings refines the abstract finite map keyed by key tuples
   modulo key_eq; finite-map laws, read-your-writes over histories, INNER/LEFT, alias binding. *)
From Coq Require Import Lia.
From SV Require Import Model.Join Spec.JoinSpec Proofs.JoinKeyProofs.
Import JoinM.

(* ------------------------------------------------------------------ laws of the store, any key type *)
Section Generic.
  Variable K : Type.
  Variable keq : K -> K -> bool.
  Hypothesis keq_sym : forall a b, keq a b = keq b a.
  Hypothesis keq_trans : forall a b c, keq a b = true -> keq b c = true -> keq a c = true.

  Lemma slookup_sremove : forall k k' t,
    slookup keq k' (sremove keq k t) = if keq k k' then None else slookup keq k' t.
  Proof.
    intros k k' t. induction t as [|[k2 r] t IH]; simpl.
    - destruct (keq k k'); reflexivity.
    - destruct (keq k2 k) eqn:E2.
      + rewrite IH. destruct (keq k k') eqn:E; [reflexivity|].
        destruct (keq k2 k') eqn:E3; [|reflexivity].
        exfalso. rewrite keq_sym in E2. pose proof (keq_trans _ _ _ E2 E3). congruence.
      + simpl. destruct (keq k2 k') eqn:E3.
        * destruct (keq k k') eqn:E; [|reflexivity].
          exfalso. rewrite keq_sym in E. pose proof (keq_trans _ _ _ E3 E). congruence.
        * exact IH.
  Qed.

  Lemma slookup_sset : forall k k' r t,
    slookup keq k' (sset keq k r t) = if keq k k' then Some r else slookup keq k' t.
  Proof.
    intros k k' r t. unfold sset. simpl. destruct (keq k k') eqn:E; [reflexivity|].
    rewrite slookup_sremove, E. reflexivity.
  Qed.

  Lemma slookup_congr : forall k k' t, keq k k' = true -> slookup keq k t = slookup keq k' t.
  Proof.
    intros k k' t H. induction t as [|[k2 r] t IH]; simpl; [reflexivity|].
    destruct (keq k2 k) eqn:E1; destruct (keq k2 k') eqn:E2; try reflexivity; try exact IH.
    - pose proof (keq_trans _ _ _ E1 H). congruence.
    - rewrite keq_sym in H. pose proof (keq_trans _ _ _ E2 H). congruence.
  Qed.
End Generic.

Lemma bytes_eqb_sym : forall a b : bytes, bytes_eqb a b = bytes_eqb b a.
Proof.
  intros a b. destruct (bytes_eqb a b) eqn:E1; destruct (bytes_eqb b a) eqn:E2; try reflexivity.
  - apply bytes_eqb_eq in E1. subst. rewrite (proj2 (bytes_eqb_eq b b) eq_refl) in E2. discriminate.
  - apply bytes_eqb_eq in E2. subst. rewrite (proj2 (bytes_eqb_eq a a) eq_refl) in E1. discriminate.
Qed.
Lemma bytes_eqb_trans : forall a b c : bytes, bytes_eqb a b = true -> bytes_eqb b c = true -> bytes_eqb a c = true.
Proof. intros a b c H1 H2. apply bytes_eqb_eq in H1, H2. apply bytes_eqb_eq. congruence. Qed.
Lemma bytes_eqb_refl : forall a : bytes, bytes_eqb a a = true.
Proof. intros a. apply bytes_eqb_eq. reflexivity. Qed.

(* tables by name *)
Lemma tget_tput : forall K (ts : tables K) name t n,
  tget (tput ts name t) n = if bytes_eqb n name then Some t else tget ts n.
Proof.
  intros K ts name t n. induction ts as [|[m x] ts IH]; simpl.
  - rewrite (bytes_eqb_sym name n). destruct (bytes_eqb n name); reflexivity.
  - destruct (bytes_eqb m name) eqn:E1; simpl; destruct (bytes_eqb m n) eqn:E2;
      destruct (bytes_eqb n name) eqn:E3; try reflexivity;
      try exact IH;
      repeat match goal with H : bytes_eqb _ _ = true |- _ => apply bytes_eqb_eq in H; subst end;
      match goal with H : bytes_eqb ?a ?a = false |- _ => rewrite bytes_eqb_refl in H; discriminate end.
Qed.

(* ------------------------------------------------------------------ refinement *)
Notation M_slookup := (slookup bytes_eqb).
Notation A_slookup := (slookup tuple_eqb).

Definition enc_entry (kr : list kv * row) : bytes * row := (encodeKey (fst kr), snd kr).
Definition enc_index (t : list (list kv * row)) : list (bytes * row) := map enc_entry t.
Definition enc_table (t : table (list kv)) : table bytes :=
  {| t_keys := t_keys t; t_idx := enc_index (t_idx t) |}.
Definition enc_tables (ts : tables (list kv)) : tables bytes :=
  map (fun nt => (fst nt, enc_table (snd nt))) ts.

Lemma slookup_enc : forall k t, M_slookup (encodeKey k) (enc_index t) = A_slookup k t.
Proof.
  intros k t. induction t as [|[k2 r] t IH]; simpl; [reflexivity|].
  rewrite encodeKey_eqb. destruct (tuple_eqb k2 k); [reflexivity|exact IH].
Qed.
Lemma sremove_enc : forall k t,
  sremove bytes_eqb (encodeKey k) (enc_index t) = enc_index (sremove tuple_eqb k t).
Proof.
  intros k t. induction t as [|[k2 r] t IH]; simpl; [reflexivity|].
  rewrite encodeKey_eqb. destruct (tuple_eqb k2 k); [exact IH|]. simpl. rewrite IH. reflexivity.
Qed.
Lemma sset_enc : forall k r t,
  sset bytes_eqb (encodeKey k) r (enc_index t) = enc_index (sset tuple_eqb k r t).
Proof. intros. unfold sset. rewrite sremove_enc. reflexivity. Qed.

Notation M_upsert := (t_upsert bytes bytes_eqb encodeKey).
Notation A_upsert := (t_upsert (list kv) tuple_eqb id_key).
Notation M_delete := (t_delete bytes bytes_eqb encodeKey).
Notation A_delete := (t_delete (list kv) tuple_eqb id_key).

Lemma t_upsert_enc : forall t r, M_upsert (enc_table t) r = enc_table (A_upsert t r).
Proof. intros t r. unfold t_upsert, enc_table. simpl. rewrite sset_enc. reflexivity. Qed.
Lemma t_delete_enc : forall t k, M_delete (enc_table t) k = enc_table (A_delete t k).
Proof. intros t k. unfold t_delete, enc_table. simpl. rewrite sremove_enc. reflexivity. Qed.

Lemma tget_enc : forall ts n, tget (enc_tables ts) n = option_map enc_table (tget ts n).
Proof.
  intros ts n. induction ts as [|[m x] ts IH]; simpl; [reflexivity|].
  destruct (bytes_eqb m n); [reflexivity|exact IH].
Qed.
Lemma tput_enc : forall ts n t, tput (enc_tables ts) n (enc_table t) = enc_tables (tput ts n t).
Proof.
  intros ts n t. induction ts as [|[m x] ts IH]; simpl; [reflexivity|].
  destruct (bytes_eqb m n); simpl; [reflexivity|]. rewrite IH. reflexivity.
Qed.

Lemma fold_upsert_enc : forall rows t,
  fold_left M_upsert rows (enc_table t) = enc_table (fold_left A_upsert rows t).
Proof.
  induction rows as [|r rows IH]; intros t; simpl; [reflexivity|].
  rewrite t_upsert_enc. apply IH.
Qed.
Lemma register_enc : forall ts name keys rows,
  register bytes bytes_eqb encodeKey (enc_tables ts) name keys rows =
  enc_tables (register (list kv) tuple_eqb id_key ts name keys rows).
Proof.
  intros. unfold register.
  change {| t_keys := keys; t_idx := @nil (bytes * row) |} with (enc_table {| t_keys := keys; t_idx := [] |}).
  rewrite fold_upsert_enc. apply tput_enc.
Qed.
Lemma register_all_enc : forall regs,
  register_all bytes bytes_eqb encodeKey regs = enc_tables (register_all (list kv) tuple_eqb id_key regs).
Proof.
  intros regs. unfold register_all. change (@nil (bytes * table bytes)) with (enc_tables []).
  generalize (@nil (bytes * table (list kv))). induction regs as [|x regs IH]; intros ts; simpl; [reflexivity|].
  rewrite register_enc. apply IH.
Qed.

Lemma enrich_joins_enc : forall ts d js w,
  enrich_joins bytes bytes_eqb encodeKey (enc_tables ts) d js w =
  enrich_joins (list kv) tuple_eqb id_key ts d js w.
Proof.
  intros ts d js. induction js as [|j js IH]; intros w; simpl; [reflexivity|].
  rewrite tget_enc. destruct (tget ts (j_table j)) as [t|]; simpl; [|reflexivity].
  unfold id_key. rewrite slookup_enc.
  destruct (A_slookup _ (t_idx t)); [apply IH|]. destruct (j_left j); [apply IH|reflexivity].
Qed.
Lemma enrich_enc : forall c ts d,
  enrich bytes bytes_eqb encodeKey c (enc_tables ts) d = enrich (list kv) tuple_eqb id_key c ts d.
Proof.
  intros c ts d. unfold enrich. destruct (c_joins c) as [|j js] eqn:E; [reflexivity|].
  apply enrich_joins_enc.
Qed.

Lemma step_enc : forall c ts o,
  step bytes bytes_eqb encodeKey c (enc_tables ts) o =
  (enc_tables (fst (step (list kv) tuple_eqb id_key c ts o)), snd (step (list kv) tuple_eqb id_key c ts o)).
Proof.
  intros c ts o. destruct o as [r|r|name r|name k]; simpl.
  - rewrite enrich_enc. reflexivity.
  - rewrite enrich_enc. reflexivity.
  - rewrite tget_enc. destruct (tget ts name) as [t|]; simpl; [|reflexivity].
    rewrite t_upsert_enc, tput_enc. reflexivity.
  - rewrite tget_enc. destruct (tget ts name) as [t|]; simpl; [|reflexivity].
    rewrite t_delete_enc, tput_enc. reflexivity.
Qed.

Lemma run_enc : forall c ops ts,
  run bytes bytes_eqb encodeKey c (enc_tables ts) ops = run (list kv) tuple_eqb id_key c ts ops.
Proof.
  intros c ops. induction ops as [|o ops IH]; intros ts; simpl; [reflexivity|].
  rewrite step_enc. destruct (step (list kv) tuple_eqb id_key c ts o) as [ts' x]. simpl. rewrite IH. reflexivity.
Qed.
Lemma final_enc : forall c ops ts,
  final bytes bytes_eqb encodeKey c (enc_tables ts) ops = enc_tables (final (list kv) tuple_eqb id_key c ts ops).
Proof.
  intros c ops. induction ops as [|o ops IH]; intros ts; simpl; [reflexivity|].
  rewrite step_enc. simpl. apply IH.
Qed.

Theorem refinement : forall c regs ops, model_run c regs ops = spec_run c regs ops.
Proof. intros. unfold model_run, spec_run. rewrite register_all_enc. apply run_enc. Qed.

(* ------------------------------------------------------------------ finite-map laws of the code-level store *)
Lemma M_lookup_sset : forall k k' r t,
  M_slookup (encodeKey k') (sset bytes_eqb (encodeKey k) r t) =
  if tuple_eqb k k' then Some r else M_slookup (encodeKey k') t.
Proof.
  intros. rewrite (slookup_sset bytes bytes_eqb bytes_eqb_sym bytes_eqb_trans). rewrite encodeKey_eqb. reflexivity.
Qed.
Lemma M_lookup_sremove : forall k k' t,
  M_slookup (encodeKey k') (sremove bytes_eqb (encodeKey k) t) =
  if tuple_eqb k k' then None else M_slookup (encodeKey k') t.
Proof.
  intros. rewrite (slookup_sremove bytes bytes_eqb bytes_eqb_sym bytes_eqb_trans). rewrite encodeKey_eqb. reflexivity.
Qed.
Lemma M_lookup_congr : forall k k' t, tuple_eqb k k' = true ->
  M_slookup (encodeKey k) t = M_slookup (encodeKey k') t.
Proof.
  intros k k' t H. apply (slookup_congr bytes bytes_eqb bytes_eqb_sym bytes_eqb_trans).
  rewrite encodeKey_eqb. exact H.
Qed.

(* ------------------------------------------------------------------ read-your-writes over histories *)
(* what a row with join key k sees in table [name] *)
Definition lookup_in (ts : tables bytes) (name : bytes) (k : list kv) : option row :=
  match tget ts name with Some t => M_slookup (encodeKey k) (t_idx t) | None => None end.
Definition keys_of (ts : tables bytes) (name : bytes) : option (list bytes) := option_map t_keys (tget ts name).

Notation M_step := (step bytes bytes_eqb encodeKey).
Notation M_run := (run bytes bytes_eqb encodeKey).
Notation M_final := (final bytes bytes_eqb encodeKey).

Lemma step_emit_state : forall c ts r, fst (M_step c ts (OEmit r)) = ts /\ fst (M_step c ts (OEmitSync r)) = ts.
Proof. intros. split; reflexivity. Qed.

Lemma step_keys : forall c ts o name, keys_of (fst (M_step c ts o)) name = keys_of ts name.
Proof.
  intros c ts o name. unfold keys_of. destruct o as [r|r|n r|n k]; simpl; try reflexivity.
  - destruct (tget ts n) as [t|] eqn:E; simpl; [|reflexivity]. rewrite tget_tput.
    destruct (bytes_eqb name n) eqn:En; [|reflexivity].
    apply bytes_eqb_eq in En. subst. rewrite E. reflexivity.
  - destruct (tget ts n) as [t|] eqn:E; simpl; [|reflexivity]. rewrite tget_tput.
    destruct (bytes_eqb name n) eqn:En; [|reflexivity].
    apply bytes_eqb_eq in En. subst. rewrite E. reflexivity.
Qed.

Lemma step_upsert_lookup : forall c ts n r keys name k, keys_of ts n = Some keys ->
  lookup_in (fst (M_step c ts (OUpsert n r))) name k =
  if bytes_eqb name n && tuple_eqb (row_key keys r) k then Some r else lookup_in ts name k.
Proof.
  intros c ts n r keys name k Hk. unfold keys_of in Hk. unfold lookup_in. simpl.
  destruct (tget ts n) as [t|] eqn:E; simpl in Hk; [|discriminate]. inversion Hk; subst. simpl.
  rewrite tget_tput. destruct (bytes_eqb name n) eqn:En; simpl; [|reflexivity].
  apply bytes_eqb_eq in En. subst. rewrite E. apply M_lookup_sset.
Qed.
Lemma step_delete_lookup : forall c ts n dk name k, keys_of ts n <> None ->
  lookup_in (fst (M_step c ts (ODelete n dk))) name k =
  if bytes_eqb name n && tuple_eqb (dkey_tuple dk) k then None else lookup_in ts name k.
Proof.
  intros c ts n dk name k Hk. unfold keys_of in Hk. unfold lookup_in. simpl.
  destruct (tget ts n) as [t|] eqn:E; simpl in Hk; [|congruence]. simpl.
  rewrite tget_tput. destruct (bytes_eqb name n) eqn:En; simpl; [|reflexivity].
  apply bytes_eqb_eq in En. subst. rewrite E. apply M_lookup_sremove.
Qed.

(* last write wins: the effect of a history on what key k sees in table [name] *)
Fixpoint hist_lookup (keys : list bytes) (name : bytes) (k : list kv) (cur : option row) (ops : list op) : option row :=
  match ops with
  | [] => cur
  | OUpsert n r :: ops' =>
      hist_lookup keys name k (if bytes_eqb name n && tuple_eqb (row_key keys r) k then Some r else cur) ops'
  | ODelete n dk :: ops' =>
      hist_lookup keys name k (if bytes_eqb name n && tuple_eqb (dkey_tuple dk) k then None else cur) ops'
  | _ :: ops' => hist_lookup keys name k cur ops'
  end.

Theorem read_your_writes : forall c ops ts name keys k, keys_of ts name = Some keys ->
  lookup_in (M_final c ts ops) name k = hist_lookup keys name k (lookup_in ts name k) ops.
Proof.
  intros c ops. induction ops as [|o ops IH]; intros ts name keys k Hk; simpl; [reflexivity|].
  assert (Hk' : keys_of (fst (M_step c ts o)) name = Some keys) by (rewrite step_keys; exact Hk).
  rewrite (IH _ _ _ _ Hk'). destruct o as [r|r|n r|n dk]; try reflexivity.
  - destruct (bytes_eqb name n) eqn:En.
    + apply bytes_eqb_eq in En. subst n. rewrite (step_upsert_lookup c ts name r keys name k Hk).
      rewrite bytes_eqb_refl. reflexivity.
    + simpl. f_equal. unfold lookup_in. simpl. destruct (tget ts n) as [t|]; simpl; [|reflexivity].
      rewrite tget_tput, En. reflexivity.
  - destruct (bytes_eqb name n) eqn:En.
    + apply bytes_eqb_eq in En. subst n. rewrite (step_delete_lookup c ts name dk name k); [|congruence].
      rewrite bytes_eqb_refl. reflexivity.
    + simpl. f_equal. unfold lookup_in. simpl. destruct (tget ts n) as [t|]; simpl; [|reflexivity].
      rewrite tget_tput, En. reflexivity.
Qed.

(* results already produced do not depend on what happens later; later rows see exactly the state left
   by the earlier operations *)
Lemma run_app : forall c ops1 ops2 ts,
  M_run c ts (ops1 ++ ops2) = M_run c ts ops1 ++ M_run c (M_final c ts ops1) ops2.
Proof.
  intros c ops1. induction ops1 as [|o ops1 IH]; intros ops2 ts; simpl; [reflexivity|].
  destruct (M_step c ts o) as [ts' x] eqn:E. simpl. rewrite IH. reflexivity.
Qed.

(* ------------------------------------------------------------------ INNER / LEFT, alias binding *)
Definition base_map (c : cfg) (d : row) : wmap :=
  match c_src_alias c with Some a => wset a (WR d) (copy_row d) | None => copy_row d end.
Definition stream_key (j : jcfg) (d : row) : list kv := map (fun p => getnil d (fst p)) (j_pairs j).

Theorem inner_left_one : forall c ts d j, c_joins c = [j] -> keys_of ts (j_table j) <> None ->
  enrich bytes bytes_eqb encodeKey c ts d =
  match lookup_in ts (j_table j) (stream_key j d) with
  | Some r => ERow (wset (j_alias j) (WR r) (base_map c d))
  | None => if j_left j then ERow (wset (j_alias j) (WR []) (base_map c d)) else EDrop
  end.
Proof.
  intros c ts d j Hj Hk. unfold enrich, lookup_in, keys_of, base_map, stream_key in *. rewrite Hj. simpl.
  destruct (tget ts (j_table j)) as [t|]; [|simpl in Hk; congruence].
  destruct (M_slookup _ (t_idx t)); [reflexivity|]. destruct (j_left j); reflexivity.
Qed.

Lemma wget_wset_same : forall a v w, wget (wset a v w) a = Some v.
Proof.
  intros a v w. induction w as [|[g x] w IH]; simpl.
  - rewrite bytes_eqb_refl. reflexivity.
  - destruct (bytes_eqb g a) eqn:E; simpl; rewrite E; [reflexivity|exact IH].
Qed.
Lemma wget_wset_other : forall a b v w, bytes_eqb a b = false -> wget (wset a v w) b = wget w b.
Proof.
  intros a b v w H. induction w as [|[g x] w IH]; simpl.
  - rewrite H. reflexivity.
  - destruct (bytes_eqb g a) eqn:E; simpl.
    + destruct (bytes_eqb g b) eqn:E2; [|reflexivity].
      exfalso. rewrite bytes_eqb_sym in E. pose proof (bytes_eqb_trans _ _ _ E E2). congruence.
    + destruct (bytes_eqb g b); [reflexivity|exact IH].
Qed.
(* "alias.col" reads the column of the bound table row; NULL for the empty row of an unmatched LEFT JOIN *)
Lemma alias_column : forall a r w col, wpath (wset a (WR r) w) (PQual a col) = getnil r col.
Proof. intros. unfold wpath. rewrite wget_wset_same. reflexivity. Qed.
Lemma alias_column_left_null : forall a w col, wpath (wset a (WR []) w) (PQual a col) = KNull.
Proof. intros. rewrite alias_column. reflexivity. Qed.

(* composite keys match only when every component matches *)
Lemma tuple_eqb_Forall2 : forall a b, tuple_eqb a b = true <-> Forall2 (fun x y => key_eqb x y = true) a b.
Proof.
  induction a as [|x a IH]; intros [|y b]; simpl; split; intros H; try discriminate; try constructor;
    try (inversion H; fail).
  - apply andb_prop in H. apply H.
  - apply andb_prop in H. apply IH. apply H.
  - inversion H; subst. rewrite H3. apply IH in H5. rewrite H5. reflexivity.
Qed.

(* the encoder as written before the fix was not injective: F6 *)
Definition f6_a : list kv := [KStr [120]%N; KStr [121; 31; 115; 58; 122]%N].       (* ("x", "y\x1fs:z") *)
Definition f6_b : list kv := [KStr [120; 31; 115; 58; 121]%N; KStr [122]%N].       (* ("x\x1fs:y", "z") *)
Lemma asis_collision : encodeKey_asis f6_a = encodeKey_asis f6_b /\ tuple_eqb f6_a f6_b = false.
Proof. split; reflexivity. Qed.

(* ------------------------------------------------------------------ the JOIN clause as written *)
(* a field qualified by the table's alias reads the bare column; an un-aliased table is addressed by its
   own name; likewise the stream alias; a bare name is itself *)
Lemma strip_alias_table : forall sa ta f q, f_qual f = Some q -> bytes_eqb q ta = true ->
  strip_alias sa ta f = f_name f.
Proof. intros sa ta f q Hq E. unfold strip_alias. rewrite Hq, E, Bool.orb_true_r. reflexivity. Qed.
Lemma strip_alias_unaliased : forall sa j f, jt_alias j = None -> f_qual f = Some (jt_table j) ->
  strip_alias sa (eff_alias j) f = f_name f.
Proof.
  intros sa j f Ha Hq. apply (strip_alias_table sa _ f (jt_table j) Hq).
  unfold eff_alias. rewrite Ha. apply bytes_eqb_refl.
Qed.
Lemma strip_alias_aliased : forall sa j a f, jt_alias j = Some a -> f_qual f = Some a ->
  strip_alias sa (eff_alias j) f = f_name f.
Proof.
  intros sa j a f Ha Hq. apply (strip_alias_table sa _ f a Hq).
  unfold eff_alias. rewrite Ha. apply bytes_eqb_refl.
Qed.
Lemma strip_alias_stream : forall s ta f, f_qual f = Some s -> strip_alias (Some s) ta f = f_name f.
Proof. intros s ta f Hq. unfold strip_alias. rewrite Hq. simpl. rewrite bytes_eqb_refl. reflexivity. Qed.
Lemma strip_alias_bare : forall sa ta f, f_qual f = None -> strip_alias sa ta f = f_name f.
Proof. intros sa ta f Hq. unfold strip_alias. rewrite Hq. reflexivity. Qed.

(* the key RegisterTable derives for "JOIN t ON k = t.a" (no alias) and for "JOIN t m ON k = m.a" is [a] *)
Lemma derived_key_single : forall sa j l r, jt_on j = [(l, r)] ->
  f_qual r = Some (eff_alias j) ->
  join_key_fields [parse_join_code sa j] (jt_table j) = Some [f_name r].
Proof.
  intros sa j l r Hon Hq. cbn [join_key_fields parse_join_code j_table j_pairs]. rewrite bytes_eqb_refl. rewrite Hon.
  cbn [map]. unfold on_pair_code.
  (* the table-side field is r in both orientations: it carries the table's qualifier *)
  assert (Hr : strip_alias sa (eff_alias j) r = f_name r) by exact (strip_alias_table sa _ r _ Hq (bytes_eqb_refl _)).
  destruct (swapped sa (eff_alias j) (l, r)) eqn:Es; cbn [on_pair_positional fst snd].
  - (* turned around only if r is not on the table side, i.e. its qualifier is also the stream alias:
       then l is read as the table field; l must carry the table qualifier too *)
    exfalso. unfold swapped, table_side, stream_side in Es. cbn [fst snd] in Es. rewrite Hq in Es.
    rewrite bytes_eqb_refl in Es. cbn [andb negb] in Es.
    destruct (qual_is (eff_alias j) sa) eqn:Eq; cbn [andb negb orb] in Es.
    + rewrite Bool.orb_false_r in Es. destruct (f_qual l) as [ql|]; [|discriminate].
      destruct (bytes_eqb ql (eff_alias j)) eqn:E1; cbn [andb] in Es; [|discriminate].
      apply bytes_eqb_eq in E1. subst ql. rewrite Eq in Es. discriminate.
    + rewrite Bool.andb_false_r in Es. discriminate.
  - rewrite Hr. reflexivity.
Qed.

Lemma on_pair_spec_oriented : forall sa ta p, swapped sa ta p = false -> on_pair_spec sa ta p = on_pair_code sa ta p.
Proof. intros sa ta p H. reflexivity. Qed.

(* the repaired code reads the clause by its meaning, whatever the orientation *)
Lemma parse_spec_code : forall q, parse_spec q = parse_code q.
Proof. intros q. reflexivity. Qed.

Lemma parse_spec_oriented : forall q, well_oriented q = true -> parse_spec q = parse_code q.
Proof. intros q _. apply parse_spec_code. Qed.

(* the refinement from the SQL text on: when every ON equality is written stream = table (or carries no
   deciding qualifier), the code-level model of the whole case -- parse, derive the keys, register, run
   -- returns exactly the outputs of the abstract table under the meaning of the clause *)
Theorem refinement_sql : forall q regs ops, well_oriented q = true ->
  model_run_sql q regs ops = spec_run_sql q regs ops.
Proof.
  intros q regs ops H. unfold model_run_sql, spec_run_sql. rewrite (parse_spec_oriented q H). apply refinement.
Qed.

Theorem refinement_sql_all : forall q regs ops, model_run_sql q regs ops = spec_run_sql q regs ops.
Proof. intros q regs ops. unfold model_run_sql, spec_run_sql. rewrite (parse_spec_code q). apply refinement. Qed.

(* "=" is symmetric in the meaning: a clause written table = stream means what stream = table means *)
Lemma on_pair_spec_sym : forall sa ta a b, swapped sa ta (a, b) = true ->
  on_pair_spec sa ta (a, b) = on_pair_spec sa ta (b, a).
Proof.
  intros sa ta a b H. unfold on_pair_spec. rewrite H.
  assert (Hs : swapped sa ta (b, a) = false).
  { unfold swapped, table_side, stream_side in *. simpl in *.
    destruct (f_qual a) as [qa|]; destruct (f_qual b) as [qb|]; simpl in *; try discriminate;
      repeat match goal with
             | H : context [bytes_eqb ?x ta] |- _ => destruct (bytes_eqb x ta)
             | H : context [qual_is ?x sa] |- _ => destruct (qual_is x sa)
             end; simpl in *; try discriminate; try reflexivity. }
  rewrite Hs. reflexivity.
Qed.

(* the code AS FOUND was positional: "JOIN t m ON m.a = k" takes a for the stream field and k for the
   table key. Witness: table t = [{a:1, v:7}], key derived from ON; the stream row {k:1} must be
   enriched with v = 7 and {k:2} dropped; the code indexes the table on the column "k" (every row
   gets the key NULL) and reads the stream key from the column "a" (NULL), so BOTH rows are enriched *)
Definition sw_t : bytes := [116]%N.
Definition sw_m : bytes := [109]%N.
Definition sw_a : bytes := [97]%N.
Definition sw_k : bytes := [107]%N.
Definition sw_v : bytes := [118]%N.
Definition sw_q : qtext :=
  {| q_src_alias := None;
     q_joins := [{| jt_table := sw_t; jt_left := false; jt_alias := Some sw_m;
                    jt_on := [({| f_qual := Some sw_m; f_name := sw_a |}, {| f_qual := None; f_name := sw_k |})] |}] |}.
Definition sw_regs : list reg_call := [(sw_t, None, [[(sw_a, KInt 1); (sw_v, KInt 7)]])].
Definition sw_ops : list op := [OEmitSync [(sw_k, KInt 1)]; OEmitSync [(sw_k, KInt 2)]].
Lemma swapped_on_refuted :
  well_oriented sw_q = false /\
  spec_run_sql sw_q sw_regs sw_ops =
    [OutE (ERow [(sw_k, WV (KInt 1)); (sw_m, WR [(sw_a, KInt 1); (sw_v, KInt 7)])]); OutE EDrop] /\
  model_run_sql_asfound sw_q sw_regs sw_ops =
    [OutE (ERow [(sw_k, WV (KInt 1)); (sw_m, WR [(sw_a, KInt 1); (sw_v, KInt 7)])]);
     OutE (ERow [(sw_k, WV (KInt 2)); (sw_m, WR [(sw_a, KInt 1); (sw_v, KInt 7)])])] /\
  model_run_sql sw_q sw_regs sw_ops = spec_run_sql sw_q sw_regs sw_ops.
Proof. repeat split; vm_compute; reflexivity. Qed.

(* ------------------------------------------------------------------ concurrent writers *)
(* Each Upsert / Delete / Lookup is one atomic step, so a concurrent execution of two goroutines is an
   interleaving (merge) of their operation sequences. What a key sees depends only on the writes to an
   equal key: a goroutine whose keys no other goroutine writes reads its own writes, whatever the others
   do in between (a lost update contradicts this). *)
Definition touches (keys : list bytes) (name : bytes) (k : list kv) (o : op) : bool :=
  match o with
  | OUpsert n r => bytes_eqb name n && tuple_eqb (row_key keys r) k
  | ODelete n dk => bytes_eqb name n && tuple_eqb (dkey_tuple dk) k
  | _ => false
  end.

Lemma hist_lookup_filter : forall keys name k ops cur,
  hist_lookup keys name k cur ops = hist_lookup keys name k cur (filter (touches keys name k) ops).
Proof.
  intros keys name k ops. induction ops as [|o ops IH]; intros cur; simpl; [reflexivity|].
  destruct o as [r|r|n r|n dk]; simpl; try apply IH.
  - destruct (bytes_eqb name n && tuple_eqb (row_key keys r) k) eqn:E; simpl; [rewrite E|]; apply IH.
  - destruct (bytes_eqb name n && tuple_eqb (dkey_tuple dk) k) eqn:E; simpl; [rewrite E|]; apply IH.
Qed.

Inductive merge : list op -> list op -> list op -> Prop :=
| merge_nil : merge [] [] []
| merge_l : forall o a b c, merge a b c -> merge (o :: a) b (o :: c)
| merge_r : forall o a b c, merge a b c -> merge a (o :: b) (o :: c).

Lemma merge_filter_silent : forall (P : op -> bool) a b c, merge a b c -> filter P b = [] -> filter P c = filter P a.
Proof.
  intros P a b c M. induction M as [|o a b c M IH|o a b c M IH]; intros Hb; simpl in *.
  - reflexivity.
  - rewrite (IH Hb). reflexivity.
  - destruct (P o); [discriminate|]. apply IH. exact Hb.
Qed.

Lemma merge_app : forall a b, merge a b (a ++ b).
Proof.
  induction a as [|o a IH]; intros b; simpl.
  - induction b as [|o b IHb]; [constructor|]. apply merge_r. exact IHb.
  - apply merge_l. apply IH.
Qed.

Theorem concurrent_writers : forall c (ts : tables bytes) name keys k a b ops,
  keys_of ts name = Some keys -> merge a b ops -> filter (touches keys name k) b = [] ->
  lookup_in (M_final c ts ops) name k = lookup_in (M_final c ts a) name k.
Proof.
  intros c ts name keys k a b ops Hk M Hb.
  rewrite (read_your_writes c ops ts name keys k Hk), (read_your_writes c a ts name keys k Hk).
  rewrite hist_lookup_filter, (hist_lookup_filter keys name k a).
  rewrite (merge_filter_silent _ a b ops M Hb). reflexivity.
Qed.

(* ------------------------------------------------------------------ histories with re-registration *)
(* RegisterTable / RegisterTableSource under a name the store already holds replaces the source. *)
Notation M_hstep := (hstep bytes bytes_eqb encodeKey).
Notation M_hrun := (hrun bytes bytes_eqb encodeKey).
Notation M_hfinal := (hfinal bytes bytes_eqb encodeKey).
Notation M_register := (register bytes bytes_eqb encodeKey).

Lemma hstep_enc : forall c ts h,
  M_hstep c (enc_tables ts) h =
  (enc_tables (fst (hstep (list kv) tuple_eqb id_key c ts h)), snd (hstep (list kv) tuple_eqb id_key c ts h)).
Proof.
  intros c ts h. destruct h as [o|name keys rows|o]; simpl.
  - apply step_enc.
  - rewrite register_enc. reflexivity.
  - reflexivity.
Qed.
Lemma hrun_enc : forall c hs ts,
  M_hrun c (enc_tables ts) hs = hrun (list kv) tuple_eqb id_key c ts hs.
Proof.
  intros c hs. induction hs as [|h hs IH]; intros ts; simpl; [reflexivity|].
  rewrite hstep_enc. destruct (hstep (list kv) tuple_eqb id_key c ts h) as [ts' x]. simpl. rewrite IH. reflexivity.
Qed.
Theorem hrefinement : forall c regs hs, model_hrun c regs hs = spec_hrun c regs hs.
Proof. intros. unfold model_hrun, spec_hrun. rewrite register_all_enc. apply hrun_enc. Qed.
Theorem hrefinement_sql : forall q regs hs, model_hrun_sql q regs hs = spec_hrun_sql q regs hs.
Proof. intros q regs hs. unfold model_hrun_sql, spec_hrun_sql. rewrite (parse_spec_code q). apply hrefinement. Qed.

(* a history without registrations is a history of the old kind *)
Lemma hrun_ops : forall c ops ts, M_hrun c ts (map HOp ops) = M_run c ts ops.
Proof.
  intros c ops. induction ops as [|o ops IH]; intros ts; simpl; [reflexivity|].
  destruct (M_step c ts o) as [ts' x]. rewrite IH. reflexivity.
Qed.
Lemma model_hrun_ops : forall c regs ops, model_hrun c regs (map HOp ops) = model_run c regs ops.
Proof. intros. apply hrun_ops. Qed.

Lemma hrun_app : forall c hs1 hs2 ts,
  M_hrun c ts (hs1 ++ hs2) = M_hrun c ts hs1 ++ M_hrun c (M_hfinal c ts hs1) hs2.
Proof.
  intros c hs1. induction hs1 as [|h hs1 IH]; intros hs2 ts; simpl; [reflexivity|].
  destruct (M_hstep c ts h) as [ts' x] eqn:E. simpl. rewrite IH. reflexivity.
Qed.

(* what a row with join key k sees in table [name], together with the key fields the table is indexed by;
   None: no table of that name *)
Definition vis := option (list bytes * option row).
Definition view (ts : tables bytes) (name : bytes) (k : list kv) : vis :=
  match tget ts name with Some t => Some (t_keys t, M_slookup (encodeKey k) (t_idx t)) | None => None end.
(* the contents of a freshly registered table: the rows upserted in order into the empty table -- the
   last row with an equal key wins, a key no row has sees nothing. Nothing of an earlier table survives. *)
Definition reg_view (keys : list bytes) (name : bytes) (k : list kv) (rows : list row) : option row :=
  hist_lookup keys name k None (map (OUpsert name) rows).
Definition vis_op (name : bytes) (k : list kv) (v : vis) (o : op) : vis :=
  match v with
  | Some (keys, cur) => Some (keys, hist_lookup keys name k cur [o])
  | None => None
  end.
Fixpoint hview (name : bytes) (k : list kv) (v : vis) (hs : list hop) : vis :=
  match hs with
  | [] => v
  | HOp o :: hs' => hview name k (vis_op name k v o) hs'
  | HReg n keys rows :: hs' =>
      hview name k (if bytes_eqb name n then Some (keys, reg_view keys name k rows) else v) hs'
  | HDetached _ :: hs' => hview name k v hs'
  end.

Lemma fold_upsert_keys : forall rows (t : table bytes), t_keys (fold_left M_upsert rows t) = t_keys t.
Proof. induction rows as [|r rows IH]; intros t; simpl; [reflexivity|]. rewrite IH. reflexivity. Qed.

Lemma fold_upsert_lookup : forall name k rows (t : table bytes),
  M_slookup (encodeKey k) (t_idx (fold_left M_upsert rows t)) =
  hist_lookup (t_keys t) name k (M_slookup (encodeKey k) (t_idx t)) (map (OUpsert name) rows).
Proof.
  intros name k rows. induction rows as [|r rows IH]; intros t; [reflexivity|].
  cbn [fold_left map]. rewrite IH. cbn [hist_lookup]. rewrite bytes_eqb_refl. cbn [andb].
  change (t_keys (M_upsert t r)) with (t_keys t).
  change (t_idx (M_upsert t r)) with (sset bytes_eqb (encodeKey (row_key (t_keys t) r)) r (t_idx t)).
  rewrite M_lookup_sset. reflexivity.
Qed.

(* registration replaces: the table of that name is exactly the new rows under the new key fields,
   whatever was registered under the name before; every other table is untouched *)
Lemma view_register : forall ts n keys rows name k,
  view (M_register ts n keys rows) name k =
  if bytes_eqb name n then Some (keys, reg_view keys name k rows) else view ts name k.
Proof.
  intros ts n keys rows name k. unfold view, register. rewrite tget_tput.
  destruct (bytes_eqb name n) eqn:E; [|reflexivity].
  rewrite fold_upsert_keys. simpl. rewrite (fold_upsert_lookup name). reflexivity.
Qed.

Lemma view_step : forall c ts o name k, view (fst (M_step c ts o)) name k = vis_op name k (view ts name k) o.
Proof.
  intros c ts o name k. unfold view, vis_op.
  destruct (tget ts name) as [t|] eqn:E.
  - assert (Hk : keys_of ts name = Some (t_keys t)) by (unfold keys_of; rewrite E; reflexivity).
    pose proof (step_keys c ts o name) as Hk'. rewrite Hk in Hk'. unfold keys_of in Hk'.
    pose proof (read_your_writes c [o] ts name (t_keys t) k Hk) as H. unfold lookup_in in H.
    cbn [final] in H. rewrite E in H.
    destruct (tget (fst (M_step c ts o)) name) as [t'|]; cbn [option_map] in Hk'; [|discriminate].
    injection Hk' as Hkeys. rewrite H, Hkeys. reflexivity.
  - pose proof (step_keys c ts o name) as Hk'. unfold keys_of in Hk'. rewrite E in Hk'. simpl in Hk'.
    destruct (tget (fst (M_step c ts o)) name) as [t'|]; simpl in Hk'; [discriminate|reflexivity].
Qed.

(* read-your-writes over every history with re-registrations: what key k sees in table [name] at the end
   is decided by the LAST registration of the name and the Upserts / Deletes after it (last write wins);
   registrations of other names, Emits and writes through detached handles change nothing *)
Theorem h_read_your_writes : forall c hs ts name k,
  view (M_hfinal c ts hs) name k = hview name k (view ts name k) hs.
Proof.
  intros c hs. induction hs as [|h hs IH]; intros ts name k; simpl; [reflexivity|].
  rewrite IH. destruct h as [o|n keys rows|o]; simpl.
  - rewrite view_step. reflexivity.
  - rewrite view_register. reflexivity.
  - reflexivity.
Qed.

(* hview forgets everything before the last registration of the name *)
Lemma hview_after_register : forall name k v v' n keys rows hs, bytes_eqb name n = true ->
  hview name k v (HReg n keys rows :: hs) = hview name k v' (HReg n keys rows :: hs).
Proof. intros name k v v' n keys rows hs H. simpl. rewrite H. reflexivity. Qed.

(* the statement the seeded "sources cached per table-set epoch" change breaks: whatever happened before
   (tables registered, rows processed, updates), after RegisterTable returned the state a row / an Upsert
   finds under the name is that of a store in which ONLY this registration ever happened *)
Theorem register_forgets : forall c hs0 hs ts ts' n keys rows k,
  view (M_hfinal c ts (hs0 ++ HReg n keys rows :: hs)) n k =
  view (M_hfinal c ts' (HReg n keys rows :: hs)) n k.
Proof.
  intros c hs0 hs ts ts' n keys rows k.
  assert (Happ : forall a b t, M_hfinal c t (a ++ b) = M_hfinal c (M_hfinal c t a) b).
  { induction a as [|h a IHa]; intros b t; simpl; [reflexivity|apply IHa]. }
  rewrite Happ. rewrite !h_read_your_writes.
  apply hview_after_register. apply bytes_eqb_refl.
Qed.

(* witness: INNER JOIN t m ON k = m.a. t = [{a:1,v:7}]; a row with k = 1 sees v = 7; t registered again
   with [{a:1,v:8},{a:2,v:9}]: k = 1 sees v = 8, k = 2 sees v = 9; Upsert {a:1,v:10}: k = 1 sees v = 10;
   a Delete through the replaced handle changes nothing; t registered again keyed by v: k = 9 sees a = 2 *)
Definition rr_cfg : cfg :=
  {| c_src_alias := None; c_joins := [{| j_table := sw_t; j_left := false; j_alias := sw_m; j_pairs := [(sw_k, sw_a)] |}] |}.
Definition rr_hs : list hop :=
  [HOp (OEmitSync [(sw_k, KInt 1)]);
   HReg sw_t [sw_a] [[(sw_a, KInt 1); (sw_v, KInt 8)]; [(sw_a, KInt 2); (sw_v, KInt 9)]];
   HOp (OEmitSync [(sw_k, KInt 1)]); HOp (OEmitSync [(sw_k, KInt 2)]);
   HOp (OUpsert sw_t [(sw_a, KInt 1); (sw_v, KInt 10)]); HDetached (ODelete sw_t (DSingle (KInt 1)));
   HOp (OEmitSync [(sw_k, KInt 1)]);
   HReg sw_t [sw_v] [[(sw_a, KInt 2); (sw_v, KInt 9)]];
   HOp (OEmitSync [(sw_k, KInt 9)]); HOp (OEmitSync [(sw_k, KInt 2)])].
Lemma rereg_example :
  model_hrun rr_cfg [(sw_t, [sw_a], [[(sw_a, KInt 1); (sw_v, KInt 7)]])] rr_hs =
  [OutE (ERow [(sw_k, WV (KInt 1)); (sw_m, WR [(sw_a, KInt 1); (sw_v, KInt 7)])]);
   OutG true;
   OutE (ERow [(sw_k, WV (KInt 1)); (sw_m, WR [(sw_a, KInt 1); (sw_v, KInt 8)])]);
   OutE (ERow [(sw_k, WV (KInt 2)); (sw_m, WR [(sw_a, KInt 2); (sw_v, KInt 9)])]);
   OutU true; OutD;
   OutE (ERow [(sw_k, WV (KInt 1)); (sw_m, WR [(sw_a, KInt 1); (sw_v, KInt 10)])]);
   OutG true;
   OutE (ERow [(sw_k, WV (KInt 9)); (sw_m, WR [(sw_a, KInt 2); (sw_v, KInt 9)])]);
   OutE EDrop].
Proof. vm_compute. reflexivity. Qed.

(* ------------------------------------------------------------------ WHERE over stream columns of a JOIN query *)
(* the joins only bind their own aliases: every other key of the working map is what it was before *)
Lemma enrich_joins_wget_other : forall K keq keyf (ts : tables K) d js w w' k,
  enrich_joins K keq keyf ts d js w = ERow w' ->
  forallb (fun j => negb (bytes_eqb (j_alias j) k)) js = true ->
  wget w' k = wget w k.
Proof.
  intros K keq keyf ts d js. induction js as [|j js IH]; intros w w' k H Hn; simpl in *.
  - injection H as <-. reflexivity.
  - apply andb_prop in Hn. destruct Hn as [Hj Hn]. apply Bool.negb_true_iff in Hj.
    destruct (tget ts (j_table j)) as [t|]; [|discriminate].
    destruct (slookup keq _ (t_idx t)) as [r|].
    + rewrite (IH _ _ _ H Hn). apply wget_wset_other. exact Hj.
    + destruct (j_left j); [|discriminate].
      rewrite (IH _ _ _ H Hn). apply wget_wset_other. exact Hj.
Qed.
Lemma wget_copy_row : forall d col,
  wget (copy_row d) col = match get d col with Some v => Some (WV v) | None => None end.
Proof.
  intros d col. induction d as [|[g v] d IH]; simpl; [reflexivity|].
  destruct (bytes_eqb g col); [reflexivity|exact IH].
Qed.
(* FROM stream s JOIN ...: "s.col" in WHERE / SELECT reads the stream row's column on the ENRICHED row of
   every kept row, whatever the tables hold (the FROM alias exists on the enriched row only: a filter that
   runs on the raw row sees NULL there) *)
Theorem where_from_alias_column : forall K keq keyf c (ts : tables K) d w s col,
  c_joins c <> [] -> c_src_alias c = Some s ->
  forallb (fun j => negb (bytes_eqb (j_alias j) s)) (c_joins c) = true ->
  enrich K keq keyf c ts d = ERow w ->
  wpath w (PQual s col) = getnil d col.
Proof.
  intros K keq keyf c ts d w s col Hj Hs Hn H. unfold enrich in H. rewrite Hs in H.
  destruct (c_joins c) as [|j js] eqn:Ej; [congruence|].
  unfold wpath. rewrite (enrich_joins_wget_other _ _ _ _ _ _ _ _ _ H Hn), wget_wset_same. reflexivity.
Qed.
(* ... and the bare column name reads the same value, unless the name is one of the aliases *)
Theorem where_bare_column : forall K keq keyf c (ts : tables K) d w col,
  c_joins c <> [] ->
  match c_src_alias c with Some s => bytes_eqb s col = false | None => True end ->
  forallb (fun j => negb (bytes_eqb (j_alias j) col)) (c_joins c) = true ->
  enrich K keq keyf c ts d = ERow w ->
  wpath w (PCol col) = getnil d col.
Proof.
  intros K keq keyf c ts d w col Hj Hs Hn H. unfold enrich in H.
  destruct (c_joins c) as [|j js] eqn:Ej; [congruence|].
  unfold wpath, getnil. rewrite (enrich_joins_wget_other _ _ _ _ _ _ _ _ _ H Hn).
  destruct (c_src_alias c) as [s|].
  - rewrite (wget_wset_other _ _ _ _ Hs), wget_copy_row. destruct (get d col); reflexivity.
  - rewrite wget_copy_row. destruct (get d col); reflexivity.
Qed.

(* ------------------------------------------------------------------ rows waiting in an open window *)
Import JoinS.
Lemma window_rows_app : forall a g v s xs ys,
  window_rows a g v s (xs ++ ys) = window_rows a g v s xs ++ window_rows a g v s ys.
Proof. intros. unfold window_rows. apply flat_map_app. Qed.
(* the rows a history puts into the window, with the joined values they carry: those of the earlier part
   of the history, followed by those of the rest run on the state the earlier part left *)
Theorem window_rows_history : forall a g v s c hs1 hs2 (ts : tables bytes),
  window_rows a g v s (M_hrun c ts (hs1 ++ hs2)) =
  window_rows a g v s (M_hrun c ts hs1) ++ window_rows a g v s (M_hrun c (M_hfinal c ts hs1) hs2).
Proof. intros. rewrite hrun_app. apply window_rows_app. Qed.
(* the first n rows of the window -- group key, aggregated values -- are fixed once they are processed:
   no Upsert / Delete / registration / row that comes later changes them *)
Theorem window_contents_fixed : forall a g v s c hs1 hs2 (ts : tables bytes) n,
  (n <= length (window_rows a g v s (M_hrun c ts hs1)))%nat ->
  firstn n (window_rows a g v s (M_hrun c ts (hs1 ++ hs2))) = firstn n (window_rows a g v s (M_hrun c ts hs1)).
Proof.
  intros a g v s c hs1 hs2 ts n Hn. rewrite window_rows_history, firstn_app.
  replace (n - length (window_rows a g v s (M_hrun c ts hs1)))%nat with O by lia.
  simpl. apply app_nil_r.
Qed.
