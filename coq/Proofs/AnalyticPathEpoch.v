(* C14 — PARTITION BY paths into tree rows, on every history (partitions above the cap included). *)
From SV Require Import Model.Analytic Model.AnalyticMulti Spec.AnalyticSpec Spec.AnalyticEpochSpec
  Proofs.AnalyticField Proofs.AnalyticGated Proofs.AnalyticEpoch.
From SV Require Import Model.AnalyticPath Spec.AnalyticPathSpec Proofs.AnalyticPath.

(* tree rows: the model of EmitSync is the specification of all histories over the code's resolution, and the
   declarative one (value at the path, NULL when it leads nowhere) when no row takes the suffix fallback *)
Theorem nested_msync_xspec : forall q h, mquery_wf q = true -> Forall nrow_ok h -> 1 <= mq_cap q ->
  an_nmsync q h = an_nxmspec true q h.
Proof.
  intros q h Hwf Hh Hcap. unfold an_nmsync, an_nxmspec.
  apply msync_xspec; [exact Hwf|apply nflat_rows_ok; exact Hh|exact Hcap].
Qed.

Theorem nested_msync_xstrict : forall q h, mquery_wf q = true -> Forall nrow_ok h -> no_fallback q h ->
  1 <= mq_cap q -> an_nmsync q h = an_nxmspec false q h.
Proof.
  intros q h Hwf Hh Hnf Hcap. unfold an_nxmspec. rewrite <- (nflat_no_hit q h Hnf).
  apply nested_msync_xspec; assumption.
Qed.

