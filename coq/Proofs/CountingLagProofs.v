(* Proofs about Model/CountingLag.v: for every threshold, every capacity of the window's output channel
   and EVERY schedule of the window goroutine against the consumer goroutine, the batches the consumer
   receives followed by the batches still waiting are the batches the window cut (cw_steps on the Add
   sequence) with some of them removed, whole, by the overflow policy -- never merged, never reordered --
   and with nothing removed as long as the channel never overflowed. *)
From Coq Require Import Lia List.
Import ListNotations.
From SV Require Import Model.GroupKey Model.Counting Model.CountingLag Spec.GroupSpec Proofs.GroupKeyProofs Proofs.CountingProofs.

(* ---- sublist ---------------------------------------------------------------------------------- *)
Lemma sublist_refl : forall (A : Type) (l : list A), sublist l l.
Proof. induction l; constructor; assumption. Qed.

Lemma sublist_app_r : forall (A : Type) (a b c : list A), sublist a b -> sublist a (b ++ c).
Proof. induction 1; simpl; constructor; assumption. Qed.

Lemma sublist_snoc : forall (A : Type) (a b : list A) x, sublist a b -> sublist (a ++ [x]) (b ++ [x]).
Proof.
  induction 1 as [l| |]; simpl.
  - induction l as [|y l IH]; simpl; [apply sublist_refl|constructor; exact IH].
  - constructor; assumption.
  - constructor; assumption.
Qed.

Lemma sublist_trans : forall (A : Type) (b c : list A), sublist b c -> forall a, sublist a b -> sublist a c.
Proof.
  induction 1 as [l|x b c Hbc IH|x b c Hbc IH]; intros a Hab.
  - inversion Hab; subst. constructor.
  - inversion Hab; subst.
    + constructor.
    + constructor. apply IH. assumption.
    + apply sub_skip. apply IH. assumption.
  - apply sub_skip. apply IH. assumption.
Qed.

Lemma sublist_drop_one : forall (A : Type) (t q : list A) x, sublist (t ++ q) (t ++ x :: q).
Proof.
  induction t as [|y t IH]; intros q x; simpl.
  - apply sub_skip. apply sublist_refl.
  - constructor. apply IH.
Qed.

Lemma sublist_remove : forall (A : Type) (t q b : list A) x, sublist (t ++ x :: q) b -> sublist (t ++ q) b.
Proof. intros A t q b x H. exact (sublist_trans A _ _ H _ (sublist_drop_one A t q x)). Qed.

Lemma sublist_length : forall (A : Type) (a b : list A), sublist a b -> length a <= length b.
Proof. induction 1; simpl; lia. Qed.

Lemma sublist_same_length : forall (A : Type) (a b : list A), sublist a b -> length a = length b -> a = b.
Proof.
  induction 1 as [l|x a b H IH|x a b H IH]; simpl; intro L.
  - destruct l; [reflexivity|discriminate].
  - f_equal. apply IH. lia.
  - apply sublist_length in H. lia.
Qed.

Lemma sublist_filter : forall (A : Type) (f : A -> bool) (a b : list A), sublist a b -> sublist (filter f a) (filter f b).
Proof.
  induction 1 as [l|x a b H IH|x a b H IH]; simpl.
  - constructor.
  - destruct (f x); [constructor|]; assumption.
  - destruct (f x); [apply sub_skip|]; assumption.
Qed.

Lemma sublist_map : forall (A B : Type) (f : A -> B) (a b : list A), sublist a b -> sublist (map f a) (map f b).
Proof. induction 1; simpl; constructor; assumption. Qed.

(* ---- the window over a split Add sequence ------------------------------------------------------- *)
Lemma cw_steps_app : forall key n h1 h2 st,
  cw_steps key n st (h1 ++ h2) =
  (fst (cw_steps key n (fst (cw_steps key n st h1)) h2),
   snd (cw_steps key n st h1) ++ snd (cw_steps key n (fst (cw_steps key n st h1)) h2)).
Proof.
  induction h1 as [|r h1 IH]; intros h2 st; simpl.
  - destruct (cw_steps key n st h2); reflexivity.
  - destruct (cw_add key n st r) as [st1 o1]. rewrite IH.
    destruct (cw_steps key n st1 h1) as [st2 o2]. simpl.
    rewrite app_assoc. reflexivity.
Qed.

Lemma lag_adds_app : forall a b, lag_adds (a ++ b) = lag_adds a ++ lag_adds b.
Proof.
  induction a as [|x a IH]; intro b; simpl; [reflexivity|].
  destruct x; simpl; rewrite IH; reflexivity.
Qed.

(* ---- the invariant ------------------------------------------------------------------------------ *)
Definition lag_ok (cap : nat) (s : lag_state) (B : list kbatch) : Prop :=
  sublist (lg_taken s ++ lg_queue s) B
  /\ length (lg_taken s) + length (lg_queue s) + lg_evicted s + lg_dropped s = length B
  /\ lg_sent s = length (lg_taken s) + length (lg_queue s) + lg_evicted s
  /\ length (lg_queue s) <= cap
  /\ (lg_evicted s + lg_dropped s = 0 \/ cap < length B).

Lemma lag_send_ok : forall cap s B b, lag_ok cap s B ->
  lag_ok cap (lag_send cap s b) (B ++ [b]) /\ lg_win (lag_send cap s b) = lg_win s.
Proof.
  intros cap s B b (HS & HC & HN & HQ & HZ). unfold lag_send.
  destruct (length (lg_queue s) <? cap) eqn:E.
  - apply Nat.ltb_lt in E. split; [|reflexivity]. unfold lag_ok; simpl.
    rewrite !app_length. simpl. repeat split; try lia.
    + rewrite app_assoc. apply sublist_snoc. exact HS.
  - apply Nat.ltb_ge in E. destruct (lg_queue s) as [|x q'] eqn:EQ.
    + simpl in *. split; [|reflexivity]. unfold lag_ok; simpl.
      rewrite !app_length. simpl. repeat split; try lia.
      apply sublist_app_r. exact HS.
    + simpl in *. destruct (length q' <? cap) eqn:E2.
      * split; [|reflexivity]. unfold lag_ok; simpl.
        rewrite !app_length in *. simpl in *. repeat split; try lia.
        rewrite app_assoc. apply sublist_snoc. apply sublist_remove with (x := x). exact HS.
      * apply Nat.ltb_ge in E2. lia.
Qed.

Lemma lag_sendall_ok : forall cap o s B, lag_ok cap s B ->
  lag_ok cap (fold_left (lag_send cap) o s) (B ++ o) /\ lg_win (fold_left (lag_send cap) o s) = lg_win s.
Proof.
  induction o as [|b o IH]; intros s B H; simpl.
  - rewrite app_nil_r. split; [exact H|reflexivity].
  - destruct (lag_send_ok cap s B b H) as [H1 W1].
    destruct (IH _ _ H1) as [H2 W2]. rewrite <- app_assoc in H2. simpl in H2.
    split; [exact H2|]. rewrite W2. exact W1.
Qed.

Theorem lag_invariant : forall key n cap sched,
  lg_win (lag_run key n cap sched) = fst (cw_steps key n [] (lag_adds sched))
  /\ lag_ok cap (lag_run key n cap sched) (snd (cw_steps key n [] (lag_adds sched))).
Proof.
  intros key n cap sched. induction sched as [|x sched IH] using rev_ind.
  - simpl. split; [reflexivity|]. unfold lag_ok; simpl. repeat split; try lia. constructor.
  - destruct IH as [HW HOK]. unfold lag_run in *. rewrite fold_left_app. simpl.
    set (s := fold_left (lag_do key n cap) sched lag_init) in *.
    rewrite lag_adds_app. destruct x as [r|]; simpl.
    + rewrite cw_steps_app. simpl.
      rewrite <- HW.
      destruct (cw_add key n (lg_win s) r) as [w o] eqn:EA. simpl.
      rewrite app_nil_r.
      assert (H0 : lag_ok cap (mkLag w (lg_queue s) (lg_taken s) (lg_sent s) (lg_dropped s) (lg_evicted s))
                          (snd (cw_steps key n [] (lag_adds sched)))) by exact HOK.
      destruct (lag_sendall_ok cap o _ _ H0) as [H1 W1].
      split; [rewrite W1; reflexivity|exact H1].
    + rewrite app_nil_r. destruct (lg_queue s) as [|b q] eqn:EQ.
      * split; [exact HW|exact HOK].
      * split; [exact HW|].
        destruct HOK as (HS & HC & HN & HQ & HZ). rewrite EQ in *.
        unfold lag_ok; simpl in *. rewrite !app_length in *. simpl in *.
        repeat split; try lia.
        rewrite <- app_assoc. simpl. exact HS.
Qed.

(* ---- statements ---------------------------------------------------------------------------------- *)
(* whatever the schedule and the capacity: what the consumer received, then what still waits, is the
   window's batch sequence with whole batches removed (order kept: nothing merged, nothing reordered); the
   code's counters account for every batch *)
Theorem lag_never_merges : forall key n cap sched,
  let s := lag_run key n cap sched in
  let B := snd (cw_steps key n [] (lag_adds sched)) in
  sublist (lg_taken s ++ lg_queue s) B
  /\ length (lg_taken s) + length (lg_queue s) + lg_evicted s + lg_dropped s = length B
  /\ lg_sent s = length (lg_taken s) + length (lg_queue s) + lg_evicted s
  /\ length (lg_queue s) <= cap.
Proof.
  intros key n cap sched s B. destruct (lag_invariant key n cap sched) as [_ (H1 & H2 & H3 & H4 & _)].
  repeat split; assumption.
Qed.

(* no batch removed by the overflow policy => the consumer's lag has no influence at all *)
Theorem lag_exact_without_overflow : forall key n cap sched,
  let s := lag_run key n cap sched in
  lg_evicted s = 0 -> lg_dropped s = 0 ->
  lg_taken s ++ lg_queue s = snd (cw_steps key n [] (lag_adds sched)).
Proof.
  intros key n cap sched s E D. subst s. destruct (lag_invariant key n cap sched) as [_ (H1 & H2 & _)].
  apply sublist_same_length; [exact H1|]. rewrite app_length. lia.
Qed.

(* a channel that holds all the batches of the run never overflows, whatever the schedule *)
Theorem lag_exact_within_capacity : forall key n cap sched,
  let s := lag_run key n cap sched in
  length (snd (cw_steps key n [] (lag_adds sched))) <= cap ->
  lg_evicted s = 0 /\ lg_dropped s = 0
  /\ lg_taken s ++ lg_queue s = snd (cw_steps key n [] (lag_adds sched)).
Proof.
  intros key n cap sched s L. subst s. destruct (lag_invariant key n cap sched) as [_ (H1 & H2 & _ & _ & HZ)].
  set (s := lag_run key n cap sched) in *. assert (Z0 : lg_evicted s + lg_dropped s = 0) by (destruct HZ; lia).
  repeat split; try lia.
  apply sublist_same_length; [exact H1|]. rewrite app_length. lia.
Qed.

(* per key tuple: the id lists of the batches received / waiting are N-blocks of the key's rows, in
   increasing order -- the declarative blocks of the checkers (Spec/GroupSpec.v chunks) *)
Theorem lag_blocks_per_key : forall n cap sch sched t, 1 <= n ->
  Forall (fun r => conforms sch (ktuple_of r)) (lag_adds sched) -> conforms sch t ->
  let s := lag_run cnt_key n cap sched in
  sublist (map (map krid) (kbatches_of (tuple_key s_global t) (lg_taken s ++ lg_queue s)))
          (let ids := map krid (krows_of t (lag_adds sched)) in chunks (length ids) n ids).
Proof.
  intros n cap sch sched t N HC HT s.
  rewrite <- (counting_matches_spec_blocks n sch (lag_adds sched) t N HC HT).
  apply sublist_map. unfold kbatches_of. apply sublist_map. apply sublist_filter.
  destruct (lag_invariant cnt_key n cap sched) as [_ (H1 & _)]. exact H1.
Qed.

(* ---- the code as it is: eviction is silent ------------------------------------------------------- *)
(* N = 2, a channel of 2 slots, one key; the consumer receives batch [1;2] and is held while rows 3..10
   arrive: the batches [3;4] and [5;6] are evicted by sendResult's drop-oldest branch, which increments
   sentCount for the batch that takes the slot and no counter for the batch that loses it *)
Definition lag_witness : list lag_step :=
  let row i := mkKRow i [Some (KStr [97%N])] in
  lag_episode [row 1; row 2]%Z (map row [3; 4; 5; 6; 7; 8; 9; 10]%Z) 2.

Lemma lag_eviction_uncounted :
  let s := lag_run cnt_key 2 2 lag_witness in
  lg_queue s = [] /\ lg_dropped s = 0 /\ lg_evicted s = 2 /\ lg_sent s = 5
  /\ map (fun b => map krid (snd b)) (lg_taken s) = [[1; 2]; [7; 8]; [9; 10]]%Z
  /\ lg_taken s <> snd (cw_steps cnt_key 2 [] (lag_adds lag_witness)).
Proof.
  repeat split; try reflexivity.
  intro H. apply (f_equal (@length _)) in H. vm_compute in H. discriminate.
Qed.
