(* Sliding windows: order of first firings, rows retained as long as a future interval can need
   them, every covering interval of a buffered row is delivered with the row inside. *)
From Coq Require Import Lia Arith Sorted.
From SV Require Import Model.Sliding Proofs.TumblingProofs Proofs.TumblingComplete Proofs.SlidingProofs.

Section SComplete.
  Variable c : scfg.
  Hypothesis Hslide : 0 < sslide c.
  Hypothesis Hsize : 0 < ssize c.

  Definition SInv (s : sst) : Prop :=
    (s_init s = false -> s_data s = [] /\ s_trig s = [] /\ s_adv s = false) /\
    (s_init s = true -> saligned c (s_slot s)) /\
    (s_adv s = true -> ole (s_slot s - sslide c + ssize c) (cur (s_w s))) /\
    wm_ok (s_w s) /\ (forall x, s_pend s = Some x -> ole x (cur (s_w s))).

  Lemma SInv_0 : SInv sst0.
  Proof. repeat split; cbn; try discriminate; auto; constructor. Qed.

  Lemma mkSInv s :
    (s_init s = false -> s_data s = [] /\ s_trig s = [] /\ s_adv s = false) ->
    (s_init s = true -> saligned c (s_slot s)) ->
    (s_adv s = true -> ole (s_slot s - sslide c + ssize c) (cur (s_w s))) ->
    wm_ok (s_w s) -> (forall x, s_pend s = Some x -> ole x (cur (s_w s))) -> SInv s.
  Proof. intros. repeat split; auto; try (apply H); auto. Qed.

  (* shape of the state after Add, independent of the late path taken *)
  Lemma sadd_core_shape id ts now s s' bs :
    sadd_core c id ts now s = (s', bs) ->
    s_init s' = true /\ s_w s' = update_event_time (sooo c) now ts (s_w s) /\ s_pend s' = s_pend s /\ s_adv s' = s_adv s /\
    s_slot s' = (let sl0 := if s_init s then s_slot s else align ts (sslide c) in
                 if s_init s && negb (is_late ts (update_event_time (sooo c) now ts (s_w s))) && (ts <? sl0)
                    && sinwin c (align ts (sslide c)) ts then align ts (sslide c) else sl0) /\
    (s_data s' = s_data s \/ s_data s' = s_data s ++ [(id, ts)]) /\
    Forall (fun b => b_late b = true) bs.
  Proof.
    unfold sadd_core.
    destruct (is_late ts _); [|intros [= <- <-]; cbn; repeat split; auto].
    destruct (sinwin c _ ts).
    - destruct (0 <? slateness c); [|intros [= <- <-]; cbn; repeat split; auto].
      destruct (late_updates _ _ _) as [tr bs0] eqn:E. intros [= <- <-]. cbn. repeat split; auto.
      clear - E. revert tr bs0 E. induction (s_trig s) as [|t r IH]; intros tr bs0; cbn [late_updates].
      + intros [= <- <-]. constructor.
      + destruct (late_updates _ _ r) as [r' bs']. specialize (IH _ _ eq_refl).
        destruct (in_twin t ts); intros [= <- <-]; [constructor; [reflexivity|exact IH]|exact IH].
    - destruct (0 <? slateness c); [|intros [= <- <-]; cbn; repeat split; auto].
      destruct (existsb _ _); [|intros [= <- <-]; cbn; repeat split; auto].
      destruct (late_updates _ _ _) as [tr bs0] eqn:E. intros [= <- <-]. cbn. repeat split; auto.
      clear - E. revert tr bs0 E. induction (s_trig s) as [|t r IH]; intros tr bs0; cbn [late_updates].
      + intros [= <- <-]. constructor.
      + destruct (late_updates _ _ r) as [r' bs']. specialize (IH _ _ eq_refl).
        destruct (in_twin t ts); intros [= <- <-]; [constructor; [reflexivity|exact IH]|exact IH].
  Qed.

  Lemma late_updates_nil ts d : late_updates ts d [] = ([], []).
  Proof. reflexivity. Qed.

  (* an on-time row is never older than the slot once the slot has advanced, unless it lies in a gap *)
  Lemma no_realign_after_advance s ts w' :
    SInv s -> s_adv s = true -> (forall x, ole x (cur (s_w s)) -> ole x (cur w')) ->
    is_late ts w' = false -> s_init s = true -> ts < s_slot s -> sinwin c (align ts (sslide c)) ts = true -> 0 <= ts -> False.
  Proof.
    intros (_ & H1 & Ha & _) Hadv Hmono Hl Hi Hlt Hw Hts.
    specialize (Ha Hadv). apply Hmono in Ha. unfold is_late in Hl.
    destruct (cur w') as [cu|]; cbn in Ha; [|exact Ha]. apply Z.ltb_ge in Hl.
    destruct (H1 Hi) as [k Hk]. destruct (salign_aligned c Hslide ts) as [j Hj].
    pose proof (align_le ts (sslide c) Hslide Hts) as Hal.
    unfold sinwin in Hw. apply andb_true_iff in Hw as [_ Hw]. apply Z.ltb_lt in Hw.
    rewrite Hj in *. rewrite Hk in *.
    assert (j < k) by nia. assert ((j + 1) * sslide c <= k * sslide c) by nia. lia.
  Qed.

  Lemma sadd_core_SInv id ts now s s' bs :
    SInv s -> 0 <= ts -> sadd_core c id ts now s = (s', bs) -> SInv s'.
  Proof.
    intros Hinv Hts E. pose proof Hinv as (H0 & H1 & Ha & Hw & Hp).
    destruct (sadd_core_shape _ _ _ _ _ _ E) as (Si & Sw & Sp & Sa & Ss & Sd & _).
    set (w' := update_event_time (sooo c) now ts (s_w s)) in *.
    assert (Hmono : forall x, ole x (cur (s_w s)) -> ole x (cur w')) by (intros x; apply uet_mono).
    apply mkSInv.
    - rewrite Si. discriminate.
    - intros _. rewrite Ss. cbn zeta. destruct (_ && _ && _ && _); [apply salign_aligned, Hslide|].
      destruct (s_init s) eqn:Ei; [auto|apply salign_aligned, Hslide].
    - rewrite Sa, Sw, Ss. intros Hadv. cbn zeta.
      assert (Ei: s_init s = true).
      { destruct (s_init s) eqn:Ei; [reflexivity|]. destruct (H0 eq_refl) as (_ & _ & A). congruence. }
      rewrite Ei. cbn [andb].
      destruct (negb (is_late ts w') && (ts <? s_slot s) && sinwin c (align ts (sslide c)) ts) eqn:Ec.
      + exfalso. apply andb_true_iff in Ec as [Ec Hwn]. apply andb_true_iff in Ec as [Hl Hlt].
        apply negb_true_iff in Hl. apply Z.ltb_lt in Hlt.
        eapply (no_realign_after_advance s ts w'); eauto.
      + apply Hmono, Ha, Hadv.
    - rewrite Sw. apply uet_ok, Hw.
    - rewrite Sw, Sp. intros x Hx. apply Hmono, Hp, Hx.
  Qed.

  Lemma srest_slot_spec sl wmk :
    sl + ssize c <= wmk ->
    let s' := srest_slot c sl wmk in
    sl < s' /\ s' - sslide c + ssize c <= wmk < s' + ssize c /\ exists q, 0 <= q /\ s' = sl + q * sslide c.
  Proof.
    intros H. unfold srest_slot. destruct (sl + ssize c <=? wmk) eqn:E; [|apply Z.leb_gt in E; lia].
    cbn zeta. pose proof (Z.div_mod (wmk - sl - ssize c) (sslide c) ltac:(lia)) as Hd.
    pose proof (Z.mod_pos_bound (wmk - sl - ssize c) (sslide c) Hslide) as Hm.
    assert (0 <= (wmk - sl - ssize c) / sslide c) by (apply Z.div_pos; lia).
    split; [nia|]. split; [nia|]. exists ((wmk - sl - ssize c) / sslide c + 1). split; [lia|reflexivity].
  Qed.

  Lemma sfire_step_SInv s s' evs : SInv s -> sfire_step c s = (s', evs) -> SInv s'.
  Proof.
    intros Hinv. pose proof Hinv as (H0 & H1 & Ha & Hw & Hp). unfold sfire_step.
    destruct (s_pend s) as [wmk|] eqn:Ep; [|intros [= <- <-]; exact Hinv].
    specialize (Hp wmk eq_refl).
    destruct (s_init s) eqn:Ei; cbn [negb].
    2:{ intros [= <- <-]. apply mkSInv; cbn; [intros _; apply H0; reflexivity|try rewrite Ei; discriminate|exact Ha|exact Hw|discriminate]. }
    specialize (H1 eq_refl).
    assert (Hnone: SInv (sclose_expired wmk
             {| s_init := true; s_slot := srest_slot c (s_slot s) wmk; s_data := s_data s; s_trig := s_trig s;
                s_w := s_w s; s_pend := None; s_adv := s_adv s || (s_slot s + ssize c <=? wmk) |})).
    { unfold sclose_expired. apply mkSInv; cbn; [discriminate| | |exact Hw|discriminate].
      - intros _. unfold srest_slot. destruct (_ <=? _); [|exact H1]. destruct H1 as [k Hk].
        exists (k + ((wmk - s_slot s - ssize c) / sslide c + 1)). lia.
      - destruct (s_slot s + ssize c <=? wmk) eqn:E.
        + intros _. apply Z.leb_le in E. destruct (srest_slot_spec (s_slot s) wmk E) as (_ & [A _] & _).
          eapply ole_trans; [|exact Hp]. exact A.
        + rewrite orb_false_r. unfold srest_slot. rewrite E. exact Ha. }
    destruct (omin_list _) as [a|] eqn:Em; [|intros [= <- <-]; exact Hnone].
    destruct (a + ssize c <=? wmk) eqn:Ea; [|intros [= <- <-]; exact Hnone].
    apply Z.leb_le in Ea. apply omin_list_in in Em. apply in_map_iff in Em as [r0 [Hr0 _]].
    apply (first_win_grid c Hslide _ _ _ H1) in Hr0 as (Haa & Hle & _).
    intros [= <- <-]. apply mkSInv; cbn; [discriminate| | |exact Hw|].
    - intros _. destruct Haa as [k Hk]. exists (k + 1). lia.
    - intros _. eapply ole_trans; [|exact Hp]. lia.
    - intros x [= <-]. exact Hp.
  Qed.

  Lemma sstep_SInv s o s' evs : SInv s -> nonneg_op o -> sstep c s o = (s', evs) -> SInv s'.
  Proof.
    intros Hinv Hop. destruct o as [id ts now|id| | |now]; cbn [sstep].
    - unfold sadd. destruct (sadd_core c id ts now s) as [s1 bs] eqn:E. intros [= <- <-].
      eapply sadd_core_SInv; eauto.
    - intros [= <- <-]. exact Hinv.
    - destruct (s_pend s) eqn:Ep; [intros [= <- <-]; exact Hinv|].
      destruct (pop_chan (s_w s)) as [[x w']|] eqn:Epop; intros [= <- <-]; [|exact Hinv].
      destruct Hinv as (H0 & H1 & Ha & Hw & Hp). unfold pop_chan in Epop.
      destruct (chan (s_w s)) as [|y r] eqn:Ec; [discriminate|]. inversion Epop; subst x w'. clear Epop.
      unfold wm_ok in Hw. rewrite Ec in Hw. inversion Hw; subst.
      apply mkSInv; cbn; auto. intros x [= <-]. assumption.
    - apply sfire_step_SInv, Hinv.
    - intros [= <- <-]. destruct Hinv as (H0 & H1 & Ha & Hw & Hp).
      apply mkSInv; cbn; auto.
      + intros H. apply tick_mono, Ha, H.
      + apply tick_ok, Hw.
      + intros x Hx. apply tick_mono, Hp, Hx.
  Qed.

  Lemma srun_SInv h : forall s s' tr, SInv s -> Forall nonneg_op h -> srun c s h = (s', tr) -> SInv s'.
  Proof.
    induction h as [|o rest IH]; intros s s' tr Hinv Hh; cbn [srun].
    - intros [= <- <-]. exact Hinv.
    - destruct (sstep c s o) as [s1 e1] eqn:E1. destruct (srun c s1 rest) as [s2 e2] eqn:E2. intros [= <- <-].
      inversion Hh; subst. eapply (IH s1); [eapply sstep_SInv; eauto|assumption|exact E2].
  Qed.

  (* ---- first firings in strictly increasing order ---- *)
  Lemma sfirsts_late bs : Forall (fun b => b_late b = true) bs -> firsts (map EvBatch bs) = [].
  Proof.
    unfold firsts. induction 1 as [|b l Hb Hl IH]; [reflexivity|]. cbn. rewrite Hb. cbn. exact IH.
  Qed.

  Lemma sstep_shape s o s' evs :
    SInv s -> nonneg_op o -> sstep c s o = (s', evs) ->
    (firsts evs = [] /\ (s_adv s = true -> s_adv s' = true /\ s_slot s <= s_slot s')) \/
    (exists b, firsts evs = [b] /\ s_slot s <= b_start b /\ s_slot s' = b_start b + sslide c /\ s_adv s' = true
               /\ b_rows b = filter (fun r => sinwin c (b_start b) (rts r)) (s_data s)
               /\ s_data s' = filter (fun r => negb (rts r <? b_start b + sslide c)) (s_data s)).
  Proof.
    intros Hinv Hop. pose proof Hinv as (H0 & H1 & Ha & Hw & Hp).
    destruct o as [id ts now|id| | |now]; cbn [sstep].
    - unfold sadd. destruct (sadd_core c id ts now s) as [s1 bs] eqn:E. intros [= <- <-]. left.
      destruct (sadd_core_shape _ _ _ _ _ _ E) as (Si & Sw & Sp & Sa & Ss & Sd & Sl). split.
      + change (EvAdd id ts :: map EvBatch bs) with ([EvAdd id ts] ++ map EvBatch bs).
        unfold firsts. rewrite batches_app. cbn [batches flat_map app]. apply sfirsts_late, Sl.
      + intros Hadv. rewrite Sa, Ss. split; [exact Hadv|]. cbn zeta.
        assert (Ei: s_init s = true).
        { destruct (s_init s) eqn:Ei; [reflexivity|]. destruct (H0 eq_refl) as (_ & _ & A). congruence. }
        rewrite Ei. cbn [andb].
        destruct (negb (is_late ts _) && (ts <? s_slot s) && sinwin c (align ts (sslide c)) ts) eqn:Ec; [|lia].
        exfalso. apply andb_true_iff in Ec as [Ec Hwn]. apply andb_true_iff in Ec as [Hl Hlt].
        apply negb_true_iff in Hl. apply Z.ltb_lt in Hlt.
        exact (no_realign_after_advance s ts _ Hinv Hadv (fun x => uet_mono (sooo c) now ts (s_w s) x) Hl Ei Hlt Hwn Hop).
    - intros [= <- <-]. left. split; [reflexivity|]. intros H; split; [exact H|lia].
    - destruct (s_pend s); [intros [= <- <-]; left; split; [reflexivity|intros H; split; [exact H|lia]]|].
      destruct (pop_chan (s_w s)) as [[x w']|]; intros [= <- <-]; left; (split; [reflexivity|intros H; split; [exact H|cbn; lia]]).
    - unfold sfire_step. destruct (s_pend s) as [wmk|]; [|intros [= <- <-]; left; split; [reflexivity|intros H; split; [exact H|lia]]].
      destruct (s_init s) eqn:Ei; cbn [negb].
      2:{ intros [= <- <-]. left. split; [reflexivity|]. intros H; split; [exact H|cbn; lia]. }
      specialize (H1 eq_refl).
      assert (Hnone: forall st evs0,
                (st, evs0) = (sclose_expired wmk
                  {| s_init := true; s_slot := srest_slot c (s_slot s) wmk; s_data := s_data s; s_trig := s_trig s;
                     s_w := s_w s; s_pend := None; s_adv := s_adv s || (s_slot s + ssize c <=? wmk) |}, [EvDE]) ->
                firsts evs0 = [] /\ (s_adv s = true -> s_adv st = true /\ s_slot s <= s_slot st)).
      { intros st evs0 [= -> ->]. split; [reflexivity|]. intros H. unfold sclose_expired. cbn. rewrite H. split; [reflexivity|].
        destruct (Z.le_gt_cases (s_slot s + ssize c) wmk) as [L|G].
        - destruct (srest_slot_spec (s_slot s) wmk L) as (A & _). lia.
        - unfold srest_slot. destruct (_ <=? _) eqn:E; [apply Z.leb_le in E; lia|lia]. }
      destruct (omin_list _) as [a|] eqn:Em; [|intros Heq; left; apply (Hnone s' evs); symmetry; exact Heq].
      destruct (a + ssize c <=? wmk) eqn:Ea; [|intros Heq; left; apply (Hnone s' evs); symmetry; exact Heq].
      apply omin_list_in in Em. apply in_map_iff in Em as [r0 [Hr0 _]].
      apply (first_win_grid c Hslide _ _ _ H1) in Hr0 as (_ & Hle & _).
      intros [= <- <-]. right. eexists. split; [reflexivity|]. cbn. auto.
    - intros [= <- <-]. left. split; [reflexivity|]. intros H; split; [exact H|cbn; lia].
  Qed.

  Definition sbefore (a b : batch) : Prop := b_start a < b_start b.

  Lemma srun_sorted h : forall s s' tr,
    SInv s -> Forall nonneg_op h -> srun c s h = (s', tr) ->
    StronglySorted sbefore (firsts tr) /\ (s_adv s = true -> Forall (fun b => s_slot s <= b_start b) (firsts tr)).
  Proof.
    induction h as [|o rest IH]; intros s s' tr Hinv Hh; cbn [srun].
    - intros [= <- <-]. split; [constructor|intros _; constructor].
    - destruct (sstep c s o) as [s1 e1] eqn:E1. destruct (srun c s1 rest) as [s2 e2] eqn:E2. intros [= <- <-].
      inversion Hh; subst. pose proof (sstep_SInv _ _ _ _ Hinv H1 E1) as Hi1.
      destruct (IH _ _ _ Hi1 H2 E2) as [Hs Hb]. rewrite firsts_app.
      destruct (sstep_shape _ _ _ _ Hinv H1 E1) as [[Hf Hm]|[b (Hf & Hle & Hsl & Hadv & _)]]; rewrite Hf; cbn [app].
      + split; [exact Hs|]. intros Hadv. destruct (Hm Hadv) as [A B].
        eapply Forall_impl; [|apply Hb, A]. cbn. intros x Hx. lia.
      + specialize (Hb Hadv). split.
        * constructor; [exact Hs|]. eapply Forall_impl; [|exact Hb]. unfold sbefore. cbn. intros x Hx. lia.
        * intros _. constructor; [exact Hle|]. eapply Forall_impl; [|exact Hb]. cbn. intros x Hx. lia.
  Qed.

  (* ---- rows are evicted only when no future interval can need them ---- *)
  Lemma sstep_retain s o s' evs r :
    SInv s -> nonneg_op o -> In r (s_data s) -> sstep c s o = (s', evs) ->
    In r (s_data s') \/ (rts r < s_slot s' /\ s_adv s' = true).
  Proof.
    intros Hinv Hop Hin E. destruct (sstep_shape _ _ _ _ Hinv Hop E) as [[Hf Hm]|[b (Hf & Hle & Hsl & Hadv & Hrows & Hdata)]].
    - (* no first firing: the buffer only grows or stays *)
      left. destruct o as [id ts now|id| | |now]; cbn [sstep] in E.
      + unfold sadd in E. destruct (sadd_core c id ts now s) as [s1 bs] eqn:E1. inversion E; subst.
        destruct (sadd_core_shape _ _ _ _ _ _ E1) as (_ & _ & _ & _ & _ & [Sd|Sd] & _); rewrite Sd; [exact Hin|apply in_or_app; left; exact Hin].
      + inversion E; subst. exact Hin.
      + destruct (s_pend s); [inversion E; subst; exact Hin|].
        destruct (pop_chan (s_w s)) as [[x w']|]; inversion E; subst; exact Hin.
      + unfold sfire_step in E. destruct (s_pend s) as [wmk|]; [|inversion E; subst; exact Hin].
        destruct (s_init s); cbn [negb] in E; [|inversion E; subst; exact Hin].
        destruct (omin_list _) as [a|]; [|inversion E; subst; exact Hin].
        destruct (a + ssize c <=? wmk); [|inversion E; subst; exact Hin].
        inversion E; subst. cbn in Hf. discriminate.
      + inversion E; subst. exact Hin.
    - rewrite Hdata, Hsl. destruct (rts r <? b_start b + sslide c) eqn:El.
      + right. apply Z.ltb_lt in El. auto.
      + left. apply filter_In. split; [exact Hin|rewrite El; reflexivity].
  Qed.

  (* every first firing holds every buffered row whose timestamp lies in its interval *)
  Theorem srun_covering h : forall s s' tr r,
    SInv s -> Forall nonneg_op h -> In r (s_data s) -> srun c s h = (s', tr) ->
    forall b, In b (firsts tr) -> b_start b <= rts r < b_start b + ssize c -> In r (b_rows b).
  Proof.
    induction h as [|o rest IH]; intros s s' tr r Hinv Hh Hin; cbn [srun].
    - intros [= <- <-] b [].
    - destruct (sstep c s o) as [s1 e1] eqn:E1. destruct (srun c s1 rest) as [s2 e2] eqn:E2. intros [= <- <-].
      inversion Hh; subst. pose proof (sstep_SInv _ _ _ _ Hinv H1 E1) as Hi1.
      intros b Hb Hcov. rewrite firsts_app in Hb. apply in_app_or in Hb as [Hb|Hb].
      + destruct (sstep_shape _ _ _ _ Hinv H1 E1) as [[Hf _]|[b1 (Hf & _ & _ & _ & Hrows & _)]]; rewrite Hf in Hb; [contradiction|].
        destruct Hb as [<-|[]]. rewrite Hrows. apply filter_In. split; [exact Hin|].
        unfold sinwin. apply andb_true_iff. split; [apply Z.leb_le|apply Z.ltb_lt]; lia.
      + destruct (sstep_retain _ _ _ _ r Hinv H1 Hin E1) as [Hd|[Hlt Hadv]].
        * eapply IH; eauto.
        * exfalso. destruct (srun_sorted _ _ _ _ Hi1 H2 E2) as [_ Hge]. specialize (Hge Hadv).
          rewrite Forall_forall in Hge. specialize (Hge b Hb). lia.
  Qed.

  (* ---- every covering interval at or after the slot is delivered ---- *)
  Definition sreported (r : row) (a : Z) (tr : list ev) : Prop :=
    exists b, In b (firsts tr) /\ b_start b = a /\ In r (b_rows b).

  Lemma omin_list_le l m : omin_list l = Some m -> forall x, In (Some x) l -> m <= x.
  Proof.
    revert m; induction l as [|y r IH]; cbn; intros m H x Hx; [contradiction|].
    destruct y as [y|].
    - destruct (omin_list r) as [m'|] eqn:E.
      + inversion H; subst. destruct Hx as [Hx|Hx]; [inversion Hx; subst; lia|]. specialize (IH m' eq_refl x Hx). lia.
      + inversion H; subst. destruct Hx as [Hx|Hx]; [inversion Hx; subst; lia|].
        exfalso. clear - E Hx. induction r as [|z r IH]; [contradiction|]. cbn in E. destruct z as [z|].
        * destruct (omin_list r); discriminate.
        * destruct Hx as [Hx|Hx]; [discriminate|]. apply IH; auto.
    - destruct Hx as [Hx|Hx]; [discriminate|]. apply IH; auto.
  Qed.

  Lemma omin_list_none l : omin_list l = None -> forall x, ~ In (Some x) l.
  Proof.
    induction l as [|y r IH]; cbn; intros H x Hx; [contradiction|]. destruct y as [y|].
    - destruct (omin_list r); discriminate.
    - destruct Hx as [Hx|Hx]; [discriminate|]. eapply IH; eauto.
  Qed.

  Lemma first_win_min sl ts a k :
    0 <= k -> a = sl + k * sslide c -> a <= ts < a + ssize c ->
    exists a0 k0, first_win c sl ts = Some a0 /\ a0 = sl + k0 * sslide c /\ 0 <= k0 <= k.
  Proof.
    intros Hk Ha Hin. unfold first_win.
    destruct (ts <? sl) eqn:E0; [apply Z.ltb_lt in E0; nia|].
    set (kk := if ts - sl - ssize c <? 0 then 0 else (ts - sl - ssize c) / sslide c + 1).
    assert (Hkk: 0 <= kk <= k).
    { unfold kk. destruct (ts - sl - ssize c <? 0) eqn:E; [lia|]. apply Z.ltb_ge in E.
      pose proof (Z.div_pos (ts - sl - ssize c) (sslide c) E Hslide).
      assert ((ts - sl - ssize c) / sslide c < k) by (apply Z.div_lt_upper_bound; nia). lia. }
    destruct (sl + kk * sslide c <=? ts) eqn:E1; [|apply Z.leb_gt in E1; nia].
    exists (sl + kk * sslide c), kk. auto.
  Qed.

  Lemma sstep_track s o s' evs r a k :
    SInv s -> nonneg_op o -> s_init s = true -> In r (s_data s) ->
    0 <= k -> a = s_slot s + k * sslide c -> a <= rts r < a + ssize c ->
    sstep c s o = (s', evs) ->
    (In r (s_data s') /\ s_init s' = true /\ exists k', 0 <= k' /\ a = s_slot s' + k' * sslide c) \/ sreported r a evs.
  Proof.
    intros Hinv Hop Hi Hin Hk Ha Hcov E. pose proof Hinv as (H0 & H1 & Hadv & Hw & Hp).
    destruct o as [id ts now|id| | |now]; cbn [sstep] in E.
    - left. unfold sadd in E. destruct (sadd_core c id ts now s) as [s1 bs] eqn:E1. inversion E; subst s' evs.
      destruct (sadd_core_shape _ _ _ _ _ _ E1) as (Si & _ & _ & _ & Ss & Sd & _).
      split; [destruct Sd as [Sd|Sd]; rewrite Sd; [exact Hin|apply in_or_app; left; exact Hin]|]. split; [exact Si|].
      rewrite Ss, Hi. cbn zeta. cbn [andb].
      destruct (negb (is_late ts _) && (ts <? s_slot s) && sinwin c (align ts (sslide c)) ts) eqn:Ec; [|exists k; auto].
      apply andb_true_iff in Ec as [Ec _]. apply andb_true_iff in Ec as [_ Hlt]. apply Z.ltb_lt in Hlt.
      destruct (H1 Hi) as [j Hj]. destruct (salign_aligned c Hslide ts) as [i Hi'].
      pose proof (align_le ts (sslide c) Hslide Hop) as Hal.
      exists (k + (j - i)). rewrite Hi', Ha, Hj. split; [|lia].
      assert (i * sslide c < j * sslide c) by lia. assert (i < j) by nia. lia.
    - inversion E; subst. left. split; [exact Hin|]. split; [exact Hi|exists k; auto].
    - left. destruct (s_pend s); [inversion E; subst; split; [exact Hin|split; [exact Hi|exists k; auto]]|].
      destruct (pop_chan (s_w s)) as [[x w']|]; inversion E; subst; (split; [exact Hin|split; [exact Hi|exists k; auto]]).
    - unfold sfire_step in E. destruct (s_pend s) as [wmk|]; [|inversion E; subst; left; split; [exact Hin|split; [exact Hi|exists k; auto]]].
      rewrite Hi in E. cbn [negb] in E.
      destruct (first_win_min (s_slot s) (rts r) a k Hk Ha Hcov) as (a0 & k0 & Hfw & Ha0 & Hk0).
      assert (Hinl: In (Some a0) (map (fun x => first_win c (s_slot s) (rts x)) (s_data s))).
      { apply in_map_iff. exists r. auto. }
      destruct (omin_list _) as [am|] eqn:Em.
      2:{ exfalso. eapply omin_list_none; eauto. }
      pose proof (omin_list_le _ _ Em a0 Hinl) as Hle.
      pose proof (omin_list_in _ _ Em) as Hmin. apply in_map_iff in Hmin as [rm [Hrm _]].
      destruct (first_win_grid c Hslide _ _ _ (H1 Hi) Hrm) as ([jm Hjm] & Hslm & _).
      destruct (H1 Hi) as [j Hj].
      assert (Hgrid: exists km, 0 <= km /\ am = s_slot s + km * sslide c).
      { exists (jm - j). split; [|lia]. assert (j * sslide c <= jm * sslide c) by lia. nia. }
      destruct Hgrid as [km [Hkm Ham]].
      assert (Hkmk: km <= k) by nia.
      destruct (am + ssize c <=? wmk) eqn:Ea.
      + inversion E; subst s' evs. clear E. destruct (Z.eq_dec km k) as [->|Hne].
        * right. eexists. split; [left; reflexivity|]. cbn. split; [lia|].
          apply filter_In. split; [exact Hin|]. unfold sinwin. apply andb_true_iff. split; [apply Z.leb_le|apply Z.ltb_lt]; lia.
        * left. cbn. split; [|split; [reflexivity|]].
          -- apply filter_In. split; [exact Hin|]. apply negb_true_iff, Z.ltb_ge. nia.
          -- exists (k - km - 1). split; [lia|]. nia.
      + inversion E; subst s' evs. clear E. left. unfold sclose_expired. cbn. split; [exact Hin|]. split; [reflexivity|].
        apply Z.leb_gt in Ea.
        destruct (Z.le_gt_cases (s_slot s + ssize c) wmk) as [L|G].
        * destruct (srest_slot_spec (s_slot s) wmk L) as (_ & [B _] & [q [Hq Hs']]).
          rewrite Hs'. exists (k - q). split; [|lia]. rewrite Hs' in B. nia.
        * unfold srest_slot. destruct (_ <=? _) eqn:E; [apply Z.leb_le in E; lia|]. exists k. auto.
    - inversion E; subst. left. split; [exact Hin|]. split; [exact Hi|exists k; auto].
  Qed.

  Lemma sreported_app_l r a x y : sreported r a x -> sreported r a (x ++ y).
  Proof. intros [b [H1 H2]]. exists b. split; [rewrite firsts_app; apply in_or_app; left; exact H1|exact H2]. Qed.
  Lemma sreported_app_r r a x y : sreported r a y -> sreported r a (x ++ y).
  Proof. intros [b [H1 H2]]. exists b. split; [rewrite firsts_app; apply in_or_app; right; exact H1|exact H2]. Qed.

  Theorem srun_track h : forall s s' tr r a k,
    SInv s -> Forall nonneg_op h -> s_init s = true -> In r (s_data s) ->
    0 <= k -> a = s_slot s + k * sslide c -> a <= rts r < a + ssize c ->
    srun c s h = (s', tr) ->
    a < s_slot s' -> sreported r a tr.
  Proof.
    induction h as [|o rest IH]; intros s s' tr r a k Hinv Hh Hi Hin Hk Ha Hcov; cbn [srun].
    - intros [= <- <-] Hlt. nia.
    - destruct (sstep c s o) as [s1 e1] eqn:E1. destruct (srun c s1 rest) as [s2 e2] eqn:E2. intros [= <- <-] Hlt.
      inversion Hh; subst. pose proof (sstep_SInv _ _ _ _ Hinv H1 E1) as Hi1.
      destruct (sstep_track _ _ _ _ r _ k Hinv H1 Hi Hin Hk eq_refl Hcov E1) as [(Hd & Hi' & k' & Hk' & Ha')|Hrep].
      + apply sreported_app_r. eapply (IH s1 s2 e2 r _ k'); eauto; try (rewrite <- Ha'; exact Hcov).
      + apply sreported_app_l, Hrep.
  Qed.

  Lemma srun_app h1 h2 s : srun c s (h1 ++ h2) =
    let '(s1, e1) := srun c s h1 in let '(s2, e2) := srun c s1 h2 in (s2, e1 ++ e2).
  Proof.
    revert s; induction h1 as [|o r IH]; intros s; cbn [srun app].
    - destruct (srun c s h2); reflexivity.
    - destruct (sstep c s o) as [s1 e1]. rewrite IH. destruct (srun c s1 r) as [sa ea].
      destruct (srun c sa h2) as [sb eb]. rewrite app_assoc. reflexivity.
  Qed.

  Lemma s_not_late_buffered id ts now s :
    is_late ts (update_event_time (sooo c) now ts (s_w s)) = false ->
    In (id, ts) (s_data (fst (sadd_core c id ts now s))).
  Proof. intros Hl. unfold sadd_core. rewrite Hl. cbn. apply in_or_app. right. left. reflexivity. Qed.

  (* C08, exact rows: an on-time row is in every interval that covers it and fires after its arrival *)
  Theorem sliding_on_time_in_every_cover h1 id ts now h2 s1 tr1 s tr :
    Forall nonneg_op (h1 ++ Add id ts now :: h2) ->
    srun c sst0 h1 = (s1, tr1) ->
    is_late ts (update_event_time (sooo c) now ts (s_w s1)) = false ->
    srun c sst0 (h1 ++ Add id ts now :: h2) = (s, tr) ->
    exists tr2, tr = tr1 ++ tr2 /\
      forall b, In b (firsts tr2) -> b_start b <= ts < b_start b + ssize c -> In (id, ts) (b_rows b).
  Proof.
    intros Hnn Hr1 Hlate Hrun. rewrite srun_app, Hr1 in Hrun.
    apply Forall_app in Hnn as [Hn1 Hn2]. inversion Hn2 as [|? ? Hts Hn3]; subst.
    pose proof (srun_SInv _ _ _ _ SInv_0 Hn1 Hr1) as Hi1.
    cbn [srun] in Hrun. destruct (sstep c s1 (Add id ts now)) as [sa ea] eqn:Ea.
    destruct (srun c sa h2) as [sb eb] eqn:Eb. inversion Hrun; subst s tr. clear Hrun.
    exists (ea ++ eb). split; [reflexivity|].
    pose proof (sstep_SInv _ _ _ _ Hi1 Hts Ea) as Hia.
    assert (Hin: In (id, ts) (s_data sa)).
    { cbn [sstep] in Ea. unfold sadd in Ea. pose proof (s_not_late_buffered id ts now s1 Hlate) as Hb.
      destruct (sadd_core c id ts now s1) as [sx bx]. inversion Ea; subst. exact Hb. }
    intros b Hb Hcov. rewrite firsts_app in Hb. apply in_app_or in Hb as [Hb|Hb].
    - exfalso. cbn [sstep] in Ea. unfold sadd in Ea. destruct (sadd_core c id ts now s1) as [sx bx] eqn:Ex.
      inversion Ea; subst. destruct (sadd_core_shape _ _ _ _ _ _ Ex) as (_ & _ & _ & _ & _ & _ & Sl).
      change (EvAdd id ts :: map EvBatch bx) with ([EvAdd id ts] ++ map EvBatch bx) in Hb.
      unfold firsts in Hb. rewrite batches_app in Hb. cbn [batches flat_map app] in Hb.
      fold (batches (map EvBatch bx)) in Hb. fold (firsts (map EvBatch bx)) in Hb. rewrite (sfirsts_late _ Sl) in Hb. contradiction.
    - eapply (srun_covering h2 sa sb eb (id, ts)); eauto.
  Qed.

  (* C08, completeness: every slide-aligned interval at or after the slot that covers an on-time row
     is delivered, with the row inside, once the slot has moved past it *)
  Theorem sliding_every_cover_delivered h1 id ts now h2 s1 tr1 sa ea s tr a k :
    Forall nonneg_op (h1 ++ Add id ts now :: h2) ->
    srun c sst0 h1 = (s1, tr1) ->
    is_late ts (update_event_time (sooo c) now ts (s_w s1)) = false ->
    sstep c s1 (Add id ts now) = (sa, ea) ->
    0 <= k -> a = s_slot sa + k * sslide c -> a <= ts < a + ssize c ->
    srun c sst0 (h1 ++ Add id ts now :: h2) = (s, tr) ->
    a < s_slot s ->
    exists b, In b (firsts tr) /\ b_start b = a /\ In (id, ts) (b_rows b).
  Proof.
    intros Hnn Hr1 Hlate Ea Hk Ha Hcov Hrun Hlt. rewrite srun_app, Hr1 in Hrun.
    apply Forall_app in Hnn as [Hn1 Hn2]. inversion Hn2 as [|? ? Hts Hn3]; subst.
    pose proof (srun_SInv _ _ _ _ SInv_0 Hn1 Hr1) as Hi1.
    cbn [srun] in Hrun. rewrite Ea in Hrun.
    destruct (srun c sa h2) as [sb eb] eqn:Eb. inversion Hrun; subst s tr. clear Hrun.
    pose proof (sstep_SInv _ _ _ _ Hi1 Hts Ea) as Hia.
    assert (Hin: In (id, ts) (s_data sa) /\ s_init sa = true).
    { cbn [sstep] in Ea. unfold sadd in Ea. pose proof (s_not_late_buffered id ts now s1 Hlate) as Hb.
      destruct (sadd_core c id ts now s1) as [sx bx] eqn:Ex. inversion Ea; subst.
      destruct (sadd_core_shape _ _ _ _ _ _ Ex) as (Si & _). auto. }
    destruct Hin as [Hin Hia'].
    pose proof (srun_track h2 sa sb eb (id, ts) _ k Hia Hn3 Hia' Hin Hk eq_refl Hcov Eb Hlt) as Hrep.
    apply sreported_app_r, sreported_app_r, Hrep.
  Qed.
End SComplete.
