(* Liveness-side invariants of the tumbling model: an on-time row is never lost, it is reported
   in the batch of its own interval as soon as the current slot has moved past it. *)
From Coq Require Import Lia Arith Sorted.
From SV Require Import Model.Tumbling Proofs.TumblingProofs.

Definition ole (x : Z) (o : option Z) : Prop := match o with Some c => x <= c | None => False end.

Lemma ole_trans x y o : x <= y -> ole y o -> ole x o.
Proof. destruct o; cbn; [lia|auto]. Qed.

(* ---- watermark facts ---- *)
Definition wm_ok (w : wm) : Prop := Forall (fun x => ole x (cur w)) (chan w).

Lemma raise_cur_ge v c x : ole x c -> ole x (raise_cur v c).
Proof.
  unfold raise_cur, ogt. destruct c as [c|]; cbn; [|tauto]. intros H.
  destruct (c <? v) eqn:E; cbn; [apply Z.ltb_lt in E; lia|exact H].
Qed.

Lemma raise_cur_self v c : ole v (raise_cur v c).
Proof.
  unfold raise_cur, ogt. destruct c as [c|]; cbn; [|lia].
  destruct (c <? v) eqn:E; cbn; [lia|apply Z.ltb_ge in E; exact E].
Qed.

Lemma send_cur w : cur (send w) = cur w.
Proof. unfold send. destruct (cur w) eqn:E; [|exact E]. destruct (_ && _); cbn; try reflexivity; exact E. Qed.

Lemma send_ok w : wm_ok w -> wm_ok (send w).
Proof.
  intros H. unfold send. destruct (cur w) as [c|] eqn:E; [|exact H].
  destruct (_ && _); [|exact H]. unfold wm_ok in *. cbn. rewrite E in H.
  apply Forall_app. split; [exact H|]. constructor; [cbn; lia|constructor].
Qed.

Lemma uet_mono ooo now ts w x : ole x (cur w) -> ole x (cur (update_event_time ooo now ts w)).
Proof.
  intros H. unfold update_event_time. destruct (now + ooo + day <? ts); [exact H|].
  rewrite send_cur. destruct (ogt ts _); cbn; [apply raise_cur_ge, H|exact H].
Qed.

Lemma Forall_ole_mono l c c' : (forall x, ole x c -> ole x c') -> Forall (fun x => ole x c) l -> Forall (fun x => ole x c') l.
Proof. intros H. apply Forall_impl. exact H. Qed.

Lemma uet_ok ooo now ts w : wm_ok w -> wm_ok (update_event_time ooo now ts w).
Proof.
  intros H. unfold update_event_time. destruct (now + ooo + day <? ts); [exact H|].
  apply send_ok. destruct (ogt ts _); [|exact H]. unfold wm_ok in *. cbn.
  eapply Forall_ole_mono; [|exact H]. intros x. apply raise_cur_ge.
Qed.

Lemma tick_mono ooo idle now w x : ole x (cur w) -> ole x (cur (tick ooo idle now w)).
Proof.
  intros H. unfold tick. destruct (maxEv w); [|exact H]. rewrite send_cur. cbn. apply raise_cur_ge, H.
Qed.

Lemma tick_ok ooo idle now w : wm_ok w -> wm_ok (tick ooo idle now w).
Proof.
  intros H. unfold tick. destruct (maxEv w); [|exact H]. apply send_ok. unfold wm_ok in *. cbn.
  eapply Forall_ole_mono; [|exact H]. intros x. apply raise_cur_ge.
Qed.

(* ---- arithmetic of the slot grid ---- *)
Lemma grid_floor sl sz x : 0 < sz -> sl <= x ->
  let a := sl + ((x - sl) / sz) * sz in sl <= a /\ a <= x < a + sz.
Proof.
  intros Hs Hx. cbn. pose proof (Z.div_mod (x - sl) sz ltac:(lia)) as H.
  pose proof (Z.mod_pos_bound (x - sl) sz Hs) as Hm.
  assert (0 <= (x - sl) / sz) by (apply Z.div_pos; lia). nia.
Qed.

Lemma align_le ts sz : 0 < sz -> 0 <= ts -> align ts sz <= ts < align ts sz + sz.
Proof.
  intros Hs Ht. unfold align. destruct (sz <=? 0) eqn:E; [apply Z.leb_le in E; lia|].
  rewrite Z.quot_div_nonneg by lia.
  pose proof (Z.div_mod ts sz ltac:(lia)). pose proof (Z.mod_pos_bound ts sz Hs). nia.
Qed.

Lemma aligned_unique sz a ts : 0 < sz -> 0 <= ts -> (exists k, a = k * sz) -> a <= ts < a + sz -> a = align ts sz.
Proof.
  intros Hs Ht [k ->] Hin. unfold align. destruct (sz <=? 0) eqn:E; [apply Z.leb_le in E; lia|].
  rewrite Z.quot_div_nonneg by lia. f_equal. apply Z.div_unique with (r := ts - k * sz); lia.
Qed.

Section Complete.
  Variable c : cfg.
  Hypothesis Hsize : 0 < size c.

  Definition Inv (s : st) : Prop :=
    (init s = false -> data s = [] /\ trig s = [] /\ adv s = false) /\
    (init s = true -> aligned c (slot s) /\ Forall (fun r => slot s <= rts r) (data s)
                      /\ Forall (fun t => t_end t <= slot s) (trig s)) /\
    (adv s = true -> ole (slot s) (cur (w s))) /\
    (adv s = false -> trig s = []) /\
    wm_ok (w s) /\ (forall x, pend s = Some x -> ole x (cur (w s))).

  Lemma Inv_st0 : Inv st0.
  Proof. repeat split; cbn; try discriminate; auto; constructor. Qed.

  Lemma update_snap_ends l t snap b : Forall (fun t => t_end t <= b) l -> Forall (fun t => t_end t <= b) (update_snap l t snap).
  Proof. induction 1; cbn; [constructor|]. destruct (_ =? _); constructor; auto. Qed.

  Lemma update_snap_nil l t snap : update_snap l t snap = [] -> l = [].
  Proof. destruct l; cbn; [auto|]. destruct (_ =? _); discriminate. Qed.

  Lemma mkInv s :
    (init s = false -> data s = [] /\ trig s = [] /\ adv s = false) ->
    (init s = true -> aligned c (slot s) /\ Forall (fun r => slot s <= rts r) (data s)
                      /\ Forall (fun t => t_end t <= slot s) (trig s)) ->
    (adv s = true -> ole (slot s) (cur (w s))) ->
    (adv s = false -> trig s = []) ->
    wm_ok (w s) -> (forall x, pend s = Some x -> ole x (cur (w s))) -> Inv s.
  Proof. intros. repeat split; auto; try (apply H); try (apply H0); auto. Qed.

  Lemma Forall_filter_imp {A} (P : A -> Prop) f l : (forall x, In x l -> f x = true -> P x) -> Forall P (filter f l).
  Proof. intros H. apply Forall_forall. intros x Hx. apply filter_In in Hx as [H1 H2]. auto. Qed.

  Lemma add_core_Inv id ts now s s' bs :
    Inv s -> 0 <= ts -> add_core c id ts now s = (s', bs) -> Inv s'.
  Proof.
    intros (H0 & H1 & Ha & Hna & Hw & Hp) Hts. unfold add_core.
    set (w' := update_event_time (ooo c) now ts (w s)).
    assert (Hw' : wm_ok w') by (apply uet_ok, Hw).
    assert (Hmono : forall x, ole x (cur (w s)) -> ole x (cur w')) by (intros x; apply uet_mono).
    assert (Hp' : forall x, pend s = Some x -> ole x (cur w')) by (intros x Hx; apply Hmono, Hp, Hx).
    destruct (init s) eqn:Ei.
    - (* initialised *)
      destruct (H1 eq_refl) as (Hal & Hd & Ht). clear H0 H1.
      assert (HA: adv s = true -> ole (slot s) (cur w')) by (intros H; apply Hmono, Ha, H).
      destruct (is_late ts w') eqn:El; cbn [negb andb].
      + (* late *)
        destruct (inwin c (slot s) ts) eqn:Ew.
        * intros [= <- <-]. apply mkInv; cbn; [discriminate| |exact HA|exact Hna|exact Hw'|exact Hp'].
          intros _. split; [exact Hal|]. split; [|exact Ht].
          apply Forall_app. split; [exact Hd|]. constructor; [|constructor]. unfold inwin in Ew. cbn. lia.
        * destruct (0 <? lateness c).
          -- destruct (find (fun t => in_twin t ts) (trig s)) as [t|] eqn:Ef.
             ++ intros [= <- <-]. apply mkInv; cbn; [discriminate| |exact HA| |exact Hw'|exact Hp'].
                ** intros _. split; [exact Hal|]. split; [|apply update_snap_ends, Ht].
                   apply Forall_filter_imp. intros x Hx Hf. apply in_app_or in Hx as [Hx|[<-|[]]].
                   --- rewrite Forall_forall in Hd. apply Hd, Hx.
                   --- apply find_some in Ef as [_ Hi]. cbn in Hf. rewrite Hi in Hf. discriminate.
                ** intros H. apply Hna in H. rewrite H in Ef. discriminate.
             ++ intros [= <- <-]. apply mkInv; cbn; [discriminate| |exact HA|exact Hna|exact Hw'|exact Hp'].
                intros _. auto.
          -- intros [= <- <-]. apply mkInv; cbn; [discriminate| |exact HA|exact Hna|exact Hw'|exact Hp'].
             intros _. auto.
      + (* on time *)
        destruct (ts <? slot s) eqn:Elt.
        * (* older than the slot: only possible before the first advance *)
          apply Z.ltb_lt in Elt.
          assert (Hadv: adv s = false).
          { destruct (adv s) eqn:E; [|reflexivity]. exfalso. specialize (HA eq_refl).
            unfold is_late in El. destruct (cur w') as [cu|]; cbn in HA; [|exact HA].
            apply Z.ltb_ge in El. lia. }
          pose proof (align_le ts (size c) Hsize Hts) as Hal'.
          intros [= <- <-]. apply mkInv; cbn; [discriminate| | |exact Hna|exact Hw'|exact Hp'].
          -- intros _. split; [apply align_aligned, Hsize|]. rewrite (Hna Hadv). split; [|constructor].
             apply Forall_app. split; [|constructor; [cbn; lia|constructor]].
             eapply Forall_impl; [|exact Hd]. cbn. intros r Hr. lia.
          -- rewrite Hadv. discriminate.
        * apply Z.ltb_ge in Elt.
          intros [= <- <-]. apply mkInv; cbn; [discriminate| |exact HA|exact Hna|exact Hw'|exact Hp'].
          intros _. split; [exact Hal|]. split; [|exact Ht].
          apply Forall_app. split; [exact Hd|]. constructor; [cbn; lia|constructor].
    - (* first row *)
      destruct (H0 eq_refl) as (Hd & Ht & Hadv). clear H0 H1. cbn [andb].
      pose proof (align_le ts (size c) Hsize Hts) as Hal'.
      assert (Hfin: forall d, Forall (fun r => align ts (size c) <= rts r) d ->
                Inv {| init := true; slot := align ts (size c); data := d; trig := trig s; w := w'; pend := pend s; adv := adv s |}).
      { intros d Hd'. apply mkInv; cbn; [discriminate| | |exact Hna|exact Hw'|exact Hp'].
        - intros _. split; [apply align_aligned, Hsize|]. split; [exact Hd'|]. rewrite Ht. constructor.
        - rewrite Hadv. discriminate. }
      assert (Hk: Forall (fun r => align ts (size c) <= rts r) (data s ++ [(id, ts)])).
      { rewrite Hd. constructor; [cbn; lia|constructor]. }
      assert (Hdr: Forall (fun r => align ts (size c) <= rts r) (data s)) by (rewrite Hd; constructor).
      destruct (is_late ts w').
      + destruct (inwin c _ ts); [intros [= <- <-]; apply Hfin, Hk|].
        destruct (0 <? lateness c); [|intros [= <- <-]; apply Hfin, Hdr].
        rewrite Ht. cbn [find]. intros [= <- <-]. rewrite <- Ht. apply Hfin, Hdr.
      + intros [= <- <-]. apply Hfin, Hk.
  Qed.

  Lemma filter_nil {A} (f : A -> bool) l : filter f l = [] -> forall x, In x l -> f x = false.
  Proof.
    induction l as [|a l IH]; cbn; intros H x Hx; [contradiction|].
    destruct (f a) eqn:E; [discriminate|]. destruct Hx as [<-|Hx]; auto.
  Qed.

  (* rows of the buffer lie on the grid of slots that starts at the current slot *)
  Lemma cand_none sl wmk d r :
    cand c sl wmk d = [] -> In r d -> sl <= rts r ->
    wmk < sl + ((rts r - sl) / size c) * size c + size c.
  Proof.
    intros Hc Hin Hle. unfold cand in Hc.
    pose proof (grid_floor sl (size c) (rts r) Hsize Hle) as [G1 G2].
    pose proof (filter_nil _ _ Hc (sl + (rts r - sl) / size c * size c)) as H.
    assert (Hm: In (sl + (rts r - sl) / size c * size c)
              (map (fun r0 => sl + (rts r0 - sl) / size c * size c) (filter (fun r0 => sl <=? rts r0) d))).
    { apply in_map_iff. exists r. split; [reflexivity|]. apply filter_In. split; [exact Hin|]. apply Z.leb_le, Hle. }
    specialize (H Hm). apply andb_false_iff in H as [H|H]; [apply Z.leb_gt in H; lia|apply Z.leb_gt in H; lia].
  Qed.

  Lemma cand_min sl wmk d a r :
    minl (cand c sl wmk d) = Some a -> In r d -> sl <= rts r -> negb (inwin c a (rts r)) = true -> a + size c <= rts r.
  Proof.
    intros Hm Hin Hle Hout.
    pose proof (minl_in _ _ Hm) as Ha. pose proof (minl_le _ _ Hm) as Hmin.
    unfold cand in Ha. apply filter_In in Ha as [Ha Hc]. apply in_map_iff in Ha as [r0 [Hr0 Hin0]].
    apply filter_In in Hin0 as [_ Hle0]. apply Z.leb_le in Hle0. apply andb_true_iff in Hc as [C1 C2].
    apply Z.leb_le in C1, C2.
    pose proof (grid_floor sl (size c) (rts r) Hsize Hle) as [G1 G2].
    pose proof (grid_floor sl (size c) (rts r0) Hsize Hle0) as [G3 G4]. rewrite Hr0 in G3, G4.
    set (ar := sl + (rts r - sl) / size c * size c) in *.
    apply negb_true_iff in Hout. unfold inwin in Hout.
    destruct (Z.lt_ge_cases (rts r) a) as [Hlt|Hge].
    - (* r's own window would be an earlier candidate *)
      exfalso.
      assert (Hq: (rts r - sl) / size c < (rts r0 - sl) / size c).
      { subst ar. rewrite <- Hr0 in Hlt. nia. }
      assert (Har: ar + size c <= a) by (subst ar; rewrite <- Hr0; nia).
      assert (Hcand: In ar (cand c sl wmk d)).
      { unfold cand. apply filter_In. split.
        - apply in_map_iff. exists r. split; [reflexivity|]. apply filter_In. split; [exact Hin|apply Z.leb_le, Hle].
        - apply andb_true_iff. split; apply Z.leb_le; lia. }
      specialize (Hmin ar Hcand). lia.
    - apply andb_false_iff in Hout as [H|H]; [apply Z.leb_gt in H; lia|apply Z.ltb_ge in H; lia].
  Qed.

  Lemma close_expired_Inv wmk s : Inv s -> Inv (close_expired wmk s).
  Proof.
    intros (H0 & H1 & Ha & Hna & Hw & Hp). unfold close_expired. apply mkInv; cbn.
    - intros Hi. destruct (H0 Hi) as (A & B & C). rewrite A, B. cbn. auto.
    - intros Hi. destruct (H1 Hi) as (A & B & C). split; [exact A|]. split; [|apply Forall_filter, C].
      destruct (filter _ (trig s)); [exact B|apply Forall_filter, B].
    - exact Ha.
    - intros H. rewrite (Hna H). reflexivity.
    - exact Hw.
    - exact Hp.
  Qed.

  Lemma fire_step_Inv s s' evs : Inv s -> fire_step c s = (s', evs) -> Inv s'.
  Proof.
    intros Hinv. pose proof Hinv as (H0 & H1 & Ha & Hna & Hw & Hp). unfold fire_step.
    destruct (pend s) as [wmk|] eqn:Ep; [|intros [= <- <-]; exact Hinv].
    specialize (Hp wmk eq_refl).
    destruct (init s) eqn:Ei; cbn [negb].
    2:{ intros [= <- <-]. apply mkInv; cbn; [intros _; apply H0; reflexivity|try rewrite Ei; discriminate|exact Ha|exact Hna|exact Hw|discriminate]. }
    destruct (H1 eq_refl) as (Hal & Hd & Ht).
    destruct (minl (cand c (slot s) wmk (data s))) as [a|] eqn:Em.
    - pose proof (minl_in _ _ Em) as Hin. apply (cand_aligned c _ _ _ _ Hal) in Hin as (Haa & Hle & Hwk).
      intros [= <- <-]. apply mkInv; cbn; [try rewrite Ei; discriminate| | |discriminate|exact Hw|].
      + intros _. split; [destruct Haa as [k Hk]; exists (k + 1); lia|]. split.
        * apply Forall_filter_imp. intros r Hr Hout. rewrite Forall_forall in Hd.
          eapply cand_min; eauto.
        * assert (Hold: Forall (fun t => t_end t <= a + size c) (trig s)).
          { eapply Forall_impl; [|exact Ht]. cbn. intros t Hte. lia. }
          destruct (0 <? lateness c); [|exact Hold]. apply Forall_app. split; [exact Hold|].
          constructor; [cbn; lia|constructor].
      + intros _. eapply ole_trans; [|exact Hp]. lia.
      + intros x [= <-]. exact Hp.
    - apply minl_none in Em.
      intros [= <- <-]. apply close_expired_Inv. apply mkInv; cbn; [try rewrite Ei; discriminate| | |
        |exact Hw|discriminate].
      + intros _. unfold rest_slot. destruct (slot s + size c <=? wmk) eqn:E.
        * apply Z.leb_le in E. split; [destruct Hal as [k Hk]; exists (k + (wmk - slot s) / size c); lia|].
          pose proof (grid_floor (slot s) (size c) wmk Hsize ltac:(lia)) as [G1 G2]. split.
          -- apply Forall_forall. intros r Hr. rewrite Forall_forall in Hd. pose proof (Hd r Hr) as Hle.
             pose proof (cand_none _ _ _ _ Em Hr Hle) as Hc.
             pose proof (grid_floor (slot s) (size c) (rts r) Hsize Hle) as [G3 G4].
             assert ((wmk - slot s) / size c <= (rts r - slot s) / size c) by nia. nia.
          -- eapply Forall_impl; [|exact Ht]. cbn. intros t Hte. lia.
        * split; [exact Hal|]. split; [exact Hd|exact Ht].
      + unfold rest_slot. destruct (slot s + size c <=? wmk) eqn:E.
        * intros _. apply Z.leb_le in E. pose proof (grid_floor (slot s) (size c) wmk Hsize ltac:(lia)) as [G1 G2].
          eapply ole_trans; [|exact Hp]. lia.
        * rewrite orb_false_r. exact Ha.
      + intros H. apply orb_false_iff in H as [H _]. apply Hna, H.
  Qed.

  Definition nonneg_op (o : op) : Prop := match o with Add _ ts _ => 0 <= ts | _ => True end.

  Lemma step_Inv s o s' evs : Inv s -> nonneg_op o -> step c s o = (s', evs) -> Inv s'.
  Proof.
    intros Hinv Hop. destruct o as [id ts now|id| | |now]; cbn [step].
    - unfold add. destruct (add_core c id ts now s) as [s1 bs] eqn:E. intros [= <- <-].
      eapply add_core_Inv; eauto.
    - intros [= <- <-]. exact Hinv.
    - destruct (pend s) eqn:Ep; [intros [= <- <-]; exact Hinv|].
      destruct (pop_chan (w s)) as [[x w']|] eqn:Epop; intros [= <- <-]; [|exact Hinv].
      destruct Hinv as (H0 & H1 & Ha & Hna & Hw & Hp). unfold pop_chan in Epop.
      destruct (chan (w s)) as [|y r] eqn:Ec; [discriminate|]. inversion Epop; subst x w'. clear Epop.
      unfold wm_ok in Hw. rewrite Ec in Hw. inversion Hw; subst.
      apply mkInv; cbn; auto. intros x [= <-]. assumption.
    - apply fire_step_Inv, Hinv.
    - intros [= <- <-]. destruct Hinv as (H0 & H1 & Ha & Hna & Hw & Hp).
      apply mkInv; cbn; auto.
      + intros H. apply tick_mono, Ha, H.
      + apply tick_ok, Hw.
      + intros x Hx. apply tick_mono, Hp, Hx.
  Qed.

  (* ---- a buffered row stays buffered until it is reported in the batch of its own interval ---- *)
  Definition reported (r : row) (tr : list ev) : Prop :=
    exists b, In (EvBatch b) tr /\ b_start b = align (rts r) (size c) /\ In r (b_rows b).

  Lemma step_track s o s' evs r :
    Inv s -> 0 <= rts r -> In r (data s) -> step c s o = (s', evs) -> In r (data s') \/ reported r evs.
  Proof.
    intros Hinv Hr Hin. pose proof Hinv as (H0 & H1 & Ha & Hna & Hw & Hp).
    assert (Ei: init s = true).
    { destruct (init s) eqn:E; [reflexivity|]. destruct (H0 eq_refl) as [A _]. rewrite A in Hin. contradiction. }
    destruct (H1 Ei) as (Hal & Hd & Ht). rewrite Forall_forall in Hd. pose proof (Hd r Hin) as Hle.
    assert (Hnot: forall t, In t (trig s) -> in_twin t (rts r) = false).
    { intros t Hti. rewrite Forall_forall in Ht. specialize (Ht t Hti). unfold in_twin.
      apply andb_false_iff. right. apply Z.ltb_ge. lia. }
    destruct o as [id ts now|id| | |now]; cbn [step].
    - unfold add, add_core. rewrite Ei.
      set (w' := update_event_time (ooo c) now ts (w s)).
      assert (Hk: In r (data s ++ [(id, ts)])) by (apply in_or_app; left; exact Hin).
      destruct (is_late ts w'); cbn [negb andb].
      + destruct (inwin c (slot s) ts); [intros [= <- <-]; left; exact Hk|].
        destruct (0 <? lateness c); [|intros [= <- <-]; left; exact Hin].
        destruct (find _ (trig s)) as [t|] eqn:Ef; [|intros [= <- <-]; left; exact Hin].
        intros [= <- <-]. left. cbn. apply filter_In. split; [exact Hk|].
        apply find_some in Ef as [Hti _]. rewrite (Hnot t Hti). reflexivity.
      + intros [= <- <-]. left. exact Hk.
    - intros [= <- <-]. left; exact Hin.
    - destruct (pend s); [intros [= <- <-]; left; exact Hin|].
      destruct (pop_chan (w s)) as [[x w']|]; intros [= <- <-]; left; exact Hin.
    - unfold fire_step. destruct (pend s) as [wmk|]; [|intros [= <- <-]; left; exact Hin].
      rewrite Ei. cbn [negb].
      destruct (minl (cand c (slot s) wmk (data s))) as [a|] eqn:Em.
      + intros [= <- <-]. cbn. destruct (inwin c a (rts r)) eqn:Ew.
        * right. eexists. split; [left; reflexivity|]. cbn. split.
          -- pose proof (minl_in _ _ Em) as Hc. apply (cand_aligned c _ _ _ _ Hal) in Hc as (Haa & _ & _).
             apply aligned_unique; auto. unfold inwin in Ew. lia.
          -- apply filter_In. split; [exact Hin|exact Ew].
        * left. apply filter_In. split; [exact Hin|rewrite Ew; reflexivity].
      + intros [= <- <-]. left. unfold close_expired. cbn.
        destruct (filter (fun t => t_close t <=? wmk) (trig s)) as [|t0 l0] eqn:Ef; [exact Hin|].
        apply filter_In. split; [exact Hin|]. apply negb_true_iff.
        apply not_true_is_false. intros Hex. apply existsb_exists in Hex as [t [Hti Hi]].
        assert (In t (trig s)) by (rewrite <- Ef in Hti; apply filter_In in Hti; tauto).
        rewrite (Hnot t H) in Hi. discriminate.
    - intros [= <- <-]. left; exact Hin.
  Qed.

  Lemma reported_app_l r a b : reported r a -> reported r (a ++ b).
  Proof. intros [x [H1 H2]]. exists x. split; [apply in_or_app; left; exact H1|exact H2]. Qed.
  Lemma reported_app_r r a b : reported r b -> reported r (a ++ b).
  Proof. intros [x [H1 H2]]. exists x. split; [apply in_or_app; right; exact H1|exact H2]. Qed.

  Lemma run_Inv h : forall s s' tr, Inv s -> Forall nonneg_op h -> run c s h = (s', tr) -> Inv s'.
  Proof.
    induction h as [|o rest IH]; intros s s' tr Hinv Hh; cbn [run].
    - intros [= <- <-]. exact Hinv.
    - destruct (step c s o) as [s1 e1] eqn:E1. destruct (run c s1 rest) as [s2 e2] eqn:E2. intros [= <- <-].
      inversion Hh; subst. eapply (IH s1); [eapply step_Inv; eauto|assumption|exact E2].
  Qed.

  Lemma run_track h : forall s s' tr r,
    Inv s -> Forall nonneg_op h -> 0 <= rts r -> In r (data s) -> run c s h = (s', tr) ->
    Inv s' /\ (In r (data s') \/ reported r tr).
  Proof.
    induction h as [|o rest IH]; intros s s' tr r Hinv Hh Hr Hin; cbn [run].
    - intros [= <- <-]. auto.
    - destruct (step c s o) as [s1 e1] eqn:E1. destruct (run c s1 rest) as [s2 e2] eqn:E2. intros [= <- <-].
      inversion Hh; subst. pose proof (step_Inv _ _ _ _ Hinv H1 E1) as Hi1.
      destruct (step_track _ _ _ _ _ Hinv Hr Hin E1) as [Hd|Hrep].
      + destruct (IH _ _ _ _ Hi1 H2 Hr Hd E2) as [Hi2 [A|B]]; split; auto. right. apply reported_app_r, B.
      + assert (Hi2: Inv s2) by (eapply run_Inv; eauto).
        split; [exact Hi2|]. right. apply reported_app_l, Hrep.
  Qed.

  Lemma run_app h1 h2 s : run c s (h1 ++ h2) =
    let '(s1, e1) := run c s h1 in let '(s2, e2) := run c s1 h2 in (s2, e1 ++ e2).
  Proof.
    revert s; induction h1 as [|o r IH]; intros s; cbn [run app].
    - destruct (run c s h2); reflexivity.
    - destruct (step c s o) as [s1 e1]. rewrite IH. destruct (run c s1 r) as [sa ea].
      destruct (run c sa h2) as [sb eb]. rewrite app_assoc. reflexivity.
  Qed.

  (* The C01 liveness theorem. *)
  Theorem on_time_complete h1 id ts now h2 s1 tr1 s tr :
    Forall nonneg_op (h1 ++ Add id ts now :: h2) ->
    run c st0 h1 = (s1, tr1) ->
    is_late ts (update_event_time (ooo c) now ts (w s1)) = false ->      (* not late on arrival *)
    run c st0 (h1 ++ Add id ts now :: h2) = (s, tr) ->
    ts < slot s ->                                                        (* the current interval has moved past it *)
    reported (id, ts) tr.
  Proof.
    intros Hnn Hr1 Hlate Hrun Hslot. rewrite run_app, Hr1 in Hrun.
    apply Forall_app in Hnn as [Hn1 Hn2]. inversion Hn2 as [|? ? Hts Hn3]; subst.
    pose proof (run_Inv _ _ _ _ Inv_st0 Hn1 Hr1) as Hi1.
    cbn [run] in Hrun. destruct (step c s1 (Add id ts now)) as [sa ea] eqn:Ea.
    destruct (run c sa h2) as [sb eb] eqn:Eb. inversion Hrun; subst s tr. clear Hrun.
    pose proof (step_Inv _ _ _ _ Hi1 Hts Ea) as Hia.
    assert (Hin: In (id, ts) (data sa)).
    { cbn [step] in Ea. unfold add, add_core in Ea. rewrite Hlate in Ea. cbn [negb andb] in Ea.
      inversion Ea; subst sa. cbn. apply in_or_app. right. left. reflexivity. }
    destruct (run_track _ _ _ _ (id, ts) Hia Hn3 Hts Hin Eb) as [Hib [Hd|Hrep]].
    - exfalso. destruct Hib as (H0 & H1 & _).
      destruct (init sb) eqn:E.
      + destruct (H1 eq_refl) as (_ & Hf & _). rewrite Forall_forall in Hf. specialize (Hf _ Hd). cbn in Hf. lia.
      + destruct (H0 eq_refl) as (Hnil & _). rewrite Hnil in Hd. contradiction.
    - apply reported_app_r, reported_app_r, Hrep.
  Qed.

  (* when a watermark has been handled to the end, the slot lies beyond it *)
  Lemma deliver_end_slot s s' evs wmk :
    Inv s -> init s = true -> pend s = Some wmk -> fire_step c s = (s', evs) -> In EvDE evs ->
    wmk < slot s' + size c /\ pend s' = None.
  Proof.
    intros Hinv Ei Ep. unfold fire_step. rewrite Ep, Ei. cbn [negb].
    destruct (minl _) as [a|].
    - intros [= <- <-] [H|[]]. discriminate.
    - intros [= <- <-] _. unfold close_expired, rest_slot. cbn. split; [|reflexivity].
      destruct (slot s + size c <=? wmk) eqn:E; [|apply Z.leb_gt in E; lia].
      apply Z.leb_le in E. pose proof (grid_floor (slot s) (size c) wmk Hsize ltac:(lia)) as [G1 G2]. lia.
  Qed.

  Lemma slot_past sl wmk ts :
    aligned c sl -> 0 <= ts -> align ts (size c) + size c <= wmk -> wmk < sl + size c -> ts < sl.
  Proof.
    intros [k Hk] Hts H1 H2. pose proof (align_le ts (size c) Hsize Hts) as Ha.
    destruct (align_aligned c Hsize ts) as [j Hj]. rewrite Hj in *. subst sl.
    assert (Hjk: j < k) by nia. assert ((j + 1) * size c <= k * size c) by nia. lia.
  Qed.

  (* ---- first firings come in strictly increasing, non-overlapping order ---- *)
  Definition firsts (tr : list ev) : list batch := filter (fun b => negb (b_late b)) (batches tr).

  Lemma firsts_app a b : firsts (a ++ b) = firsts a ++ firsts b.
  Proof. unfold firsts. rewrite batches_app. apply filter_app. Qed.

  Lemma add_core_late id ts now s s' bs : add_core c id ts now s = (s', bs) -> Forall (fun b => b_late b = true) bs.
  Proof.
    unfold add_core.
    destruct (is_late ts _); [|intros [= <- <-]; constructor].
    destruct (inwin c _ ts); [intros [= <- <-]; constructor|].
    destruct (0 <? lateness c); [|intros [= <- <-]; constructor].
    destruct (find _ _); intros [= <- <-]; repeat constructor.
  Qed.

  Lemma step_shape s o s' evs :
    Inv s -> nonneg_op o -> step c s o = (s', evs) ->
    (firsts evs = [] /\ (adv s = true -> adv s' = true /\ slot s <= slot s')) \/
    (exists b, firsts evs = [b] /\ slot s <= b_start b /\ b_end b = slot s' /\ b_end b = b_start b + size c /\ adv s' = true).
  Proof.
    intros Hinv Hop. pose proof Hinv as (H0 & H1 & Ha & Hna & Hw & Hp).
    destruct o as [id ts now|id| | |now]; cbn [step].
    - unfold add. destruct (add_core c id ts now s) as [s1 bs] eqn:E. intros [= <- <-]. left. split.
      + unfold firsts. cbn. apply add_core_late in E. induction E as [|b l Hb Hl IH]; [reflexivity|]. cbn. rewrite Hb. cbn. exact IH.
      + intros Hadv. unfold add_core in E.
        set (w' := update_event_time (ooo c) now ts (w s)) in *.
        assert (Ei: init s = true).
        { destruct (init s) eqn:Ei; [reflexivity|]. destruct (H0 eq_refl) as (_ & _ & A). congruence. }
        rewrite Ei in E. cbn [andb] in E.
        assert (Hsl: (if negb (is_late ts w') && (ts <? slot s) then align ts (size c) else slot s) = slot s).
        { destruct (is_late ts w') eqn:El; [reflexivity|]. cbn [negb andb].
          destruct (ts <? slot s) eqn:Elt; [|reflexivity]. exfalso. apply Z.ltb_lt in Elt.
          specialize (Ha Hadv). apply (uet_mono (ooo c) now ts) in Ha. fold w' in Ha.
          unfold is_late in El. destruct (cur w') as [cu|]; cbn in Ha; [|exact Ha]. apply Z.ltb_ge in El. lia. }
        rewrite Hsl in E.
        repeat match type of E with context [if ?x then _ else _] => destruct x end;
          try (inversion E; subst; cbn; split; [exact Hadv|lia]).
        destruct (find _ _); inversion E; subst; cbn; split; try exact Hadv; lia.
    - intros [= <- <-]. left. split; [reflexivity|]. intros H; split; [exact H|lia].
    - destruct (pend s); [intros [= <- <-]; left; split; [reflexivity|intros H; split; [exact H|lia]]|].
      destruct (pop_chan (w s)) as [[x w']|]; intros [= <- <-]; left; (split; [reflexivity|intros H; split; [exact H|cbn; lia]]).
    - unfold fire_step. destruct (pend s) as [wmk|]; [|intros [= <- <-]; left; split; [reflexivity|intros H; split; [exact H|lia]]].
      destruct (init s) eqn:Ei; cbn [negb].
      2:{ intros [= <- <-]. left. split; [reflexivity|]. intros H; split; [exact H|cbn; lia]. }
      destruct (H1 eq_refl) as (Hal & Hd & Ht).
      destruct (minl _) as [a|] eqn:Em.
      + intros [= <- <-]. right. eexists. split; [reflexivity|]. cbn.
        pose proof (minl_in _ _ Em) as Hin. apply (cand_aligned c _ _ _ _ Hal) in Hin as (_ & Hle & _). auto.
      + intros [= <- <-]. left. split; [reflexivity|]. intros H. unfold close_expired. cbn. rewrite H. cbn. split; [reflexivity|].
        unfold rest_slot. destruct (slot s + size c <=? wmk) eqn:E; [|lia].
        apply Z.leb_le in E. pose proof (grid_floor (slot s) (size c) wmk Hsize ltac:(lia)) as [G1 G2]. lia.
    - intros [= <- <-]. left. split; [reflexivity|]. intros H; split; [exact H|cbn; lia].
  Qed.

  Definition before (a b : batch) : Prop := b_end a <= b_start b.

  Lemma run_sorted h : forall s s' tr,
    Inv s -> Forall nonneg_op h -> run c s h = (s', tr) ->
    StronglySorted before (firsts tr) /\ (adv s = true -> Forall (fun b => slot s <= b_start b) (firsts tr)).
  Proof.
    induction h as [|o rest IH]; intros s s' tr Hinv Hh; cbn [run].
    - intros [= <- <-]. split; [constructor|intros _; constructor].
    - destruct (step c s o) as [s1 e1] eqn:E1. destruct (run c s1 rest) as [s2 e2] eqn:E2. intros [= <- <-].
      inversion Hh; subst. pose proof (step_Inv _ _ _ _ Hinv H1 E1) as Hi1.
      destruct (IH _ _ _ Hi1 H2 E2) as [Hs Hb]. rewrite firsts_app.
      destruct (step_shape _ _ _ _ Hinv H1 E1) as [[Hf Hm]|[b (Hf & Hle & Hend & Hsz & Hadv)]]; rewrite Hf; cbn [app].
      + split; [exact Hs|]. intros Hadv. destruct (Hm Hadv) as [A B].
        eapply Forall_impl; [|apply Hb, A]. cbn. intros x Hx. lia.
      + specialize (Hb Hadv). split.
        * constructor; [exact Hs|]. eapply Forall_impl; [|exact Hb]. unfold before. cbn. intros x Hx. lia.
        * intros _. constructor; [exact Hle|]. eapply Forall_impl; [|exact Hb]. cbn. intros x Hx. lia.
  Qed.
End Complete.

Lemma watermark_moves_slot c s s' evs wmk ts :
  0 < size c -> Inv c s -> init s = true -> pend s = Some wmk -> fire_step c s = (s', evs) -> In EvDE evs ->
  Inv c s' -> 0 <= ts -> align ts (size c) + size c <= wmk -> ts < slot s'.
Proof.
  intros Hs Hi Hinit Hp Hf Hde Hi' Hts Hw.
  destruct (deliver_end_slot c Hs s s' evs wmk Hi Hinit Hp Hf Hde) as [Hlt _].
  assert (Hinit': init s' = true).
  { unfold fire_step in Hf. rewrite Hp, Hinit in Hf. cbn in Hf. destruct (minl _); inversion Hf; subst; reflexivity. }
  destruct Hi' as (_ & H1 & _). destruct (H1 Hinit') as (Hal & _).
  exact (slot_past c Hs (slot s') wmk ts Hal Hts Hw Hlt).
Qed.
