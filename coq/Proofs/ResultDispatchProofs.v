(* C20 — proofs about the result pipeline of the window path (Model/ResultDispatch.v). *)
From Coq Require Import List Arith Lia Bool.
From SV Require Import Base.Bytes Model.Isolation Proofs.IsolationProofs Model.ResultDispatch.
Import ListNotations.

(* ------------------------------------------------------------------ writes stay inside the batch *)
Lemma rd_write_all_length : forall f b h, length (rd_write_all f h b) = length h.
Proof.
  intros f b. induction b as [|a b IH]; intros h; simpl; auto.
  rewrite IH. apply iso_hput_length.
Qed.

Lemma rd_write_all_other : forall f b h a, ~ In a b -> iso_hget (rd_write_all f h b) a = iso_hget h a.
Proof.
  intros f b. induction b as [|x b IH]; intros h a Hn; simpl; auto.
  rewrite IH.
  - apply iso_hput_other. intro E. apply Hn. left. exact E.
  - intro Hin. apply Hn. right. exact Hin.
Qed.

Lemma rd_filter_in : forall p h b x, In x (rd_filter p h b) -> In x b.
Proof.
  intros p h b x H. destruct p as [f|]; simpl in H; auto.
  apply filter_In in H. tauto.
Qed.

Lemma rd_insert_in : forall le h a s x, In x (rd_insert le h a s) -> x = a \/ In x s.
Proof.
  intros le h a s. induction s as [|y s IH]; intros x H; simpl in H.
  - destruct H as [H|[]]. left. auto.
  - destruct (le (iso_hget h a) (iso_hget h y)).
    + destruct H as [H|H]; [left; auto | right; exact H].
    + destruct H as [H|H].
      * right. left. exact H.
      * destruct (IH x H) as [E|I]; [left; exact E | right; right; exact I].
Qed.

Lemma rd_sort_in : forall le h b x, In x (rd_sort le h b) -> In x b.
Proof.
  intros le h b. induction b as [|a b IH]; intros x H; simpl in H; auto.
  apply rd_insert_in in H. destruct H as [E|H]; [left; auto | right; apply IH; exact H].
Qed.

Lemma rd_limit_in : forall n b x, In x (rd_limit_cut n b) -> In x b.
Proof.
  intros n b x H. unfold rd_limit_cut in H.
  destruct ((0 <? n) && (n <? length b)); auto.
  rewrite <- (firstn_skipn n b). apply in_or_app. left. exact H.
Qed.

Lemma rd_dispatch_frame : forall df c h b h2 d,
  rd_dispatch df c h b = (h2, d) ->
  length h2 = length h /\
  (forall a, ~ In a b -> iso_hget h2 a = iso_hget h a) /\
  (forall x, In x (fst d) -> In x b).
Proof.
  intros df c h b h2 d H. unfold rd_dispatch in H. cbv zeta in H.
  set (h0 := rd_write_all (rd_pre c) h b) in *.
  set (b1 := rd_filter (rd_having c) h0 (rd_filter (rd_distinct c) h0 b)) in *.
  set (strip := match rd_having c with Some _ => true | None => false end) in *.
  set (h1 := if strip && negb df then rd_strip_all h0 b1 else h0) in *.
  assert (Hb1 : forall x, In x b1 -> In x b).
  { intros x Hx. unfold b1 in Hx. apply rd_filter_in in Hx. apply rd_filter_in in Hx. exact Hx. }
  assert (Hl0 : length h0 = length h) by (unfold h0; apply rd_write_all_length).
  assert (Ho0 : forall a, ~ In a b -> iso_hget h0 a = iso_hget h a)
    by (intros a Ha; unfold h0; apply rd_write_all_other; exact Ha).
  assert (Hl1 : length h1 = length h).
  { unfold h1. destruct (strip && negb df); auto. unfold rd_strip_all. rewrite rd_write_all_length. exact Hl0. }
  assert (Ho1 : forall a, ~ In a b -> iso_hget h1 a = iso_hget h a).
  { intros a Ha. unfold h1. destruct (strip && negb df); auto.
    unfold rd_strip_all. rewrite rd_write_all_other; auto. }
  injection H as E1 E2; subst h2 d. split; [|split].
  - destruct (strip && df); auto. unfold rd_strip_all. rewrite rd_write_all_length. exact Hl1.
  - intros a Ha. destruct (strip && df); auto.
    unfold rd_strip_all. rewrite rd_write_all_other; auto.
  - intros x Hx. simpl in Hx. apply rd_limit_in in Hx.
    destruct (rd_ordered c); [apply rd_sort_in in Hx|]; apply Hb1; exact Hx.
Qed.

(* the code: nothing is written after the hand-over *)
Lemma rd_dispatch_faithful : forall c h b h2 d,
  rd_dispatch false c h b = (h2, d) -> map (iso_hget h2) (fst d) = snd d.
Proof.
  intros c h b h2 d H. unfold rd_dispatch in H.
  rewrite andb_false_r in H. inversion H; subst. reflexivity.
Qed.

(* ------------------------------------------------------------------ firing after firing *)
Lemma rd_run_cons : forall df c h rows r,
  rd_run df c h (rows :: r) =
  let '(h2, d) := rd_dispatch df c (h ++ rows) (seq (length h) (length rows)) in
  let '(h3, ds) := rd_run df c h2 r in (h3, d :: ds).
Proof. reflexivity. Qed.

Lemma rd_run_frame : forall df c fs h h' ds,
  rd_run df c h fs = (h', ds) ->
  length h <= length h' /\ forall a, a < length h -> iso_hget h' a = iso_hget h a.
Proof.
  intros df c fs. induction fs as [|rows r IH]; intros h h' ds H.
  - simpl in H. inversion H; subst. split; auto.
  - rewrite rd_run_cons in H. destruct (rd_dispatch df c (h ++ rows) (seq (length h) (length rows))) as [h2 d] eqn:Hd.
    destruct (rd_run df c h2 r) as [h3 ds'] eqn:Hr.
    injection H as E1 E2; subst h' ds.
    destruct (rd_dispatch_frame _ _ _ _ _ _ Hd) as [Hl [Ho _]].
    destruct (IH _ _ _ Hr) as [Hle Hf].
    rewrite Hl, app_length in Hle. split; [lia|].
    intros a Ha. rewrite Hf by (rewrite Hl, app_length; lia).
    rewrite Ho.
    + apply iso_hget_app_lt. exact Ha.
    + intro Hin. apply in_seq in Hin. lia.
Qed.

Lemma rd_run_stable : forall c fs h h' ds,
  rd_run false c h fs = (h', ds) ->
  forall d, In d ds -> map (iso_hget h') (fst d) = snd d.
Proof.
  intros c fs. induction fs as [|rows r IH]; intros h h' ds H d Hin.
  - simpl in H. inversion H; subst. inversion Hin.
  - rewrite rd_run_cons in H. destruct (rd_dispatch false c (h ++ rows) (seq (length h) (length rows))) as [h2 d0] eqn:Hd.
    destruct (rd_run false c h2 r) as [h3 ds'] eqn:Hr.
    injection H as E1 E2; subst h' ds.
    destruct Hin as [E|Hin].
    + subst d0.
      destruct (rd_dispatch_frame _ _ _ _ _ _ Hd) as [Hl [_ Hsub]].
      destruct (rd_run_frame _ _ _ _ _ _ Hr) as [_ Hf].
      rewrite <- (rd_dispatch_faithful _ _ _ _ _ Hd).
      apply map_ext_in. intros a Ha. apply Hf.
      apply Hsub in Ha. apply in_seq in Ha. rewrite Hl, app_length. lia.
    + eapply IH; eauto.
Qed.

Lemma rd_run_delivered_stable : forall c firings h h' ds,
  rd_run false c h firings = (h', ds) ->
  (forall d, In d ds -> map (iso_hget h') (fst d) = snd d) /\
  (forall a, a < length h -> iso_hget h' a = iso_hget h a).
Proof.
  intros c firings h h' ds H. split.
  - exact (rd_run_stable c firings h h' ds H).
  - exact (proj2 (rd_run_frame false c firings h h' ds H)).
Qed.

(* ------------------------------------------------------------------ the deferred removal is refuted *)
Lemma rd_dispatch_deferred_alters : forall c p h row,
  rd_having c = Some p ->
  rd_distinct c = None ->
  p (rd_pre c row) = true ->
  rd_strip (rd_pre c row) <> rd_pre c row ->
  forall h' ds, rd_run true c h [[row]] = (h', ds) ->
  exists d, In d ds /\ fst d = [length h] /\ snd d = [rd_pre c row] /\
            map (iso_hget h') (fst d) <> snd d.
Proof.
  intros c p h row Hh Hdi Hp Hne h' ds H.
  rewrite rd_run_cons in H. unfold rd_dispatch in H. cbv zeta in H. rewrite Hh, Hdi in H.
  cbn [rd_run rd_filter rd_write_all rd_strip_all length seq filter andb negb app] in H.
  assert (Hlt : length h < length (h ++ [row])) by (rewrite app_length; simpl; lia).
  rewrite iso_hget_app_end in H.
  rewrite (iso_hput_same (h ++ [row]) (length h) (rd_pre c row) Hlt) in H.
  rewrite Hp in H.
  assert (Hs : forall le hh, rd_sort le hh [length h] = [length h]) by reflexivity.
  assert (Hb2 : (if rd_ordered c
                 then rd_sort (rd_before c) (iso_hput (h ++ [row]) (length h) (rd_pre c row)) [length h]
                 else [length h]) = [length h]) by (destruct (rd_ordered c); reflexivity).
  rewrite Hb2 in H.
  assert (Hc : rd_limit_cut (rd_limit c) [length h] = [length h]).
  { unfold rd_limit_cut. simpl. destruct (rd_limit c) as [|[|n]]; reflexivity. }
  rewrite Hc in H. simpl in H.
  rewrite (iso_hput_same (h ++ [row]) (length h) (rd_pre c row) Hlt) in H.
  injection H as E1 E2; subst h' ds.
  eexists. split; [left; reflexivity|]. simpl. repeat split.
  assert (Hlt2 : length h < length (iso_hput (h ++ [row]) (length h) (rd_pre c row)))
    by (rewrite iso_hput_length; exact Hlt).
  rewrite (iso_hput_same _ (length h) _ Hlt2).
  intro E. inversion E. contradiction.
Qed.

(* ------------------------------------------------------------------ witnesses *)
(* SELECT device, count( * ) AS c ... HAVING max(v) > 4 : the row of a firing carries the hidden aggregate *)
Definition rd_k_c : bytes := [99]%N.
Definition rd_k_h0 : bytes := rd_hidden_prefix ++ [48; 95; 95]%N.      (* "__having_0__" *)
Definition rd_cfg_ex : rd_cfg :=
  {| rd_pre := fun r => r; rd_distinct := None;
     rd_having := Some (fun r => match iso_lookup rd_k_h0 r with Some (IInt z) => Z.ltb 4 z | _ => false end);
     rd_ordered := false; rd_before := fun _ _ => true; rd_limit := 0 |}.
Definition rd_row_ex : irow := [(rd_k_c, IInt 2); (rd_k_h0, IInt 6)].

Lemma rd_example_code :
  rd_run false rd_cfg_ex [] [[rd_row_ex]] = ([[(rd_k_c, IInt 2)]], [([0], [[(rd_k_c, IInt 2)]])]).
Proof. vm_compute. reflexivity. Qed.

Lemma rd_example_deferred :
  rd_run true rd_cfg_ex [] [[rd_row_ex]] = ([[(rd_k_c, IInt 2)]], [([0], [rd_row_ex])]).
Proof. vm_compute. reflexivity. Qed.
