(* Where the Go carrier of a number does not matter (and where, in the code as it is, it does). *)
From Coq Require Import Lia.
From SV Require Import Model.GroupKey Model.Counting Model.NumCarrier Proofs.GroupKeyProofs.

Lemma dec_N_Z : forall z, (0 <= z)%Z -> k_dec_N (Z.to_N z) = k_dec_Z z.
Proof.
  intros z Hz. destruct z as [|p|p].
  - reflexivity.
  - reflexivity.
  - exfalso. lia.
Qed.

Lemma in_range_iff : forall lo hi z, in_range lo hi z = true <-> (lo <= z <= hi)%Z.
Proof.
  intros lo hi z. unfold in_range. rewrite andb_true_iff, !Z.leb_le. tauto.
Qed.

(* ---- the aggregator's key: the kind is a property of the number, not of its Go type -------------- *)
Lemma type_key_carrier : forall ty v, carries ty v = true -> go_type_key ty v = k_type_key (num_value v).
Proof.
  intros ty v H. destruct v as [z|t64 t32].
  - destruct ty; simpl in H; apply in_range_iff in H; simpl;
      try reflexivity;
      try (rewrite dec_N_Z by lia; reflexivity).
    + (* float32 *)
      replace (in_range (-9223372036854775808) 9223372036854775807 z) with true
        by (symmetry; apply in_range_iff; lia).
      reflexivity.
    + (* float64 *)
      replace (in_range (-9223372036854775808) 9223372036854775807 z) with true
        by (symmetry; apply in_range_iff; lia).
      reflexivity.
  - destruct ty; simpl in H; try discriminate H; reflexivity.
Qed.

Theorem key_part_carrier : forall ty v, carries ty v = true -> go_key_part ty v = k_key_part (num_value v).
Proof.
  intros ty v H. unfold go_key_part, k_key_part. rewrite (type_key_carrier ty v H). reflexivity.
Qed.

(* ---- the window's key text --------------------------------------------------------------------- *)
Lemma to_string_carrier : forall ty v, carries ty v = true -> prints_alike ty v = true ->
  k_esc (go_to_string ty v) = k_col_text (num_value v).
Proof.
  intros ty v H P. destruct v as [z|t64 t32].
  - simpl. f_equal. destruct ty; simpl in H; apply in_range_iff in H; simpl in P; simpl; try reflexivity.
    + (* uint *)
      apply dec_N_Z. lia.
    + (* uint64 *)
      apply dec_N_Z. lia.
  - simpl. f_equal. destruct ty; simpl in H; try discriminate H.
    + destruct t32 as [t|]; [|discriminate H]. simpl in P. apply bytes_eqb_iff in P. exact P.
    + destruct t32; reflexivity.
Qed.

(* ---- rows ------------------------------------------------------------------------------------------ *)
Lemma c_col_text_erase : forall c, cvalue_carried c = true -> cvalue_alike c = true ->
  c_col_text c = k_col_text (knorm (erase_value c)).
Proof.
  intros [v|ty v] H P; simpl; [reflexivity|]. apply to_string_carrier; assumption.
Qed.

Lemma c_agg_part_erase : forall c, cvalue_carried c = true -> c_agg_part c = k_key_part (knorm (erase_value c)).
Proof.
  intros [v|ty v] H; simpl; [reflexivity|]. apply key_part_carrier; assumption.
Qed.

Theorem agg_key_carrier : forall r, crow_carried r = true -> c_agg_key r = agg_key (erase_row r).
Proof.
  intros [id vs] H. unfold c_agg_key, agg_key, enc_tuple, ktuple_of, crow_carried in *. simpl in *.
  rewrite !map_map. f_equal. apply map_ext_in. intros c Hc.
  apply c_agg_part_erase. rewrite forallb_forall in H. auto.
Qed.

Theorem cnt_key_carrier : forall r, crow_carried r = true -> crow_alike r = true ->
  c_cnt_key r = cnt_key (erase_row r).
Proof.
  intros [id vs] H P. unfold crow_carried, crow_alike in H, P. simpl in H, P.
  assert (E : map c_col_text vs = map k_col_text (map knorm (map erase_value vs))).
  { rewrite !map_map. apply map_ext_in. intros x Hx. rewrite forallb_forall in H, P.
    apply c_col_text_erase; auto. }
  unfold c_cnt_key, cnt_key, win_key, tuple_key, enc_win, ktuple_of, erase_row.
  cbn [cvals kvals]. rewrite <- E.
  destruct vs as [|c vs]; reflexivity.
Qed.

(* The window-side key and the aggregator-side key of carried rows agree: two rows are counted in one
   buffer iff they are aggregated in one group iff they carry the same tuple of values. *)
Theorem carrier_sites_agree : forall sch r1 r2,
  crow_carried r1 = true -> crow_alike r1 = true -> crow_carried r2 = true -> crow_alike r2 = true ->
  conforms sch (ktuple_of (erase_row r1)) -> conforms sch (ktuple_of (erase_row r2)) ->
  (c_cnt_key r1 = c_cnt_key r2 <-> ktuple_of (erase_row r1) = ktuple_of (erase_row r2))
  /\ (c_agg_key r1 = c_agg_key r2 <-> ktuple_of (erase_row r1) = ktuple_of (erase_row r2)).
Proof.
  intros sch r1 r2 H1 P1 H2 P2 C1 C2.
  rewrite (cnt_key_carrier r1 H1 P1), (cnt_key_carrier r2 H2 P2), (agg_key_carrier r1 H1), (agg_key_carrier r2 H2).
  split.
  - exact (win_key_iff s_global sch _ _ C1 C2).
  - apply agg_key_iff.
Qed.

(* the whole Add sequence: the keys the window computes on the carried rows are the keys of the
   model of Model/Counting.v on the numbers, so every theorem about [cw_run] speaks about them *)
Theorem cnt_keys_carrier : forall h,
  Forall (fun r => crow_carried r = true /\ crow_alike r = true) h ->
  map c_cnt_key h = map cnt_key (map erase_row h).
Proof.
  intros h F. rewrite map_map. apply map_ext_in. intros r Hr.
  rewrite Forall_forall in F. destruct (F r Hr). apply cnt_key_carrier; assumption.
Qed.

(* ---- where the carrier does matter in the code as it is ------------------------------------------
   (1) float32: ToString prints the shortest text that identifies the number among the float32s. The
       float32 nearest to 1.1 is 1.10000002384185791015625: it is counted under "1.1" when it travels as
       float32 and under "1.100000023841858" when the same number travels as float64 -- one number, two
       buffers -- while the aggregator gives both one group. *)
Definition w11 : gnum :=
  NumFrac [49; 46; 49; 48; 48; 48; 48; 48; 48; 50; 51; 56; 52; 49; 56; 53; 56]%N (Some [49; 46; 49]%N).

Lemma float32_text_splits_one_number :
  carries GFloat32 w11 = true /\ carries GFloat64 w11 = true
  /\ go_to_string GFloat32 w11 <> go_to_string GFloat64 w11
  /\ go_key_part GFloat32 w11 = go_key_part GFloat64 w11.
Proof. repeat split; try reflexivity. intro H. discriminate H. Qed.

(*     ... and the float64 1.1 (a different number) is counted together with the float32 above, although
       the aggregator separates them *)
Definition d11 : gnum := NumFrac [49; 46; 49]%N None.

Lemma float32_text_merges_two_numbers :
  num_value w11 <> num_value d11
  /\ go_to_string GFloat32 w11 = go_to_string GFloat64 d11
  /\ go_key_part GFloat32 w11 <> go_key_part GFloat64 d11.
Proof. repeat split; try reflexivity; intro H; discriminate H. Qed.

(* (2) uint (repaired, F47): uint(2^64-5) and int64(-5) are different numbers under different texts *)
Lemma uint_text_no_wrap :
  carries GUint (NumInt 18446744073709551611) = true /\ carries GInt64 (NumInt (-5)) = true
  /\ go_to_string GUint (NumInt 18446744073709551611) <> go_to_string GInt64 (NumInt (-5))
  /\ go_key_part GUint (NumInt 18446744073709551611) <> go_key_part GInt64 (NumInt (-5)).
Proof. repeat split; try reflexivity; intro H; vm_compute in H; discriminate H. Qed.
