(* C11 -- "a literal is data": the reference parser never looks inside the value of a string literal or
   a back-quoted identifier.  Rewriting the values of those tokens by ANY function commutes with
   parse_ref: the statement is accepted or rejected alike, and the skeleton is the same up to the
   rewritten literal values (select-item / WHERE / HAVING tokens, window parameters, WITH values).
   This is the spec-level statement behind the harness families Q and D (harness/c11_quotes.go): a
   statement and its twin with neutral literal contents have the same reference structure. *)
From SV Require Import Model.Lexer Model.Stmt.
From Coq Require Import Lia.
Local Open Scope N_scope.

Definition is_lit (t : token) : bool := ty_is T_String t || ty_is T_QIdent t.

Section Relit.
Variable f : bytes -> bytes.

Definition relit (t : token) : token := if is_lit t then mkTok (ttype t) (f (tval t)) else t.
Definition relit_item (i : item) : item := mkItem (map relit (it_expr i)) (it_alias i).
Definition relit_win (w : wincall) : wincall := mkWin (w_kind w) (map relit (w_params w)).
Definition relit_gitem (g : gitem) : gitem := match g with GCol c => GCol c | GWin w => GWin (relit_win w) end.
Definition relit_opt (o : N * bytes) : N * bytes := (fst o, f (snd o)).
Definition relit_stmt (st : stmt) : stmt :=
  mkStmt (s_distinct st) (map relit_item (s_items st)) (s_source st) (s_alias st) (s_joins st)
         (map relit (s_where st)) (s_group st) (option_map relit_win (s_window st))
         (map relit (s_having st)) (map relit_opt (s_with st)) (s_order st) (s_limit st).

Notation R := relit.
Definition omap {A B : Type} (g : A -> B) (o : option (A * list token)) : option (B * list token) :=
  match o with Some (x, r) => Some (g x, map R r) | None => None end.

(* ---------- the token map keeps types, and every token that is not a literal ---------- *)
Lemma R_ttype : forall t, ttype (R t) = ttype t.
Proof. intros t. unfold relit. destruct (is_lit t); reflexivity. Qed.
Lemma R_ty_is : forall k t, ty_is k (R t) = ty_is k t.
Proof. intros k t. unfold ty_is. rewrite R_ttype. reflexivity. Qed.
Lemma R_keep : forall k t, ty_is k t = true -> N.eqb k T_String = false -> N.eqb k T_QIdent = false -> R t = t.
Proof.
  intros k t H H3 H4. unfold relit, is_lit, ty_is in *. apply N.eqb_eq in H. rewrite H, H3, H4. reflexivity.
Qed.
Lemma R_ident : forall t, ty_is T_Ident t = true -> R t = t.
Proof. intros t H. apply (R_keep _ _ H); reflexivity. Qed.
Lemma R_number : forall t, ty_is T_Number t = true -> R t = t.
Proof. intros t H. apply (R_keep _ _ H); reflexivity. Qed.
Lemma R_ieq : forall w t, ieq w (R t) = ieq w t.
Proof.
  intros w t. unfold ieq. rewrite R_ty_is. destruct (ty_is T_Ident t) eqn:E; [|reflexivity].
  rewrite (R_ident _ E). reflexivity.
Qed.
Lemma R_boundary : forall t, is_boundary_ident (R t) = is_boundary_ident t.
Proof.
  intros t. unfold is_boundary_ident. induction boundary_words as [|w l IH]; [reflexivity|].
  cbn [existsb]. rewrite R_ieq, IH. reflexivity.
Qed.
Lemma R_win_kind : forall t, is_win_kind (ttype (R t)) = is_win_kind (ttype t).
Proof. intros t. rewrite R_ttype. reflexivity. Qed.
Lemma R_item_stop : forall t, item_stop (R t) = item_stop t.
Proof. intros t. unfold item_stop. rewrite !R_ty_is. reflexivity. Qed.
Lemma R_cond_stop : forall t, cond_stop (R t) = cond_stop t.
Proof. intros t. unfold cond_stop. rewrite !R_ty_is, R_ttype. reflexivity. Qed.
Lemma R_join_start : forall t, join_start (R t) = join_start t.
Proof. intros t. unfold join_start. rewrite !R_ieq. reflexivity. Qed.

Lemma hd_is_R : forall (p : token -> bool) toks, (forall t, p (R t) = p t) -> hd_is p (map R toks) = hd_is p toks.
Proof. intros p [|t r] H; [reflexivity|]. simpl. apply H. Qed.
Lemma tl_R : forall toks, tl (map R toks) = map R (tl toks).
Proof. intros [|t r]; reflexivity. Qed.
Lemma expect_R : forall (p : token -> bool) toks, (forall t, p (R t) = p t) ->
  expect p (map R toks) = omap R (expect p toks).
Proof. intros p [|t r] H; [reflexivity|]. simpl. rewrite H. destruct (p t); reflexivity. Qed.

(* ---------- separated lists ---------- *)
Lemma sep_by_R : forall {A : Type} (p : list token -> option (A * list token)) (g : A -> A) sep,
  (forall toks, p (map R toks) = omap g (p toks)) ->
  forall fuel toks, sep_by p sep fuel (map R toks) = omap (map g) (sep_by p sep fuel toks).
Proof.
  intros A p g sep Hp. induction fuel as [|n IH]; intros toks; [reflexivity|].
  cbn [sep_by]. rewrite Hp. destruct (p toks) as [[x r]|]; [|reflexivity]. cbn [omap].
  rewrite hd_is_R by (intros; apply R_ty_is). destruct (hd_is (ty_is sep) r); [|reflexivity].
  rewrite tl_R, IH. destruct (sep_by p sep n (tl r)) as [[xs r']|]; reflexivity.
Qed.

(* ---------- select items ---------- *)
Lemma take_expr_R : forall toks d,
  take_expr d (map R toks) = (map R (fst (take_expr d toks)), map R (snd (take_expr d toks))).
Proof.
  induction toks as [|t r IH]; intros d; [reflexivity|].
  cbn [map take_expr]. rewrite R_item_stop, !R_ty_is.
  destruct (Nat.eqb d 0 && item_stop t); [reflexivity|].
  rewrite IH. destruct (take_expr _ r) as [a b]. reflexivity.
Qed.
Lemma p_alias_R : forall toks, p_alias (map R toks) = omap (fun a => a) (p_alias toks).
Proof.
  intros [|t r]; [reflexivity|]. cbn [map p_alias]. rewrite R_ty_is. destruct (ty_is T_AS t); [|reflexivity].
  destruct r as [|a r']; [reflexivity|]. cbn [map]. rewrite R_ty_is.
  destruct (ty_is T_Ident a) eqn:E; [|reflexivity]. rewrite (R_ident _ E). reflexivity.
Qed.
Lemma p_item_R : forall toks, p_item (map R toks) = omap relit_item (p_item toks).
Proof.
  intros toks. unfold p_item. rewrite take_expr_R. destruct (take_expr 0 toks) as [e r]. cbn [fst snd].
  destruct e as [|e0 e']; [reflexivity|]. cbn [map]. rewrite p_alias_R.
  destruct (p_alias r) as [[a r']|]; reflexivity.
Qed.

(* ---------- source alias, joins ---------- *)
Lemma p_alias2_R : forall toks, p_alias2 (map R toks) = omap (fun a => a) (p_alias2 toks).
Proof.
  intros [|t r]; [reflexivity|]. cbn [map p_alias2]. rewrite !R_ty_is, R_boundary.
  destruct (ty_is T_AS t).
  - destruct r as [|a r']; [reflexivity|]. cbn [map]. rewrite R_ty_is.
    destruct (ty_is T_Ident a) eqn:E; [|reflexivity]. rewrite (R_ident _ E). reflexivity.
  - destruct (ty_is T_Ident t) eqn:E; [|reflexivity].
    destruct (negb (is_boundary_ident t)); cbn [andb omap map]; rewrite ?(R_ident _ E); reflexivity.
Qed.
Lemma p_pair_R : forall toks, p_pair (map R toks) = omap (fun a => a) (p_pair toks).
Proof.
  intros [|a [|e [|b r]]]; try reflexivity. cbn [map p_pair]. rewrite !R_ty_is.
  destruct (ty_is T_Ident a) eqn:Ea; [|reflexivity]. destruct (ty_is T_EQ e); [|reflexivity].
  destruct (ty_is T_Ident b) eqn:Eb; [|reflexivity]. rewrite (R_ident _ Ea), (R_ident _ Eb). reflexivity.
Qed.
Lemma p_join_head_R : forall toks, p_join_head (map R toks) = omap (fun a => a) (p_join_head toks).
Proof.
  intros [|t r]; [reflexivity|]. cbn [map p_join_head]. rewrite !R_ieq.
  destruct (ieq W_JOIN t); [reflexivity|]. destruct (ieq W_INNER t).
  - rewrite expect_R by apply R_ieq. destruct (expect (ieq W_JOIN) r) as [[x r']|]; reflexivity.
  - destruct (ieq W_LEFT t); [|reflexivity].
    rewrite hd_is_R by apply R_ieq. rewrite tl_R.
    replace (if hd_is (ieq W_OUTER) r then map R (tl r) else map R r) with (map R (if hd_is (ieq W_OUTER) r then tl r else r))
      by (destruct (hd_is (ieq W_OUTER) r); reflexivity).
    rewrite expect_R by apply R_ieq.
    destruct (expect (ieq W_JOIN) (if hd_is (ieq W_OUTER) r then tl r else r)) as [[x r']|]; reflexivity.
Qed.
Lemma p_join_R : forall fuel toks, p_join fuel (map R toks) = omap (fun j => j) (p_join fuel toks).
Proof.
  intros fuel toks. unfold p_join. rewrite p_join_head_R.
  destruct (p_join_head toks) as [[lf r]|]; [|reflexivity]. cbn [omap].
  rewrite expect_R by (intros; apply R_ty_is).
  destruct (expect (ty_is T_Ident) r) as [[tb r1]|] eqn:Et; [|reflexivity]. cbn [omap].
  assert (Htb : R tb = tb).
  { destruct r as [|t0 r0]; [discriminate|]. simpl in Et. destruct (ty_is T_Ident t0) eqn:E0; [|discriminate].
    inversion Et; subst. apply R_ident. exact E0. }
  rewrite Htb, p_alias2_R. destruct (p_alias2 r1) as [[al r2]|]; [|reflexivity]. cbn [omap].
  rewrite expect_R by apply R_ieq. destruct (expect (ieq W_ON) r2) as [[o r3]|]; [|reflexivity]. cbn [omap].
  rewrite (sep_by_R p_pair (fun a => a) T_AND p_pair_R).
  destruct (sep_by p_pair T_AND fuel r3) as [[ps r4]|]; [|reflexivity]. cbn [omap]. rewrite map_id. reflexivity.
Qed.
Lemma p_joins_R : forall fuel toks, p_joins fuel (map R toks) = omap (fun j => j) (p_joins fuel toks).
Proof.
  induction fuel as [|n IH]; intros toks; [reflexivity|].
  cbn [p_joins]. rewrite hd_is_R by apply R_join_start. destruct (hd_is join_start toks); [|reflexivity].
  rewrite p_join_R. destruct (p_join (S n) toks) as [[j r]|]; [|reflexivity]. cbn [omap].
  rewrite IH. destruct (p_joins n r) as [[js r']|]; reflexivity.
Qed.

(* ---------- conditions ---------- *)
Lemma break_at_R : forall (p : token -> bool) toks, (forall t, p (R t) = p t) ->
  break_at p (map R toks) = (map R (fst (break_at p toks)), map R (snd (break_at p toks))).
Proof.
  intros p toks H. induction toks as [|t r IH]; [reflexivity|].
  cbn [map break_at]. rewrite H. destruct (p t); [reflexivity|]. rewrite IH. destruct (break_at p r). reflexivity.
Qed.
Lemma p_cond_R : forall k toks,
  p_cond k (map R toks) = (map R (fst (p_cond k toks)), map R (snd (p_cond k toks))).
Proof.
  intros k toks. unfold p_cond. rewrite hd_is_R by (intros; apply R_ty_is).
  destruct (hd_is (ty_is k) toks); [|reflexivity]. rewrite tl_R. apply break_at_R. apply R_cond_stop.
Qed.

(* ---------- GROUP BY ---------- *)
Lemma p_param_R : forall toks, p_param (map R toks) = omap R (p_param toks).
Proof. intros toks. unfold p_param. apply expect_R. intros t. rewrite !R_ty_is. reflexivity. Qed.
Lemma p_gitem_R : forall fuel toks, p_gitem fuel (map R toks) = omap relit_gitem (p_gitem fuel toks).
Proof.
  intros fuel [|t r]; [reflexivity|]. cbn [map p_gitem]. rewrite R_ty_is, R_ttype.
  destruct (ty_is T_Ident t) eqn:E; [rewrite (R_ident _ E); reflexivity|].
  destruct (is_win_kind (ttype t)); [|reflexivity].
  rewrite expect_R by (intros; apply R_ty_is). destruct (expect (ty_is T_LParen) r) as [[l r1]|]; [|reflexivity]. cbn [omap].
  rewrite (sep_by_R p_param R T_Comma p_param_R). destruct (sep_by p_param T_Comma fuel r1) as [[ps r2]|]; [|reflexivity]. cbn [omap].
  rewrite expect_R by (intros; apply R_ty_is). destruct (expect (ty_is T_RParen) r2) as [[x r3]|]; reflexivity.
Qed.
Lemma g_cols_R : forall gs, g_cols (map relit_gitem gs) = g_cols gs.
Proof. induction gs as [|[c|w] gs IH]; simpl; [reflexivity| rewrite IH; reflexivity | exact IH]. Qed.
Lemma g_win_R : forall gs, g_win (map relit_gitem gs) = option_map relit_win (g_win gs).
Proof.
  induction gs as [|[c|w] gs IH]; simpl; [reflexivity| exact IH |].
  rewrite IH. destruct (g_win gs); reflexivity.
Qed.
Lemma p_group_R : forall fuel toks, p_group fuel (map R toks) = omap (map relit_gitem) (p_group fuel toks).
Proof.
  intros fuel [|g [|b r]]; [reflexivity| |].
  - cbn [map p_group]. rewrite R_ty_is. destruct (ty_is T_GROUP g); reflexivity.
  - cbn [map p_group]. rewrite !R_ty_is. destruct (ty_is T_GROUP g); [|reflexivity].
    destruct (ty_is T_BY b); [|reflexivity].
    apply (sep_by_R (p_gitem fuel) relit_gitem T_Comma (p_gitem_R fuel)).
Qed.

(* ---------- WITH, ORDER BY, LIMIT ---------- *)
Lemma p_opt_R : forall toks, p_opt (map R toks) = omap relit_opt (p_opt toks).
Proof.
  intros [|k [|e [|v r]]]; try reflexivity. cbn [map p_opt]. rewrite !R_ty_is, R_ttype.
  destruct (is_opt_kind (ttype k)); [|reflexivity]. destruct (ty_is T_EQ e); [|reflexivity].
  destruct (ty_is T_String v) eqn:E; [|reflexivity]. cbn [andb omap]. unfold relit_opt. cbn [fst snd].
  assert (Hv : tval (R v) = f (tval v)) by (unfold relit, is_lit; rewrite E; reflexivity).
  rewrite Hv. reflexivity.
Qed.
Lemma p_with_R : forall fuel toks, p_with fuel (map R toks) = omap (map relit_opt) (p_with fuel toks).
Proof.
  intros fuel toks. unfold p_with. rewrite hd_is_R by (intros; apply R_ty_is).
  destruct (hd_is (ty_is T_WITH) toks); [|reflexivity]. rewrite tl_R.
  rewrite expect_R by (intros; apply R_ty_is). destruct (expect (ty_is T_LParen) (tl toks)) as [[l r1]|]; [|reflexivity]. cbn [omap].
  rewrite (sep_by_R p_opt relit_opt T_Comma p_opt_R). destruct (sep_by p_opt T_Comma fuel r1) as [[os r2]|]; [|reflexivity]. cbn [omap].
  rewrite expect_R by (intros; apply R_ty_is). destruct (expect (ty_is T_RParen) r2) as [[x r3]|]; reflexivity.
Qed.
Lemma p_key_R : forall toks, p_key (map R toks) = omap (fun k => k) (p_key toks).
Proof.
  intros [|c r]; [reflexivity|]. cbn [map p_key]. rewrite R_ty_is.
  destruct (ty_is T_Ident c) eqn:E; [|reflexivity]. rewrite (R_ident _ E).
  rewrite !hd_is_R by apply R_ieq. rewrite tl_R.
  destruct (hd_is (ieq W_DESC) r); [reflexivity|]. destruct (hd_is (ieq W_ASC) r); reflexivity.
Qed.
Lemma p_order_R : forall fuel toks, p_order fuel (map R toks) = omap (fun k => k) (p_order fuel toks).
Proof.
  intros fuel [|o [|b r]]; [reflexivity| |].
  - cbn [map p_order]. rewrite R_ty_is. destruct (ty_is T_Order o); reflexivity.
  - cbn [map p_order]. rewrite !R_ty_is. destruct (ty_is T_Order o); [|reflexivity].
    destruct (ty_is T_BY b); [|reflexivity].
    rewrite (sep_by_R p_key (fun k => k) T_Comma p_key_R).
    destruct (sep_by p_key T_Comma fuel r) as [[ks r']|]; [|reflexivity]. cbn [omap]. rewrite map_id. reflexivity.
Qed.
Lemma p_limit_R : forall toks, p_limit (map R toks) = omap (fun n => n) (p_limit toks).
Proof.
  intros [|l r]; [reflexivity|]. cbn [map p_limit]. rewrite R_ty_is. destruct (ty_is T_LIMIT l); [|reflexivity].
  destruct r as [|n r']; [reflexivity|]. cbn [map]. rewrite R_ty_is.
  destruct (ty_is T_Number n) eqn:E; [|reflexivity]. rewrite (R_number _ E). reflexivity.
Qed.

(* ---------- the whole statement ---------- *)
Theorem parse_core_relit : forall toks, parse_core (map R toks) = option_map relit_stmt (parse_core toks).
Proof.
  intros toks. unfold parse_core. rewrite map_length. set (fuel := S (List.length toks)).
  destruct toks as [|s r0]; [reflexivity|]. cbn [map]. rewrite R_ty_is.
  destruct (negb (ty_is T_SELECT s)); [reflexivity|].
  rewrite hd_is_R by (intros; apply R_ty_is). rewrite tl_R.
  replace (if hd_is (ty_is T_DISTINCT) r0 then (true, map R (tl r0)) else (false, map R r0))
    with (let p := (if hd_is (ty_is T_DISTINCT) r0 then (true, tl r0) else (false, r0)) in (fst p, map R (snd p)))
    by (destruct (hd_is (ty_is T_DISTINCT) r0); reflexivity).
  destruct (if hd_is (ty_is T_DISTINCT) r0 then (true, tl r0) else (false, r0)) as [dist r1]. cbn [fst snd].
  rewrite (sep_by_R p_item relit_item T_Comma p_item_R).
  destruct (sep_by p_item T_Comma fuel r1) as [[items r2]|]; [|reflexivity]. cbn [omap].
  destruct r2 as [|fr [|src r3]]; [reflexivity|reflexivity|]. cbn [map]. rewrite !R_ty_is.
  destruct (ty_is T_FROM fr); [|reflexivity]. destruct (ty_is T_Ident src) eqn:Es; [|reflexivity]. cbn [andb negb].
  rewrite (R_ident _ Es), p_alias2_R. destruct (p_alias2 r3) as [[al r4]|]; [|reflexivity]. cbn [omap].
  rewrite p_joins_R. destruct (p_joins fuel r4) as [[js r5]|]; [|reflexivity]. cbn [omap].
  rewrite p_cond_R. destruct (p_cond T_WHERE r5) as [wh r6]. cbn [fst snd].
  rewrite p_group_R. destruct (p_group fuel r6) as [[gs r7]|]; [|reflexivity]. cbn [omap].
  rewrite p_cond_R. destruct (p_cond T_HAVING r7) as [hv r8]. cbn [fst snd].
  rewrite p_with_R. destruct (p_with fuel r8) as [[ws r9]|]; [|reflexivity]. cbn [omap].
  rewrite p_order_R. destruct (p_order fuel r9) as [[ks r10]|]; [|reflexivity]. cbn [omap].
  rewrite p_limit_R. destruct (p_limit r10) as [[lim r11]|]; [|reflexivity]. cbn [omap].
  destruct r11 as [|x r12]; [|reflexivity]. cbn [map option_map]. unfold relit_stmt. cbn [s_distinct s_items s_source s_alias s_joins s_where s_group s_window s_having s_with s_order s_limit].
  rewrite g_cols_R, g_win_R. reflexivity.
Qed.

(* literals are not keyword tokens, so dropping keyword spellings commutes with rewriting literals *)
Lemma canon_relit : forall t, canon (R t) = R (canon t).
Proof.
  intros t. unfold canon. rewrite R_ttype. destruct (is_kw_type (ttype t)) eqn:K.
  - assert (H : is_lit (kw (ttype t)) = false).
    { unfold is_lit, ty_is, kw. cbn [ttype].
      destruct (N.eqb (ttype t) T_String) eqn:E3.
      { apply N.eqb_eq in E3. rewrite E3 in K. vm_compute in K. discriminate. }
      destruct (N.eqb (ttype t) T_QIdent) eqn:E4.
      { apply N.eqb_eq in E4. rewrite E4 in K. vm_compute in K. discriminate. }
      reflexivity. }
    unfold relit. rewrite H. reflexivity.
  - reflexivity.
Qed.

Theorem parse_ref_relit : forall toks, parse_ref (map R toks) = option_map relit_stmt (parse_ref toks).
Proof.
  intros toks. unfold parse_ref. rewrite map_map.
  rewrite (map_ext (fun t => canon (R t)) (fun t => R (canon t)) canon_relit).
  rewrite <- (map_map canon R). apply parse_core_relit.
Qed.
End Relit.

(* acceptance does not depend on what literals contain *)
Corollary parse_ref_accepts_relit : forall f toks,
  (exists st, parse_ref (map (relit f) toks) = Some st) <-> (exists st, parse_ref toks = Some st).
Proof.
  intros f toks. rewrite parse_ref_relit. destruct (parse_ref toks) as [st|]; simpl; split; intros [x H]; eauto; discriminate.
Qed.
