(* C15 — the surface pattern operators (quantifiers, PERMUTE) denote what their names say:
   the desugaring of Model/Cep.v (which mirrors cep/pattern.go compileRepeat / compilePermute)
   is characterised in terms of word_in. *)
From Coq Require Import List ZArith NArith Bool Arith Lia Permutation.
From SV Require Import Model.Cep Proofs.CepProofs.
Import ListNotations.

Lemma popt_iff : forall c w, word_in (popt c) w <-> w = [] \/ word_in c w.
Proof.
  intros c w. unfold popt. split; intro H.
  - inversion H; subst; [right; assumption|]. match goal with X : word_in PEps _ |- _ => inversion X end. left; reflexivity.
  - destruct H as [H|H]; [subst; apply WAltR; constructor|apply WAltL; assumption].
Qed.

Lemma seq_inv : forall p q w, word_in (PSeq p q) w <-> exists w1 w2, w = w1 ++ w2 /\ word_in p w1 /\ word_in q w2.
Proof.
  intros p q w. split; intro H.
  - inversion H; subst. eexists; eexists; repeat split; eassumption.
  - destruct H as [w1 [w2 [E [H1 H2]]]]. subst. constructor; assumption.
Qed.

(* n copies of c followed by tail *)
Lemma seq_n_iff : forall n c tail w,
  word_in (seq_n n c tail) w <->
  exists ws wt, length ws = n /\ Forall (word_in c) ws /\ word_in tail wt /\ w = concat ws ++ wt.
Proof.
  induction n as [|n IH]; intros c tail w; simpl.
  - split; intro H.
    + exists [], w. repeat split; [constructor|assumption].
    + destruct H as [ws [wt [L [F [T E]]]]]. destruct ws; [|discriminate]. simpl in E. subst. assumption.
  - rewrite seq_inv. split; intro H.
    + destruct H as [w1 [w2 [E [H1 H2]]]]. apply IH in H2. destruct H2 as [ws [wt [L [F [T E2]]]]].
      exists (w1 :: ws), wt. repeat split; [simpl; lia|constructor; assumption|assumption|].
      subst. simpl. rewrite app_assoc. reflexivity.
    + destruct H as [ws [wt [L [F [T E]]]]]. destruct ws as [|w1 ws]; [discriminate|].
      inversion F; subst. exists w1, (concat ws ++ wt). repeat split; [simpl; rewrite app_assoc; reflexivity|assumption|].
      apply IH. exists ws, wt. repeat split; [simpl in L; lia|assumption|assumption].
Qed.

Lemma star_iff : forall c w, word_in (PStar c) w <-> exists ws, Forall (word_in c) ws /\ w = concat ws.
Proof.
  intros c w. split.
  - intro H. remember (PStar c) as s eqn:Es. induction H; try discriminate.
    + exists []. split; [constructor|reflexivity].
    + inversion Es; subst. destruct (IHword_in2 eq_refl) as [ws [F E]].
      exists (w1 :: ws). split; [constructor; assumption|subst; reflexivity].
  - intros [ws [F E]]. subst. induction F; simpl; [constructor|]. constructor; assumption.
Qed.

(* at most k optional copies *)
Lemma opt_n_iff : forall k c w,
  word_in (seq_n k (popt c) PEps) w <-> exists ws, length ws <= k /\ Forall (word_in c) ws /\ w = concat ws.
Proof.
  induction k as [|k IH]; intros c w; simpl.
  - split; intro H.
    + inversion H; subst. exists []. repeat split; [simpl; lia|constructor].
    + destruct H as [ws [L [F E]]]. destruct ws; [|simpl in L; lia]. subst. constructor.
  - rewrite seq_inv. split; intro H.
    + destruct H as [w1 [w2 [E [H1 H2]]]]. apply IH in H2. destruct H2 as [ws [L [F E2]]].
      apply popt_iff in H1. destruct H1 as [H1|H1].
      * exists ws. subst. repeat split; [lia|assumption].
      * exists (w1 :: ws). subst. repeat split; [simpl; lia|constructor; assumption].
    + destruct H as [ws [L [F E]]]. destruct ws as [|w1 ws].
      * exists [], []. subst. repeat split; [apply popt_iff; left; reflexivity|].
        apply IH. exists []. repeat split; [simpl; lia|constructor].
      * inversion F; subst. exists w1, (concat ws). repeat split; [apply popt_iff; right; assumption|].
        apply IH. exists ws. repeat split; [simpl in L; lia|assumption].
Qed.

(* {n,m} (and ? = {0,1}, {n} = {n,n}): between n and m copies *)
Theorem rep_bounded : forall mn mx s w, mn <= mx ->
  (word_in (desugar (SRep mn (Some mx) s)) w <->
   exists ws, mn <= length ws <= mx /\ Forall (word_in (desugar s)) ws /\ w = concat ws).
Proof.
  intros mn mx s w Hle. simpl. destruct (Nat.ltb mx mn) eqn:E; [apply Nat.ltb_lt in E; lia|].
  rewrite seq_n_iff. split; intro H.
  - destruct H as [ws [wt [L [F [T Ew]]]]]. apply opt_n_iff in T. destruct T as [ws2 [L2 [F2 E2]]].
    exists (ws ++ ws2). repeat split.
    + rewrite app_length. lia.
    + rewrite app_length. lia.
    + apply Forall_app; split; assumption.
    + subst. rewrite concat_app. reflexivity.
  - destruct H as [ws [[L1 L2] [F Ew]]].
    exists (firstn mn ws), (concat (skipn mn ws)). repeat split.
    + rewrite firstn_length. lia.
    + rewrite <- (firstn_skipn mn ws) in F. apply Forall_app in F. tauto.
    + apply opt_n_iff. exists (skipn mn ws). repeat split.
      * rewrite skipn_length. lia.
      * rewrite <- (firstn_skipn mn ws) in F. apply Forall_app in F. tauto.
    + rewrite <- concat_app, firstn_skipn. assumption.
Qed.

(* {n,} (and * = {0,}, + = {1,}): at least n copies *)
Theorem rep_unbounded : forall mn s w,
  word_in (desugar (SRep mn None s)) w <->
  exists ws, mn <= length ws /\ Forall (word_in (desugar s)) ws /\ w = concat ws.
Proof.
  intros mn s w. simpl. rewrite seq_n_iff. split; intro H.
  - destruct H as [ws [wt [L [F [T Ew]]]]]. apply star_iff in T. destruct T as [ws2 [F2 E2]].
    exists (ws ++ ws2). repeat split.
    + rewrite app_length. lia.
    + apply Forall_app; split; assumption.
    + subst. rewrite concat_app. reflexivity.
  - destruct H as [ws [L [F Ew]]].
    exists (firstn mn ws), (concat (skipn mn ws)). repeat split.
    + rewrite firstn_length. lia.
    + rewrite <- (firstn_skipn mn ws) in F. apply Forall_app in F. tauto.
    + apply star_iff. exists (skipn mn ws). split; [|reflexivity].
      rewrite <- (firstn_skipn mn ws) in F. apply Forall_app in F. tauto.
    + rewrite <- concat_app, firstn_skipn. assumption.
Qed.

(* PERMUTE: the sub-patterns in any order *)
Lemma alt_list_iff : forall l w, word_in (alt_list l) w <-> exists p, In p l /\ word_in p w.
Proof.
  induction l as [|a l IH]; intro w; simpl.
  - split; [intro H; inversion H|intros [p [[] _]]].
  - split; intro H.
    + inversion H; subst; [exists a; split; [left; reflexivity|assumption]|].
      match goal with X : word_in (alt_list l) w |- _ => apply IH in X; destruct X as [p [I P]] end.
      exists p. split; [right; assumption|assumption].
    + destruct H as [p [[E|I] P]]; [subst; apply WAltL; assumption|apply WAltR, IH; exists p; split; assumption].
Qed.

Lemma inserts_perm : forall {A} (x : A) l l', In l' (inserts x l) -> Permutation (x :: l) l'.
Proof.
  intros A x l. induction l as [|y r IH]; intros l' H; simpl in H.
  - destruct H as [H|[]]. subst. apply Permutation_refl.
  - destruct H as [H|H]; [subst; apply Permutation_refl|].
    apply in_map_iff in H. destruct H as [l0 [E I]]. subst. apply IH in I.
    eapply Permutation_trans; [apply perm_swap|]. apply perm_skip. assumption.
Qed.

Lemma inserts_in : forall {A} (x : A) l1 l2, In (l1 ++ x :: l2) (inserts x (l1 ++ l2)).
Proof.
  intros A x l1. induction l1 as [|y r IH]; intro l2; simpl.
  - destruct l2; simpl; left; reflexivity.
  - right. apply in_map. apply IH.
Qed.

Lemma perms_iff : forall {A} (l l' : list A), In l' (perms l) <-> Permutation l l'.
Proof.
  intros A l. induction l as [|x r IH]; intro l'; simpl.
  - split; intro H.
    + destruct H as [H|[]]. subst. constructor.
    + apply Permutation_nil in H. subst. left; reflexivity.
  - rewrite in_flat_map. split; intro H.
    + destruct H as [l0 [I1 I2]]. apply IH in I1. apply inserts_perm in I2.
      eapply Permutation_trans; [apply perm_skip; exact I1|assumption].
    + assert (Hin : In x l') by (eapply Permutation_in; [exact H|left; reflexivity]).
      apply in_split in Hin. destruct Hin as [l1 [l2 E]]. subst l'.
      apply Permutation_cons_app_inv in H. exists (l1 ++ l2). split; [apply IH; assumption|apply inserts_in].
Qed.

Theorem permute_iff : forall l w,
  word_in (desugar (SPermute l)) w <->
  exists l', Permutation (map desugar l) l' /\ word_in (seq_list l') w.
Proof.
  intros l w. simpl. rewrite alt_list_iff. split; intro H.
  - destruct H as [p [I P]]. apply in_map_iff in I. destruct I as [l' [E I]]. subst.
    exists l'. split; [apply perms_iff; assumption|assumption].
  - destruct H as [l' [Pm W]]. exists (seq_list l'). split; [|assumption].
    apply in_map. apply perms_iff. assumption.
Qed.
