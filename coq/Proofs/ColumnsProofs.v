(* C05 — the column set of a direct query's result (Spec/ColumnsSpec.v): the checker decides "exactly the
   selected columns", and every result of the model (Model/Direct.v) passes it, * included. *)
From SV Require Import Model.Direct Spec.ColumnsSpec Proofs.DirectProofs.
From Coq Require Import Lia.
Local Open Scope nat_scope.

Lemma mem_b_in : forall k l, mem_b k l = true <-> In k l.
Proof.
  intros k l. unfold mem_b. rewrite existsb_exists. split.
  - intros [x [Hin He]]. apply bytes_eqb_eq in He. subst. exact Hin.
  - intros H. exists k. split; [exact H|apply bytes_eqb_refl].
Qed.
Lemma mem_b_false : forall k l, mem_b k l = false <-> ~ In k l.
Proof.
  intros k l. rewrite <- mem_b_in. destruct (mem_b k l); split; intros H; try discriminate; auto.
  exfalso. apply H. reflexivity.
Qed.

Lemma find_none_all : forall (A : Type) (f : A -> bool) l, find f l = None <-> (forall x, In x l -> f x = false).
Proof.
  intros A f l. induction l as [|a l IH]; simpl.
  - split; auto. intros _ x [].
  - destruct (f a) eqn:E.
    + split; [discriminate|]. intros H. rewrite (H a (or_introl eq_refl)) in E. discriminate.
    + rewrite IH. split.
      * intros H x [Hx|Hx]; [subst; exact E|auto].
      * intros H x Hx. apply H. right. exact Hx.
Qed.

(* the checker is silent exactly when the result has the demanded columns and no other *)
Theorem chk_columns_none_iff : forall want obs,
  chk_columns want obs = None <-> (forall k, In k want <-> In k obs).
Proof.
  intros want obs. unfold chk_columns.
  destruct (find (fun k => negb (mem_b k obs)) want) as [k0|] eqn:F1.
  - split; [discriminate|]. intros H. apply find_some in F1. destruct F1 as [Hin Hn].
    apply negb_true_iff in Hn. apply mem_b_false in Hn. exfalso. apply Hn. apply H. exact Hin.
  - destruct (find (fun k => negb (mem_b k want)) obs) as [k1|] eqn:F2.
    + split; [discriminate|]. intros H. apply find_some in F2. destruct F2 as [Hin Hn].
      apply negb_true_iff in Hn. apply mem_b_false in Hn. exfalso. apply Hn. apply H. exact Hin.
    + split; [|reflexivity]. intros _ k.
      pose proof (proj1 (find_none_all _ _ _) F1) as A1. pose proof (proj1 (find_none_all _ _ _) F2) as A2.
      split; intros Hk.
      * specialize (A1 k Hk). apply negb_false_iff in A1. apply mem_b_in. exact A1.
      * specialize (A2 k Hk). apply negb_false_iff in A2. apply mem_b_in. exact A2.
Qed.

Theorem chk_columns_missing : forall want obs k,
  chk_columns want obs = Some (ColMissing k) -> In k want /\ ~ In k obs.
Proof.
  intros want obs k. unfold chk_columns.
  destruct (find (fun k => negb (mem_b k obs)) want) as [k0|] eqn:F1.
  - intros H. inversion H; subst. apply find_some in F1. destruct F1 as [Hin Hn].
    apply negb_true_iff in Hn. apply mem_b_false in Hn. auto.
  - destruct (find (fun k => negb (mem_b k want)) obs); discriminate.
Qed.

Theorem chk_columns_extra : forall want obs k,
  chk_columns want obs = Some (ColExtra k) -> In k obs /\ ~ In k want /\ (forall j, In j want -> In j obs).
Proof.
  intros want obs k. unfold chk_columns.
  destruct (find (fun k => negb (mem_b k obs)) want) as [k0|] eqn:F1; [discriminate|].
  destruct (find (fun k => negb (mem_b k want)) obs) as [k1|] eqn:F2; [|discriminate].
  intros H. inversion H; subst. apply find_some in F2. destruct F2 as [Hin Hn].
  apply negb_true_iff in Hn. apply mem_b_false in Hn. repeat split; auto.
  intros j Hj. pose proof (proj1 (find_none_all _ _ _) F1 j Hj) as A. apply negb_false_iff in A. apply mem_b_in. exact A.
Qed.

Lemma cols_missing_in : forall want obs k, In k (cols_missing want obs) <-> In k want /\ ~ In k obs.
Proof. intros. unfold cols_missing. rewrite filter_In, negb_true_iff, mem_b_false. tauto. Qed.
Lemma cols_extra_in : forall want obs k, In k (cols_extra want obs) <-> In k obs /\ ~ In k want.
Proof. intros. unfold cols_extra. rewrite filter_In, negb_true_iff, mem_b_false. tauto. Qed.

(* ---- the model's result ---- *)
Lemma xlookup_in : forall (r : xrow) k, xlookup r k <> None <-> In k (map fst r).
Proof.
  induction r as [|[k0 v0] r IH]; intros k; simpl.
  - split; [congruence|intros []].
  - destruct (bytes_eqb k k0) eqn:E.
    + apply bytes_eqb_eq in E. subst. split; [auto|discriminate].
    + rewrite IH. split; [auto|]. intros [H|H]; auto. subst. rewrite bytes_eqb_refl in E. discriminate.
Qed.

Lemma set_field_keys : forall acc o v k, xlookup (set_field acc o v) k <> None <-> (xlookup acc k <> None \/ o = k).
Proof.
  intros acc o v k. destruct (bytes_eqb k o) eqn:E.
  - apply bytes_eqb_eq in E. subst. rewrite lookup_set_same. split; [auto|discriminate].
  - rewrite lookup_set_other by auto. split; [auto|]. intros [Hx|Hx]; auto. subst. rewrite bytes_eqb_refl in E. discriminate.
Qed.

Lemma star_fold_keys : forall (row : xrow) acc k,
  xlookup (fold_left (fun a kv => set_field a (fst kv) (snd kv)) row acc) k <> None <->
  (xlookup acc k <> None \/ In k (map fst row)).
Proof.
  induction row as [|[k0 v0] row IH]; intros acc k; simpl.
  - tauto.
  - rewrite IH. rewrite set_field_keys. tauto.
Qed.

Lemma sel_outs_out_names : forall is, sel_outs is = out_names is.
Proof. induction is as [|i is IH]; simpl; [reflexivity|]. rewrite IH. reflexivity. Qed.

Lemma project_items_cols : forall row is acc r,
  project_items row acc is = Some r ->
  forall k, xlookup r k <> None <->
            (xlookup acc k <> None \/ (existsb is_star is = true /\ In k (map fst row)) \/ In k (sel_outs is)).
Proof.
  intros row is. induction is as [|i is IH]; intros acc r H k; simpl in *.
  - inversion H; subst. split; [auto|]. intros [A|[[A _]|[]]]; [exact A|discriminate].
  - destruct (project_item row acc i) as [acc'|] eqn:Ei; [|discriminate].
    rewrite (IH acc' r H k).
    destruct i as [|src out|s out|t out]; simpl in *.
    + injection Ei as E1. subst acc'. rewrite star_fold_keys. tauto.
    + injection Ei as E1. subst acc'. rewrite set_field_keys. tauto.
    + injection Ei as E1. subst acc'. rewrite set_field_keys. tauto.
    + destruct (expr_item_value row t); [|discriminate]. injection Ei as E1. subst acc'.
      rewrite set_field_keys. tauto.
Qed.

(* the key set of a result of the model: the fields of the row when * is selected, and the output
   names of the other items; nothing else, whatever the names look like *)
Theorem direct_columns_star : forall q row r,
  direct q row = DRow r -> forall k, In k (map fst r) <-> In k (sel_columns q row).
Proof.
  intros q row r Hd k. apply direct_row_iff in Hd. destruct Hd as [_ Hp]. unfold project in Hp.
  rewrite <- xlookup_in. rewrite (project_items_cols row (q_items q) [] r Hp k).
  unfold sel_columns, q_has_star. simpl. rewrite in_app_iff.
  destruct (existsb is_star (q_items q)); simpl; split.
  - intros [A|[[_ A]|A]]; [congruence|auto|auto].
  - intros [A|A]; auto.
  - intros [A|[[A _]|A]]; [congruence|discriminate|auto].
  - intros [[]|A]; auto.
Qed.

Theorem direct_passes_chk_columns : forall q row r,
  direct q row = DRow r -> chk_columns (sel_columns q row) (map fst r) = None.
Proof.
  intros q row r Hd. apply chk_columns_none_iff. intros k. symmetry. apply (direct_columns_star q row r Hd).
Qed.

(* SELECT * alone: the result has exactly the row's field names *)
Theorem direct_star_columns : forall row w r,
  direct {| q_items := [IStar]; q_where := w |} row = DRow r -> forall k, In k (map fst r) <-> In k (map fst row).
Proof.
  intros row w r Hd k. rewrite (direct_columns_star _ _ _ Hd k). unfold sel_columns, q_has_star. simpl.
  rewrite app_nil_r. tauto.
Qed.
