(* C14 — the direct path of a query: which rows reach the analytic engine (WHERE order), and the asynchronous
   path (data channel + one consumer) yields the synchronous sequence under every schedule. *)
From Coq Require Import Lia.
From SV Require Import Model.Analytic.

Definition an_frun (cap : nat) (f : afield) : afeng -> list arow -> afeng * list aout :=
  an_eng_run afstate aout (an_field_init (af_kind f)) (an_field_apply (af_kind f)) (an_field_dflt (af_kind f))
             (an_gate f) (an_pkey (af_part f)) (an_partitioned f) cap.

Lemma frun_cons cap f e r t :
  an_frun cap f e (r :: t) =
  let '(e1, o) := an_fstep cap f e r in let '(e2, os) := an_frun cap f e1 t in (e2, o :: os).
Proof. reflexivity. Qed.

(* results of the engine placed back at the rows that passed the filter *)
Fixpoint spread (pass : arow -> bool) (h : list arow) (outs : list aout) : list (option aout) :=
  match h with
  | [] => []
  | r :: t => if pass r then match outs with o :: ot => Some o :: spread pass t ot | [] => [] end
              else None :: spread pass t outs
  end.

Fixpoint keep_true (outs ws : list aout) : list (option aout) :=
  match outs, ws with
  | o :: ot, w :: wt => (match w with AOV (AVBool true) => Some o | _ => None end) :: keep_true ot wt
  | _, _ => []
  end.

Lemma where_col q n : aq_where q = AWCol n -> forall h e1 e2,
  an_qrun q {| qs_sel := e1; qs_whr := e2 |} h =
  spread (fun r => an_pos r n) h (snd (an_frun (aq_cap q) (aq_field q) e1 (filter (fun r => an_pos r n) h))).
Proof.
  intros Hw. induction h as [|r t IH]; intros e1 e2; [reflexivity|].
  cbn [an_qrun filter spread]. unfold an_qstep. rewrite Hw. cbn [qs_sel qs_whr].
  destruct (an_pos r n) eqn:Ep.
  - rewrite frun_cons. destruct (an_fstep (aq_cap q) (aq_field q) e1 r) as [e1' o].
    rewrite IH. destruct (an_frun _ _ e1' _) as [e2' os]. reflexivity.
  - rewrite IH. reflexivity.
Qed.

Lemma where_analytic q wf : aq_where q = AWAnalytic wf -> forall h e1 e2,
  an_qrun q {| qs_sel := e1; qs_whr := e2 |} h =
  keep_true (snd (an_frun (aq_cap q) (aq_field q) e1 h)) (snd (an_frun (aq_cap q) wf e2 h)).
Proof.
  intros Hw. induction h as [|r t IH]; intros e1 e2; [reflexivity|].
  cbn [an_qrun]. unfold an_qstep. rewrite Hw. cbn [qs_sel qs_whr]. rewrite !frun_cons.
  destruct (an_fstep (aq_cap q) (aq_field q) e1 r) as [e1' o].
  destruct (an_fstep (aq_cap q) wf e2 r) as [e2' w]. rewrite IH.
  destruct (an_frun _ _ e1' t) as [a os]. destruct (an_frun _ _ e2' t) as [b ws]. reflexivity.
Qed.

Lemma where_none q : aq_where q = AWNone -> forall h e1 e2,
  an_qrun q {| qs_sel := e1; qs_whr := e2 |} h = map Some (snd (an_frun (aq_cap q) (aq_field q) e1 h)).
Proof.
  intros Hw. induction h as [|r t IH]; intros e1 e2; [reflexivity|].
  cbn [an_qrun]. unfold an_qstep. rewrite Hw. cbn [qs_sel qs_whr]. rewrite frun_cons.
  destruct (an_fstep (aq_cap q) (aq_field q) e1 r) as [e1' o]. rewrite IH.
  destruct (an_frun _ _ e1' t) as [a os]. reflexivity.
Qed.

(* where_order: with a WHERE free of analytic calls the engine sees exactly the passing rows; when WHERE holds an
   analytic call both engines see every row and the filter looks at the results *)
Theorem where_order : forall q h,
  an_sync q h =
  match aq_where q with
  | AWNone => map Some (snd (an_frun (aq_cap q) (aq_field q) (an_eng0 _ _) h))
  | AWCol n => spread (fun r => an_pos r n) h
                 (snd (an_frun (aq_cap q) (aq_field q) (an_eng0 _ _) (filter (fun r => an_pos r n) h)))
  | AWAnalytic wf => keep_true (snd (an_frun (aq_cap q) (aq_field q) (an_eng0 _ _) h))
                               (snd (an_frun (aq_cap q) wf (an_eng0 _ _) h))
  end.
Proof.
  intros q h. unfold an_sync, an_q0. destruct (aq_where q) as [|n|wf] eqn:Hw.
  - apply where_none. exact Hw.
  - apply where_col. exact Hw.
  - apply where_analytic. exact Hw.
Qed.

Lemma async_gen q : forall sch pending chan s,
  an_async q sch pending chan s = an_qrun q s (chan ++ pending).
Proof.
  induction sch as [|[|] t IH]; intros pending chan s; cbn [an_async].
  - reflexivity.
  - destruct pending as [|r p]; rewrite IH; [reflexivity|]. rewrite <- app_assoc. reflexivity.
  - destruct chan as [|r c]; [apply IH|].
    cbn [app an_qrun]. destruct (an_qstep q s r) as [s1 o]. rewrite IH. reflexivity.
Qed.

(* sync_async_same: however the consumer goroutine is scheduled against the producer, Emit delivers the
   sequence EmitSync returns *)
Theorem sync_async_same : forall q sch h, an_async q sch h [] an_q0 = an_sync q h.
Proof. intros q sch h. rewrite async_gen. reflexivity. Qed.
