(* C03: consecutive batches of a query with a HAVING clause.  Whether a batch is delivered, and every value of a
   delivered batch, is a function of the rows of that batch only - also when earlier batches of the run were
   rejected by HAVING and handed nothing to the sinks (the Reset does not depend on the delivery). *)
From Coq Require Import Lia Setoid Morphisms.
From SV Require Import Model.Agg Spec.AggSpec Proofs.AggProofs Proofs.AggFront.
Local Open Scope Q_scope.

(* the definition's value for one field of the GroupAggregator on the rows of one batch *)
Definition field_spec (cells : list cell) (fd : sfield) : option res :=
  let '(f, m, sh) := fd in spec_batch f m (map (eval_arg sh) cells).

(* the fields the theorems of C03 speak about: every registered aggregate except STDDEV (finding F21);
   count( * ) is the only call in star mode *)
Definition regular (fd : sfield) : Prop :=
  let '(f, m, _) := fd in
  f <> AStdDev /\
  match f with WStdDev | WStdDevS | WVar | WVarS => False | _ => True end /\
  (m = MStar -> f = ACount).

Lemma field_batch_correct : forall cells fd, regular fd -> ores_eq (field_batch cells fd) (field_spec cells fd).
Proof.
  intros cells [[f m] sh] (NS & NW & ST). unfold field_batch, field_spec.
  destruct m.
  - rewrite (ST eq_refl). destruct (map (eval_arg sh) cells) as [|c l] eqn:E; [exact I|].
    destruct (count_star_counts_rows ACount (c :: l)) as [A B]; [discriminate|].
    rewrite A, B. cbn [ores_eq res_eq]. reflexivity.
  - apply batch_correct; [assumption | discriminate | assumption].
  - apply batch_correct; [assumption | discriminate | assumption].
Qed.

(* one batch of the run: the results of all fields from a fresh state, filtered by HAVING *)
Definition hav_batch (fs : list sfield) (nvis : nat) (p : hpred) (cells : list cell) : option (list (option res)) :=
  hav_out nvis p (map (field_batch cells) fs).

(* MAIN (no leak): batch i of the run is [hav_batch] of ITS OWN rows, whatever the earlier batches were and
   whether they were delivered or rejected *)
Theorem hav_run_own_batch : forall fs nvis p bs,
  hav_run fs nvis p (sel_init fs) bs = map (hav_batch fs nvis p) bs.
Proof.
  intros fs nvis p bs. induction bs as [|b bs IH]; [reflexivity|].
  cbn [hav_run map]. rewrite sel_results_from, IH. reflexivity.
Qed.

Theorem hav_run_app : forall fs nvis p bs1 bs2,
  hav_run fs nvis p (sel_init fs) (bs1 ++ bs2) =
  hav_run fs nvis p (sel_init fs) bs1 ++ hav_run fs nvis p (sel_init fs) bs2.
Proof. intros. rewrite !hav_run_own_batch. apply map_app. Qed.

(* a rejected batch is invisible to the rest of the run *)
Theorem hav_rejected_batch_invisible : forall fs nvis p b bs,
  hav_batch fs nvis p b = None ->
  hav_run fs nvis p (sel_init fs) (b :: bs) = None :: hav_run fs nvis p (sel_init fs) bs.
Proof. intros fs nvis p b bs H. rewrite !hav_run_own_batch. cbn [map]. rewrite H. reflexivity. Qed.

(* ---------- the HAVING decision reads the definitions' values ---------- *)
Lemma qle_bool_eq : forall a a' b b', a == a' -> b == b' -> Qle_bool a b = Qle_bool a' b'.
Proof.
  intros a a' b b' H H'. apply Bool.eq_true_iff_eq. rewrite !Qle_bool_iff. rewrite H, H'. reflexivity.
Qed.
Lemma hcmp_holds_eq : forall o a a' k, a == a' -> hcmp_holds o a k = hcmp_holds o a' k.
Proof.
  intros o a a' k H. destruct o; unfold hcmp_holds, qltb;
    first [ f_equal; apply qle_bool_eq; [reflexivity | exact H] | f_equal; apply qle_bool_eq; [exact H | reflexivity]
          | apply qle_bool_eq; [reflexivity | exact H] | apply qle_bool_eq; [exact H | reflexivity] ].
Qed.

Lemma res_q_eq : forall r r' , ores_eq r r' ->
  match res_q r, res_q r' with
  | Some a, Some a' => a == a'
  | None, None => True
  | _, _ => False
  end.
Proof.
  intros [r|] [r'|] H; cbn [ores_eq] in H; try contradiction; [|exact I].
  destruct r, r'; cbn [res_eq] in H; try discriminate H; cbn [res_q]; try exact I; try exact H.
Qed.

Lemma nth_forall2 : forall (rs rs' : list (option res)) j,
  Forall2 ores_eq rs rs' -> ores_eq (nth j rs None) (nth j rs' None).
Proof.
  intros rs rs' j H. revert j. induction H as [|x y l l' Hxy Hl IH]; intros j.
  - destruct j; exact I.
  - destruct j; [exact Hxy | apply IH].
Qed.

Lemma heval_eq : forall p rs rs', Forall2 ores_eq rs rs' -> heval p rs = heval p rs'.
Proof.
  intros p rs rs' H. induction p as [o j k | p IHp q IHq | p IHp q IHq].
  - cbn [heval]. pose proof (res_q_eq _ _ (nth_forall2 rs rs' j H)) as E.
    destruct (res_q (nth j rs None)) as [a|], (res_q (nth j rs' None)) as [a'|]; try contradiction; [|reflexivity].
    f_equal. apply hcmp_holds_eq. exact E.
  - cbn [heval]. rewrite IHp, IHq. reflexivity.
  - cbn [heval]. rewrite IHp, IHq. reflexivity.
Qed.

Lemma fields_forall2 : forall fs cells, Forall regular fs ->
  Forall2 ores_eq (map (field_batch cells) fs) (map (field_spec cells) fs).
Proof.
  intros fs cells H. induction H as [|fd fs Hfd Hfs IH]; [constructor|].
  cbn [map]. constructor; [apply field_batch_correct; exact Hfd | exact IH].
Qed.

(* a batch is delivered iff the condition holds of the DEFINITIONS applied to the rows of that batch *)
Theorem hav_decision_own_rows : forall fs nvis p cells, Forall regular fs ->
  (exists row, hav_batch fs nvis p cells = Some row) <-> hholds p (map (field_spec cells) fs) = true.
Proof.
  intros fs nvis p cells R. unfold hav_batch, hav_out, hholds.
  rewrite (heval_eq p _ _ (fields_forall2 fs cells R)).
  destruct (heval p (map (field_spec cells) fs)) as [[|]|]; split; intro H.
  - reflexivity.
  - eexists; reflexivity.
  - destruct H as [row H]; discriminate H.
  - discriminate H.
  - destruct H as [row H]; discriminate H.
  - discriminate H.
Qed.

Lemma nth_error_firstn_lt : forall (A : Type) (l : list A) n j, (j < n)%nat -> nth_error (firstn n l) j = nth_error l j.
Proof.
  intros A l. induction l as [|x l IH]; intros n j H.
  - rewrite firstn_nil. reflexivity.
  - destruct n as [|n]; [lia|]. destruct j as [|j]; [reflexivity|]. cbn [firstn nth_error]. apply IH. lia.
Qed.

(* every value of a delivered batch is the definition applied to the call's own argument over the rows of THAT batch *)
Theorem hav_delivered_correct : forall fs nvis p bs i b row j f m sh,
  nth_error bs i = Some b ->
  nth_error (hav_run fs nvis p (sel_init fs) bs) i = Some (Some row) ->
  (j < nvis)%nat -> nth_error fs j = Some (f, m, sh) -> regular (f, m, sh) ->
  exists r, nth_error row j = Some r /\ ores_eq r (spec_batch f m (map (eval_arg sh) b)).
Proof.
  intros fs nvis p bs i b row j f m sh Hb Hrun Hj Hf R.
  rewrite hav_run_own_batch in Hrun. rewrite (map_nth_error (hav_batch fs nvis p) i bs Hb) in Hrun.
  injection Hrun as Hrow. unfold hav_batch, hav_out in Hrow.
  destruct (hholds p (map (field_batch b) fs)); [|discriminate Hrow]. injection Hrow as <-.
  exists (field_batch b (f, m, sh)). split.
  - rewrite nth_error_firstn_lt by exact Hj. apply (map_nth_error (field_batch b) j fs Hf).
  - apply (field_batch_correct b (f, m, sh) R).
Qed.

Lemma forall2_firstn : forall (l l' : list (option res)) n,
  Forall2 ores_eq l l' -> Forall2 ores_eq (firstn n l) (firstn n l').
Proof.
  intros l l' n F. revert n. induction F as [|x y l l' Hxy Hl IHl]; intros n.
  - rewrite !firstn_nil. constructor.
  - destruct n; [constructor|]. cbn [firstn]. constructor; [exact Hxy | apply IHl].
Qed.

(* the run with all its parts: which batches come out and with which values, both from the own rows *)
Theorem hav_run_spec : forall fs nvis p bs, Forall regular fs ->
  Forall2 (fun b out =>
             match out with
             | None => hholds p (map (field_spec b) fs) = false
             | Some row => hholds p (map (field_spec b) fs) = true /\
                           Forall2 ores_eq row (firstn nvis (map (field_spec b) fs))
             end) bs (hav_run fs nvis p (sel_init fs) bs).
Proof.
  intros fs nvis p bs R. rewrite hav_run_own_batch. induction bs as [|b bs IH]; [constructor|].
  cbn [map]. constructor; [|exact IH].
  unfold hav_batch, hav_out, hholds. rewrite (heval_eq p _ _ (fields_forall2 fs b R)).
  destruct (heval p (map (field_spec b) fs)) as [[|]|]; try reflexivity.
  split; [reflexivity|]. apply forall2_firstn. apply fields_forall2. exact R.
Qed.

(* ---------- witnesses ---------- *)
(* CountingWindow(2), SELECT sum(x), count( * ), min(x), collect(x) ... HAVING sum(x) > 10 over 1 2 | 20 30 | 5 6:
   the first batch is rejected, the second and third come out with the values of their own two rows *)
Definition hav_ex_fields : list sfield := [(ASum, MCol, ShId); (ACount, MStar, ShId); (AMin, MCol, ShId); (ACollect, MCol, ShId)].
Definition hav_ex_batches : list (list cell) :=
  [[Cell (VInt 1); Cell (VInt 2)]; [Cell (VInt 20); Cell (VInt 30)]; [Cell (VInt 5); Cell (VInt 6)]].
Lemma hav_example :
  hav_run hav_ex_fields 4 (HCmp HGt 0 10) (sel_init hav_ex_fields) hav_ex_batches =
  [None;
   Some [Some (RNum 50); Some (RNum 2); Some (RNum 20); Some (RList [VInt 20; VInt 30])];
   Some [Some (RNum 11); Some (RNum 2); Some (RNum 5); Some (RList [VInt 5; VInt 6])]].
Proof. vm_compute. reflexivity. Qed.
(* a Reset that is skipped when nothing was delivered is told apart: count( * ) = 4 for a window of 2 rows *)
Lemma hav_lazy_reset_leaks :
  hav_run_lazy_reset hav_ex_fields 4 (HCmp HGt 0 10) (sel_init hav_ex_fields) hav_ex_batches =
  [None;
   Some [Some (RNum 53); Some (RNum 4); Some (RNum 1); Some (RList [VInt 1; VInt 2; VInt 20; VInt 30])];
   Some [Some (RNum 11); Some (RNum 2); Some (RNum 5); Some (RList [VInt 5; VInt 6])]].
Proof. vm_compute. reflexivity. Qed.
(* a NULL aggregate on the left of OR: the comparison fails and the condition is false although the right side holds *)
Lemma hav_error_rejects :
  hholds (HOr (HCmp HGt 0 10) (HCmp HLt 1 1)) [Some RNull; Some (RNum 0)] = false /\
  hholds (HOr (HCmp HLt 1 1) (HCmp HGt 0 10)) [Some RNull; Some (RNum 0)] = true.
Proof. vm_compute. split; reflexivity. Qed.

(* FINDING F60: an aggregate call with an arithmetic argument written inside an analytic function of a windowed
   query (changed_col(true, sum(x + 1)) ... GROUP BY CountingWindow(3)) runs over the bare column:
   rows 0, -2, 4 give 2, the definition of sum(x + 1) gives 5 *)
Lemma inline_agg_arg_dropped_refuted :
  exists cells,
    sel_batch [inline_field_asis ASum false false (ShAff OAdd 1)] cells = [Some (RNum 2)] /\
    spec_batch ASum MExpr (map (eval_arg (ShAff OAdd 1)) cells) = Some (RNum 5).
Proof. exists [Cell (VInt 0); Cell (VInt (-2)); Cell (VInt 4)]. split; vm_compute; reflexivity. Qed.
(* the repaired code: the hidden field computes the definition of the aggregate over ITS argument, evaluated per row *)
Lemma inline_agg_correct : forall f sh cells,
  f <> AStdDev ->
  match f with WStdDev | WStdDevS | WVar | WVarS => False | _ => True end ->
  exists r, sel_batch [inline_field f false sh] cells = [r] /\
            ores_eq r (spec_batch f (sql_mode sh) (map (eval_arg sh) cells)).
Proof.
  intros f sh cells NS NW. rewrite sel_batch_fields. unfold inline_field. cbn [map field_batch].
  eexists; split; [reflexivity|].
  apply batch_correct; [assumption | | assumption].
  destruct sh; cbn; discriminate.
Qed.
(* what holds of the code as found: the hidden field computes the definition of the aggregate over the bare column,
   in every window of a run (so the suppression by changed_col and the delivered values are still a function of the
   rows of the own window) *)
Lemma inline_agg_asis_bare_column : forall f nested sh cells,
  f <> AStdDev ->
  match f with WStdDev | WStdDevS | WVar | WVarS => False | _ => True end ->
  exists r, sel_batch [inline_field_asis f false nested sh] cells = [r] /\
            ores_eq r (spec_batch f (sql_mode (inline_shape_asis nested sh))
                                  (map (eval_arg (inline_shape_asis nested sh)) cells)).
Proof.
  intros f nested sh cells NS NW. rewrite sel_batch_fields. unfold inline_field_asis. cbn [map field_batch].
  eexists; split; [reflexivity|].
  apply batch_correct; [assumption | | assumption].
  destruct sh, nested; cbn; discriminate.
Qed.
