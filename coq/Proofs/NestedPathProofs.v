(* C05 — proofs about the nested field path model, Model/NestedPath.v *)
From SV Require Import Model.Direct Model.NestedPath Proofs.DirectProofs.
From Coq Require Import Lia ZArith NArith List Bool.
Local Open Scope nat_scope.

(* ================= resolution over parts ================= *)
Theorem np_get_app : forall ps qs v,
  np_get v (ps ++ qs) = match np_get v ps with Some u => np_get u qs | None => None end.
Proof.
  induction ps as [|p ps IH]; intros qs v; simpl; auto.
  destruct (np_access v p) as [u|]; auto.
Qed.

(* a path fails exactly at its first step that is not available in the value reached so far *)
Theorem np_get_none_iff : forall ps v,
  np_get v ps = None <->
  exists k u p, np_get v (firstn k ps) = Some u /\ nth_error ps k = Some p /\ np_access u p = None.
Proof.
  induction ps as [|p ps IH]; intros v; simpl.
  - split; [discriminate|]. intros (k & u & p & _ & H & _). destruct k; discriminate.
  - destruct (np_access v p) as [w|] eqn:E.
    + rewrite IH. split.
      * intros (k & u & p' & H1 & H2 & H3). exists (S k), u, p'. simpl. rewrite E. auto.
      * intros (k & u & p' & H1 & H2 & H3). destruct k as [|k]; simpl in *.
        -- inversion H1; inversion H2; subst. congruence.
        -- rewrite E in H1. exists k, u, p'. auto.
    + split; auto. intros _. exists 0, v, p. simpl. auto.
Qed.

(* ---- one step: exact conditions ---- *)
Theorem np_access_null : forall p, np_access (JS VNull) p = None.
Proof. reflexivity. Qed.
Theorem np_access_scalar : forall x p, np_access (JS x) p = None.
Proof. intros [| | |] [| |]; reflexivity. Qed.
Theorem np_access_map : forall m p,
  np_access (JMap m) p = jlookup m (match p with PField n => n | PKey k => k | PIndex i => np_itoa i end).
Proof. intros m [| |]; reflexivity. Qed.
Theorem np_access_arr_name : forall l n k, np_access (JArr l) (PField n) = None /\ np_access (JArr l) (PKey k) = None.
Proof. intros; split; reflexivity. Qed.

Theorem np_access_arr_index : forall l i,
  let len := Z.of_nat (length l) in
  np_access (JArr l) (PIndex i) =
    if ((0 <=? i) && (i <? len))%Z then nth_error l (Z.to_nat i)
    else if ((- len <=? i) && (i <? 0))%Z then nth_error l (Z.to_nat (len + i))
    else None.
Proof.
  intros l i len. unfold np_access, np_index. cbv zeta. fold len.
  destruct (i <? 0)%Z eqn:Hneg.
  - apply Z.ltb_lt in Hneg.
    replace ((0 <=? i)%Z) with false by (symmetry; apply Z.leb_gt; lia). simpl.
    destruct (len + i <? 0)%Z eqn:H1; simpl.
    + apply Z.ltb_lt in H1. replace (- len <=? i)%Z with false by (symmetry; apply Z.leb_gt; lia). reflexivity.
    + apply Z.ltb_ge in H1. replace (- len <=? i)%Z with true by (symmetry; apply Z.leb_le; lia).
      replace (len <=? len + i)%Z with false by (symmetry; apply Z.leb_gt; lia). reflexivity.
  - rewrite Hneg. apply Z.ltb_ge in Hneg.
    replace ((0 <=? i)%Z) with true by (symmetry; apply Z.leb_le; lia). simpl.
    destruct (len <=? i)%Z eqn:H1.
    + apply Z.leb_le in H1. replace (i <? len)%Z with false by (symmetry; apply Z.ltb_ge; lia).
      rewrite andb_false_r. reflexivity.
    + apply Z.leb_gt in H1. replace (i <? len)%Z with true by (symmetry; apply Z.ltb_lt; lia). reflexivity.
Qed.

(* an index resolves in an array iff  -len <= i < len *)
Theorem np_access_arr_index_none_iff : forall l i,
  np_access (JArr l) (PIndex i) = None <-> (i < - Z.of_nat (length l) \/ Z.of_nat (length l) <= i)%Z.
Proof.
  intros l i. rewrite np_access_arr_index. cbv zeta.
  set (len := Z.of_nat (length l)).
  destruct ((0 <=? i) && (i <? len))%Z eqn:A.
  - apply andb_prop in A. destruct A as [A1 A2]. apply Z.leb_le in A1. apply Z.ltb_lt in A2.
    split; [|lia]. intros H. apply nth_error_None in H. lia.
  - destruct ((- len <=? i) && (i <? 0))%Z eqn:B.
    + apply andb_prop in B. destruct B as [B1 B2]. apply Z.leb_le in B1. apply Z.ltb_lt in B2.
      split; [|lia]. intros H. apply nth_error_None in H. lia.
    + split; auto. intros _.
      apply andb_false_iff in A. apply andb_false_iff in B.
      destruct A as [A|A]; [apply Z.leb_gt in A|apply Z.ltb_ge in A];
      destruct B as [B|B]; [apply Z.leb_gt in B|apply Z.ltb_ge in B|apply Z.leb_gt in B|apply Z.ltb_ge in B]; lia.
Qed.

(* ================= the text: dots ================= *)
Lemma np_split_dot_nonempty : forall s, np_split_dot s <> [].
Proof.
  induction s as [|c s IH]; simpl; [discriminate|].
  destruct (N.eqb c 46); [discriminate|]. destruct (np_split_dot s); discriminate.
Qed.

Lemma np_split_dot_app : forall a b, np_split_dot (a ++ 46%N :: b) = np_split_dot a ++ np_split_dot b.
Proof.
  induction a as [|c a IH]; intros b; simpl; auto.
  destruct (N.eqb c 46) eqn:E.
  - rewrite IH. reflexivity.
  - rewrite IH. destruct (np_split_dot a) as [|p ps] eqn:Ea.
    + exfalso. exact (np_split_dot_nonempty a Ea).
    + reflexivity.
Qed.

Lemma np_app_ok_nil : forall r, np_app (POk []) r = r.
Proof. intros [l| |]; reflexivity. Qed.
Lemma np_app_nil_r : forall r, np_app r (POk []) = r.
Proof. intros [l| |]; simpl; auto. rewrite app_nil_r. reflexivity. Qed.
Lemma np_app_assoc : forall a b c, np_app (np_app a b) c = np_app a (np_app b c).
Proof. intros [la| |] [lb| |] [lc| |]; simpl; auto. rewrite app_assoc. reflexivity. Qed.
Lemma np_parts_app : forall x y, np_parts (x ++ y) = np_app (np_parts x) (np_parts y).
Proof.
  induction x as [|d x IH]; intros y; cbn [app np_parts].
  - rewrite np_app_ok_nil. reflexivity.
  - rewrite IH, np_app_assoc. reflexivity.
Qed.

(* parsing distributes over '.' : the parts of p.q are the parts of p followed by the parts of q,
   and the first failure (error / panic) wins *)
Theorem np_parse_dot : forall p q, np_parse (p ++ 46%N :: q) = np_app (np_parse p) (np_parse q).
Proof. intros p q. unfold np_parse. rewrite np_split_dot_app, np_parts_app. reflexivity. Qed.

Lemma np_parse_nil : np_parse [] = POk [].
Proof. reflexivity. Qed.

(* compositionality of GetNestedField on texts: p.q is q resolved in the value of p *)
Theorem nested_field_dot : forall v p q ps qs,
  np_parse p = POk ps -> ps <> [] -> np_parse q = POk qs -> qs <> [] ->
  nested_field v (p ++ 46%N :: q) =
    match nested_field v p with NFound u => nested_field u q | r => r end.
Proof.
  intros v p q ps qs Hp Hps Hq Hqs.
  assert (Hpne : p <> []) by (intros ->; rewrite np_parse_nil in Hp; inversion Hp; congruence).
  assert (Hqne : q <> []) by (intros ->; rewrite np_parse_nil in Hq; inversion Hq; congruence).
  unfold nested_field.
  destruct (p ++ 46%N :: q) as [|c0 t0] eqn:Et; [destruct p; discriminate|]. rewrite <- Et. clear Et c0 t0.
  rewrite np_parse_dot, Hp, Hq. simpl np_app.
  destruct p as [|cp tp]; [congruence|]. destruct q as [|cq tq]; [congruence|].
  destruct (ps ++ qs) as [|x xs] eqn:Eapp.
  { apply app_eq_nil in Eapp. destruct Eapp; congruence. }
  rewrite <- Eapp. rewrite np_get_app.
  destruct ps as [|p1 ps']; [congruence|]. destruct qs as [|q1 qs']; [congruence|].
  destruct (np_get v (p1 :: ps')) as [u|]; reflexivity.
Qed.

(* ================= the text: one dot part ================= *)
Definition no_byte (c : N) (s : bytes) : Prop := ~ In c s.

Lemma no_byte_cons : forall c x s, no_byte c (x :: s) -> N.eqb x c = false /\ no_byte c s.
Proof.
  intros c x s H. split.
  - apply N.eqb_neq. intros ->. apply H. left. reflexivity.
  - intros Hin. apply H. right. exact Hin.
Qed.

Lemma np_split_dot_plain : forall s, no_byte 46%N s -> np_split_dot s = [s].
Proof.
  induction s as [|c s IH]; intros H; simpl; auto.
  apply no_byte_cons in H. destruct H as [H1 H2]. rewrite H1, (IH H2). reflexivity.
Qed.

Lemma np_until_open_none : forall s, no_byte 91%N s -> np_until_open s = None.
Proof.
  induction s as [|c s IH]; intros H; simpl; auto.
  apply no_byte_cons in H. destruct H as [H1 H2]. rewrite H1, (IH H2). reflexivity.
Qed.
Lemma np_until_open_some : forall n t, no_byte 91%N n -> np_until_open (n ++ 91%N :: t) = Some (n, t).
Proof.
  induction n as [|c n IH]; intros t H; simpl; auto.
  apply no_byte_cons in H. destruct H as [H1 H2]. rewrite H1, (IH t H2). reflexivity.
Qed.

(* sequential reading of bracket contents: the first failure wins *)
Fixpoint np_seq (l : list nbres) : npres :=
  match l with
  | [] => POk []
  | BPart p :: r => np_cons p (np_seq r)
  | BErr :: _ => PErr
  | BPanic :: _ => PPanic
  end.

Definition render_brs (cs : list bytes) : bytes := flat_map (fun c => 91%N :: c ++ [93%N]) cs.

Lemma np_brk_content : forall c acc t, no_byte 93%N c ->
  np_brk (c ++ 93%N :: t) acc =
    match np_bracket (rev acc ++ c) with
    | BPart p => match t with
                 | d :: t' => if N.eqb d 91 then np_cons p (np_brk t' []) else POk [p]
                 | [] => POk [p]
                 end
    | BErr => PErr
    | BPanic => PPanic
    end.
Proof.
  induction c as [|x c IH]; intros acc t H.
  - simpl. rewrite app_nil_r. reflexivity.
  - apply no_byte_cons in H. destruct H as [H1 H2].
    simpl. rewrite H1. rewrite (IH (x :: acc) t H2). simpl. rewrite <- app_assoc. reflexivity.
Qed.

Lemma np_brk_brackets : forall cs c, Forall (no_byte 93%N) (c :: cs) ->
  np_brk (c ++ 93%N :: render_brs cs) [] = np_seq (map np_bracket (c :: cs)).
Proof.
  induction cs as [|c' cs IH]; intros c H; inversion H as [|? ? Hc Hcs]; subst.
  - simpl render_brs. rewrite np_brk_content by exact Hc. simpl.
    destruct (np_bracket c); reflexivity.
  - simpl render_brs. rewrite np_brk_content by exact Hc. simpl rev. simpl app at 1.
    cbn [map np_seq]. destruct (np_bracket c) as [p| |]; auto.
    rewrite N.eqb_refl. rewrite <- app_assoc. simpl app.
    change (c' ++ 93%N :: render_brs cs) with (c' ++ 93%N :: render_brs cs).
    rewrite (IH c' Hcs). reflexivity.
Qed.

(* a chunk  name[c1][c2]..  of a canonical path *)
Definition wf_name (n : bytes) : Prop := n <> [] /\ no_byte 46%N n /\ no_byte 91%N n.
Definition wf_content (c : bytes) : Prop := no_byte 46%N c /\ no_byte 93%N c.

Definition render_group (g : bytes * list bytes) : bytes := fst g ++ render_brs (snd g).
Definition group_parts (g : bytes * list bytes) : list nbres := BPart (PField (fst g)) :: map np_bracket (snd g).

Lemma np_dot_part_group : forall n cs, wf_name n -> Forall wf_content cs ->
  np_dot_part (render_group (n, cs)) = np_seq (group_parts (n, cs)).
Proof.
  intros n cs (Hne & _ & Hopen) Hcs. unfold render_group, group_parts. simpl fst. simpl snd.
  destruct cs as [|c cs].
  - simpl. rewrite app_nil_r. destruct n as [|x n]; [congruence|].
    unfold np_dot_part. rewrite np_until_open_none by exact Hopen. reflexivity.
  - simpl render_brs. unfold np_dot_part.
    destruct (n ++ 91%N :: (c ++ [93%N]) ++ render_brs cs) as [|y ys] eqn:E; [destruct n; discriminate|]. rewrite <- E. clear E y ys.
    rewrite np_until_open_some by exact Hopen.
    destruct n as [|x n]; [congruence|].
    rewrite <- app_assoc. simpl app.
    rewrite np_brk_brackets.
    + reflexivity.
    + eapply Forall_impl; [|exact Hcs]. intros a [_ Ha]. exact Ha.
Qed.

Lemma no_byte_app : forall c a b, no_byte c a -> no_byte c b -> no_byte c (a ++ b).
Proof. intros c a b Ha Hb Hin. apply in_app_or in Hin. destruct Hin; auto. Qed.

Lemma render_brs_no_dot : forall cs, Forall wf_content cs -> no_byte 46%N (render_brs cs).
Proof.
  induction cs as [|c cs IH]; intros H; simpl; [intros []|].
  inversion H as [|? ? [Hc _] Hcs]; subst.
  intros [Hin|Hin]; [discriminate|].
  rewrite <- app_assoc in Hin. apply in_app_or in Hin. destruct Hin as [Hin|Hin]; [exact (Hc Hin)|].
  simpl in Hin. destruct Hin as [Hin|Hin]; [discriminate|]. exact (IH Hcs Hin).
Qed.

Lemma render_group_no_dot : forall n cs, wf_name n -> Forall wf_content cs -> no_byte 46%N (render_group (n, cs)).
Proof.
  intros n cs (_ & Hd & _) Hcs. unfold render_group. simpl. apply no_byte_app; auto. apply render_brs_no_dot; auto.
Qed.

(* canonical text of a grouped path: groups joined by '.' *)
Fixpoint render_groups (gs : list (bytes * list bytes)) : bytes :=
  match gs with
  | [] => []
  | [g] => render_group g
  | g :: gs' => render_group g ++ 46%N :: render_groups gs'
  end.
Definition wf_group (g : bytes * list bytes) : Prop := wf_name (fst g) /\ Forall wf_content (snd g).

Lemma np_seq_app : forall a b, np_seq (a ++ b) = np_app (np_seq a) (np_seq b).
Proof.
  induction a as [|x a IH]; intros b; cbn [app np_seq].
  - rewrite np_app_ok_nil. reflexivity.
  - destruct x as [p| |]; auto. rewrite IH. destruct (np_seq a) as [la| |]; simpl; auto.
    destruct (np_seq b); reflexivity.
Qed.

Theorem np_parse_render_groups : forall gs, gs <> [] -> Forall wf_group gs ->
  np_parse (render_groups gs) = np_seq (flat_map group_parts gs).
Proof.
  induction gs as [|[n cs] gs IH]; intros Hne Hwf; [congruence|].
  inversion Hwf as [|? ? [Hn Hcs] Hgs]; subst. simpl in Hn, Hcs.
  assert (Hone : np_parse (render_group (n, cs)) = np_seq (group_parts (n, cs))).
  { unfold np_parse. rewrite np_split_dot_plain by (apply render_group_no_dot; auto).
    cbn [np_parts]. rewrite np_app_nil_r. apply np_dot_part_group; auto. }
  destruct gs as [|g' gs'].
  - change (render_groups [(n, cs)]) with (render_group (n, cs)).
    change (flat_map group_parts [(n, cs)]) with (group_parts (n, cs) ++ []). rewrite app_nil_r. exact Hone.
  - change (render_groups ((n, cs) :: g' :: gs')) with (render_group (n, cs) ++ 46%N :: render_groups (g' :: gs')).
    rewrite np_parse_dot. rewrite IH by (auto; discriminate).
    change (flat_map group_parts ((n, cs) :: g' :: gs')) with (group_parts (n, cs) ++ flat_map group_parts (g' :: gs')).
    rewrite np_seq_app, Hone. reflexivity.
Qed.

(* the flat segment lists of the driver: every list that starts with a name is a list of groups *)
Definition flatten_group (g : bytes * list bytes) : list nseg := SName (fst g) :: map SBr (snd g).
Definition np_flatten (gs : list (bytes * list bytes)) : list nseg := flat_map flatten_group gs.

Lemma np_render_tail_brs : forall cs rest, np_render_tail (map SBr cs ++ rest) = render_brs cs ++ np_render_tail rest.
Proof.
  induction cs as [|c cs IH]; intros rest; simpl; auto.
  rewrite IH. rewrite <- !app_assoc. reflexivity.
Qed.

Lemma np_render_tail_flatten : forall gs,
  np_render_tail (np_flatten gs) = flat_map (fun g => 46%N :: render_group g) gs.
Proof.
  induction gs as [|[n cs] gs IH]; [reflexivity|].
  change (np_flatten ((n, cs) :: gs)) with (SName n :: (map SBr cs ++ np_flatten gs)).
  cbn [np_render_tail np_render_seg flat_map]. rewrite np_render_tail_brs, IH. unfold render_group. cbn [fst snd].
  simpl app. rewrite <- !app_assoc. reflexivity.
Qed.

Lemma np_render_flatten : forall gs, np_render (np_flatten gs) = render_groups gs.
Proof.
  destruct gs as [|[n cs] gs]; auto.
  unfold np_flatten. simpl flat_map. unfold flatten_group at 1. simpl fst. simpl snd.
  simpl np_render. fold (np_flatten gs). rewrite np_render_tail_brs, np_render_tail_flatten.
  revert n cs. induction gs as [|[n' cs'] gs IH]; intros n cs.
  - simpl. rewrite app_nil_r. reflexivity.
  - simpl flat_map. specialize (IH n' cs').
    change (render_groups ((n, cs) :: (n', cs') :: gs)) with (render_group (n, cs) ++ 46%N :: render_groups ((n', cs') :: gs)).
    rewrite <- IH. unfold render_group. simpl. rewrite <- !app_assoc. reflexivity.
Qed.

Lemma np_flatten_surj : forall ss n, exists cs t, SName n :: ss = np_flatten ((n, cs) :: t).
Proof.
  induction ss as [|s ss IH]; intros n.
  - exists [], []. reflexivity.
  - destruct s as [m|c].
    + destruct (IH m) as (cs & t & E). exists [], ((m, cs) :: t). unfold np_flatten in *. simpl in *. rewrite E. reflexivity.
    + destruct (IH n) as (cs & t & E). exists (c :: cs), t. unfold np_flatten in *. simpl in *.
      inversion E as [E']. reflexivity.
Qed.

Lemma group_parts_flatten : forall gs, flat_map group_parts gs = map np_seg_part (np_flatten gs).
Proof.
  induction gs as [|[n cs] gs IH]; simpl; auto.
  unfold np_flatten in *. simpl. rewrite map_app, map_map, IH. reflexivity.
Qed.

(* the round trip on segment lists: the canonical text of a path parses to its segments, read one by one *)
Theorem np_parse_render : forall gs, gs <> [] -> Forall wf_group gs ->
  np_parse (np_render (np_flatten gs)) = np_seq (map np_seg_part (np_flatten gs)).
Proof.
  intros gs Hne Hwf. rewrite np_render_flatten, <- group_parts_flatten. apply np_parse_render_groups; auto.
Qed.

(* ================= select items ================= *)
Lemma nc_lookup_set_same : forall r k v, nc_lookup (nc_set r k v) k = Some v.
Proof.
  induction r as [|[k' v'] r IH]; intros k v; simpl.
  - rewrite bytes_eqb_refl. reflexivity.
  - destruct (bytes_eqb k k') eqn:E; simpl; [rewrite bytes_eqb_refl|rewrite E]; auto.
Qed.
Lemma nc_lookup_set_other : forall r k v k', bytes_eqb k' k = false -> nc_lookup (nc_set r k v) k' = nc_lookup r k'.
Proof.
  induction r as [|[k0 v0] r IH]; intros k v k' Hne; simpl.
  - rewrite Hne. reflexivity.
  - destruct (bytes_eqb k k0) eqn:E; simpl.
    + apply bytes_eqb_eq in E. subst. rewrite Hne. reflexivity.
    + destruct (bytes_eqb k' k0); auto.
Qed.
Lemma bytes_eqb_neq : forall a b, a <> b -> bytes_eqb a b = false.
Proof. intros a b H. destruct (bytes_eqb a b) eqn:E; auto. apply bytes_eqb_eq in E. congruence. Qed.

Lemma nc_lookup_set : forall r k v k',
  nc_lookup (nc_set r k v) k' = if bytes_eqb k' k then Some v else nc_lookup r k'.
Proof.
  intros r k v k'. destruct (bytes_eqb k' k) eqn:E.
  - apply bytes_eqb_eq in E. subst. apply nc_lookup_set_same.
  - apply nc_lookup_set_other. exact E.
Qed.

Definition route_is (rt : nroute) (i : nitem) : Prop := np_route (ni_path i) = rt.
Definition outs_of (rt : nroute) (is : list nitem) : list bytes :=
  map ni_out (filter (fun i => match np_route (ni_path i), rt with
                               | RSimple, RSimple | RExpr, RExpr | ROther, ROther => true
                               | _, _ => false end) is).

Lemma np_expr_cells_keys : forall is acc ex, np_expr_cells is acc = Some ex ->
  forall k, nc_lookup ex k <> None <-> (nc_lookup acc k <> None \/ In k (outs_of RExpr is)).
Proof.
  induction is as [|i is IH]; intros acc ex H k; simpl in H.
  - inversion H; subst. unfold outs_of. simpl. tauto.
  - unfold outs_of in *. simpl. destruct (np_route (ni_path i)) eqn:R; try discriminate.
    + rewrite (IH _ _ H k). tauto.
    + rewrite (IH _ _ H k). rewrite nc_lookup_set. simpl.
      destruct (bytes_eqb k (ni_out i)) eqn:E.
      * apply bytes_eqb_eq in E. subst. split; auto. intros _. left. discriminate.
      * split; [intros [A|A]; auto|intros [A|[A|A]]; auto].
        subst. rewrite bytes_eqb_refl in E. discriminate.
Qed.

Lemma np_simple_cells_keys : forall row ex is acc r, np_simple_cells row ex is acc = PrRow r ->
  (forall k, nc_lookup ex k <> None -> nc_lookup acc k <> None) ->
  forall k, nc_lookup r k <> None <-> (nc_lookup acc k <> None \/ In k (outs_of RSimple is)).
Proof.
  induction is as [|i is IH]; intros acc r H Hex k; simpl in H.
  - inversion H; subst. unfold outs_of. simpl. tauto.
  - unfold outs_of in *. simpl. destruct (np_route (ni_path i)) eqn:R.
    + simpl. destruct (nc_lookup ex (ni_out i)) eqn:L.
      * rewrite (IH _ _ H Hex k). split; [tauto|]. intros [A|[A|A]]; auto.
        subst. left. apply Hex. rewrite L. discriminate.
      * assert (Hset : forall c, (forall k0, nc_lookup ex k0 <> None -> nc_lookup (nc_set acc (ni_out i) c) k0 <> None)).
        { intros c k0 Hk0. rewrite nc_lookup_set. destruct (bytes_eqb k0 (ni_out i)); [discriminate|auto]. }
        assert (Hgoal : forall c r', np_simple_cells row ex is (nc_set acc (ni_out i) c) = PrRow r' ->
                  (nc_lookup r' k <> None <-> nc_lookup acc k <> None \/ ni_out i = k \/ In k (map ni_out (filter (fun i0 => match np_route (ni_path i0) with RSimple => true | _ => false end) is)))).
        { intros c r' Hr'. rewrite (IH _ _ Hr' (Hset c) k). rewrite nc_lookup_set.
          destruct (bytes_eqb k (ni_out i)) eqn:E.
          - apply bytes_eqb_eq in E. subst. split; auto. intros _. left. discriminate.
          - split; [intros [A|A]; auto|intros [A|[A|A]]; auto]. subst. rewrite bytes_eqb_refl in E. discriminate. }
        destruct (ni_value row (ni_path i)); try discriminate; eapply Hgoal; exact H.
    + rewrite (IH _ _ H Hex k). tauto.
    + rewrite (IH _ _ H Hex k). tauto.
Qed.

(* the key set of a result: exactly the output names (alias, else the text of the item) *)
Theorem ndirect_columns : forall q row r, ndirect q row = NDRow r ->
  forall k, nc_lookup r k <> None <-> In k (map ni_out (nq_items q)).
Proof.
  intros q row r H k. unfold ndirect in H.
  destruct (nwhere_ok q row) as [[|]|]; try discriminate.
  destruct (np_expr_cells (nq_items q) []) as [ex|] eqn:Eex; try discriminate.
  destruct (np_simple_cells row ex (nq_items q) ex) as [r'|] eqn:Es; try discriminate.
  inversion H; subst r'. clear H.
  rewrite (np_simple_cells_keys _ _ _ _ _ Es (fun _ h => h) k).
  rewrite (np_expr_cells_keys _ _ _ Eex k). simpl.
  assert (Hno : forall is, np_expr_cells is [] <> None -> True) by auto.
  assert (Hall : forall is acc ex', np_expr_cells is acc = Some ex' -> Forall (fun i => np_route (ni_path i) <> ROther) is).
  { induction is as [|i is IH]; intros acc ex' He; constructor; simpl in He.
    - destruct (np_route (ni_path i)); try discriminate; congruence.
    - destruct (np_route (ni_path i)); try discriminate; eapply IH; exact He. }
  specialize (Hall _ _ _ Eex). clear Eex Es.
  unfold outs_of. induction (nq_items q) as [|i is IH]; simpl; [tauto|].
  inversion Hall as [|? ? Hi His]; subst. specialize (IH His).
  destruct (np_route (ni_path i)) eqn:R; simpl; try congruence; tauto.
Qed.

(* the value of a path item: when all items are resolved here (route RSimple) and the output names are
   pairwise distinct, every cell is the value of its path in THIS row, NULL when the path is missing *)
Definition cell_of (row : jrow) (path : bytes) : ncell :=
  match ni_value row path with NFound v => CVal v | _ => CVal jnull end.

Lemma np_simple_cells_values : forall row is acc r,
  Forall (route_is RSimple) is -> NoDup (map ni_out is) ->
  np_simple_cells row [] is acc = PrRow r ->
  (forall i, In i is -> nc_lookup r (ni_out i) = Some (cell_of row (ni_path i))) /\
  (forall k, ~ In k (map ni_out is) -> nc_lookup r k = nc_lookup acc k).
Proof.
  induction is as [|i is IH]; intros acc r Hr Hnd H; simpl in H.
  - inversion H; subst. split; [intros ? []|auto].
  - inversion Hr as [|? ? Hi His]; subst. inversion Hnd as [|? ? Hnotin Hnd']; subst.
    unfold route_is in Hi. rewrite Hi in H. simpl in H.
    assert (Hstep : forall c, np_simple_cells row [] is (nc_set acc (ni_out i) (CVal c)) = PrRow r ->
              cell_of row (ni_path i) = CVal c ->
              (forall i0, In i0 (i :: is) -> nc_lookup r (ni_out i0) = Some (cell_of row (ni_path i0))) /\
              (forall k, ~ In k (map ni_out (i :: is)) -> nc_lookup r k = nc_lookup acc k)).
    { intros c Hc Hcell. destruct (IH _ _ His Hnd' Hc) as [IH1 IH2]. split.
      - intros i0 [->|Hin]; auto. rewrite (IH2 _ Hnotin), nc_lookup_set_same, Hcell. reflexivity.
      - intros k Hk. simpl in Hk. rewrite IH2 by tauto. apply nc_lookup_set_other.
        apply bytes_eqb_neq. intros ->. tauto. }
    unfold cell_of in *. destruct (ni_value row (ni_path i)) as [v| |]; try discriminate.
    + apply (Hstep v); auto.
    + apply (Hstep jnull); auto.
Qed.

Lemma np_expr_cells_simple : forall is acc, Forall (route_is RSimple) is -> np_expr_cells is acc = Some acc.
Proof.
  induction is as [|i is IH]; intros acc H; simpl; auto.
  inversion H as [|? ? Hi His]; subst. unfold route_is in Hi. rewrite Hi. auto.
Qed.

Theorem ndirect_values : forall q row r,
  Forall (route_is RSimple) (nq_items q) -> NoDup (map ni_out (nq_items q)) ->
  ndirect q row = NDRow r ->
  forall i, In i (nq_items q) -> nc_lookup r (ni_out i) = Some (cell_of row (ni_path i)).
Proof.
  intros q row r Hr Hnd H. unfold ndirect in H.
  destruct (nwhere_ok q row) as [[|]|]; try discriminate.
  rewrite (np_expr_cells_simple _ _ Hr) in H.
  destruct (np_simple_cells row [] (nq_items q) []) as [r'|] eqn:Es; try discriminate.
  inversion H; subst r'. exact (proj1 (np_simple_cells_values _ _ _ _ Hr Hnd Es)).
Qed.

(* a cell is NULL exactly when the path is missing or resolves to a NULL *)
Theorem cell_null_iff : forall row path,
  cell_of row path = CVal jnull <-> (ni_value row path = NMissing \/ ni_value row path = NFound jnull \/ ni_value row path = NPanic).
Proof.
  intros row path. unfold cell_of. destruct (ni_value row path) as [v| |]; split; auto.
  - intros H. inversion H. auto.
  - intros [H|[H|H]]; try discriminate. inversion H. reflexivity.
Qed.

(* produced iff WHERE holds; the result of a row does not depend on earlier rows *)
Theorem ndirect_none_iff : forall q row, ndirect q row = NDNone <-> nwhere_ok q row = Some false.
Proof.
  intros q row. unfold ndirect. destruct (nwhere_ok q row) as [[|]|]; split; try discriminate; auto.
  destruct (np_expr_cells (nq_items q) []); try discriminate.
  destruct (np_simple_cells row n (nq_items q) n); discriminate.
Qed.

Theorem ndirect_history_free : forall q h row,
  nth (length h) (map (ndirect q) (h ++ [row])) NDNone = ndirect q row.
Proof.
  intros q h row. rewrite map_app. rewrite app_nth2; rewrite map_length; [|lia].
  rewrite Nat.sub_diag. reflexivity.
Qed.

(* a path item whose rows change shape: the value is that of the row at hand, whatever came before *)
Theorem ndirect_shape_free : forall q h row r,
  Forall (route_is RSimple) (nq_items q) -> NoDup (map ni_out (nq_items q)) ->
  nth (length h) (map (ndirect q) (h ++ [row])) NDNone = NDRow r ->
  forall i, In i (nq_items q) -> nc_lookup r (ni_out i) = Some (cell_of row (ni_path i)).
Proof.
  intros q h row r Hr Hnd H. rewrite ndirect_history_free in H. eapply ndirect_values; eauto.
Qed.
