(* Every trace of the three time-window models satisfies the delivery-liveness clause of Spec/QuietSpec.v:
   a tick that finds the channel empty re-sends a watermark whose send was skipped, so after the next drain the
   trigger code has received the current watermark, which is >= (largest sane timestamp) - ooo. *)
From Coq Require Import Lia Arith.
From SV Require Import Model.Session Model.Tumbling Model.Sliding Spec.QuietSpec
     Proofs.TumblingWatermark Proofs.SlidingComplete Proofs.WindowsWatermark.

(* ---------------- the watermark object alone ---------------- *)
Inductive wop := WAdd (ts : Z) | WPop | WTick (now : Z).

Definition wstep (ooo idle base : Z) (w : wm) (o : wop) : wm * list wev :=
  match o with
  | WAdd ts => (update_event_time ooo base ts w, [WvAdd ts])
  | WPop => match pop_chan w with Some (x, w') => (w', [WvDB x]) | None => (w, [WvD0]) end
  | WTick now => (tick ooo idle now w, [WvTick])
  end.

Fixpoint wrun (ooo idle base : Z) (w : wm) (l : list wop) : wm * list wev :=
  match l with
  | [] => (w, [])
  | o :: r => let '(w1, e1) := wstep ooo idle base w o in let '(w2, e2) := wrun ooo idle base w1 r in (w2, e1 ++ e2)
  end.

Definition last_opt (l : list Z) (d : option Z) : option Z := match l with [] => d | _ => Some (last l 0) end.

Definition qole (a b : option Z) : Prop :=
  match a, b with Some x, Some y => x <= y | Some _, None => False | None, _ => True end.

Record QInv (ooo : Z) (w : wm) (s : qst) : Prop := {
  qi_max : maxEv w = q_max s;
  qi_cur : match q_max s with Some x => exists c, cur w = Some c /\ x - ooo <= c | None => cur w = None end;
  qi_sent : sent w = last_opt (chan w) (q_last s);
  qi_le : qole (sent w) (cur w);
  qi_empty : q_empty s = true -> chan w = [];
  qi_armed : q_armed s = true -> sent w = cur w }.

Lemma QInv0 ooo : QInv ooo wm0 qst0.
Proof. constructor; cbn; auto; discriminate. Qed.

Lemma last_opt_app l c d : last_opt (l ++ [c]) d = Some c.
Proof. unfold last_opt. destruct (l ++ [c]) eqn:E; [destruct l; discriminate|]. rewrite <- E, last_last. reflexivity. Qed.

Lemma ogt_false_le c s : ogt c s = false -> exists x, s = Some x /\ c <= x.
Proof. unfold ogt. destruct s as [x|]; [|discriminate]. intros H. exists x. split; [reflexivity|]. apply Z.ltb_ge in H. exact H. Qed.

(* send on a state whose cur is already >= what the checker expects *)
Lemma send_inv ooo w s :
  maxEv w = q_max s ->
  match q_max s with Some x => exists c, cur w = Some c /\ x - ooo <= c | None => cur w = None end ->
  sent w = last_opt (chan w) (q_last s) -> qole (sent w) (cur w) ->
  let w' := send w in
  maxEv w' = q_max s /\
  match q_max s with Some x => exists c, cur w' = Some c /\ x - ooo <= c | None => cur w' = None end /\
  sent w' = last_opt (chan w') (q_last s) /\ qole (sent w') (cur w') /\
  ((length (chan w) < chan_cap)%nat -> sent w' = cur w').
Proof.
  intros Hm Hc Hs Hle. unfold send. destruct (cur w) as [c|] eqn:Ec.
  2:{ cbn. try rewrite Ec. refine (conj Hm (conj Hc (conj Hs (conj _ _)))).
      - unfold qole. destruct (sent w); [exact Hle|exact I].
      - intros _. unfold qole in Hle. destruct (sent w); [contradiction|reflexivity]. }
  destruct (ogt c (sent w)) eqn:Eg; cbn [andb].
  - destruct (Nat.ltb (length (chan w)) chan_cap) eqn:El; cbn; try rewrite Ec.
    + refine (conj Hm (conj Hc (conj _ (conj _ _)))).
      * symmetry. apply last_opt_app.
      * lia.
      * reflexivity.
    + refine (conj Hm (conj Hc (conj Hs (conj Hle _)))). intros H. apply Nat.ltb_ge in El. lia.
  - cbn. try rewrite Ec. refine (conj Hm (conj Hc (conj Hs (conj Hle _)))). intros _.
    destruct (ogt_false_le _ _ Eg) as (x & Hx & Hcx). unfold qole in Hle. rewrite Hx in Hle. rewrite Hx. f_equal. lia.
Qed.

Ltac qsimpl := cbn [q_empty q_armed q_max q_last maxEv cur sent chan lastEv].

Lemma wstep_inv ooo idle base w s o w' evs :
  QInv ooo w s -> wstep ooo idle base w o = (w', evs) ->
  forall r, chk_quiet ooo base s (evs ++ r) = true ->
  exists s', QInv ooo w' s' /\ chk_quiet ooo base s' r = true.
Proof.
  intros [Hm Hc Hs Hle He Ha] Hstep r. destruct o as [ts| |now]; cbn [wstep] in Hstep.
  - (* Add *)
    injection Hstep as <- <-. cbn [app chk_quiet]. intros Hr. eexists. split; [|exact Hr].
    unfold update_event_time. qsimpl.
    destruct (base + ooo + day <? ts) eqn:Ef.
    + constructor; qsimpl; [exact Hm|exact Hc|exact Hs|exact Hle|discriminate|discriminate].
    + set (w1 := if ogt ts (maxEv w) then _ else _).
      assert (H1 : maxEv w1 = qmax ts (q_max s) /\
                   match qmax ts (q_max s) with Some x => exists c, cur w1 = Some c /\ x - ooo <= c | None => cur w1 = None end /\
                   sent w1 = last_opt (chan w1) (q_last s) /\ qole (sent w1) (cur w1)).
      { unfold w1, qmax. rewrite <- Hm. destruct (ogt ts (maxEv w)) eqn:Eg; qsimpl.
        - refine (conj eq_refl (conj _ (conj Hs _))).
          + unfold raise_cur. destruct (ogt (ts - ooo) (cur w)) eqn:E2.
            * exists (ts - ooo). split; [reflexivity|lia].
            * destruct (ogt_false_le _ _ E2) as (x & Hx & Hle2). exists x. split; [exact Hx|exact Hle2].
          + unfold raise_cur. destruct (ogt (ts - ooo) (cur w)) eqn:E2; [|exact Hle].
            unfold qole in *. destruct (sent w) as [x|]; [|exact I]. unfold ogt in E2. destruct (cur w) as [y|]; [|contradiction].
            apply Z.ltb_lt in E2. lia.
        - rewrite Hm. refine (conj eq_refl (conj Hc (conj Hs Hle))). }
      destruct H1 as (A & B & C & D).
      pose (s1 := {| q_empty := false; q_armed := false; q_max := qmax ts (q_max s); q_last := q_last s |}).
      destruct (send_inv ooo w1 s1 A B C D) as (A' & B' & C' & D' & _).
      constructor; qsimpl; [exact A'|exact B'|exact C'|exact D'|discriminate|discriminate].
  - (* Pop *)
    unfold pop_chan in Hstep. destruct (chan w) as [|x l] eqn:Ech.
    + injection Hstep as <- <-. cbn [app chk_quiet]. destruct (quiet_bad ooo s) eqn:Eb.
      * (* impossible: armed => sent = cur = last received >= max - ooo *)
        exfalso. unfold quiet_bad in Eb. apply andb_prop in Eb as [Earm Eb]. specialize (Ha Earm).
        try rewrite Ech in Hs. cbn [last_opt] in Hs. destruct (q_max s) as [m|]; [|discriminate].
        destruct Hc as (c & Hcc & Hcl). rewrite Ha, Hcc in Hs. rewrite <- Hs in Eb. apply Z.ltb_lt in Eb. lia.
      * intros Hr. eexists. split; [|exact Hr].
        constructor; qsimpl; [exact Hm|exact Hc|try rewrite Ech; exact Hs|exact Hle|intros _; try exact Ech; reflexivity|discriminate].
    + injection Hstep as <- <-. cbn [app chk_quiet]. intros Hr. eexists. split; [|exact Hr].
      constructor; qsimpl; [exact Hm|exact Hc| |exact Hle| |exact Ha].
      * rewrite Hs; try rewrite Ech; unfold last_opt. destruct l; reflexivity.
      * intros E. specialize (He E). try rewrite Ech in He. discriminate.
  - (* Tick *)
    injection Hstep as <- <-. cbn [app chk_quiet]. intros Hr. eexists. split; [|exact Hr].
    unfold tick. rewrite Hm. destruct (q_max s) as [m|] eqn:Eq.
    2:{ constructor; qsimpl; try rewrite Eq; [exact Hm|exact Hc|exact Hs|exact Hle|discriminate|].
        intros E. rewrite Hc. unfold qole in Hle. rewrite Hc in Hle. destruct (sent w); [contradiction|reflexivity]. }
    set (nw := match lastEv w with Some l => _ | None => _ end).
    set (w1 := {| maxEv := Some m; cur := raise_cur nw (cur w); sent := sent w; lastEv := lastEv w; chan := chan w |}).
    pose (s1 := {| q_empty := false; q_armed := q_empty s; q_max := Some m; q_last := q_last s |}).
    assert (B : exists c, cur w1 = Some c /\ m - ooo <= c).
    { destruct Hc as (c & Hcc & Hcl). unfold w1; qsimpl. unfold raise_cur. destruct (ogt nw (cur w)) eqn:E2.
      - exists nw. split; [reflexivity|]. rewrite Hcc in E2. cbn in E2. apply Z.ltb_lt in E2. lia.
      - exists c. split; [exact Hcc|exact Hcl]. }
    assert (D : qole (sent w1) (cur w1)).
    { unfold w1; qsimpl. unfold raise_cur. destruct (ogt nw (cur w)) eqn:E2; [|exact Hle].
      unfold qole in *. destruct (sent w) as [x|]; [|exact I]. unfold ogt in E2. destruct (cur w) as [y|]; [|contradiction].
      apply Z.ltb_lt in E2. lia. }
    destruct (send_inv ooo w1 s1 eq_refl B Hs D) as (A' & B' & C' & D' & F').
    constructor; qsimpl; [try rewrite Eq; exact A'|try rewrite Eq; exact B'|exact C'|exact D'|discriminate|].
    intros E. apply F'. unfold w1; qsimpl. rewrite (He E). cbn. unfold chan_cap. lia.
Qed.

Lemma wrun_quiet ooo idle base l : forall w s,
  QInv ooo w s -> chk_quiet ooo base s (snd (wrun ooo idle base w l)) = false.
Proof.
  induction l as [|o l IH]; intros w s Hinv; cbn [wrun]; [reflexivity|].
  destruct (wstep ooo idle base w o) as [w1 e1] eqn:E1. destruct (wrun ooo idle base w1 l) as [w2 e2] eqn:E2. cbn [snd].
  destruct (chk_quiet ooo base s (e1 ++ e2)) eqn:Ec; [|reflexivity].
  destruct (wstep_inv _ _ _ _ _ _ _ _ Hinv E1 e2 Ec) as (s' & Hinv' & Hc').
  specialize (IH w1 s' Hinv'). rewrite E2 in IH. cbn in IH. congruence.
Qed.

(* ---------------- the three windows project onto the watermark object ---------------- *)
Definition now_is (base : Z) (o : op) : Prop := match o with Tumbling.Add _ _ now => now = base | _ => True end.
Definition nnow_is (base : Z) (o : nop) : Prop := match o with NAdd _ _ _ now => now = base | _ => True end.

Lemma pj_batches (bs : list batch) : flat_map pj_ev (map EvBatch bs) = [].
Proof. induction bs as [|b bs IH]; cbn; auto. Qed.

Lemma tumbling_proj c base h : forall s,
  Forall (now_is base) h ->
  exists l, w (fst (run c s h)) = fst (wrun (ooo c) (idle c) base (w s) l) /\
            flat_map pj_ev (snd (run c s h)) = snd (wrun (ooo c) (idle c) base (w s) l).
Proof.
  induction h as [|o h IH]; intros s Hn; [exists []; cbn; auto|].
  inversion Hn as [|o' h' Ho Hh]; subst. cbn [run].
  destruct (step c s o) as [s1 e1] eqn:E1. specialize (IH s1 Hh). destruct IH as (l & Hw & He).
  destruct (run c s1 h) as [s2 e2] eqn:E2. cbn [fst snd] in *. rewrite flat_map_app.
  assert (K : exists l1, w s1 = fst (wrun (ooo c) (idle c) base (w s) l1) /\ flat_map pj_ev e1 = snd (wrun (ooo c) (idle c) base (w s) l1)).
  { destruct o as [id ts now|id| | |now]; cbn [step] in E1.
    - cbn in Ho. subst now. unfold add in E1. destruct (add_core c id ts base s) as [s' bs] eqn:Ea. injection E1 as <- <-.
      destruct (add_core_w _ _ _ _ _ _ _ Ea) as (Hw' & _). exists [WAdd ts]. cbn. rewrite pj_batches. auto.
    - injection E1 as <- <-. exists []. cbn. auto.
    - destruct (pend s).
      + injection E1 as <- <-. exists []. cbn. auto.
      + destruct (pop_chan (w s)) as [[x w']|] eqn:Ep; injection E1 as <- <-; exists [WPop]; cbn; rewrite Ep; cbn; auto.
    - exists []. unfold fire_step in E1. destruct (pend s); [|injection E1 as <- <-; cbn; auto].
      destruct (init s); cbn [negb] in E1; [|injection E1 as <- <-; cbn; auto].
      destruct (minl _); injection E1 as <- <-; cbn; auto.
    - injection E1 as <- <-. exists [WTick now]. cbn. auto. }
  destruct K as (l1 & Hw1 & He1). exists (l1 ++ l).
  assert (App : forall l1 l w0, wrun (ooo c) (idle c) base w0 (l1 ++ l) =
            (fst (wrun (ooo c) (idle c) base (fst (wrun (ooo c) (idle c) base w0 l1)) l),
             snd (wrun (ooo c) (idle c) base w0 l1) ++ snd (wrun (ooo c) (idle c) base (fst (wrun (ooo c) (idle c) base w0 l1)) l))).
  { clear. induction l1 as [|o l1 IH]; intros l w0; cbn [app wrun].
    - cbn. destruct (wrun _ _ _ w0 l); reflexivity.
    - destruct (wstep _ _ _ w0 o) as [w1 e1]. rewrite IH. destruct (wrun _ _ _ w1 l1) as [w2 e2]. cbn. rewrite app_assoc. reflexivity. }
  rewrite App. cbn [fst snd]. rewrite <- Hw1, <- He1, <- Hw, <- He. auto.
Qed.

Lemma wrun_app ooo idle base : forall l1 l w0, wrun ooo idle base w0 (l1 ++ l) =
  (fst (wrun ooo idle base (fst (wrun ooo idle base w0 l1)) l),
   snd (wrun ooo idle base w0 l1) ++ snd (wrun ooo idle base (fst (wrun ooo idle base w0 l1)) l)).
Proof.
  induction l1 as [|o l1 IH]; intros l w0; cbn [app wrun].
  - cbn. destruct (wrun _ _ _ w0 l); reflexivity.
  - destruct (wstep _ _ _ w0 o) as [w1 e1]. rewrite IH. destruct (wrun _ _ _ w1 l1) as [w2 e2]. cbn. rewrite app_assoc. reflexivity.
Qed.

Lemma sliding_proj c base h : forall s,
  Forall (now_is base) h ->
  exists l, s_w (fst (srun c s h)) = fst (wrun (sooo c) 0 base (s_w s) l) /\
            flat_map pj_ev (snd (srun c s h)) = snd (wrun (sooo c) 0 base (s_w s) l).
Proof.
  induction h as [|o h IH]; intros s Hn; [exists []; cbn; auto|].
  inversion Hn as [|o' h' Ho Hh]; subst. cbn [srun].
  destruct (sstep c s o) as [s1 e1] eqn:E1. specialize (IH s1 Hh). destruct IH as (l & Hw & He).
  destruct (srun c s1 h) as [s2 e2] eqn:E2. cbn [fst snd] in *. rewrite flat_map_app.
  assert (K : exists l1, s_w s1 = fst (wrun (sooo c) 0 base (s_w s) l1) /\ flat_map pj_ev e1 = snd (wrun (sooo c) 0 base (s_w s) l1)).
  { destruct o as [id ts now|id| | |now]; cbn [sstep] in E1.
    - cbn in Ho. subst now. unfold sadd in E1. destruct (sadd_core c id ts base s) as [s' bs] eqn:Ea. injection E1 as <- <-.
      destruct (sadd_core_shape c _ _ _ _ _ _ Ea) as (_ & Hw' & _). exists [WAdd ts]. cbn. rewrite pj_batches. auto.
    - injection E1 as <- <-. exists []. cbn. auto.
    - destruct (s_pend s).
      + injection E1 as <- <-. exists []. cbn. auto.
      + destruct (pop_chan (s_w s)) as [[x w']|] eqn:Ep; injection E1 as <- <-; exists [WPop]; cbn; rewrite Ep; cbn; auto.
    - exists []. unfold sfire_step in E1. destruct (s_pend s) as [wmk|]; [|injection E1 as <- <-; cbn; auto].
      destruct (s_init s); cbn [negb] in E1; [|injection E1 as <- <-; cbn; auto].
      destruct (omin_list _) as [a|]; [|injection E1 as <- <-; cbn; auto].
      destruct (a + ssize c <=? wmk); injection E1 as <- <-; cbn; auto.
    - injection E1 as <- <-. exists [WTick now]. cbn. auto. }
  destruct K as (l1 & Hw1 & He1). exists (l1 ++ l).
  rewrite wrun_app. cbn [fst snd]. rewrite <- Hw1, <- He1, <- Hw, <- He. auto.
Qed.

Lemma pj_sbatches {A} (f : A -> sev) (l : list A) :
  (forall x, pj_sev (f x) = []) -> flat_map pj_sev (map f l) = [].
Proof. intros H. induction l as [|x l IH]; cbn; auto. rewrite H. exact IH. Qed.

Lemma nadd_proj c id ts key now s s' evs :
  nadd c id ts key now s = (s', evs) -> flat_map pj_sev evs = [WvAdd ts].
Proof.
  unfold nadd. destruct (now + nooo c + day <? ts); [intros [= <- <-]; reflexivity|].
  destruct (is_late ts _); [|intros [= <- <-]; reflexivity].
  destruct (0 <? nlateness c); [|intros [= <- <-]; reflexivity].
  destruct (lookup key (n_trig s)) as [t|]; [|intros [= <- <-]; reflexivity].
  destruct (in_sess _ ts); intros [= <- <-]; reflexivity.
Qed.

Lemma session_proj c base h : forall s,
  Forall (nnow_is base) h ->
  exists l, n_w (fst (nrun c s h)) = fst (wrun (nooo c) 0 base (n_w s) l) /\
            flat_map pj_sev (snd (nrun c s h)) = snd (wrun (nooo c) 0 base (n_w s) l).
Proof.
  induction h as [|o h IH]; intros s Hn; [exists []; cbn; auto|].
  inversion Hn as [|o' h' Ho Hh]; subst. cbn [nrun].
  destruct (nstep c s o) as [s1 e1] eqn:E1. specialize (IH s1 Hh). destruct IH as (l & Hw & He).
  destruct (nrun c s1 h) as [s2 e2] eqn:E2. cbn [fst snd] in *. rewrite flat_map_app.
  assert (K : exists l1, n_w s1 = fst (wrun (nooo c) 0 base (n_w s) l1) /\ flat_map pj_sev e1 = snd (wrun (nooo c) 0 base (n_w s) l1)).
  { destruct o as [id ts key now|id| | |now]; cbn [nstep] in E1.
    - cbn in Ho. subst now. destruct (nadd_w c _ _ _ _ _ _ _ E1) as (Hw' & _). exists [WAdd ts]. cbn.
      rewrite (nadd_proj _ _ _ _ _ _ _ _ E1). auto.
    - injection E1 as <- <-. exists []. cbn. auto.
    - destruct (n_pend s).
      + injection E1 as <- <-. exists []. cbn. auto.
      + destruct (pop_chan (n_w s)) as [[x w']|] eqn:Ep; injection E1 as <- <-; exists [WPop]; cbn; rewrite Ep; cbn; auto.
    - exists []. unfold nfire in E1. destruct (n_pend s) as [wmk|]; injection E1 as <- <-; cbn; auto.
      rewrite flat_map_app. rewrite pj_sbatches by reflexivity. cbn. auto.
    - injection E1 as <- <-. exists [WTick now]. cbn. auto. }
  destruct K as (l1 & Hw1 & He1). exists (l1 ++ l).
  rewrite wrun_app. cbn [fst snd]. rewrite <- Hw1, <- He1, <- Hw, <- He. auto.
Qed.

(* ---------------- the clause holds on every trace of the three models ---------------- *)
Theorem tumbling_quiet c base h :
  Forall (now_is base) h -> quiet_violated (ooo c) base (snd (run c st0 h)) = false.
Proof.
  intros Hn. destruct (tumbling_proj c base h st0 Hn) as (l & _ & He). unfold quiet_violated. rewrite He.
  apply wrun_quiet. apply QInv0.
Qed.

Theorem sliding_quiet c base h :
  Forall (now_is base) h -> quiet_violated (sooo c) base (snd (srun c sst0 h)) = false.
Proof.
  intros Hn. destruct (sliding_proj c base h sst0 Hn) as (l & _ & He). unfold quiet_violated. rewrite He.
  apply wrun_quiet. apply QInv0.
Qed.

Theorem session_quiet c base h :
  Forall (nnow_is base) h -> quiet_violated_s (nooo c) base (snd (nrun c nst0 h)) = false.
Proof.
  intros Hn. destruct (session_proj c base h nst0 Hn) as (l & _ & He). unfold quiet_violated_s. rewrite He.
  apply wrun_quiet. apply QInv0.
Qed.

(* the re-send itself, stated on the watermark object: a tick with room in the channel publishes a current
   watermark that is newer than the last one sent *)
Theorem tick_resends ooo idle now w m c :
  maxEv w = Some m -> (length (chan w) < chan_cap)%nat ->
  cur (tick ooo idle now w) = Some c -> ogt c (sent w) = true ->
  chan (tick ooo idle now w) = chan w ++ [c] /\ sent (tick ooo idle now w) = Some c.
Proof.
  intros Hm Hl. unfold tick. rewrite Hm.
  set (w1 := {| maxEv := _; cur := _; sent := _; lastEv := _; chan := _ |}).
  assert (Hc : cur (send w1) = cur w1). { unfold send. destruct (cur w1) as [x|] eqn:Ex; [|try exact Ex; reflexivity]. destruct (_ && _); cbn; try exact Ex; reflexivity. }
  rewrite Hc. intros Hcur Hg. unfold send. rewrite Hcur. change (sent w1) with (sent w). change (chan w1) with (chan w).
  rewrite Hg. apply Nat.ltb_lt in Hl. rewrite Hl. cbn. auto.
Qed.
