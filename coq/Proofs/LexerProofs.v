(* C11 -- proofs about the lexer model (Model/Lexer.v). *)
From SV Require Import Model.Lexer.
From Coq Require Import Lia.
Local Open Scope N_scope.

(* ---------- basic list facts ---------- *)
Lemma bytes_eqb_refl : forall a, bytes_eqb a a = true.
Proof. induction a as [|x a IH]; simpl; auto. rewrite N.eqb_refl, IH. reflexivity. Qed.

Lemma bytes_eqb_eq : forall a b, bytes_eqb a b = true -> a = b.
Proof.
  induction a as [|x a IH]; destruct b as [|y b]; simpl; intro H; try discriminate; auto.
  apply andb_prop in H. destruct H as [H1 H2]. apply N.eqb_eq in H1. subst. f_equal. auto.
Qed.

Lemma span_app : forall f s a b, span f s = (a, b) -> s = a ++ b.
Proof.
  induction s as [|c s IH]; simpl; intros a b H.
  - inversion H. reflexivity.
  - destruct (f c) eqn:Hf.
    + destruct (span f s) as [a' b'] eqn:Hs. inversion H; subst. simpl. f_equal. apply IH. reflexivity.
    + inversion H. reflexivity.
Qed.

Lemma span_all : forall f s a b, span f s = (a, b) -> forallb f a = true.
Proof.
  induction s as [|c s IH]; simpl; intros a b H.
  - inversion H. reflexivity.
  - destruct (f c) eqn:Hf.
    + destruct (span f s) as [a' b'] eqn:Hs. inversion H; subst. simpl. rewrite Hf. eapply IH. reflexivity.
    + inversion H. reflexivity.
Qed.

Lemma span_stop : forall f s a b, span f s = (a, b) -> match b with [] => True | d :: _ => f d = false end.
Proof.
  induction s as [|c s IH]; simpl; intros a b H.
  - inversion H. exact I.
  - destruct (f c) eqn:Hf.
    + destruct (span f s) as [a' b'] eqn:Hs. inversion H; subst. eapply IH. reflexivity.
    + inversion H; subst. exact Hf.
Qed.

(* the scan stops exactly where the class ends *)
Lemma span_exact : forall f a b, forallb f a = true -> match b with [] => True | d :: _ => f d = false end ->
  span f (a ++ b) = (a, b).
Proof.
  induction a as [|x a IH]; simpl; intros b Ha Hb.
  - destruct b as [|d b]; simpl; auto. rewrite Hb. reflexivity.
  - apply andb_prop in Ha. destruct Ha as [Hx Ha]. rewrite Hx. rewrite (IH b Ha Hb). reflexivity.
Qed.

(* ---------- NextToken: the fuelled mirror of the code equals the structural closed form ---------- *)
Lemma next_token_struct : forall s f, (List.length s < f)%nat -> next_token f s = Some (next_struct s).
Proof.
  induction s as [|c s IH]; intros f Hf.
  - destruct f; [lia|]. reflexivity.
  - destruct f as [|f]; [lia|]. simpl in Hf.
    destruct (is_ws c) eqn:Hw.
    + assert (E : next_token (S f) (c :: s) = next_token (S f) s) by (simpl; rewrite Hw; reflexivity).
      rewrite E. simpl next_struct. rewrite Hw. apply IH. lia.
    + simpl. rewrite Hw. destruct (N.eqb c 0); [reflexivity|].
      destruct (lex1 c s) as [res|]; [reflexivity|]. apply IH. lia.
Qed.

(* ---------- progress ---------- *)
Lemma op_eq_suffix : forall c t1 t2 r t r', op_eq c t1 t2 r = (t, r') -> exists pre, r = pre ++ r'.
Proof.
  intros c t1 t2 r t r' H. unfold op_eq in H. destruct r as [|d r0].
  - inversion H. exists []. reflexivity.
  - destruct (N.eqb d 61); inversion H; subst; [exists [d]|exists []]; reflexivity.
Qed.

Lemma lex_quoted_suffix : forall ty q r t r', lex_quoted ty q r = (t, r') -> exists pre, r = pre ++ r'.
Proof.
  intros ty q r t r' H. unfold lex_quoted in H.
  destruct (span (in_quote q) r) as [body r1] eqn:Hs. apply span_app in Hs. subst r.
  destruct r1 as [|c r2].
  - inversion H; subst. exists body. reflexivity.
  - destruct (N.eqb c q); inversion H; subst.
    + exists (body ++ [c]). rewrite <- app_assoc. reflexivity.
    + exists body. reflexivity.
Qed.

Lemma lex1_suffix : forall c r t r', lex1 c r = Some (t, r') -> exists pre, r = pre ++ r'.
Proof.
  intros c r t r' H. unfold lex1 in H.
  destruct (single c). { inversion H; subst. exists []. reflexivity. }
  destruct (N.eqb c 45).
  { destruct r as [|d r0]. { inversion H; subst. exists []. reflexivity. }
    destruct (is_digit d).
    - destruct (span is_numch (d :: r0)) as [num r1] eqn:Hs. inversion H; subst.
      exists num. apply span_app in Hs. exact Hs.
    - inversion H; subst. exists []. reflexivity. }
  destruct (N.eqb c 61). { inversion H as [H1]. eapply op_eq_suffix. exact H1. }
  destruct (N.eqb c 62). { inversion H as [H1]. eapply op_eq_suffix. exact H1. }
  destruct (N.eqb c 60). { inversion H as [H1]. eapply op_eq_suffix. exact H1. }
  destruct (N.eqb c 33).
  { destruct r as [|d r0]; [discriminate|]. destruct (N.eqb d 61); [|discriminate].
    inversion H; subst. exists [d]. reflexivity. }
  destruct (N.eqb c 39 || N.eqb c 34). { inversion H as [H1]. eapply lex_quoted_suffix. exact H1. }
  destruct (N.eqb c 96). { inversion H as [H1]. eapply lex_quoted_suffix. exact H1. }
  destruct (is_letter c).
  { destruct (span is_identch r) as [id r1] eqn:Hs. inversion H; subst. exists id. apply span_app in Hs. exact Hs. }
  destruct (is_digit c); [|discriminate].
  destruct (span is_numch r) as [num r1] eqn:Hs. inversion H; subst. exists num. apply span_app in Hs. exact Hs.
Qed.

(* every call of NextToken returns EOF or consumes at least one byte; what is left is a suffix *)
Lemma next_struct_progress : forall s t r, next_struct s = (t, r) ->
  exists pre, s = pre ++ r /\ (is_eof t = true \/ pre <> []).
Proof.
  induction s as [|c s IH]; intros t r H; simpl in H.
  - inversion H; subst. exists []. split; auto.
  - destruct (is_ws c).
    { destruct (IH _ _ H) as [pre [E D]]. exists (c :: pre). split. { simpl. rewrite <- E. reflexivity. }
      destruct D; [left; assumption|right; discriminate]. }
    destruct (N.eqb c 0). { inversion H; subst. exists []. split; auto. }
    destruct (lex1 c s) as [[t' r']|] eqn:Hl.
    + inversion H; subst. destruct (lex1_suffix _ _ _ _ Hl) as [pre E]. exists (c :: pre). split.
      { simpl. rewrite <- E. reflexivity. } right. discriminate.
    + destruct (IH _ _ H) as [pre [E D]]. exists (c :: pre). split. { simpl. rewrite <- E. reflexivity. }
      destruct D; [left; assumption|right; discriminate].
Qed.

Lemma lexer_progress : forall fuel s t r, next_token fuel s = Some (t, r) ->
  exists pre, s = pre ++ r /\ (is_eof t = true \/ pre <> []).
Proof.
  intros fuel s t r H.
  assert (E : next_token fuel s = Some (next_struct s) \/ next_token fuel s = None).
  { destruct (Nat.ltb (List.length s) fuel) eqn:Hlt.
    - left. apply next_token_struct. apply Nat.ltb_lt. exact Hlt.
    - (* less fuel: the result, if any, is still the structural one *)
      clear H. revert fuel Hlt. induction s as [|c s IH]; intros fuel Hlt.
      + destruct fuel; [right; reflexivity|left; reflexivity].
      + destruct fuel as [|f]; [right; reflexivity|].
        destruct (is_ws c) eqn:Hw.
        * assert (E : next_token (S f) (c :: s) = next_token (S f) s) by (simpl; rewrite Hw; reflexivity).
          rewrite E. simpl next_struct. rewrite Hw.
          destruct (Nat.ltb (List.length s) (S f)) eqn:H2.
          { left. apply next_token_struct. apply Nat.ltb_lt. exact H2. }
          apply IH. exact H2.
        * simpl. rewrite Hw. destruct (N.eqb c 0); [left; reflexivity|].
          destruct (lex1 c s); [left; reflexivity|].
          destruct (Nat.ltb (List.length s) f) eqn:H2.
          { left. apply next_token_struct. apply Nat.ltb_lt. exact H2. }
          apply IH. exact H2. }
  destruct E as [E|E]; rewrite E in H; [|discriminate].
  inversion H as [H1]. apply next_struct_progress. exact H1.
Qed.

Lemma progress_length : forall s t r, next_struct s = (t, r) ->
  (List.length r <= List.length s)%nat /\ (is_eof t = false -> (List.length r < List.length s)%nat).
Proof.
  intros s t r H. destruct (next_struct_progress _ _ _ H) as [pre [E D]]. subst s. rewrite app_length. split; [lia|].
  intro Hne. destruct D as [D|D]; [congruence|]. destruct pre; [congruence|]. simpl. lia.
Qed.

(* ---------- totality: the fuel never runs out ---------- *)
Lemma next_token_total : forall s, next_token (lex_fuel s) s = Some (next_struct s).
Proof. intro s. apply next_token_struct. unfold lex_fuel. lia. Qed.

Lemma tokens_fuel_S : forall n s, tokens_fuel (S n) s =
  match next_token (lex_fuel s) s with
  | None => None
  | Some (t, r) => if is_eof t then Some []
                   else match tokens_fuel n r with Some l => Some (t :: l) | None => None end
  end.
Proof. reflexivity. Qed.

Lemma lex_all_S : forall f n s, lex_all (S f) n s =
  match next_token (lex_fuel s) s with
  | None => None
  | Some (t, r) =>
    if is_eof t then Some ([], (n - List.length r)%nat)
    else match lex_all f n r with
         | Some (l, e) => Some ((t, (n - List.length r - List.length (tval t))%nat) :: l, e)
         | None => None
         end
  end.
Proof. reflexivity. Qed.

Lemma tokens_fuel_total : forall n s, (List.length s < n)%nat -> exists l, tokens_fuel n s = Some l.
Proof.
  induction n as [|n IH]; intros s Hn; [lia|]. rewrite tokens_fuel_S, next_token_total.
  destruct (next_struct s) as [t r] eqn:Hs. destruct (is_eof t) eqn:He; [eexists; reflexivity|].
  destruct (progress_length _ _ _ Hs) as [_ Hlt]. specialize (Hlt He).
  destruct (IH r) as [l Hl]; [lia|]. rewrite Hl. eexists; reflexivity.
Qed.

Lemma tokens_fuel_mono : forall n s l, tokens_fuel n s = Some l -> forall m, (n <= m)%nat -> tokens_fuel m s = Some l.
Proof.
  induction n as [|n IH]; intros s l H m Hm; [discriminate|].
  destruct m as [|m]; [lia|]. rewrite tokens_fuel_S in *. destruct (next_token (lex_fuel s) s) as [[t r]|]; [|discriminate].
  destruct (is_eof t); [exact H|].
  destruct (tokens_fuel n r) as [l'|] eqn:Hr; [|discriminate]. rewrite (IH _ _ Hr m); [exact H|lia].
Qed.

Lemma lexer_total : forall s, tokens_opt s = Some (tokens s).
Proof.
  intro s. unfold tokens. destruct (tokens_fuel_total (lex_fuel s) s) as [l Hl]; [unfold lex_fuel; lia|].
  unfold tokens_opt. rewrite Hl. reflexivity.
Qed.

(* fuel-free unfolding of the token stream *)
Lemma tokens_step : forall s, tokens s = let (t, r) := next_struct s in if is_eof t then [] else t :: tokens r.
Proof.
  intro s. unfold tokens at 1, tokens_opt. unfold lex_fuel at 1. rewrite tokens_fuel_S, next_token_total.
  destruct (next_struct s) as [t r] eqn:Hs. destruct (is_eof t) eqn:He; [reflexivity|].
  destruct (progress_length _ _ _ Hs) as [_ Hlt]. specialize (Hlt He).
  pose proof (lexer_total r) as Hr. unfold tokens_opt in Hr.
  rewrite (tokens_fuel_mono _ _ _ Hr (List.length s)); [reflexivity|unfold lex_fuel; lia].
Qed.

(* the stream with positions is the same stream *)
Lemma lex_all_tokens : forall fuel n s l e, lex_all fuel n s = Some (l, e) -> tokens_fuel fuel s = Some (map fst l).
Proof.
  induction fuel as [|f IH]; intros n s l e H; [discriminate|]. rewrite lex_all_S in H. rewrite tokens_fuel_S.
  destruct (next_token (lex_fuel s) s) as [[t r]|]; [|discriminate].
  destruct (is_eof t). { inversion H; subst. reflexivity. }
  destruct (lex_all f n r) as [[l' e']|] eqn:Hr; [|discriminate]. inversion H; subst.
  rewrite (IH _ _ _ _ Hr). reflexivity.
Qed.

Lemma lex_pos_tokens : forall s l e, lex_pos s = Some (l, e) -> map fst l = tokens s.
Proof.
  intros s l e H. apply lex_all_tokens in H. pose proof (lexer_total s) as T. unfold tokens_opt in T.
  rewrite H in T. inversion T. reflexivity.
Qed.

(* ---------- keyword case ---------- *)
Lemma lexer_keyword_case : forall a b, map upper a = map upper b -> kw_type a = kw_type b.
Proof. intros a b H. unfold kw_type. rewrite H. reflexivity. Qed.

Lemma upper_idem : forall c, upper (upper c) = upper c.
Proof.
  intro c. unfold upper. destruct (is_lower c) eqn:H; [|rewrite H; reflexivity].
  unfold is_lower in *. apply andb_prop in H. destruct H as [H1 H2]. apply N.leb_le in H1. apply N.leb_le in H2.
  assert (E : N.leb 97 (c - 32) = false) by (apply N.leb_gt; lia). rewrite E. reflexivity.
Qed.

(* ---------- tokens never are EOF-typed unless they are the EOF token ---------- *)
Lemma assoc_in : forall k l ty, assoc k l = Some ty -> In ty (map snd l).
Proof.
  induction l as [|[k' v] l IH]; simpl; intros ty H; [discriminate|].
  destruct (bytes_eqb k k'); [inversion H; left; reflexivity|right; apply IH; exact H].
Qed.

Lemma kw_type_not_eof : forall id, N.eqb (kw_type id) T_EOF = false.
Proof.
  intro id. unfold kw_type. destruct (assoc (map upper id) keywords) as [ty|] eqn:H; [|reflexivity].
  apply assoc_in in H.
  assert (A : forallb (fun ty => negb (N.eqb ty T_EOF)) (map snd keywords) = true) by reflexivity.
  rewrite forallb_forall in A. specialize (A _ H). destruct (N.eqb ty T_EOF); [discriminate|reflexivity].
Qed.

Lemma kw_type_cases : forall id, kw_type id = T_Ident \/ is_kw_type (kw_type id) = true.
Proof.
  intro id. unfold kw_type. destruct (assoc (map upper id) keywords) as [ty|] eqn:H; [right|left; reflexivity].
  apply assoc_in in H. unfold is_kw_type. apply existsb_exists.
  apply in_map_iff in H. destruct H as [[k v] [E I]]. simpl in E. subst v. exists (k, ty). split; [exact I|].
  simpl. apply N.eqb_refl.
Qed.
