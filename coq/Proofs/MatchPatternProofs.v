(* C11 -- the reference reading of PATTERN ( ... ) reads every written row pattern back as its tree
   (Spec/MatchPatternSpec.v: the ways to write a pattern; Model/MatchWithin.v p_alt ... p_pattern: the reader). *)
From SV Require Import Model.Lexer Model.Stmt Model.MatchWithin Spec.MatchPatternSpec Proofs.MatchWithinProofs.
From Coq Require Import Lia.
Local Open Scope N_scope.

(* ---------- token types ---------- *)
Lemma ty_is_other : forall a t, ty_is a t = true -> forall b, ty_is b t = N.eqb a b.
Proof. intros a t H b. unfold ty_is in *. apply N.eqb_eq in H. rewrite H. reflexivity. Qed.

Lemma punct_ty : forall ty t, punct ty t = true -> ty_is ty t = true /\ ident_like t = false.
Proof.
  intros ty t H. unfold punct in H. apply andb_prop in H. destruct H as [A B].
  split; [exact A|]. destruct (ident_like t); [discriminate | reflexivity].
Qed.

Definition qtok (t : token) : bool := ty_is T_Question t || ty_is T_Asterisk t || ty_is T_Plus t.

(* what may follow a sequence / an alternation / an element of a PERMUTE list *)
Definition stop (r : list token) : bool :=
  match r with [] => true | t :: _ => negb (is_atom_start t || qtok t) end.
Definition stop_alt (r : list token) : bool := stop r && negb (hd_is (ty_is T_Pipe) r).
Definition stop_alts (r : list token) : bool := stop_alt r && negb (hd_is (ty_is T_Comma) r).

(* how a written pattern element begins: an atom start that is no quantifier ("{" only as "{-") *)
Definition first_ok (l : list token) : bool :=
  match l with
  | t :: l' => is_atom_start t && negb (qtok t) && (negb (ty_is T_LBrace t) || hd_is (ty_is T_Minus) l')
  | [] => false
  end.

Lemma stop_facts : forall r, stop r = true ->
  p_quant r = Some (None, r) /\ hd_is (ty_is T_Question) r = false /\ hd_is is_atom_start r = false.
Proof.
  intros [|t r] H; [repeat split; reflexivity|]. cbn in H. apply Bool.negb_true_iff, Bool.orb_false_iff in H.
  destruct H as [A Q]. unfold qtok in Q. apply Bool.orb_false_iff in Q. destruct Q as [Q Q3].
  apply Bool.orb_false_iff in Q. destruct Q as [Q1 Q2].
  assert (LB : ty_is T_LBrace t = false).
  { unfold is_atom_start in A. destruct (ty_is T_LBrace t); [|reflexivity]. rewrite Bool.orb_true_r in A. discriminate. }
  unfold p_quant. cbn [hd_is]. rewrite Q1, Q2, Q3, LB, A. repeat split; reflexivity.
Qed.

Lemma first_facts : forall l, first_ok l = true ->
  p_quant l = Some (None, l) /\ hd_is (ty_is T_Question) l = false /\ hd_is is_atom_start l = true.
Proof.
  intros [|t l] H; [discriminate|]. cbn in H. apply andb_prop in H. destruct H as [H M]. apply andb_prop in H.
  destruct H as [A Q]. apply Bool.negb_true_iff in Q. unfold qtok in Q. apply Bool.orb_false_iff in Q. destruct Q as [Q Q3].
  apply Bool.orb_false_iff in Q. destruct Q as [Q1 Q2].
  unfold p_quant. cbn [hd_is]. rewrite Q1, Q2, Q3, A.
  destruct (ty_is T_LBrace t); cbn in M; [rewrite M|]; repeat split; reflexivity.
Qed.

Lemma stop_alt_stop : forall r, stop_alt r = true -> stop r = true /\ hd_is (ty_is T_Pipe) r = false.
Proof. intros r H. unfold stop_alt in H. apply andb_prop in H. destruct H as [A B]. apply Bool.negb_true_iff in B. split; assumption. Qed.
Lemma stop_alts_stop : forall r, stop_alts r = true -> stop_alt r = true /\ hd_is (ty_is T_Comma) r = false.
Proof. intros r H. unfold stop_alts in H. apply andb_prop in H. destruct H as [A B]. apply Bool.negb_true_iff in B. split; assumption. Qed.

(* a closing / separating punctuation token stops everything that can be open *)
Lemma punct_stops : forall ty t r, punct ty t = true ->
  ty = T_RParen \/ ty = T_Minus \/ ty = T_Comma \/ ty = T_Pipe ->
  stop (t :: r) = true.
Proof.
  intros ty t r H D. destruct (punct_ty _ _ H) as [T I]. cbn. unfold is_atom_start, qtok.
  rewrite !(ty_is_other _ _ T), I.
  destruct D as [-> | [-> | [-> | ->]]]; reflexivity.
Qed.
Lemma punct_stops_alt : forall ty t r, punct ty t = true ->
  ty = T_RParen \/ ty = T_Minus \/ ty = T_Comma -> stop_alt (t :: r) = true.
Proof.
  intros ty t r H D. unfold stop_alt. rewrite (punct_stops ty t r H) by tauto.
  destruct (punct_ty _ _ H) as [T _]. cbn. rewrite (ty_is_other _ _ T). destruct D as [-> | [-> | ->]]; reflexivity.
Qed.
Lemma punct_stops_alts : forall ty t r, punct ty t = true ->
  ty = T_RParen \/ ty = T_Minus -> stop_alts (t :: r) = true.
Proof.
  intros ty t r H D. unfold stop_alts. rewrite (punct_stops_alt ty t r H) by tauto.
  destruct (punct_ty _ _ H) as [T _]. cbn. rewrite (ty_is_other _ _ T). destruct D as [-> | ->]; reflexivity.
Qed.

(* ---------- quantifier spellings ---------- *)
Lemma w_bounds_reads : forall lo hi q, w_bounds lo hi q ->
  forall r, p_quant (q ++ r) = (let (g, r') := take_reluctant r in Some (Some (lo, hi, g), r')).
Proof.
  intros lo hi q W r. destruct W as [t T | t T | t T | a n b lo T N B | a n c b lo T N C B | a n c m b lo hi T N C M B L];
    cbn [app]; unfold p_quant.
  - rewrite T. reflexivity.
  - rewrite !(ty_is_other _ _ T). cbn. reflexivity.
  - rewrite !(ty_is_other _ _ T). cbn. reflexivity.
  - rewrite !(ty_is_other _ _ T). cbn.
    assert (NM : ty_is T_Minus n = false). { unfold p_bound in N. destruct (ty_is T_Number n) eqn:E; [|discriminate]. rewrite (ty_is_other _ _ E). reflexivity. }
    rewrite NM. unfold p_bounded. rewrite N, B. reflexivity.
  - rewrite !(ty_is_other _ _ T). cbn.
    assert (NM : ty_is T_Minus n = false). { unfold p_bound in N. destruct (ty_is T_Number n) eqn:E; [|discriminate]. rewrite (ty_is_other _ _ E). reflexivity. }
    rewrite NM. unfold p_bounded. rewrite N, (ty_is_other _ _ C). cbn. rewrite C, B. reflexivity.
  - rewrite !(ty_is_other _ _ T). cbn.
    assert (NM : ty_is T_Minus n = false). { unfold p_bound in N. destruct (ty_is T_Number n) eqn:E; [|discriminate]. rewrite (ty_is_other _ _ E). reflexivity. }
    assert (MR : ty_is T_RBrace m = false). { unfold p_bound in M. destruct (ty_is T_Number m) eqn:E; [|discriminate]. rewrite (ty_is_other _ _ E). reflexivity. }
    rewrite NM. unfold p_bounded. rewrite N, (ty_is_other _ _ C). cbn. rewrite C, MR, M, B.
    apply N.leb_le in L. rewrite L. reflexivity.
Qed.

Lemma w_quant_reads : forall lo hi g q, w_quant lo hi g q ->
  forall r, hd_is (ty_is T_Question) r = false -> p_quant (q ++ r) = Some (Some (lo, hi, g), r).
Proof.
  intros lo hi g q W r Hr. destruct W as [lo hi q W | lo hi q t W T].
  - rewrite (w_bounds_reads _ _ _ W), (take_reluctant_greedy _ Hr). reflexivity.
  - rewrite <- app_assoc. rewrite (w_bounds_reads _ _ _ W). cbn. rewrite T. reflexivity.
Qed.

(* ---------- one step of each reader ---------- *)
Lemma p_alt_S : forall f toks, p_alt (S f) toks =
  match p_seq f toks with
  | Some (s, r) => match p_alt_more f r with
                   | Some ([], r') => Some (s, r')
                   | Some (l, r') => Some (PAlt (s :: l), r')
                   | None => None
                   end
  | None => None
  end.
Proof. reflexivity. Qed.
Lemma p_alt_more_S : forall f toks, p_alt_more (S f) toks =
  match toks with
  | t :: r => if ty_is T_Pipe t then
                match p_seq f r with
                | Some (s, r1) => match p_alt_more f r1 with Some (l, r2) => Some (s :: l, r2) | None => None end
                | None => None
                end
              else Some ([], toks)
  | [] => Some ([], [])
  end.
Proof. reflexivity. Qed.
Lemma p_seq_S : forall f toks, p_seq (S f) toks =
  match p_items f toks with
  | Some ([], _) => None
  | Some ([a], r) => Some (a, r)
  | Some (l, r) => Some (PSeq l, r)
  | None => None
  end.
Proof. reflexivity. Qed.
Lemma p_items_S : forall f toks, p_items (S f) toks =
  if hd_is is_atom_start toks then
    match p_quantified f toks with
    | Some (a, r) => match p_items f r with Some (l, r') => Some (a :: l, r') | None => None end
    | None => None
    end
  else Some ([], toks).
Proof. reflexivity. Qed.
Lemma p_quantified_S : forall f toks, p_quantified (S f) toks =
  match p_atom f toks with
  | Some (a, r) => match p_quant r with
                   | Some (Some (lo, hi, g), r') => Some (PRep a lo hi g, r')
                   | Some (None, r') => Some (a, r')
                   | None => None
                   end
  | None => None
  end.
Proof. reflexivity. Qed.
Lemma p_atom_S : forall f toks, p_atom (S f) toks =
  match toks with
  | t :: r =>
    if ty_is T_LParen t then
      match p_alt f r with
      | Some (p, c :: r') => if ty_is T_RParen c then Some (PGroup p, r') else None
      | _ => None
      end
    else if ty_is T_LBrace t then
      match r with
      | d :: r1 =>
        if ty_is T_Minus d then
          match p_alt f r1 with
          | Some (p, d2 :: c :: r') => if ty_is T_Minus d2 && ty_is T_RBrace c then Some (PExcl p, r') else None
          | _ => None
          end
        else None
      | [] => None
      end
    else if ident_like t then
      if ty_is T_Ident t && wd W_PERMUTE t then
        match r with
        | l :: r1 =>
          if ty_is T_LParen l then
            match p_alts f r1 with
            | Some (ps, c :: r') => if ty_is T_RParen c then Some (PPermute ps, r') else None
            | _ => None
            end
          else None
        | [] => None
        end
      else Some (PSym (strip_bt (tval t)), r)
    else None
  | [] => None
  end.
Proof. reflexivity. Qed.
Lemma p_alts_S : forall f toks, p_alts (S f) toks =
  match p_alt f toks with
  | Some (p, r) =>
    if hd_is (ty_is T_Comma) r then
      match p_alts f (tl r) with Some (l, r') => Some (p :: l, r') | None => None end
    else Some ([p], r)
  | None => None
  end.
Proof. reflexivity. Qed.

(* ---------- the invariants of the mutual induction ---------- *)
Definition noq (r : list token) : Prop := p_quant r = Some (None, r) /\ hd_is (ty_is T_Question) r = false.
Definition begins (l : list token) : Prop := forall x, first_ok (l ++ x) = true.

Definition R_atom (p : pat) (l : list token) : Prop :=
  begins l /\ (1 <= List.length l)%nat /\
  forall f r, (6 * List.length l <= f)%nat -> p_atom f (l ++ r) = Some (p, r).
Definition R_quantified (p : pat) (l : list token) : Prop :=
  begins l /\ (1 <= List.length l)%nat /\
  forall f r, (6 * List.length l + 1 <= f)%nat -> noq r -> p_quantified f (l ++ r) = Some (p, r).
Definition R_items (ps : list pat) (l : list token) : Prop :=
  begins l /\ (1 <= List.length l)%nat /\
  forall f r, (6 * List.length l + 2 <= f)%nat -> stop r = true -> p_items f (l ++ r) = Some (ps, r).
Definition R_seq (p : pat) (l : list token) : Prop :=
  begins l /\ (1 <= List.length l)%nat /\
  forall f r, (6 * List.length l + 3 <= f)%nat -> stop r = true -> p_seq f (l ++ r) = Some (p, r).
Definition R_more (ps : list pat) (l : list token) : Prop :=
  (l = [] \/ exists b l', l = b :: l' /\ punct T_Pipe b = true) /\
  forall f r, (6 * List.length l + 1 <= f)%nat -> stop_alt r = true -> p_alt_more f (l ++ r) = Some (ps, r).
Definition R_alt (p : pat) (l : list token) : Prop :=
  begins l /\ (1 <= List.length l)%nat /\
  forall f r, (6 * List.length l + 4 <= f)%nat -> stop_alt r = true -> p_alt f (l ++ r) = Some (p, r).
Definition R_alts (ps : list pat) (l : list token) : Prop :=
  (1 <= List.length l)%nat /\
  forall f r, (6 * List.length l + 5 <= f)%nat -> stop_alts r = true -> p_alts f (l ++ r) = Some (ps, r).

Lemma stop_noq : forall r, stop r = true -> noq r.
Proof. intros r H. destruct (stop_facts r H) as [A [B _]]. split; assumption. Qed.
Lemma begins_noq : forall l x, begins l -> noq (l ++ x).
Proof. intros l x H. destruct (first_facts _ (H x)) as [A [B _]]. split; assumption. Qed.
Lemma begins_app : forall l m, begins l -> begins (l ++ m).
Proof. intros l m H x. rewrite <- app_assoc. apply H. Qed.

Lemma var_tok_facts : forall t, var_tok t = true ->
  ident_like t = true /\ ty_is T_LParen t = false /\ ty_is T_LBrace t = false /\ qtok t = false
  /\ (ty_is T_Ident t && wd W_PERMUTE t) = false.
Proof.
  intros t H. unfold var_tok in H. apply andb_prop in H. destruct H as [H P]. apply andb_prop in H. destruct H as [I Q].
  apply Bool.negb_true_iff in P. apply Bool.negb_true_iff in Q.
  repeat (apply Bool.orb_false_iff in Q; destruct Q as [Q ?]).
  unfold qtok. repeat split; try assumption. rewrite H1, H0, H. reflexivity.
Qed.

Lemma items_of_quantified : forall p l, R_quantified p l -> R_items [p] l.
Proof.
  intros p l [B [L H]]. split; [exact B|]. split; [exact L|]. intros f r F S.
  destruct f as [|f']; [lia|]. rewrite p_items_S.
  destruct (first_facts _ (B r)) as [_ [_ A]]. rewrite A.
  rewrite (H f' r) by (try lia; apply stop_noq; exact S).
  destruct f' as [|f'']; [lia|]. rewrite p_items_S.
  destruct (stop_facts r S) as [_ [_ A']]. rewrite A'. reflexivity.
Qed.

Ltac lens := cbn [List.length] in *; repeat (rewrite app_length in * ); cbn [List.length] in *.

Theorem written_is_read :
  (forall p l, w_atom p l -> R_atom p l) /\ (forall p l, w_quantified p l -> R_quantified p l) /\
  (forall ps l, w_items ps l -> R_items ps l) /\ (forall p l, w_seq p l -> R_seq p l) /\
  (forall ps l, w_more ps l -> R_more ps l) /\ (forall p l, w_alt p l -> R_alt p l) /\
  (forall ps l, w_alts ps l -> R_alts ps l).
Proof.
  apply w_pattern_mutind.
  - (* variable *)
    intros t V. destruct (var_tok_facts t V) as [I [LP [LB [Q PM]]]].
    split; [|split].
    + intro x. cbn. unfold is_atom_start. rewrite I, LB, Q, !Bool.orb_true_r. reflexivity.
    + cbn. lia.
    + intros f r F. destruct f as [|f']; [cbn in F; lia|]. cbn [app]. rewrite p_atom_S, LP, LB, I, PM. reflexivity.
  - (* group *)
    intros p l a b _ [B [L H]] PA PB. destruct (punct_ty _ _ PA) as [TA IA]. destruct (punct_ty _ _ PB) as [TB IB].
    split; [|split].
    + intro x. cbn. unfold is_atom_start, qtok. rewrite !(ty_is_other _ _ TA). reflexivity.
    + cbn. lia.
    + intros f r F. lens. destruct f as [|f']; [lia|]. cbn [app]. rewrite <- app_assoc. cbn [app].
      rewrite p_atom_S, TA. rewrite (H f' (b :: r)) by (try lia; apply (punct_stops_alt T_RParen); tauto).
      rewrite TB. reflexivity.
  - (* exclusion *)
    intros p l a d d' b _ [B [L H]] PA PD PD' PB.
    destruct (punct_ty _ _ PA) as [TA IA]. destruct (punct_ty _ _ PB) as [TB IB].
    destruct (punct_ty _ _ PD) as [TD ID]. destruct (punct_ty _ _ PD') as [TD' ID'].
    split; [|split].
    + intro x. cbn. unfold is_atom_start, qtok. rewrite !(ty_is_other _ _ TA), TD. reflexivity.
    + cbn. lia.
    + intros f r F. lens. destruct f as [|f']; [lia|]. cbn [app]. rewrite <- app_assoc. cbn [app].
      rewrite p_atom_S, !(ty_is_other _ _ TA). cbn. rewrite TD.
      rewrite (H f' (d' :: b :: r)) by (try lia; apply (punct_stops_alt T_Minus); tauto).
      rewrite TD', TB. reflexivity.
  - (* PERMUTE *)
    intros ps l t a b _ [L H] I TI W PA PB. destruct (punct_ty _ _ PA) as [TA IA]. destruct (punct_ty _ _ PB) as [TB IB].
    split; [|split].
    + intro x. cbn. unfold is_atom_start, qtok. rewrite I, !(ty_is_other _ _ TI). reflexivity.
    + cbn. lia.
    + intros f r F. lens. destruct f as [|f']; [lia|]. cbn [app]. rewrite <- app_assoc. cbn [app].
      rewrite p_atom_S, !(ty_is_other _ _ TI). cbn. rewrite I, W. cbn. rewrite TA.
      rewrite (H f' (b :: r)) by (try lia; apply (punct_stops_alts T_RParen); tauto).
      rewrite TB. reflexivity.
  - (* an atom without quantifier *)
    intros p l _ [B [L H]]. split; [exact B|]. split; [exact L|]. intros f r F [Q _].
    destruct f as [|f']; [lia|]. rewrite p_quantified_S, (H f' r) by lia. rewrite Q. reflexivity.
  - (* an atom with a quantifier *)
    intros p l lo hi g q _ [B [L H]] WQ. split; [apply begins_app; exact B|]. split; [lens; lia|].
    intros f r F [_ Q]. lens. destruct f as [|f']; [lia|]. rewrite <- app_assoc.
    rewrite p_quantified_S, (H f' (q ++ r)) by lia. rewrite (w_quant_reads _ _ _ _ WQ r Q). reflexivity.
  - (* one item *)
    intros p l _ IH. apply items_of_quantified. exact IH.
  - (* several items *)
    intros p l ps ls _ [B [L H]] _ [Bs [Ls Hs]]. split; [apply begins_app; exact B|]. split; [lens; lia|].
    intros f r F S. lens. destruct f as [|f']; [lia|]. rewrite <- app_assoc. rewrite p_items_S.
    destruct (first_facts _ (B (ls ++ r))) as [_ [_ A]]. rewrite A.
    rewrite (H f' (ls ++ r)) by (try lia; apply begins_noq; exact Bs).
    rewrite (Hs f' r) by (try lia; exact S). reflexivity.
  - (* a sequence of one *)
    intros p l WQ IH. destruct (items_of_quantified _ _ IH) as [B [L H]]. split; [exact B|]. split; [exact L|].
    intros f r F S. destruct f as [|f']; [lia|]. rewrite p_seq_S, (H f' r) by (try lia; exact S). reflexivity.
  - (* a sequence of several *)
    intros p q ps l _ [B [L H]]. split; [exact B|]. split; [exact L|].
    intros f r F S. destruct f as [|f']; [lia|]. rewrite p_seq_S, (H f' r) by (try lia; exact S). reflexivity.
  - (* no further branch *)
    split; [left; reflexivity|]. intros f r F S. destruct f as [|f']; [cbn in F; lia|]. cbn [app]. rewrite p_alt_more_S.
    destruct (stop_alt_stop _ S) as [_ P]. destruct r as [|t r]; [reflexivity|]. cbn in P. rewrite P. reflexivity.
  - (* a further branch *)
    intros b p l ps ls PB _ [B [L H]] _ [D Hm]. destruct (punct_ty _ _ PB) as [TB IB].
    split; [right; exists b, (l ++ ls); split; [reflexivity | exact PB]|].
    intros f r F S. lens. destruct f as [|f']; [lia|]. cbn [app]. rewrite <- app_assoc. rewrite p_alt_more_S, TB.
    assert (ST : stop (ls ++ r) = true).
    { destruct D as [-> | [b' [l' [-> PB']]]]; [exact (proj1 (stop_alt_stop _ S))|]. cbn [app]. apply (punct_stops T_Pipe); tauto. }
    rewrite (H f' (ls ++ r)) by (try lia; exact ST). rewrite (Hm f' r) by (try lia; exact S). reflexivity.
  - (* an alternation *)
    intros p l ps ls _ [B [L H]] _ [D Hm]. split; [apply begins_app; exact B|]. split; [lens; lia|].
    intros f r F S. lens. destruct f as [|f']; [lia|]. rewrite <- app_assoc. rewrite p_alt_S.
    assert (ST : stop (ls ++ r) = true).
    { destruct D as [-> | [b' [l' [-> PB']]]]; [exact (proj1 (stop_alt_stop _ S))|]. cbn [app]. apply (punct_stops T_Pipe); tauto. }
    rewrite (H f' (ls ++ r)) by (try lia; exact ST). rewrite (Hm f' r) by (try lia; exact S).
    destruct ps; reflexivity.
  - (* PERMUTE list: last element *)
    intros p l _ [B [L H]]. split; [exact L|]. intros f r F S. destruct f as [|f']; [lia|].
    destruct (stop_alts_stop _ S) as [SA C]. rewrite p_alts_S, (H f' r) by (try lia; exact SA). rewrite C. reflexivity.
  - (* PERMUTE list: element and comma *)
    intros p l c ps ls _ [B [L H]] PC _ [Ls Hs]. destruct (punct_ty _ _ PC) as [TC IC].
    split; [lens; lia|]. intros f r F S. lens. destruct f as [|f']; [lia|]. rewrite <- app_assoc. cbn [app].
    rewrite p_alts_S, (H f' (c :: ls ++ r)) by (try lia; apply (punct_stops_alt T_Comma); tauto).
    cbn [hd_is tl]. rewrite TC, (Hs f' r) by (try lia; exact S). reflexivity.
Qed.

(* the statement for a whole PATTERN ( ... ) body: whatever way the pattern is written, the reference reading
   returns its tree and stops right after the closing parenthesis *)
Theorem pattern_written_is_read : forall p l c r,
  w_alt p l -> punct T_RParen c = true -> p_pattern (l ++ c :: r) = Some (p, r).
Proof.
  intros p l c r W PC. destruct written_is_read as [_ [_ [_ [_ [_ [HA _]]]]]].
  destruct (HA p l W) as [_ [_ H]]. unfold p_pattern.
  rewrite (H _ (c :: r)).
  - destruct (punct_ty _ _ PC) as [TC _]. rewrite TC. reflexivity.
  - lens. lia.
  - apply (punct_stops_alt T_RParen); tauto.
Qed.
