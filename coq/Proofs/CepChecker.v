(* C15 — the checker never raises an alarm on the reference result (rows with distinct ids), so
   together with chk_sound:  chk_C15 c rows out = None  <->  out = ref_obs c rows. *)
From Coq Require Import List ZArith NArith Bool Arith Lia.
From SV Require Import Model.Cep Spec.CepSpec Proofs.CepProofs.
Import ListNotations.

Lemma find_id_none : forall rows i n, ~ In i (map r_id rows) -> find_id i rows n = None.
Proof.
  induction rows as [|r t IH]; intros i n H; simpl; [reflexivity|].
  destruct (Z.eqb (r_id r) i) eqn:E.
  - apply Z.eqb_eq in E. exfalso. apply H. left. assumption.
  - apply IH. intro I. apply H. right. assumption.
Qed.

Lemma find_id_nth : forall rows n j r, NoDup (map r_id rows) -> nth_error rows j = Some r ->
  find_id (r_id r) rows n = Some (n + j).
Proof.
  induction rows as [|a t IH]; intros n j r ND H; [destruct j; discriminate|].
  simpl in ND. inversion ND as [|x l Hn ND']; subst. simpl.
  destruct j as [|j]; simpl in H.
  - inversion H; subst. rewrite Z.eqb_refl. f_equal. lia.
  - destruct (Z.eqb (r_id a) (r_id r)) eqn:E.
    + apply Z.eqb_eq in E. exfalso. apply Hn. rewrite E. apply in_map. eapply nth_error_In. exact H.
    + rewrite (IH (S n) j r ND' H). f_equal. lia.
Qed.

Lemma id_at_find : forall rows j, NoDup (map r_id rows) -> j < length rows ->
  find_id (id_at rows j) rows 0 = Some j.
Proof.
  intros rows j ND H. unfold id_at. destruct (nth_error rows j) as [r|] eqn:E.
  - apply (find_id_nth rows 0 j r ND E).
  - apply nth_error_None in E. lia.
Qed.

Definition in_range (rows : list crow) (m : nat * nat) : Prop := 1 <= snd m /\ fst m + snd m <= length rows.

Lemma locate_ref : forall rows mn q k, NoDup (map r_id rows) -> in_range rows (q, k) ->
  locate rows (obs_of rows (mn, (q, k))) = Some (q, k).
Proof.
  intros rows mn q k ND [R1 R2]. simpl in R1, R2. unfold locate, obs_of.
  rewrite (id_at_find rows q ND) by lia. rewrite (id_at_find rows (q + k - 1) ND) by lia.
  assert (E1 : Nat.leb 1 k = true) by (apply Nat.leb_le; assumption).
  rewrite E1, Nat.eqb_refl. reflexivity.
Qed.

Arguments locate : simpl never.
Arguments obs_of : simpl never.

Lemma locate_all_ref : forall rows ms i, NoDup (map r_id rows) -> Forall (in_range rows) ms ->
  locate_all rows (map (obs_of rows) (combine (seq i (length ms)) ms)) = Some ms.
Proof.
  intros rows ms. induction ms as [|[q k] t IH]; intros i ND F; simpl; [reflexivity|].
  inversion F as [|x l R F']; subst.
  rewrite (locate_ref rows i q k ND R). rewrite (IH (S i) ND F'). reflexivity.
Qed.

Lemma numbered_ref : forall rows ms i, numbered i (map (obs_of rows) (combine (seq i (length ms)) ms)) = true.
Proof.
  intros rows ms. induction ms as [|[q k] t IH]; intro i; simpl; [reflexivity|].
  unfold obs_of at 1. rewrite Nat.eqb_refl. simpl. apply IH.
Qed.

Lemma chained_skip_ok : forall c rows ms n, chained c rows n ms -> skip_ok c rows n ms = true.
Proof.
  intros c rows ms. induction ms as [|[q k] t IH]; intros n C; simpl; [reflexivity|].
  simpl in C. destruct C as [C1 [C2 C3]]. apply andb_true_iff. split; [apply Nat.leb_le; assumption|].
  apply IH. exact C3.
Qed.

Lemma obs_list_eqb_refl : forall a, obs_list_eqb a a = true.
Proof.
  induction a as [|[[[m f] l] n] a IH]; simpl; [reflexivity|].
  rewrite !Nat.eqb_refl, !Z.eqb_refl. simpl. assumption.
Qed.

Theorem chk_complete : forall c rows, NoDup (map r_id rows) -> chk_C15 c rows (ref_obs c rows) = None.
Proof.
  intros c rows ND. unfold chk_C15, ref_obs, cep_number.
  assert (R : Forall (in_range rows) (ref_matches c rows)).
  { apply Forall_forall. intros [q k] I. apply ref_valid in I. unfold in_range. simpl. lia. }
  rewrite (locate_all_ref rows (ref_matches c rows) 1 ND R).
  assert (V : forallb (fun m => valid_b c (seg_of rows m)) (ref_matches c rows) = true).
  { apply forallb_forall. intros [q k] I. apply ref_valid in I. unfold seg_of. simpl. apply valid_b_iff. tauto. }
  rewrite V. simpl.
  assert (L : forallb (fun m => match longest_at c (skipn (fst m) rows) with
                                | Some k => Nat.eqb k (snd m) | None => false end) (ref_matches c rows) = true).
  { apply forallb_forall. intros [q k] I. apply scan_in in I. destruct I as [_ [_ [_ I]]].
    rewrite Nat.sub_0_r in I. simpl. rewrite I. apply Nat.eqb_refl. }
  rewrite L. simpl.
  rewrite (chained_skip_ok c rows _ 0 (ref_chained c rows)). simpl.
  rewrite numbered_ref. simpl. rewrite obs_list_eqb_refl. reflexivity.
Qed.

Theorem chk_iff : forall c rows out, NoDup (map r_id rows) ->
  (chk_C15 c rows out = None <-> out = ref_obs c rows).
Proof.
  intros c rows out ND. split; [apply chk_sound|]. intro E. subst. apply chk_complete. assumption.
Qed.
