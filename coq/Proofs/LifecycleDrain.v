(* C18 -- the join of Stop is REACHABLE whenever no user code is in progress on a tracked goroutine.

   Proofs/LifecycleProofs.v shows safety (what holds once the join was passed) and that a Stop caller never waits except
   through the grace-bounded join. This file adds the liveness half the seeded round 3 asked for ("Stop right after
   Execute must not need its grace"): once Stop has closed `done` and nil-ed the channel pointer, every goroutine that is
   registered with the lifecycle WaitGroup and is not inside user code can run, alone, to its exit, and every
   registration made ahead of time (Start's Add(1) for the window-output consumer, handed over as a token by
   startWindowProcessing) is matched by a consumer that starts, sees `done` closed and exits. Hence from every such state
   there is a continuation in which the counter reaches 0 and the Stop caller leaves the join through the drained branch
   -- in particular from the state "Execute returned, no pipeline goroutine was scheduled yet, Stop is at its join".

   It is an existence statement over schedules (EF), not a fairness argument: the Go scheduler's fairness is not modelled. *)
From SV Require Import Model.Lifecycle Spec.LifecycleSpec Proofs.LifecycleProofs.
From Coq Require Import List Bool Arith Lia.
Import ListNotations.

(* own steps a tracked goroutine still needs to leave, once the fence is up *)
Definition drank (p : lpc) : nat :=
  match p with
  | PrInitW | PrBusy | CoBusy | WkBusy => 3
  | PrLoop | PrSelect | CoLoop | WkLoop | SyBusyT => 2
  | PrExit | CoExit | WkExit | SyExit => 1
  | _ => 0
  end.
Definition finitw (p : lpc) : nat := match p with PrInitW => 1 | _ => 0 end.
Definition funborn (p : lpc) : nat := match p with CoUnborn => 1 | _ => 0 end.
Definition fprstart (p : lpc) : nat := match p with PrStart => 1 | _ => 0 end.
(* the choice that lets a tracked goroutine leave: the `done` branch of the select for the three loops *)
Definition exit_choice (p : lpc) : nat := match p with PrSelect | CoLoop => 3 | WkLoop => 1 | _ => 0 end.

Lemma weight_drank : forall p, 0 < lweight p -> 0 < drank p.
Proof. destruct p; simpl; lia. Qed.

Lemma cnt_pos_exists : forall f l, 0 < cnt f l -> exists n th, nth_error l n = Some th /\ 0 < f (t_pc th).
Proof.
  induction l as [|t l IH]; simpl; intros H; [lia|].
  destruct (f (t_pc t)) eqn:E.
  - destruct IH as [n [th [Hn Hf]]]; [lia|]. exists (S n), th. auto.
  - exists 0, t. simpl. split; auto. lia.
Qed.

Lemma lrun_app : forall c s1 s2 st, lrun c (s1 ++ s2) st = lrun c s2 (lrun c s1 st).
Proof. intros. unfold lrun. apply fold_left_app. Qed.
Lemma lrun_cons : forall c tid ch r st st', lstep c tid ch st = Some st' -> lrun c ((tid, ch) :: r) st = lrun c r st'.
Proof. intros c tid ch r st st' H. simpl. unfold lstep_or_skip. simpl. rewrite H. reflexivity. Qed.

(* ------------------------------------------------------------------ the states the drain starts from *)
(* no user code in progress on a tracked goroutine (nor on a consumer that was not started yet) *)
Definition quiet_th (th : lthread) : Prop := (0 < lweight (t_pc th) \/ t_pc th = CoUnborn) -> t_code th = [].

Record DI (st : lstate) : Prop := {
  dF1 : closed (sh st) = true;      (* close(s.done) *)
  dF2 : ptr_nil (sh st) = true;     (* s.dataChan = nil *)
  dA : lifeA st;                    (* the counter counts exactly the tracked goroutines and the pending tokens *)
  dQ : Forall quiet_th (ths st)
}.
(* every token, present or still to be created by a processor at PrInitW, has a consumer thread to take it *)
Definition TB (st : lstate) : Prop := tokens (sh st) + cnt finitw (ths st) <= cnt funborn (ths st).
Definition DM (st : lstate) : nat := cnt drank (ths st) + 3 * (tokens (sh st) + cnt finitw (ths st)).
(* threads that are neither tracked nor an unstarted consumer are not moved by the drain *)
Definition untouched (st st' : lstate) : Prop :=
  forall t th, nth_error (ths st) t = Some th -> lweight (t_pc th) = 0 -> t_pc th <> CoUnborn -> nth_error (ths st') t = Some th.

(* ------------------------------------------------------------------ one own step of a tracked goroutine / of a consumer *)
Lemma exit_pstep : forall c tid p a S, closed S = true -> ptr_nil S = true -> 0 < lweight p ->
  exists p' S' ev, lpstep c tid (exit_choice p) p a S = Some (p', [], S', ev) /\
    closed S' = true /\ ptr_nil S' = true /\ drank p' < drank p /\
    tokens S' + finitw p' = tokens S + finitw p /\ funborn p' = 0 /\ funborn p = 0.
Proof.
  intros c tid p a S F1 F2 Hw.
  destruct p; simpl in Hw; try lia; simpl; rewrite ?F1, ?F2;
    (do 3 eexists; split; [reflexivity|]; simpl; repeat split; auto; lia).
Qed.

Lemma unborn_pstep : forall c tid a s n, tokens s = S n ->
  lpstep c tid 0 CoUnborn a s = Some (CoLoop, [], upd_life s (life s) n, []).
Proof. intros c tid a s n H. simpl. rewrite H. reflexivity. Qed.

(* lifting a pc transition that keeps the fence to the state *)
Lemma lift_step : forall c st tid p a ch p' S' ev, DI st ->
  nth_error (ths st) tid = Some (lmk p [] a) ->
  lpstep c tid ch p a (sh st) = Some (p', [], S', ev) -> closed S' = true -> ptr_nil S' = true ->
  exists st', lstep c tid ch st = Some st' /\ DI st' /\ sh st' = S' /\
    (forall f, cnt f (ths st') + f p = cnt f (ths st) + f p') /\
    (forall t, t <> tid -> nth_error (ths st') t = nth_error (ths st) t) /\
    nth_error (ths st') tid = Some (lmk p' [] a).
Proof.
  intros c st tid p a ch p' S' ev D Hn Hp F1 F2.
  assert (E : lstep c tid ch st = Some {| sh := S'; ths := lset_nth tid (lmk p' [] a) (ths st); ltrace := rev ev ++ ltrace st |}).
  { unfold lstep. rewrite Hn. unfold ltstep. simpl. rewrite Hp. reflexivity. }
  eexists. split; [exact E|]. destruct D as [G1 G2 A Q].
  split; [|split; [reflexivity|split; [|split]]].
  - constructor; simpl; auto.
    + eapply lifeA_step; eauto.
    + apply Forall_set_nth; auto. intros _. reflexivity.
  - intros f. simpl. apply (cnt_set_nth f _ _ _ (lmk p' [] a) Hn).
  - intros t Ht. simpl. apply nth_error_set_nth_neq. congruence.
  - simpl. eapply nth_error_set_nth_eq; eauto.
Qed.

Lemma thread_eta : forall th, th = lmk (t_pc th) (t_code th) (t_arg th).
Proof. destruct th; reflexivity. Qed.

Lemma exit_step : forall c st tid th, DI st -> nth_error (ths st) tid = Some th -> 0 < lweight (t_pc th) ->
  exists ch st', lstep c tid ch st = Some st' /\ DI st' /\
    cnt drank (ths st') < cnt drank (ths st) /\
    tokens (sh st') + cnt finitw (ths st') = tokens (sh st) + cnt finitw (ths st) /\
    cnt funborn (ths st') = cnt funborn (ths st) /\
    (forall t, t <> tid -> nth_error (ths st') t = nth_error (ths st) t).
Proof.
  intros c st tid th D Hn Hw.
  assert (Hc : t_code th = []). { apply (Forall_nth_error _ _ _ _ _ (dQ _ D) Hn). auto. }
  rewrite (thread_eta th) in Hn. rewrite Hc in Hn.
  destruct (exit_pstep c tid (t_pc th) (t_arg th) (sh st) (dF1 _ D) (dF2 _ D) Hw)
    as [p' [S' [ev [Hp [F1 [F2 [Hr [Ht [Hu' Hu]]]]]]]]].
  destruct (lift_step c st tid _ _ _ _ _ _ D Hn Hp F1 F2) as [st' [E [D' [Es [Hcnt [Hfr _]]]]]].
  exists (exit_choice (t_pc th)), st'. split; auto. split; auto.
  pose proof (Hcnt drank) as C1. pose proof (Hcnt finitw) as C2. pose proof (Hcnt funborn) as C3.
  rewrite Es. repeat split; auto; lia.
Qed.

Lemma unborn_step : forall c st tid th, DI st -> nth_error (ths st) tid = Some th -> t_pc th = CoUnborn ->
  0 < tokens (sh st) ->
  exists st', lstep c tid 0 st = Some st' /\ DI st' /\
    cnt drank (ths st') = cnt drank (ths st) + 2 /\
    S (tokens (sh st')) = tokens (sh st) /\ cnt finitw (ths st') = cnt finitw (ths st) /\
    S (cnt funborn (ths st')) = cnt funborn (ths st) /\
    (forall t, t <> tid -> nth_error (ths st') t = nth_error (ths st) t).
Proof.
  intros c st tid th D Hn Hpc Ht.
  assert (Hc : t_code th = []). { apply (Forall_nth_error _ _ _ _ _ (dQ _ D) Hn). auto. }
  rewrite (thread_eta th) in Hn. rewrite Hc, Hpc in Hn.
  destruct (tokens (sh st)) as [|n] eqn:Et; [lia|].
  pose proof (unborn_pstep c tid (t_arg th) (sh st) n Et) as Hp.
  destruct (lift_step c st tid _ _ _ _ _ _ D Hn Hp) as [st' [E [D' [Es [Hcnt [Hfr _]]]]]];
    [simpl; apply (dF1 _ D)|simpl; apply (dF2 _ D)|].
  exists st'. split; auto. split; auto.
  pose proof (Hcnt drank) as C1. pose proof (Hcnt finitw) as C2. pose proof (Hcnt funborn) as C3.
  rewrite Es. simpl in *. repeat split; auto; lia.
Qed.

(* ------------------------------------------------------------------ the drain *)
Lemma drain : forall c n st, DM st <= n -> DI st -> TB st ->
  exists sched, life (sh (lrun c sched st)) = 0 /\ cnt lweight (ths (lrun c sched st)) = 0 /\
                DI (lrun c sched st) /\ untouched st (lrun c sched st).
Proof.
  intros c n. induction n as [|n IH]; intros st Hm D T.
  - (* nothing left to do: no tracked goroutine, no token *)
    exists []. simpl. unfold DM in Hm.
    assert (Z : cnt lweight (ths st) = 0).
    { destruct (cnt lweight (ths st)) eqn:E; auto.
      destruct (cnt_pos_exists lweight (ths st)) as [k [th [Hk Hw]]]; [lia|].
      pose proof (cnt_ge drank _ _ _ Hk). pose proof (weight_drank _ Hw). lia. }
    pose proof (dA _ D) as A. unfold lifeA in A.
    split; [lia|]. split; [exact Z|]. split; [exact D|]. intros t th H _ _. exact H.
  - destruct (cnt lweight (ths st)) eqn:Ew.
    + destruct (tokens (sh st)) eqn:Et.
      * exists []. simpl. pose proof (dA _ D) as A. unfold lifeA in A.
        split; [lia|]. split; [exact Ew|]. split; [exact D|]. intros t th H _ _. exact H.
      * (* a token is pending: some consumer thread takes it *)
        unfold TB in T.
        destruct (cnt_pos_exists funborn (ths st)) as [k [th [Hk Hu]]]; [lia|].
        assert (Hpc : t_pc th = CoUnborn). { destruct (t_pc th); simpl in Hu; try lia; reflexivity. }
        destruct (unborn_step c st k th D Hk Hpc) as [st1 [E [D1 [C1 [C2 [C3 [C4 Hfr]]]]]]]; [lia|].
        destruct (IH st1) as [sched [L [W [D' U]]]]; auto.
        { unfold DM in *. lia. }
        { unfold TB. lia. }
        exists ((k, 0) :: sched). rewrite (lrun_cons _ _ _ _ _ _ E).
        split; [exact L|]. split; [exact W|]. split; [exact D'|].
        intros t th0 H0 H1 H2. apply U; auto. rewrite Hfr; auto. intro; subst t. congruence.
    + (* a tracked goroutine is alive: it takes one step towards its exit *)
      destruct (cnt_pos_exists lweight (ths st)) as [k [th [Hk Hw]]]; [lia|].
      destruct (exit_step c st k th D Hk Hw) as [ch [st1 [E [D1 [C1 [C2 [C3 Hfr]]]]]]].
      destruct (IH st1) as [sched [L [W [D' U]]]]; auto.
      { unfold DM in *. lia. }
      { unfold TB in *. lia. }
      exists ((k, ch) :: sched). rewrite (lrun_cons _ _ _ _ _ _ E).
      split; [exact L|]. split; [exact W|]. split; [exact D'|].
      intros t th0 H0 H1 H2. apply U; auto. rewrite Hfr; auto. intro; subst t. rewrite Hk in H0. inversion H0; subst. lia.
Qed.

(* the Stop caller that waits at the join passes it through the drained branch *)
Theorem join_reachable_from : forall c st tid a, DI st -> TB st ->
  nth_error (ths st) tid = Some (lmk StJoin [] a) ->
  exists sched, nth_error (ths (lrun c sched st)) tid = Some (lmk StFlush [] a) /\
                joined (sh (lrun c sched st)) = true /\ life (sh (lrun c sched st)) = 0 /\
                cnt lweight (ths (lrun c sched st)) = 0.
Proof.
  intros c st tid a D T Hn.
  destruct (drain c (DM st) st (le_n _) D T) as [s1 [L [W [D1 U]]]].
  set (st1 := lrun c s1 st) in *.
  assert (Hn1 : nth_error (ths st1) tid = Some (lmk StJoin [] a)).
  { apply U; auto. simpl. discriminate. }
  assert (E : lstep c tid 0 st1 = Some {| sh := upd_flags (sh st1) (stopped (sh st1)) (closed (sh st1)) (wstopped (sh st1)) (ptr_nil (sh st1)) true;
                                          ths := lset_nth tid (lmk StFlush [] a) (ths st1); ltrace := ltrace st1 |}).
  { unfold lstep. rewrite Hn1. unfold ltstep. simpl. rewrite L. reflexivity. }
  exists (s1 ++ [(tid, 0)]). rewrite lrun_app. fold st1. rewrite (lrun_cons _ _ _ _ _ _ E). simpl.
  repeat split; auto.
  - eapply nth_error_set_nth_eq; eauto.
  - pose proof (cnt_set_nth lweight _ _ _ (lmk StFlush [] a) Hn1) as C. simpl in C. lia.
Qed.

(* ------------------------------------------------------------------ reachable states: the fence is up when a Stop caller
   is at the join, and every token has its consumer when the roles provide one consumer per processor *)
Definition past_close (p : lpc) : bool := match p with StWindow | StNil | StJoin | StFlush | StFlushing => true | _ => false end.
Definition past_nil (p : lpc) : bool := match p with StJoin | StFlush | StFlushing => true | _ => false end.
Definition fl_th (S : lshared) (th : lthread) : Prop :=
  (past_close (t_pc th) = true -> closed S = true) /\ (past_nil (t_pc th) = true -> ptr_nil S = true).
Definition FL (st : lstate) : Prop := Forall (fl_th (sh st)) (ths st).

Lemma p_fence : forall c tid ch p a S p' code' S' ev, lpstep c tid ch p a S = Some (p', code', S', ev) ->
  (closed S = true -> closed S' = true) /\ (ptr_nil S = true -> ptr_nil S' = true) /\
  (past_close p' = true -> past_close p = true \/ closed S' = true) /\
  (past_nil p' = true -> past_nil p = true \/ ptr_nil S' = true).
Proof. intros c tid ch p a S p' code' S' ev H. inv_p H; simpl; repeat split; intros; auto; try congruence. Qed.
Lemma i_fence : forall c tid i rest S code' S' ev, listep c tid i rest S = Some (code', S', ev) ->
  closed S' = closed S /\ ptr_nil S' = ptr_nil S.
Proof. intros c tid i rest S code' S' ev H. inv_i H; simpl in *; auto. Qed.

Lemma FL_step : forall c tid ch st st', FL st -> lstep c tid ch st = Some st' -> FL st'.
Proof.
  intros c tid ch st st' F H. unfold lstep in H.
  destruct (nth_error (ths st) tid) as [th|] eqn:Hn; try discriminate.
  destruct (ltstep c tid ch th (sh st)) as [[[th' S'] ev]|] eqn:Hs; try discriminate.
  inversion H; subst; clear H. unfold FL in *. simpl.
  pose proof (Forall_nth_error _ _ _ _ _ F Hn) as [Fc Fn].
  destruct (tstep_inv _ _ _ _ _ _ _ _ Hs) as [[i [rest [code' [Hc [Hi E']]]]]|[Hc [p' [code' [Hp E']]]]]; subst th'.
  - destruct (i_fence _ _ _ _ _ _ _ _ Hi) as [E1 E2].
    apply Forall_set_nth.
    + eapply Forall_impl; [|exact F]. intros x [X1 X2]. unfold fl_th. rewrite E1, E2. auto.
    + unfold fl_th. simpl. rewrite E1, E2. auto.
  - destruct (p_fence _ _ _ _ _ _ _ _ _ _ Hp) as [M1 [M2 [N1 N2]]].
    apply Forall_set_nth.
    + eapply Forall_impl; [|exact F]. intros x [X1 X2]. split; auto.
    + unfold fl_th. simpl. split; intros G.
      * destruct (N1 G); auto.
      * destruct (N2 G); auto.
Qed.
Lemma FL_run : forall c sched st, FL st -> FL (lrun c sched st).
Proof.
  intros c sched. induction sched as [|e r IH]; intros st F; simpl; auto. apply IH.
  unfold lstep_or_skip. destruct (lstep c (fst e) (snd e) st) eqn:E; auto. eapply FL_step; eauto.
Qed.
Lemma FL_init : forall cap0 async sync roles, FL (linit cap0 async sync roles).
Proof.
  intros. unfold FL. simpl. apply Forall_forall. intros th Hin. apply in_map_iff in Hin.
  destruct Hin as [r [E _]]. subst th. destruct r; split; simpl; discriminate.
Qed.

Definition wf (c : lcfg) : nat := if c_window c then 1 else 0.
Definition TBI (c : lcfg) (st : lstate) : Prop :=
  tokens (sh st) + cnt finitw (ths st) + wf c * cnt fprstart (ths st) <= cnt funborn (ths st).

Lemma p_tb : forall c tid ch p a S p' code' S' ev, lpstep c tid ch p a S = Some (p', code', S', ev) ->
  tokens S' + finitw p' + wf c * fprstart p' + funborn p <= tokens S + finitw p + wf c * fprstart p + funborn p'.
Proof.
  intros c tid ch p a S p' code' S' ev H. unfold wf. inv_p H; simpl;
    repeat match goal with E : c_window _ = _ |- _ => rewrite E; clear E end; simpl;
    try lia; destruct (c_window c); simpl; lia.
Qed.

Lemma TBI_step : forall c tid ch st st', TBI c st -> lstep c tid ch st = Some st' -> TBI c st'.
Proof.
  intros c tid ch st st' T H. unfold lstep in H.
  destruct (nth_error (ths st) tid) as [th|] eqn:Hn; try discriminate.
  destruct (ltstep c tid ch th (sh st)) as [[[th' S'] ev]|] eqn:Hs; try discriminate.
  inversion H; subst; clear H. unfold TBI in *. simpl.
  pose proof (cnt_set_nth finitw _ _ _ th' Hn) as C1. pose proof (cnt_set_nth fprstart _ _ _ th' Hn) as C2.
  pose proof (cnt_set_nth funborn _ _ _ th' Hn) as C3.
  destruct (tstep_inv _ _ _ _ _ _ _ _ Hs) as [[i [rest [code' [Hc [Hi E']]]]]|[Hc [p' [code' [Hp E']]]]]; subst th'; simpl in *.
  - destruct (i_weight _ _ _ _ _ _ _ _ Hi) as [_ Tk]. rewrite Tk. nia.
  - pose proof (p_tb _ _ _ _ _ _ _ _ _ _ Hp) as P. nia.
Qed.
Lemma TBI_run : forall c sched st, TBI c st -> TBI c (lrun c sched st).
Proof.
  intros c sched. induction sched as [|e r IH]; intros st T; simpl; auto. apply IH.
  unfold lstep_or_skip. destruct (lstep c (fst e) (snd e) st) eqn:E; auto. eapply TBI_step; eauto.
Qed.

(* a windowed configuration provides a window-output consumer thread for every processor thread *)
Definition roles_ok (c : lcfg) (roles : list lrole) : Prop :=
  c_window c = true -> cnt fprstart (map lspawn roles) <= cnt funborn (map lspawn roles).

Lemma TBI_init : forall c cap0 async sync roles, roles_ok c roles -> TBI c (linit cap0 async sync roles).
Proof.
  intros c cap0 async sync roles R. unfold TBI, wf. simpl.
  rewrite (cnt_spawn_zero finitw roles) by (intros []; reflexivity).
  unfold roles_ok in R. destruct (c_window c); simpl; [specialize (R eq_refl); lia|lia].
Qed.

Theorem join_reachable : forall c cap0 async sync roles sched0 tid a, roles_ok c roles ->
  nth_error (ths (lrun c sched0 (linit cap0 async sync roles))) tid = Some (lmk StJoin [] a) ->
  Forall quiet_th (ths (lrun c sched0 (linit cap0 async sync roles))) ->
  exists sched,
    nth_error (ths (lrun c (sched0 ++ sched) (linit cap0 async sync roles))) tid = Some (lmk StFlush [] a) /\
    joined (sh (lrun c (sched0 ++ sched) (linit cap0 async sync roles))) = true /\
    life (sh (lrun c (sched0 ++ sched) (linit cap0 async sync roles))) = 0 /\
    cnt lweight (ths (lrun c (sched0 ++ sched) (linit cap0 async sync roles))) = 0.
Proof.
  intros c cap0 async sync roles sched0 tid a R Hn Q.
  set (st := lrun c sched0 (linit cap0 async sync roles)) in *.
  pose proof (FL_run c sched0 _ (FL_init cap0 async sync roles)) as F. fold st in F.
  pose proof (TBI_run c sched0 _ (TBI_init c cap0 async sync roles R)) as T. fold st in T.
  pose proof (lifeA_run c sched0 _ (lifeA_init cap0 async sync roles)) as A. fold st in A.
  destruct (Forall_nth_error _ _ _ _ _ F Hn) as [Fc Fn]. simpl in Fc, Fn.
  assert (D : DI st). { constructor; auto. }
  assert (T' : TB st). { unfold TB, TBI in *. lia. }
  destruct (join_reachable_from c st tid a D T' Hn) as [sched P].
  exists sched. rewrite lrun_app. fold st. exact P.
Qed.

(* the registration made ahead of time is always handed over: startWindowProcessing spawns the consumer whatever the
   stopped flag says (a processor goroutine that returned early because Stop won the race would keep Start's Add(1)
   for the consumer registered for ever: PrInitW has weight 2, its only successor PrLoop has weight 1 plus one token) *)
Lemma consumer_always_spawned : forall c tid ch a s,
  lpstep c tid ch PrInitW a s = Some (PrLoop, [], upd_life s (life s) (tokens s + 1), []).
Proof. reflexivity. Qed.

(* witness: a windowed instance with two sink workers; Execute returned (Start's critical section ran), NO pipeline
   goroutine was scheduled yet, Stop ran up to its join. The join is not enabled in that state (4 registrations: the
   processor, the consumer it has not spawned yet, two workers), the hypotheses of join_reachable hold, and the explicit
   continuation processor / consumer / workers / Stop passes the join. *)
Definition idle_roles : list lrole := [RProcessor; RConsumer; RWorker; RWorker; RStopper].
Definition idle_stop_first : lstate :=
  lrun (cfg_of true true true true false) ((0,0) :: rep 5 (4,0)) (linit 16 [] [] idle_roles).
Definition idle_joined : lstate :=
  lrun (cfg_of true true true true false) (rep 3 (0,0) ++ [(1,0); (1,3); (1,0); (2,1); (2,0); (3,1); (3,0)] ++ rep 3 (4,0)) idle_stop_first.
Lemma idle_stop_first_ok :
  nth_error (ths idle_stop_first) 4 = Some (lmk StJoin [] 0) /\ nth_error (ths idle_stop_first) 0 = Some (lmk PrInitW [] 0) /\
  life (sh idle_stop_first) = 4 /\ lstep (cfg_of true true true true false) 4 0 idle_stop_first = None /\
  roles_ok (cfg_of true true true true false) idle_roles /\ Forall quiet_th (ths idle_stop_first) /\
  rev (ltrace idle_joined) = [EStopBegin 4; EStopReturn 4 true] /\ life (sh idle_joined) = 0 /\
  cnt lweight (ths idle_joined) = 0 /\ chk_state idle_joined = None.
Proof.
  split; [vm_compute; reflexivity|]. split; [vm_compute; reflexivity|]. split; [vm_compute; reflexivity|].
  split; [vm_compute; reflexivity|]. split; [intros _; vm_compute; lia|].
  split; [|vm_compute; auto].
  assert (E : ths idle_stop_first = [lmk PrInitW [] 0; lmk CoUnborn [] 0; lmk WkLoop [] 0; lmk WkLoop [] 0; lmk StJoin [] 0])
    by (vm_compute; reflexivity).
  rewrite E. repeat (apply Forall_cons; [intros _; reflexivity|]). apply Forall_nil.
Qed.
