(* C06 — the precedence-ladder parser of expr/parser.go reads back what the printer writes:
   xparse (xprint t) = Some (xelab t) for every source expression (precedence and parentheses are
   respected), with the model's own fuel. *)
From SV Require Import Model.ExprSyntax.
From Coq Require Import Lia.
Local Open Scope nat_scope.

(* ---- induction principle for the nested type xexpr ---- *)
Section Ind.
Variable P : xexpr -> Prop.
Hypothesis HNum : forall q, P (ENum q).
Hypothesis HStr : forall s, P (EStr s).
Hypothesis HCol : forall s, P (ECol s).
Hypothesis HNeg : forall e, P e -> P (ENeg e).
Hypothesis HBin : forall o l r, P l -> P r -> P (EBin o l r).
Hypothesis HCmp : forall c l r, P l -> P r -> P (ECmp c l r).
Hypothesis HAnd : forall l r, P l -> P r -> P (EAnd l r).
Hypothesis HOr : forall l r, P l -> P r -> P (EOr l r).
Hypothesis HCall : forall g args, Forall P args -> P (ECall g args).
Hypothesis HParen : forall e, P e -> P (EParen e).
Fixpoint xexpr_pind (e : xexpr) : P e :=
  match e with
  | ENum q => HNum q
  | EStr s => HStr s
  | ECol s => HCol s
  | ENeg x => HNeg x (xexpr_pind x)
  | EBin o l r => HBin o l r (xexpr_pind l) (xexpr_pind r)
  | ECmp c l r => HCmp c l r (xexpr_pind l) (xexpr_pind r)
  | EAnd l r => HAnd l r (xexpr_pind l) (xexpr_pind r)
  | EOr l r => HOr l r (xexpr_pind l) (xexpr_pind r)
  | ECall g args =>
      HCall g args ((fix go (l : list xexpr) : Forall P l :=
                       match l with
                       | [] => Forall_nil P
                       | x :: r => Forall_cons x (xexpr_pind x) (go r)
                       end) args)
  | EParen x => HParen x (xexpr_pind x)
  end.
End Ind.

(* ---- "parses with every fuel >= n" ---- *)
Definition PeN (n p : nat) (ts : list xtoken) (res : xnode * list xtoken) : Prop :=
  forall f, f >= n -> pe f p ts = Some res.
Definition PloopN (n p : nat) (l : xnode) (ts : list xtoken) (res : xnode * list xtoken) : Prop :=
  forall f, f >= n -> ploop f p l ts = Some res.
Definition PargsN (n : nat) (g : bytes) (acc : list xnode) (ts : list xtoken) (res : xnode * list xtoken) : Prop :=
  forall f, f >= n -> pargs f g acc ts = Some res.

Lemma PeN_weaken : forall n m p ts res, PeN n p ts res -> n <= m -> PeN m p ts res.
Proof. unfold PeN. intros. apply H. lia. Qed.
Lemma PloopN_weaken : forall n m p l ts res, PloopN n p l ts res -> n <= m -> PloopN m p l ts res.
Proof. unfold PloopN. intros. apply H. lia. Qed.

Definition loop_level (k : nat) : Prop := k = 0 \/ k = 1 \/ k = 3 \/ k = 4.

(* the level at which a token continues an expression (None: it never does) *)
Definition tok_level (t : xtoken) : option nat :=
  match t with
  | TOr => Some 0 | TAnd => Some 1 | TCmp _ => Some 2
  | TBin OAdd | TBin OSub => Some 3
  | TBin OMul | TBin ODiv | TBin OMod => Some 4
  | TBin OPow => Some 5
  | _ => None
  end.
(* tokens that may follow a complete operand *)
Definition after_ok (t : xtoken) : bool :=
  match t with
  | TNum _ | TStr _ | TId _ | TLP | TCase => false
  | _ => true
  end.
Definition follow (p : nat) (rest : list xtoken) : Prop :=
  match rest with
  | [] => True
  | t :: _ => after_ok t = true /\ match tok_level t with Some q => q < p | None => True end
  end.

Lemma follow_mono : forall p q rest, follow p rest -> p <= q -> follow q rest.
Proof. intros p q [|t r]; simpl; auto. intros [H1 H2] Hle. split; auto. destruct (tok_level t); auto. lia. Qed.

Lemma loop_op_level : forall k t mk, loop_op k t = Some mk -> tok_level t = Some k.
Proof.
  intros k t mk H. destruct k as [|[|[|[|[|k]]]]]; destruct t; try destruct o; simpl in *; try discriminate; reflexivity.
Qed.

Lemma loop_op_none : forall k t, match tok_level t with Some q => q < k | None => True end -> loop_op k t = None.
Proof.
  intros k t H. destruct (loop_op k t) as [mk|] eqn:E; auto.
  rewrite (loop_op_level _ _ _ E) in H. lia.
Qed.

(* ---- one-step rules ---- *)
Lemma R_loop_stop : forall k l rest, follow k rest -> PloopN 1 k l rest (l, rest).
Proof.
  intros k l rest Hf f Hge. destruct f as [|f]; [lia|]. simpl.
  destruct rest as [|t r]; auto. destruct Hf as [_ Hf]. rewrite (loop_op_none _ _ Hf). reflexivity.
Qed.

Lemma R_loop_step : forall k t mk r n1 n2 x r' l res,
  loop_op k t = Some mk -> PeN n1 (S k) r (x, r') -> PloopN n2 k (mk l x) r' res ->
  PloopN (S (Nat.max n1 n2)) k l (t :: r) res.
Proof.
  intros k t mk r n1 n2 x r' l res Hop H1 H2 f Hge. destruct f as [|f]; [lia|]. simpl.
  rewrite Hop, (H1 f) by lia. apply H2. lia.
Qed.

Lemma R_loop_level : forall k n1 n2 ts x r res,
  loop_level k -> PeN n1 (S k) ts (x, r) -> PloopN n2 k x r res -> PeN (S (Nat.max n1 n2)) k ts res.
Proof.
  intros k n1 n2 ts x r res Hk H1 H2 f Hge. destruct f as [|f]; [lia|].
  destruct Hk as [-> | [-> | [-> | ->]]]; simpl; rewrite (H1 f) by lia; apply H2; lia.
Qed.

Lemma R_cmp_none : forall n ts l r, PeN n 3 ts (l, r) -> follow 2 r -> PeN (S n) 2 ts (l, r).
Proof.
  intros n ts l r H Hf f Hge. destruct f as [|f]; [lia|]. simpl. rewrite (H f) by lia.
  destruct r as [|t r']; auto. destruct Hf as [_ Hf]. destruct t; auto. simpl in Hf. lia.
Qed.

Lemma R_cmp : forall n1 n2 ts l c r1 x r2,
  PeN n1 3 ts (l, TCmp c :: r1) -> PeN n2 3 r1 (x, r2) -> PeN (S (Nat.max n1 n2)) 2 ts (NCmp c l x, r2).
Proof.
  intros n1 n2 ts l c r1 x r2 H1 H2 f Hge. destruct f as [|f]; [lia|]. simpl.
  rewrite (H1 f), (H2 f) by lia. reflexivity.
Qed.

Lemma R_pow_none : forall n ts l r, PeN n 6 ts (l, r) -> follow 5 r -> PeN (S n) 5 ts (l, r).
Proof.
  intros n ts l r H Hf f Hge. destruct f as [|f]; [lia|]. simpl. rewrite (H f) by lia.
  destruct r as [|t r']; auto. destruct Hf as [_ Hf]. destruct t; auto. destruct o; auto. simpl in Hf. lia.
Qed.

Lemma R_pow : forall n1 n2 ts l r1 x r2,
  PeN n1 6 ts (l, TBin OPow :: r1) -> PeN n2 5 r1 (x, r2) -> PeN (S (Nat.max n1 n2)) 5 ts (NBin OPow l x, r2).
Proof.
  intros n1 n2 ts l r1 x r2 H1 H2 f Hge. destruct f as [|f]; [lia|]. simpl.
  rewrite (H1 f), (H2 f) by lia. reflexivity.
Qed.

Lemma R_neg : forall n r x r', PeN n 6 r (x, r') -> PeN (S n) 6 (TBin OSub :: r) (NBin OSub (NNum zeroQ) x, r').
Proof.
  intros n r x r' H f Hge. destruct f as [|f]; [lia|]. simpl. rewrite (H f) by lia. reflexivity.
Qed.

(* first token of a primary operand *)
Definition prim_start (t : xtoken) : bool :=
  match t with TNum _ | TStr _ | TId _ | TLP => true | _ => false end.

Lemma R_unary_pass : forall n t ts res, prim_start t = true -> PeN n 7 (t :: ts) res -> PeN (S n) 6 (t :: ts) res.
Proof.
  intros n t ts res Hs H f Hge. destruct f as [|f]; [lia|]. simpl.
  destruct t; try discriminate; apply H; lia.
Qed.

Lemma R_num : forall q r, PeN 1 7 (TNum q :: r) (NNum q, r).
Proof. intros q r f Hge. destruct f as [|f]; [lia|]. reflexivity. Qed.
Lemma R_str : forall s r, PeN 1 7 (TStr s :: r) (NStr s, r).
Proof. intros s r f Hge. destruct f as [|f]; [lia|]. reflexivity. Qed.
Lemma R_field : forall s r, follow 8 r -> PeN 1 7 (TId s :: r) (NField s, r).
Proof.
  intros s r Hf f Hge. destruct f as [|f]; [lia|]. simpl.
  destruct r as [|t r']; auto. destruct Hf as [Ha _]. destruct t; try discriminate; reflexivity.
Qed.
Lemma R_paren : forall n r e r', PeN n 0 r (e, TRP :: r') -> PeN (S n) 7 (TLP :: r) (NParen e, r').
Proof. intros n r e r' H f Hge. destruct f as [|f]; [lia|]. simpl. rewrite (H f) by lia. reflexivity. Qed.
Lemma R_fun0 : forall g r, PeN 1 7 (TId g :: TLP :: TRP :: r) (NFun g [], r).
Proof. intros g r f Hge. destruct f as [|f]; [lia|]. reflexivity. Qed.
Lemma R_fun : forall n g t r res, t <> TRP -> PargsN n g [] (t :: r) res -> PeN (S n) 7 (TId g :: TLP :: t :: r) res.
Proof.
  intros n g t r res Ht H f Hge. destruct f as [|f]; [lia|]. simpl.
  destruct t; try (apply H; lia). congruence.
Qed.

Lemma R_args_last : forall n g acc ts a r, PeN n 0 ts (a, TRP :: r) -> PargsN (S n) g acc ts (NFun g (rev (a :: acc)), r).
Proof. intros n g acc ts a r H f Hge. destruct f as [|f]; [lia|]. simpl. rewrite (H f) by lia. reflexivity. Qed.
Lemma R_args_more : forall n1 n2 g acc ts a r res,
  PeN n1 0 ts (a, TComma :: r) -> PargsN n2 g (a :: acc) r res -> PargsN (S (Nat.max n1 n2)) g acc ts res.
Proof.
  intros n1 n2 g acc ts a r res H1 H2 f Hge. destruct f as [|f]; [lia|]. simpl. rewrite (H1 f) by lia. apply H2. lia.
Qed.

(* descending one level without consuming anything *)
Lemma R_descend : forall q n ts x r, q < 6 -> 1 <= n -> PeN n (S q) ts (x, r) -> follow q r -> PeN (S n) q ts (x, r).
Proof.
  intros q n ts x r Hq Hn H Hf.
  destruct q as [|[|[|[|[|[|q]]]]]]; try lia.
  - eapply PeN_weaken; [eapply (R_loop_level 0 n 1); [left; auto| exact H | apply R_loop_stop; auto]|lia].
  - eapply PeN_weaken; [eapply (R_loop_level 1 n 1); [right; left; auto| exact H | apply R_loop_stop; auto]|lia].
  - apply R_cmp_none; auto.
  - eapply PeN_weaken; [eapply (R_loop_level 3 n 1); [right; right; left; auto| exact H | apply R_loop_stop; auto]|lia].
  - eapply PeN_weaken; [eapply (R_loop_level 4 n 1); [right; right; right; auto| exact H | apply R_loop_stop; auto]|lia].
  - apply R_pow_none; auto.
Qed.

(* ---- facts about the printer ---- *)
Definition tl_len (p : nat) (e : xexpr) : nat := length (pr p e).

Lemma pr_paren : forall p e, Nat.leb p (xlevel e) = false -> pr p e = TLP :: pr 0 e ++ [TRP].
Proof. intros p e H. destruct e; try destruct o; simpl in *; rewrite H; reflexivity. Qed.
Lemma elab_paren : forall p e, Nat.leb p (xlevel e) = false -> elab p e = NParen (elab 0 e).
Proof. intros p e H. destruct e; try destruct o; simpl in *; rewrite H; reflexivity. Qed.
Lemma pr_same : forall p q e, Nat.leb p (xlevel e) = Nat.leb q (xlevel e) -> pr p e = pr q e.
Proof. intros p q e H. destruct e; try destruct o; simpl in *; rewrite H; reflexivity. Qed.
Lemma elab_same : forall p q e, Nat.leb p (xlevel e) = Nat.leb q (xlevel e) -> elab p e = elab q e.
Proof. intros p q e H. destruct e; try destruct o; simpl in *; rewrite H; reflexivity. Qed.

Lemma pr_nonempty : forall p e, 1 <= length (pr p e).
Proof.
  intros p e. destruct (Nat.leb p (xlevel e)) eqn:E.
  - destruct e; try destruct o; simpl in *; rewrite E; simpl; rewrite ?app_length; simpl; try lia.
  - rewrite (pr_paren _ _ E). simpl. lia.
Qed.

(* the statement proved by induction: bound 9 * tokens + (7 - p) *)
Definition bnd (p len : nat) : nat := 9 * len + (7 - p).

Definition M (e : xexpr) (p : nat) : Prop :=
  forall rest, follow p rest -> PeN (bnd p (length (pr p e))) p (pr p e ++ rest) (elab p e, rest).

Definition C (e : xexpr) (k : nat) : Prop :=
  forall n rest res, follow (S k) rest -> PloopN n k (elab k e) rest res ->
  PeN (n + 9 * length (pr k e) + 7) k (pr k e ++ rest) res.

(* levels below the expression's own level: same text, one more descent *)
Lemma M_descend : forall e q, q < xlevel e -> q < 6 -> M e (S q) -> M e q.
Proof.
  intros e q Hlt Hq HM rest Hf.
  assert (E1 : Nat.leb q (xlevel e) = true) by (apply Nat.leb_le; lia).
  assert (E2 : Nat.leb (S q) (xlevel e) = true) by (apply Nat.leb_le; lia).
  rewrite (pr_same q (S q)), (elab_same q (S q)) by congruence.
  eapply PeN_weaken.
  - eapply (R_descend q (bnd (S q) (length (pr (S q) e))));
      [lia | unfold bnd; pose proof (pr_nonempty (S q) e); lia | apply HM; eapply follow_mono; eauto | exact Hf].
  - unfold bnd. lia.
Qed.

Lemma M_descend6 : forall e, xlevel e = 7 ->
  (exists t ts, pr 7 e = t :: ts /\ prim_start t = true) -> M e 7 -> M e 6.
Proof.
  intros e Hl (t & ts & Ht & Hs) HM rest Hf.
  rewrite (pr_same 6 7), (elab_same 6 7) by (rewrite Hl; reflexivity).
  assert (Hf7 : follow 7 rest) by (eapply follow_mono; [exact Hf|lia]).
  specialize (HM rest Hf7).
  rewrite Ht in *. simpl app in *.
  eapply PeN_weaken; [apply R_unary_pass; eauto|]. unfold bnd. simpl. lia.
Qed.

(* levels above the expression's own level: parenthesised *)
Lemma M_paren7 : forall e, xlevel e < 7 -> M e 0 -> M e 7.
Proof.
  intros e Hl HM rest Hf.
  assert (E : Nat.leb 7 (xlevel e) = false) by (apply Nat.leb_gt; lia).
  rewrite (pr_paren _ _ E), (elab_paren _ _ E). simpl. rewrite <- app_assoc. simpl.
  eapply PeN_weaken.
  - apply R_paren. apply HM. simpl. auto.
  - unfold bnd. rewrite app_length. simpl. lia.
Qed.

Lemma M_paren_descend : forall e q, xlevel e < q -> q < 7 -> M e (S q) -> M e q.
Proof.
  intros e q Hl Hq HM rest Hf.
  assert (E1 : Nat.leb q (xlevel e) = false) by (apply Nat.leb_gt; lia).
  assert (E2 : Nat.leb (S q) (xlevel e) = false) by (apply Nat.leb_gt; lia).
  rewrite (pr_same q (S q)), (elab_same q (S q)) by congruence.
  assert (HfS : follow (S q) rest) by (eapply follow_mono; [exact Hf|lia]).
  specialize (HM rest HfS).
  destruct (Nat.eq_dec q 6) as [-> | Hne].
  - rewrite (pr_paren _ _ E2) in *. simpl app in *.
    eapply PeN_weaken; [apply R_unary_pass; [reflexivity|exact HM]|]. unfold bnd. simpl. lia.
  - eapply PeN_weaken; [eapply (R_descend q (bnd (S q) (length (pr (S q) e)))); [lia | unfold bnd; pose proof (pr_nonempty (S q) e); lia | exact HM | exact Hf]|]. unfold bnd. lia.
Qed.

(* once M holds at the expression's own level it holds at every level *)
Lemma M_all_from_own : forall e,
  M e (xlevel e) ->
  (xlevel e = 7 -> exists t ts, pr 7 e = t :: ts /\ prim_start t = true) ->
  xlevel e <= 7 ->
  forall p, p <= 7 -> M e p.
Proof.
  intros e Hown Hprim Hle.
  (* below *)
  assert (Below : forall d q, q + d = xlevel e -> M e q).
  { induction d as [|d IH]; intros q Hq.
    - replace q with (xlevel e) by lia. exact Hown.
    - assert (HS : M e (S q)) by (apply IH; lia).
      destruct (Nat.eq_dec q 6) as [-> | Hne].
      + assert (H7 : xlevel e = 7) by lia. apply M_descend6; auto.
      + apply M_descend; auto; lia. }
  assert (M0 : M e 0) by (apply (Below (xlevel e) 0); lia).
  (* above *)
  assert (Above : forall d q, q + d = 7 -> xlevel e < q -> M e q).
  { induction d as [|d IH]; intros q Hq Hlt.
    - replace q with 7 by lia. apply M_paren7; auto. lia.
    - apply M_paren_descend; auto; try lia. apply IH; lia. }
  intros p Hp. destruct (le_lt_dec p (xlevel e)) as [H|H].
  - apply (Below (xlevel e - p) p). lia.
  - apply (Above (7 - p) p); lia.
Qed.

(* the continuation form at a loop level, for an expression that is NOT a chain link of that level *)
Lemma C_other : forall e k, loop_level k -> M e (S k) ->
  pr k e = pr (S k) e -> elab k e = elab (S k) e -> C e k.
Proof.
  intros e k Hk HM Hp He n rest res Hf HL. rewrite Hp. rewrite He in HL.
  eapply PeN_weaken.
  - eapply R_loop_level; eauto.
  - unfold bnd. pose proof (pr_nonempty (S k) e). lia.
Qed.

(* a chain link of level k:  l <op> r  with the left operand printed at k and the right at k+1 *)
Lemma C_link : forall k l r t mk,
  loop_level k -> loop_op k t = Some mk -> C l k -> M r (S k) ->
  forall n rest res, follow (S k) rest ->
  PloopN n k (mk (elab k l) (elab (S k) r)) rest res ->
  PeN (n + 9 * length (pr k l ++ t :: pr (S k) r) + 7) k ((pr k l ++ t :: pr (S k) r) ++ rest) res.
Proof.
  intros k l r t mk Hk Hop HC HM n rest res Hf HL.
  rewrite <- app_assoc. simpl.
  eapply PeN_weaken.
  - apply HC.
    + simpl. split.
      * destruct k as [|[|[|[|[|k]]]]]; destruct t; try destruct o; simpl in Hop; try discriminate; reflexivity.
      * rewrite (loop_op_level _ _ _ Hop). lia.
    + eapply R_loop_step; eauto.
  - rewrite app_length. simpl. unfold bnd. lia.
Qed.

Lemma M_link : forall k l r t mk,
  loop_level k -> loop_op k t = Some mk -> C l k -> M r (S k) ->
  forall rest, follow k rest ->
  PeN (bnd k (length (pr k l ++ t :: pr (S k) r))) k ((pr k l ++ t :: pr (S k) r) ++ rest)
      (mk (elab k l) (elab (S k) r), rest).
Proof.
  intros k l r t mk Hk Hop HC HM rest Hf.
  rewrite <- app_assoc. simpl.
  eapply PeN_weaken.
  - apply HC.
    + simpl. split.
      * destruct k as [|[|[|[|[|k]]]]]; destruct t; try destruct o; simpl in Hop; try discriminate; reflexivity.
      * rewrite (loop_op_level _ _ _ Hop). lia.
    + eapply R_loop_step; [exact Hop | apply HM; eapply follow_mono; [exact Hf|lia] | apply R_loop_stop; exact Hf].
  - rewrite app_length. simpl. unfold bnd.
    pose proof (pr_nonempty (S k) r).
    destruct Hk as [-> | [-> | [-> | ->]]]; lia.
Qed.

(* all the facts about one expression *)
Definition Good (e : xexpr) : Prop := (forall p, p <= 7 -> M e p) /\ (forall k, loop_level k -> C e k).

Lemma leb_S_same : forall k e, xlevel e <> k -> Nat.leb k (xlevel e) = Nat.leb (S k) (xlevel e).
Proof.
  intros k e H. destruct (Nat.leb k (xlevel e)) eqn:E1; symmetry.
  - apply Nat.leb_le in E1. apply Nat.leb_le. lia.
  - apply Nat.leb_gt in E1. apply Nat.leb_gt. lia.
Qed.

(* C at the loop levels different from the expression's own level follows from M *)
Lemma C_from_M : forall e k, loop_level k -> xlevel e <> k -> (forall p, p <= 7 -> M e p) -> C e k.
Proof.
  intros e k Hk Hne HM. apply C_other; auto.
  - apply HM. destruct Hk as [-> | [-> | [-> | ->]]]; lia.
  - apply pr_same. apply leb_S_same; auto.
  - apply elab_same. apply leb_S_same; auto.
Qed.

(* arguments of a call *)
Fixpoint pr_args (first : bool) (l : list xexpr) : list xtoken :=
  match l with
  | [] => [TRP]
  | a :: l' => (if first then [] else [TComma]) ++ pr 0 a ++ pr_args false l'
  end.

Lemma pr_call : forall p g args, p <= 7 -> pr p (ECall g args) = TId g :: TLP :: pr_args true args.
Proof.
  intros p g args Hp. simpl. replace (Nat.leb p 7) with true by (symmetry; apply Nat.leb_le; lia).
  reflexivity.
Qed.

Lemma args_parse : forall g args a acc rest,
  Forall (fun e => M e 0) (a :: args) ->
  PargsN (9 * length (pr 0 a ++ pr_args false args) + 8) g acc ((pr 0 a ++ pr_args false args) ++ rest)
         (NFun g (rev acc ++ map (elab 0) (a :: args)), rest).
Proof.
  intros g args. induction args as [|b args IH]; intros a acc rest HF.
  - inversion HF as [|? ? Ha _]; subst. simpl. rewrite <- app_assoc. simpl.
    intros f Hge.
    assert (Hp := Ha (TRP :: rest) ltac:(simpl; auto)).
    pose proof (R_args_last _ g acc _ _ _ Hp) as HR. rewrite (HR f).
    + simpl. reflexivity.
    + unfold bnd in *. rewrite app_length in Hge. simpl in Hge. lia.
  - inversion HF as [|? ? Ha HF']; subst.
    simpl pr_args. rewrite <- app_assoc. simpl app.
    intros f Hge.
    assert (Hp := Ha (TComma :: (pr 0 b ++ pr_args false args) ++ rest) ltac:(simpl; auto)).
    specialize (IH b (elab 0 a :: acc) rest HF').
    pose proof (R_args_more _ _ g acc _ _ _ _ Hp IH) as HR.
    replace (TComma :: pr 0 b ++ pr_args false args ++ rest)
      with (TComma :: (pr 0 b ++ pr_args false args) ++ rest) by (rewrite <- app_assoc; reflexivity).
    rewrite (HR f).
    + simpl. rewrite <- app_assoc. reflexivity.
    + unfold bnd in *. rewrite !app_length in *. simpl in *. rewrite !app_length in *. lia.
Qed.

Ltac fin := intros; simpl in *; first [reflexivity | discriminate | lia | congruence | auto].

Lemma pr_head : forall p e, exists t ts, pr p e = t :: ts /\ t <> TRP /\ t <> TWhen /\ t <> TCase
                                     /\ (xlevel e = 7 -> p <= 7 -> prim_start t = true).
Proof.
  intros p e. revert p. induction e using xexpr_pind; intros p;
    match goal with |- context [pr ?pp ?ee] => destruct (Nat.leb pp (xlevel ee)) eqn:E end;
    try (rewrite (pr_paren _ _ E); do 2 eexists; repeat split; try discriminate;
         intros H7 Hp; apply Nat.leb_gt in E; lia).
  - simpl in *. rewrite E. do 2 eexists. repeat split; fin.
  - simpl in *. rewrite E. do 2 eexists. repeat split; fin.
  - simpl in *. rewrite E. do 2 eexists. repeat split; fin.
  - (* ENeg *) simpl in *. rewrite E. do 2 eexists. repeat split; fin.
  - (* EBin *) destruct o; simpl in *; rewrite E;
      match goal with |- context [pr ?q e1 ++ _] => destruct (IHe1 q) as (t & ts & -> & H1 & H2 & H3 & _) end;
      do 2 eexists; simpl; repeat split; eauto; fin.
  - (* ECmp *) simpl in *. rewrite E. destruct (IHe1 3) as (t & ts & -> & H1 & H2 & H3 & _).
    do 2 eexists; simpl; repeat split; eauto; fin.
  - (* EAnd *) simpl in *. rewrite E. destruct (IHe1 1) as (t & ts & -> & H1 & H2 & H3 & _).
    do 2 eexists; simpl; repeat split; eauto; fin.
  - (* EOr *) simpl in *. rewrite E. destruct (IHe1 0) as (t & ts & -> & H1 & H2 & H3 & _).
    do 2 eexists; simpl; repeat split; eauto; fin.
  - (* ECall *) simpl in *. rewrite E. do 2 eexists. repeat split; fin.
  - (* EParen *) simpl in *. rewrite E. do 2 eexists. repeat split; fin.
Qed.

Lemma good_all : forall e, Good e.
Proof.
  induction e using xexpr_pind.
  - (* ENum *)
    assert (HM : forall p, p <= 7 -> M (ENum q) p).
    { apply M_all_from_own; simpl; auto.
      - intros rest Hf. eapply PeN_weaken; [apply R_num|]. unfold bnd. simpl. lia.
      - intros _. do 2 eexists. split; reflexivity. }
    split; auto. intros k Hk. apply C_from_M; auto. simpl. destruct Hk as [-> | [-> | [-> | ->]]]; lia.
  - (* EStr *)
    assert (HM : forall p, p <= 7 -> M (EStr s) p).
    { apply M_all_from_own; simpl; auto.
      - intros rest Hf. eapply PeN_weaken; [apply R_str|]. unfold bnd. simpl. lia.
      - intros _. do 2 eexists. split; reflexivity. }
    split; auto. intros k Hk. apply C_from_M; auto. simpl. destruct Hk as [-> | [-> | [-> | ->]]]; lia.
  - (* ECol *)
    assert (HM : forall p, p <= 7 -> M (ECol s) p).
    { apply M_all_from_own; simpl; auto.
      - intros rest Hf. eapply PeN_weaken; [apply R_field|].
        + destruct rest as [|t r]; simpl in *; auto. destruct Hf as [Ha Hl]. split; auto.
          destruct (tok_level t) eqn:Et; auto; lia.
        + unfold bnd. simpl. lia.
      - intros _. do 2 eexists. split; reflexivity. }
    split; auto. intros k Hk. apply C_from_M; auto. simpl. destruct Hk as [-> | [-> | [-> | ->]]]; lia.
  - (* ENeg *)
    destruct IHe as [IHM _].
    assert (HM : forall p, p <= 7 -> M (ENeg e) p).
    { apply M_all_from_own; [|simpl; intros; discriminate|simpl; lia].
      simpl xlevel. intros rest Hf. eapply PeN_weaken; [apply R_neg; apply (IHM 6); auto|].
      unfold bnd. simpl. lia. }
    split; auto. intros k Hk. apply C_from_M; auto. simpl. destruct Hk as [-> | [-> | [-> | ->]]]; lia.
  - (* EBin *)
    destruct IHe1 as [IHM1 IHC1]. destruct IHe2 as [IHM2 IHC2].
    assert (Link : forall k t, loop_level k -> loop_op k t = Some (NBin o) -> binop_level o = k ->
                   pr k (EBin o e1 e2) = pr k e1 ++ t :: pr (S k) e2 ->
                   elab k (EBin o e1 e2) = NBin o (elab k e1) (elab (S k) e2) -> Good (EBin o e1 e2)).
    { intros k t Hk Hop Hlv Hpr Hel.
      assert (k7 : k <= 6) by (destruct Hk as [-> | [-> | [-> | ->]]]; lia).
      assert (HM : forall p, p <= 7 -> M (EBin o e1 e2) p).
      { apply M_all_from_own.
        - replace (xlevel (EBin o e1 e2)) with k by (simpl; auto).
          intros rest Hf. rewrite Hpr, Hel. apply (M_link k e1 e2 t (NBin o)); auto. apply IHM2. lia.
        - simpl. rewrite Hlv. intros ->. lia.
        - simpl. lia. }
      split; auto. intros k' Hk'. destruct (Nat.eq_dec (xlevel (EBin o e1 e2)) k') as [Heq|Hne].
      - simpl in Heq. rewrite Hlv in Heq. subst k'.
        intros n rest res Hf HL. rewrite Hpr. rewrite Hel in HL. apply (C_link k e1 e2 t (NBin o)); auto. apply IHM2. lia.
      - apply C_from_M; auto. }
    destruct o.
    + apply (Link 3 (TBin OAdd)); auto; unfold loop_level; auto.
    + apply (Link 3 (TBin OSub)); auto; unfold loop_level; auto.
    + apply (Link 4 (TBin OMul)); auto; unfold loop_level; auto.
    + apply (Link 4 (TBin ODiv)); auto; unfold loop_level; auto.
    + apply (Link 4 (TBin OMod)); auto; unfold loop_level; auto.
    + (* power: right associative, not a loop *)
      assert (HM : forall p, p <= 7 -> M (EBin OPow e1 e2) p).
      { apply M_all_from_own; [|simpl; intros; discriminate|simpl; lia].
        simpl xlevel. intros rest Hf. simpl. rewrite <- app_assoc. simpl.
        eapply PeN_weaken.
        - eapply R_pow.
          + apply (IHM1 6); auto. simpl. split; auto.
          + apply (IHM2 5); auto.
        - unfold bnd. rewrite app_length. simpl. lia. }
      split; auto. intros k Hk. apply C_from_M; auto. simpl. destruct Hk as [-> | [-> | [-> | ->]]]; lia.
  - (* ECmp *)
    destruct IHe1 as [IHM1 _]. destruct IHe2 as [IHM2 _].
    assert (HM : forall p, p <= 7 -> M (ECmp c e1 e2) p).
    { apply M_all_from_own; [|simpl; intros; discriminate|simpl; lia].
      simpl xlevel. intros rest Hf. simpl. rewrite <- app_assoc. simpl.
      eapply PeN_weaken.
      - eapply R_cmp.
        + apply (IHM1 3); auto. simpl. split; auto.
        + apply (IHM2 3); auto. eapply follow_mono; eauto.
      - unfold bnd. rewrite app_length. simpl. lia. }
    split; auto. intros k Hk. apply C_from_M; auto. simpl. destruct Hk as [-> | [-> | [-> | ->]]]; lia.
  - (* EAnd *)
    destruct IHe1 as [IHM1 IHC1]. destruct IHe2 as [IHM2 IHC2].
    assert (L1 : loop_level 1) by (unfold loop_level; auto).
    assert (HM : forall p, p <= 7 -> M (EAnd e1 e2) p).
    { apply M_all_from_own; [|simpl; intros; discriminate|simpl; lia].
      simpl xlevel. intros rest Hf. apply (M_link 1 e1 e2 TAnd NAnd); [exact L1 | reflexivity | apply IHC1; exact L1 | apply IHM2; lia | exact Hf]. }
    split; auto. intros k Hk. destruct (Nat.eq_dec 1 k) as [<- | Hne].
    + intros n rest res Hf HL. apply (C_link 1 e1 e2 TAnd NAnd); [exact L1 | reflexivity | apply IHC1; exact L1 | apply IHM2; lia | exact Hf | exact HL].
    + apply C_from_M; auto.
  - (* EOr *)
    destruct IHe1 as [IHM1 IHC1]. destruct IHe2 as [IHM2 IHC2].
    assert (L0 : loop_level 0) by (unfold loop_level; auto).
    assert (HM : forall p, p <= 7 -> M (EOr e1 e2) p).
    { apply M_all_from_own; [|simpl; intros; discriminate|simpl; lia].
      simpl xlevel. intros rest Hf. apply (M_link 0 e1 e2 TOr NOr); [exact L0 | reflexivity | apply IHC1; exact L0 | apply IHM2; lia | exact Hf]. }
    split; auto. intros k Hk. destruct (Nat.eq_dec 0 k) as [<- | Hne].
    + intros n rest res Hf HL. apply (C_link 0 e1 e2 TOr NOr); [exact L0 | reflexivity | apply IHC1; exact L0 | apply IHM2; lia | exact Hf | exact HL].
    + apply C_from_M; auto.
  - (* ECall *)
    assert (HM : forall p, p <= 7 -> M (ECall g args) p).
    { apply M_all_from_own; simpl xlevel; auto.
      - intros rest Hf. rewrite pr_call by lia.
        replace (elab 7 (ECall g args)) with (NFun g (map (elab 0) args)) by reflexivity.
        destruct args as [|a args].
        + simpl. eapply PeN_weaken; [apply R_fun0|]. unfold bnd. simpl. lia.
        + simpl pr_args. simpl app.
          assert (HF : Forall (fun e => M e 0) (a :: args)).
          { eapply Forall_impl; [|exact H]. intros x [Hx _]. apply Hx. lia. }
          destruct (pr_head 0 a) as (t & ts & Et & Ht & _).
          pose proof (args_parse g args a [] rest HF) as HP. simpl in HP.
          rewrite Et in *. simpl app in *.
          eapply PeN_weaken; [apply R_fun; eauto|].
          unfold bnd. simpl. lia.
      - intros _. rewrite pr_call by lia. do 2 eexists. split; reflexivity. }
    split; auto. intros k Hk. apply C_from_M; auto. simpl. destruct Hk as [-> | [-> | [-> | ->]]]; lia.
  - (* EParen *)
    destruct IHe as [IHM _].
    assert (HM : forall p, p <= 7 -> M (EParen e) p).
    { apply M_all_from_own; simpl xlevel; auto.
      - intros rest Hf. simpl. rewrite <- app_assoc. simpl.
        eapply PeN_weaken; [apply R_paren; apply (IHM 0); [lia|simpl; auto]|].
        unfold bnd. rewrite app_length. simpl. lia.
      - intros _. simpl. do 2 eexists. split; reflexivity. }
    split; auto. intros k Hk. apply C_from_M; auto. simpl. destruct Hk as [-> | [-> | [-> | ->]]]; lia.
Qed.

(* parse at level 0 with any fuel >= 9 * tokens + 7 *)
Lemma pe0 : forall e rest f, follow 0 rest -> f >= 9 * length (pr 0 e) + 7 ->
  pe f 0 (pr 0 e ++ rest) = Some (elab 0 e, rest).
Proof.
  intros e rest f Hf Hge. destruct (good_all e) as [HM _]. apply (HM 0 ltac:(lia) rest Hf). unfold bnd. lia.
Qed.

(* ---- CASE ---- *)
Definition pr_when (w : xexpr * xexpr) : list xtoken := TWhen :: pr 0 (fst w) ++ TThen :: pr 0 (snd w).

Lemma pwhens_parse : forall ws pf acc tail f,
  (forall w, In w ws -> pf >= 9 * length (pr 0 (fst w)) + 7 /\ pf >= 9 * length (pr 0 (snd w)) + 7) ->
  (match tail with TWhen :: _ => False | [] => True | t :: _ => after_ok t = true /\ tok_level t = None end) ->
  f > length ws ->
  pwhens f pf acc (flat_map pr_when ws ++ tail) =
  Some (rev acc ++ map (fun w => (elab 0 (fst w), elab 0 (snd w))) ws, tail).
Proof.
  induction ws as [|[c x] ws IH]; intros pf acc tail f Hpf Htail Hf.
  - destruct f as [|f]; [simpl in Hf; lia|]. simpl. rewrite app_nil_r.
    destruct tail as [|t tl]; auto. destruct t; auto. contradiction.
  - destruct f as [|f]; [simpl in Hf; lia|].
    simpl flat_map. unfold pr_when at 1. simpl fst. simpl snd. simpl app. rewrite <- !app_assoc. simpl app.
    destruct (Hpf (c, x) (or_introl eq_refl)) as [Hc Hx]. simpl in Hc, Hx.
    cbn [pwhens].
    change (flat_map (fun w : xexpr * xexpr => TWhen :: pr 0 (fst w) ++ TThen :: pr 0 (snd w)) ws) with (flat_map pr_when ws).
    rewrite (pe0 c (TThen :: pr 0 x ++ flat_map pr_when ws ++ tail) pf) by (simpl; auto).
    assert (Hfol : follow 0 (flat_map pr_when ws ++ tail)).
    { destruct ws as [|w ws']; simpl.
      - destruct tail as [|t tl]; simpl; auto. destruct t; try contradiction; destruct Htail as [Ha Hl]; rewrite ?Hl; auto;
          try discriminate.
      - split; auto. }
    rewrite (pe0 x (flat_map pr_when ws ++ tail) pf) by auto.
    rewrite IH; auto.
    + simpl. rewrite <- app_assoc. reflexivity.
    + intros w Hw. apply Hpf. right; auto.
    + simpl in Hf. lia.
Qed.

Lemma flat_map_len : forall ws w, In w ws ->
  length (pr 0 (fst w)) + length (pr 0 (snd w)) <= length (flat_map pr_when ws).
Proof.
  induction ws as [|a ws IH]; intros w Hin; simpl in Hin; [contradiction|].
  simpl. rewrite !app_length. simpl. rewrite ?app_length.
  destruct Hin as [-> | Hin].
  - lia.
  - specialize (IH w Hin). lia.
Qed.

Lemma flat_map_ge : forall ws, length ws <= length (flat_map pr_when ws).
Proof. induction ws as [|a ws IH]; simpl; auto. rewrite !app_length. simpl. lia. Qed.

Opaque pe pwhens.

(* SQL's CASE has at least one WHEN clause ("CASE ELSE x END" is not an expression of the grammar:
   the Go parser would read ELSE as the CASE operand) *)
Definition wf_top (t : xetop) : Prop := match t with ECase _ [] _ => False | _ => True end.

Theorem parse_print : forall t, wf_top t -> xparse (xprint t) = Some (xelab t).
Proof.
  intros [e|v ws els] Hwf.
  - (* plain expression *)
    simpl. destruct (pr_head 0 e) as (t & ts & Et & _ & _ & Hc & _).
    assert (P := pe0 e [] (xfuel (pr 0 e)) I ltac:(unfold xfuel; lia)).
    rewrite app_nil_r in P. unfold xparse. rewrite Et in *.
    destruct t; try congruence; rewrite P; reflexivity.
  - (* CASE *)
    unfold xprint, xparse.
    set (tv := match v with Some x => pr 0 x | None => [] end).
    set (te := match els with Some x => TElse :: pr 0 x | None => [] end).
    set (whole := TCase :: tv ++ flat_map (fun w => TWhen :: pr 0 (fst w) ++ TThen :: pr 0 (snd w)) ws ++ te ++ [TEnd]).
    change (flat_map (fun w => TWhen :: pr 0 (fst w) ++ TThen :: pr 0 (snd w)) ws) with (flat_map pr_when ws) in *.
    remember (xfuel whole) as pf eqn:Epf.
    assert (Lw : length whole = 1 + length tv + length (flat_map pr_when ws) + length te + 1).
    { unfold whole. simpl. rewrite !app_length. simpl. lia. }
    unfold pcase.
    (* the tail after the WHEN clauses *)
    set (tail := te ++ [TEnd]).
    assert (Htail : match tail with TWhen :: _ => False | [] => True | t :: _ => after_ok t = true /\ tok_level t = None end).
    { unfold tail, te. destruct els; simpl; auto. }
    assert (Hfw : follow 0 (flat_map pr_when ws ++ tail)).
    { destruct ws as [|w ws']; simpl.
      - unfold tail, te. destruct els; simpl; auto.
      - auto. }
    assert (Hws : pwhens (S (length (flat_map pr_when ws ++ tail))) pf [] (flat_map pr_when ws ++ tail) =
                  Some (map (fun w => (elab 0 (fst w), elab 0 (snd w))) ws, tail)).
    { rewrite (pwhens_parse ws pf [] tail); auto.
      - intros w Hw. pose proof (flat_map_len ws w Hw). rewrite Epf; unfold xfuel; lia.
      - rewrite app_length. pose proof (flat_map_ge ws). lia. }
    assert (Hend : match tail with
                   | TElse :: r2 => match pe pf 0 r2 with
                                    | Some (e, [TEnd]) => Some (TopCase (option_map (elab 0) v) (map (fun w => (elab 0 (fst w), elab 0 (snd w))) ws) (Some e))
                                    | _ => None
                                    end
                   | [TEnd] => Some (TopCase (option_map (elab 0) v) (map (fun w => (elab 0 (fst w), elab 0 (snd w))) ws) None)
                   | _ => None
                   end = Some (xelab (ECase v ws els))).
    { unfold tail, te. destruct els as [x|]; simpl.
      - rewrite (pe0 x [TEnd] pf) by (simpl; auto; rewrite Epf; unfold xfuel; rewrite Lw; unfold te; simpl; lia).
        reflexivity.
      - reflexivity. }
    destruct v as [x|]; simpl in tv; subst tv.
    + destruct (pr_head 0 x) as (t & ts & Et & _ & Hw & _).
      assert (P := pe0 x (flat_map pr_when ws ++ tail) pf Hfw ltac:(rewrite Epf; unfold xfuel; lia)).
      unfold whole. simpl.
      rewrite Et in *. simpl app in *.
      destruct t; try congruence; rewrite P; rewrite Hws; exact Hend.
    + unfold whole. simpl app. fold tail.
      assert (HW : exists r, flat_map pr_when ws ++ tail = TWhen :: r).
      { destruct ws as [|w ws']; [contradiction|]. simpl. eexists; reflexivity. }
      destruct HW as (r & Er). rewrite Er in Hws |- *. simpl in Hws |- *.
      rewrite Hws. exact Hend.
Qed.
