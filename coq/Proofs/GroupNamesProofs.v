(* Proofs about the output naming of the grouping columns (Model/GroupNames.v, Spec/GroupNamesSpec.v). *)
From SV Require Import Model.GroupNames Spec.GroupNamesSpec Proofs.GroupKeyProofs.
From Coq Require Import Lia.

(* ---- membership ------------------------------------------------------------------------------ *)
Lemma kn_mem_iff : forall x l, kn_mem x l = true <-> In x l.
Proof.
  induction l as [|y l IH]; simpl.
  - split; [discriminate|tauto].
  - rewrite Bool.orb_true_iff, IH, bytes_eqb_iff. split; intros [H|H]; auto.
Qed.

Lemma kn_mem_false : forall x l, kn_mem x l = false <-> ~ In x l.
Proof.
  intros x l. split.
  - intros H Hin. apply kn_mem_iff in Hin. congruence.
  - intro H. destruct (kn_mem x l) eqn:E; [|reflexivity]. apply kn_mem_iff in E. contradiction.
Qed.

Lemma bytes_eqb_sym : forall a b, bytes_eqb a b = bytes_eqb b a.
Proof.
  intros a b. destruct (bytes_eqb a b) eqn:E1, (bytes_eqb b a) eqn:E2; try reflexivity.
  - apply bytes_eqb_iff in E1. subst. rewrite bytes_eqb_refl in E2. discriminate.
  - apply bytes_eqb_iff in E2. subst. rewrite bytes_eqb_refl in E1. discriminate.
Qed.

(* ---- the names --------------------------------------------------------------------------------- *)
Lemma kn_split_dot_none : forall s, ~ In k_dot s -> kn_split_dot s = None.
Proof.
  induction s as [|c s IH]; intro H; simpl; [reflexivity|].
  destruct (N.eqb c k_dot) eqn:E.
  - apply N.eqb_eq in E. exfalso. apply H. left. exact E.
  - rewrite IH; [reflexivity|]. intro H'. apply H. right. exact H'.
Qed.

Lemma kn_split_dot_app : forall q rest, ~ In k_dot q -> kn_split_dot (q ++ k_dot :: rest) = Some (q, rest).
Proof.
  induction q as [|c q IH]; intros rest H; simpl.
  - reflexivity.
  - destruct (N.eqb c k_dot) eqn:E.
    + apply N.eqb_eq in E. exfalso. apply H. left. exact E.
    + rewrite IH; [reflexivity|]. intro H'. apply H. right. exact H'.
Qed.

(* an AS alias wins *)
Lemma kn_out_alias : forall sel quals gf a, kn_alias sel gf = Some a -> kn_out sel quals gf = a.
Proof. intros sel quals gf a H. unfold kn_out. rewrite H. reflexivity. Qed.

(* a selected item `gf AS a` (the last one with that text) names the column a *)
Lemma kn_alias_last : forall sel gf a,
  a <> [] -> (forall x b, In (x, b) sel -> x <> gf) -> forall pre, kn_alias (pre ++ (gf, a) :: sel) gf = Some a.
Proof.
  intros sel gf a Ha Hsel.
  assert (Hnone : kn_alias sel gf = None).
  { induction sel as [|[x b] sel IH]; simpl; [reflexivity|].
    rewrite IH; [|intros x' b' Hin; apply (Hsel x' b'); right; exact Hin].
    destruct (bytes_eqb x gf) eqn:E; [|reflexivity].
    apply bytes_eqb_iff in E. exfalso. apply (Hsel x b); [left; reflexivity|exact E]. }
  assert (Hhd : kn_alias ((gf, a) :: sel) gf = Some a).
  { simpl. rewrite Hnone, bytes_eqb_refl. destruct a; [contradiction Ha; reflexivity|reflexivity]. }
  induction pre as [|[x b] pre IH]; simpl; [exact Hhd|].
  simpl in IH. rewrite IH. reflexivity.
Qed.

(* without an alias: a qualifier that is the FROM alias or a JOIN alias is dropped, any other name is kept *)
Lemma kn_out_qualified : forall sel quals q rest,
  kn_alias sel (q ++ k_dot :: rest) = None -> q <> [] -> ~ In k_dot q -> In q quals ->
  kn_out sel quals (q ++ k_dot :: rest) = rest.
Proof.
  intros sel quals q rest Hal Hq Hdot Hin. unfold kn_out, kn_strip. rewrite Hal, kn_split_dot_app by exact Hdot.
  destruct q as [|c q]; [contradiction Hq; reflexivity|].
  apply kn_mem_iff in Hin. rewrite Hin. reflexivity.
Qed.

Lemma kn_out_foreign_qualifier : forall sel quals q rest,
  kn_alias sel (q ++ k_dot :: rest) = None -> ~ In k_dot q -> ~ In q quals ->
  kn_out sel quals (q ++ k_dot :: rest) = q ++ k_dot :: rest.
Proof.
  intros sel quals q rest Hal Hdot Hin. unfold kn_out, kn_strip. rewrite Hal, kn_split_dot_app by exact Hdot.
  destruct q as [|c q]; [reflexivity|].
  apply kn_mem_false in Hin. rewrite Hin. reflexivity.
Qed.

Lemma kn_out_plain : forall sel quals gf,
  kn_alias sel gf = None -> ~ In k_dot gf -> kn_out sel quals gf = gf.
Proof.
  intros sel quals gf Hal Hdot. unfold kn_out, kn_strip. rewrite Hal, kn_split_dot_none by exact Hdot. reflexivity.
Qed.

(* ---- rows as association lists ---------------------------------------------------------------- *)
Section Rows.
Context {A : Type}.
Implicit Types (row : list (bytes * A)) (pairs : list (bytes * bytes)).

Lemma kn_get_app : forall n row1 row2,
  kn_get n (row1 ++ row2) = match kn_get n row1 with Some v => Some v | None => kn_get n row2 end.
Proof.
  induction row1 as [|[k v] row1 IH]; intros row2; simpl; [reflexivity|].
  destruct (bytes_eqb n k); [reflexivity|apply IH].
Qed.

Lemma kn_get_del : forall n g row,
  kn_get n (kn_del g row) = if bytes_eqb n g then None else kn_get n row.
Proof.
  unfold kn_del. induction row as [|[k v] row IH]; simpl.
  - destruct (bytes_eqb n g); reflexivity.
  - destruct (bytes_eqb g k) eqn:Egk; simpl.
    + apply bytes_eqb_iff in Egk. subst k. rewrite IH. destruct (bytes_eqb n g); reflexivity.
    + rewrite IH. destruct (bytes_eqb n k) eqn:Enk; [|reflexivity].
      apply bytes_eqb_iff in Enk. subst k. rewrite bytes_eqb_sym, Egk. reflexivity.
Qed.

Lemma kn_get_in : forall n row, kn_get n row <> None <-> In n (map fst row).
Proof.
  induction row as [|[k v] row IH]; simpl.
  - split; [intro H; contradiction H; reflexivity|tauto].
  - destruct (bytes_eqb n k) eqn:E.
    + apply bytes_eqb_iff in E. subst. split; [intros _; left; reflexivity|intros _; discriminate].
    + rewrite IH. apply bytes_eqb_neq in E. split; [intro H; right; exact H|intros [H|H]; [congruence|exact H]].
Qed.

Lemma kn_get_none : forall n row, kn_get n row = None <-> ~ In n (map fst row).
Proof.
  intros n row. split.
  - intros H Hin. apply kn_get_in in Hin. contradiction.
  - intro H. destruct (kn_get n row) eqn:E; [|reflexivity]. exfalso. apply H. apply kn_get_in. congruence.
Qed.

Lemma kn_get_combine : forall names (t : list A) i n,
  NoDup names -> length names = length t -> nth_error names i = Some n ->
  kn_get n (combine names t) = nth_error t i.
Proof.
  induction names as [|m names IH]; intros t i n ND L Hn.
  - destruct i; discriminate Hn.
  - destruct t as [|v t]; [discriminate L|]. simpl in L. injection L as L.
    inversion ND as [|? ? Hnot ND']; subst. simpl.
    destruct i as [|i]; simpl in *.
    + injection Hn as ->. rewrite bytes_eqb_refl. reflexivity.
    + destruct (bytes_eqb n m) eqn:E.
      * apply bytes_eqb_iff in E. subst. exfalso. apply Hnot. eapply nth_error_In. exact Hn.
      * apply IH; auto.
Qed.

Lemma map_fst_combine : forall (l : list bytes) (l' : list A), length l = length l' -> map fst (combine l l') = l.
Proof.
  induction l as [|x l IH]; intros [|y l'] L; simpl in *; try reflexivity; try discriminate.
  f_equal. apply IH. lia.
Qed.

(* one renaming step, in terms of lookups *)
Lemma kn_project1_same : forall g row, kn_project1 g g row = row.
Proof. intros g row. unfold kn_project1. rewrite bytes_eqb_refl. reflexivity. Qed.

Lemma kn_project1_get : forall g o row n v,
  o <> g -> kn_get g row = Some v -> kn_get o row = None ->
  kn_get n (kn_project1 g o row) =
    if bytes_eqb n g then None else if bytes_eqb n o then Some v else kn_get n row.
Proof.
  intros g o row n v Hog Hg Ho. unfold kn_project1.
  apply bytes_eqb_neq in Hog. rewrite Hog, Hg, Ho, kn_get_del.
  destruct (bytes_eqb n g); [reflexivity|].
  rewrite kn_get_app. simpl.
  destruct (bytes_eqb n o) eqn:E.
  - apply bytes_eqb_iff in E. subst n. rewrite Ho. reflexivity.
  - destruct (kn_get n row); reflexivity.
Qed.

(* ---- all columns ---------------------------------------------------------------------------------
   pairs_ok: GROUP BY texts distinct, output names distinct, and an output name never is the GROUP BY
   text of ANOTHER column. *)
Fixpoint pairs_ok pairs : Prop :=
  match pairs with
  | [] => True
  | (g, o) :: rest =>
      (forall g' o', In (g', o') rest -> g' <> g /\ o' <> o /\ o <> g' /\ o' <> g) /\ pairs_ok rest
  end.

Definition row_ready pairs row : Prop :=
  forall g o, In (g, o) pairs -> kn_get g row <> None /\ (o <> g -> kn_get o row = None).

(* the GROUP BY text whose output name is n *)
Fixpoint src_of pairs (n : bytes) : option bytes :=
  match pairs with
  | [] => None
  | (g, o) :: rest => if bytes_eqb n o then Some g else src_of rest n
  end.

Lemma src_of_in : forall pairs n g, src_of pairs n = Some g -> In (g, n) pairs.
Proof.
  induction pairs as [|[g' o'] pairs IH]; intros n g H; simpl in *; [discriminate|].
  destruct (bytes_eqb n o') eqn:E.
  - apply bytes_eqb_iff in E. subst. injection H as ->. left. reflexivity.
  - right. apply IH. exact H.
Qed.

Lemma project_get : forall pairs row n,
  pairs_ok pairs -> row_ready pairs row ->
  kn_get n (kn_project pairs row) =
    match src_of pairs n with
    | Some g => kn_get g row
    | None => if kn_mem n (map fst pairs) then None else kn_get n row
    end.
Proof.
  induction pairs as [|[g o] rest IH]; intros row n Hok Hready.
  - reflexivity.
  - destruct Hok as [Hhd Hok].
    change (kn_project ((g, o) :: rest) row) with (kn_project rest (kn_project1 g o row)).
    assert (Hsrc_o : src_of rest o = None).
    { destruct (src_of rest o) eqn:E; [|reflexivity]. apply src_of_in in E.
      destruct (Hhd _ _ E) as (_ & H & _). contradiction H. reflexivity. }
    assert (Hmem_o : kn_mem o (map fst rest) = false).
    { apply kn_mem_false. intro Hin. apply in_map_iff in Hin. destruct Hin as [[g' o'] [Hfst Hin]].
      simpl in Hfst. subst g'. destruct (Hhd _ _ Hin) as (_ & _ & H & _). contradiction H. reflexivity. }
    assert (Hmem_g : kn_mem g (map fst rest) = false).
    { apply kn_mem_false. intro Hin. apply in_map_iff in Hin. destruct Hin as [[g' o'] [Hfst Hin]].
      simpl in Hfst. subst g'. destruct (Hhd _ _ Hin) as (H & _). contradiction H. reflexivity. }
    assert (Hsrc_g : o <> g -> src_of rest g = None).
    { intros _. destruct (src_of rest g) eqn:E; [|reflexivity]. apply src_of_in in E.
      destruct (Hhd _ _ E) as (_ & _ & _ & H). contradiction H. reflexivity. }
    destruct (bytes_eqb o g) eqn:Eog.
    + (* the column keeps its name *)
      apply bytes_eqb_iff in Eog. subst o. rewrite kn_project1_same.
      rewrite IH; [|exact Hok|intros g' o' Hin; apply Hready; right; exact Hin].
      simpl. destruct (bytes_eqb n g) eqn:Eng.
      * apply bytes_eqb_iff in Eng. subst n. rewrite Hsrc_o, Hmem_o. reflexivity.
      * reflexivity.
    + (* renamed *)
      apply bytes_eqb_neq in Eog.
      destruct (Hready g o (or_introl eq_refl)) as [Hg Ho]. specialize (Ho Eog).
      destruct (kn_get g row) as [v|] eqn:Egv; [clear Hg|contradiction Hg; reflexivity].
      assert (Hget : forall m, kn_get m (kn_project1 g o row) =
                       if bytes_eqb m g then None else if bytes_eqb m o then Some v else kn_get m row).
      { intro m. apply kn_project1_get; assumption. }
      assert (Hkeep : forall m, m <> g -> m <> o -> kn_get m (kn_project1 g o row) = kn_get m row).
      { intros m Hmg Hmo. rewrite Hget. apply bytes_eqb_neq in Hmg, Hmo. rewrite Hmg, Hmo. reflexivity. }
      rewrite IH; [|exact Hok|].
      * simpl. destruct (bytes_eqb n o) eqn:Eno.
        -- apply bytes_eqb_iff in Eno. subst n. rewrite Hsrc_o, Hmem_o, Hget.
           apply bytes_eqb_neq in Eog. rewrite Eog, bytes_eqb_refl, Egv. reflexivity.
        -- apply bytes_eqb_neq in Eno. destruct (src_of rest n) as [g'|] eqn:Esrc.
           ++ apply src_of_in in Esrc. destruct (Hhd _ _ Esrc) as (H1 & _ & H3 & _).
              apply Hkeep; [exact H1|intro H; apply H3; symmetry; exact H].
           ++ destruct (bytes_eqb n g) eqn:Eng.
              ** apply bytes_eqb_iff in Eng. subst n. simpl. rewrite Hmem_g, Hget, bytes_eqb_refl. reflexivity.
              ** simpl. destruct (kn_mem n (map fst rest)); [reflexivity|].
                 apply bytes_eqb_neq in Eng. apply Hkeep; assumption.
      * intros g' o' Hin. destruct (Hhd _ _ Hin) as (H1 & H2 & H3 & H4).
        destruct (Hready g' o' (or_intror Hin)) as [Hg' Ho'].
        split.
        -- rewrite Hkeep; [exact Hg'|exact H1|intro H; apply H3; symmetry; exact H].
        -- intro Hne. rewrite Hkeep; [apply Ho'; exact Hne|exact H4|exact H2].
Qed.

Lemma pairs_ok_of : forall pairs,
  NoDup (map fst pairs) -> NoDup (map snd pairs) ->
  (forall g o, In (g, o) pairs -> In o (map fst pairs) -> o = g) ->
  pairs_ok pairs.
Proof.
  induction pairs as [|[g o] rest IH]; intros ND1 ND2 Hx; simpl; [exact I|].
  simpl in ND1, ND2. inversion ND1 as [|? ? Hn1 ND1']; subst. inversion ND2 as [|? ? Hn2 ND2']; subst.
  split.
  - intros g' o' Hin.
    assert (Hg' : In g' (map fst rest)) by (apply in_map_iff; exists (g', o'); split; [reflexivity|exact Hin]).
    assert (Ho' : In o' (map snd rest)) by (apply in_map_iff; exists (g', o'); split; [reflexivity|exact Hin]).
    repeat split.
    + intro H. subst g'. apply Hn1. exact Hg'.
    + intro H. subst o'. apply Hn2. exact Ho'.
    + intro H. subst g'.
      assert (o = g) by (apply Hx; [left; reflexivity|simpl; right; exact Hg']). subst o. apply Hn1. exact Hg'.
    + intro H. subst o'.
      assert (g = g') by (apply Hx; [right; exact Hin|simpl; left; reflexivity]). subst g'. apply Hn1. exact Hg'.
  - apply IH; [exact ND1'|exact ND2'|].
    intros g' o' Hin Hino. apply Hx; [right; exact Hin|simpl; right; exact Hino].
Qed.

Lemma src_of_combine : forall gfs outs i o,
  NoDup outs -> length outs = length gfs -> nth_error outs i = Some o ->
  src_of (combine gfs outs) o = nth_error gfs i.
Proof.
  induction gfs as [|g gfs IH]; intros outs i o ND L Hn.
  - destruct outs; [destruct i; discriminate Hn|discriminate L].
  - destruct outs as [|o' outs]; [discriminate L|]. simpl in L. injection L as L.
    inversion ND as [|? ? Hnot ND']; subst. simpl.
    destruct i as [|i]; simpl in *.
    + injection Hn as ->. rewrite bytes_eqb_refl. reflexivity.
    + destruct (bytes_eqb o o') eqn:E.
      * apply bytes_eqb_iff in E. subst. exfalso. apply Hnot. eapply nth_error_In. exact Hn.
      * apply IH; auto.
Qed.

(* the conditions under which the renaming is faithful: compileOutputNames guarantees the second and
   the output-name half of the fourth; the other two are NOT checked by the code (see the refutation) *)
Definition kn_compatible (gfs outs aggs : list bytes) : Prop :=
  length outs = length gfs
  /\ NoDup gfs /\ NoDup outs
  /\ (forall g o, In (g, o) (combine gfs outs) -> In o gfs -> o = g)
  /\ (forall a, In a aggs -> ~ In a gfs /\ ~ In a outs).

Theorem project_correct : forall gfs outs (t : list A) aggs,
  kn_compatible gfs outs (map fst aggs) -> length t = length gfs ->
  let row := kn_result gfs outs t aggs in
  (forall i o, nth_error outs i = Some o -> kn_get o row = nth_error t i)
  /\ (forall a, In a (map fst aggs) -> kn_get a row = kn_get a aggs)
  /\ (forall n, kn_get n row <> None -> In n outs \/ In n (map fst aggs)).
Proof.
  intros gfs outs t aggs (L & NDg & NDo & Hx & Hagg) Lt row.
  assert (Hfst : map fst (combine gfs outs) = gfs).
  { clear - L. revert outs L. induction gfs as [|g gfs IH]; intros [|o outs] L; simpl in *; try reflexivity; try discriminate.
    f_equal. apply IH. lia. }
  assert (Hsnd : map snd (combine gfs outs) = outs).
  { clear - L. revert outs L. induction gfs as [|g gfs IH]; intros [|o outs] L; simpl in *; try reflexivity; try discriminate.
    f_equal. apply IH. lia. }
  assert (Hok : pairs_ok (combine gfs outs)).
  { apply pairs_ok_of; rewrite ?Hfst, ?Hsnd; assumption. }
  assert (Hrawg : forall i g, nth_error gfs i = Some g -> kn_get g (kn_raw gfs t aggs) = nth_error t i).
  { intros i g Hi. unfold kn_raw. rewrite kn_get_app.
    rewrite (kn_get_combine gfs t i g NDg (eq_sym Lt) Hi).
    destruct (nth_error t i) eqn:E; [reflexivity|].
    apply nth_error_None in E. assert (i < length gfs) by (apply nth_error_Some; congruence). lia. }
  assert (Hrawother : forall n, ~ In n gfs -> kn_get n (kn_raw gfs t aggs) = kn_get n aggs).
  { intros n Hn. unfold kn_raw. rewrite kn_get_app.
    assert (kn_get n (combine gfs t) = None) as ->; [|reflexivity].
    apply kn_get_none. rewrite map_fst_combine by (symmetry; exact Lt). exact Hn. }
  assert (Hready : row_ready (combine gfs outs) (kn_raw gfs t aggs)).
  { intros g o Hin. split.
    - apply in_combine_l in Hin as Hg. apply In_nth_error in Hg. destruct Hg as [i Hi].
      rewrite (Hrawg i g Hi). intro E. apply nth_error_None in E.
      assert (i < length gfs) by (apply nth_error_Some; congruence). lia.
    - intro Hne. assert (Hnot : ~ In o gfs) by (intro Ho; apply Hne; apply Hx; assumption).
      rewrite Hrawother by exact Hnot. apply kn_get_none. intro Ha.
      destruct (Hagg o Ha) as [_ H]. apply H. eapply in_combine_r. exact Hin. }
  assert (Hget : forall n, kn_get n row =
                   match src_of (combine gfs outs) n with
                   | Some g => kn_get g (kn_raw gfs t aggs)
                   | None => if kn_mem n gfs then None else kn_get n (kn_raw gfs t aggs)
                   end).
  { intro n. unfold row, kn_result. rewrite project_get by assumption. rewrite Hfst. reflexivity. }
  split; [|split].
  - intros i o Hi. rewrite Hget, (src_of_combine gfs outs i o NDo L Hi).
    destruct (nth_error gfs i) as [g|] eqn:Eg.
    + apply Hrawg. exact Eg.
    + apply nth_error_None in Eg. assert (i < length outs) by (apply nth_error_Some; congruence). lia.
  - intros a Ha. destruct (Hagg a Ha) as [Hag Hao]. rewrite Hget.
    destruct (src_of (combine gfs outs) a) eqn:E.
    + apply src_of_in in E. apply in_combine_r in E. contradiction.
    + apply kn_mem_false in Hag. rewrite Hag. apply Hrawother. apply kn_mem_false. exact Hag.
  - intros n Hn. rewrite Hget in Hn.
    destruct (src_of (combine gfs outs) n) eqn:E.
    + left. apply src_of_in in E. eapply in_combine_r. exact E.
    + destruct (kn_mem n gfs) eqn:Em; [contradiction Hn; reflexivity|].
      apply kn_mem_false in Em. rewrite Hrawother in Hn by exact Em.
      right. apply kn_get_in. exact Hn.
Qed.

(* ... so every emitted row passes the executable name-set checker, whatever the values *)
Theorem project_passes_checker : forall gfs outs (t : list A) aggs sys,
  kn_compatible gfs outs (map fst aggs) -> length t = length gfs ->
  chk_row_names outs (map fst aggs) sys (map fst (kn_result gfs outs t aggs)) = None.
Proof.
  intros gfs outs t aggs sys Hc Lt.
  destruct (project_correct gfs outs t aggs Hc Lt) as (H1 & H2 & H3).
  destruct Hc as (L & _).
  unfold chk_row_names.
  assert (Ha : forallb (fun o => kn_mem o (map fst (kn_result gfs outs t aggs))) (outs ++ map fst aggs) = true).
  { apply forallb_forall. intros n Hn. apply kn_mem_iff. apply kn_get_in.
    apply in_app_or in Hn. destruct Hn as [Hn|Hn].
    - apply In_nth_error in Hn. destruct Hn as [i Hi]. rewrite (H1 i n Hi). intro E.
      apply nth_error_None in E. assert (i < length outs) by (apply nth_error_Some; congruence). lia.
    - rewrite (H2 n Hn). apply kn_get_in. exact Hn. }
  rewrite Ha. simpl.
  assert (Hb : forallb (fun n => kn_mem n outs || kn_mem n (map fst aggs) || kn_mem n sys)
                       (map fst (kn_result gfs outs t aggs)) = true).
  { apply forallb_forall. intros n Hn. apply kn_get_in in Hn. destruct (H3 n Hn) as [H|H].
    - apply kn_mem_iff in H. rewrite H. reflexivity.
    - apply kn_mem_iff in H. rewrite H, Bool.orb_true_r. reflexivity. }
  rewrite Hb. reflexivity.
Qed.

End Rows.

(* ---- the conditions are needed (finding): an alias that is the GROUP BY text of ANOTHER column.
   SELECT k1 AS k2, k2 AS z ... GROUP BY k1, k2: the raw row {k1: v1, k2: v2}; column 1: row["k2"] exists,
   so v1 is not stored and k1 is deleted; column 2: z := row["k2"] = v2, k2 deleted. The row reaches the
   sink as {z: v2}: the value of the first grouping column is lost and its name is missing. *)
Lemma alias_onto_group_column_refuted :
  exists gfs outs (t : list kvalue),
    length outs = length gfs /\ length t = length gfs /\ NoDup gfs /\ NoDup outs
    /\ chk_row_names outs [] [] (map fst (kn_result gfs outs t [])) = Some NColumnMissing
    /\ kn_tuple outs (kn_result gfs outs t []) = [None; nth_error t 1].
Proof.
  exists [[107; 49]; [107; 50]]%N, [[107; 50]; [122]]%N, [KInt 1; KInt 2].
  repeat split.
  - repeat constructor; simpl; intuition discriminate.
  - repeat constructor; simpl; intuition discriminate.
Qed.
