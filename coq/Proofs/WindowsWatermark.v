(* C02 for the sliding and the session window: the watermark discipline proved for the tumbling
   window (Proofs/TumblingWatermark.v) carries over, because the three windows share Model/Watermark.v. *)
From Coq Require Import Lia Arith.
From SV Require Import Model.Session Model.Tumbling Model.Sliding
     Proofs.SessionProofs Proofs.TumblingProofs Proofs.TumblingComplete Proofs.TumblingWatermark Proofs.SlidingComplete.

Definition cfg_of_ooo (o : Z) : cfg := {| size := 1; ooo := o; lateness := 0; idle := 0 |}.

(* ---------------- sliding ---------------- *)
Section SlidingOrigin.
  Variable c : scfg.
  Variable O : Z -> Prop.
  Let c0 := cfg_of_ooo (sooo c).

  Definition SInvO (s : sst) : Prop :=
    oall O (cur (s_w s)) /\ Forall O (chan (s_w s)) /\ oall O (s_pend s) /\
    (forall m, maxEv (s_w s) = Some m -> O (m - sooo c)).

  Definition sop_orig (o : op) : Prop :=
    match o with Add _ ts now => (now + sooo c + day <? ts) = false -> O (ts - sooo c) | _ => True end.

  Lemma sstep_O s o s' evs :
    SInvO s -> sop_orig o -> sstep c s o = (s', evs) ->
    SInvO s' /\ (forall x, In (EvDB x) evs -> O x) /\
    (forall b, In (EvBatch b) evs -> b_late b = false -> exists x, O x /\ b_end b <= x).
  Proof.
    intros (Hc & Hch & Hp & Hm) Hop. destruct o as [id ts now|id| | |now]; cbn [sstep].
    - unfold sadd. destruct (sadd_core c id ts now s) as [s1 bs] eqn:E. intros [= <- <-].
      destruct (uet_O c0 O now ts (s_w s) Hop Hc Hch Hm) as (A & B & C).
      destruct (sadd_core_shape c _ _ _ _ _ _ E) as (_ & Sw & Sp & _ & _ & _ & Sl).
      split; [|split].
      + unfold SInvO. rewrite Sw, Sp. auto.
      + intros x [H|H]; [discriminate|]. apply in_map_iff in H as [b [Hb _]]. discriminate.
      + intros b [H|H]; [discriminate|]. apply in_map_iff in H as [b' [Hb Hin]]. inversion Hb; subst b'.
        rewrite Forall_forall in Sl. rewrite (Sl b Hin). discriminate.
    - intros [= <- <-]. split; [unfold SInvO; auto|]. split; [intros x [H|[]]; discriminate|intros b [H|[]]; discriminate].
    - destruct (s_pend s) eqn:Ep.
      + intros [= <- <-]. split; [unfold SInvO; rewrite Ep; auto|]. split; [intros x []|intros b []].
      + unfold pop_chan. destruct (chan (s_w s)) as [|y r] eqn:Ec; intros [= <- <-].
        * split; [unfold SInvO; rewrite Ep, Ec; auto|]. split; [intros x [H|[]]; discriminate|intros b [H|[]]; discriminate].
        * inversion Hch; subst. split; [unfold SInvO; cbn; auto|]. split.
          -- intros x [H|[]]. inversion H; subst. assumption.
          -- intros b [H|[]]; discriminate.
    - unfold sfire_step. destruct (s_pend s) as [wmk|] eqn:Ep.
      2:{ intros [= <- <-]. split; [unfold SInvO; rewrite Ep; auto|]. split; [intros x []|intros b []]. }
      destruct (s_init s); cbn [negb].
      2:{ intros [= <- <-]. split; [unfold SInvO; cbn; auto|]. split; [intros x [H|[]]; discriminate|intros b [H|[]]; discriminate]. }
      destruct (omin_list _) as [a|].
      2:{ intros [= <- <-]. split; [unfold SInvO, sclose_expired; cbn; auto|]. split; [intros x [H|[]]; discriminate|intros b [H|[]]; discriminate]. }
      destruct (a + ssize c <=? wmk) eqn:Ea.
      2:{ intros [= <- <-]. split; [unfold SInvO, sclose_expired; cbn; auto|]. split; [intros x [H|[]]; discriminate|intros b [H|[]]; discriminate]. }
      intros [= <- <-]. split; [unfold SInvO; cbn; auto|]. split; [intros x [H|[]]; discriminate|].
      intros b [H|[]] _. inversion H; subst b. cbn. exists wmk. split; [exact Hp|apply Z.leb_le, Ea].
    - intros [= <- <-]. split; [|split; [intros x [H|[]]; discriminate|intros b [H|[]]; discriminate]].
      destruct (tick_O c0 O now (s_w s) Hc Hch Hm) as (A & B & C). unfold SInvO. cbn. auto.
  Qed.

  Lemma srun_O h : forall s s' tr,
    SInvO s -> Forall sop_orig h -> srun c s h = (s', tr) ->
    (forall x, In (EvDB x) tr -> O x) /\
    (forall b, In (EvBatch b) tr -> b_late b = false -> exists x, O x /\ b_end b <= x).
  Proof.
    induction h as [|o rest IH]; intros s s' tr Hinv Hh; cbn [srun].
    - intros [= <- <-]. split; [intros x []|intros b []].
    - destruct (sstep c s o) as [s1 e1] eqn:E1. destruct (srun c s1 rest) as [s2 e2] eqn:E2. intros [= <- <-].
      inversion Hh; subst. destruct (sstep_O _ _ _ _ Hinv H1 E1) as (Hi1 & Hd1 & Hb1).
      destruct (IH _ _ _ Hi1 H2 E2) as (Hd2 & Hb2). split.
      + intros x Hx. apply in_app_or in Hx as [Hx|Hx]; auto.
      + intros b Hb Hl. apply in_app_or in Hb as [Hb|Hb]; auto.
  Qed.
End SlidingOrigin.

Definition saccepted_wm (c : scfg) (h : list op) (x : Z) : Prop :=
  exists id ts now, In (Add id ts now) h /\ (now + sooo c + day <? ts) = false /\ x = ts - sooo c.

Theorem sliding_no_early_fire c h s tr :
  srun c sst0 h = (s, tr) ->
  (forall x, In (EvDB x) tr -> saccepted_wm c h x) /\
  (forall b, In (EvBatch b) tr -> b_late b = false ->
     exists id ts now, In (Add id ts now) h /\ (now + sooo c + day <? ts) = false /\ b_end b + sooo c <= ts).
Proof.
  intros Hrun.
  assert (Hops: Forall (sop_orig c (saccepted_wm c h)) h).
  { apply Forall_forall. intros o Ho. destruct o as [id ts now| | | |]; cbn; auto.
    intros Hs. exists id, ts, now. auto. }
  assert (Hinv: SInvO c (saccepted_wm c h) sst0).
  { unfold SInvO. cbn. repeat split; auto. discriminate. }
  destruct (srun_O c _ h _ _ _ Hinv Hops Hrun) as [A B]. split; [exact A|].
  intros b Hb Hl. destruct (B b Hb Hl) as [x [[id [ts [now [H1 [H2 ->]]]]] Hle]].
  exists id, ts, now. repeat split; auto. lia.
Qed.

(* ---------------- session ---------------- *)
Section SessionOrigin.
  Variable c : ncfg.
  Variable O : Z -> Prop.
  Let c0 := cfg_of_ooo (nooo c).

  Definition NInvO (s : nst) : Prop :=
    oall O (cur (n_w s)) /\ Forall O (chan (n_w s)) /\ oall O (n_pend s) /\
    (forall m, maxEv (n_w s) = Some m -> O (m - nooo c)).

  Definition nop_orig (o : nop) : Prop :=
    match o with NAdd _ ts _ now => (now + nooo c + day <? ts) = false -> O (ts - nooo c) | _ => True end.

  Lemma nadd_w id ts key now s s' evs :
    nadd c id ts key now s = (s', evs) ->
    n_w s' = update_event_time (nooo c) now ts (n_w s) /\ n_pend s' = n_pend s.
  Proof.
    unfold nadd. destruct (now + nooo c + day <? ts); [intros [= <- <-]; cbn; auto|].
    destruct (is_late ts _); [|intros [= <- <-]; cbn; auto].
    destruct (0 <? nlateness c); [|intros [= <- <-]; cbn; auto].
    destruct (lookup key (n_trig s)) as [t|]; [|intros [= <- <-]; cbn; auto].
    destruct (in_sess _ ts); intros [= <- <-]; cbn; auto.
  Qed.

  Lemma nadd_no_db id ts key now s s' evs :
    nadd c id ts key now s = (s', evs) -> forall x, ~ In (SvDB x) evs.
  Proof.
    unfold nadd. destruct (now + nooo c + day <? ts); [intros [= <- <-] x [H|[]]; discriminate|].
    destruct (is_late ts _); [|intros [= <- <-] x [H|[]]; discriminate].
    destruct (0 <? nlateness c); [|intros [= <- <-] x [H|[]]; discriminate].
    destruct (lookup key (n_trig s)) as [t|]; [|intros [= <- <-] x [H|[]]; discriminate].
    destruct (in_sess _ ts); intros [= <- <-] x; [intros [H|[H|[]]]; discriminate|intros [H|[]]; discriminate].
  Qed.

  (* a session is delivered by the expiry step only under a received watermark >= its end *)
  Lemma nstep_O s o s' evs :
    NInvO s -> nop_orig o -> nstep c s o = (s', evs) ->
    NInvO s' /\ (forall x, In (SvDB x) evs -> O x) /\
    (o = NFire -> forall k st en rows, In (SvBatch k st en rows) evs -> exists x, O x /\ en <= x).
  Proof.
    intros (Hc & Hch & Hp & Hm) Hop. destruct o as [id ts key now|id| | |now]; cbn [nstep].
    - intros E. destruct (nadd_w _ _ _ _ _ _ _ E) as [Sw Sp].
      destruct (uet_O c0 O now ts (n_w s) Hop Hc Hch Hm) as (A & B & C).
      split; [unfold NInvO; rewrite Sw, Sp; auto|]. split; [|discriminate].
      intros x Hx. destruct (nadd_no_db _ _ _ _ _ _ _ E x Hx).
    - intros [= <- <-]. split; [unfold NInvO; auto|]. split; [intros x [H|[]]; discriminate|discriminate].
    - destruct (n_pend s) eqn:Ep.
      + intros [= <- <-]. split; [unfold NInvO; rewrite Ep; auto|]. split; [intros x []|discriminate].
      + unfold pop_chan. destruct (chan (n_w s)) as [|y r] eqn:Ec; intros [= <- <-].
        * split; [unfold NInvO; rewrite Ep, Ec; auto|]. split; [intros x [H|[]]; discriminate|discriminate].
        * inversion Hch; subst. split; [unfold NInvO; cbn; auto|]. split; [|discriminate].
          intros x [H|[]]. inversion H; subst. assumption.
    - unfold nfire. destruct (n_pend s) as [wmk|] eqn:Ep.
      2:{ intros [= <- <-]. split; [unfold NInvO; rewrite Ep; auto|]. split; [intros x []|intros _ k st en rows []]. }
      intros [= <- <-]. split; [unfold NInvO; cbn; auto|]. split.
      + intros x Hx. apply in_app_or in Hx as [Hx|[H|[]]]; [|discriminate].
        apply in_map_iff in Hx as [kv [Hkv _]]. discriminate.
      + intros _ k st en rows Hin. apply in_app_or in Hin as [Hin|[H|[]]]; [|discriminate].
        apply in_map_iff in Hin as [[k' se] [Heq Hin]]. cbn in Heq. inversion Heq; subst.
        apply ksort_in, filter_In in Hin as [_ Hexp]. cbn in Hexp. exists wmk. split; [exact Hp|apply Z.leb_le, Hexp].
    - intros [= <- <-]. split; [|split; [intros x [H|[]]; discriminate|discriminate]].
      destruct (tick_O c0 O now (n_w s) Hc Hch Hm) as (A & B & C). unfold NInvO. cbn. auto.
  Qed.
End SessionOrigin.

Definition naccepted_wm (c : ncfg) (h : list nop) (x : Z) : Prop :=
  exists id ts key now, In (NAdd id ts key now) h /\ (now + nooo c + day <? ts) = false /\ x = ts - nooo c.

Lemma nrun_O c O h : forall s s' tr,
  NInvO c O s -> Forall (nop_orig c O) h -> nrun c s h = (s', tr) ->
  NInvO c O s' /\ (forall x, In (SvDB x) tr -> O x).
Proof.
  induction h as [|o rest IH]; intros s s' tr Hinv Hh; cbn [nrun].
  - intros [= <- <-]. split; [exact Hinv|intros x []].
  - destruct (nstep c s o) as [s1 e1] eqn:E1. destruct (nrun c s1 rest) as [s2 e2] eqn:E2. intros [= <- <-].
    inversion Hh; subst. destruct (nstep_O c O _ _ _ _ Hinv H1 E1) as (Hi1 & Hd1 & _).
    destruct (IH _ _ _ Hi1 H2 E2) as (Hi2 & Hd2). split; [exact Hi2|].
    intros x Hx. apply in_app_or in Hx as [Hx|Hx]; auto.
Qed.

(* session window: every watermark received is (an accepted event's timestamp) - ooo, and the expiry
   step that handles watermark w delivers only sessions with end <= w, in every reachable state *)
Theorem session_no_early_delivery c h s tr :
  nrun c nst0 h = (s, tr) ->
  (forall x, In (SvDB x) tr -> naccepted_wm c h x) /\
  (forall s' evs k st en rows, nstep c s NFire = (s', evs) -> In (SvBatch k st en rows) evs ->
     exists id ts key now, In (NAdd id ts key now) h /\ (now + nooo c + day <? ts) = false /\ en + nooo c <= ts).
Proof.
  intros Hrun.
  assert (Hops: Forall (nop_orig c (naccepted_wm c h)) h).
  { apply Forall_forall. intros o Ho. destruct o as [id ts key now| | | |]; cbn; auto.
    intros Hs. exists id, ts, key, now. auto. }
  assert (Hinv: NInvO c (naccepted_wm c h) nst0).
  { unfold NInvO. cbn. repeat split; auto. discriminate. }
  destruct (nrun_O c _ h _ _ _ Hinv Hops Hrun) as [Hi A]. split; [exact A|].
  intros s' evs k st en rows E Hin.
  destruct (nstep_O c _ s NFire s' evs Hi I E) as (_ & _ & B).
  destruct (B eq_refl k st en rows Hin) as [x [[id [ts [key [now [H1 [H2 ->]]]]]] Hle]].
  exists id, ts, key, now. repeat split; auto. lia.
Qed.
