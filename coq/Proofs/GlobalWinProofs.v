(* C17: the code-level model of the global window (running aggregator states, predicate rewritten to
   placeholders, placeholders bound to SELECT aggregates or to trigger-only aggregators, purge on
   fire) refines the reference semantics that buffers the raw rows of each group, for every
   configuration, every binding and every row sequence; the statements of the property are then
   derived from the reference semantics. *)
From SV Require Import Spec.GlobalWinSpec.
From Coq Require Import Lia.

(* ------------------------------------------------------------------ keys, maps *)
Lemma gw_key_eqb_eq : forall a b, gw_key_eqb a b = true <-> a = b.
Proof.
  induction a as [|x a IH]; destruct b as [|y b]; simpl; split; intro H;
    try reflexivity; try discriminate.
  - apply andb_true_iff in H. destruct H as [H1 H2].
    apply N.eqb_eq in H1. apply IH in H2. subst. reflexivity.
  - inversion H; subst. apply andb_true_iff. split.
    + apply N.eqb_refl.
    + apply IH. reflexivity.
Qed.

Lemma gw_key_eqb_refl : forall a, gw_key_eqb a a = true.
Proof. intro a. apply gw_key_eqb_eq. reflexivity. Qed.

Lemma gw_key_eqb_sym : forall a b, gw_key_eqb a b = gw_key_eqb b a.
Proof.
  intros a b. destruct (gw_key_eqb a b) eqn:E1; destruct (gw_key_eqb b a) eqn:E2; auto.
  - apply gw_key_eqb_eq in E1. subst. rewrite gw_key_eqb_refl in E2. discriminate.
  - apply gw_key_eqb_eq in E2. subst. rewrite gw_key_eqb_refl in E1. discriminate.
Qed.

Lemma gw_find_remove_same : forall k st, gw_find k (gw_remove k st) = None.
Proof.
  induction st as [|[k' g] t IH]; simpl; auto.
  destruct (gw_key_eqb k' k) eqn:E; simpl; auto. rewrite E. auto.
Qed.

Lemma gw_find_remove_other : forall k k2 st, gw_key_eqb k k2 = false ->
  gw_find k2 (gw_remove k st) = gw_find k2 st.
Proof.
  intros k k2 st H. induction st as [|[k' g] t IH]; simpl; auto.
  destruct (gw_key_eqb k' k) eqn:E; simpl.
  - apply gw_key_eqb_eq in E. subst k'. rewrite H. exact IH.
  - destruct (gw_key_eqb k' k2); auto.
Qed.

Lemma gw_seg_find_remove_same : forall k s, gw_seg_find k (gw_seg_remove k s) = [].
Proof.
  induction s as [|[k' l] t IH]; simpl; auto.
  destruct (gw_key_eqb k' k) eqn:E; simpl; auto. rewrite E. auto.
Qed.

Lemma gw_seg_find_remove_other : forall k k2 s, gw_key_eqb k k2 = false ->
  gw_seg_find k2 (gw_seg_remove k s) = gw_seg_find k2 s.
Proof.
  intros k k2 s H. induction s as [|[k' l] t IH]; simpl; auto.
  destruct (gw_key_eqb k' k) eqn:E; simpl.
  - apply gw_key_eqb_eq in E. subst k'. rewrite H. exact IH.
  - destruct (gw_key_eqb k' k2); auto.
Qed.

Lemma gw_seg_find_put_same : forall k l s, gw_seg_find k (gw_seg_put k l s) = l.
Proof. intros. unfold gw_seg_put. simpl. rewrite gw_key_eqb_refl. reflexivity. Qed.

Lemma gw_seg_find_put_other : forall k k2 l s, gw_key_eqb k k2 = false ->
  gw_seg_find k2 (gw_seg_put k l s) = gw_seg_find k2 s.
Proof.
  intros. unfold gw_seg_put. simpl. rewrite H. apply gw_seg_find_remove_other. exact H.
Qed.

(* ------------------------------------------------------------------ aggregate references *)
Lemma gw_ref_eqb_eq : forall a b, gw_ref_eqb a b = true -> a = b.
Proof.
  intros [f1 l1] [f2 l2]. unfold gw_ref_eqb. simpl. intro H.
  apply andb_true_iff in H. destruct H as [H1 H2].
  assert (Hf : f1 = f2) by (destruct f1, f2; simpl in H1; congruence).
  assert (Hl : l1 = l2).
  { destruct l1 as [x|], l2 as [y|]; simpl in H2; try discriminate; auto.
    apply Nat.eqb_eq in H2. subst. reflexivity. }
  subst. reflexivity.
Qed.

Lemma gw_ref_eqb_refl : forall a, gw_ref_eqb a a = true.
Proof.
  intros [f l]. unfold gw_ref_eqb. simpl. apply andb_true_iff. split.
  - destruct f; reflexivity.
  - destruct l as [x|]; simpl; auto. apply Nat.eqb_refl.
Qed.

Lemma gw_tspecs_from_nth : forall outs calls bind i t,
  nth_error (gw_tspecs_from outs calls bind) i = Some t ->
  nth_error calls i = Some (fst t) /\
  (snd t = None -> nth_error (gw_eff_calls outs calls bind) i = Some (fst t)) /\
  (forall j, snd t = Some j ->
     exists o, nth_error outs j = Some o /\ nth_error (gw_eff_calls outs calls bind) i = Some o).
Proof.
  induction calls as [|a calls IH]; simpl; intros bind i t H; destruct i; simpl in *; try discriminate.
  - inversion H; subst; simpl. split; [reflexivity|]. unfold gw_bound, gw_eff_call.
    destruct (hd None bind) as [j0|]; [destruct (nth_error outs j0) as [o|] eqn:E|].
    + split; [discriminate|]. intros j Hj. inversion Hj; subst. exists o. split; [exact E | reflexivity].
    + split; [reflexivity | discriminate].
    + split; [reflexivity | discriminate].
  - eapply IH. exact H.
Qed.

Lemma gw_tspecs_from_length : forall outs calls bind,
  length (gw_tspecs_from outs calls bind) = length calls.
Proof. induction calls; simpl; intros; auto. Qed.

Lemma gw_eff_calls_length : forall outs calls bind,
  length (gw_eff_calls outs calls bind) = length calls.
Proof. induction calls; simpl; intros; auto. Qed.

(* ------------------------------------------------------------------ the predicate as bound *)
Lemma gw_calls_subst_length : forall p l, length (gw_calls (gw_subst p l)) = length (gw_calls p).
Proof.
  induction p as [a c lit | p1 IH1 p2 IH2 | p1 IH1 p2 IH2]; simpl; intros l; auto;
    rewrite !app_length, IH1, IH2; reflexivity.
Qed.

Lemma gw_rewrite_subst : forall p l n, gw_rewrite (gw_subst p l) n = gw_rewrite p n.
Proof.
  induction p as [a c lit | p1 IH1 p2 IH2 | p1 IH1 p2 IH2]; simpl; intros l n; auto;
    rewrite IH1, IH2, gw_calls_subst_length; reflexivity.
Qed.

Lemma gw_firstn_skipn_firstn : forall (A : Type) n m (l : list A),
  firstn n l ++ firstn m (skipn n l) = firstn (n + m) l.
Proof.
  induction n as [|n IH]; intros m l; simpl; auto.
  destruct l as [|x t]; simpl.
  - rewrite firstn_nil. reflexivity.
  - rewrite IH. reflexivity.
Qed.

Lemma gw_calls_subst_firstn : forall p l, (length (gw_calls p) <= length l)%nat ->
  gw_calls (gw_subst p l) = firstn (length (gw_calls p)) l.
Proof.
  induction p as [a c lit | p1 IH1 p2 IH2 | p1 IH1 p2 IH2]; simpl; intros l H.
  - destruct l as [|x t]; simpl in *; [lia | reflexivity].
  - rewrite app_length in *. rewrite IH1 by lia. rewrite IH2 by (rewrite skipn_length; lia).
    apply gw_firstn_skipn_firstn.
  - rewrite app_length in *. rewrite IH1 by lia. rewrite IH2 by (rewrite skipn_length; lia).
    apply gw_firstn_skipn_firstn.
Qed.

Lemma gw_calls_subst : forall p l, length l = length (gw_calls p) -> gw_calls (gw_subst p l) = l.
Proof.
  intros p l H. rewrite gw_calls_subst_firstn by lia. rewrite <- H. apply firstn_all.
Qed.

Lemma gw_skipn_app_length : forall (A : Type) (a b : list A), skipn (length a) (a ++ b) = b.
Proof. induction a as [|x t IH]; simpl; intros; auto. Qed.

Lemma gw_subst_same_app : forall p l, gw_subst p (gw_calls p ++ l) = p.
Proof.
  induction p as [a c lit | p1 IH1 p2 IH2 | p1 IH1 p2 IH2]; simpl; intros l; auto.
  - rewrite <- app_assoc. rewrite IH1. rewrite gw_skipn_app_length. rewrite IH2. reflexivity.
  - rewrite <- app_assoc. rewrite IH1. rewrite gw_skipn_app_length. rewrite IH2. reflexivity.
Qed.

Lemma gw_subst_same : forall p, gw_subst p (gw_calls p) = p.
Proof. intro p. pose proof (gw_subst_same_app p []) as H. rewrite app_nil_r in H. exact H. Qed.

Lemma gw_calls_eff_pred : forall c,
  gw_calls (gw_eff_pred c) = gw_eff_calls (gc_outs c) (gw_calls (gc_pred c)) (gc_bind c).
Proof. intro c. unfold gw_eff_pred. apply gw_calls_subst. apply gw_eff_calls_length. Qed.

(* a faithful binding leaves the predicate as written *)
Lemma gw_eff_calls_ok : forall outs calls bind, gw_bind_okb outs calls bind = true ->
  gw_eff_calls outs calls bind = calls.
Proof.
  induction calls as [|a t IH]; simpl; intros bind H; auto.
  apply andb_true_iff in H. destruct H as [H1 H2]. rewrite (IH _ H2). f_equal.
  unfold gw_eff_call. destruct (hd None bind) as [j|]; auto.
  destruct (nth_error outs j) as [o|]; auto. apply gw_ref_eqb_eq. exact H1.
Qed.

Lemma gw_eff_pred_ok : forall c, gw_bind_ok c -> gw_eff_pred c = gc_pred c.
Proof.
  intros c H. unfold gw_eff_pred. rewrite (gw_eff_calls_ok _ _ _ H). apply gw_subst_same.
Qed.

Lemma gw_eff_ok : forall c, gw_bind_ok c -> gw_eff c = c.
Proof. intros c H. unfold gw_eff. rewrite (gw_eff_pred_ok c H). destruct c; reflexivity. Qed.

(* the predicate as bound is bound faithfully *)
Lemma gw_bind_okb_eff_calls : forall outs calls bind,
  gw_bind_okb outs (gw_eff_calls outs calls bind) bind = true.
Proof.
  induction calls as [|a t IH]; simpl; intros bind; auto.
  rewrite IH, andb_true_r. unfold gw_eff_call.
  destruct (hd None bind) as [j|]; auto.
  destruct (nth_error outs j) as [o|]; auto. apply gw_ref_eqb_refl.
Qed.

Lemma gw_eff_bind_ok : forall c, gw_bind_ok (gw_eff c).
Proof.
  intro c. unfold gw_bind_ok. cbn [gw_eff gc_outs gc_pred gc_bind].
  rewrite gw_calls_eff_pred. apply gw_bind_okb_eff_calls.
Qed.

(* ------------------------------------------------------------------ the state of a group is
   determined by the rows fed into it *)
Definition gw_st (a : gw_ref) (seg : list gw_row) : gw_ast := fold_left (gw_feed1 a) seg (gw_new (gr_fn a)).

Definition gw_trig_of (F : gw_ref -> gw_ast) (t : gw_ref * option nat) : option gw_ast :=
  match snd t with Some _ => None | None => Some (F (fst t)) end.

Definition gw_form (c : gw_config) (F : gw_ref -> gw_ast) : gw_gstate :=
  {| gs_out := map F (gc_outs c); gs_trig := map (gw_trig_of F) (gw_tspecs c) |}.

Definition gw_canon (c : gw_config) (seg : list gw_row) : gw_gstate := gw_form c (fun a => gw_st a seg).

Lemma gw_feed_outs_map : forall outs F r,
  gw_feed_outs outs (map F outs) r = map (fun a => gw_feed1 a (F a) r) outs.
Proof. induction outs as [|a t IH]; simpl; intros; [reflexivity | rewrite IH; reflexivity]. Qed.

Lemma gw_feed_trigs_map : forall ts F r,
  gw_feed_trigs ts (map (gw_trig_of F) ts) r = map (gw_trig_of (fun a => gw_feed1 a (F a) r)) ts.
Proof.
  induction ts as [|[a [j|]] ts IH]; simpl; intros; try reflexivity.
  - rewrite IH. reflexivity.
  - rewrite IH. reflexivity.
Qed.

Lemma gw_feed_form : forall c F r, gw_feed c (gw_form c F) r = gw_form c (fun a => gw_feed1 a (F a) r).
Proof.
  intros. unfold gw_feed, gw_form. simpl. rewrite gw_feed_outs_map, gw_feed_trigs_map. reflexivity.
Qed.

Lemma gw_form_ext : forall c F G, (forall a, F a = G a) -> gw_form c F = gw_form c G.
Proof.
  intros c F G H. unfold gw_form. f_equal.
  - apply map_ext. exact H.
  - apply map_ext. intros [a [j|]]; unfold gw_trig_of; simpl; auto. rewrite H. reflexivity.
Qed.

Lemma gw_canon_nil : forall c, gw_canon c [] = gw_newstate c.
Proof. reflexivity. Qed.

Lemma gw_feed_canon : forall c seg r, gw_feed c (gw_canon c seg) r = gw_canon c (seg ++ [r]).
Proof.
  intros. unfold gw_canon. rewrite gw_feed_form. apply gw_form_ext. intro a.
  unfold gw_st. rewrite fold_left_app. reflexivity.
Qed.

(* a group's state after any list of rows, starting from a new state *)
Lemma gw_fold_feed_canon_from : forall c seg pre,
  fold_left (gw_feed c) seg (gw_canon c pre) = gw_canon c (pre ++ seg).
Proof.
  induction seg as [|r t IH]; intro pre; simpl.
  - rewrite app_nil_r. reflexivity.
  - rewrite gw_feed_canon. rewrite IH. rewrite <- app_assoc. reflexivity.
Qed.

Lemma gw_fold_feed_canon : forall c seg, fold_left (gw_feed c) seg (gw_newstate c) = gw_canon c seg.
Proof. intros c seg. rewrite <- gw_canon_nil. apply gw_fold_feed_canon_from. Qed.

(* the value of placeholder i = over the rows fed, the aggregate the i-th call is bound to (the call's own
   aggregate when it is trigger-only) *)
Lemma gw_env_canon : forall c seg i,
  gw_env c (gw_canon c seg) i =
  match nth_error (gw_eff_calls (gc_outs c) (gw_calls (gc_pred c)) (gc_bind c)) i with
  | Some a => gw_agg_of a seg
  | None => None
  end.
Proof.
  intros c seg i. unfold gw_env.
  destruct (nth_error (gw_tspecs c) i) as [t|] eqn:E.
  - destruct (gw_tspecs_from_nth _ _ _ _ _ E) as [H1 [H2 H3]].
    destruct t as [a [j|]]; simpl in *.
    + destruct (H3 j eq_refl) as [o [Ho He]]. rewrite He.
      rewrite (map_nth_error (fun a0 => gw_st a0 seg) _ _ Ho). reflexivity.
    + rewrite (H2 eq_refl).
      rewrite (map_nth_error (gw_trig_of (fun a0 => gw_st a0 seg)) _ _ E). reflexivity.
  - apply nth_error_None in E. unfold gw_tspecs in E. rewrite gw_tspecs_from_length in E.
    rewrite <- (gw_eff_calls_length (gc_outs c) _ (gc_bind c)) in E.
    apply nth_error_None in E. rewrite E. reflexivity.
Qed.

Lemma gw_ieval_rewrite : forall p n env E,
  (forall i a, nth_error (gw_calls p) i = Some a -> env (n + i)%nat = E a) ->
  gw_ieval env (gw_rewrite p n) = gw_eval E p.
Proof.
  induction p as [a c lit | p1 IH1 p2 IH2 | p1 IH1 p2 IH2]; simpl; intros n env E H.
  - rewrite <- (H 0%nat a eq_refl). rewrite Nat.add_0_r. reflexivity.
  - rewrite (IH1 n env E), (IH2 (n + length (gw_calls p1))%nat env E); auto.
    + intros i a Hi. rewrite <- Nat.add_assoc. apply H.
      rewrite nth_error_app2 by lia.
      replace (length (gw_calls p1) + i - length (gw_calls p1))%nat with i by lia. exact Hi.
    + intros i a Hi. apply H. rewrite nth_error_app1; auto.
      apply nth_error_Some. congruence.
  - rewrite (IH1 n env E), (IH2 (n + length (gw_calls p1))%nat env E); auto.
    + intros i a Hi. rewrite <- Nat.add_assoc. apply H.
      rewrite nth_error_app2 by lia.
      replace (length (gw_calls p1) + i - length (gw_calls p1))%nat with i by lia. exact Hi.
    + intros i a Hi. apply H. rewrite nth_error_app1; auto.
      apply nth_error_Some. congruence.
Qed.

(* shouldFire on a group's state = the predicate AS BOUND on the aggregates of the rows fed *)
Lemma gw_should_fire_canon : forall c seg, gw_should_fire c (gw_canon c seg) = gw_holds (gw_eff_pred c) seg.
Proof.
  intros c seg. unfold gw_should_fire, gw_holds.
  rewrite <- (gw_rewrite_subst (gc_pred c) (gw_eff_calls (gc_outs c) (gw_calls (gc_pred c)) (gc_bind c)) 0).
  fold (gw_eff_pred c).
  rewrite (gw_ieval_rewrite (gw_eff_pred c) 0 _ (fun a => gw_agg_of a seg)); auto.
  intros i a Hi. simpl. rewrite gw_env_canon. rewrite gw_calls_eff_pred in Hi. rewrite Hi. reflexivity.
Qed.

Lemma gw_results_canon : forall c seg,
  map gw_result (gs_out (gw_canon c seg)) = map (fun a => gw_agg_of a seg) (gc_outs c).
Proof. intros. unfold gw_canon, gw_form. simpl. rewrite map_map. reflexivity. Qed.

(* ------------------------------------------------------------------ refinement *)
Definition gw_group_state (c : gw_config) (st : gw_state) (k : list N) : gw_gstate :=
  match gw_find k st with Some g => g | None => gw_newstate c end.

Definition gw_rel (c : gw_config) (st : gw_state) (s : gw_segs) : Prop :=
  forall k, gw_group_state c st k = gw_canon c (gw_seg_find k s).

Lemma gw_rel_nil : forall c, gw_rel c [] [].
Proof. intros c k. reflexivity. Qed.

(* one step of the window = one step of the reference semantics for the predicate as bound *)
Lemma gw_step_refines : forall c st s r, gw_rel c st s ->
  snd (gw_step c st r) = snd (gw_spec_step (gw_eff c) s r) /\
  gw_rel c (fst (gw_step c st r)) (fst (gw_spec_step (gw_eff c) s r)).
Proof.
  intros c st s r R. unfold gw_step, gw_spec_step.
  change (gc_pred (gw_eff c)) with (gw_eff_pred c).
  pose proof (R (gw_key r)) as Rk. unfold gw_group_state in Rk. rewrite Rk.
  rewrite gw_feed_canon. rewrite gw_should_fire_canon.
  destruct (gw_holds (gw_eff_pred c) (gw_seg_find (gw_key r) s ++ [r])) eqn:Hh; cbn [fst snd].
  - split.
    + unfold gw_result_of. change (gc_outs (gw_eff c)) with (gc_outs c). rewrite gw_results_canon. reflexivity.
    + intro k. unfold gw_group_state.
      destruct (gw_key_eqb (gw_key r) k) eqn:E.
      * apply gw_key_eqb_eq in E. subst k.
        rewrite gw_find_remove_same, gw_seg_find_put_same. reflexivity.
      * rewrite gw_find_remove_other by exact E. rewrite gw_seg_find_put_other by exact E. apply R.
  - split; auto.
    intro k. unfold gw_group_state. cbn [gw_find].
    destruct (gw_key_eqb (gw_key r) k) eqn:E.
    + apply gw_key_eqb_eq in E. subst k. rewrite gw_seg_find_put_same. reflexivity.
    + rewrite gw_find_remove_other by exact E. rewrite gw_seg_find_put_other by exact E. apply R.
Qed.

Theorem gw_run_refines : forall c h st s, gw_rel c st s -> gw_run c st h = gw_spec_run (gw_eff c) s h.
Proof.
  induction h as [|r t IH]; simpl; intros st s R; auto.
  destruct (gw_step_refines c st s r R) as [H1 H2]. rewrite H1. f_equal. apply IH. exact H2.
Qed.

(* for EVERY binding: the window is the reference semantics of the predicate as bound *)
Corollary gw_run0_spec_eff : forall c h, gw_run0 c h = gw_spec_run (gw_eff c) [] h.
Proof. intros. apply gw_run_refines. apply gw_rel_nil. Qed.

(* for every faithful binding: the window is the reference semantics of the predicate as written *)
Corollary gw_run0_spec : forall c, gw_bind_ok c -> forall h, gw_run0 c h = gw_spec_run c [] h.
Proof. intros c Hok h. rewrite gw_run0_spec_eff. rewrite (gw_eff_ok c Hok). reflexivity. Qed.

(* for every binding: the window behaves as the window of the predicate as bound *)
Corollary gw_run0_as_bound : forall c h, gw_run0 c h = gw_run0 (gw_eff c) h.
Proof.
  intros c h. rewrite gw_run0_spec_eff. rewrite (gw_run0_spec (gw_eff c) (gw_eff_bind_ok c)). reflexivity.
Qed.

(* ------------------------------------------------------------------ the reference semantics *)
Fixpoint gw_spec_final (c : gw_config) (s : gw_segs) (h : list gw_row) : gw_segs :=
  match h with
  | [] => s
  | r :: t => gw_spec_final c (fst (gw_spec_step c s r)) t
  end.

Lemma gw_spec_run_app : forall c h1 h2 s,
  gw_spec_run c s (h1 ++ h2) = gw_spec_run c s h1 ++ gw_spec_run c (gw_spec_final c s h1) h2.
Proof. induction h1 as [|r t IH]; simpl; intros; auto. rewrite IH. reflexivity. Qed.

Lemma gw_spec_run_length : forall c h s, length (gw_spec_run c s h) = length h.
Proof. induction h; simpl; intros; auto. Qed.

(* the buffered rows of a group = its rows since its last result *)
Lemma gw_seg_find_final : forall c h s g,
  gw_seg_find g (gw_spec_final c s h) = gw_since g (combine h (gw_spec_run c s h)) (gw_seg_find g s).
Proof.
  induction h as [|r t IH]; intros s g; [reflexivity|].
  cbn [gw_spec_final gw_spec_run combine gw_since]. rewrite IH. unfold gw_spec_step.
  destruct (gw_key_eqb (gw_key r) g) eqn:E.
  - apply gw_key_eqb_eq in E. subst g.
    destruct (gw_holds (gc_pred c) (gw_seg_find (gw_key r) s ++ [r])); cbn [fst snd];
      rewrite gw_seg_find_put_same; reflexivity.
  - destruct (gw_holds (gc_pred c) (gw_seg_find (gw_key r) s ++ [r])); cbn [fst snd];
      rewrite gw_seg_find_put_other by exact E; reflexivity.
Qed.

(* rows of group g since g's last result in the run over h *)
Definition gw_since0 (c : gw_config) (g : list N) (h : list gw_row) : list gw_row :=
  gw_since g (combine h (gw_run0 c h)) [].

Lemma gw_since0_final : forall c, gw_bind_ok c ->
  forall g h, gw_since0 c g h = gw_seg_find g (gw_spec_final c [] h).
Proof. intros c Hok g h. unfold gw_since0. rewrite (gw_run0_spec c Hok), gw_seg_find_final. reflexivity. Qed.

Lemma gw_since0_as_bound : forall c g h, gw_since0 (gw_eff c) g h = gw_since0 c g h.
Proof. intros. unfold gw_since0. rewrite <- gw_run0_as_bound. reflexivity. Qed.

(* the output at any row of any sequence *)
Theorem gw_output_at : forall c, gw_bind_ok c -> forall h1 r h2,
  nth_error (gw_run0 c (h1 ++ r :: h2)) (length h1) =
  Some (let seg := gw_since0 c (gw_key r) h1 ++ [r] in
        if gw_holds (gc_pred c) seg then Some (gw_result_of c (gw_key r) seg) else None).
Proof.
  intros c Hok h1 r h2. rewrite (gw_run0_spec c Hok), gw_spec_run_app.
  rewrite nth_error_app2 by (rewrite gw_spec_run_length; lia).
  rewrite gw_spec_run_length, Nat.sub_diag. simpl.
  rewrite (gw_since0_final c Hok). unfold gw_spec_step.
  destruct (gw_holds (gc_pred c) (gw_seg_find (gw_key r) (gw_spec_final c [] h1) ++ [r])); reflexivity.
Qed.

Theorem gw_fires_iff : forall c, gw_bind_ok c -> forall h1 r h2,
  (exists res, nth_error (gw_run0 c (h1 ++ r :: h2)) (length h1) = Some (Some res)) <->
  gw_holds (gc_pred c) (gw_since0 c (gw_key r) h1 ++ [r]) = true.
Proof.
  intros c Hok h1 r h2. rewrite (gw_output_at c Hok). cbv zeta.
  destruct (gw_holds (gc_pred c) (gw_since0 c (gw_key r) h1 ++ [r])); split; intro H; auto.
  - eexists. reflexivity.
  - destruct H as [res H]. discriminate.
  - discriminate.
Qed.

Theorem gw_result_exact : forall c, gw_bind_ok c -> forall h1 r h2 res,
  nth_error (gw_run0 c (h1 ++ r :: h2)) (length h1) = Some (Some res) ->
  res = (gw_key r, map (fun a => gw_agg_of a (gw_since0 c (gw_key r) h1 ++ [r])) (gc_outs c)).
Proof.
  intros c Hok h1 r h2 res H. rewrite (gw_output_at c Hok) in H. cbv zeta in H.
  destruct (gw_holds (gc_pred c) (gw_since0 c (gw_key r) h1 ++ [r])); inversion H. reflexivity.
Qed.

Theorem gw_no_result_while_false : forall c, gw_bind_ok c -> forall h1 r h2,
  gw_holds (gc_pred c) (gw_since0 c (gw_key r) h1 ++ [r]) = false ->
  nth_error (gw_run0 c (h1 ++ r :: h2)) (length h1) = Some None.
Proof. intros c Hok h1 r h2 H. rewrite (gw_output_at c Hok). cbv zeta. rewrite H. reflexivity. Qed.

(* ------------------------------------------------------------------ isolation, restart *)
Lemma gw_project_spec : forall c g h s s', gw_seg_find g s = gw_seg_find g s' ->
  gw_project g (combine h (gw_spec_run c s h)) = gw_spec_run c s' (filter (gw_is_group g) h).
Proof.
  induction h as [|r t IH]; simpl; intros s s' H; auto.
  unfold gw_is_group at 1.
  destruct (gw_key_eqb (gw_key r) g) eqn:E; simpl.
  - pose proof E as E'. apply gw_key_eqb_eq in E'.
    unfold gw_spec_step. rewrite E'. rewrite <- H.
    destruct (gw_holds (gc_pred c) (gw_seg_find g s ++ [r])); simpl; f_equal; apply IH;
      rewrite !gw_seg_find_put_same; reflexivity.
  - apply IH. rewrite <- H. unfold gw_spec_step.
    destruct (gw_holds (gc_pred c) (gw_seg_find (gw_key r) s ++ [r])); simpl;
      apply gw_seg_find_put_other; exact E.
Qed.

(* the outputs at the rows of a group are those of a window that receives only that group's rows *)
Theorem gw_group_isolation : forall c g h,
  gw_project g (combine h (gw_run0 c h)) = gw_run0 c (filter (gw_is_group g) h).
Proof.
  intros. rewrite !gw_run0_spec_eff. apply gw_project_spec. reflexivity.
Qed.

Lemma gw_run0_app : forall c, gw_bind_ok c -> forall h1 h2,
  gw_run0 c (h1 ++ h2) = gw_run0 c h1 ++ gw_spec_run c (gw_spec_final c [] h1) h2.
Proof. intros c Hok h1 h2. rewrite !(gw_run0_spec c Hok). apply gw_spec_run_app. Qed.

(* after a result the group starts again from empty: nothing is buffered for it, and its later
   outputs are those of a new window that receives only the group's later rows *)
Theorem gw_restart_empty : forall c, gw_bind_ok c -> forall h1 r h2 res,
  nth_error (gw_run0 c (h1 ++ r :: h2)) (length h1) = Some (Some res) ->
  gw_since0 c (gw_key r) (h1 ++ [r]) = [] /\
  gw_project (gw_key r) (combine h2 (skipn (S (length h1)) (gw_run0 c (h1 ++ r :: h2)))) =
  gw_run0 c (filter (gw_is_group (gw_key r)) h2).
Proof.
  intros c Hok h1 r h2 res H.
  assert (Hh : gw_holds (gc_pred c) (gw_since0 c (gw_key r) h1 ++ [r]) = true).
  { apply (gw_fires_iff c Hok h1 r h2). exists res. exact H. }
  assert (Hf : gw_seg_find (gw_key r) (gw_spec_final c [] (h1 ++ [r])) = []).
  { clear H. rewrite (gw_since0_final c Hok) in Hh.
    assert (Hfin : forall h s, gw_spec_final c s (h ++ [r]) = fst (gw_spec_step c (gw_spec_final c s h) r)).
    { induction h as [|x t IHh]; simpl; intros; auto. }
    rewrite Hfin. unfold gw_spec_step. rewrite Hh. simpl. apply gw_seg_find_put_same. }
  split.
  - rewrite (gw_since0_final c Hok). exact Hf.
  - replace (h1 ++ r :: h2) with ((h1 ++ [r]) ++ h2) by (rewrite <- app_assoc; reflexivity).
    rewrite (gw_run0_app c Hok).
    replace (S (length h1)) with (length (gw_run0 c (h1 ++ [r])) + 0)%nat
      by (rewrite (gw_run0_spec c Hok), gw_spec_run_length, app_length; simpl; lia).
    rewrite skipn_app. rewrite skipn_all2 by lia. simpl.
    replace (length (gw_run0 c (h1 ++ [r])) + 0 - length (gw_run0 c (h1 ++ [r])))%nat with 0%nat by lia.
    simpl. rewrite (gw_run0_spec c Hok). apply gw_project_spec. rewrite Hf. reflexivity.
Qed.

(* ------------------------------------------------------------------ SQL's three-valued reading *)
Lemma gw_eval_sql3_nonnull : forall env p,
  (forall a, In a (gw_calls p) -> env a <> None) ->
  gw_eval env p = gw_sql3 env p /\ gw_eval env p <> None.
Proof.
  induction p as [a c lit | p1 IH1 p2 IH2 | p1 IH1 p2 IH2]; simpl; intro H.
  - assert (Ha : env a <> None) by (apply H; left; reflexivity).
    destruct (env a) as [x|]; [|congruence]. simpl. split; [reflexivity | discriminate].
  - destruct IH1 as [E1 N1]. { intros a Ha. apply H. apply in_or_app. left. exact Ha. }
    destruct IH2 as [E2 N2]. { intros a Ha. apply H. apply in_or_app. right. exact Ha. }
    rewrite <- E1, <- E2.
    destruct (gw_eval env p1) as [[|]|]; try congruence;
      destruct (gw_eval env p2) as [[|]|]; try congruence; split; auto; discriminate.
  - destruct IH1 as [E1 N1]. { intros a Ha. apply H. apply in_or_app. left. exact Ha. }
    destruct IH2 as [E2 N2]. { intros a Ha. apply H. apply in_or_app. right. exact Ha. }
    rewrite <- E1, <- E2.
    destruct (gw_eval env p1) as [[|]|]; try congruence;
      destruct (gw_eval env p2) as [[|]|]; try congruence; split; auto; discriminate.
Qed.

Lemma gw_holds_holds3_nonnull : forall p seg,
  (forall a, In a (gw_calls p) -> gw_agg_of a seg <> None) -> gw_holds p seg = gw_holds3 p seg.
Proof.
  intros p seg H. unfold gw_holds, gw_holds3.
  destruct (gw_eval_sql3_nonnull (fun a => gw_agg_of a seg) p H) as [E _]. rewrite E. reflexivity.
Qed.

(* count is never NULL *)
Lemma gw_count_not_null : forall f seg, gw_agg_of {| gr_fn := GwCount; gr_fld := f |} seg <> None.
Proof.
  intros f seg. unfold gw_agg_of. simpl.
  assert (H : forall l n, exists m, fold_left (gw_feed1 {| gr_fn := GwCount; gr_fld := f |}) l (AsCount n) = AsCount m).
  { induction l as [|r t IH]; simpl; intro n; [eexists; reflexivity|].
    unfold gw_feed1 at 2. destruct (gw_input _ r); simpl; apply IH. }
  destruct (H seg 0%Z) as [m Hm]. rewrite Hm. simpl. discriminate.
Qed.

(* an aggregate over a field is not NULL once a row with a value in that field has been received *)
Definition gw_good (st : gw_ast) : Prop :=
  match st with
  | AsCount _ => True
  | AsSum _ has => has = true
  | AsAvg _ n => (n > 0)%Z
  | AsMin _ first | AsMax _ first => first = false
  end.
Definition gw_nn (st : gw_ast) : Prop :=
  match st with AsAvg _ n => (n >= 0)%Z | _ => True end.

Lemma gw_add_nn : forall st x, gw_nn st -> gw_nn (gw_add st x).
Proof.
  intros [n|v has|s n|v first|v first] x H; simpl in *; auto; try lia.
  - destruct (first || gw_qlt x v); simpl; auto.
  - destruct (first || gw_qlt v x); simpl; auto.
Qed.

Lemma gw_add_good : forall st x, gw_nn st -> gw_good (gw_add st x).
Proof.
  intros [n|v has|s n|v first|v first] x H; simpl in *; auto; try lia.
  - destruct first; simpl; auto. destruct (gw_qlt x v); simpl; auto.
  - destruct first; simpl; auto. destruct (gw_qlt v x); simpl; auto.
Qed.

Lemma gw_feed1_nn : forall a st r, gw_nn st -> gw_nn (gw_feed1 a st r).
Proof. intros a st r H. unfold gw_feed1. destruct (gw_input a r); auto. apply gw_add_nn. exact H. Qed.

Lemma gw_feed1_good : forall a st r, gw_nn st -> gw_good st -> gw_good (gw_feed1 a st r).
Proof. intros a st r H G. unfold gw_feed1. destruct (gw_input a r); auto. apply gw_add_good. exact H. Qed.

Lemma gw_fold_nn : forall a l st, gw_nn st -> gw_nn (fold_left (gw_feed1 a) l st).
Proof. induction l as [|x t IH]; simpl; intros st H; auto. apply IH. apply gw_feed1_nn. exact H. Qed.

Lemma gw_fold_good : forall a l st, gw_nn st -> gw_good st -> gw_good (fold_left (gw_feed1 a) l st).
Proof.
  induction l as [|x t IH]; simpl; intros st H G; auto. apply IH.
  - apply gw_feed1_nn. exact H.
  - apply gw_feed1_good; assumption.
Qed.

Lemma gw_good_result : forall st, gw_good st -> gw_result st <> None.
Proof.
  intros [n|v has|s n|v first|v first] G; simpl in *; try discriminate.
  - rewrite G. discriminate.
  - destruct (n =? 0)%Z eqn:E; [apply Z.eqb_eq in E; lia | discriminate].
  - rewrite G. discriminate.
  - rewrite G. discriminate.
Qed.

Lemma gw_agg_not_null : forall a seg r, In r seg -> gw_input a r <> None -> gw_agg_of a seg <> None.
Proof.
  intros a seg r Hin Hv. unfold gw_agg_of. apply gw_good_result.
  apply in_split in Hin. destruct Hin as [l1 [l2 Hs]]. subst seg.
  rewrite fold_left_app. cbn [fold_left].
  assert (H0 : gw_nn (gw_new (gr_fn a))) by (destruct (gr_fn a); simpl; auto; lia).
  pose proof (gw_fold_nn a l1 _ H0) as H1.
  apply gw_fold_good.
  - apply gw_feed1_nn. exact H1.
  - unfold gw_feed1. destruct (gw_input a r) as [x|]; [|congruence]. apply gw_add_good. exact H1.
Qed.
