(* C14 — the partition key of stream/analytic.go (typeKey + length prefix) is injective on tuples of values. *)
From Coq Require Import Lia.
From SV Require Import Model.Analytic.

Local Open Scope N_scope.

Fixpoint p2 (f : nat) : N := match f with O => 1 | S f' => 2 * p2 f' end.

Lemma pos_lt_p2 p : Npos p < p2 (Pos.size_nat p).
Proof. induction p; simpl Pos.size_nat; cbn [p2]; lia. Qed.

Lemma n_lt_p2 n : n < p2 (N.size_nat n).
Proof. destruct n; [simpl; lia|apply pos_lt_p2]. Qed.

Definition undec (l : bytes) : N := fold_left (fun acc d => 10 * acc + (d - 48)) l 0.

Lemma undec_dec_f : forall f n, n < p2 f -> undec (an_dec_f f n) = n.
Proof.
  induction f as [|f IH]; intros n Hn; cbn [p2] in Hn.
  - unfold undec. cbn [an_dec_f fold_left]. lia.
  - cbn [an_dec_f]. destruct (n <? 10) eqn:E.
    + apply N.ltb_lt in E. unfold undec. cbn [fold_left]. lia.
    + apply N.ltb_ge in E. unfold undec. rewrite fold_left_app. cbn [fold_left].
      fold (undec (an_dec_f f (n / 10))). rewrite IH.
      * pose proof (N.div_mod' n 10) as Hd. set (q := n / 10) in *. set (m := n mod 10) in *. clearbody q m. lia.
      * apply N.div_lt_upper_bound; lia.
Qed.

Lemma undec_dec n : undec (an_dec n) = n.
Proof. unfold an_dec. apply undec_dec_f. cbn [p2]. pose proof (n_lt_p2 n). lia. Qed.

Lemma dec_inj a b : an_dec a = an_dec b -> a = b.
Proof. intros H. rewrite <- (undec_dec a), <- (undec_dec b), H. reflexivity. Qed.

Definition is_digit (b : byte) : Prop := 48 <= b <= 57.

Lemma dec_f_digits : forall f n, Forall is_digit (an_dec_f f n).
Proof.
  induction f as [|f IH]; intros n; cbn [an_dec_f]; [constructor|].
  destruct (n <? 10) eqn:E.
  - apply N.ltb_lt in E. constructor; [unfold is_digit; lia|constructor].
  - apply Forall_app. split; [apply IH|]. constructor; [|constructor].
    unfold is_digit. assert (Hm : n mod 10 < 10) by (apply N.mod_upper_bound; lia).
    set (m := n mod 10) in *. clearbody m. lia.
Qed.

Lemma dec_digits n : Forall is_digit (an_dec n).
Proof. apply dec_f_digits. Qed.

Lemma dec_head n : exists d t, an_dec n = d :: t /\ is_digit d.
Proof.
  pose proof (dec_digits n) as H. unfold an_dec in *. cbn [an_dec_f] in *.
  destruct (n <? 10).
  - eexists _, _. split; [reflexivity|]. inversion H; assumption.
  - destruct (an_dec_f (N.size_nat n) (n / 10)) as [|d t]; simpl in *.
    + eexists _, _. split; [reflexivity|]. inversion H; assumption.
    + eexists _, _. split; [reflexivity|]. inversion H; assumption.
Qed.

Lemma decz_inj a b : an_decz a = an_decz b -> a = b.
Proof.
  assert (Hneg : forall p z, match z with Zneg _ => False | _ => True end ->
                             45 :: an_dec (Npos p) = an_dec (Z.to_N z) -> False).
  { intros p z _ H. destruct (dec_head (Z.to_N z)) as (d & t & Hd & Hdig). rewrite Hd in H.
    injection H as H _. unfold is_digit in Hdig. lia. }
  destruct a as [|p|p], b as [|q|q]; simpl; intros H.
  - reflexivity.
  - apply dec_inj in H. discriminate.
  - exfalso. apply (Hneg q 0%Z I). symmetry. exact H.
  - apply dec_inj in H. discriminate.
  - apply dec_inj in H. injection H as ->. reflexivity.
  - exfalso. apply (Hneg q (Zpos p) I). symmetry. exact H.
  - exfalso. apply (Hneg p 0%Z I). exact H.
  - exfalso. apply (Hneg p (Zpos q) I). exact H.
  - injection H as H. apply dec_inj in H. injection H as ->. reflexivity.
Qed.

Lemma type_key_inj v1 v2 : an_type_key v1 = an_type_key v2 -> v1 = v2.
Proof.
  destruct v1 as [|z1|z1|s1|b1], v2 as [|z2|z2|s2|b2]; simpl; intros H; try reflexivity; try discriminate.
  - injection H as H. apply decz_inj in H. subst. reflexivity.
  - injection H as H. apply decz_inj in H. subst. reflexivity.
  - injection H as H. subst. reflexivity.
  - destruct b1, b2; try reflexivity; discriminate.
Qed.

Lemma split_colon : forall l1 l2 X Y, Forall is_digit l1 -> Forall is_digit l2 ->
  l1 ++ 58 :: X = l2 ++ 58 :: Y -> l1 = l2 /\ X = Y.
Proof.
  induction l1 as [|a l1 IH]; intros [|b l2] X Y H1 H2 H; simpl in H.
  - injection H as ->. split; reflexivity.
  - injection H as H _. inversion H2 as [|? ? Hb _]; subst. unfold is_digit in Hb. lia.
  - injection H as H _. inversion H1 as [|? ? Ha _]; subst. unfold is_digit in Ha. lia.
  - injection H as -> H. inversion H1; inversion H2; subst.
    destruct (IH l2 X Y) as [-> ->]; try assumption. split; reflexivity.
Qed.

Lemma app_same_length (A : Type) : forall (a b x y : list A), length a = length b -> a ++ x = b ++ y -> a = b /\ x = y.
Proof.
  induction a as [|h a IH]; intros [|k b] x y Hl H; simpl in *; try discriminate.
  - split; [reflexivity|exact H].
  - injection H as -> H. injection Hl as Hl. destruct (IH b x y Hl H) as [-> ->]. split; reflexivity.
Qed.

Lemma seg_inj t1 t2 K1 K2 : an_seg t1 ++ K1 = an_seg t2 ++ K2 -> t1 = t2 /\ K1 = K2.
Proof.
  unfold an_seg. rewrite <- !app_assoc. simpl. intros H.
  apply split_colon in H; try apply dec_digits. destruct H as [Hd H].
  apply dec_inj in Hd. apply Nnat.Nat2N.inj in Hd.
  apply app_same_length in H; [|exact Hd]. destruct H as [-> H].
  injection H as ->. split; reflexivity.
Qed.

Lemma seg_nonempty t K : an_seg t ++ K <> [].
Proof.
  unfold an_seg. destruct (dec_head (N.of_nat (length t))) as (d & r & -> & _). simpl. discriminate.
Qed.

(* partition_key_injective: equal keys come from equal tuples -- same number of columns, same types, same values;
   in particular 1, 1.0 and "1" are three partitions and no '|' or ':' inside a string can fake a column border *)
Theorem partition_key_injective : forall vs1 vs2, an_key_of_vals vs1 = an_key_of_vals vs2 -> vs1 = vs2.
Proof.
  unfold an_key_of_vals. induction vs1 as [|v1 t1 IH]; intros [|v2 t2] H; simpl in H.
  - reflexivity.
  - exfalso. symmetry in H. exact (seg_nonempty _ _ H).
  - exfalso. exact (seg_nonempty _ _ H).
  - apply seg_inj in H. destruct H as [Hk Ht]. apply type_key_inj in Hk. rewrite (IH t2 Ht), Hk. reflexivity.
Qed.
