(* Model of window/sliding_window.go (event time). Same step structure as Model/Tumbling.v:
   each critical section of sw.mu is one atomic step. *)
From SV Require Export Model.Tumbling.

Record scfg := { ssize : Z; sslide : Z; sooo : Z; slateness : Z }.

Record sst := { s_init : bool; s_slot : Z (* currentSlot.Start *); s_data : list row;
                s_trig : list twin; s_w : wm; s_pend : option Z;
                s_adv : bool (* ghost: the slot has advanced at least once *) }.

Definition sst0 : sst := {| s_init := false; s_slot := 0; s_data := []; s_trig := []; s_w := wm0; s_pend := None; s_adv := false |}.

Definition sinwin (c : scfg) (s ts : Z) : bool := (s <=? ts) && (ts <? s + ssize c).

(* insertion of a triggered window keeping the list ordered by window end *)
Fixpoint insert_twin (t : twin) (l : list twin) : list twin :=
  match l with
  | [] => [t]
  | x :: r => if t_end t <? t_end x then t :: l
              else if t_end t =? t_end x then t :: r
              else x :: insert_twin t r
  end.

(* triggerLateUpdateLocked for every open triggered window that contains ts, in window order:
   result = snapshot ++ rows of the buffer inside the window that are not in the snapshot *)
Fixpoint late_updates (ts : Z) (d : list row) (l : list twin) : list twin * list batch :=
  match l with
  | [] => ([], [])
  | t :: r =>
      let '(r', bs) := late_updates ts d r in
      if in_twin t ts then
        let extra := filter (fun x => in_twin t (rts x) && negb (existsb (fun y => rid y =? rid x) (t_snap t))) d in
        let res := t_snap t ++ extra in
        ({| t_start := t_start t; t_end := t_end t; t_close := t_close t; t_snap := res |} :: r',
         {| b_start := t_start t; b_end := t_end t; b_rows := res; b_late := true |} :: bs)
      else (t :: r', bs)
  end.

Definition sadd_core (c : scfg) (id ts now : Z) (s : sst) : sst * list batch :=
  let w' := update_event_time (sooo c) now ts (s_w s) in
  let sl0 := if s_init s then s_slot s else align ts (sslide c) in
  let late := is_late ts w' in
  (* re-alignment of the not-yet-advanced first slot; only when the re-aligned window covers ts
     (with slide > size an on-time row may lie in a gap before the current slot) *)
  let sl := if s_init s && negb late && (ts <? sl0) && sinwin c (align ts (sslide c)) ts then align ts (sslide c) else sl0 in
  let d := s_data s ++ [(id, ts)] in
  let mk := fun dd tr => {| s_init := true; s_slot := sl; s_data := dd; s_trig := tr; s_w := w'; s_pend := s_pend s; s_adv := s_adv s |} in
  if late then
    if sinwin c sl ts then
      if 0 <? slateness c then let '(tr, bs) := late_updates ts d (s_trig s) in (mk d tr, bs)
      else (mk d (s_trig s), [])
    else if 0 <? slateness c then
      if existsb (fun t => in_twin t ts) (s_trig s)
      then let '(tr, bs) := late_updates ts d (s_trig s) in (mk d tr, bs)
      else (mk (s_data s) (s_trig s), [])
    else (mk (s_data s) (s_trig s), [])
  else (mk d (s_trig s), []).

Definition sadd (c : scfg) (id ts now : Z) (s : sst) : sst * list ev :=
  let '(s', bs) := sadd_core c id ts now s in (s', EvAdd id ts :: map EvBatch bs).

(* earliest slot start on the grid sl + k*slide (k >= 0) whose window contains ts, if any *)
Definition first_win (c : scfg) (sl ts : Z) : option Z :=
  if ts <? sl then None else
  let k := if ts - sl - ssize c <? 0 then 0 else (ts - sl - ssize c) / sslide c + 1 in
  let a := sl + k * sslide c in
  if a <=? ts then Some a else None.

Fixpoint omin_list (l : list (option Z)) : option Z :=
  match l with
  | [] => None
  | None :: r => omin_list r
  | Some x :: r => match omin_list r with None => Some x | Some m => Some (Z.min x m) end
  end.

(* where the slot stands after skipping every slot whose end is <= wmk *)
Definition srest_slot (c : scfg) (sl wmk : Z) : Z :=
  if sl + ssize c <=? wmk then sl + ((wmk - sl - ssize c) / sslide c + 1) * sslide c else sl.

Definition sclose_expired (wmk : Z) (s : sst) : sst :=
  {| s_init := s_init s; s_slot := s_slot s; s_data := s_data s;
     s_trig := filter (fun t => negb (t_close t <=? wmk)) (s_trig s);
     s_w := s_w s; s_pend := s_pend s; s_adv := s_adv s |}.

Definition sfire_step (c : scfg) (s : sst) : sst * list ev :=
  match s_pend s with
  | None => (s, [])
  | Some wmk =>
    if negb (s_init s) then
      ({| s_init := s_init s; s_slot := s_slot s; s_data := s_data s; s_trig := s_trig s; s_w := s_w s; s_pend := None; s_adv := s_adv s |}, [EvDE])
    else
    let fire := match omin_list (map (fun r => first_win c (s_slot s) (rts r)) (s_data s)) with
                | Some a => if a + ssize c <=? wmk then Some a else None
                | None => None
                end in
    match fire with
    | None =>
        (sclose_expired wmk
           {| s_init := s_init s; s_slot := srest_slot c (s_slot s) wmk; s_data := s_data s; s_trig := s_trig s;
              s_w := s_w s; s_pend := None; s_adv := s_adv s || (s_slot s + ssize c <=? wmk) |}, [EvDE])
    | Some a =>
        let res := filter (fun r => sinwin c a (rts r)) (s_data s) in
        let keep := filter (fun r => negb (rts r <? a + sslide c)) (s_data s) in
        let tr := if 0 <? slateness c
                  then insert_twin {| t_start := a; t_end := a + ssize c; t_close := a + ssize c + slateness c; t_snap := res |} (s_trig s)
                  else s_trig s in
        ({| s_init := s_init s; s_slot := a + sslide c; s_data := keep; s_trig := tr; s_w := s_w s; s_pend := s_pend s; s_adv := true |},
         [EvBatch {| b_start := a; b_end := a + ssize c; b_rows := res; b_late := false |}])
    end
  end.

Definition sstep (c : scfg) (s : sst) (o : op) : sst * list ev :=
  match o with
  | Add id ts now => sadd c id ts now s
  | AddNoTs id => (s, [EvNoTs id])
  | DeliverBegin =>
      match s_pend s with
      | Some _ => (s, [])
      | None =>
        match pop_chan (s_w s) with
        | Some (x, w') =>
            ({| s_init := s_init s; s_slot := s_slot s; s_data := s_data s; s_trig := s_trig s; s_w := w'; s_pend := Some x; s_adv := s_adv s |}, [EvDB x])
        | None => (s, [EvD0])
        end
      end
  | FireStep => sfire_step c s
  | Tick now => ({| s_init := s_init s; s_slot := s_slot s; s_data := s_data s; s_trig := s_trig s;
                    s_w := tick (sooo c) 0 now (s_w s); s_pend := s_pend s; s_adv := s_adv s |}, [EvTick])
  end.

Fixpoint srun (c : scfg) (s : sst) (h : list op) : sst * list ev :=
  match h with
  | [] => (s, [])
  | o :: r => let '(s1, e1) := sstep c s o in let '(s2, e2) := srun c s1 r in (s2, e1 ++ e2)
  end.

(* harness-level composite delivery with Adds injected after the k-th firing *)
Fixpoint srun_adds (c : scfg) (s : sst) (l : list op) : sst * list ev :=
  match l with
  | [] => (s, [])
  | o :: r => let '(s1, b1) := sstep c s o in let '(s2, b2) := srun_adds c s1 r in (s2, b1 ++ b2)
  end.

Fixpoint sdeliver_loop (c : scfg) (fuel : nat) (s : sst) (inj : list (list op)) : sst * list ev :=
  match fuel with
  | O => (s, [])
  | S f =>
      let '(s1, b1) := sfire_step c s in
      match s_pend s1 with
      | None => (s1, b1)
      | Some _ =>
          let '(adds, rest) := match inj with [] => ([], []) | l :: r => (l, r) end in
          let '(s2, b2) := srun_adds c s1 adds in
          let '(s3, b3) := sdeliver_loop c f s2 rest in
          (s3, b1 ++ b2 ++ b3)
      end
  end.

(* the number of firings of one delivery is bounded by the number of slots with end <= wmk that can
   hold a buffered row: at most (size/slide + 1) per row *)
Definition sdeliver (c : scfg) (s : sst) (inj : list (list op)) : sst * list ev :=
  let '(s1, e1) := sstep c s DeliverBegin in
  match s_pend s1 with
  | None => (s1, e1)
  | Some _ =>
      let per := Z.to_nat (ssize c / sslide c + 2) in
      let '(s2, e2) := sdeliver_loop c ((length (s_data s) + count_ops inj + 2) * per) s1 inj in (s2, e1 ++ e2)
  end.
