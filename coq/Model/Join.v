(* Model of the stream-table JOIN (C16).
   Code anchors (rulego/streamsql, after the two "fix:" commits on stream/table_store.go):
     stream/table_store.go   encodeKey, encodeOne, numericKeyString, floatKeyString,
                             NewMemoryTableSource, MemoryTableSource.Lookup/Upsert/Delete/encodeRow,
                             tableStore.get
     stream/join.go          Stream.enrichJoin, streamFieldValue (bare names)
     stream/stream.go        RegisterMemoryTable, UpsertTableRow, processDirectDataSync / enrichData
   Executable definitions only.

   The store and the run function are written once, over an arbitrary key type K with an
   equality test and a key function  keyf : list kv -> K.
     code-level model :  K = bytes,   equality = byte-string equality, keyf = encodeKey
     abstract table   :  K = list kv, equality = key_eq componentwise, keyf = identity
   (Proofs/JoinProofs.v shows the two produce the same outputs on every history.) *)
From SV Require Export Base.Bytes.

(* everything lives in one Coq module so that the extracted names (JoinM.run, JoinM.op, ...) cannot
   clash with another property's model in the single extracted model.ml *)
Module JoinM.
Open Scope Z_scope.

(* ---------- values that can occur as key components / columns ---------- *)
(* KFlt m e is the float64 (more generally: the dyadic rational) m * 2^e. All Go integer types
   are KInt (the value; the repaired encoder prints them exactly, whatever the type). *)
Inductive kv := KNull | KInt (z : Z) | KFlt (m e : Z) | KStr (s : bytes) | KBool (b : bool).

Definition row := list (bytes * kv).      (* column name -> value; Go map[string]any *)

Fixpoint get (r : row) (f : bytes) : option kv :=
  match r with
  | [] => None
  | (g, v) :: r' => if bytes_eqb g f then Some v else get r' f
  end.
(* Go: v := row[f] (a missing key reads as nil) *)
Definition getnil (r : row) (f : bytes) : kv := match get r f with Some v => v | None => KNull end.

(* ---------- decimal printing (strconv.FormatInt / FormatUint / Itoa) ---------- *)
Fixpoint digits_fuel (fuel : nat) (n : N) (acc : bytes) : bytes :=
  match fuel with
  | O => acc
  | S f =>
      let acc' := (48 + N.modulo n 10)%N :: acc in
      let q := N.div n 10 in
      if N.eqb q 0 then acc' else digits_fuel f q acc'
  end.
(* fuel: the number of binary digits bounds the number of decimal digits *)
Fixpoint pbits (p : positive) : nat := match p with xH => 1%nat | xO p' | xI p' => S (pbits p') end.
Definition nbits (n : N) : nat := match n with N0 => O | Npos p => pbits p end.
Definition dec (n : N) : bytes := digits_fuel (S (nbits n)) n [].
Definition minus : byte := 45%N.
Definition decZ (z : Z) : bytes :=
  match z with
  | Z0 => dec 0
  | Zpos p => dec (Npos p)
  | Zneg p => minus :: dec (Npos p)
  end.
(* the k low-order decimal digits of n, most significant first *)
Fixpoint lowdigits (k : nat) (n : N) (acc : bytes) : bytes :=
  match k with
  | O => acc
  | S k' => lowdigits k' (N.div n 10) ((48 + N.modulo n 10)%N :: acc)
  end.
(* reading decimal digits back (used by the driver to read integer tokens, and in the proofs) *)
Definition undec (l : bytes) : N := fold_left (fun a c => (10 * a + (c - 48))%N) l 0%N.
Definition undecZ (l : bytes) : Z :=
  match l with
  | c :: l' => if N.eqb c minus then Z.opp (Z.of_N (undec l')) else Z.of_N (undec l)
  | [] => 0
  end.

(* ---------- numbers: canonical form  z / 2^k  with k = 0 or z odd ---------- *)
Fixpoint strip (p : positive) (k : nat) {struct k} : positive * nat :=
  match k with
  | O => (p, O)
  | S k' => match p with xO p' => strip p' k' | _ => (p, k) end
  end.
Definition canon (m e : Z) : Z * nat :=
  match m with
  | Z0 => (0, O)
  | Zpos p => if 0 <=? e then (m * 2 ^ e, O)
              else let (p', k) := strip p (Z.to_nat (- e)) in (Zpos p', k)
  | Zneg p => if 0 <=? e then (m * 2 ^ e, O)
              else let (p', k) := strip p (Z.to_nat (- e)) in (Zneg p', k)
  end.

(* floatKeyString: "0" for +-0; exact integer digits for an integral value (FormatFloat 'f',0);
   otherwise sign, integer part, '.', fraction digits. For the non-integral case Go prints the
   SHORTEST decimal that parses back to the same float; the model prints the EXACT decimal
   expansion (they coincide whenever the exact expansion has at most 15 significant digits, and
   both are one-to-one on non-integral values -- see bin/props.d/C16.json, trusted base). *)
Definition dot : byte := 46%N.
Definition enc_num (c : Z * nat) : bytes :=
  let (z, k) := c in
  match k with
  | O => decZ z
  | S _ =>
      let a := Z.abs_N z in
      let p2 := (2 ^ N.of_nat k)%N in
      (if z <? 0 then [minus] else []) ++ dec (N.div a p2) ++ dot ::
        lowdigits k (N.modulo a p2 * 5 ^ N.of_nat k)%N []
  end.

(* ---------- encodeOne / encodeKey ---------- *)
Definition tag_nil : bytes := [60; 110; 105; 108; 62]%N.          (* "<nil>" *)
Definition tag_n : bytes := [110; 58]%N.                          (* "n:" *)
Definition tag_s : bytes := [115; 58]%N.                          (* "s:" *)
Definition tag_b : bytes := [98; 58]%N.                           (* "b:" *)
Definition str_true : bytes := [116; 114; 117; 101]%N.
Definition str_false : bytes := [102; 97; 108; 115; 101]%N.
Definition colon : byte := 58%N.

Definition encodeOne (v : kv) : bytes :=
  match v with
  | KNull => tag_nil
  | KInt z => tag_n ++ decZ z
  | KFlt m e => tag_n ++ enc_num (canon m e)
  | KStr s => tag_s ++ s
  | KBool b => tag_b ++ (if b then str_true else str_false)
  end.

(* repaired encodeKey: every component as <byte length>:<component> *)
Definition enc_comp (p : bytes) : bytes := dec (N.of_nat (length p)) ++ colon :: p.
Fixpoint encodeKey (l : list kv) : bytes :=
  match l with
  | [] => []
  | v :: l' => enc_comp (encodeOne v) ++ encodeKey l'
  end.

(* encodeKey as written before the fix: strings.Join(parts, "\x1f") (kept for the refutation) *)
Definition sep : byte := 31%N.
Fixpoint encodeKey_asis (l : list kv) : bytes :=
  match l with
  | [] => []
  | [v] => encodeOne v
  | v :: l' => encodeOne v ++ sep :: encodeKey_asis l'
  end.

(* ---------- the property's key equality: numbers numerically, strings exactly ---------- *)
(* m1*2^e1 = m2*2^e2, compared after scaling both to the smaller exponent *)
Definition num_eqb (m1 e1 m2 e2 : Z) : bool :=
  let d := Z.min e1 e2 in (m1 * 2 ^ (e1 - d) =? m2 * 2 ^ (e2 - d)).
Definition key_eqb (a b : kv) : bool :=
  match a, b with
  | KNull, KNull => true        (* recorded, not judged: the code lets NULL match NULL *)
  | KInt x, KInt y => x =? y
  | KInt x, KFlt m e => num_eqb x 0 m e
  | KFlt m e, KInt y => num_eqb m e y 0
  | KFlt m e, KFlt m' e' => num_eqb m e m' e'
  | KStr s, KStr t => bytes_eqb s t
  | KBool x, KBool y => Bool.eqb x y
  | _, _ => false
  end.
Fixpoint tuple_eqb (a b : list kv) : bool :=
  match a, b with
  | [], [] => true
  | x :: a', y :: b' => key_eqb x y && tuple_eqb a' b'
  | _, _ => false
  end.

(* ---------- configuration, operations, observable results ---------- *)
Record jcfg := { j_table : bytes; j_left : bool; j_alias : bytes;
                 j_pairs : list (bytes * bytes) (* (stream field, table field) of ON *) }.
Record cfg := { c_src_alias : option bytes; c_joins : list jcfg }.

Inductive dkey := DSingle (v : kv) | DTuple (l : list kv).      (* Delete(key any) *)
Definition dkey_tuple (k : dkey) : list kv := match k with DSingle v => [v] | DTuple l => l end.

Inductive op :=
| OEmit (r : row) | OEmitSync (r : row)
| OUpsert (t : bytes) (r : row) | ODelete (t : bytes) (k : dkey).

Inductive wval := WV (v : kv) | WR (r : row).
Definition wmap := list (bytes * wval).          (* the working map of enrichJoin *)
Inductive eres := EErr | EDrop | ERow (w : wmap).
Inductive out := OutE (e : eres) | OutU (ok : bool) | OutD | OutG (ok : bool) (* RegisterTable[Source] returned *).

(* a history that may also (re-)register tables while rows are being processed: RegisterTable /
   RegisterTableSource under a name the store already has REPLACES the source of that name
   (tableStore.register: ts.sources[src.Name()] = src); enrichJoin resolves the name per row
   (s.tables.get(jc.Table)), UpsertTable resolves it per call. HDetached: an Upsert / Delete through the
   *MemoryTableSource handle of a source that has been replaced -- it writes to an object the store no
   longer holds. *)
Inductive hop :=
| HOp (o : op)
| HReg (name : bytes) (keys : list bytes) (rows : list row)
| HDetached (o : op).

(* working[k] = v *)
Fixpoint wset (k : bytes) (v : wval) (w : wmap) : wmap :=
  match w with
  | [] => [(k, v)]
  | (g, x) :: w' => if bytes_eqb g k then (g, v) :: w' else (g, x) :: wset k v w'
  end.

Section Store.
  Variable K : Type.
  Variable keq : K -> K -> bool.
  Variable keyf : list kv -> K.

  Definition index := list (K * row).                    (* MemoryTableSource.index *)
  Fixpoint slookup (k : K) (t : index) : option row :=
    match t with
    | [] => None
    | (k', r) :: t' => if keq k' k then Some r else slookup k t'
    end.
  Fixpoint sremove (k : K) (t : index) : index :=
    match t with
    | [] => []
    | (k', r) :: t' => if keq k' k then sremove k t' else (k', r) :: sremove k t'
    end.
  Definition sset (k : K) (r : row) (t : index) : index := (k, r) :: sremove k t.

  Record table := { t_keys : list bytes; t_idx : index }.
  Definition tables := list (bytes * table).             (* tableStore.sources *)

  Fixpoint tget (ts : tables) (name : bytes) : option table :=
    match ts with
    | [] => None
    | (n, t) :: ts' => if bytes_eqb n name then Some t else tget ts' name
    end.
  Fixpoint tput (ts : tables) (name : bytes) (t : table) : tables :=
    match ts with
    | [] => [(name, t)]
    | (n, x) :: ts' => if bytes_eqb n name then (n, t) :: ts' else (n, x) :: tput ts' name t
    end.

  (* encodeRow: the row's key-field values in indexed order *)
  Definition row_key (keys : list bytes) (r : row) : list kv := map (getnil r) keys.
  Definition t_upsert (t : table) (r : row) : table :=
    {| t_keys := t_keys t; t_idx := sset (keyf (row_key (t_keys t) r)) r (t_idx t) |}.
  Definition t_delete (t : table) (k : dkey) : table :=
    {| t_keys := t_keys t; t_idx := sremove (keyf (dkey_tuple k)) (t_idx t) |}.
  (* NewMemoryTableSource + tableStore.register *)
  Definition register (ts : tables) (name : bytes) (keys : list bytes) (rows : list row) : tables :=
    tput ts name (fold_left t_upsert rows {| t_keys := keys; t_idx := [] |}).

  (* enrichJoin: the loop over JoinConfigs *)
  Fixpoint enrich_joins (ts : tables) (data : row) (js : list jcfg) (w : wmap) : eres :=
    match js with
    | [] => ERow w
    | j :: js' =>
        match tget ts (j_table j) with
        | None => EErr
        | Some t =>
            let key := map (fun p => getnil data (fst p)) (j_pairs j) in
            match slookup (keyf key) (t_idx t) with
            | Some r => enrich_joins ts data js' (wset (j_alias j) (WR r) w)
            | None => if j_left j then enrich_joins ts data js' (wset (j_alias j) (WR []) w)
                      else EDrop
            end
        end
    end.
  Definition copy_row (data : row) : wmap := map (fun fv => (fst fv, WV (snd fv))) data.
  Definition enrich (c : cfg) (ts : tables) (data : row) : eres :=
    match c_joins c with
    | [] => ERow (copy_row data)
    | _ =>
        let w := copy_row data in
        let w := match c_src_alias c with Some a => wset a (WR data) w | None => w end in
        enrich_joins ts data (c_joins c) w
    end.

  (* one operation: new table state and what the caller observes *)
  Definition step (c : cfg) (ts : tables) (o : op) : tables * out :=
    match o with
    | OEmit r | OEmitSync r => (ts, OutE (enrich c ts r))
    | OUpsert name r =>
        match tget ts name with
        | Some t => (tput ts name (t_upsert t r), OutU true)
        | None => (ts, OutU false)
        end
    | ODelete name k =>
        match tget ts name with
        | Some t => (tput ts name (t_delete t k), OutD)
        | None => (ts, OutD)
        end
    end.
  Fixpoint run (c : cfg) (ts : tables) (ops : list op) : list out :=
    match ops with
    | [] => []
    | o :: ops' => let (ts', x) := step c ts o in x :: run c ts' ops'
    end.
  Fixpoint final (c : cfg) (ts : tables) (ops : list op) : tables :=
    match ops with
    | [] => ts
    | o :: ops' => final c (fst (step c ts o)) ops'
    end.
  Definition register_all (regs : list (bytes * list bytes * list row)) : tables :=
    fold_left (fun ts x => register ts (fst (fst x)) (snd (fst x)) (snd x)) regs [].

  (* histories with re-registration *)
  Definition hstep (c : cfg) (ts : tables) (h : hop) : tables * out :=
    match h with
    | HOp o => step c ts o
    | HReg name keys rows => (register ts name keys rows, OutG true)
    | HDetached _ => (ts, OutD)
    end.
  Fixpoint hrun (c : cfg) (ts : tables) (hs : list hop) : list out :=
    match hs with
    | [] => []
    | h :: hs' => let (ts', x) := hstep c ts h in x :: hrun c ts' hs'
    end.
  Fixpoint hfinal (c : cfg) (ts : tables) (hs : list hop) : tables :=
    match hs with
    | [] => ts
    | h :: hs' => hfinal c (fst (hstep c ts h)) hs'
    end.
End Store.

Arguments slookup {K}. Arguments sremove {K}. Arguments sset {K}.
Arguments t_keys {K}. Arguments t_idx {K}. Arguments tget {K}. Arguments tput {K}.

(* the code-level model: index keyed by the encoded string *)
Definition model_run (c : cfg) (regs : list (bytes * list bytes * list row)) (ops : list op) : list out :=
  run bytes bytes_eqb encodeKey c (register_all bytes bytes_eqb encodeKey regs) ops.
(* the abstract table: a finite map from key tuples (modulo key_eq) to rows *)
Definition id_key (l : list kv) : list kv := l.
Definition spec_run (c : cfg) (regs : list (bytes * list bytes * list row)) (ops : list op) : list out :=
  run (list kv) tuple_eqb id_key c (register_all (list kv) tuple_eqb id_key regs) ops.

Definition model_hrun (c : cfg) (regs : list (bytes * list bytes * list row)) (hs : list hop) : list out :=
  hrun bytes bytes_eqb encodeKey c (register_all bytes bytes_eqb encodeKey regs) hs.
Definition spec_hrun (c : cfg) (regs : list (bytes * list bytes * list row)) (hs : list hop) : list out :=
  hrun (list kv) tuple_eqb id_key c (register_all (list kv) tuple_eqb id_key regs) hs.

(* ---------- the JOIN clause as written: rsql/parser.go parseJoin / stripAliasPrefix,
              stream/stream.go JoinKeyFields, streamsql.go RegisterTable ----------
   "[INNER|LEFT [OUTER]] JOIN table [[AS] alias] ON f = f [AND f = f]...", each f "name" or "q.name". *)
Record onfield := { f_qual : option bytes; f_name : bytes }.
Record jtext := { jt_table : bytes; jt_left : bool; jt_alias : option bytes;
                  jt_on : list (onfield * onfield) (* (left of =, right of =) in textual order *) }.
Record qtext := { q_src_alias : option bytes; q_joins : list jtext }.

Definition qual_is (q : bytes) (a : option bytes) : bool :=
  match a with Some x => bytes_eqb q x | None => false end.
(* parseJoin: "if jc.Alias == "" { jc.Alias = jc.Table }" runs BEFORE the ON pairs are read, so an
   un-aliased table is addressed by its own name in ON as well as in SELECT / WHERE *)
Definition eff_alias (j : jtext) : bytes := match jt_alias j with Some a => a | None => jt_table j end.
(* stripAliasPrefix(field, streamAlias, tableAlias) *)
Definition strip_alias (sa : option bytes) (ta : bytes) (f : onfield) : bytes :=
  match f_qual f with
  | None => f_name f
  | Some q => if qual_is q sa || bytes_eqb q ta then f_name f else q ++ dot :: f_name f
  end.
(* as found, the code was positional: the field left of "=" is the stream field, the field right of it the table field *)
Definition on_pair_positional (sa : option bytes) (ta : bytes) (p : onfield * onfield) : bytes * bytes :=
  (strip_alias sa ta (fst p), strip_alias sa ta (snd p)).

(* the meaning of the clause: "=" is symmetric, a field belongs to the side its qualifier names
   (the comment of stripAliasPrefix: "which side a pair belongs to is determined by which alias it
   carries"); without a deciding qualifier the textual order stands (stream = table) *)
Definition table_side (sa : option bytes) (ta : bytes) (f : onfield) : bool :=
  match f_qual f with Some q => bytes_eqb q ta && negb (qual_is q sa) | None => false end.
Definition stream_side (sa : option bytes) (ta : bytes) (f : onfield) : bool :=
  match f_qual f with Some q => qual_is q sa && negb (bytes_eqb q ta) | None => false end.
Definition swapped (sa : option bytes) (ta : bytes) (p : onfield * onfield) : bool :=
  (table_side sa ta (fst p) && negb (table_side sa ta (snd p))) ||
  (stream_side sa ta (snd p) && negb (stream_side sa ta (fst p))).

(* the code (parseJoin with onFieldsSwapped; repaired, finding F56): an equality whose qualifiers say
   table = stream is turned around before the pair is stored *)
Definition on_pair_code (sa : option bytes) (ta : bytes) (p : onfield * onfield) : bytes * bytes :=
  if swapped sa ta p then on_pair_positional sa ta (snd p, fst p) else on_pair_positional sa ta p.
Definition parse_join_code (sa : option bytes) (j : jtext) : jcfg :=
  {| j_table := jt_table j; j_left := jt_left j; j_alias := eff_alias j;
     j_pairs := map (on_pair_code sa (eff_alias j)) (jt_on j) |}.
Definition parse_code (q : qtext) : cfg :=
  {| c_src_alias := q_src_alias q; c_joins := map (parse_join_code (q_src_alias q)) (q_joins q) |}.
(* ... and the code as found *)
Definition parse_join_asfound (sa : option bytes) (j : jtext) : jcfg :=
  {| j_table := jt_table j; j_left := jt_left j; j_alias := eff_alias j;
     j_pairs := map (on_pair_positional sa (eff_alias j)) (jt_on j) |}.
Definition parse_asfound (q : qtext) : cfg :=
  {| c_src_alias := q_src_alias q; c_joins := map (parse_join_asfound (q_src_alias q)) (q_joins q) |}.

Definition on_pair_spec (sa : option bytes) (ta : bytes) (p : onfield * onfield) : bytes * bytes :=
  if swapped sa ta p then on_pair_positional sa ta (snd p, fst p) else on_pair_positional sa ta p.
Definition parse_join_spec (sa : option bytes) (j : jtext) : jcfg :=
  {| j_table := jt_table j; j_left := jt_left j; j_alias := eff_alias j;
     j_pairs := map (on_pair_spec sa (eff_alias j)) (jt_on j) |}.
Definition parse_spec (q : qtext) : cfg :=
  {| c_src_alias := q_src_alias q; c_joins := map (parse_join_spec (q_src_alias q)) (q_joins q) |}.
Definition well_oriented (q : qtext) : bool :=
  forallb (fun j => forallb (fun p => negb (swapped (q_src_alias q) (eff_alias j) p)) (jt_on j)) (q_joins q).

(* Stream.JoinKeyFields: the table-side fields of the first JOIN that references the table *)
Fixpoint join_key_fields (js : list jcfg) (name : bytes) : option (list bytes) :=
  match js with
  | [] => None
  | j :: js' => if bytes_eqb (j_table j) name then Some (map snd (j_pairs j)) else join_key_fields js' name
  end.
(* Streamsql.RegisterTable(name, rows, keyFields...): no keyFields = derive them from ON
   (a table no JOIN references is an error there; the harness never registers one) *)
Definition reg_call := (bytes * option (list bytes) * list row)%type.
Definition resolve_reg (c : cfg) (r : reg_call) : bytes * list bytes * list row :=
  match r with
  | (name, Some keys, rows) => (name, keys, rows)
  | (name, None, rows) => (name, match join_key_fields (c_joins c) name with Some k => k | None => [] end, rows)
  end.
(* a whole case from the SQL text: the code-level model parses as the code does, the abstract
   specification by the meaning of the clause *)
Definition model_run_sql (q : qtext) (regs : list reg_call) (ops : list op) : list out :=
  let c := parse_code q in model_run c (map (resolve_reg c) regs) ops.
Definition spec_run_sql (q : qtext) (regs : list reg_call) (ops : list op) : list out :=
  let c := parse_spec q in spec_run c (map (resolve_reg c) regs) ops.
Definition model_run_sql_asfound (q : qtext) (regs : list reg_call) (ops : list op) : list out :=
  let c := parse_asfound q in model_run c (map (resolve_reg c) regs) ops.

(* the same for histories with re-registration: a RegisterTable call in the middle of the history derives
   its key fields from ON exactly as the first one does *)
Inductive hcall :=
| HCOp (o : op)
| HCReg (r : reg_call)
| HCDetached (o : op).
Definition resolve_hop (c : cfg) (h : hcall) : hop :=
  match h with
  | HCOp o => HOp o
  | HCReg r => let '(name, keys, rows) := resolve_reg c r in HReg name keys rows
  | HCDetached o => HDetached o
  end.
Definition model_hrun_sql (q : qtext) (regs : list reg_call) (hs : list hcall) : list out :=
  let c := parse_code q in model_hrun c (map (resolve_reg c) regs) (map (resolve_hop c) hs).
Definition spec_hrun_sql (q : qtext) (regs : list reg_call) (hs : list hcall) : list out :=
  let c := parse_spec q in spec_hrun c (map (resolve_reg c) regs) (map (resolve_hop c) hs).

(* ---------- projection of the working map (SELECT list with qualified columns) and WHERE ----------
   The projection and expression evaluators themselves are C05/C06's subject; this is the part the
   JOIN statement needs: "alias.col" reads the column of the row bound to the alias, NULL if the
   alias holds no such column. *)
Definition wget (w : wmap) (k : bytes) : option wval :=
  (fix go (w : wmap) := match w with
                        | [] => None
                        | (g, x) :: w' => if bytes_eqb g k then Some x else go w'
                        end) w.
Inductive path := PCol (c : bytes) | PQual (a c : bytes).
Definition wpath (w : wmap) (p : path) : kv :=
  match p with
  | PCol c => match wget w c with Some (WV v) => v | _ => KNull end
  | PQual a c => match wget w a with Some (WR r) => getnil r c | _ => KNull end
  end.
(* WHERE: comparisons of one column of the ENRICHED row (a stream column written bare or qualified by the
   FROM alias, a table column qualified by the JOIN alias) with a literal, IS [NOT] NULL, and AND / OR of them *)
Inductive wcond :=
| WTrue
| WStrEq (p : path) (s : bytes)
| WIsNull (p : path)
| WNotNull (p : path)
| WIntGt (p : path) (n : Z)        (* col > n for an integer column *)
| WAnd (a b : wcond)
| WOr (a b : wcond).
Fixpoint weval (w : wmap) (c : wcond) : bool :=
  match c with
  | WTrue => true
  | WStrEq p s => match wpath w p with KStr t => bytes_eqb t s | _ => false end
  | WIsNull p => match wpath w p with KNull => true | _ => false end
  | WNotNull p => match wpath w p with KNull => false | _ => true end
  | WIntGt p n => match wpath w p with KInt x => Z.ltb n x | _ => false end
  | WAnd a b => weval w a && weval w b
  | WOr a b => weval w a || weval w b
  end.
(* processDirectDataSync after enrichment: WHERE, then the SELECT list ([] = SELECT * ) *)
Definition project (sel : list (bytes * path)) (wc : wcond) (e : eres) : eres :=
  match e with
  | ERow w =>
      if weval w wc then
        match sel with
        | [] => ERow w
        | _ => ERow (fold_left (fun acc np => wset (fst np) (WV (wpath w (snd np))) acc) sel [])
        end
      else EDrop
  | _ => e
  end.
End JoinM.
