(* C14 — the direct path of a query with SEVERAL analytic select items and a WHERE that may combine a plain
   column test with an analytic call:
     stream/stream.go   applyWhereAndAnalytic, evalAnalytic (AnalyticEngine.Evaluate: every field engine - the
                        select items first, then the WHERE placeholders - is evaluated on the row; only then are
                        the results written into the row and the rewritten WHERE evaluated)
     rsql/analytic_extract.go  extractWhereAnalyticCalls (the call becomes the placeholder __analytic_0__)
   Executable definitions only. *)
From SV Require Export Model.Analytic.
From Coq Require Import Lia.

(* what the rewritten WHERE does with the placeholder's value *)
Inductive awtest :=
| AWTTrue              (* the bare call (had_changed): expr-lang AsBool *)
| AWTGt (z : Z).       (* <call> > z : a run-time error (NULL, text, bool operand) makes the condition false *)

Definition an_wtest (t : awtest) (o : aout) : bool :=
  match t, o with
  | AWTTrue, AOV (AVBool true) => true
  | AWTGt z, AOV (AVInt x) => (z <? x)%Z
  | AWTGt z, AOV (AVFlt x) => (z <? x)%Z
  | _, _ => false
  end.

Record amquery := { mq_items : list afield;                   (* the analytic select items, in order *)
                    mq_wcol : option bytes;                   (* WHERE n > 0 [AND ...] *)
                    mq_wan : option (afield * awtest);        (* WHERE [... AND] <analytic call> [> z] *)
                    mq_cap : nat }.

Definition an_mcolpass (q : amquery) (r : arow) : bool :=
  match mq_wcol q with Some n => an_pos r n | None => true end.

Record amstate := { ms_items : list afeng; ms_whr : afeng }.

Definition an_m0 (q : amquery) : amstate :=
  {| ms_items := map (fun _ => an_eng0 afstate aout) (mq_items q); ms_whr := an_eng0 _ _ |}.

(* AnalyticEngine.Evaluate over the select items: one engine per item, each sees the row *)
Fixpoint an_items_step (cap : nat) (fs : list afield) (es : list afeng) (r : arow) : list afeng * list aout :=
  match fs, es with
  | f :: ft, e :: et => let '(e', o) := an_fstep cap f e r in
                        let '(et', os) := an_items_step cap ft et r in (e' :: et', o :: os)
  | _, _ => ([], [])
  end.

(* applyWhereAndAnalytic: None = the row is filtered out *)
Definition an_mstep (q : amquery) (s : amstate) (r : arow) : amstate * option (list aout) :=
  match mq_wan q with
  | Some (wf, t) =>
      (* WHERE holds an analytic call: every engine runs first, on every row *)
      let '(es, os) := an_items_step (mq_cap q) (mq_items q) (ms_items s) r in
      let '(ew, w) := an_fstep (mq_cap q) wf (ms_whr s) r in
      ({| ms_items := es; ms_whr := ew |}, if an_mcolpass q r && an_wtest t w then Some os else None)
  | None =>
      if an_mcolpass q r then
        let '(es, os) := an_items_step (mq_cap q) (mq_items q) (ms_items s) r in
        ({| ms_items := es; ms_whr := ms_whr s |}, Some os)
      else (s, None)
  end.

Fixpoint an_mrun (q : amquery) (s : amstate) (h : list arow) : list (option (list aout)) :=
  match h with
  | [] => []
  | r :: t => let '(s1, o) := an_mstep q s r in o :: an_mrun q s1 t
  end.

(* EmitSync *)
Definition an_msync (q : amquery) (h : list arow) : list (option (list aout)) := an_mrun q (an_m0 q) h.

(* Emit: data channel (FIFO) + one consumer goroutine, under a schedule *)
Fixpoint an_masync (q : amquery) (sch : list asched) (pending chan : list arow) (s : amstate)
  : list (option (list aout)) :=
  match sch with
  | [] => an_mrun q s (chan ++ pending)
  | ASPush :: t => match pending with
                   | r :: p => an_masync q t p (chan ++ [r]) s
                   | [] => an_masync q t [] chan s
                   end
  | ASPop :: t => match chan with
                  | r :: c => let '(s1, o) := an_mstep q s r in o :: an_masync q t pending c s1
                  | [] => an_masync q t pending [] s
                  end
  end.
