(* Model of what lies between the counting window and the aggregator (C09): the window's output
   channel and the goroutine that consumes it, under ANY relative speed of the two.
   Code anchors:
     window/counting_window.go  Start (case row := <-triggerChan: cut, then sendResult(data))
                                sendResult, default ("drop") strategy:
                                   select { case outputChan <- data: sentCount++
                                            default: select { case <-outputChan:          // drop the OLDEST waiting batch
                                                                 select { case outputChan <- data: sentCount++
                                                                          default: droppedCount++ }
                                                              default: droppedCount++ } }
     stream/processor_data.go   startWindowProcessing: for { batch := <-outputChan; processWindowBatchSafe(batch) }
                                (one batch per receive; the aggregator is Reset after every batch)
   A schedule is a list of steps: [LAdd r] = the window goroutine processes row r (cw_add) and sends the batch
   it cuts, if any; [LTake] = the consumer goroutine receives the next waiting batch (no-op on an empty
   channel: the real consumer blocks). The consumer "lags" when LTake steps are rare: batches wait in the
   channel (lg_queue, oldest first), at most [cap] of them; one more evicts the oldest (which sendResult does
   NOT count in droppedCount: lg_evicted is a ghost counter, lg_sent / lg_dropped are the code's counters).
   The "block" strategy of sendResult (timeout, then the NEW batch is dropped and counted) is modelled on the
   same states and steps in Model/CountingBlock.v. *)
From SV Require Export Model.Counting.

Notation kbatch := (bytes * list krow)%type (only parsing).

Inductive lag_step := LAdd (r : krow) | LTake.

Record lag_state := mkLag {
  lg_win : cw_state;            (* keyedBuffer *)
  lg_queue : list kbatch;       (* outputChan, oldest first *)
  lg_taken : list kbatch;       (* batches the consumer received, in order: each is aggregated on its own *)
  lg_sent : nat;                (* sentCount *)
  lg_dropped : nat;             (* droppedCount *)
  lg_evicted : nat              (* ghost: waiting batches removed by "drop oldest" *)
}.

Definition lag_init : lag_state := mkLag [] [] [] 0 0 0.

(* sendResult, strategy "drop" *)
Definition lag_send (cap : nat) (s : lag_state) (b : kbatch) : lag_state :=
  if length (lg_queue s) <? cap
  then mkLag (lg_win s) (lg_queue s ++ [b]) (lg_taken s) (S (lg_sent s)) (lg_dropped s) (lg_evicted s)
  else match lg_queue s with
       | _ :: q' =>
           if length q' <? cap
           then mkLag (lg_win s) (q' ++ [b]) (lg_taken s) (S (lg_sent s)) (lg_dropped s) (S (lg_evicted s))
           else mkLag (lg_win s) q' (lg_taken s) (lg_sent s) (S (lg_dropped s)) (S (lg_evicted s))
       | [] => mkLag (lg_win s) [] (lg_taken s) (lg_sent s) (S (lg_dropped s)) (lg_evicted s)
       end.

Definition lag_do (key : krow -> bytes) (n cap : nat) (s : lag_state) (x : lag_step) : lag_state :=
  match x with
  | LAdd r =>
      let (w, o) := cw_add key n (lg_win s) r in
      fold_left (lag_send cap) o
        (mkLag w (lg_queue s) (lg_taken s) (lg_sent s) (lg_dropped s) (lg_evicted s))
  | LTake =>
      match lg_queue s with
      | [] => s
      | b :: q => mkLag (lg_win s) q (lg_taken s ++ [b]) (lg_sent s) (lg_dropped s) (lg_evicted s)
      end
  end.

Definition lag_run (key : krow -> bytes) (n cap : nat) (sched : list lag_step) : lag_state :=
  fold_left (lag_do key n cap) sched lag_init.

(* the Add sequence of a schedule *)
Fixpoint lag_adds (sched : list lag_step) : list krow :=
  match sched with
  | [] => []
  | LAdd r :: s' => r :: lag_adds s'
  | LTake :: s' => lag_adds s'
  end.

(* the schedule the harness realises (harness/c09lag.go), one episode: while the consumer is free it receives
   every batch as it appears ([free] = true: an LTake after every LAdd); it is then held on the batch it
   received last while the rows [held] are added; finally it drains the channel. *)
Definition lag_episode (free held : list krow) (cap : nat) : list lag_step :=
  flat_map (fun r => [LAdd r; LTake]) free ++ map LAdd held ++ repeat LTake (S cap).

(* the order-preserving "some elements removed" relation on lists, as a boolean on lists of id lists (used
   by the lossy checker) and as a predicate (used by the theorems) *)
Inductive sublist {A : Type} : list A -> list A -> Prop :=
| sub_nil : forall l, sublist [] l
| sub_keep : forall x a b, sublist a b -> sublist (x :: a) (x :: b)
| sub_skip : forall x a b, sublist a b -> sublist a (x :: b).
