(* Model of the STATETTL reaper of window/global_window.go.
   processRow stamps the row's group with lastActive = time.Now() (every row, not only the first of a cycle);
   the Start goroutine's ticker (armed only when the TTL is > 0) calls reapIdleKeys(now), which deletes every group
   with now - lastActive > TTL. Rows and ticks are handled by one goroutine, so a history is a sequence of
   operations. Instead of absolute times the model keeps, per key, the time that has passed since the group's last
   row (its idle age): a row resets the age of its group to 0, the passage of d ms adds d to every age.
   Executable definitions only. *)
From Coq Require Export List ZArith QArith Bool NArith.
From SV Require Export Model.GlobalWin.
Export ListNotations.

Inductive gt_op :=
| GtRow (r : gw_row)     (* processRow *)
| GtAge (d : Z)          (* d ms pass *)
| GtReap.                (* a tick of the reaper: reapIdleKeys(now) *)

(* idle age per key (ms); a key that never had a row has no entry *)
Definition gt_ages := list (list N * Z).

Fixpoint gt_age_of (k : list N) (a : gt_ages) : Z :=
  match a with
  | [] => 0%Z
  | (k', x) :: t => if gw_key_eqb k' k then x else gt_age_of k t
  end.
Fixpoint gt_age_remove (k : list N) (a : gt_ages) : gt_ages :=
  match a with
  | [] => []
  | (k', x) :: t => if gw_key_eqb k' k then gt_age_remove k t else (k', x) :: gt_age_remove k t
  end.
Definition gt_touch (k : list N) (a : gt_ages) : gt_ages := (k, 0%Z) :: gt_age_remove k a.
Definition gt_pass (d : Z) (a : gt_ages) : gt_ages := map (fun ka => (fst ka, (snd ka + d)%Z)) a.

Definition gt_state := (gw_state * gt_ages)%type.

(* reapIdleKeys; the ticker exists only for TTL > 0 *)
Definition gt_reap (ttl : Z) (s : gt_state) : gw_state :=
  if (0 <? ttl)%Z then filter (fun kg => (gt_age_of (fst kg) (snd s) <=? ttl)%Z) (fst s) else fst s.

Definition gt_step (c : gw_config) (ttl : Z) (s : gt_state) (op : gt_op) : gt_state * option gw_res :=
  match op with
  | GtRow r => let so := gw_step c (fst s) r in ((fst so, gt_touch (gw_key r) (snd s)), snd so)
  | GtAge d => ((fst s, gt_pass d (snd s)), None)
  | GtReap => ((gt_reap ttl s, snd s), None)
  end.

(* one output (None = nothing delivered) per row of the history *)
Fixpoint gt_run (c : gw_config) (ttl : Z) (s : gt_state) (ops : list gt_op) : list (option gw_res) :=
  match ops with
  | [] => []
  | op :: t =>
      let so := gt_step c ttl s op in
      match op with
      | GtRow _ => snd so :: gt_run c ttl (fst so) t
      | _ => gt_run c ttl (fst so) t
      end
  end.
Definition gt_run0 (c : gw_config) (ttl : Z) (ops : list gt_op) : list (option gw_res) := gt_run c ttl ([], []) ops.

Fixpoint gt_rows (ops : list gt_op) : list gw_row :=
  match ops with
  | [] => []
  | GtRow r :: t => r :: gt_rows t
  | _ :: t => gt_rows t
  end.

(* a history in which no group that ever had a row is idle for longer than the TTL when the reaper ticks *)
Fixpoint gt_quiet (ttl : Z) (a : gt_ages) (ops : list gt_op) : bool :=
  match ops with
  | [] => true
  | GtRow r :: t => gt_quiet ttl (gt_touch (gw_key r) a) t
  | GtAge d :: t => gt_quiet ttl (gt_pass d a) t
  | GtReap :: t => forallb (fun ka => (snd ka <=? ttl)%Z) a && gt_quiet ttl a t
  end.
Definition gt_quiet0 (ttl : Z) (ops : list gt_op) : bool := gt_quiet ttl [] ops.
