(* C14 — PARTITION BY keys that are PATHS into nested event rows (PARTITION BY meta.site, a.b.c):
     stream/analytic.go        resolvePartitionField (row[key], then fieldpath.GetNestedField, then the
                               "qualified column" suffix fallback lookupRowField), partitionKey
     utils/fieldpath           ParseFieldPath (split on '.'), GetNestedField / getFieldValue (map[string]any steps;
                               a nil or scalar on the way = not found; a NULL leaf IS found)
     stream/processor_field.go lookupRowField (row[key], else row[text after the last '.'])
   The rows of this family are trees: a column holds a scalar or a map of columns.  The model resolves the dotted
   PARTITION BY keys of the query on the tree and hands the engine of Model/Analytic.v a flat row that binds the
   resolved value to a column named like the key (an_flatten), so every definition and theorem about flat rows
   applies unchanged.
   [fb] = the suffix fallback: true is the code as it is; false is the declarative reading "the partition value
   is the value at the path, NULL when the path leads nowhere" (Spec/AnalyticPathSpec.v).
   Outside the model (never generated; an_resolve_ok is tested by the driver): a partition path that ends at a
   map, bracket / quoted path syntax, empty path segments.  Executable definitions only. *)
From SV Require Export Model.Analytic Model.AnalyticMulti.

Inductive anval :=
| ANLeaf (v : aval)                       (* scalar or NULL *)
| ANMap (m : list (bytes * anval)).       (* map[string]any *)

Definition anrow := list (bytes * anval).

(* strings.Split(key, ".") *)
Fixpoint an_split_dot (k : bytes) : list bytes :=
  match k with
  | [] => [[]]
  | c :: t => if (c =? 46)%N then [] :: an_split_dot t
              else match an_split_dot t with
                   | s :: rest => (c :: s) :: rest
                   | [] => [[c]]
                   end
  end.

Definition an_has_dot (k : bytes) : bool := existsb (N.eqb 46%N) k.

(* key[strings.LastIndex(key, ".")+1:] *)
Definition an_suffix (k : bytes) : bytes := last (an_split_dot k) [].

Definition an_nonempty (b : bytes) : bool := match b with [] => false | _ => true end.

(* GetNestedField: one getFieldValue per segment; only a map can be stepped into *)
Fixpoint an_path_get (path : list bytes) (cur : anval) : option anval :=
  match path with
  | [] => Some cur
  | p :: t => match cur with
              | ANMap m => match alookup p m with Some x => an_path_get t x | None => None end
              | ANLeaf _ => None
              end
  end.

(* lookupRowField after its direct lookup failed: the text after the last '.' as a top-level column *)
Definition an_suffix_get (r : anrow) (key : bytes) : option anval :=
  if an_has_dot key && an_nonempty (an_suffix key) then alookup (an_suffix key) r else None.

(* resolvePartitionField *)
Definition an_resolve_x (fb : bool) (r : anrow) (key : bytes) : option anval :=
  match alookup key r with
  | Some x => Some x                                            (* a column literally named like the key *)
  | None =>
      match an_path_get (an_split_dot key) (ANMap r) with
      | Some x => Some x                                        (* the nested path *)
      | None => if fb then an_suffix_get r key else None        (* table.col -> col *)
      end
  end.

Definition an_scalar (x : option anval) : aval := match x with Some (ANLeaf v) => v | _ => AVNull end.

Definition an_resolve (fb : bool) (r : anrow) (key : bytes) : aval := an_scalar (an_resolve_x fb r key).

(* the model covers the row for this key: the resolved value is not a map *)
Definition an_resolve_ok (r : anrow) (key : bytes) : bool :=
  match an_resolve_x true r key with Some (ANMap _) => false | _ => true end.

(* the suffix fallback decides the value of this key on this row *)
Definition an_fallback_hit (r : anrow) (key : bytes) : bool :=
  match alookup key r, an_path_get (an_split_dot key) (ANMap r) with
  | None, None => match an_suffix_get r key with Some _ => true | None => false end
  | _, _ => false
  end.

(* ---------------------------------------------------------------- the flat row handed to the engines *)
Definition an_mem (k : bytes) (l : list bytes) : bool := existsb (bytes_eqb k) l.

Fixpoint an_dedup (l : list bytes) : list bytes :=
  match l with
  | [] => []
  | k :: t => if an_mem k t then an_dedup t else k :: an_dedup t
  end.

Definition an_dotted (keys : list bytes) : list bytes := an_dedup (filter an_has_dot keys).

(* the scalar top-level columns *)
Definition an_leaves (r : anrow) : arow :=
  flat_map (fun kv => match snd kv with ANLeaf v => [(fst kv, v)] | ANMap _ => [] end) r.

(* every dotted key of the query bound to its resolved value, then the scalar top-level columns (a plain
   PARTITION BY column, and every column an argument / WHEN / WHERE names, is one of them) *)
Definition an_flatten (fb : bool) (keys : list bytes) (r : anrow) : arow :=
  map (fun k => (k, an_resolve fb r k)) (an_dotted keys)
  ++ filter (fun kv => negb (an_mem (fst kv) (an_dotted keys))) (an_leaves r).

(* the PARTITION BY keys of a query: of every select item and of the analytic call in WHERE *)
Definition an_mkeys (q : amquery) : list bytes :=
  flat_map af_part (mq_items q) ++ match mq_wan q with Some (wf, _) => af_part wf | None => [] end.

Definition an_nflat (fb : bool) (q : amquery) (h : list anrow) : list arow := map (an_flatten fb (an_mkeys q)) h.

(* EmitSync / Emit on tree rows: the code as it is resolves with the fallback *)
Definition an_nmsync (q : amquery) (h : list anrow) : list (option (list aout)) := an_msync q (an_nflat true q h).

Definition an_nmasync (q : amquery) (sch : list asched) (h : list anrow) : list (option (list aout)) :=
  an_masync q sch (an_nflat true q h) [] (an_m0 q).

Definition an_nrows_ok (q : amquery) (h : list anrow) : bool :=
  forallb (fun r => forallb (an_resolve_ok r) (an_mkeys q)) h.
