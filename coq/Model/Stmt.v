(* C11 -- spec-level statement skeleton of the documented SELECT grammar, its printer to a token
   list and a reference parser on token lists.  This is NOT a model of rsql/parser.go (3000 lines of
   hand-written, heuristic code); it is the meaning the property assigns to a written statement:
     SELECT [DISTINCT] item {, item} FROM src [AS alias] {[LEFT] JOIN tbl [AS alias] ON f = f {AND f = f}}
       [WHERE cond] [GROUP BY col|window {, col|window}] [HAVING cond]
       [WITH ( OPTION = 'value' {, OPTION = 'value'} )] [ORDER BY col [ASC|DESC] {, ...}] [LIMIT n]
   The Go parser (rsql.Parse + ToStreamConfig) is compared with [parse_ref] on generated statements.
   Not covered by the skeleton: MATCH_RECOGNIZE, OVER(...), GLOBAL WINDOW ... TRIGGER WHEN. *)
From SV Require Export Model.Lexer.
Local Open Scope N_scope.

Definition ty_is (ty : N) (t : token) : bool := N.eqb (ttype t) ty.
Definition kw (ty : N) : token := mkTok ty [].                 (* canonical keyword token: the spelling is irrelevant *)
Definition canon (t : token) : token := if is_kw_type (ttype t) then kw (ttype t) else t.
Definition is_canon (t : token) : bool := negb (is_kw_type (ttype t)) || match tval t with [] => true | _ => false end.
Fixpoint spelling (ty : N) (l : list (bytes * N)) : bytes :=
  match l with [] => [] | (k, v) :: l' => if N.eqb v ty then k else spelling ty l' end.
Definition spell (t : token) : token :=
  if is_kw_type (ttype t) then mkTok (ttype t) (spelling (ttype t) keywords) else t.

Definition t_comma := mkTok T_Comma [44].
Definition t_lp := mkTok T_LParen [40].
Definition t_rp := mkTok T_RParen [41].
Definition t_eq := mkTok T_EQ [61].
Definition ident (b : bytes) : token := mkTok T_Ident b.
(* words the lexer returns as TokenIdent and the parser recognises by upper-cased value *)
Definition ieq (w : bytes) (t : token) : bool := ty_is T_Ident t && bytes_eqb (map upper (tval t)) w.
Definition is_boundary_ident (t : token) : bool := existsb (fun w => ieq w t) boundary_words.

(* ---- the skeleton ---- *)
Record item := mkItem { it_expr : list token; it_alias : option bytes }.
Record wincall := mkWin { w_kind : N; w_params : list token }.
Record join := mkJoin { j_left : bool; j_table : bytes; j_alias : option bytes; j_on : list (bytes * bytes) }.
Record okey := mkKey { ok_col : bytes; ok_desc : bool }.
Record stmt := mkStmt {
  s_distinct : bool; s_items : list item; s_source : bytes; s_alias : option bytes;
  s_joins : list join; s_where : list token; s_group : list bytes; s_window : option wincall;
  s_having : list token; s_with : list (N * bytes); s_order : list okey; s_limit : option bytes }.

Inductive gitem := GCol (c : bytes) | GWin (w : wincall).

(* ---- printer (canonical tokens) ---- *)
Fixpoint pr_sep {A : Type} (pr : A -> list token) (sep : token) (xs : list A) : list token :=
  match xs with
  | [] => []
  | x :: xs' => pr x ++ match xs' with [] => [] | _ => sep :: pr_sep pr sep xs' end
  end.
Definition pr_alias (a : option bytes) : list token :=
  match a with Some x => [kw T_AS; ident x] | None => [] end.
Definition pr_item (i : item) : list token := it_expr i ++ pr_alias (it_alias i).
Definition pr_pair (p : bytes * bytes) : list token := [ident (fst p); t_eq; ident (snd p)].
Definition pr_join (j : join) : list token :=
  (if j_left j then [ident W_LEFT] else []) ++ ident W_JOIN :: ident (j_table j) :: pr_alias (j_alias j)
  ++ ident W_ON :: pr_sep pr_pair (kw T_AND) (j_on j).
Definition pr_win (w : wincall) : list token :=
  kw (w_kind w) :: t_lp :: pr_sep (fun p => [p]) t_comma (w_params w) ++ [t_rp].
Definition pr_gitem (g : gitem) : list token := match g with GCol c => [ident c] | GWin w => pr_win w end.
Definition gitems (cols : list bytes) (w : option wincall) : list gitem :=
  map GCol cols ++ match w with Some x => [GWin x] | None => [] end.
Definition pr_opt (o : N * bytes) : list token := [kw (fst o); t_eq; mkTok T_String (snd o)].
Definition pr_key (k : okey) : list token := ident (ok_col k) :: if ok_desc k then [ident W_DESC] else [].
Definition pr_clause (k : list token) (body : list token) : list token :=
  match body with [] => [] | _ => k ++ body end.

Definition print0 (st : stmt) : list token :=
  kw T_SELECT :: (if s_distinct st then [kw T_DISTINCT] else [])
  ++ pr_sep pr_item t_comma (s_items st)
  ++ kw T_FROM :: ident (s_source st) :: pr_alias (s_alias st)
  ++ concat (map pr_join (s_joins st))
  ++ pr_clause [kw T_WHERE] (s_where st)
  ++ pr_clause [kw T_GROUP; kw T_BY] (pr_sep pr_gitem t_comma (gitems (s_group st) (s_window st)))
  ++ pr_clause [kw T_HAVING] (s_having st)
  ++ pr_clause [kw T_WITH; t_lp] (match s_with st with [] => [] | l => pr_sep pr_opt t_comma l ++ [t_rp] end)
  ++ pr_clause [kw T_Order; kw T_BY] (pr_sep pr_key t_comma (s_order st))
  ++ match s_limit st with Some n => [kw T_LIMIT; mkTok T_Number n] | None => [] end.
(* the same with the keywords spelled out (upper case), ready to be rendered as bytes *)
Definition print (st : stmt) : list token := map spell (print0 st).

(* ---- reference parser on canonical tokens ---- *)
Definition hd_is (f : token -> bool) (toks : list token) : bool :=
  match toks with t :: _ => f t | [] => false end.
Definition expect (f : token -> bool) (toks : list token) : option (token * list token) :=
  match toks with t :: r => if f t then Some (t, r) else None | [] => None end.

Section SepBy.
  Context {A : Type} (p : list token -> option (A * list token)) (sep : N).
  Fixpoint sep_by (fuel : nat) (toks : list token) : option (list A * list token) :=
    match fuel with
    | O => None
    | S f =>
      match p toks with
      | None => None
      | Some (x, r) =>
        if hd_is (ty_is sep) r
        then match sep_by f (tl r) with Some (xs, r') => Some (x :: xs, r') | None => None end
        else Some ([x], r)
      end
    end.
End SepBy.

(* select item: tokens up to a top-level Comma / FROM / AS, parentheses tracked *)
Definition item_stop (t : token) : bool := ty_is T_Comma t || ty_is T_FROM t || ty_is T_AS t.
Fixpoint take_expr (d : nat) (toks : list token) : list token * list token :=
  match toks with
  | [] => ([], [])
  | t :: r =>
    if Nat.eqb d 0 && item_stop t then ([], toks)
    else let d' := if ty_is T_LParen t then S d else if ty_is T_RParen t then Nat.pred d else d in
         let (a, b) := take_expr d' r in (t :: a, b)
  end.
Definition p_alias (toks : list token) : option (option bytes * list token) :=
  match toks with
  | t :: r => if ty_is T_AS t
              then match r with a :: r' => if ty_is T_Ident a then Some (Some (tval a), r') else None | [] => None end
              else Some (None, toks)
  | [] => Some (None, [])
  end.
Definition p_item (toks : list token) : option (item * list token) :=
  let (e, r) := take_expr 0 toks in
  match e with
  | [] => None
  | _ => match p_alias r with Some (a, r') => Some (mkItem e a, r') | None => None end
  end.

(* FROM / JOIN alias: AS ident, or a bare identifier that is not a clause word *)
Definition p_alias2 (toks : list token) : option (option bytes * list token) :=
  match toks with
  | t :: r =>
    if ty_is T_AS t then match r with a :: r' => if ty_is T_Ident a then Some (Some (tval a), r') else None | [] => None end
    else if ty_is T_Ident t && negb (is_boundary_ident t) then Some (Some (tval t), r)
    else Some (None, toks)
  | [] => Some (None, [])
  end.
Definition p_pair (toks : list token) : option ((bytes * bytes) * list token) :=
  match toks with
  | a :: e :: b :: r => if ty_is T_Ident a && ty_is T_EQ e && ty_is T_Ident b then Some ((tval a, tval b), r) else None
  | _ => None
  end.
Definition join_start (t : token) : bool := ieq W_JOIN t || ieq W_INNER t || ieq W_LEFT t.
Definition p_join_head (toks : list token) : option (bool * list token) :=
  match toks with
  | t :: r =>
    if ieq W_JOIN t then Some (false, r)
    else if ieq W_INNER t then match expect (ieq W_JOIN) r with Some (_, r') => Some (false, r') | None => None end
    else if ieq W_LEFT t then
      let r1 := if hd_is (ieq W_OUTER) r then tl r else r in
      match expect (ieq W_JOIN) r1 with Some (_, r') => Some (true, r') | None => None end
    else None
  | [] => None
  end.
Definition p_join (fuel : nat) (toks : list token) : option (join * list token) :=
  match p_join_head toks with
  | None => None
  | Some (lf, r) =>
    match expect (ty_is T_Ident) r with
    | None => None
    | Some (tb, r1) =>
      match p_alias2 r1 with
      | None => None
      | Some (al, r2) =>
        match expect (ieq W_ON) r2 with
        | None => None
        | Some (_, r3) =>
          match sep_by p_pair T_AND fuel r3 with
          | Some (ps, r4) => Some (mkJoin lf (tval tb) al ps, r4)
          | None => None
          end
        end
      end
    end
  end.
Fixpoint p_joins (fuel : nat) (toks : list token) : option (list join * list token) :=
  match fuel with
  | O => None
  | S f =>
    if hd_is join_start toks
    then match p_join fuel toks with
         | Some (j, r) => match p_joins f r with Some (js, r') => Some (j :: js, r') | None => None end
         | None => None
         end
    else Some ([], toks)
  end.

(* WHERE / HAVING condition: the tokens up to the next clause *)
Definition is_win_kind (ty : N) : bool :=
  N.eqb ty T_Tumbling || N.eqb ty T_Sliding || N.eqb ty T_Counting || N.eqb ty T_Session.
Definition cond_stop (t : token) : bool :=
  ty_is T_GROUP t || is_win_kind (ttype t) || ty_is T_Global t || ty_is T_HAVING t || ty_is T_LIMIT t
  || ty_is T_WITH t || ty_is T_Order t.
Fixpoint break_at (f : token -> bool) (toks : list token) : list token * list token :=
  match toks with
  | [] => ([], [])
  | t :: r => if f t then ([], toks) else let (a, b) := break_at f r in (t :: a, b)
  end.
Definition p_cond (k : N) (toks : list token) : list token * list token :=
  if hd_is (ty_is k) toks then break_at cond_stop (tl toks) else ([], toks).

Definition p_param (toks : list token) : option (token * list token) :=
  expect (fun t => ty_is T_Number t || ty_is T_String t) toks.
Definition p_gitem (fuel : nat) (toks : list token) : option (gitem * list token) :=
  match toks with
  | t :: r =>
    if ty_is T_Ident t then Some (GCol (tval t), r)
    else if is_win_kind (ttype t) then
      match expect (ty_is T_LParen) r with
      | None => None
      | Some (_, r1) =>
        match sep_by p_param T_Comma fuel r1 with
        | None => None
        | Some (ps, r2) =>
          match expect (ty_is T_RParen) r2 with
          | Some (_, r3) => Some (GWin (mkWin (ttype t) ps), r3)
          | None => None
          end
        end
      end
    else None
  | [] => None
  end.
Fixpoint g_cols (gs : list gitem) : list bytes :=
  match gs with [] => [] | GCol c :: r => c :: g_cols r | GWin _ :: r => g_cols r end.
Fixpoint g_win (gs : list gitem) : option wincall :=
  match gs with [] => None | GCol _ :: r => g_win r | GWin w :: r => match g_win r with Some w' => Some w' | None => Some w end end.
Definition p_group (fuel : nat) (toks : list token) : option (list gitem * list token) :=
  match toks with
  | g :: b :: r => if ty_is T_GROUP g then (if ty_is T_BY b then sep_by (p_gitem fuel) T_Comma fuel r else None)
                   else Some ([], toks)
  | g :: r => if ty_is T_GROUP g then None else Some ([], toks)
  | [] => Some ([], [])
  end.

Definition is_opt_kind (ty : N) : bool :=
  N.eqb ty T_Timestamp || N.eqb ty T_TimeUnit || N.eqb ty T_MaxOOO || N.eqb ty T_AllowedLateness
  || N.eqb ty T_IdleTimeout || N.eqb ty T_StateTTL.
Definition p_opt (toks : list token) : option ((N * bytes) * list token) :=
  match toks with
  | k :: e :: v :: r => if is_opt_kind (ttype k) && ty_is T_EQ e && ty_is T_String v then Some ((ttype k, tval v), r) else None
  | _ => None
  end.
Definition p_with (fuel : nat) (toks : list token) : option (list (N * bytes) * list token) :=
  if hd_is (ty_is T_WITH) toks then
    match expect (ty_is T_LParen) (tl toks) with
    | None => None
    | Some (_, r1) =>
      match sep_by p_opt T_Comma fuel r1 with
      | None => None
      | Some (os, r2) => match expect (ty_is T_RParen) r2 with Some (_, r3) => Some (os, r3) | None => None end
      end
    end
  else Some ([], toks).

Definition p_key (toks : list token) : option (okey * list token) :=
  match toks with
  | c :: r =>
    if ty_is T_Ident c then
      if hd_is (ieq W_DESC) r then Some (mkKey (tval c) true, tl r)
      else if hd_is (ieq W_ASC) r then Some (mkKey (tval c) false, tl r)
      else Some (mkKey (tval c) false, r)
    else None
  | [] => None
  end.
Definition p_order (fuel : nat) (toks : list token) : option (list okey * list token) :=
  match toks with
  | o :: b :: r => if ty_is T_Order o then (if ty_is T_BY b then sep_by p_key T_Comma fuel r else None)
                   else Some ([], toks)
  | o :: r => if ty_is T_Order o then None else Some ([], toks)
  | [] => Some ([], [])
  end.
Definition p_limit (toks : list token) : option (option bytes * list token) :=
  match toks with
  | l :: r => if ty_is T_LIMIT l
              then match r with n :: r' => if ty_is T_Number n then Some (Some (tval n), r') else None | [] => None end
              else Some (None, toks)
  | [] => Some (None, [])
  end.

Definition parse_core (toks : list token) : option stmt :=
  let fuel := S (List.length toks) in
  match toks with
  | [] => None
  | s :: r0 =>
    if negb (ty_is T_SELECT s) then None else
    let (dist, r1) := if hd_is (ty_is T_DISTINCT) r0 then (true, tl r0) else (false, r0) in
    match sep_by p_item T_Comma fuel r1 with
    | None => None
    | Some (items, r2) =>
      match r2 with
      | f :: src :: r3 =>
        if negb (ty_is T_FROM f && ty_is T_Ident src) then None else
        match p_alias2 r3 with
        | None => None
        | Some (al, r4) =>
          match p_joins fuel r4 with
          | None => None
          | Some (js, r5) =>
            let (wh, r6) := p_cond T_WHERE r5 in
            match p_group fuel r6 with
            | None => None
            | Some (gs, r7) =>
              let (hv, r8) := p_cond T_HAVING r7 in
              match p_with fuel r8 with
              | None => None
              | Some (ws, r9) =>
                match p_order fuel r9 with
                | None => None
                | Some (ks, r10) =>
                  match p_limit r10 with
                  | Some (lim, []) =>
                    Some (mkStmt dist items (tval src) al js wh (g_cols gs) (g_win gs) hv ws ks lim)
                  | _ => None
                  end
                end
              end
            end
          end
        end
      | _ => None
      end
    end
  end.

(* the reference parser on a real token stream: keyword spelling (case) is dropped first *)
Definition parse_ref (toks : list token) : option stmt := parse_core (map canon toks).

(* ---- the text rsql.Parse returns for WHERE and stores for HAVING (parseWhere / parseHaving) ---- *)
Definition cond_piece (t : token) : bytes :=
  if ty_is T_EQ t then (match tval t with [61] => [61; 61] | v => v end)
  else if ty_is T_AND t then [38; 38]
  else if ty_is T_OR t then [124; 124]
  else if is_kw_type (ttype t) then spelling (ttype t) keywords
  else tval t.
Fixpoint join_sp (l : list bytes) : bytes :=
  match l with [] => [] | x :: l' => x ++ match l' with [] => [] | _ => 32 :: join_sp l' end end.
Definition cond_text (toks : list token) : bytes := join_sp (map cond_piece toks).

(* ---- well-formed skeletons (side condition of the round-trip theorem) ---- *)
Definition clause_kw (t : token) : bool :=
  ty_is T_SELECT t || ty_is T_DISTINCT t || ty_is T_FROM t || ty_is T_WHERE t || ty_is T_GROUP t
  || ty_is T_HAVING t || ty_is T_WITH t || ty_is T_Order t || ty_is T_LIMIT t || ty_is T_AS t.
(* parentheses balanced, no Comma outside parentheses *)
Fixpoint scan (d : nat) (e : list token) : option nat :=
  match e with
  | [] => Some d
  | t :: r =>
    if Nat.eqb d 0 && item_stop t then None
    else if ty_is T_RParen t && Nat.eqb d 0 then None
    else scan (if ty_is T_LParen t then S d else if ty_is T_RParen t then Nat.pred d else d) r
  end.
Definition wf_expr (e : list token) : bool :=
  match e with [] => false | _ => true end
  && forallb is_canon e && forallb (fun t => negb (clause_kw t)) e
  && match scan 0 e with Some O => true | _ => false end.
Definition wf_cond (c : list token) : bool :=
  forallb is_canon c && forallb (fun t => negb (cond_stop t)) c.
Definition wf_win (w : wincall) : bool :=
  is_win_kind (w_kind w) && match w_params w with [] => false | _ => true end
  && forallb (fun t => ty_is T_Number t || ty_is T_String t) (w_params w).
Definition wf_join (j : join) : bool := match j_on j with [] => false | _ => true end.
Definition wf_stmt (st : stmt) : bool :=
  match s_items st with [] => false | _ => true end
  && forallb (fun i => wf_expr (it_expr i)) (s_items st)
  && forallb wf_join (s_joins st)
  && wf_cond (s_where st) && wf_cond (s_having st)
  && match s_window st with Some w => wf_win w | None => true end
  && forallb (fun o => is_opt_kind (fst o)) (s_with st).
