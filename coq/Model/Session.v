(* Model of window/session_window.go (event time). Every critical section of sw.mu is one step. *)
From SV Require Export Model.Watermark.

Definition krow := (Z * Z * Z)%type.              (* (id, timestamp, key) *)
Definition kid (r : krow) := fst (fst r).
Definition kts (r : krow) := snd (fst r).
Definition kkey (r : krow) := snd r.

Record ncfg := { ntimeout : Z; nooo : Z; nlateness : Z }.

Record sess := { se_rows : list krow; se_last : Z (* lastActive *); se_start : Z; se_end : Z (* slot *) }.
Record tsess := { ts_sess : sess; ts_close : Z }.                (* sessionInfo *)

Record nst := { n_sess : list (Z * sess);         (* sessionMap *)
                n_trig : list (Z * tsess);        (* triggeredSessions *)
                n_w : wm; n_pend : option Z }.
Definition nst0 : nst := {| n_sess := []; n_trig := []; n_w := wm0; n_pend := None |}.

Inductive sev :=
| SvAdd (id ts key : Z) | SvNoTs (id : Z) | SvTick | SvDB (wmk : Z) | SvD0 | SvDE
| SvBatch (key start end_ : Z) (rows : list krow).

Inductive nop :=
| NAdd (id ts key now : Z) | NAddNoTs (id : Z) | NDeliverBegin | NFire | NTick (now : Z).

Fixpoint lookup {A} (k : Z) (l : list (Z * A)) : option A :=
  match l with [] => None | (k', v) :: r => if k =? k' then Some v else lookup k r end.
Fixpoint remove_key {A} (k : Z) (l : list (Z * A)) : list (Z * A) :=
  match l with [] => [] | (k', v) :: r => if k =? k' then remove_key k r else (k', v) :: remove_key k r end.
(* insert or replace (Go map assignment); the order of the list carries no meaning *)
Definition put {A} (k : Z) (v : A) (l : list (Z * A)) : list (Z * A) := (k, v) :: remove_key k l.

(* Go ranges over the map in arbitrary order; the harness sorts the results of one delivery by key,
   and so does the model: insertion sort by key *)
Fixpoint kins {A} (x : Z * A) (l : list (Z * A)) : list (Z * A) :=
  match l with [] => [x] | y :: r => if fst x <=? fst y then x :: l else y :: kins x r end.
Definition ksort {A} (l : list (Z * A)) : list (Z * A) := fold_right kins [] l.

Definition in_sess (s : sess) (ts : Z) : bool := (se_start s <=? ts) && (ts <? se_end s).

Definition nadd (c : ncfg) (id ts key now : Z) (s : nst) : nst * list sev :=
  let w' := update_event_time (nooo c) now ts (n_w s) in
  let row := (id, ts, key) in
  let ev0 := SvAdd id ts key in
  (* a far-future (corrupt) timestamp is ignored by the watermark and dropped by the window *)
  if now + nooo c + day <? ts then ({| n_sess := n_sess s; n_trig := n_trig s; n_w := w'; n_pend := n_pend s |}, [ev0]) else
  if is_late ts w' then
    (* late: absorbed by the still-open triggered session of its own key, else dropped *)
    let dropped := ({| n_sess := n_sess s; n_trig := n_trig s; n_w := w'; n_pend := n_pend s |}, [ev0]) in
    if 0 <? nlateness c then
      match lookup key (n_trig s) with
      | Some t =>
          if in_sess (ts_sess t) ts then
            let se := ts_sess t in
            let se' := {| se_rows := se_rows se ++ [row]; se_last := se_last se; se_start := se_start se; se_end := se_end se |} in
            ({| n_sess := n_sess s; n_trig := put key {| ts_sess := se'; ts_close := ts_close t |} (n_trig s); n_w := w'; n_pend := n_pend s |},
             [ev0; SvBatch key (se_start se') (se_end se') (se_rows se')])
          else dropped
      | None => dropped
      end
    else dropped
  else
    let se' := match lookup key (n_sess s) with
               | None => {| se_rows := [row]; se_last := ts; se_start := ts; se_end := ts + ntimeout c |}
               | Some se =>
                   if se_last se <? ts
                   then {| se_rows := se_rows se ++ [row]; se_last := ts; se_start := se_start se;
                           se_end := Z.max (se_end se) (ts + ntimeout c) |}
                   else {| se_rows := se_rows se ++ [row]; se_last := se_last se; se_start := se_start se; se_end := se_end se |}
               end in
    ({| n_sess := put key se' (n_sess s); n_trig := n_trig s; n_w := w'; n_pend := n_pend s |}, [ev0]).

(* collectExpiredSessions + closeExpiredSessions for one received watermark; results in key order *)
Definition nfire (c : ncfg) (s : nst) : nst * list sev :=
  match n_pend s with
  | None => (s, [])
  | Some wmk =>
      let expired := ksort (filter (fun kv => se_end (snd kv) <=? wmk) (n_sess s)) in
      let live := filter (fun kv => negb (se_end (snd kv) <=? wmk)) (n_sess s) in
      let trig1 := if 0 <? nlateness c
                   then fold_left (fun tr kv => put (fst kv) {| ts_sess := snd kv; ts_close := se_end (snd kv) + nlateness c |} tr)
                                  expired (n_trig s)
                   else n_trig s in
      let trig2 := filter (fun kt => negb (ts_close (snd kt) <=? wmk)) trig1 in
      ({| n_sess := live; n_trig := trig2; n_w := n_w s; n_pend := None |},
       map (fun kv => SvBatch (fst kv) (se_start (snd kv)) (se_end (snd kv)) (se_rows (snd kv))) expired ++ [SvDE])
  end.

Definition nstep (c : ncfg) (s : nst) (o : nop) : nst * list sev :=
  match o with
  | NAdd id ts key now => nadd c id ts key now s
  | NAddNoTs id => (s, [SvNoTs id])
  | NDeliverBegin =>
      match n_pend s with
      | Some _ => (s, [])
      | None =>
        match pop_chan (n_w s) with
        | Some (x, w') => ({| n_sess := n_sess s; n_trig := n_trig s; n_w := w'; n_pend := Some x |}, [SvDB x])
        | None => (s, [SvD0])
        end
      end
  | NFire => nfire c s
  | NTick now => ({| n_sess := n_sess s; n_trig := n_trig s; n_w := tick (nooo c) 0 now (n_w s); n_pend := n_pend s |}, [SvTick])
  end.

Fixpoint nrun (c : ncfg) (s : nst) (h : list nop) : nst * list sev :=
  match h with
  | [] => (s, [])
  | o :: r => let '(s1, e1) := nstep c s o in let '(s2, e2) := nrun c s1 r in (s2, e1 ++ e2)
  end.
