(* C11 -- the MATCH_RECOGNIZE clause as written: reference reading of its sub-clauses on the token
   stream, with the WITHIN bound computed EXACTLY (rational arithmetic on the written decimal count).
   Code anchors (rulego/streamsql): rsql/parser_match.go
     parseMatchRecognize (clause loop), readIdentList, readMROrderBy, readMRMeasures / readMRUntilAS,
     readMRDefines / readMRExpr, readMRSubsets, readMRAfterMatchSkip, parseMRDuration, durationUnit,
     stripBackticks, isMRClauseKeyword; rsql/parser_match_pattern.go isMRIdentLike.
   WITHIN is written in one of two forms:
     WITHIN '<Go duration>'        -- time.ParseDuration on the literal with its quotes trimmed
     WITHIN <count> <unit>         -- count read with strconv.ParseFloat, unit one of 30 spellings
   The Go code computes time.Duration(count * float64(unit)) in float64; the meaning the property gives to
   the written clause is the exact product of the written decimal and the unit, in nanoseconds, rounded
   towards zero (Go's float -> integer conversion) -- [dur_floor].  The two agree whenever the count and
   the product are exactly representable (dyadic fractions of moderate size); for other decimals the
   float product can land one nanosecond below (recorded finding, see known_findings.d/C11.jsonl).
   The PATTERN body is read twice: the pattern variables in the order written (close_paren), and the row
   pattern as a tree [pat] with its quantifier bounds (p_alt ..., mirror of the grammar of
   rsql/parser_match_pattern.go: parseMRAlternation / parseMRSequence / parseMRQuantified / parseMRAtom /
   parseMRPermute / tryMRQuantifier / parseMRBounded / consumeReluctant). *)
From SV Require Export Model.Stmt.
From Coq Require Import String.
Local Open Scope N_scope.

(* ---- a written decimal: mant / 10^scale ---- *)
Record dec := mkDec { d_mant : N; d_scale : nat }.

Fixpoint pow10 (k : nat) : N := match k with O => 1 | S k' => 10 * pow10 k' end.
Definition digit_val (c : byte) : N := c - 48.
Fixpoint digits_val (acc : N) (s : bytes) : N :=
  match s with [] => acc | c :: r => digits_val (acc * 10 + digit_val c) r end.

(* the text of a TokenNumber as strconv.ParseFloat reads it: digits [ '.' digits ].  readNumber starts
   at a digit and takes digits and dots; a second dot is a ParseFloat error, and so is for the lexer
   (isValidNumber) a number that ends with the dot: "1." makes rsql.Parse fail with INVALID_NUMBER. *)
Definition parse_dec (s : bytes) : option dec :=
  let (ip, r) := span is_digit s in
  match ip with
  | [] => None
  | _ =>
    match r with
    | [] => Some (mkDec (digits_val 0 ip) 0)
    | c :: fp => if N.eqb c 46 && forallb is_digit fp && negb (match fp with [] => true | _ => false end)
                 then Some (mkDec (digits_val 0 (ip ++ fp)) (List.length fp)) else None
    end
  end.

(* a decimal is a dyadic rational (exactly representable in binary when short) iff 5^scale | mant *)
Fixpoint pow5 (k : nat) : N := match k with O => 1 | S k' => 5 * pow5 k' end.
Definition dec_dyadic (d : dec) : bool := N.eqb (d_mant d mod pow5 (d_scale d)) 0.

(* durationUnit: the unit spellings (upper-cased) and their length in nanoseconds *)
Definition ns_us := 1000.            Definition ns_ms := 1000000.
Definition ns_s := 1000000000.       Definition ns_m := 60000000000.
Definition ns_h := 3600000000000.
Definition unit_table : list (bytes * N) := Eval vm_compute in
  [ (bs "NS", 1); (bs "NANO", 1); (bs "NANOS", 1); (bs "NANOSECOND", 1); (bs "NANOSECONDS", 1);
    (bs "US", ns_us); (bs "MICRO", ns_us); (bs "MICROS", ns_us); (bs "MICROSECOND", ns_us); (bs "MICROSECONDS", ns_us);
    (bs "MS", ns_ms); (bs "MILLI", ns_ms); (bs "MILLIS", ns_ms); (bs "MILLISECOND", ns_ms); (bs "MILLISECONDS", ns_ms);
    (bs "S", ns_s); (bs "SEC", ns_s); (bs "SECS", ns_s); (bs "SECOND", ns_s); (bs "SECONDS", ns_s);
    (bs "M", ns_m); (bs "MIN", ns_m); (bs "MINS", ns_m); (bs "MINUTE", ns_m); (bs "MINUTES", ns_m);
    (bs "H", ns_h); (bs "HR", ns_h); (bs "HRS", ns_h); (bs "HOUR", ns_h); (bs "HOURS", ns_h) ].
Definition unit_ns (u : bytes) : option N := assoc (map upper u) unit_table.

(* the written bound in nanoseconds: floor (mant * unit / 10^scale) *)
Definition dur_floor (d : dec) (u : N) : N := (d_mant d * u) / pow10 (d_scale d).

Definition within_count (num unit : bytes) : option N :=
  match parse_dec num, unit_ns unit with
  | Some d, Some u => Some (dur_floor d u)
  | _, _ => None
  end.

(* ---- time.ParseDuration: [-+]? ( digits [ . digits ] unit )+  |  "0" ---- *)
Definition go_units : list (bytes * N) := Eval vm_compute in
  [ (bs "ns", 1); (bs "us", ns_us); ([194; 181; 115], ns_us); ([206; 188; 115], ns_us);
    (bs "ms", ns_ms); (bs "s", ns_s); (bs "m", ns_m); (bs "h", ns_h) ].
Definition is_unitch (c : byte) : bool := negb (is_digit c || N.eqb c 46).

Definition go_component (s : bytes) : option (N * bytes) :=
  let (ip, r1) := span is_digit s in
  let (fp, r2) := match r1 with
                  | c :: r => if N.eqb c 46 then span is_digit r else ([], r1)
                  | [] => ([], [])
                  end in
  match ip ++ fp with
  | [] => None
  | ds =>
    let (u, r3) := span is_unitch r2 in
    match assoc u go_units with
    | Some un => Some (dur_floor (mkDec (digits_val 0 ds) (List.length fp)) un, r3)
    | None => None
    end
  end.

Fixpoint go_components (fuel : nat) (s : bytes) : option N :=
  match fuel with
  | O => None
  | S f =>
    match s with
    | [] => Some 0
    | _ => match go_component s with
           | Some (d, r) => match go_components f r with Some t => Some (d + t) | None => None end
           | None => None
           end
    end
  end.

Definition go_duration (s : bytes) : option Z :=
  let (neg, s1) := match s with
                   | c :: r => if N.eqb c 45 then (true, r) else if N.eqb c 43 then (false, r) else (false, s)
                   | [] => (false, [])
                   end in
  match s1 with
  | [] => None
  | _ =>
    if bytes_eqb s1 [48] then Some 0%Z else
    match go_components (S (List.length s1)) s1 with
    | Some n => Some (if neg then (- Z.of_N n)%Z else Z.of_N n)
    | None => None
    end
  end.

(* strings.Trim of the token value with the cutset { apostrophe, double quote } *)
Definition is_q (c : byte) : bool := N.eqb c 39 || N.eqb c 34.
Fixpoint drop_q (s : bytes) : bytes := match s with c :: r => if is_q c then drop_q r else s | [] => [] end.
Definition trim_q (s : bytes) : bytes := rev (drop_q (rev (drop_q s))).

(* parseMRDuration on the tokens that follow WITHIN *)
Definition within_value (toks : list token) : option (Z * list token) :=
  match toks with
  | t :: r =>
    if ty_is T_String t then
      match go_duration (trim_q (tval t)) with Some z => Some (z, r) | None => None end
    else if ty_is T_Number t then
      match r with
      | u :: r' => match within_count (tval t) (tval u) with Some n => Some (Z.of_N n, r') | None => None end
      | [] => None
      end
    else None
  | [] => None
  end.

(* ---- PATTERN ( ... ) as a tree: variables, sequence, alternation, group, PERMUTE, exclusion, and
   repetition with the written bounds.  Normal form of the Go parser: a sequence / alternation of one
   element is that element; a parenthesised sub-pattern is a PGroup node. ---- *)
Inductive pat : Type :=
| PSym (s : bytes)
| PSeq (l : list pat)
| PAlt (l : list pat)
| PGroup (p : pat)
| PPermute (l : list pat)
| PExcl (p : pat)
| PRep (p : pat) (lo : N) (hi : option N) (greedy : bool).   (* hi = None: unbounded *)

(* ---- the clause loop ---- *)
Record mrspec := mkMR {
  mr_part : list bytes; mr_order : list bytes; mr_all : bool; mr_skip : N; mr_skip_sym : bytes;
  mr_within : Z; mr_measures : list bytes; mr_defines : list bytes; mr_subsets : list (bytes * list bytes);
  mr_pattern : option (list bytes); mr_tree : option pat }.

(* a word recognised by its upper-cased value, whatever the token type (strings.ToUpper(t.Value) / EqualFold) *)
Definition wd (w : bytes) (t : token) : bool := bytes_eqb (map upper (tval t)) w.
Definition mr_clause_words : list bytes := Eval vm_compute in
  map bs ["PARTITION"; "ORDER"; "MEASURES"; "ONE"; "ALL"; "AFTER"; "PATTERN"; "DEFINE"; "SUBSET"; "WITHIN"]%string.
Definition is_mr_clause_kw (t : token) : bool := existsb (fun w => wd w t) mr_clause_words.

(* isMRSymbolToken, stripBackticks *)
Definition is_sym (t : token) : bool :=
  ty_is T_QIdent t || match tval t with c :: _ => is_letter c | [] => false end.
Definition strip_bt (s : bytes) : bytes :=
  match s with
  | 96 :: r => match rev r with 96 :: m => rev m | _ => s end
  | _ => s
  end.
Definition p_sym (toks : list token) : option (bytes * list token) :=
  match toks with t :: r => if is_sym t then Some (strip_bt (tval t), r) else None | [] => None end.

(* ORDER BY key: symbol [ASC]; DESC is refused by ToStreamConfig for MATCH_RECOGNIZE (None here) *)
Definition p_mr_key (toks : list token) : option (bytes * list token) :=
  match p_sym toks with
  | Some (c, r) =>
    if hd_is (wd W_DESC) r then None
    else if hd_is (wd W_ASC) r then Some (c, tl r) else Some (c, r)
  | None => None
  end.

Definition depth_step (d : nat) (t : token) : nat :=
  if ty_is T_LParen t || ty_is T_LBrace t then S d
  else if ty_is T_RParen t || ty_is T_RBrace t then Nat.pred d else d.

(* readMRUntilAS: up to a top-level AS *)
Fixpoint until_as (d : nat) (toks : list token) : option (list token) :=
  match toks with
  | [] => None
  | t :: r => if Nat.eqb d 0 && ty_is T_AS t then Some toks else until_as (depth_step d t) r
  end.
Definition p_measure (toks : list token) : option (bytes * list token) :=
  match until_as 0 toks with
  | Some (_ :: r) => p_sym r
  | _ => None
  end.

(* readMRExpr: up to a top-level ')' / ',' / clause word of type TokenIdent *)
Fixpoint mr_expr_end (d : nat) (toks : list token) : list token :=
  match toks with
  | [] => []
  | t :: r =>
    if Nat.eqb d 0 && (ty_is T_RParen t || ty_is T_Comma t || (ty_is T_Ident t && is_mr_clause_kw t)) then toks
    else mr_expr_end (depth_step d t) r
  end.
Definition p_define (toks : list token) : option (bytes * list token) :=
  match p_sym toks with
  | Some (s, a :: r) => if ty_is T_AS a then Some (s, mr_expr_end 0 r) else None
  | _ => None
  end.

Definition p_subset (fuel : nat) (toks : list token) : option ((bytes * list bytes) * list token) :=
  match toks with
  | n :: e :: l :: r =>
    if ty_is T_Ident n && ty_is T_EQ e && ty_is T_LParen l then
      match sep_by p_sym T_Comma fuel r with
      | Some (syms, c :: r') => if ty_is T_RParen c then Some ((strip_bt (tval n), syms), r') else None
      | _ => None
      end
    else None
  | _ => None
  end.

(* PATTERN ( ... ): the pattern variables in the order written (every word of the body except PERMUTE;
   parseMRAtom) and the tokens after the matching ')'; quantifiers and grouping are not interpreted *)
Definition W_PERMUTE := Eval vm_compute in bs "PERMUTE".
Definition is_pat_sym (t : token) : bool :=
  match tval t with c :: _ => is_letter c | [] => false end && negb (ty_is T_Ident t && wd W_PERMUTE t).
Fixpoint close_paren (d : nat) (toks : list token) : option (list bytes * list token) :=
  match toks with
  | [] => None
  | t :: r =>
    if ty_is T_RParen t then
      (match d with
       | O => Some ([], r)
       | S d' => close_paren d' r
       end)
    else match close_paren (if ty_is T_LParen t then S d else d) r with
         | Some (l, r') => Some (if is_pat_sym t then tval t :: l else l, r')
         | None => None
         end
  end.

(* ---- the row pattern as a tree (grammar of rsql/parser_match_pattern.go) ---- *)
(* strconv.Atoi on the text of a TokenNumber that is a plain digit string ("2.5", "-1" are no bounds) *)
Definition all_digits (s : bytes) : bool :=
  forallb is_digit s && negb (match s with [] => true | _ => false end).
Definition p_bound (t : token) : option N :=
  if ty_is T_Number t && all_digits (tval t) then Some (digits_val 0 (tval t)) else None.

(* parseMRBounded, after '{':  n '}'  |  n ',' '}'  |  n ',' m '}'  with n <= m (n = m included: {2,2} is {2});
   an inverted range is outside the documented grammar (the Go parser keeps it, cep/pattern.go refuses it) *)
Definition p_bounded (toks : list token) : option ((N * option N) * list token) :=
  match toks with
  | n :: c :: r =>
    match p_bound n with
    | Some lo =>
      if ty_is T_RBrace c then Some ((lo, Some lo), r)
      else if ty_is T_Comma c then
        match r with
        | m :: r1 =>
          if ty_is T_RBrace m then Some ((lo, None), r1)
          else match p_bound m, r1 with
               | Some hi, e :: r2 => if ty_is T_RBrace e && N.leb lo hi then Some ((lo, Some hi), r2) else None
               | _, _ => None
               end
        | [] => None
        end
      else None
    | None => None
    end
  | _ => None
  end.

(* consumeReluctant: a '?' right after a quantifier makes it reluctant; (greedy, rest) *)
Definition take_reluctant (toks : list token) : bool * list token :=
  match toks with
  | t :: r => if ty_is T_Question t then (false, r) else (true, toks)
  | [] => (true, [])
  end.

(* tryMRQuantifier: None = malformed, Some (None, toks) = no quantifier written here
   ("{-" opens an exclusion that follows, it is not a bounded quantifier) *)
Definition p_quant (toks : list token) : option (option (N * option N * bool) * list token) :=
  match toks with
  | t :: r =>
    if ty_is T_Question t then let (g, r') := take_reluctant r in Some (Some (0, Some 1, g), r')
    else if ty_is T_Asterisk t then let (g, r') := take_reluctant r in Some (Some (0, None, g), r')
    else if ty_is T_Plus t then let (g, r') := take_reluctant r in Some (Some (1, None, g), r')
    else if ty_is T_LBrace t then
      if hd_is (ty_is T_Minus) r then Some (None, toks)
      else match p_bounded r with
           | Some ((lo, hi), r1) => let (g, r') := take_reluctant r1 in Some (Some (lo, hi, g), r')
           | None => None
           end
    else Some (None, toks)
  | [] => Some (None, [])
  end.

(* isMRIdentLike / isMRAtomStart *)
Definition ident_like (t : token) : bool := match tval t with c :: _ => is_letter c | [] => false end.
Definition is_atom_start (t : token) : bool := ty_is T_LParen t || ty_is T_LBrace t || ident_like t.

(* recursive descent with one fuel for the depth of the call chain (each call passes a smaller fuel) *)
Fixpoint p_alt (f : nat) (toks : list token) : option (pat * list token) :=
  match f with
  | O => None
  | S f' =>
    match p_seq f' toks with
    | Some (s, r) =>
      match p_alt_more f' r with
      | Some ([], r') => Some (s, r')
      | Some (l, r') => Some (PAlt (s :: l), r')
      | None => None
      end
    | None => None
    end
  end
with p_alt_more (f : nat) (toks : list token) : option (list pat * list token) :=
  match f with
  | O => None
  | S f' =>
    match toks with
    | t :: r =>
      if ty_is T_Pipe t then
        match p_seq f' r with
        | Some (s, r1) => match p_alt_more f' r1 with Some (l, r2) => Some (s :: l, r2) | None => None end
        | None => None
        end
      else Some ([], toks)
    | [] => Some ([], [])
    end
  end
with p_seq (f : nat) (toks : list token) : option (pat * list token) :=
  match f with
  | O => None
  | S f' =>
    match p_items f' toks with
    | Some ([], _) => None
    | Some ([a], r) => Some (a, r)
    | Some (l, r) => Some (PSeq l, r)
    | None => None
    end
  end
with p_items (f : nat) (toks : list token) : option (list pat * list token) :=
  match f with
  | O => None
  | S f' =>
    if hd_is is_atom_start toks then
      match p_quantified f' toks with
      | Some (a, r) => match p_items f' r with Some (l, r') => Some (a :: l, r') | None => None end
      | None => None
      end
    else Some ([], toks)
  end
with p_quantified (f : nat) (toks : list token) : option (pat * list token) :=
  match f with
  | O => None
  | S f' =>
    match p_atom f' toks with
    | Some (a, r) =>
      match p_quant r with
      | Some (Some (lo, hi, g), r') => Some (PRep a lo hi g, r')
      | Some (None, r') => Some (a, r')
      | None => None
      end
    | None => None
    end
  end
with p_atom (f : nat) (toks : list token) : option (pat * list token) :=
  match f with
  | O => None
  | S f' =>
    match toks with
    | t :: r =>
      if ty_is T_LParen t then
        match p_alt f' r with
        | Some (p, c :: r') => if ty_is T_RParen c then Some (PGroup p, r') else None
        | _ => None
        end
      else if ty_is T_LBrace t then
        match r with
        | d :: r1 =>
          if ty_is T_Minus d then
            match p_alt f' r1 with
            | Some (p, d2 :: c :: r') => if ty_is T_Minus d2 && ty_is T_RBrace c then Some (PExcl p, r') else None
            | _ => None
            end
          else None
        | [] => None
        end
      else if ident_like t then
        if ty_is T_Ident t && wd W_PERMUTE t then
          match r with
          | l :: r1 =>
            if ty_is T_LParen l then
              match p_alts f' r1 with
              | Some (ps, c :: r') => if ty_is T_RParen c then Some (PPermute ps, r') else None
              | _ => None
              end
            else None
          | [] => None
          end
        else Some (PSym (strip_bt (tval t)), r)
      else None
    | [] => None
    end
  end
with p_alts (f : nat) (toks : list token) : option (list pat * list token) :=
  match f with
  | O => None
  | S f' =>
    match p_alt f' toks with
    | Some (p, r) =>
      if hd_is (ty_is T_Comma) r then
        match p_alts f' (tl r) with Some (l, r') => Some (p :: l, r') | None => None end
      else Some ([p], r)
    | None => None
    end
  end.

(* parseMRPatternBody after its '(': the tree and the tokens after the closing ')' *)
Definition p_pattern (toks : list token) : option (pat * list token) :=
  match p_alt (6 * List.length toks + 10) toks with
  | Some (p, c :: r) => if ty_is T_RParen c then Some (p, r) else None
  | _ => None
  end.

(* the pattern variables of a tree, in the order written *)
Fixpoint pat_syms (p : pat) : list bytes :=
  match p with
  | PSym s => [s]
  | PSeq l | PAlt l | PPermute l => flat_map pat_syms l
  | PGroup q | PExcl q | PRep q _ _ _ => pat_syms q
  end.

Definition expect_words (ws : list bytes) (toks : list token) : option (list token) :=
  fold_left (fun acc w => match acc with
                          | Some (t :: r) => if wd w t then Some r else None
                          | _ => None
                          end) ws (Some toks).

Definition W_BY := Eval vm_compute in bs "BY".      Definition W_ROW := Eval vm_compute in bs "ROW".
Definition W_ROWS := Eval vm_compute in bs "ROWS".  Definition W_PER := Eval vm_compute in bs "PER".
Definition W_MATCH := Eval vm_compute in bs "MATCH". Definition W_SKIP := Eval vm_compute in bs "SKIP".
Definition W_PAST := Eval vm_compute in bs "PAST".  Definition W_LAST := Eval vm_compute in bs "LAST".
Definition W_FIRST := Eval vm_compute in bs "FIRST". Definition W_NEXT := Eval vm_compute in bs "NEXT".
Definition W_TO := Eval vm_compute in bs "TO".
Definition W_MR := Eval vm_compute in bs "MATCH_RECOGNIZE".
Definition W_PARTITION := Eval vm_compute in bs "PARTITION".
Definition W_ORDER := Eval vm_compute in bs "ORDER".
Definition W_MEASURES := Eval vm_compute in bs "MEASURES".
Definition W_ONE := Eval vm_compute in bs "ONE".
Definition W_ALL := Eval vm_compute in bs "ALL".
Definition W_AFTER := Eval vm_compute in bs "AFTER".
Definition W_PATTERN := Eval vm_compute in bs "PATTERN".
Definition W_SUBSET := Eval vm_compute in bs "SUBSET".
Definition W_WITHIN := Eval vm_compute in bs "WITHIN".
Definition W_DEFINE := Eval vm_compute in bs "DEFINE".

(* AFTER MATCH SKIP ...: (skip kind, symbol); kinds as types.AfterMatchSkip *)
Definition p_skip (toks : list token) : option ((N * bytes) * list token) :=
  match expect_words [W_MATCH; W_SKIP] toks with
  | Some (t :: r) =>
    if wd W_PAST t then
      match expect_words [W_LAST; W_ROW] r with Some r' => Some ((0, []), r') | None => None end
    else if wd W_TO t then
      match r with
      | n :: r1 =>
        if wd W_NEXT n then match expect_words [W_ROW] r1 with Some r' => Some ((1, []), r') | None => None end
        else if wd W_FIRST n then match p_sym r1 with Some (s, r') => Some ((2, s), r') | None => None end
        else if wd W_LAST n then match p_sym r1 with Some (s, r') => Some ((3, s), r') | None => None end
        else Some ((4, tval n), r1)
      | [] => None
      end
    else None
  | _ => None
  end.

Definition mr_empty : mrspec := mkMR [] [] false 0 [] 0%Z [] [] [] None None.

Fixpoint mr_loop (fuel : nat) (sp : mrspec) (toks : list token) : option (mrspec * list token) :=
  match fuel with
  | O => None
  | S f =>
    match toks with
    | [] => None
    | t :: r =>
      let n := S (List.length r) in
      if ty_is T_RParen t then Some (sp, r)
      else if wd W_PARTITION t then
        match expect_words [W_BY] r with
        | Some r1 => match sep_by p_sym T_Comma n r1 with
                     | Some (l, r2) => mr_loop f (mkMR l (mr_order sp) (mr_all sp) (mr_skip sp) (mr_skip_sym sp) (mr_within sp) (mr_measures sp) (mr_defines sp) (mr_subsets sp) (mr_pattern sp) (mr_tree sp)) r2
                     | None => None
                     end
        | None => None
        end
      else if wd W_ORDER t then
        match expect_words [W_BY] r with
        | Some r1 => match sep_by p_mr_key T_Comma n r1 with
                     | Some (l, r2) => mr_loop f (mkMR (mr_part sp) l (mr_all sp) (mr_skip sp) (mr_skip_sym sp) (mr_within sp) (mr_measures sp) (mr_defines sp) (mr_subsets sp) (mr_pattern sp) (mr_tree sp)) r2
                     | None => None
                     end
        | None => None
        end
      else if wd W_MEASURES t then
        match sep_by p_measure T_Comma n r with
        | Some (l, r2) => mr_loop f (mkMR (mr_part sp) (mr_order sp) (mr_all sp) (mr_skip sp) (mr_skip_sym sp) (mr_within sp) l (mr_defines sp) (mr_subsets sp) (mr_pattern sp) (mr_tree sp)) r2
        | None => None
        end
      else if wd W_ONE t then
        match expect_words [W_ROW; W_PER; W_MATCH] r with
        | Some r2 => mr_loop f (mkMR (mr_part sp) (mr_order sp) false (mr_skip sp) (mr_skip_sym sp) (mr_within sp) (mr_measures sp) (mr_defines sp) (mr_subsets sp) (mr_pattern sp) (mr_tree sp)) r2
        | None => None
        end
      else if wd W_ALL t then
        match expect_words [W_ROWS; W_PER; W_MATCH] r with
        | Some r2 => mr_loop f (mkMR (mr_part sp) (mr_order sp) true (mr_skip sp) (mr_skip_sym sp) (mr_within sp) (mr_measures sp) (mr_defines sp) (mr_subsets sp) (mr_pattern sp) (mr_tree sp)) r2
        | None => None
        end
      else if wd W_AFTER t then
        match p_skip r with
        | Some ((k, s), r2) => mr_loop f (mkMR (mr_part sp) (mr_order sp) (mr_all sp) k s (mr_within sp) (mr_measures sp) (mr_defines sp) (mr_subsets sp) (mr_pattern sp) (mr_tree sp)) r2
        | None => None
        end
      else if wd W_PATTERN t then
        match r with
        | l :: r1 => if ty_is T_LParen l then
                       match close_paren 0 r1, p_pattern r1 with
                       | Some (ps, r2), Some (tree, r2') =>
                         if Nat.eqb (List.length r2') (List.length r2)   (* both readings end at the same ')' *)
                         then mr_loop f (mkMR (mr_part sp) (mr_order sp) (mr_all sp) (mr_skip sp) (mr_skip_sym sp) (mr_within sp) (mr_measures sp) (mr_defines sp) (mr_subsets sp) (Some ps) (Some tree)) r2
                         else None
                       | _, _ => None
                       end
                     else None
        | [] => None
        end
      else if wd W_SUBSET t then
        match sep_by (p_subset n) T_Comma n r with
        | Some (l, r2) => mr_loop f (mkMR (mr_part sp) (mr_order sp) (mr_all sp) (mr_skip sp) (mr_skip_sym sp) (mr_within sp) (mr_measures sp) (mr_defines sp) (mr_subsets sp ++ l) (mr_pattern sp) (mr_tree sp)) r2
        | None => None
        end
      else if wd W_WITHIN t then
        match within_value r with
        | Some (z, r2) => mr_loop f (mkMR (mr_part sp) (mr_order sp) (mr_all sp) (mr_skip sp) (mr_skip_sym sp) z (mr_measures sp) (mr_defines sp) (mr_subsets sp) (mr_pattern sp) (mr_tree sp)) r2
        | None => None
        end
      else if wd W_DEFINE t then
        match sep_by p_define T_Comma n r with
        | Some (l, r2) => mr_loop f (mkMR (mr_part sp) (mr_order sp) (mr_all sp) (mr_skip sp) (mr_skip_sym sp) (mr_within sp) (mr_measures sp) l (mr_subsets sp) (mr_pattern sp) (mr_tree sp)) r2
        | None => None
        end
      else None
    end
  end.

(* the MATCH_RECOGNIZE clause of a statement: None = malformed (or outside the accepted grammar: no PATTERN,
   no ORDER BY, ORDER BY ... DESC), Some None = no MATCH_RECOGNIZE written *)
Fixpoint find_mr (toks : list token) : option (list token) :=
  match toks with
  | [] => None
  | t :: r => if ty_is T_Ident t && wd W_MR t then Some r else find_mr r
  end.
Definition mr_ref (toks : list token) : option (option mrspec) :=
  match find_mr toks with
  | None => Some None
  | Some (l :: r) =>
    if ty_is T_LParen l then
      match mr_loop (S (List.length r)) mr_empty r with
      | Some (sp, _) => if (match mr_pattern sp with Some _ => true | None => false end) && negb (match mr_order sp with [] => true | _ => false end)
                        then Some (Some sp) else None
      | None => None
      end
    else None
  | Some [] => None
  end.
