(* C20 — memo tables of the process-wide expression bridge that are keyed by the expression TEXT.
   All names carry the prefix bm_.

   Go anchors
     functions/expr_bridge.go  ExprBridge.programCache / preprocessCache  (sync.Map keyed by the text,
                               one bridge per process: functions.GetExprBridge())
     functions/expr_bridge.go  isStringConcatenationExpression(expression, data): a '+' expression is
                               evaluated by the string concatenator when an operand is a quoted literal
                               or names a column whose value IN THIS ROW is a Go string

   A decision the bridge takes for one evaluation is a function  d : text -> row -> A  (the preprocessed
   text, "is this '+' a string concatenation?", ...).  [bm_eval] is that decision behind a memo table
   keyed by the text alone: Load, else compute on the row at hand and Store.  A process history is the
   list of evaluations (text, row) in the order in which whatever instances of the process make them. *)
From Coq Require Import List Bool.
From SV Require Import Base.Bytes Model.Isolation.
Import ListNotations.

Definition bm_memo (A : Type) := list (bytes * A).

Fixpoint bm_find {A} (t : bytes) (m : bm_memo A) : option A :=
  match m with
  | [] => None
  | (t', v) :: m' => if bytes_eqb t t' then Some v else bm_find t m'
  end.

Definition bm_eval {A} (d : bytes -> irow -> A) (m : bm_memo A) (t : bytes) (r : irow) : A * bm_memo A :=
  match bm_find t m with
  | Some v => (v, m)
  | None => (d t r, (t, d t r) :: m)
  end.

Fixpoint bm_run {A} (d : bytes -> irow -> A) (m : bm_memo A) (evs : list (bytes * irow)) : list A * bm_memo A :=
  match evs with
  | [] => ([], m)
  | (t, r) :: evs' =>
      let '(v, m1) := bm_eval d m t r in
      let '(vs, m2) := bm_run d m1 evs' in
      (v :: vs, m2)
  end.

(* what the same evaluations return without any table *)
Definition bm_fresh {A} (d : bytes -> irow -> A) (evs : list (bytes * irow)) : list A :=
  map (fun e => d (fst e) (snd e)) evs.

(* every stored value is the decision's value for its text on every row *)
Definition bm_ok {A} (d : bytes -> irow -> A) (m : bm_memo A) : Prop :=
  forall t v, bm_find t m = Some v -> forall r, d t r = v.

(* ---- the concat verdict (isStringConcatenationExpression), parametric in the lexical part:
   [lit t] = some operand of t is a quoted literal (or "_"); [ops t] = the operands of t that are
   looked up in the row (strings.Split(expression, "+") + TrimSpace in the code) *)
Definition bm_is_str (v : option ival) : bool :=
  match v with Some (IStr _) => true | _ => false end.

Definition bm_concat_verdict (lit : bytes -> bool) (ops : bytes -> list bytes) (t : bytes) (r : irow) : bool :=
  lit t || existsb (fun f => bm_is_str (iso_lookup f r)) (ops t).
