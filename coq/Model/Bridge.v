(* C06 — ASSUMED meaning of expr-lang (github.com/expr-lang/expr, third party) for the fragment that
   WHERE conditions (condition.NewExprCondition) and bridge-evaluated SELECT items send to it.
   This file is a specification-level model: expr-lang's compiler and VM are NOT verified; the
   correspondence check validates these equations on every run (WHERE through EmitSync,
   ExprBridge.EvaluateExpression directly).
     * an unknown identifier is nil (expr.AllowUndefinedVariables); int and float64 mix numerically;
     * + - * / on two numbers, + on two strings; unary - on a number; anything else is a run-time error;
     * == and != never fail: values of different kinds are unequal, nil == nil;
     * < <= > >= on two numbers or two strings, otherwise an error (in particular with nil);
     * && and || need bool operands and short-circuit;
     * a WHERE condition holds iff the program returns true without an error (Evaluate: err -> false).
   The text sent to expr-lang is the SQL text with = -> ==, AND -> &&, OR -> || (rsql parseWhere);
   expr-lang's precedence ladder for these operators is the same as the hand-written parser's, so the
   tree it evaluates is the source expression (assumed, validated). *)
From SV Require Export Model.ExprEval.

Definition bx_eq (a b : xvalue) : bool :=
  match a, b with
  | VNull, VNull => true
  | VNum x, VNum y => qeqb x y
  | VStr x, VStr y => bytes_eqb x y
  | VBool x, VBool y => Bool.eqb x y
  | _, _ => false
  end.

Section Bx.
Variable row : xrow.

Fixpoint bx (e : xexpr) : xout xvalue :=
  match e with
  | ENum q => OVal (VNum q)
  | EStr s => OVal (VStr s)
  | ECol c => OVal (match xlookup row c with Some v => v | None => VNull end)
  | EParen x => bx x
  | ENeg x => obind (bx x) (fun v => match v with VNum q => OVal (VNum (qsub zeroQ q)) | _ => OErr end)
  | EBin o l r =>
      obind (bx l) (fun a => obind (bx r) (fun b =>
        match o, a, b with
        | OAdd, VNum x, VNum y => OVal (VNum (qadd x y))
        | OSub, VNum x, VNum y => OVal (VNum (qsub x y))
        | OMul, VNum x, VNum y => OVal (VNum (qmul x y))
        | ODiv, VNum x, VNum y => if qzero y then OUnm (* +-Inf / NaN: outside the model *) else OVal (VNum (qdiv x y))
        | OAdd, VStr x, VStr y => OVal (VStr (x ++ y))
        | (OMod | OPow), _, _ => OUnm
        | _, _, _ => OErr
        end))
  | ECmp c l r =>
      obind (bx l) (fun a => obind (bx r) (fun b =>
        match c with
        | CEq | CEq2 => OVal (VBool (bx_eq a b))
        | CNe | CNe2 => OVal (VBool (negb (bx_eq a b)))
        | _ => match a, b with
               | VNum x, VNum y => OVal (VBool (cmp_floats c x y))
               | VStr x, VStr y => OVal (VBool (cmp_strings c x y))
               | _, _ => OErr
               end
        end))
  | EAnd l r =>
      obind (bx l) (fun a =>
        match a with
        | VBool false => OVal (VBool false)
        | VBool true => obind (bx r) (fun b => match b with VBool y => OVal (VBool y) | _ => OErr end)
        | _ => OErr
        end)
  | EOr l r =>
      obind (bx l) (fun a =>
        match a with
        | VBool true => OVal (VBool true)
        | VBool false => obind (bx r) (fun b => match b with VBool y => OVal (VBool y) | _ => OErr end)
        | _ => OErr
        end)
  | ECall _ _ => OUnm
  end.

(* ExprBridge.EvaluateExpression after expr-lang failed: fallbackToCustomExpr -> evaluateStringConcatenation.
   The TEXT is split at "+"; every part must be a quoted literal or a key present in the row, whose
   value is rendered with cast.ToString (nil -> ""); numbers are rendered by strconv: not modelled. *)
Fixpoint concat_parts (e : xexpr) : option (list xexpr) :=
  match e with
  | EBin OAdd l r => match concat_parts l, r with
                     | Some ps, (ECol _ | EStr _) => Some (ps ++ [r])
                     | _, _ => None
                     end
  | ECol _ | EStr _ => Some [e]
  | _ => None
  end.
Fixpoint concat_strs (ps : list xexpr) (acc : bytes) : xout xvalue :=
  match ps with
  | [] => OVal (VStr acc)
  | EStr s :: r => concat_strs r (acc ++ s)
  | ECol c :: r => match xlookup row c with
                   | None => OErr
                   | Some v => match to_string v with
                               | Some s => concat_strs r (acc ++ s)
                               | None => OUnm
                               end
                   end
  | _ :: _ => OErr
  end.
Definition bridge_eval (e : xexpr) : xout xvalue :=
  match bx e with
  | OErr => match e with
            | EBin OAdd _ _ => match concat_parts e with Some ps => concat_strs ps [] | None => OErr end
            | _ => OErr
            end
  | r => r
  end.

(* ExprCondition.Evaluate: error -> false; None = outside the model *)
Definition where_true (e : xexpr) : option bool :=
  match bx e with
  | OVal (VBool b) => Some b
  | OUnm => None
  | _ => Some false
  end.
End Bx.
