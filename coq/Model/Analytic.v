(* Model of the analytic functions of rulego/streamsql (C14):
     functions/functions_analytical.go  lagState, latestState, hadChangedState (Apply, ApplyNamed)
     functions/analytic_acc.go          accState, changedColState, changedColsState
     functions/analytic_state.go        analyticToInt, AnalyticToBool, analyticEqual, toFloat64Generic
     stream/analytic.go                 analyticFieldEngine.evaluate / evaluateMultiColumn / getStateLocked /
                                        partitionKey / typeKey, applyCall (+ nullMissingColumnArgs)
     stream/stream.go                   applyWhereAndAnalytic, processDirectDataSync / processDirectData
   Executable definitions only.  Numbers are integers (float64 values that hold an integer are AVFlt);
   acc_avg returns the exact quotient sum/count (ARAvg).  All names carry an a/an_ prefix because every
   model is extracted into one OCaml namespace. *)
From SV Require Export Base.Bytes.
From Coq Require Import Lia.

(* ---------------------------------------------------------------- values and rows *)
Inductive aval :=
| AVNull
| AVInt (z : Z)        (* Go int *)
| AVFlt (z : Z)        (* Go float64 holding the integer z (numeric literals of the SQL text, acc results) *)
| AVStr (s : bytes)
| AVBool (b : bool).

Definition arow := list (bytes * aval).     (* map[string]any with distinct keys; missing <> NULL *)

Fixpoint alookup {V : Type} (k : bytes) (m : list (bytes * V)) : option V :=
  match m with
  | [] => None
  | (k', v) :: t => if bytes_eqb k k' then Some v else alookup k t
  end.

Fixpoint aremove {V : Type} (k : bytes) (m : list (bytes * V)) : list (bytes * V) :=
  match m with
  | [] => []
  | (k', v) :: t => if bytes_eqb k k' then aremove k t else (k', v) :: aremove k t
  end.

(* m[k] = v : replace in place, or append *)
Fixpoint aset {V : Type} (k : bytes) (v : V) (m : list (bytes * V)) : list (bytes * V) :=
  match m with
  | [] => [(k, v)]
  | (k', v') :: t => if bytes_eqb k k' then (k, v) :: t else (k', v') :: aset k v t
  end.

Definition an_is_null (v : aval) : bool := match v with AVNull => true | _ => false end.

(* toFloat64Generic *)
Definition an_num (v : aval) : option Z :=
  match v with AVInt z => Some z | AVFlt z => Some z | _ => None end.

(* analyticToInt *)
Definition an_to_int (v : aval) : option Z := an_num v.

Definition an_lower (b : byte) : byte := if (65 <=? b)%N && (b <=? 90)%N then (b + 32)%N else b.
Definition an_true_txt : bytes := [116; 114; 117; 101]%N.        (* "true" *)
Definition an_false_txt : bytes := [102; 97; 108; 115; 101]%N.   (* "false" *)

(* AnalyticToBool: bool, or a string equal to "true" ignoring case *)
Definition an_to_bool (v : aval) : bool :=
  match v with
  | AVBool b => b
  | AVStr s => bytes_eqb (map an_lower s) an_true_txt
  | _ => false
  end.

(* analyticEqual: nil only equals nil; numbers compare across int/float64; otherwise DeepEqual *)
Definition an_eq (a b : aval) : bool :=
  match a, b with
  | AVNull, AVNull => true
  | AVNull, _ => false
  | _, AVNull => false
  | AVStr x, AVStr y => bytes_eqb x y
  | AVBool x, AVBool y => Bool.eqb x y
  | _, _ => match an_num a, an_num b with
            | Some x, Some y => (x =? y)%Z
            | _, _ => false
            end
  end.

(* ---------------------------------------------------------------- argument expressions *)
(* the argument texts the harness generates, evaluated by Stream.parseFunctionArgs + nullMissingColumnArgs *)
Inductive aexp :=
| AEField (n : bytes)      (* bare column: its value; NULL when the column is missing from the row *)
| AENum (z : Z)            (* numeric literal: strconv.ParseFloat -> float64 *)
| AEBool (b : bool)        (* unquoted true / false: stays the text "true" / "false" *)
| AEPos (n : bytes).       (* "n > 0": expr bridge -> bool; on a NULL/missing n the bridge fails and the text stays *)

Definition an_pos_txt (n : bytes) : bytes := n ++ [32; 62; 32; 48]%N.   (* n ++ " > 0" *)

Definition an_eval (r : arow) (e : aexp) : aval :=
  match e with
  | AEField n => match alookup n r with Some v => v | None => AVNull end
  | AENum z => AVFlt z
  | AEBool b => AVStr (if b then an_true_txt else an_false_txt)
  | AEPos n => match alookup n r with
               | Some (AVInt z) => AVBool (0 <? z)%Z
               | Some (AVFlt z) => AVBool (0 <? z)%Z
               | _ => AVStr (an_pos_txt n)
               end
  end.

(* "n > 0" as a WHERE / WHEN condition (condition.ExprCondition): false on NULL / missing / non-numbers *)
Definition an_pos (r : arow) (n : bytes) : bool :=
  match alookup n r with
  | Some (AVInt z) => (0 <? z)%Z
  | Some (AVFlt z) => (0 <? z)%Z
  | _ => false
  end.

(* ---------------------------------------------------------------- state machines (Apply) *)
Inductive ares :=
| ARV (v : aval)
| ARAvg (s c : Z).          (* float64 sum / float64 count, count > 0 *)

(* lagState.Apply : history = at most `offset` retained values *)
Definition an_lastn {A : Type} (n : nat) (l : list A) : list A := skipn (length l - n) l.

Definition an_lag_off (args : list aval) : nat :=
  match nth_error args 1 with
  | Some a => match an_to_int a with
              | Some n => if (0 <? n)%Z then Z.to_nat n else 1
              | None => 1
              end
  | None => 1
  end.

Definition an_lag_apply (hist : list aval) (args : list aval) : list aval * aval :=
  match args with
  | [] => (hist, AVNull)
  | v :: _ =>
      let off := an_lag_off args in
      let def := match nth_error args 2 with Some d => d | None => AVNull end in
      let ign := match nth_error args 3 with Some b => an_to_bool b | None => true end in
      let res := if (off <=? length hist) then nth (length hist - off) hist AVNull else def in
      let hist' := if ign && an_is_null v then hist else an_lastn off (hist ++ [v]) in
      (hist', res)
  end.

(* latestState.Apply *)
Definition an_latest_apply (cur : option aval) (args : list aval) : option aval * aval :=
  let cur' := match args with
              | v :: _ => if an_is_null v then cur else Some v
              | [] => cur
              end in
  (cur', match cur' with
         | Some v => v
         | None => match nth_error args 1 with Some d => d | None => AVNull end
         end).

(* hadChangedState.Apply (positional) *)
Fixpoint an_had_merge (ign : bool) (prev vals : list aval) : list aval * bool :=
  match vals with
  | [] => ([], false)
  | v :: vt =>
      let '(rest, ch) := an_had_merge ign (tl prev) vt in
      if ign && an_is_null v then
        ((match prev with p :: _ => p | [] => AVNull end) :: rest, ch)
      else
        (v :: rest, (match prev with p :: _ => negb (an_eq p v) | [] => true end) || ch)
  end.

Definition an_had_apply (st : option (list aval)) (args : list aval) : option (list aval) * aval :=
  let ign := match args with a :: _ => an_to_bool a | [] => false end in
  let vals := tl args in
  match st with
  | None => (Some vals, AVBool true)
  | Some prev => let '(np, ch) := an_had_merge ign prev vals in (Some np, AVBool ch)
  end.

(* hadChangedState.ApplyNamed (had_changed(ign, * ): the whole row, compared by column name) *)
Definition an_skip (ign : bool) (v : aval) : bool := ign && an_is_null v.

Definition an_named_apply (st : option arow) (ign : bool) (cols : arow) : option arow * aval :=
  match st with
  | None => (Some (filter (fun kv => negb (an_skip ign (snd kv))) cols), AVBool true)
  | Some prev =>
      let ch1 := existsb (fun kv => negb (an_skip ign (snd kv)) &&
                            match alookup (fst kv) prev with
                            | Some pv => negb (an_eq pv (snd kv))
                            | None => true
                            end) cols in
      let ch2 := existsb (fun kv => match alookup (fst kv) cols with
                                    | Some _ => false
                                    | None => negb (an_skip ign (snd kv))
                                    end) prev in
      let next := flat_map (fun kv => if an_skip ign (snd kv) then
                                        match alookup (fst kv) prev with
                                        | Some pv => [(fst kv, pv)]
                                        | None => []
                                        end
                                      else [kv]) cols in
      (Some next, AVBool (ch1 || ch2))
  end.

(* changedColState.Apply ; Some v = "changed to v" *)
Definition an_ccol_step (ign : bool) (st : option aval) (v : aval) : option aval * option aval :=
  if ign && an_is_null v then (st, None)
  else (Some v, match st with
                | Some p => if an_eq p v then None else Some v
                | None => Some v
                end).

Definition an_ccol_apply (st : option aval) (args : list aval) : option aval * aval :=
  let ign := match args with a :: _ => an_to_bool a | [] => false end in
  let v := match nth_error args 1 with Some v => v | None => AVNull end in
  let '(st', c) := an_ccol_step ign st v in
  (st', match c with Some x => x | None => AVNull end).

(* changedColsState.ApplyColumns : prev map, output = the changed columns (prefix ++ name) *)
Fixpoint an_ccols_apply (prefix : bytes) (ign : bool) (prev : arow) (cols : arow) : arow * arow :=
  match cols with
  | [] => (prev, [])
  | (n, v) :: t =>
      let '(st', c) := an_ccol_step ign (alookup n prev) v in
      let prev' := match st' with Some x => aset n x prev | None => prev end in
      let '(prev'', out) := an_ccols_apply prefix ign prev' t in
      (prev'', match c with Some x => (prefix ++ n, x) :: out | None => out end)
  end.

(* accState *)
Inductive akind := AKSum | AKCount | AKAvg | AKMin | AKMax.

Record aacc := { ac_sum : Z; ac_cnt : Z; ac_num : Z; ac_has : bool; ac_started : bool }.
Definition an_acc0 : aacc := {| ac_sum := 0; ac_cnt := 0; ac_num := 0; ac_has := false; ac_started := false |}.

Definition an_acc_result (k : akind) (s : aacc) : ares :=
  match k with
  | AKSum => ARV (AVFlt (ac_sum s))
  | AKCount => ARV (AVInt (ac_cnt s))
  | AKAvg => if (ac_cnt s =? 0)%Z then ARV AVNull else ARAvg (ac_sum s) (ac_cnt s)
  | AKMax | AKMin => if ac_has s then ARV (AVFlt (ac_num s)) else ARV AVNull
  end.

Definition an_acc_add (k : akind) (s : aacc) (v : aval) : aacc :=
  match an_num v with
  | Some z =>
      {| ac_sum := match k with AKSum | AKAvg => ac_sum s + z | _ => ac_sum s end;
         ac_cnt := ac_cnt s + 1;
         ac_num := match k with
                   | AKMax => if negb (ac_has s) || (ac_num s <? z)%Z then z else ac_num s
                   | AKMin => if negb (ac_has s) || (z <? ac_num s)%Z then z else ac_num s
                   | _ => ac_num s
                   end;
         ac_has := true; ac_started := ac_started s |}
  | None =>
      match k with
      | AKCount => if an_is_null v then s else
                     {| ac_sum := ac_sum s; ac_cnt := ac_cnt s + 1; ac_num := ac_num s;
                        ac_has := ac_has s; ac_started := ac_started s |}
      | _ => s
      end
  end.

Definition an_set_started (s : aacc) : aacc :=
  {| ac_sum := ac_sum s; ac_cnt := ac_cnt s; ac_num := ac_num s; ac_has := ac_has s; ac_started := true |}.

Definition an_acc_apply (k : akind) (s : aacc) (args : list aval) : aacc * ares :=
  let reset := match nth_error args 2 with Some b => an_to_bool b | None => false end in
  if reset then (an_acc0, an_acc_result k an_acc0)
  else
    let go (s1 : aacc) :=
      let s2 := match args with v :: _ => an_acc_add k s1 v | [] => s1 end in
      (s2, an_acc_result k s2) in
    match nth_error args 1 with
    | Some b => if negb (an_to_bool b) && negb (ac_started s) then (s, an_acc_result k s)
                else go (an_set_started s)
    | None => go s
    end.

(* decimal text of an integer (used by the partition key and by the wrapper string fallback) *)
Fixpoint an_dec_f (f : nat) (n : N) : bytes :=
  match f with
  | O => []
  | S f' => if (n <? 10)%N then [48 + n]%N else an_dec_f f' (n / 10)%N ++ [48 + n mod 10]%N
  end.
Definition an_dec (n : N) : bytes := an_dec_f (S (N.size_nat n)) n.           (* strconv.Itoa, n >= 0 *)
Definition an_decz (z : Z) : bytes :=
  match z with
  | Zneg p => 45%N :: an_dec (Npos p)
  | _ => an_dec (Z.to_N z)
  end.

(* ---------------------------------------------------------------- calls and fields *)
Inductive afname := AFLag | AFLatest | AFHad | AFCcol | AFAcc (k : akind).

Record acall := { ca_fn : afname; ca_args : list aexp }.

Inductive acstate :=
| ASLag (h : list aval)
| ASLatest (c : option aval)
| ASHad (p : option (list aval))
| ASCcol (p : option aval)
| ASAcc (s : aacc).

(* StatefulAnalytic.NewState *)
Definition an_new_state (f : afname) : acstate :=
  match f with
  | AFLag => ASLag []
  | AFLatest => ASLatest None
  | AFHad => ASHad None
  | AFCcol => ASCcol None
  | AFAcc _ => ASAcc an_acc0
  end.

(* applyCall: evaluate the argument texts on the row, Apply on the call's state *)
Definition an_call_apply (c : acall) (st : acstate) (r : arow) : acstate * ares :=
  let args := map (an_eval r) (ca_args c) in
  match ca_fn c, st with
  | AFLag, ASLag h => let '(h', v) := an_lag_apply h args in (ASLag h', ARV v)
  | AFLatest, ASLatest x => let '(x', v) := an_latest_apply x args in (ASLatest x', ARV v)
  | AFHad, ASHad p => let '(p', v) := an_had_apply p args in (ASHad p', ARV v)
  | AFCcol, ASCcol p => let '(p', v) := an_ccol_apply p args in (ASCcol p', ARV v)
  | AFAcc k, ASAcc s => let '(s', v) := an_acc_apply k s args in (ASAcc s', v)
  | _, _ => (st, ARV AVNull)      (* unreachable: states are created by an_new_state of the same call *)
  end.

(* wrapper expressions over the calls of one item; their evaluation is defined below (an_weval) *)
Inductive awop := WAdd | WSub | WMul.

Inductive awexp :=
| WSelf (i : nat)                 (* the i-th analytic call of the item *)
| WCol (n : bytes)                (* a bare column *)
| WNum (z : Z)                    (* an integer literal *)
| WBin (op : awop) (a b : awexp). (* printed a op b; a Bin right operand (and a Bin left operand of another
                                      operator) is parenthesised *)

(* the field kinds of one SELECT item / WHERE placeholder *)
Inductive afkind :=
| AKSingle (c : acall)                    (* WrapperExpr = "" *)
| AKWrapF (n : bytes) (c : acall)         (* n - <call>          : wrapper "n - __analytic_self__" *)
| AKWrap2 (c1 c2 : acall)                 (* <call1> - <call2>   : "__analytic_self__ - __analytic_self_1__" *)
| AKNamed (ign : bool)                    (* had_changed(ign, * ) *)
| AKCols (prefix : bytes) (ign : aexp) (cols : list bytes)    (* changed_cols(prefix, ign, cols...) *)
| AKExpr (cs : list acall) (w : awexp).   (* any wrapper over the calls cs (WSelf i = the i-th call) *)

Record afield := { af_kind : afkind; af_part : list bytes (* PARTITION BY *); af_when : option bytes (* WHEN n > 0 *) }.

Inductive aout :=
| AOV (v : aval)
| AOAvg (s c : Z)
| AOMap (m : arow).

Definition an_out_of_res (x : ares) : aout := match x with ARV v => AOV v | ARAvg s c => AOAvg s c end.

(* evalWrapper on a - b through the expr bridge: a number when both operands convert to numbers (a bool
   operand counts as 0 / 1); any other operand (NULL, text) makes the evaluation fail, which the engine turns
   into NULL.  (A non-integer acc_avg operand is not modelled: the harness never wraps acc_avg.) *)
Definition an_wnum (v : aval) : option Z :=
  match v with
  | AVInt z => Some z
  | AVFlt z => Some z
  | AVBool b => Some (if b then 1 else 0)%Z
  | _ => None
  end.

Definition an_wsub (a b : ares) : aout :=
  match a, b with
  | ARV x, ARV y => match an_wnum x, an_wnum y with
                    | Some p, Some q => AOV (AVFlt (p - q))
                    | _, _ => AOV AVNull
                    end
  | _, _ => AOV AVNull
  end.

(* General wrapper expressions over one or several analytic calls of one select item (rsql/ast.go
   splitAnalyticExprMulti: the i-th call is replaced by __analytic_self_i__; analytic.go evaluate: every call is
   applied to its own state, every result - NULL included - is bound to its placeholder, then evalWrapper).
   Operators + - * over calls, bare columns and non-negative integer literals.
   evalWrapper (functions/expr_bridge.go EvaluateExpression, then expr.EvaluateValueWithNull), as observed and
   compared on every run:
     - numeric rule: operands convert to numbers (bool = 0 / 1), a NULL / text / missing operand makes the
       whole item NULL - except that expr-lang itself joins text + text (an_wtyped);
     - EXCEPT a parenthesis-free sum  x1 + x2 + ... + xn  whose operands are all calls / columns present in the
       row: when every operand is an int / float64 the sum, otherwise the bridge's "string concatenation"
       fallback joins cast.ToString of the operands (NULL = "", true = "true"): NULL + 3 = "3".
   [sql = true] is the intended NULL-propagating arithmetic (a NULL operand of such a sum gives NULL); the code is
   [sql = false]. *)
Definition an_wres_num (x : ares) : option Z := match x with ARV v => an_wnum v | ARAvg _ _ => None end.

Definition an_wop (op : awop) (p q : Z) : Z :=
  match op with WAdd => p + q | WSub => p - q | WMul => p * q end%Z.

Fixpoint an_wnumeval (vals : list ares) (r : arow) (w : awexp) : option Z :=
  match w with
  | WSelf i => match nth_error vals i with Some x => an_wres_num x | None => None end
  | WCol n => match alookup n r with Some v => an_wnum v | None => None end
  | WNum z => Some z
  | WBin op a b => match an_wnumeval vals r a, an_wnumeval vals r b with
                    | Some p, Some q => Some (an_wop op p q)
                    | _, _ => None
                    end
  end.

(* the operands of a parenthesis-free sum of calls / columns (None: any other shape) *)
Fixpoint an_wsum_leaves (w : awexp) : option (list awexp) :=
  match w with
  | WSelf i => Some [WSelf i]
  | WCol n => Some [WCol n]
  | WNum _ => None
  | WBin WAdd a b =>
      match b with
      | WSelf _ | WCol _ => match an_wsum_leaves a with Some l => Some (l ++ [b]) | None => None end
      | _ => None
      end
  | WBin _ _ _ => None
  end.

Definition an_wflat (w : awexp) : option (list awexp) :=
  match w with WBin WAdd _ _ => an_wsum_leaves w | _ => None end.

(* the value bound to an operand of such a sum; None = column missing from the row (or a non-integer avg) *)
Definition an_wleaf_val (vals : list ares) (r : arow) (l : awexp) : option aval :=
  match l with
  | WSelf i => match nth_error vals i with Some (ARV v) => Some v | _ => None end
  | WCol n => alookup n r
  | _ => None
  end.

Fixpoint an_opts {A : Type} (l : list (option A)) : option (list A) :=
  match l with
  | [] => Some []
  | Some x :: t => match an_opts t with Some r => Some (x :: r) | None => None end
  | None :: _ => None
  end.

(* cast.ToString of an operand (integer-valued float64 prints as the integer) *)
Definition an_wstr (v : aval) : bytes :=
  match v with
  | AVNull => []
  | AVInt z | AVFlt z => an_decz z
  | AVStr s => s
  | AVBool b => if b then an_true_txt else an_false_txt
  end.

(* expr-lang proper (tried before the fallbacks): numbers with numbers, and + also joins text with text; any
   other pairing (NULL, bool, text with number) is a run-time error *)
Inductive awval := WVNum (z : Z) | WVStr (s : bytes).

Definition an_wtyped_leaf (v : aval) : option awval :=
  match v with AVInt z | AVFlt z => Some (WVNum z) | AVStr s => Some (WVStr s) | _ => None end.

Fixpoint an_wtyped (vals : list ares) (r : arow) (w : awexp) : option awval :=
  match w with
  | WSelf i => match nth_error vals i with Some (ARV v) => an_wtyped_leaf v | _ => None end
  | WCol n => match alookup n r with Some v => an_wtyped_leaf v | None => None end
  | WNum z => Some (WVNum z)
  | WBin op a b =>
      match an_wtyped vals r a, an_wtyped vals r b with
      | Some (WVNum p), Some (WVNum q) => Some (WVNum (an_wop op p q))
      | Some (WVStr x), Some (WVStr y) => match op with WAdd => Some (WVStr (x ++ y)) | _ => None end
      | _, _ => None
      end
  end.

Definition an_weval (sql : bool) (w : awexp) (vals : list ares) (r : arow) : aout :=
  match an_wflat w with
  | Some ls =>
      match an_opts (map (an_wleaf_val vals r) ls) with
      | None => AOV AVNull
      | Some vs =>
          match an_opts (map an_num vs) with
          | Some zs => AOV (AVFlt (fold_right Z.add 0%Z zs))
          | None => if sql && existsb an_is_null vs then AOV AVNull
                    else AOV (AVStr (concat (map an_wstr vs)))
          end
      end
  | None =>
      match an_wtyped vals r w with
      | Some (WVNum z) => AOV (AVFlt z)
      | Some (WVStr t) => AOV (AVStr t)
      | None => match an_wnumeval vals r w with Some z => AOV (AVFlt z) | None => AOV AVNull end
      end
  end.

(* every call of the item is applied to its own state, whatever the other calls return *)
Fixpoint an_calls_apply (cs : list acall) (ss : list acstate) (r : arow) : list acstate * list ares :=
  match cs, ss with
  | c :: ct, s :: st => let '(s', v) := an_call_apply c s r in
                        let '(st', vs) := an_calls_apply ct st r in (s' :: st', v :: vs)
  | _, _ => ([], [])
  end.

Inductive afstate :=
| AFSCalls (l : list acstate)
| AFSNamed (p : option arow)
| AFSCols (p : arow).

Definition an_field_init (k : afkind) : afstate :=
  match k with
  | AKSingle c => AFSCalls [an_new_state (ca_fn c)]
  | AKWrapF _ c => AFSCalls [an_new_state (ca_fn c)]
  | AKWrap2 c1 c2 => AFSCalls [an_new_state (ca_fn c1); an_new_state (ca_fn c2)]
  | AKNamed _ => AFSNamed None
  | AKCols _ _ _ => AFSCols []
  | AKExpr cs _ => AFSCalls (map (fun c => an_new_state (ca_fn c)) cs)
  end.

(* evaluate / evaluateMultiColumn after the WHEN gate and the state lookup: one counted row *)
Definition an_field_apply_g (sql : bool) (k : afkind) (st : afstate) (r : arow) : afstate * aout :=
  match k, st with
  | AKSingle c, AFSCalls [s] =>
      let '(s', v) := an_call_apply c s r in (AFSCalls [s'], an_out_of_res v)
  | AKWrapF n c, AFSCalls [s] =>
      let '(s', v) := an_call_apply c s r in
      (AFSCalls [s'], an_wsub (ARV (match alookup n r with Some x => x | None => AVNull end)) v)
  | AKWrap2 c1 c2, AFSCalls [s1; s2] =>
      let '(s1', v1) := an_call_apply c1 s1 r in
      let '(s2', v2) := an_call_apply c2 s2 r in
      (AFSCalls [s1'; s2'], an_wsub v1 v2)
  | AKNamed ign, AFSNamed p =>
      let '(p', v) := an_named_apply p ign r in (AFSNamed p', AOV v)
  | AKCols prefix ign cols, AFSCols p =>
      let cv := map (fun n => (n, an_eval r (AEField n))) cols in
      let '(p', out) := an_ccols_apply prefix (an_to_bool (an_eval r ign)) p cv in
      (AFSCols p', AOMap out)
  | AKExpr cs w, AFSCalls ss =>
      let '(ss', vs) := an_calls_apply cs ss r in (AFSCalls ss', an_weval sql w vs r)
  | _, _ => (st, AOV AVNull)      (* unreachable *)
  end.

(* the code as it is: the bridge's arithmetic *)
Definition an_field_apply : afkind -> afstate -> arow -> afstate * aout := an_field_apply_g false.

(* the value returned when WHEN is false and the partition has no earlier result *)
Definition an_field_dflt (k : afkind) : aout :=
  match k with AKCols _ _ _ => AOMap [] | _ => AOV AVNull end.

(* ---------------------------------------------------------------- partition key (typeKey, partitionKey) *)

Definition an_txt_nil : bytes := [110; 105; 108; 124]%N.                      (* "nil|" *)
Definition an_txt_string : bytes := [115; 116; 114; 105; 110; 103; 124]%N.    (* "string|" *)
Definition an_txt_int : bytes := [105; 110; 116; 124]%N.                      (* "int|" *)
Definition an_txt_float : bytes := [102; 108; 111; 97; 116; 54; 52; 124]%N.   (* "float64|" *)
Definition an_txt_bool : bytes := [98; 111; 111; 108; 124]%N.                 (* "bool|" *)

(* typeKey.  float64: FormatFloat(x,'g',-1,64) of an integer below 10^6 in magnitude is its decimal text *)
Definition an_type_key (v : aval) : bytes :=
  match v with
  | AVNull => an_txt_nil
  | AVStr s => an_txt_string ++ s
  | AVInt z => an_txt_int ++ an_decz z
  | AVFlt z => an_txt_float ++ an_decz z
  | AVBool b => an_txt_bool ++ (if b then an_true_txt else an_false_txt)
  end.

(* one segment: decimal length, ':', the typed text, '|' *)
Definition an_seg (tk : bytes) : bytes := an_dec (N.of_nat (length tk)) ++ [58]%N ++ tk ++ [124]%N.

Definition an_key_of_vals (vs : list aval) : bytes := concat (map (fun v => an_seg (an_type_key v)) vs).

(* resolvePartitionField on plain column names: the value, nil when missing *)
Definition an_part_vals (cols : list bytes) (r : arow) : list aval :=
  map (fun c => match alookup c r with Some v => v | None => AVNull end) cols.

Definition an_pkey (cols : list bytes) (r : arow) : bytes := an_key_of_vals (an_part_vals cols r).

(* ---------------------------------------------------------------- the field engine *)
Section Engine.
  Variables St Out : Type.
  Variable init : St.
  Variable apply : St -> arow -> St * Out.
  Variable dflt : Out.
  Variable gate : arow -> bool.          (* WHEN; constantly true when absent *)
  Variable pkey : arow -> bytes.         (* partitionKey; "" when there is no PARTITION BY *)
  Variable partitioned : bool.           (* len(PartitionBy) > 0 *)
  Variable cap : nat.                    (* maxPartitions (> 0) *)

  Record aeng := { ae_nopart : option St;                 (* fe.noPart *)
                   ae_parts : list (bytes * St);          (* fe.lru front..back with the states of fe.partitions *)
                   ae_last : list (bytes * Out) }.        (* fe.lastResults *)

  Definition an_eng0 : aeng := {| ae_nopart := None; ae_parts := []; ae_last := [] |}.

  (* getStateLocked for a key that is not in the table: push front, evict the back entry when over the cap *)
  Definition an_insert (k : bytes) (s : St) (e : aeng) : list (bytes * St) * list (bytes * Out) :=
    let all := (k, s) :: ae_parts e in
    if (cap <? length all)%nat then
      (removelast all, aremove (fst (last all (k, s))) (ae_last e))
    else (all, ae_last e).

  Definition an_eng_step (e : aeng) (r : arow) : aeng * Out :=
    let k := pkey r in
    if negb (gate r) then
      (e, match alookup k (ae_last e) with Some o => o | None => dflt end)
    else if negb partitioned then
      let '(s', o) := apply (match ae_nopart e with Some s => s | None => init end) r in
      ({| ae_nopart := Some s'; ae_parts := ae_parts e; ae_last := aset k o (ae_last e) |}, o)
    else
      match alookup k (ae_parts e) with
      | Some s =>                                  (* hit: MoveToFront *)
          let '(s', o) := apply s r in
          ({| ae_nopart := ae_nopart e; ae_parts := (k, s') :: aremove k (ae_parts e);
              ae_last := aset k o (ae_last e) |}, o)
      | None =>
          let '(s', o) := apply init r in
          let '(parts, lasts) := an_insert k s' e in
          ({| ae_nopart := ae_nopart e; ae_parts := parts; ae_last := aset k o lasts |}, o)
      end.

  Fixpoint an_eng_run (e : aeng) (h : list arow) : aeng * list Out :=
    match h with
    | [] => (e, [])
    | r :: t => let '(e1, o) := an_eng_step e r in
                let '(e2, os) := an_eng_run e1 t in (e2, o :: os)
    end.
End Engine.

Arguments ae_nopart {St Out}.
Arguments ae_parts {St Out}.
Arguments ae_last {St Out}.

Definition an_gate (f : afield) (r : arow) : bool :=
  match af_when f with Some n => an_pos r n | None => true end.

Definition an_partitioned (f : afield) : bool := match af_part f with [] => false | _ => true end.

Definition afeng := aeng afstate aout.

Definition an_fstep (cap : nat) (f : afield) : afeng -> arow -> afeng * aout :=
  an_eng_step afstate aout (an_field_init (af_kind f)) (an_field_apply (af_kind f)) (an_field_dflt (af_kind f))
              (an_gate f) (an_pkey (af_part f)) (an_partitioned f) cap.

(* ---------------------------------------------------------------- the direct path of a query *)
Inductive awhere :=
| AWNone
| AWCol (n : bytes)           (* WHERE n > 0 : free of analytic calls *)
| AWAnalytic (f : afield).    (* WHERE <bare had_changed(...) [OVER ...]> : evaluated before filtering *)

Record aquery := { aq_field : afield; aq_where : awhere; aq_cap : nat }.

Record aqstate := { qs_sel : afeng; qs_whr : afeng }.
Definition an_q0 : aqstate := {| qs_sel := an_eng0 _ _; qs_whr := an_eng0 _ _ |}.

(* applyWhereAndAnalytic: None = the row is filtered out *)
Definition an_qstep (q : aquery) (s : aqstate) (r : arow) : aqstate * option aout :=
  match aq_where q with
  | AWAnalytic wf =>
      let '(e1, o) := an_fstep (aq_cap q) (aq_field q) (qs_sel s) r in
      let '(e2, w) := an_fstep (aq_cap q) wf (qs_whr s) r in
      ({| qs_sel := e1; qs_whr := e2 |},
       match w with AOV (AVBool true) => Some o | _ => None end)
  | AWCol n =>
      if an_pos r n then
        let '(e1, o) := an_fstep (aq_cap q) (aq_field q) (qs_sel s) r in
        ({| qs_sel := e1; qs_whr := qs_whr s |}, Some o)
      else (s, None)
  | AWNone =>
      let '(e1, o) := an_fstep (aq_cap q) (aq_field q) (qs_sel s) r in
      ({| qs_sel := e1; qs_whr := qs_whr s |}, Some o)
  end.

Fixpoint an_qrun (q : aquery) (s : aqstate) (h : list arow) : list (option aout) :=
  match h with
  | [] => []
  | r :: t => let '(s1, o) := an_qstep q s r in o :: an_qrun q s1 t
  end.

(* EmitSync: one row at a time *)
Definition an_sync (q : aquery) (h : list arow) : list (option aout) := an_qrun q an_q0 h.

(* Emit: the producer pushes into the data channel (FIFO); one consumer goroutine (DataProcessor.Process) pops
   and runs the same applyWhereAndAnalytic.  A schedule says when the consumer runs. *)
Inductive asched := ASPush | ASPop.

Fixpoint an_async (q : aquery) (sch : list asched) (pending : list arow) (chan : list arow) (s : aqstate)
  : list (option aout) :=
  match sch with
  | [] => an_qrun q s (chan ++ pending)            (* quiescence: everything emitted is consumed in order *)
  | ASPush :: t => match pending with
                   | r :: p => an_async q t p (chan ++ [r]) s
                   | [] => an_async q t [] chan s
                   end
  | ASPop :: t => match chan with
                  | r :: c => let '(s1, o) := an_qstep q s r in o :: an_async q t pending c s1
                  | [] => an_async q t pending [] s
                  end
  end.
