(* Model of the aggregate functions and of the front end of GroupAggregator.Add.
   Code anchors (rulego/streamsql):
     functions/functions_aggregation.go   SumFunction, AvgFunction, MinFunction, MaxFunction, CountFunction,
                                          StdDevAggregatorFunction, StdDevSAggregatorFunction, VarAggregatorFunction,
                                          VarSAggregatorFunction, MedianAggregatorFunction, PercentileAggregatorFunction,
                                          CollectFunction, FirstValueFunction, LastValueFunction, MergeAggFunction,
                                          DeduplicateAggregatorFunction   (the ones functions/builtin.go registers)
                                          StdDevFunction, StdDevSFunction, VarFunction, VarSFunction (Welford; exported,
                                          not registered)
     functions/functions_window.go        NthValueFunction
     utils/cast/cast.go                   ToFloat64E, ToString
     aggregator/group_aggregator.go       GroupAggregator.Add (241-340), GetResults, Reset
     stream/processor_data.go             processWindowBatch: Add* ; GetResults ; Reset
   Numbers are exact rationals (Q): the property is about which rows are combined with which formula,
   not about float64 rounding.  Executable definitions only. *)
From Coq Require Export QArith.
From Coq Require Import Qround.
From SV Require Export Base.Bytes.

Inductive value := VNull | VInt (z : Z) | VFlt (q : Q) | VStr (s : bytes) | VBool (b : bool).
(* one column of one row: absent key / present (possibly NULL) *)
Inductive cell := Missing | Cell (v : value).

(* ---------- reduced arithmetic (keeps extracted numbers small; == the plain operation) ---------- *)
Definition qadd (a b : Q) : Q := Qred (a + b).
Definition qsub (a b : Q) : Q := Qred (a - b).
Definition qmul (a b : Q) : Q := Qred (a * b).
Definition qdiv (a b : Q) : Q := Qred (a / b).
Definition qnat (n : nat) : Q := inject_Z (Z.of_nat n).
Definition qltb (a b : Q) : bool := negb (Qle_bool b a).

(* ---------- strconv.ParseFloat restricted to  [+-]? digits* ( '.' digits* )?  with >= 1 digit ---------- *)
Definition is_digit (c : byte) : bool := (48 <=? c)%N && (c <=? 57)%N.
Fixpoint take_digits (s : bytes) (acc : Z) (cnt : nat) : Z * nat * bytes :=
  match s with
  | c :: s' => if is_digit c then take_digits s' (acc * 10 + Z.of_N (c - 48)) (S cnt) else (acc, cnt, s)
  | [] => (acc, cnt, s)
  end.
Definition parse_unsigned (s : bytes) : option Q :=
  let '(ip, n1, r) := take_digits s 0 0 in
  match r with
  | [] => if Nat.eqb n1 0 then None else Some (inject_Z ip)
  | c :: r' =>
      if (c =? 46)%N then
        let '(fp, n2, r2) := take_digits r' 0 0 in
        match r2 with
        | [] => if Nat.eqb (n1 + n2) 0 then None
                else Some (Qred (inject_Z ip + inject_Z fp / inject_Z (10 ^ Z.of_nat n2)))
        | _ :: _ => None
        end
      else None
  end.
Definition parse_float (s : bytes) : option Q :=
  match s with
  | 43%N :: s' => parse_unsigned s'
  | 45%N :: s' => match parse_unsigned s' with Some q => Some (Qopp q) | None => None end
  | _ => parse_unsigned s
  end.

(* cast.ToFloat64E: numbers, bools and numeric strings convert; nil and other strings are errors *)
Definition to_float (v : value) : option Q :=
  match v with
  | VNull => None
  | VInt z => Some (inject_Z z)
  | VFlt q => Some q
  | VBool b => Some (if b then 1 else 0)
  | VStr s => parse_float s
  end.

(* ---------- decimal rendering: strconv.Itoa / FormatFloat(v,'f',-1,64) / fmt %v on the value domain
   (ints; float64 that are dyadic rationals of moderate magnitude, for which %v prints plain decimals) ---------- *)
Fixpoint dec_pos_fuel (f : nat) (n : Z) (acc : bytes) : bytes :=
  match f with
  | O => acc
  | S f => if (n <? 10)%Z then Z.to_N (48 + n) :: acc
           else dec_pos_fuel f (n / 10)%Z (Z.to_N (48 + n mod 10) :: acc)
  end.
Fixpoint pos_bits (p : positive) : nat := match p with xH => 1 | xO p' | xI p' => S (pos_bits p') end.
Definition dec_nat (n : Z) : bytes :=
  dec_pos_fuel (match n with Zpos p => pos_bits p | _ => 1 end) n [].
Definition dec_int (z : Z) : bytes := if (z <? 0)%Z then 45%N :: dec_nat (- z) else dec_nat z.
Fixpoint frac_digits (f : nat) (r d : Z) : bytes :=
  match f with
  | O => []
  | S f => if (r =? 0)%Z then [] else Z.to_N (48 + (r * 10) / d) :: frac_digits f ((r * 10) mod d) d
  end.
Definition dec_q (q : Q) : bytes :=
  let q := Qred q in
  let n := Qnum q in let d := Zpos (Qden q) in
  let a := Z.abs n in
  let ip := (a / d)%Z in let r := (a mod d)%Z in
  (if (n <? 0)%Z then [45%N] else []) ++ dec_nat ip ++
  (if (r =? 0)%Z then [] else 46%N :: frac_digits 80 r d).

Definition b_true : bytes := [116; 114; 117; 101]%N.
Definition b_false : bytes := [102; 97; 108; 115; 101]%N.
Definition b_nil : bytes := [60; 110; 105; 108; 62]%N.          (* "<nil>" *)
(* cast.ToString *)
Definition to_string (v : value) : bytes :=
  match v with
  | VNull => [] | VInt z => dec_int z | VFlt q => dec_q q | VStr s => s
  | VBool b => if b then b_true else b_false
  end.
(* fmt.Sprintf("%v", v): the key of DeduplicateAggregatorFunction *)
Definition fmt_v (v : value) : bytes :=
  match v with VNull => b_nil | _ => to_string v end.

(* ---------- aggregators ---------- *)
Inductive agg :=
  | ASum | AAvg | AMin | AMax | ACount
  | AStdDev | AStdDevS | AVar | AVarS | AMedian | APercentile (p : Q)
  | AFirst | ALast | ANth (n : nat) | ACollect | ADedup | AMerge
  | WStdDev | WStdDevS | WVar | WVarS.          (* Welford implementations *)

Inductive st :=
  | SSum (v : Q) (has : bool)
  | SAvg (s : Q) (c : nat)
  | SExt (v : Q) (first : bool)
  | SCount (c : nat)
  | SNums (l : list Q)                 (* values []float64, in arrival order *)
  | SVals (l : list value)             (* values []any, in arrival order *)
  | SFirst (v : value) (has : bool)
  | SLast (v : value)
  | SDedup (seen : list bytes) (l : list value)
  | SWelf (c : nat) (mean m2 : Q).

Inductive res :=
  | RNull
  | RNum (q : Q)
  | RSqrt (q : Q)                      (* math.Sqrt of q *)
  | RVal (v : value)
  | RList (l : list value)
  | RText (s : bytes).

Definition init (f : agg) : st :=
  match f with
  | ASum => SSum 0 false
  | AAvg => SAvg 0 0
  | AMin | AMax => SExt 0 true
  | ACount => SCount 0
  | AStdDev | AStdDevS | AVar | AVarS | AMedian | APercentile _ => SNums []
  | AFirst => SFirst VNull false
  | ALast => SLast VNull
  | ANth _ | ACollect | AMerge => SVals []
  | ADedup => SDedup [] []
  | WStdDev | WStdDevS | WVar | WVarS => SWelf 0 0 0
  end.

Fixpoint mem_bytes (k : bytes) (l : list bytes) : bool :=
  match l with [] => false | x :: l' => bytes_eqb k x || mem_bytes k l' end.

(* Add(value) of each aggregator object *)
Definition add (f : agg) (s : st) (v : value) : st :=
  match f, s with
  | ASum, SSum acc has =>                                  (* SumFunction.Add *)
      match to_float v with Some x => SSum (qadd acc x) true | None => s end
  | AAvg, SAvg acc c =>                                    (* AvgFunction.Add *)
      match to_float v with Some x => SAvg (qadd acc x) (S c) | None => s end
  | AMin, SExt cur first =>                                (* MinFunction.Add *)
      match to_float v with
      | Some x => if first || qltb x cur then SExt x false else s
      | None => s end
  | AMax, SExt cur first =>                                (* MaxFunction.Add *)
      match to_float v with
      | Some x => if first || qltb cur x then SExt x false else s
      | None => s end
  | ACount, SCount c =>                                    (* CountFunction.Add *)
      match v with VNull => s | _ => SCount (S c) end
  | (AStdDev | AStdDevS | AVar | AVarS | AMedian | APercentile _), SNums l =>
      match to_float v with Some x => SNums (l ++ [x]) | None => s end
  | AFirst, SFirst _ has => if has then s else SFirst v true     (* FirstValueFunction.Add *)
  | ALast, SLast _ => SLast v
  | (ANth _ | ACollect | AMerge), SVals l => SVals (l ++ [v])
  | ADedup, SDedup seen l =>                               (* DeduplicateAggregatorFunction.Add *)
      let k := fmt_v v in
      if mem_bytes k seen then s else SDedup (k :: seen) (l ++ [v])
  | (WStdDev | WStdDevS | WVar | WVarS), SWelf c mean m2 =>  (* StdDevFunction.Add etc. *)
      match to_float v with
      | Some x =>
          let c' := S c in
          let delta := qsub x mean in
          let mean' := qadd mean (qdiv delta (qnat c')) in
          let delta2 := qsub x mean' in
          SWelf c' mean' (qadd m2 (qmul delta delta2))
      | None => s end
  | _, _ => s
  end.

(* the two-pass formula of the *AggregatorFunction.Result methods *)
Definition loop_sum (l : list Q) : Q := fold_left qadd l 0.
Definition loop_mean (l : list Q) : Q := qdiv (loop_sum l) (qnat (length l)).
Definition loop_sqdev (l : list Q) : Q :=
  let m := loop_mean l in
  fold_left (fun acc v => qadd acc (qmul (qsub v m) (qsub v m))) l 0.

(* sort.Float64s *)
Fixpoint insert_q (x : Q) (l : list Q) : list Q :=
  match l with
  | [] => [x]
  | y :: l' => if Qle_bool x y then x :: l else y :: insert_q x l'
  end.
Fixpoint sort_q (l : list Q) : list Q :=
  match l with [] => [] | x :: l' => insert_q x (sort_q l') end.

Definition median_of (l : list Q) : Q :=
  let s := sort_q l in
  let mid := Nat.div (length s) 2 in
  if Nat.even (length s) then qdiv (qadd (nth (mid - 1) s 0) (nth mid s 0)) 2 else nth mid s 0.

(* index := int(math.Floor(p * float64(len-1))), clamped above *)
Definition pct_index (p : Q) (n : nat) : nat :=
  let i := Z.to_nat (Qfloor (p * qnat (n - 1))) in
  if Nat.leb n i then n - 1 else i.
Definition percentile_of (p : Q) (l : list Q) : Q := nth (pct_index p (length l)) (sort_q l) 0.

Fixpoint join_comma (l : list bytes) : bytes :=
  match l with
  | [] => []
  | [x] => x
  | x :: l' => x ++ 44%N :: join_comma l'
  end.

Definition result (f : agg) (s : st) : res :=
  match f, s with
  | ASum, SSum acc has => if has then RNum acc else RNull
  | AAvg, SAvg acc c => match c with O => RNull | _ => RNum (qdiv acc (qnat c)) end
  | (AMin | AMax), SExt cur first => if first then RNull else RNum cur
  | ACount, SCount c => RNum (qnat c)
  | AStdDev, SNums l =>                                     (* StdDevAggregatorFunction.Result: n-1 *)
      if Nat.ltb (length l) 2 then RNum 0 else RSqrt (qdiv (loop_sqdev l) (qnat (length l - 1)))
  | AStdDevS, SNums l =>
      if Nat.ltb (length l) 2 then RNum 0 else RSqrt (qdiv (loop_sqdev l) (qnat (length l - 1)))
  | AVar, SNums l =>
      if Nat.ltb (length l) 1 then RNum 0 else RNum (qdiv (loop_sqdev l) (qnat (length l)))
  | AVarS, SNums l =>
      if Nat.ltb (length l) 2 then RNum 0 else RNum (qdiv (loop_sqdev l) (qnat (length l - 1)))
  | AMedian, SNums l => match l with [] => RNum 0 | _ => RNum (median_of l) end
  | APercentile p, SNums l => match l with [] => RNum 0 | _ => RNum (percentile_of p l) end
  | AFirst, SFirst v _ => RVal v
  | ALast, SLast v => RVal v
  | ANth n, SVals l =>                                      (* NthValueFunction.Result *)
      if Nat.leb n (length l) && Nat.ltb 0 n then RVal (nth (n - 1) l VNull) else RNull
  | ACollect, SVals l => RList l
  | AMerge, SVals l => match l with [] => RNull | _ => RText (join_comma (map to_string l)) end
  | ADedup, SDedup _ l => RList l
  | WStdDev, SWelf c _ m2 => if Nat.ltb c 1 then RNum 0 else RSqrt (qdiv m2 (qnat c))
  | WStdDevS, SWelf c _ m2 => if Nat.ltb c 2 then RNum 0 else RSqrt (qdiv m2 (qnat (c - 1)))
  | WVar, SWelf c _ m2 => if Nat.ltb c 1 then RNum 0 else RNum (qdiv m2 (qnat c))
  | WVarS, SWelf c _ m2 => if Nat.ltb c 2 then RNum 0 else RNum (qdiv m2 (qnat (c - 1)))
  | _, _ => RNull
  end.

(* one aggregator object: New(); Add(v) for every v; Result() *)
Definition run (f : agg) (vs : list value) : res := result f (fold_left (add f) vs (init f)).

(* ---------- front end of GroupAggregator.Add for one aggregation field ---------- *)
Inductive mode :=
  | MStar                 (* count( * ): InputField = "*" *)
  | MCol                  (* bare column or nested path *)
  | MExpr.                (* a registered expression evaluator; Missing = the evaluator returned an error *)

(* isNumericAggregator *)
Definition is_numeric (f : agg) : bool :=
  match f with
  | ASum | AAvg | AMin | AMax | ACount | AStdDev | AStdDevS | AVar | AVarS | AMedian | APercentile _ => true
  | _ => false
  end.
Definition allow_null (f : agg) : bool := match f with AFirst | ALast => true | _ => false end.
Definition is_count (f : agg) : bool := match f with ACount => true | _ => false end.

(* what (if anything) is handed to the group's aggregator object for this row *)
Definition feed (f : agg) (m : mode) (c : cell) : list value :=
  match m with
  | MStar => [VInt 1]
  | MExpr =>                                                        (* lines 249-265: NULL test, no cast *)
      match c with
      | Missing => []
      | Cell VNull => if allow_null f then [VNull] else []
      | Cell v => [v]
      end
  | MCol =>
      match c with
      | Missing => []                                               (* !found: continue *)
      | Cell v =>
          match v with
          | VNull => if allow_null f then [v] else []               (* line 312 *)
          | _ =>
            if is_count f then [v]
            else if is_numeric f then
              match to_float v with Some x => [VFlt x] | None => [] end
            else [v]
          end
      end
  end.

(* the state of one GroupAggregator for one field and the single (empty-key) group:
   None = ga.groups has no entry *)
Definition ga_add (f : agg) (m : mode) (g : option st) (c : cell) : option st :=
  let s := match g with Some s => s | None => init f end in
  Some (fold_left (add f) (feed f m c) s).
Definition ga_results (f : agg) (g : option st) : option res :=
  match g with None => None | Some s => Some (result f s) end.

(* processWindowBatch: Add every row, GetResults, Reset *)
Definition batch_from (f : agg) (m : mode) (g : option st) (cells : list cell) : option res :=
  ga_results f (fold_left (ga_add f m) cells g).
Definition batch (f : agg) (m : mode) (cells : list cell) : option res := batch_from f m None cells.

Fixpoint run_batches (f : agg) (m : mode) (g : option st) (bs : list (list cell)) : list (option res) :=
  match bs with
  | [] => []
  | b :: bs' =>
      let g1 := fold_left (ga_add f m) b g in
      let out := ga_results f g1 in
      let g2 : option st := None in                     (* Reset: ga.groups = make(map) *)
      out :: run_batches f m g2 bs'
  end.

(* ---------- SQL level: the argument of the aggregate call, evaluated per row before aggregation ----------
   ShId   agg(x)        bare column: the field reads the column (MCol)
   ShPath agg(n.v)      nested path: registered as an expression (stream/processor_data.go
                        evaluateNestedFieldExpression); a missing path evaluates to NULL
   ShAdd1 agg(x + 1), ShMul2 agg(x * 2): arithmetic over a numeric column; NULL/missing operand gives NULL
   ShAff op k           agg(<col> <op> <k>) (or <k> <op> <col>): col = x or the nested path d.x, k a numeric literal
                        written as an integer or with a decimal point.  The Go TYPE of the resulting number is not
                        modelled: stream/processor_data.go evaluateExpressionForAggregation hands an argument whose
                        text contains '.' (nested path, decimal literal) to the hand-written engine (every number a
                        float64) and any other to the expr-lang bridge (int op int stays an int), and two-argument
                        aggregates take yet another route; ShAff yields the number as VFlt and the driver compares
                        the numbers of such calls by value. *)
Inductive aop := OAdd | OSub | OMul.
Definition aop_q (op : aop) (a k : Q) : Q :=
  match op with OAdd => qadd a k | OSub => qsub a k | OMul => qmul a k end.
Inductive shape := ShId | ShPath | ShAdd1 | ShMul2 | ShAff (op : aop) (k : Q).
Definition eval_arg (sh : shape) (c : cell) : cell :=
  match sh with
  | ShId => c
  | ShPath => match c with Missing => Cell VNull | _ => c end
  | ShAdd1 =>
      match c with
      | Cell (VInt z) => Cell (VInt (z + 1))
      | Cell (VFlt q) => Cell (VFlt (qadd q 1))
      | _ => Cell VNull
      end
  | ShMul2 =>
      match c with
      | Cell (VInt z) => Cell (VInt (z * 2))
      | Cell (VFlt q) => Cell (VFlt (qmul q 2))
      | _ => Cell VNull
      end
  | ShAff op k =>
      match c with
      | Cell (VInt z) => Cell (VFlt (aop_q op (inject_Z z) k))
      | Cell (VFlt q) => Cell (VFlt (aop_q op q k))
      | _ => Cell VNull
      end
  end.
Definition sql_mode (sh : shape) : mode := match sh with ShId => MCol | _ => MExpr end.
Definition two_args (f : agg) : bool := match f with APercentile _ | ANth _ => true | _ => false end.
Definition arithmetic (sh : shape) : bool := match sh with ShAdd1 | ShMul2 | ShAff _ _ => true | _ => false end.
(* what the field's evaluator yields for the rows of a batch: the argument expression evaluated per row. *)
Definition sql_cells (sh : shape) (f : agg) (cells : list cell) : list cell := map (eval_arg sh) cells.
(* as found on the pinned commit (repaired by the F10b fix, recorded as F22): for a two-argument aggregate with an
   arithmetic first argument, rsql/ast.go extractAggFieldWithExpression (multi-parameter branch) registered the
   text "x * 2, 0.5" as the expression; its evaluation failed on every row, so nothing reached the aggregator. *)
Definition sql_cells_asis (sh : shape) (f : agg) (cells : list cell) : list cell :=
  if two_args f && arithmetic sh then map (fun _ => Missing) cells else map (eval_arg sh) cells.

(* ---------- a select list: several aggregate calls of one query, each with ITS OWN argument ----------
   stream/processor_data.go registerExpressionCalculator registers one evaluator per output alias (the closure
   captures that call's FieldExpression); aggregator/group_aggregator.go GroupAggregator.Add walks, for every row,
   over every aggregation field: evaluator of the field's alias -> front end (feed) -> the field's own aggregator
   object of the group.  GetResults reads every field's object; Reset drops the groups.
   One state per field, in select-list order. *)
Definition sfield := (agg * mode * shape)%type.
Fixpoint sel_add (fs : list sfield) (gs : list (option st)) (c : cell) : list (option st) :=
  match fs, gs with
  | (f, m, sh) :: fs', g :: gs' => ga_add f m g (eval_arg sh c) :: sel_add fs' gs' c
  | _, _ => []
  end.
Fixpoint sel_results (fs : list sfield) (gs : list (option st)) : list (option res) :=
  match fs, gs with
  | (f, _, _) :: fs', g :: gs' => ga_results f g :: sel_results fs' gs'
  | _, _ => []
  end.
Definition sel_init (fs : list sfield) : list (option st) := map (fun _ => None) fs.
(* processWindowBatch for one batch, from the state after Reset *)
Definition sel_batch (fs : list sfield) (cells : list cell) : list (option res) :=
  sel_results fs (fold_left (sel_add fs) cells (sel_init fs)).
(* consecutive batches on one query instance: per batch the result of every field, in select-list order *)
Fixpoint sel_run (fs : list sfield) (gs : list (option st)) (bs : list (list cell)) : list (list (option res)) :=
  match bs with
  | [] => []
  | b :: bs' =>
      let g1 := fold_left (sel_add fs) b gs in
      sel_results fs g1 :: sel_run fs (sel_init fs) bs'          (* Reset *)
  end.

(* ---------- HAVING: which batches of a run are delivered ----------
   stream/processor_data.go processWindowBatch: Add every row; GetResults; processAggregationResults (HAVING filters
   the result rows, the hidden __having_n__ columns are deleted, the rows that are left are handed to the sinks - nothing
   is handed over when no row is left); Reset.  The Reset does not depend on what processAggregationResults did with
   the rows: a batch whose only group HAVING rejected leaves nothing behind for the next batch.
   rsql extractHavingAggregates: an aggregate call written in the HAVING text becomes one more aggregation field of the
   same GroupAggregator (hidden column __having_n__); a call identical to a selected item reads that item's column.
   Here: fs = the fields of the GroupAggregator = the nvis selected calls followed by the hidden ones; a comparison
   reads field j.  The condition is the one the code evaluates (expr-lang over the result row: comparing a NULL
   aggregate with a number is a runtime error, an error anywhere that is reached makes the whole condition false,
   and / or short-circuit from the left); WHICH groups a relational HAVING should keep is C07's subject - C03 needs the
   decision only to know which batches of a run come out. *)
Inductive hcmp := HGt | HGe | HLt | HLe.
Inductive hpred :=
  | HCmp (o : hcmp) (j : nat) (k : Q)
  | HAnd (p q : hpred)
  | HOr (p q : hpred).
Definition res_q (r : option res) : option Q := match r with Some (RNum q) => Some q | _ => None end.
Definition hcmp_holds (o : hcmp) (a k : Q) : bool :=
  match o with
  | HGt => qltb k a
  | HGe => Qle_bool k a
  | HLt => qltb a k
  | HLe => Qle_bool a k
  end.
(* None = runtime error *)
Fixpoint heval (p : hpred) (rs : list (option res)) : option bool :=
  match p with
  | HCmp o j k => match res_q (nth j rs None) with Some a => Some (hcmp_holds o a k) | None => None end
  | HAnd p q => match heval p rs with Some true => heval q rs | r => r end
  | HOr p q => match heval p rs with Some false => heval q rs | r => r end
  end.
Definition hholds (p : hpred) (rs : list (option res)) : bool :=
  match heval p rs with Some true => true | _ => false end.
(* what one batch delivers, given the results of all fields: None = no row reaches the sinks *)
Definition hav_out (nvis : nat) (p : hpred) (rs : list (option res)) : option (list (option res)) :=
  if hholds p rs then Some (firstn nvis rs) else None.
(* consecutive batches on one query instance *)
Fixpoint hav_run (fs : list sfield) (nvis : nat) (p : hpred) (gs : list (option st)) (bs : list (list cell))
  : list (option (list (option res))) :=
  match bs with
  | [] => []
  | b :: bs' =>
      let g1 := fold_left (sel_add fs) b gs in
      hav_out nvis p (sel_results fs g1) :: hav_run fs nvis p (sel_init fs) bs'     (* Reset, delivered or not *)
  end.
(* NOT the code: the same run when the Reset is performed only for a batch that delivered a row (the state of a
   rejected batch stays).  Used for the witness that the theorems about hav_run tell the two apart. *)
Fixpoint hav_run_lazy_reset (fs : list sfield) (nvis : nat) (p : hpred) (gs : list (option st)) (bs : list (list cell))
  : list (option (list (option res))) :=
  match bs with
  | [] => []
  | b :: bs' =>
      let g1 := fold_left (sel_add fs) b gs in
      let out := hav_out nvis p (sel_results fs g1) in
      out :: hav_run_lazy_reset fs nvis p (match out with Some _ => sel_init fs | None => g1 end) bs'
  end.

(* ---------- an aggregate call written INSIDE an analytic function of a windowed query ----------
   changed_col(true, sum(x + 1)), lag(max(d.x * 2)), latest(avg(x - 1.5)) ... GROUP BY CountingWindow(N):
   rsql/ast.go extractInlineAggregates turns the call into a hidden aggregation field __winagg_n__ of the same
   GroupAggregator and hands its per-window value to the analytic function.
   AS FOUND (finding F60; repaired, see inline_field below): the hidden field was registered from the call's first FIELD only
   (fieldMap[hidden] = name); the argument expression that ParseAggregateTypeWithExpression returns is dropped,
   so the aggregate runs over the bare column.  nested = the column is the path d.x. *)
Definition inline_shape_asis (nested : bool) (sh : shape) : shape :=
  match sh with
  | ShAdd1 | ShMul2 | ShAff _ _ => if nested then ShPath else ShId
  | _ => sh
  end.
Definition inline_field_asis (f : agg) (star : bool) (nested : bool) (sh : shape) : sfield :=
  let sh' := inline_shape_asis nested sh in
  (f, if star then MStar else sql_mode sh', sh').
(* the code (repaired): the hidden field carries the argument expression like a select-item aggregate *)
Definition inline_field (f : agg) (star : bool) (sh : shape) : sfield :=
  (f, if star then MStar else sql_mode sh, sh).
