(* Model of the consumer of the counting window's batches when the aggregation of a batch can FAIL (C09).
   Code anchors (stream/processor_data.go):
     processWindowBatch      for _, item := range batch { aggregator.Add(item.Data) }     // may panic on a row:
                                                                                          // a user function inside an
                                                                                          // aggregate argument
                             results := aggregator.GetResults(); deliver; aggregator.Reset()
     processWindowBatchSafe  defer recover(): log, aggregator.Reset()                     // the failed batch is lost
   ONE aggregator lives across all batches; [fc_agg] is what it holds (the rows added since the last Reset).
   A result is computed over everything the aggregator holds, so the delivered "batch" is [fc_agg] after the
   adds, not the window's batch: that the two coincide is the theorem (Proofs/CountingFailProofs.v), and it
   rests on the Reset in BOTH exits. *)
From Coq Require Import List Bool.
From SV Require Import Model.GroupKey Model.Counting.
Import ListNotations.

(* aggregator.Add row by row; false = a row panicked (the rows before it stay added) *)
Fixpoint fc_add_rows (fails : krow -> bool) (agg : list krow) (b : list krow) : list krow * bool :=
  match b with
  | [] => (agg, true)
  | r :: b' => if fails r then (agg, false) else fc_add_rows fails (agg ++ [r]) b'
  end.

Record fc_state := mkFc { fc_agg : list krow; fc_out : list (bytes * list krow) }.

(* one receive of the consumer: processWindowBatchSafe(batch) *)
Definition fc_step (fails : krow -> bool) (s : fc_state) (b : bytes * list krow) : fc_state :=
  match fc_add_rows fails (fc_agg s) (snd b) with
  | (agg', true) => mkFc [] (fc_out s ++ [(fst b, agg')])   (* GetResults over the aggregator; Reset *)
  | (_, false) => mkFc [] (fc_out s)                        (* recover: Reset *)
  end.

Definition fc_run (fails : krow -> bool) (bs : list (bytes * list krow)) : fc_state :=
  fold_left (fc_step fails) bs (mkFc [] []).

(* a batch none of whose rows fails *)
Definition fc_clean (fails : krow -> bool) (b : bytes * list krow) : bool := forallb (fun r => negb (fails r)) (snd b).
