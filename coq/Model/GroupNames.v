(* Model of the OUTPUT NAMING of the grouping columns (C04: "the row reports that tuple under the
   selected column names"). Code anchors (rulego/streamsql):
     rsql/ast.go                 buildSelectAliasMap    (SELECT item text -> AS alias; a Go map: the last
                                                         item with that text wins; items without alias omitted)
     stream/processor_field.go   stripJoinAlias         (strings.SplitN(name, ".", 2); the qualifier is dropped
                                                         if it is the FROM alias or a JOIN alias)
                                 groupFieldOutputName   (alias > stripped)
                                 compileOutputNames     (groupOutputNames[i] = groupFieldOutputName(GroupFields[i]))
                                 projectGroupColumns    (per result row, per grouping column in GROUP BY order:
                                                         rename the raw key gf to its output name)
     aggregator/group_aggregator.go GetResults / window/global_window.go: a result row carries the
                                 grouping value of column i under the GROUP BY text gf_i, the aggregates
                                 under their aliases.
   A result row is a Go map: an association list with distinct keys, order irrelevant. The value type is
   a parameter: NOTHING in the naming looks at a value -- in particular not at whether it is NULL. *)
From SV Require Export Model.GroupKey.

Definition k_dot : byte := 46%N.   (* '.' *)

(* strings.Contains(name, ".") / strings.SplitN(name, ".", 2): None = no '.' in the name *)
Fixpoint kn_split_dot (s : bytes) : option (bytes * bytes) :=
  match s with
  | [] => None
  | c :: s' =>
      if N.eqb c k_dot then Some ([], s')
      else match kn_split_dot s' with
           | Some (a, b) => Some (c :: a, b)
           | None => None
           end
  end.

Fixpoint kn_mem (x : bytes) (l : list bytes) : bool :=
  match l with [] => false | y :: l' => bytes_eqb x y || kn_mem x l' end.

(* stripJoinAlias; quals = the FROM alias (if any) and the JOIN aliases *)
Definition kn_strip (quals : list bytes) (name : bytes) : bytes :=
  match kn_split_dot name with
  | None => name
  | Some ([], _) => name
  | Some (first, rest) => if kn_mem first quals then rest else name
  end.

(* buildSelectAliasMap + the lookup `a, ok := SelectAlias[gf]; ok && a != ""`.
   sel = the SELECT items (expression text, alias text; [] = no AS) in SELECT order. *)
Fixpoint kn_alias (sel : list (bytes * bytes)) (e : bytes) : option bytes :=
  match sel with
  | [] => None
  | (x, a) :: sel' =>
      match kn_alias sel' e with
      | Some b => Some b
      | None => if bytes_eqb x e then (match a with [] => None | _ => Some a end) else None
      end
  end.

(* groupFieldOutputName *)
Definition kn_out (sel : list (bytes * bytes)) (quals : list bytes) (gf : bytes) : bytes :=
  match kn_alias sel gf with
  | Some a => a
  | None => kn_strip quals gf
  end.

Definition kn_outs (sel : list (bytes * bytes)) (quals : list bytes) (gfs : list bytes) : list bytes :=
  map (kn_out sel quals) gfs.

(* ---- result rows ---------------------------------------------------------------------------- *)
Fixpoint kn_get {A : Type} (n : bytes) (r : list (bytes * A)) : option A :=
  match r with
  | [] => None
  | (k, v) :: r' => if bytes_eqb n k then Some v else kn_get n r'
  end.

Definition kn_del {A : Type} (n : bytes) (r : list (bytes * A)) : list (bytes * A) :=
  filter (fun p => negb (bytes_eqb n (fst p))) r.

(* the row as the aggregator / the global window emit it: grouping values under the GROUP BY texts *)
Definition kn_raw {A : Type} (gfs : list bytes) (t : list A) (aggs : list (bytes * A)) : list (bytes * A) :=
  combine gfs t ++ aggs.

(* projectGroupColumns, one grouping column on one row:
     if out == gf { continue }
     if v, ok := row[gf]; ok { if _, exists := row[out]; !exists { row[out] = v }; delete(row, gf) } *)
Definition kn_project1 {A : Type} (gf out : bytes) (row : list (bytes * A)) : list (bytes * A) :=
  if bytes_eqb out gf then row
  else match kn_get gf row with
       | None => row
       | Some v => kn_del gf (match kn_get out row with
                              | Some _ => row
                              | None => row ++ [(out, v)]
                              end)
       end.

(* ... all grouping columns, in GROUP BY order *)
Definition kn_project {A : Type} (pairs : list (bytes * bytes)) (row : list (bytes * A)) : list (bytes * A) :=
  fold_left (fun r p => kn_project1 (fst p) (snd p) r) pairs row.

(* what reaches the sink for the group with tuple t *)
Definition kn_result {A : Type} (gfs outs : list bytes) (t : list A) (aggs : list (bytes * A)) : list (bytes * A) :=
  kn_project (combine gfs outs) (kn_raw gfs t aggs).

(* the tuple a consumer reads: the value under each output name *)
Definition kn_tuple {A : Type} (outs : list bytes) (row : list (bytes * A)) : list (option A) :=
  map (fun o => kn_get o row) outs.
