(* C06 — reference semantics of scalar expressions (the property's statement, not the code):
   ordinary SQL meaning over exact rationals, with the statement's NULL rules
     * a NULL or missing operand makes an arithmetic result NULL and a comparison not true,
     * CASE returns the first branch whose condition is true, else ELSE, else NULL,
     * a function call returns the function's documented value for its evaluated arguments.
   There is no NOT in the engine's grammar, so "not true" and "false" are indistinguishable to every
   context that consumes a condition; a comparison with a NULL operand is therefore given the value
   false.  [sem] is partial: None = outside the statement's domain (ill-typed operands, division by
   zero, a non-integer exponent, text that looks like a number inside a comparison, a built-in or
   argument shape without a Gallina meaning). *)
From SV Require Export Model.ExprEval.

Definition looks_numeric (s : bytes) : bool := match parse_dec s with Some _ => true | None => false end.

Definition sem_cmp (c : xcmpop) (l r : xvalue) : option bool :=
  match l, r with
  | VNull, (VNull | VNum _ | VStr _) | (VNum _ | VStr _), VNull => Some false
  | VNum a, VNum b => Some (cmp_floats c a b)
  | VStr a, VStr b => if looks_numeric a || looks_numeric b then None else Some (cmp_strings c a b)
  | _, _ => None
  end.

Definition sem_arith (o : xbinop) (a b : Q) : option Q :=
  match arith o a b with OVal q => Some q | _ => None end.

Definition as_bool (v : xvalue) : option bool :=
  match v with VBool b => Some b | VNull => Some false | _ => None end.

(* expressions that may stand where a condition is expected (operands of AND / OR, WHEN) *)
Fixpoint is_cond (e : xexpr) : bool :=
  match e with
  | ECmp _ _ _ | EAnd _ _ | EOr _ _ | ECol _ => true
  | EParen x => is_cond x
  | _ => false
  end.

Section OptMap.
Context {A B : Type} (f : A -> option B).
Fixpoint omapM (l : list A) : option (list B) :=
  match l with
  | [] => Some []
  | a :: l' => match f a with
               | None => None
               | Some v => match omapM l' with Some vs => Some (v :: vs) | None => None end
               end
  end.
End OptMap.

Section Sem.
Variable row : xrow.

Fixpoint sem (e : xexpr) : option xvalue :=
  match e with
  | ENum q => Some (VNum q)
  | EStr s => Some (VStr s)
  | ECol c => Some (match xlookup row c with Some v => v | None => VNull end)
  | EParen x => sem x
  | ENeg x => match sem x with
              | Some VNull => Some VNull
              | Some (VNum q) => Some (VNum (qsub zeroQ q))
              | _ => None
              end
  | EBin o l r =>
      match sem l, sem r with
      | Some VNull, Some (VNull | VNum _) | Some (VNum _), Some VNull => Some VNull
      | Some (VNum a), Some (VNum b) => option_map VNum (sem_arith o a b)
      | _, _ => None
      end
  | ECmp c l r =>
      match sem l, sem r with
      | Some a, Some b => option_map VBool (sem_cmp c a b)
      | _, _ => None
      end
  | EAnd l r =>
      if is_cond l && is_cond r then
      match sem l, sem r with
      | Some a, Some b => match as_bool a, as_bool b with
                          | Some x, Some y => Some (VBool (x && y))
                          | _, _ => None
                          end
      | _, _ => None
      end else None
  | EOr l r =>
      if is_cond l && is_cond r then
      match sem l, sem r with
      | Some a, Some b => match as_bool a, as_bool b with
                          | Some x, Some y => Some (VBool (x || y))
                          | _, _ => None
                          end
      | _, _ => None
      end else None
  | ECall g args =>
      match omapM sem args with
      | Some vs => match fn_call g vs with FOk v => Some v | _ => None end
      | None => None
      end
  end.

(* searched CASE: first branch whose condition is true, else ELSE, else NULL *)
Fixpoint sem_case (ws : list (xexpr * xexpr)) (els : option xexpr) : option xvalue :=
  match ws with
  | [] => match els with Some e => sem e | None => Some VNull end
  | (c, x) :: ws' =>
      if negb (is_cond c) then None else
      match sem c with
      | Some v => match as_bool v with
                  | Some true => sem x
                  | Some false => sem_case ws' els
                  | None => None
                  end
      | None => None
      end
  end.

Definition sem_top (t : xetop) : option xvalue :=
  match t with
  | ETop e => sem e
  | ECase None ws els => sem_case ws els
  | ECase (Some _) _ _ => None   (* simple CASE: code-level correspondence only *)
  end.

End Sem.

(* ---- side conditions forced by the code (each is replayed on the real engine, see Props/C06.v) ----
   Strict positions: operands of a comparison and arguments of a call are read with
   evaluateFieldValue, which FAILS on a missing key (a key bound to NULL is fine). *)
Inductive xmode := Strict | Lax.

Section Cols.
Variable row : xrow.
Fixpoint cols_ok (m : xmode) (e : xexpr) : bool :=
  match e with
  | ENum _ | EStr _ => true
  | ECol c => match m with Lax => true | Strict => match xlookup row c with Some _ => true | None => false end end
  | EParen x => cols_ok m x
  | ENeg x => cols_ok Lax x
  | EBin _ l r => cols_ok Lax l && cols_ok Lax r
  | ECmp _ l r => cols_ok Strict l && cols_ok Strict r
  | EAnd l r | EOr l r => cols_ok Lax l && cols_ok Lax r
  | ECall _ args => forallb (cols_ok Strict) args
  end.

Definition cols_ok_top (t : xetop) : bool :=
  match t with
  | ETop e => cols_ok Lax e
  | ECase v ws els =>
      match v with Some x => cols_ok Lax x | None => true end
      && forallb (fun w => cols_ok Lax (fst w) && cols_ok Lax (snd w)) ws
      && match els with Some x => cols_ok Lax x | None => true end
  end.
End Cols.

(* the value a SELECT item gets from EvaluateValueWithNull (stream/processor_field.go
   processExpressionField: error -> nil, isNull -> nil) *)
Definition select_value (r : xout (xvalue * bool)) : option xvalue :=
  match r with
  | OVal (v, n) => Some (if n then VNull else v)
  | OErr => Some VNull
  | OUnm => None
  end.
