(* C05 — the OUTPUT side of a direct query: the result channel (GetResultsChan / ToChannel).
   Code anchors:
     stream/processor_data.go   processDirectData: sendResultNonBlocking(results), THEN callSinksAsync(results)
                                (one consumer goroutine; a direct query without unnest sends a batch of one row)
     stream/handler_result.go   sendResultNonBlocking: non-blocking send; when the channel is full:
                                handleResultChannelBackpressure: usage > 90 % -> take the OLDEST batch out,
                                drop it, send the new batch; otherwise (a reader emptied the channel between
                                the failed send and the usage test) the NEW batch is dropped
     stream/stream_factory.go   resultChan = make(chan []map[string]any, ResultChannelSize)   (default 100)
   The channel is a bounded FIFO of batches.  Steps are atomic; the only effect of a reader racing with
   the sender's three channel operations is that the new batch is lost instead of the oldest one:
   [RLose].  A row is represented by its id (the first select item of the generated queries).
   [merge = true] is NOT the code: it is the variant in which the evicted batch is put in front of the
   new one and enqueued at the tail ("do not lose the evicted rows"), kept for the witness
   C05_merge_evicted_reorders. *)
From Coq Require Import List ZArith Bool Arith.
Import ListNotations.

Definition rbatch := list Z.

Inductive rc_op :=
| RSend (b : rbatch)    (* the consumer goroutine offers a batch: sent, or the oldest batch makes room *)
| RLose (b : rbatch)    (* ... offers a batch that is dropped (only under a race with a reader) *)
| RRecv.                (* a reader takes the oldest batch, if any *)

Record rc_state := {
  rc_chan : list rbatch;    (* buffered batches, oldest first *)
  rc_read : list rbatch;    (* what the reader has received so far *)
  rc_sent : list rbatch }.  (* every batch offered so far, in emission order *)

(* sendResultNonBlocking + handleResultChannelBackpressure with nobody receiving at that moment *)
Definition rc_offer (merge : bool) (cap : nat) (ch : list rbatch) (b : rbatch) : list rbatch :=
  if Nat.ltb (length ch) cap then ch ++ [b]
  else match ch with
       | [] => []                                   (* capacity 0 and no receiver: dropped *)
       | old :: rest => rest ++ [if merge then old ++ b else b]
       end.

Definition rc_step (merge : bool) (cap : nat) (s : rc_state) (o : rc_op) : rc_state :=
  match o with
  | RSend b => {| rc_chan := rc_offer merge cap (rc_chan s) b; rc_read := rc_read s; rc_sent := rc_sent s ++ [b] |}
  | RLose b => {| rc_chan := rc_chan s; rc_read := rc_read s; rc_sent := rc_sent s ++ [b] |}
  | RRecv => match rc_chan s with
             | [] => s
             | b :: rest => {| rc_chan := rest; rc_read := rc_read s ++ [b]; rc_sent := rc_sent s |}
             end
  end.

Definition rc_init : rc_state := {| rc_chan := []; rc_read := []; rc_sent := [] |}.
Definition rc_run (merge : bool) (cap : nat) (ops : list rc_op) : rc_state :=
  fold_left (rc_step merge cap) ops rc_init.

(* everything a reader has once it has drained the channel *)
Definition rc_seen (s : rc_state) : list rbatch := rc_read s ++ rc_chan s.

(* the last k elements *)
Definition lastn {A : Type} (k : nat) (l : list A) : list A := skipn (length l - k) l.
