(* Model of the counting window (C09).
   Code anchor: window/counting_window.go, the loop body of Start (case row := <-triggerChan)
   and getKey. The window has ONE consumer goroutine fed by a FIFO channel (Add only sends),
   so its sequence of batches is a function of the sequence of Adds; every schedule of the
   ingest goroutine(s) against the consumer yields the same result for the same Add order.
   Not modelled: reapIdleKeys (STATETTL; the property excludes it), the overflow handling of
   the output channel (sendResult; the harness drains it), Stop/Reset. *)
From SV Require Export Model.GroupKey.

(* keyedBuffer (keyedCount is always len of the buffer; lastActive only matters for reaping) *)
Definition cw_state := list (bytes * list krow).

Fixpoint cw_buf_get (st : cw_state) (k : bytes) : list krow :=
  match st with
  | [] => []
  | (k', b) :: st' => if bytes_eqb k k' then b else cw_buf_get st' k
  end.

Fixpoint cw_buf_set (st : cw_state) (k : bytes) (v : list krow) : cw_state :=
  match st with
  | [] => [(k, v)]
  | (k', b) :: st' => if bytes_eqb k k' then (k', v) :: st' else (k', b) :: cw_buf_set st' k v
  end.

(* one received row:
     buf := append(keyedBuffer[key], row)
     if len(buf) >= threshold { data := buf[:threshold]
                                if len(buf) > threshold { rem := buf[threshold:] } else { rem := empty }
                                emit data }
   A batch is recorded with the key it was cut for. *)
Definition cw_cut (n : nat) (buf : list krow) : list krow * option (list krow) :=
  if n <=? length buf
  then ((if n <? length buf then skipn n buf else []), Some (firstn n buf))
  else (buf, None).

Definition cw_add (key : krow -> bytes) (n : nat) (st : cw_state) (r : krow)
  : cw_state * list (bytes * list krow) :=
  let k := key r in
  let (rest, fired) := cw_cut n (cw_buf_get st k ++ [r]) in
  (cw_buf_set st k rest, match fired with Some d => [(k, d)] | None => [] end).

Fixpoint cw_steps (key : krow -> bytes) (n : nat) (st : cw_state) (h : list krow)
  : cw_state * list (bytes * list krow) :=
  match h with
  | [] => (st, [])
  | r :: h' =>
      let (st1, o1) := cw_add key n st r in
      let (st2, o2) := cw_steps key n st1 h' in
      (st2, o1 ++ o2)
  end.

(* the window as configured by SQL: keyed by getKey, started empty *)
Definition cw_run (n : nat) (h : list krow) : list (bytes * list krow) := snd (cw_steps cnt_key n [] h).

(* projections used by the statements *)
Definition kbatches_of (k : bytes) (out : list (bytes * list krow)) : list (list krow) :=
  map snd (filter (fun b => bytes_eqb (fst b) k) out).
Definition krows_of (t : list kvalue) (h : list krow) : list krow :=
  filter (fun r => ktuple_eqb (ktuple_of r) t) h.
