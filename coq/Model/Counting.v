(* Model of the counting window (C09).
   Code anchor: window/counting_window.go, the loop body of Start (case row := <-triggerChan)
   and getKey. The window has ONE consumer goroutine fed by a FIFO channel (Add only sends),
   so its sequence of batches is a function of the sequence of Adds; every schedule of the
   ingest goroutine(s) against the consumer yields the same result for the same Add order.
   Not modelled: reapIdleKeys (STATETTL; the property excludes it), the overflow handling of
   the output channel (sendResult; the harness drains it), Stop/Reset. *)
From SV Require Export Model.GroupKey.

(* keyedBuffer (keyedCount is always len of the buffer; lastActive only matters for reaping) *)
Definition cstate := list (bytes * list row).

Fixpoint buf_get (st : cstate) (k : bytes) : list row :=
  match st with
  | [] => []
  | (k', b) :: st' => if bytes_eqb k k' then b else buf_get st' k
  end.

Fixpoint buf_set (st : cstate) (k : bytes) (v : list row) : cstate :=
  match st with
  | [] => [(k, v)]
  | (k', b) :: st' => if bytes_eqb k k' then (k', v) :: st' else (k', b) :: buf_set st' k v
  end.

(* one received row:
     buf := append(keyedBuffer[key], row)
     if len(buf) >= threshold { data := buf[:threshold]
                                if len(buf) > threshold { rem := buf[threshold:] } else { rem := empty }
                                emit data }
   A batch is recorded with the key it was cut for. *)
Definition cut (n : nat) (buf : list row) : list row * option (list row) :=
  if n <=? length buf
  then ((if n <? length buf then skipn n buf else []), Some (firstn n buf))
  else (buf, None).

Definition c_add (key : row -> bytes) (n : nat) (st : cstate) (r : row)
  : cstate * list (bytes * list row) :=
  let k := key r in
  let (rest, fired) := cut n (buf_get st k ++ [r]) in
  (buf_set st k rest, match fired with Some d => [(k, d)] | None => [] end).

Fixpoint c_run (key : row -> bytes) (n : nat) (st : cstate) (h : list row)
  : cstate * list (bytes * list row) :=
  match h with
  | [] => (st, [])
  | r :: h' =>
      let (st1, o1) := c_add key n st r in
      let (st2, o2) := c_run key n st1 h' in
      (st2, o1 ++ o2)
  end.

(* the window as configured by SQL: keyed by getKey, started empty *)
Definition run (n : nat) (h : list row) : list (bytes * list row) := snd (c_run cnt_key n [] h).

(* projections used by the statements *)
Definition batches_of (k : bytes) (out : list (bytes * list row)) : list (list row) :=
  map snd (filter (fun b => bytes_eqb (fst b) k) out).
Definition rows_of (t : list value) (h : list row) : list row :=
  filter (fun r => tuple_eqb (tuple_of r) t) h.
