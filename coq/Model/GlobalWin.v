(* Model of window/global_window.go: GLOBAL WINDOW ... TRIGGER WHEN (FIRE_AND_PURGE).
   The Start goroutine takes rows from a FIFO and calls processRow for each; processRow runs under
   gw.mu, so one row = one atomic step and the output is a function of the row sequence.
   Executable definitions only. Numbers are exact rationals (the aggregates' float64 arithmetic is
   exact on the generated inputs; avg is compared within 2^-40). *)
From Coq Require Export List ZArith QArith Bool NArith.
Export ListNotations.
Open Scope Q_scope.

(* ---------------------------------------------------------------- aggregates *)
(* functions/functions_aggregation.go: CountFunction, SumFunction, AvgFunction, MinFunction, MaxFunction *)
Inductive gw_fn := GwCount | GwSum | GwAvg | GwMin | GwMax.

(* one aggregate call  fn(field)  ; gr_fld = None is "*"  (aggSpec / triggerSpec: aggType, inputField) *)
Record gw_ref := { gr_fn : gw_fn; gr_fld : option nat }.

Definition gw_fn_eqb (a b : gw_fn) : bool :=
  match a, b with
  | GwCount, GwCount | GwSum, GwSum | GwAvg, GwAvg | GwMin, GwMin | GwMax, GwMax => true
  | _, _ => false
  end.
Definition gw_fld_eqb (a b : option nat) : bool :=
  match a, b with
  | None, None => true
  | Some x, Some y => Nat.eqb x y
  | _, _ => false
  end.
(* the same aggregate: same function, same field *)
Definition gw_ref_eqb (a b : gw_ref) : bool := gw_fn_eqb (gr_fn a) (gr_fn b) && gw_fld_eqb (gr_fld a) (gr_fld b).

(* a row: the group-by tuple (ids of the column values; the encoding of the tuple into the map key,
   getKeyAndValues, is assumed injective here - finding F2 is handled elsewhere) and the numeric
   fields; None = the field is missing or NULL (lookupFieldValue: !ok || val == nil) *)
Record gw_row := { gw_key : list N; gw_vals : list (option Q) }.

Definition gw_lookup (r : gw_row) (f : nat) : option Q := nth f (gw_vals r) None.

(* feedAggs / feedTriggerAggs: inputField "*" -> Add(1); missing or NULL -> skipped *)
Definition gw_input (a : gw_ref) (r : gw_row) : option Q :=
  match gr_fld a with
  | None => Some 1
  | Some f => gw_lookup r f
  end.

(* running state of one aggregator instance *)
Inductive gw_ast :=
| AsCount (n : Z)                  (* CountFunction.count *)
| AsSum (v : Q) (has : bool)       (* SumFunction.value, hasValues *)
| AsAvg (s : Q) (n : Z)            (* AvgFunction.sum, count *)
| AsMin (v : Q) (first : bool)     (* MinFunction.value, first *)
| AsMax (v : Q) (first : bool).    (* MaxFunction.value, first *)

(* prototype.New() *)
Definition gw_new (f : gw_fn) : gw_ast :=
  match f with
  | GwCount => AsCount 0
  | GwSum => AsSum 0 false
  | GwAvg => AsAvg 0 0
  | GwMin => AsMin 0 true
  | GwMax => AsMax 0 true
  end.

Definition gw_qlt (x y : Q) : bool := negb (Qle_bool y x).

(* Add(value) for a non-nil numeric value *)
Definition gw_add (st : gw_ast) (x : Q) : gw_ast :=
  match st with
  | AsCount n => AsCount (n + 1)
  | AsSum v _ => AsSum (v + x) true
  | AsAvg s n => AsAvg (s + x) (n + 1)
  | AsMin v first => if first || gw_qlt x v then AsMin x false else st
  | AsMax v first => if first || gw_qlt v x then AsMax x false else st
  end.

(* Result(): None = nil (NULL) *)
Definition gw_result (st : gw_ast) : option Q :=
  match st with
  | AsCount n => Some (inject_Z n)
  | AsSum v has => if has then Some v else None
  | AsAvg s n => if (n =? 0)%Z then None else Some (s / inject_Z n)
  | AsMin v first => if first then None else Some v
  | AsMax v first => if first then None else Some v
  end.

Definition gw_feed1 (a : gw_ref) (st : gw_ast) (r : gw_row) : gw_ast :=
  match gw_input a r with
  | Some x => gw_add st x
  | None => st
  end.

(* ---------------------------------------------------------------- TRIGGER WHEN predicate *)
Inductive gw_cmp := CmpGt | CmpGe | CmpLt | CmpLe | CmpEq | CmpNe.

Inductive gw_pred :=
| GPAtom (a : gw_ref) (c : gw_cmp) (lit : Q)
| GPAnd (p q : gw_pred)
| GPOr (p q : gw_pred).

(* the rewritten predicate: the i-th aggregate call (document order) replaced by __trig_i__ *)
Inductive gw_ipred :=
| IPAtom (i : nat) (c : gw_cmp) (lit : Q)
| IPAnd (p q : gw_ipred)
| IPOr (p q : gw_ipred).

(* findAggCalls: the aggregate calls in document order *)
Fixpoint gw_calls (p : gw_pred) : list gw_ref :=
  match p with
  | GPAtom a _ _ => [a]
  | GPAnd p q | GPOr p q => gw_calls p ++ gw_calls q
  end.

(* buildTrigger: numbering of the calls, starting at n *)
Fixpoint gw_rewrite (p : gw_pred) (n : nat) : gw_ipred :=
  match p with
  | GPAtom _ c lit => IPAtom n c lit
  | GPAnd p q => IPAnd (gw_rewrite p n) (gw_rewrite q (n + length (gw_calls p)))
  | GPOr p q => IPOr (gw_rewrite p n) (gw_rewrite q (n + length (gw_calls p)))
  end.

(* condition.ExprCondition.Evaluate on one comparison. A number compares numerically (fast path and
   expr-lang agree). nil: expr-lang's == is false, != is true, and an ordering comparison is a
   runtime error (None), which aborts the evaluation of the whole predicate. *)
Definition gw_cmp_eval (c : gw_cmp) (v : option Q) (lit : Q) : option bool :=
  match v with
  | Some x =>
      Some (match c with
            | CmpGt => gw_qlt lit x
            | CmpGe => Qle_bool lit x
            | CmpLt => gw_qlt x lit
            | CmpLe => Qle_bool x lit
            | CmpEq => Qeq_bool x lit
            | CmpNe => negb (Qeq_bool x lit)
            end)
  | None =>
      match c with
      | CmpEq => Some false
      | CmpNe => Some true
      | _ => None
      end
  end.

(* && and || evaluate left to right with short circuit; an error propagates *)
Fixpoint gw_ieval (env : nat -> option Q) (p : gw_ipred) : option bool :=
  match p with
  | IPAtom i c lit => gw_cmp_eval c (env i) lit
  | IPAnd p q =>
      match gw_ieval env p with
      | Some true => gw_ieval env q
      | Some false => Some false
      | None => None
      end
  | IPOr p q =>
      match gw_ieval env p with
      | Some true => Some true
      | Some false => gw_ieval env q
      | None => None
      end
  end.

(* ---------------------------------------------------------------- window *)
(* gc_bind: for the i-th call of the predicate, the index (in gc_outs) of the SELECT aggregate whose value
   buildTrigger makes the placeholder read (triggerSpec.outputAlias), or None for a trigger-only aggregator.
   The decision is an input of the model: findOutputSpec compares the SELECT's spelling of the function with
   the lower-cased call (so MAX(x) in SELECT is never bound) and the two input fields after normalizeField
   (trimmed, LOWER-CASED), in the iteration order of a Go map. An index outside gc_outs is ignored. *)
Record gw_config := { gc_outs : list gw_ref; gc_pred : gw_pred; gc_bind : list (option nat) }.

Definition gw_bound (outs : list gw_ref) (b : option nat) : option nat :=
  match b with
  | Some j => match nth_error outs j with Some _ => Some j | None => None end
  | None => None
  end.

(* triggerSpecs: (call, index of the SELECT aggregate it reads, if any) *)
Fixpoint gw_tspecs_from (outs : list gw_ref) (calls : list gw_ref) (bind : list (option nat)) : list (gw_ref * option nat) :=
  match calls with
  | [] => []
  | a :: t => (a, gw_bound outs (hd None bind)) :: gw_tspecs_from outs t (tl bind)
  end.
Definition gw_tspecs (c : gw_config) : list (gw_ref * option nat) :=
  gw_tspecs_from (gc_outs c) (gw_calls (gc_pred c)) (gc_bind c).

(* globalGroupState: outputAggs (in outputSpecs order), triggerAggs (None = value read from an output) *)
Record gw_gstate := { gs_out : list gw_ast; gs_trig : list (option gw_ast) }.

(* newGroupState *)
Definition gw_newstate (c : gw_config) : gw_gstate :=
  {| gs_out := map (fun a => gw_new (gr_fn a)) (gc_outs c);
     gs_trig := map (fun t => match snd t with Some _ => None | None => Some (gw_new (gr_fn (fst t))) end) (gw_tspecs c) |}.

Fixpoint gw_feed_outs (outs : list gw_ref) (sts : list gw_ast) (r : gw_row) : list gw_ast :=
  match outs, sts with
  | a :: outs', s :: sts' => gw_feed1 a s r :: gw_feed_outs outs' sts' r
  | _, _ => []
  end.
Fixpoint gw_feed_trigs (ts : list (gw_ref * option nat)) (sts : list (option gw_ast)) (r : gw_row) : list (option gw_ast) :=
  match ts, sts with
  | t :: ts', s :: sts' =>
      match s with
      | Some s0 => Some (gw_feed1 (fst t) s0 r)
      | None => None
      end :: gw_feed_trigs ts' sts' r
  | _, _ => []
  end.

(* feedAggs + feedTriggerAggs *)
Definition gw_feed (c : gw_config) (g : gw_gstate) (r : gw_row) : gw_gstate :=
  {| gs_out := gw_feed_outs (gc_outs c) (gs_out g) r;
     gs_trig := gw_feed_trigs (gw_tspecs c) (gs_trig g) r |}.

(* shouldFire: env[__trig_i__] *)
Definition gw_env (c : gw_config) (g : gw_gstate) (i : nat) : option Q :=
  match nth_error (gw_tspecs c) i with
  | None => None
  | Some t =>
      match snd t with
      | Some j => match nth_error (gs_out g) j with Some s => gw_result s | None => None end
      | None => match nth_error (gs_trig g) i with Some (Some s) => gw_result s | _ => None end
      end
  end.

(* shouldFire: an evaluation error counts as false *)
Definition gw_should_fire (c : gw_config) (g : gw_gstate) : bool :=
  match gw_ieval (gw_env c g) (gw_rewrite (gc_pred c) 0) with
  | Some true => true
  | _ => false
  end.

(* buildResult: group columns + one value per SELECT aggregate *)
Definition gw_res := (list N * list (option Q))%type.

Fixpoint gw_key_eqb (a b : list N) : bool :=
  match a, b with
  | [], [] => true
  | x :: a', y :: b' => N.eqb x y && gw_key_eqb a' b'
  | _, _ => false
  end.

(* gw.groups *)
Definition gw_state := list (list N * gw_gstate).

Fixpoint gw_find (k : list N) (st : gw_state) : option gw_gstate :=
  match st with
  | [] => None
  | (k', g) :: t => if gw_key_eqb k' k then Some g else gw_find k t
  end.
Fixpoint gw_remove (k : list N) (st : gw_state) : gw_state :=
  match st with
  | [] => []
  | (k', g) :: t => if gw_key_eqb k' k then gw_remove k t else (k', g) :: gw_remove k t
  end.

(* processRow *)
Definition gw_step (c : gw_config) (st : gw_state) (r : gw_row) : gw_state * option gw_res :=
  let k := gw_key r in
  let g := match gw_find k st with Some g => g | None => gw_newstate c end in
  let g' := gw_feed c g r in
  if gw_should_fire c g' then (gw_remove k st, Some (k, map gw_result (gs_out g')))
  else ((k, g') :: gw_remove k st, None).

(* the output (None = nothing delivered) for every row of a sequence *)
Fixpoint gw_run (c : gw_config) (st : gw_state) (h : list gw_row) : list (option gw_res) :=
  match h with
  | [] => []
  | r :: t => let so := gw_step c st r in snd so :: gw_run c (fst so) t
  end.

Definition gw_run0 (c : gw_config) (h : list gw_row) : list (option gw_res) := gw_run c [] h.
