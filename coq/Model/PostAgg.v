(* Model of the post-aggregation clauses (property C07).
   Code anchors (rulego/streamsql):
     stream/sorter.go            Sorter.Sort, Sorter.less, compareOrderValues, orderString
     stream/processor_data.go    processAggregationResults, applyDistinct, applyHavingFilter
     aggregator/post_aggregation.go  PostAggregationProcessor.ProcessResults (template evaluation,
                                 placeholder cleanup), AddPostAggregationExpression
     aggregator/group_aggregator.go  GetResults (one row per group: group columns + aggregates)
     rsql/ast.go                 isComplexAggregationExpression, parseNestedFunctionsInternal,
                                 extractHavingAggregates
   Numbers are exact rationals (the correspondence uses inputs on which float64 is exact).
   Every top-level name starts with pa_/Pa (one extracted OCaml file is shared by all properties).
   Executable definitions only. *)
From Coq Require Import QArith.
From SV Require Export Base.Bytes.

(* ------------------------------------------------------------------ values, columns, rows *)
(* PaBool: a Go bool (only a GROUP BY key can carry one); it is a value of its own: not the string "true" *)
Inductive pa_val := PaNum (q : Q) | PaStr (s : bytes) | PaNull | PaBool (b : bool).

Inductive pa_agg := PaSum | PaAvg | PaMin | PaMax | PaCount.
Inductive pa_op := PaAdd | PaSub | PaMul | PaDiv.

(* argument of an aggregate call: arithmetic over the input row's integer fields *)
Inductive pa_aexp :=
| PaField (f : nat)
| PaALit (z : Z)
| PaABin (o : pa_op) (x y : pa_aexp)      (* + - * only; PaDiv is not generated *)
| PaStar.                                  (* the "*" of COUNT( * ) *)

Definition pa_call : Type := (pa_agg * pa_aexp)%type.

Inductive pa_col :=
| PaGroup (j : nat)          (* j-th GROUP BY column *)
| PaItem (i : nat)           (* i-th SELECT item (alias or expression text) *)
| PaHidden (n : nat)         (* __having_n__ *)
| PaPlace (c : pa_call)      (* __<agg>_<hash of the call text>__ *)
| PaOther (n : nat).         (* any other name (a key that no row has, direct Sorter tests) *)

Definition pa_row : Type := list (pa_col * pa_val).

Definition pa_agg_eqb (a b : pa_agg) : bool :=
  match a, b with
  | PaSum, PaSum | PaAvg, PaAvg | PaMin, PaMin | PaMax, PaMax | PaCount, PaCount => true
  | _, _ => false
  end.
Definition pa_op_eqb (a b : pa_op) : bool :=
  match a, b with
  | PaAdd, PaAdd | PaSub, PaSub | PaMul, PaMul | PaDiv, PaDiv => true
  | _, _ => false
  end.
Fixpoint pa_aexp_eqb (a b : pa_aexp) : bool :=
  match a, b with
  | PaField f, PaField g => Nat.eqb f g
  | PaALit x, PaALit y => Z.eqb x y
  | PaABin o x y, PaABin o' x' y' => pa_op_eqb o o' && pa_aexp_eqb x x' && pa_aexp_eqb y y'
  | PaStar, PaStar => true
  | _, _ => false
  end.
Definition pa_call_eqb (a b : pa_call) : bool :=
  pa_agg_eqb (fst a) (fst b) && pa_aexp_eqb (snd a) (snd b).
Definition pa_col_eqb (a b : pa_col) : bool :=
  match a, b with
  | PaGroup i, PaGroup j | PaItem i, PaItem j | PaHidden i, PaHidden j | PaOther i, PaOther j => Nat.eqb i j
  | PaPlace c, PaPlace d => pa_call_eqb c d
  | _, _ => false
  end.

(* Go: v, ok := row[name] *)
Fixpoint pa_lookup (c : pa_col) (r : pa_row) : option pa_val :=
  match r with
  | [] => None
  | (c', v) :: r' => if pa_col_eqb c c' then Some v else pa_lookup c r'
  end.

(* Go: delete(row, name) for every name satisfying p *)
Definition pa_delete (p : pa_col -> bool) (r : pa_row) : pa_row :=
  filter (fun cv => negb (p (fst cv))) r.

(* ------------------------------------------------------------------ compareOrderValues *)
Fixpoint pa_bytes_cmp (a b : bytes) : comparison :=
  match a, b with
  | [], [] => Eq
  | [], _ :: _ => Lt
  | _ :: _, [] => Gt
  | x :: a', y :: b' => match N.compare x y with Eq => pa_bytes_cmp a' b' | c => c end
  end.

(* decimal digits of n, most significant first *)
Fixpoint pa_digits (fuel : nat) (n : N) (acc : bytes) : bytes :=
  match fuel with
  | O => acc
  | S f => let acc' := (48 + N.modulo n 10)%N :: acc in
           if N.ltb n 10 then acc' else pa_digits f (N.div n 10) acc'
  end.
Fixpoint pa_pos_len (p : positive) : nat :=
  match p with xH => 1 | xO p' | xI p' => S (pa_pos_len p') end.
Definition pa_nat_text (n : N) : bytes :=
  pa_digits (match n with N0 => 1 | Npos p => pa_pos_len p end) n [].
Definition pa_int_text (z : Z) : bytes :=
  match z with
  | Z0 => [48%N]
  | Zpos p => pa_nat_text (Npos p)
  | Zneg p => 45%N :: pa_nat_text (Npos p)
  end.
(* orderString: fmt.Sprintf("%v", v). For a float64 holding an integer below 1e21 this is the decimal
   integer. Non-integers never meet a string in a validated case; they are rendered "n/d" here (which
   is NOT what Go prints) and the theorems about order only speak about homogeneous columns. *)
Definition pa_num_text (q : Q) : bytes :=
  let r := Qred q in
  match Qden r with
  | xH => pa_int_text (Qnum r)
  | d => pa_int_text (Qnum r) ++ 47%N :: pa_nat_text (Npos d)
  end.
Definition pa_nil_text : bytes := [60; 110; 105; 108; 62]%N.   (* "<nil>" *)
Definition pa_order_string (v : pa_val) : bytes :=
  match v with
  | PaStr s => s | PaNum q => pa_num_text q | PaNull => pa_nil_text
  | PaBool true => [116; 114; 117; 101]%N | PaBool false => [102; 97; 108; 115; 101]%N   (* "true" / "false" *)
  end.

(* compareOrderValues(a, aok, b, bok): a missing key sorts first; numbers numerically; everything
   else (string, nil, number against non-number) by the string rendering *)
Definition pa_cmp_val (a b : option pa_val) : comparison :=
  match a, b with
  | None, None => Eq
  | None, Some _ => Lt
  | Some _, None => Gt
  | Some (PaNum x), Some (PaNum y) => Qcompare x y
  | Some x, Some y => pa_bytes_cmp (pa_order_string x) (pa_order_string y)
  end.

Inductive pa_dir := PaAsc | PaDesc.
Definition pa_keys : Type := list (pa_col * pa_dir).

(* Sorter.less *)
Fixpoint pa_less (keys : pa_keys) (a b : pa_row) : bool :=
  match keys with
  | [] => false
  | (k, d) :: ks =>
      match pa_cmp_val (pa_lookup k a) (pa_lookup k b) with
      | Eq => pa_less ks a b
      | Lt => match d with PaAsc => true | PaDesc => false end
      | Gt => match d with PaAsc => false | PaDesc => true end
      end
  end.

(* sort.SliceStable on at most 20 elements is insertionSort: element i moves left while it is less
   than its left neighbour. [rp] is the already sorted prefix, reversed. (Beyond 20 elements Go merges
   sorted blocks; for a strict weak order the result of any stable sort is the same list.) *)
Fixpoint pa_ins {A : Type} (less : A -> A -> bool) (x : A) (rp : list A) : list A :=
  match rp with
  | [] => [x]
  | y :: r => if less x y then y :: pa_ins less x r else x :: rp
  end.
Definition pa_isort {A : Type} (less : A -> A -> bool) (l : list A) : list A :=
  rev (fold_left (fun rp x => pa_ins less x rp) l []).

(* Sorter.Sort / applyOrderBy: no-op without keys or with fewer than two rows *)
Definition pa_sort (keys : pa_keys) (rows : list pa_row) : list pa_row :=
  match keys with
  | [] => rows
  | _ => if Nat.ltb (length rows) 2 then rows else pa_isort (pa_less keys) rows
  end.

(* ------------------------------------------------------------------ DISTINCT, LIMIT *)
Definition pa_val_eqb (a b : pa_val) : bool :=
  match a, b with
  | PaNum x, PaNum y => Qeq_bool x y
  | PaStr s, PaStr t => bytes_eqb s t
  | PaNull, PaNull => true
  | PaBool x, PaBool y => Bool.eqb x y
  | _, _ => false
  end.
(* equality of the JSON serialisations: same keys with the same values. Rows of one batch are built
   with their columns in one fixed order, so list equality is map equality. *)
Fixpoint pa_row_eqb (a b : pa_row) : bool :=
  match a, b with
  | [], [] => true
  | (c, v) :: a', (d, w) :: b' => pa_col_eqb c d && pa_val_eqb v w && pa_row_eqb a' b'
  | _, _ => false
  end.

(* applyDistinct: keep a row iff its serialisation has not been seen *)
Fixpoint pa_distinct_go (seen : list pa_row) (l : list pa_row) : list pa_row :=
  match l with
  | [] => []
  | r :: l' => if existsb (fun s => pa_row_eqb s r) seen then pa_distinct_go seen l'
               else r :: pa_distinct_go (r :: seen) l'
  end.
Definition pa_distinct (l : list pa_row) : list pa_row := pa_distinct_go [] l.

(* if Limit > 0 && len > Limit { results = results[:Limit] }  -- LIMIT 0 is "no limit" *)
Definition pa_limit (n : nat) (l : list pa_row) : list pa_row :=
  match n with O => l | _ => if Nat.ltb n (length l) then firstn n l else l end.

(* ------------------------------------------------------------------ aggregates of one group *)
Definition pa_env : Type := list (nat * Z).     (* one input row: field id -> integer *)
Fixpoint pa_field (f : nat) (e : pa_env) : Z :=
  match e with [] => 0%Z | (g, z) :: e' => if Nat.eqb f g then z else pa_field f e' end.
Fixpoint pa_aeval (a : pa_aexp) (e : pa_env) : Z :=
  match a with
  | PaField f => pa_field f e
  | PaALit z => z
  | PaABin o x y =>
      let vx := pa_aeval x e in let vy := pa_aeval y e in
      match o with PaAdd => vx + vy | PaSub => vx - vy | PaMul => vx * vy | PaDiv => 0 end
  | PaStar => 1
  end%Z.

Definition pa_zsum (l : list Z) : Z := fold_left Z.add l 0%Z.
Definition pa_zmin (l : list Z) : Z := match l with [] => 0%Z | x :: r => fold_left Z.min r x end.
Definition pa_zmax (l : list Z) : Z := match l with [] => 0%Z | x :: r => fold_left Z.max r x end.

(* value of an aggregate call over the rows of one group (the mathematical definition; the
   aggregator implementations are C03's subject). A group has at least one row and every row
   carries every field, so no NULL arises. *)
Definition pa_agg_val (c : pa_call) (g : list pa_env) : Q :=
  let vs := map (pa_aeval (snd c)) g in
  match fst c with
  | PaSum => inject_Z (pa_zsum vs)
  | PaAvg => Qred (Qmake (pa_zsum vs) (Pos.of_nat (length vs)))
  | PaMin => inject_Z (pa_zmin vs)
  | PaMax => inject_Z (pa_zmax vs)
  | PaCount => inject_Z (Z.of_nat (length vs))
  end.

(* ------------------------------------------------------------------ SELECT items *)
Inductive pa_pexp :=
| PaPAgg (c : pa_call)
| PaPLit (q : Q)
| PaPBin (o : pa_op) (x y : pa_pexp)
| PaPParen (x : pa_pexp).

Definition pa_arith (o : pa_op) (x y : option Q) : option Q :=
  match x, y with
  | Some a, Some b =>
      match o with
      | PaAdd => Some (Qred (a + b))
      | PaSub => Some (Qred (a - b))
      | PaMul => Some (Qred (a * b))
      | PaDiv => if Qeq_bool b 0 then None else Some (Qred (a / b))
      end
  | _, _ => None
  end.

(* relational meaning of an item: the arithmetic applied to the group's aggregate values *)
Fixpoint pa_sem (p : pa_pexp) (g : list pa_env) : option Q :=
  match p with
  | PaPAgg c => Some (pa_agg_val c g)
  | PaPLit q => Some q
  | PaPBin o x y => pa_arith o (pa_sem x g) (pa_sem y g)
  | PaPParen x => pa_sem x g
  end.

(* the aggregate calls of an item, in the order parseNestedFunctionsInternal registers them
   (right to left) *)
Fixpoint pa_calls (p : pa_pexp) : list pa_call :=
  match p with
  | PaPAgg c => [c]
  | PaPLit _ => []
  | PaPBin _ x y => pa_calls y ++ pa_calls x
  | PaPParen x => pa_calls x
  end.

(* isComplexAggregationExpression (after the fix): an item is a plain aggregate iff it is exactly
   one aggregate call; everything else that contains an aggregate is evaluated after aggregation *)
Definition pa_is_plain (p : pa_pexp) : option pa_call :=
  match p with PaPAgg c => Some c | _ => None end.

(* evaluateExpression(template, row): placeholders are read from the row *)
Fixpoint pa_template_eval (p : pa_pexp) (r : pa_row) : option Q :=
  match p with
  | PaPAgg c => match pa_lookup (PaPlace c) r with Some (PaNum q) => Some q | _ => None end
  | PaPLit q => Some q
  | PaPBin o x y => pa_arith o (pa_template_eval x r) (pa_template_eval y r)
  | PaPParen x => pa_template_eval x r
  end.

Definition pa_of_opt (o : option Q) : pa_val := match o with Some q => PaNum q | None => PaNull end.

(* ------------------------------------------------------------------ HAVING *)
Inductive pa_cmpop := PaGt | PaGe | PaLt | PaLe | PaEq | PaNe.
Inductive pa_hexp :=
| PaHCol (c : pa_col)            (* an output column: alias of an item, group column, hidden column *)
| PaHAgg (c : pa_call)           (* an aggregate call written in the HAVING text *)
| PaHLit (q : Q)
| PaHBin (o : pa_op) (x y : pa_hexp).
(* A searched CASE is carried flat: [ops] holds the comparison of every WHEN, [es] the operands in the
   order of the text: x1 y1 r1 ... xn yn rn [e]  for
     CASE WHEN x1 o1 y1 THEN r1 ... WHEN xn on yn THEN rn [ELSE e] END.
   (The WHEN conditions are single comparisons: AND / OR anywhere in a HAVING text that contains CASE
   sends the whole text down the branch described at pa_hkeep.) *)
Inductive pa_hpred :=
| PaHCmp (o : pa_cmpop) (x y : pa_hexp)
| PaHAnd (p q : pa_hpred)
| PaHOr (p q : pa_hpred)
| PaHCase (ops : list pa_cmpop) (es : list pa_hexp)                  (* HAVING CASE ... END *)
| PaHCaseCmp (o : pa_cmpop) (ops : list pa_cmpop) (es : list pa_hexp) (z : pa_hexp).   (* CASE ... END o z *)

(* extractHavingAggregates: the k-th aggregate call of the HAVING text (left to right) becomes the
   hidden column __having_k__. (The branch that maps a call to the alias of an identical SELECT item
   compares the re-spaced HAVING text "SUM ( t )" with the item text and is observationally the same:
   the hidden aggregate computes the same value.) Returns the rewritten tree and the calls. *)
Fixpoint pa_hx_exp (n : nat) (e : pa_hexp) : pa_hexp * list pa_call :=
  match e with
  | PaHCol c => (PaHCol c, [])
  | PaHAgg c => (PaHCol (PaHidden n), [c])
  | PaHLit q => (PaHLit q, [])
  | PaHBin o x y =>
      let (x', cx) := pa_hx_exp n x in
      let (y', cy) := pa_hx_exp (n + length cx) y in
      (PaHBin o x' y', cx ++ cy)
  end.
Fixpoint pa_hx_list (n : nat) (es : list pa_hexp) : list pa_hexp * list pa_call :=
  match es with
  | [] => ([], [])
  | e :: es' =>
      let (e', ce) := pa_hx_exp n e in
      let (es'', cs) := pa_hx_list (n + length ce) es' in
      (e' :: es'', ce ++ cs)
  end.
Fixpoint pa_hx_pred (n : nat) (p : pa_hpred) : pa_hpred * list pa_call :=
  match p with
  | PaHCmp o x y =>
      let (x', cx) := pa_hx_exp n x in
      let (y', cy) := pa_hx_exp (n + length cx) y in
      (PaHCmp o x' y', cx ++ cy)
  | PaHCase ops es =>
      let (es', cs) := pa_hx_list n es in (PaHCase ops es', cs)
  | PaHCaseCmp o ops es z =>
      let (es', cs) := pa_hx_list n es in
      let (z', cz) := pa_hx_exp (n + length cs) z in
      (PaHCaseCmp o ops es' z', cs ++ cz)
  | PaHAnd p q =>
      let (p', cp) := pa_hx_pred n p in
      let (q', cq) := pa_hx_pred (n + length cp) q in
      (PaHAnd p' q', cp ++ cq)
  | PaHOr p q =>
      let (p', cp) := pa_hx_pred n p in
      let (q', cq) := pa_hx_pred (n + length cp) q in
      (PaHOr p' q', cp ++ cq)
  end.

(* evaluation of the rewritten condition over a result row (expr-lang over float64) *)
Fixpoint pa_heval (e : pa_hexp) (r : pa_row) : option Q :=
  match e with
  | PaHCol c => match pa_lookup c r with Some (PaNum q) => Some q | _ => None end
  | PaHAgg _ => None
  | PaHLit q => Some q
  | PaHBin o x y => pa_arith o (pa_heval x r) (pa_heval y r)
  end.
Definition pa_cmp_holds (o : pa_cmpop) (a b : Q) : bool :=
  match o, Qcompare a b with
  | PaGt, Gt | PaGe, Gt | PaGe, Eq | PaLt, Lt | PaLe, Lt | PaLe, Eq | PaEq, Eq | PaNe, Lt | PaNe, Gt => true
  | _, _ => false
  end.
Definition pa_cmp_opt (o : pa_cmpop) (a b : option Q) : bool :=
  match a, b with Some x, Some y => pa_cmp_holds o x y | _, _ => false end.
(* the operand a searched CASE selects (expr/case_expression.go evaluateCaseExpressionWithNull): the
   result of the first WHEN whose comparison holds, else the ELSE operand, else nothing (NULL).
   [vs] are the values of the operands, [xs] runs parallel to them and is what is returned. *)
Fixpoint pa_case_sel {A : Type} (ops : list pa_cmpop) (vs : list (option Q)) (xs : list A) : option A :=
  match ops, vs, xs with
  | o :: ops', x :: y :: _ :: vs', _ :: _ :: xr :: xs' =>
      if pa_cmp_opt o x y then Some xr else pa_case_sel ops' vs' xs'
  | [], [_], [xe] => Some xe
  | _, _, _ => None
  end.
(* value of the CASE from the values of its operands *)
Definition pa_case_val (ops : list pa_cmpop) (vs : list (option Q)) : option Q :=
  match pa_case_sel ops vs vs with Some v => v | None => None end.
(* applyHavingWithCaseExpression: a numeric result keeps the row iff it is > 0; NULL drops it *)
Definition pa_truthy (v : option Q) : bool :=
  match v with Some q => pa_cmp_holds PaGt q 0 | None => false end.

(* the value of the condition on a result row *)
Fixpoint pa_hholds (p : pa_hpred) (r : pa_row) : bool :=
  match p with
  | PaHCmp o x y => pa_cmp_opt o (pa_heval x r) (pa_heval y r)
  | PaHAnd p q => pa_hholds p r && pa_hholds q r
  | PaHOr p q => pa_hholds p r || pa_hholds q r
  | PaHCase ops es => pa_truthy (pa_case_val ops (map (fun e => pa_heval e r) es))
  | PaHCaseCmp o ops es z =>
      pa_cmp_opt o (pa_case_val ops (map (fun e => pa_heval e r) es)) (pa_heval z r)
  end.

Fixpoint pa_has_case (p : pa_hpred) : bool :=
  match p with
  | PaHCmp _ _ _ => false
  | PaHAnd p q | PaHOr p q => pa_has_case p || pa_has_case q
  | PaHCase _ _ | PaHCaseCmp _ _ _ _ => true
  end.

(* applyHavingWithCaseExpression looks at the Go type of the CASE's result: a number of any Go numeric type
   (float64 from aggregates and arithmetic, the input row's own int for a result that is literally a numeric
   GROUP BY column) keeps the row iff it is > 0, a string iff non-empty, a bool iff true, NULL drops it.
   (Before the repair of finding F10j an int-typed result kept the row whatever the number was; pa_int_typed
   marked those results. No result is treated apart any more.) *)
Definition pa_int_typed (e : pa_hexp) : bool := false.
Arguments pa_int_typed : simpl never.
Definition pa_case_keep (ops : list pa_cmpop) (es : list pa_hexp) (r : pa_row) : bool :=
  let vs := map (fun e => pa_heval e r) es in
  match pa_case_sel ops vs (combine es vs) with
  | Some (e, Some q) => if pa_int_typed e then true else pa_cmp_holds PaGt q 0
  | _ => false
  end.

(* applyHavingFilter routes on "the HAVING text contains CASE":
     no CASE             applyHavingWithCondition (expr-lang): the value of the condition;
     CASE ... END        applyHavingWithCaseExpression, expr.NewExpression parses the text: the value;
     CASE ... END o z    the custom parser of expr.NewExpression fails, the expr-lang fallback returns an
                         error for every row and the row is skipped: every group is dropped (finding F10h);
     AND / OR with CASE  the parser has rewritten AND / OR to && / ||, expr.NewExpression rejects the
                         character and the filter returns the batch unfiltered (finding F10i). *)
Definition pa_hkeep (p : pa_hpred) (r : pa_row) : bool :=
  match p with
  | PaHCmp _ _ _ => pa_hholds p r
  | PaHCase ops es => pa_case_keep ops es r
  | PaHAnd _ _ | PaHOr _ _ => if pa_has_case p then true else pa_hholds p r
  | PaHCaseCmp _ _ _ _ => false
  end.

(* applyHavingFilter: append the rows that are kept *)
Fixpoint pa_having (p : pa_hpred) (l : list pa_row) : list pa_row :=
  match l with
  | [] => []
  | r :: l' => if pa_hkeep p r then r :: pa_having p l' else pa_having p l'
  end.

Definition pa_is_hidden (c : pa_col) : bool := match c with PaHidden _ => true | _ => false end.
Definition pa_is_place (c : pa_col) : bool := match c with PaPlace _ => true | _ => false end.

(* ------------------------------------------------------------------ the query and one batch *)
Record pa_query := {
  pq_ngroup : nat;                       (* number of GROUP BY columns *)
  pq_items : list pa_pexp;
  pq_distinct : bool;
  pq_having : option pa_hpred;           (* as written: aggregate calls not yet rewritten *)
  pq_order : pa_keys;
  pq_limit : nat
}.

Definition pa_key : Type := list pa_val.
Definition pa_group : Type := (pa_key * list pa_env)%type.

Fixpoint pa_key_eqb (a b : pa_key) : bool :=
  match a, b with
  | [], [] => true
  | x :: a', y :: b' => pa_val_eqb x y && pa_key_eqb a' b'
  | _, _ => false
  end.

(* GroupAggregator.Add: rows are collected per key tuple (first-appearance order here; Go keeps the
   groups in a map, see pa_arrange) *)
Fixpoint pa_add (k : pa_key) (e : pa_env) (gs : list pa_group) : list pa_group :=
  match gs with
  | [] => [(k, [e])]
  | (k', es) :: gs' => if pa_key_eqb k k' then (k', es ++ [e]) :: gs' else (k', es) :: pa_add k e gs'
  end.
Definition pa_groups (input : list (pa_key * pa_env)) : list pa_group :=
  fold_left (fun gs ke => pa_add (fst ke) (snd ke) gs) input [].

(* Go ranges over the map of groups in an unspecified order. [order] lists keys; the groups are
   emitted in that order, groups not listed follow in first-appearance order. Every theorem about a
   batch quantifies over [order]. *)
Fixpoint pa_take (k : pa_key) (gs : list pa_group) : option pa_group * list pa_group :=
  match gs with
  | [] => (None, [])
  | g :: gs' => if pa_key_eqb k (fst g) then (Some g, gs')
                else let (f, rest) := pa_take k gs' in (f, g :: rest)
  end.
Fixpoint pa_arrange (order : list pa_key) (gs : list pa_group) : list pa_group :=
  match order with
  | [] => gs
  | k :: o' => match pa_take k gs with
               | (Some g, rest) => g :: pa_arrange o' rest
               | (None, rest) => pa_arrange o' rest
               end
  end.

Fixpoint pa_enum {A B : Type} (f : nat -> A -> B) (n : nat) (l : list A) : list B :=
  match l with [] => [] | x :: l' => f n x :: pa_enum f (S n) l' end.

Definition pa_place_cols (items : list pa_pexp) (g : list pa_env) : pa_row :=
  flat_map (fun p => match pa_is_plain p with
                     | Some _ => []
                     | None => map (fun c => (PaPlace c, PaNum (pa_agg_val c g))) (pa_calls p)
                     end) items.

(* GroupAggregator.GetResults for one group: group columns, plain aggregates, placeholder aggregates,
   hidden HAVING aggregates *)
Definition pa_base_row (q : pa_query) (hcalls : list pa_call) (g : pa_group) : pa_row :=
  pa_enum (fun j v => (PaGroup j, v)) 0 (fst g)
  ++ flat_map (fun x => x)
       (pa_enum (fun i p => match pa_is_plain p with
                            | Some c => [(PaItem i, PaNum (pa_agg_val c (snd g)))]
                            | None => []
                            end) 0 (pq_items q))
  ++ pa_place_cols (pq_items q) (snd g)
  ++ pa_enum (fun n c => (PaHidden n, PaNum (pa_agg_val c (snd g)))) 0 hcalls.

(* PostAggregationProcessor.ProcessResults on one row: every post-aggregation item is evaluated from
   the placeholders of the row, then the placeholder columns are deleted *)
Definition pa_post_row (q : pa_query) (r : pa_row) : pa_row :=
  let outs := flat_map (fun x => x)
       (pa_enum (fun i p => match pa_is_plain p with
                            | Some _ => []
                            | None => [(PaItem i, pa_of_opt (pa_template_eval p r))]
                            end) 0 (pq_items q)) in
  pa_delete pa_is_place (r ++ outs).

Definition pa_hx (q : pa_query) : option pa_hpred * list pa_call :=
  match pq_having q with
  | None => (None, [])
  | Some p => let (p', cs) := pa_hx_pred 0 p in (Some p', cs)
  end.

(* EnhancedGroupAggregator.GetResults for the batch *)
Definition pa_results (q : pa_query) (gs : list pa_group) : list pa_row :=
  map (fun g => pa_post_row q (pa_base_row q (snd (pa_hx q)) g)) gs.

(* processAggregationResults: DISTINCT, HAVING (then the hidden columns are deleted), ORDER BY, LIMIT *)
Definition pa_pipeline (q : pa_query) (rows : list pa_row) : list pa_row :=
  let r1 := if pq_distinct q then pa_distinct rows else rows in
  let r2 := match fst (pa_hx q) with
            | None => r1
            | Some p => map (pa_delete pa_is_hidden) (pa_having p r1)
            end in
  pa_limit (pq_limit q) (pa_sort (pq_order q) r2).

(* the relational order of the clauses on the same rows: HAVING, projection to the delivered
   columns, DISTINCT, ORDER BY, LIMIT *)
Definition pa_relational (q : pa_query) (rows : list pa_row) : list pa_row :=
  let r1 := match fst (pa_hx q) with
            | None => rows
            | Some p => map (pa_delete pa_is_hidden) (pa_having p rows)
            end in
  let r2 := if pq_distinct q then pa_distinct r1 else r1 in
  pa_limit (pq_limit q) (pa_sort (pq_order q) r2).

(* one batch, from the input rows to the delivered rows *)
Definition pa_run (q : pa_query) (order : list pa_key) (input : list (pa_key * pa_env)) : list pa_row :=
  pa_pipeline q (pa_results q (pa_arrange order (pa_groups input))).

(* ------------------------------------------------------------------ history: the code before the fixes (F10)
   An item that starts with an aggregate call and has no operator between its first "(" and its last
   ")" was classified as a row expression and evaluated on the LAST row of the group with every
   aggregate call standing for its argument (AVG(t)*1.8+32 -> last(t)*1.8+32); an aggregate over an
   arithmetic argument inside a compound item read a column named like the argument text and the item
   became NULL. Only these two shapes are described; used for the _refuted theorems. *)
Fixpoint pa_last_row_eval (p : pa_pexp) (e : pa_env) : option Q :=
  match p with
  | PaPAgg c => Some (inject_Z (pa_aeval (snd c) e))
  | PaPLit q => Some q
  | PaPBin o x y => pa_arith o (pa_last_row_eval x e) (pa_last_row_eval y e)
  | PaPParen x => pa_last_row_eval x e
  end.
Fixpoint pa_has_paren (p : pa_pexp) : bool :=
  match p with
  | PaPParen _ => true
  | PaPBin _ x y => pa_has_paren x || pa_has_paren y
  | _ => false
  end.
Fixpoint pa_leftmost_call (p : pa_pexp) : option pa_call :=
  match p with
  | PaPAgg c => Some c
  | PaPBin _ x _ => pa_leftmost_call x
  | _ => None
  end.
Definition pa_simple_arg (a : pa_aexp) : bool :=
  match a with PaField _ | PaStar => true | _ => false end.
Definition pa_item_asis (p : pa_pexp) (g : list pa_env) : option Q :=
  match pa_is_plain p with
  | Some c => Some (pa_agg_val c g)
  | None =>
      match pa_calls p, pa_leftmost_call p with
      | [c], Some _ =>
          if pa_simple_arg (snd c) && negb (pa_has_paren p)
          then pa_last_row_eval p (last g [])            (* "expression" item: F10a *)
          else if pa_simple_arg (snd c) then pa_sem p g else None
      | cs, _ =>
          if forallb (fun c => pa_simple_arg (snd c)) cs then pa_sem p g
          else None                                        (* arithmetic argument: F10b *)
      end
  end.
