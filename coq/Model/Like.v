(* Model of the LIKE matchers and of the LIKE rewriting.
   Code anchors (rulego/streamsql):
     condition/condition.go  matchesLikePattern
     expr/evaluator.go       matchLikePattern
     functions/expr_bridge.go ExprBridge.matchesLikePattern, convertLikeToFunction
   The three matchers are the same text; one model serves all three. *)
From SV Require Export Base.Bytes.

Definition pct : byte := 37%N.   (* '%' *)
Definition us  : byte := 95%N.   (* '_' *)
Definition isp (x : byte) : bool := N.eqb x pct.
Definition lit (x c : byte) : bool := N.eqb x us || N.eqb x c.

(* ---- the property's meaning of LIKE (spec) ---- *)
Fixpoint like (p t : bytes) {struct p} : bool :=
  match p with
  | [] => match t with [] => true | _ => false end
  | x :: p' =>
      if isp x
      then (fix any (t : bytes) : bool :=
              like p' t || match t with [] => false | _ :: t' => any t' end) t
      else match t with [] => false | c :: t' => lit x c && like p' t' end
  end.

(* ---- the two-pointer matcher, star = (pattern after last %, text position when taken) ----
   [wild_first = true]  : the wildcard test precedes the literal test (repaired code)
   [wild_first = false] : the literal test precedes it (code before the fix: F4)        *)
Fixpoint go (wild_first : bool) (f : nat) (t p : bytes) (star : option (bytes * bytes)) : option bool :=
  match f with
  | O => None
  | S f =>
    match t with
    | [] => Some (forallb isp p)
    | c :: t' =>
      let back := match star with
                  | None => Some false
                  | Some (ps, tm) =>
                      match tm with [] => Some false | _ :: tm' => go wild_first f tm' ps (Some (ps, tm')) end
                  end in
      match p with
      | x :: p' =>
          if wild_first then
            if isp x then go wild_first f t p' (Some (p', t))
            else if lit x c then go wild_first f t' p' star else back
          else
            if lit x c then go wild_first f t' p' star
            else if isp x then go wild_first f t p' (Some (p', t)) else back
      | [] => back
      end
    end
  end.

Definition like_fuel (t p : bytes) : nat := (length t + 1) * (length t + length p + 2) + 1.

Definition like_match_opt (t p : bytes) : option bool := go true (like_fuel t p) t p None.
Definition like_match (t p : bytes) : bool :=
  match like_match_opt t p with Some b => b | None => false end.
Definition like_match_asis (t p : bytes) : option bool := go false (like_fuel t p) t p None.

(* ---- convertLikeToFunction ---- *)
Fixpoint ltrim (p : bytes) : bytes :=
  match p with x :: p' => if isp x then ltrim p' else p | [] => [] end.
Definition trim_pct (p : bytes) : bytes := rev (ltrim (rev (ltrim p))).
Definition has (b : byte) (s : bytes) : bool := existsb (N.eqb b) s.
Definition starts_pct (p : bytes) : bool := match p with x :: _ => isp x | [] => false end.
Definition ends_pct (p : bytes) : bool := starts_pct (rev p).

Inductive rewritten :=
| RwEq (s : bytes) | RwAny (* x != nil: any text *) | RwContains (s : bytes) | RwEnds (s : bytes) | RwStarts (s : bytes) | RwLike (p : bytes).

Definition convert_ne (p : bytes) : rewritten :=
  let core := trim_pct p in
  if negb (match core with [] => true | _ => false end) && (has us core || has pct core) then RwLike p
  else if starts_pct p && ends_pct p && Nat.ltb 1 (length p) then
    match core with [] => RwAny | _ => RwContains core end
  else if starts_pct p && Nat.ltb 1 (length p) then RwEnds core
  else if ends_pct p && Nat.ltb 1 (length p) then RwStarts core
  else if bytes_eqb p [pct] then RwAny
  else if has pct p || has us p then RwLike p
  else RwEq p.

Definition convert (p : bytes) : rewritten :=
  match p with [] => RwEq [] | _ => convert_ne p end.

Definition eval_rewritten (r : rewritten) (t : bytes) : bool :=
  match r with
  | RwEq s => bytes_eqb t s
  | RwAny => true
  | RwContains s => contains t s
  | RwEnds s => has_suffix t s
  | RwStarts s => has_prefix t s
  | RwLike p => like_match t p
  end.

(* numeric tag used by the correspondence check *)
Definition rw_tag (r : rewritten) : N * bytes :=
  match r with
  | RwEq s => (0%N, s) | RwAny => (1%N, []) | RwContains s => (2%N, s)
  | RwEnds s => (3%N, s) | RwStarts s => (4%N, s) | RwLike p => (5%N, p)
  end.

(* ---- IS NULL ---- *)
Inductive presence := Absent | Null | Present.
Definition is_null (v : presence) : bool := match v with Present => false | _ => true end.
Definition is_not_null (v : presence) : bool := negb (is_null v).
