(* C11 -- code-level model of the SQL lexer.
   Code anchors (rulego/streamsql): rsql/lexer.go
     NextToken, readChar, peekChar, skipWhitespace, readIdentifier, readNumber,
     readStringToken, readQuotedIdentToken, lookupIdent, isLetter, isDigit.
   The Go lexer state is (input, pos) with readPos = pos+1 and ch = input[pos], or 0 at the end of the
   input.  The model works on the suffix input[pos:], so pos = length input - length suffix.
   Go reads a NUL byte of the input exactly like the end of the input (l.ch == 0); so does the model.
   Error-recovery records (AddError) are not part of the token stream and are not modelled here. *)
From SV Require Export Base.Bytes.
From Coq Require Import String Ascii.
Local Open Scope N_scope.

Definition bs (s : string) : bytes := map N_of_ascii (list_ascii_of_string s).

Record token := mkTok { ttype : N; tval : bytes }.

(* TokenType values (rsql/lexer.go, iota order); cross-checked against the Go constants on every run *)
Definition T_EOF := 0%N.      Definition T_Ident := 1%N.    Definition T_Number := 2%N.
Definition T_String := 3%N.   Definition T_QIdent := 4%N.   Definition T_Comma := 5%N.
Definition T_LParen := 6%N.   Definition T_RParen := 7%N.   Definition T_Plus := 8%N.
Definition T_Minus := 9%N.    Definition T_Asterisk := 10%N. Definition T_Slash := 11%N.
Definition T_EQ := 12%N.      Definition T_NE := 13%N.      Definition T_GT := 14%N.
Definition T_LT := 15%N.      Definition T_GE := 16%N.      Definition T_LE := 17%N.
Definition T_AND := 18%N.     Definition T_OR := 19%N.      Definition T_SELECT := 20%N.
Definition T_FROM := 21%N.    Definition T_WHERE := 22%N.   Definition T_GROUP := 23%N.
Definition T_BY := 24%N.      Definition T_AS := 25%N.      Definition T_Tumbling := 26%N.
Definition T_Sliding := 27%N. Definition T_Counting := 28%N. Definition T_Session := 29%N.
Definition T_Global := 30%N.  Definition T_Window := 31%N.  Definition T_Trigger := 32%N.
Definition T_WITH := 33%N.    Definition T_Timestamp := 34%N. Definition T_TimeUnit := 35%N.
Definition T_MaxOOO := 36%N.  Definition T_AllowedLateness := 37%N. Definition T_IdleTimeout := 38%N.
Definition T_StateTTL := 39%N. Definition T_Order := 40%N.  Definition T_DISTINCT := 41%N.
Definition T_LIMIT := 42%N.   Definition T_HAVING := 43%N.  Definition T_LIKE := 44%N.
Definition T_IS := 45%N.      Definition T_NULL := 46%N.    Definition T_NOT := 47%N.
Definition T_CASE := 48%N.    Definition T_WHEN := 49%N.    Definition T_THEN := 50%N.
Definition T_ELSE := 51%N.    Definition T_END := 52%N.     Definition T_LBracket := 53%N.
Definition T_RBracket := 54%N. Definition T_OVER := 55%N.   Definition T_PARTITION := 56%N.
Definition T_Dot := 57%N.     Definition T_Question := 58%N. Definition T_Pipe := 59%N.
Definition T_LBrace := 60%N.  Definition T_RBrace := 61%N.

Definition eof_tok : token := mkTok T_EOF [].
Definition is_eof (t : token) : bool := N.eqb (ttype t) T_EOF.

(* ---- character classes: isLetter, isDigit, skipWhitespace's set ---- *)
Definition is_ws (c : byte) : bool := N.eqb c 32 || N.eqb c 9 || N.eqb c 10 || N.eqb c 13.
Definition is_lower (c : byte) : bool := N.leb 97 c && N.leb c 122.
Definition is_letter (c : byte) : bool := is_lower c || (N.leb 65 c && N.leb c 90) || N.eqb c 95.
Definition is_digit (c : byte) : bool := N.leb 48 c && N.leb c 57.
Definition is_identch (c : byte) : bool := is_letter c || is_digit c || N.eqb c 46.   (* readIdentifier *)
Definition is_numch (c : byte) : bool := is_digit c || N.eqb c 46.                    (* readNumber *)
Definition upper (c : byte) : byte := if is_lower c then (c - 32) else c.           (* strings.ToUpper on ASCII *)

(* ---- lookupIdent: keyword table (upper case spelling -> TokenType) ---- *)
Definition keywords : list (bytes * N) := Eval vm_compute in
  [ (bs "SELECT", T_SELECT); (bs "FROM", T_FROM); (bs "WHERE", T_WHERE); (bs "GROUP", T_GROUP);
    (bs "BY", T_BY); (bs "AS", T_AS); (bs "OR", T_OR); (bs "AND", T_AND);
    (bs "TUMBLINGWINDOW", T_Tumbling); (bs "SLIDINGWINDOW", T_Sliding);
    (bs "COUNTINGWINDOW", T_Counting); (bs "SESSIONWINDOW", T_Session); (bs "GLOBAL", T_Global);
    (bs "WINDOW", T_Window); (bs "TRIGGER", T_Trigger); (bs "WITH", T_WITH);
    (bs "TIMESTAMP", T_Timestamp); (bs "TIMEUNIT", T_TimeUnit); (bs "MAXOUTOFORDERNESS", T_MaxOOO);
    (bs "ALLOWEDLATENESS", T_AllowedLateness); (bs "IDLETIMEOUT", T_IdleTimeout);
    (bs "STATETTL", T_StateTTL); (bs "ORDER", T_Order); (bs "DISTINCT", T_DISTINCT);
    (bs "LIMIT", T_LIMIT); (bs "HAVING", T_HAVING); (bs "LIKE", T_LIKE); (bs "IS", T_IS);
    (bs "NULL", T_NULL); (bs "NOT", T_NOT); (bs "CASE", T_CASE); (bs "WHEN", T_WHEN);
    (bs "THEN", T_THEN); (bs "ELSE", T_ELSE); (bs "END", T_END); (bs "OVER", T_OVER);
    (bs "PARTITION", T_PARTITION) ].

Fixpoint assoc (k : bytes) (l : list (bytes * N)) : option N :=
  match l with
  | [] => None
  | (k', v) :: l' => if bytes_eqb k k' then Some v else assoc k l'
  end.

Definition kw_type (ident : bytes) : N :=
  match assoc (map upper ident) keywords with Some ty => ty | None => T_Ident end.
Definition lookup_ident (ident : bytes) : token := mkTok (kw_type ident) ident.

(* the token types lookupIdent can return besides TokenIdent *)
Definition is_kw_type (ty : N) : bool := existsb (fun kv => N.eqb (snd kv) ty) keywords.

(* ---- one lexeme ---- *)
Fixpoint span (f : byte -> bool) (s : bytes) : bytes * bytes :=
  match s with
  | c :: r => if f c then let (a, b) := span f r in (c :: a, b) else ([], s)
  | [] => ([], [])
  end.

Fixpoint skip_ws (s : bytes) : bytes :=
  match s with c :: r => if is_ws c then skip_ws r else s | [] => [] end.

(* the switch arms that return a one-character token *)
Definition single (c : byte) : option N :=
  if N.eqb c 44 then Some T_Comma else if N.eqb c 40 then Some T_LParen
  else if N.eqb c 41 then Some T_RParen else if N.eqb c 91 then Some T_LBracket
  else if N.eqb c 93 then Some T_RBracket else if N.eqb c 46 then Some T_Dot
  else if N.eqb c 63 then Some T_Question else if N.eqb c 124 then Some T_Pipe
  else if N.eqb c 123 then Some T_LBrace else if N.eqb c 125 then Some T_RBrace
  else if N.eqb c 43 then Some T_Plus else if N.eqb c 42 then Some T_Asterisk
  else if N.eqb c 47 then Some T_Slash else None.

(* readStringToken / readQuotedIdentToken: q is the opening quote, r what follows it.
   The scan stops at the same quote character or at ch == 0 (end of input or a NUL byte);
   the value keeps the quotes. *)
Definition in_quote (q c : byte) : bool := negb (N.eqb c q) && negb (N.eqb c 0).
Definition lex_quoted (ty : N) (q : byte) (r : bytes) : token * bytes :=
  let (body, r') := span (in_quote q) r in
  match r' with
  | c :: r'' => if N.eqb c q then (mkTok ty (q :: body ++ [q]), r'')
                else (mkTok ty (q :: body), r')
  | [] => (mkTok ty (q :: body), [])
  end.

(* two-character operators: c followed by '=' *)
Definition op_eq (c : byte) (t1 t2 : N) (r : bytes) : token * bytes :=
  match r with
  | d :: r' => if N.eqb d 61 then (mkTok t2 [c; 61], r') else (mkTok t1 [c], r)
  | [] => (mkTok t1 [c], r)
  end.

(* NextToken's switch for a current character c that is neither whitespace nor 0; r = input after c.
   None = the character is skipped ("Unexpected character", or '!' not followed by '=') and
   NextToken calls itself. *)
Definition lex1 (c : byte) (r : bytes) : option (token * bytes) :=
  match single c with
  | Some ty => Some (mkTok ty [c], r)
  | None =>
    if N.eqb c 45 then                                                  (* '-' *)
      match r with
      | d :: _ => if is_digit d
                  then let (num, r') := span is_numch r in Some (mkTok T_Number (c :: num), r')
                  else Some (mkTok T_Minus [c], r)
      | [] => Some (mkTok T_Minus [c], r)
      end
    else if N.eqb c 61 then Some (op_eq c T_EQ T_EQ r)                  (* '=' / '==' *)
    else if N.eqb c 62 then Some (op_eq c T_GT T_GE r)                  (* '>' / '>=' *)
    else if N.eqb c 60 then Some (op_eq c T_LT T_LE r)                  (* '<' / '<=' *)
    else if N.eqb c 33 then                                             (* '!=' or skipped '!' *)
      match r with
      | d :: r' => if N.eqb d 61 then Some (mkTok T_NE [c; 61], r') else None
      | [] => None
      end
    else if N.eqb c 39 || N.eqb c 34 then Some (lex_quoted T_String c r)
    else if N.eqb c 96 then Some (lex_quoted T_QIdent c r)
    else if is_letter c then
      let (id, r') := span is_identch r in Some (lookup_ident (c :: id), r')
    else if is_digit c then
      let (num, r') := span is_numch r in Some (mkTok T_Number (c :: num), r')
    else None
  end.

(* NextToken, mirroring the code: skipWhitespace, switch, and the recursive call after a skipped
   character made explicit with fuel.  Returns the token and the rest of the input (the new pos). *)
Fixpoint next_token (fuel : nat) (s : bytes) : option (token * bytes) :=
  match fuel with
  | O => None
  | S fuel' =>
    match skip_ws s with
    | [] => Some (eof_tok, [])
    | c :: r =>
      if N.eqb c 0 then Some (eof_tok, c :: r)
      else match lex1 c r with
           | Some res => Some res
           | None => next_token fuel' r
           end
    end
  end.

Definition lex_fuel (s : bytes) : nat := S (List.length s).

(* closed form (structural recursion): proved equal to [next_token] for every fuel > length s *)
Fixpoint next_struct (s : bytes) : token * bytes :=
  match s with
  | [] => (eof_tok, [])
  | c :: r =>
    if is_ws c then next_struct r
    else if N.eqb c 0 then (eof_tok, c :: r)
    else match lex1 c r with
         | Some res => res
         | None => next_struct r
         end
  end.

(* the token stream the parser pulls: NextToken until TokenEOF *)
Fixpoint tokens_fuel (fuel : nat) (s : bytes) : option (list token) :=
  match fuel with
  | O => None
  | S fuel' =>
    match next_token (lex_fuel s) s with
    | None => None
    | Some (t, r) =>
      if is_eof t then Some []
      else match tokens_fuel fuel' r with Some l => Some (t :: l) | None => None end
    end
  end.
Definition tokens_opt (s : bytes) : option (list token) := tokens_fuel (lex_fuel s) s.
Definition tokens (s : bytes) : list token :=
  match tokens_opt s with Some l => l | None => [] end.

(* the same stream with Token.Pos (n = length of the whole input) and the Pos of the EOF token *)
Fixpoint lex_all (fuel n : nat) (s : bytes) : option (list (token * nat) * nat) :=
  match fuel with
  | O => None
  | S fuel' =>
    match next_token (lex_fuel s) s with
    | None => None
    | Some (t, r) =>
      if is_eof t then Some ([], (n - List.length r)%nat)
      else match lex_all fuel' n r with
           | Some (l, e) => Some ((t, (n - List.length r - List.length (tval t))%nat) :: l, e)
           | None => None
           end
    end
  end.
Definition lex_pos (s : bytes) : option (list (token * nat) * nat) := lex_all (lex_fuel s) (List.length s) s.

(* words the lexer returns as TokenIdent and the parser recognises by their upper-cased value *)
Definition W_JOIN := Eval vm_compute in bs "JOIN".   Definition W_INNER := Eval vm_compute in bs "INNER".
Definition W_LEFT := Eval vm_compute in bs "LEFT".   Definition W_OUTER := Eval vm_compute in bs "OUTER".
Definition W_ON := Eval vm_compute in bs "ON".       Definition W_ASC := Eval vm_compute in bs "ASC".
Definition W_DESC := Eval vm_compute in bs "DESC".
Definition boundary_words : list bytes := Eval vm_compute in
  map bs ["JOIN"; "INNER"; "LEFT"; "RIGHT"; "FULL"; "CROSS"; "ON"; "MATCH_RECOGNIZE"]%string.

(* the TokenType constants in the order of their declaration (compared with the Go constants each run) *)
Definition token_codes : list N :=
  [T_EOF; T_Ident; T_Number; T_String; T_QIdent; T_Comma; T_LParen; T_RParen; T_Plus; T_Minus; T_Asterisk;
   T_Slash; T_EQ; T_NE; T_GT; T_LT; T_GE; T_LE; T_AND; T_OR; T_SELECT; T_FROM; T_WHERE; T_GROUP; T_BY; T_AS;
   T_Tumbling; T_Sliding; T_Counting; T_Session; T_Global; T_Window; T_Trigger; T_WITH; T_Timestamp;
   T_TimeUnit; T_MaxOOO; T_AllowedLateness; T_IdleTimeout; T_StateTTL; T_Order; T_DISTINCT; T_LIMIT;
   T_HAVING; T_LIKE; T_IS; T_NULL; T_NOT; T_CASE; T_WHEN; T_THEN; T_ELSE; T_END; T_LBracket; T_RBracket;
   T_OVER; T_PARTITION; T_Dot; T_Question; T_Pipe; T_LBrace; T_RBrace].
