(* C05 — the input side of a direct query under the overflow strategy `drop` (the default).
   Code anchors:
     stream/strategy.go      DropStrategy.ProcessData: safeSendToDataChan (non-blocking send); when the
                             channel is full the CALLER of Emit makes up to three further attempts, 100 us
                             apart, and then drops the row (mInputDropped.Inc); Emit returns only then
     stream/processor_data.go Process: ONE consumer goroutine receives rows in channel order, runs the
                             direct query and calls the synchronous sinks inline
   The data channel is a bounded FIFO.  Steps are atomic (Go channel operations are assumed linearizable).
   One producer: between two of its own steps only the consumer moves.
     LEmit row : the producer calls Emit(row): the row is appended when there is room, parked otherwise
                 (the producer is now inside the retry loop of that Emit);
     LRetry    : a parked row is offered again (appended when there is room now, still parked otherwise);
     LGiveUp   : the retry window of the oldest parked row is over: the row is dropped;
     LStep     : the consumer takes the oldest buffered row.
   [inline = true] is the code: the producer itself waits, so while a row is parked no further Emit of
   this producer begins (an LEmit in that state cannot happen in the code; in the model it has no effect,
   which only makes the theorems stronger: such a row is in [lemitted] and is never accepted).  [inline = false] is NOT the code: the retry
   window is spent on helper goroutines, Emit returns at once and the next Emit may overtake the parked
   row; kept for the witness C05_helper_retry_reorders. *)
From SV Require Export Model.Direct.

Inductive lop :=
| LEmit (row : xrow)
| LRetry
| LGiveUp
| LStep.

Record lstate := {
  l_chan : list xrow;      (* buffered rows, oldest first *)
  l_parked : list xrow;    (* rows inside a retry window, oldest first (inline: at most one) *)
  l_acc : list xrow;       (* rows the channel accepted so far, in the order it accepted them *)
  l_done : list xrow;      (* rows the consumer has handled, in that order *)
  l_dropped : nat }.

Definition l_room (cap : nat) (s : lstate) : bool := Nat.ltb (length (l_chan s)) cap.

Definition l_accept (s : lstate) (row : xrow) (parked : list xrow) : lstate :=
  {| l_chan := l_chan s ++ [row]; l_parked := parked; l_acc := l_acc s ++ [row];
     l_done := l_done s; l_dropped := l_dropped s |}.

Definition lstep (inline : bool) (cap : nat) (s : lstate) (o : lop) : lstate :=
  match o with
  | LEmit row =>
      match l_parked s with
      | _ :: _ =>
          if inline then s                                   (* the producer is still inside its previous Emit *)
          else if l_room cap s then l_accept s row (l_parked s)   (* overtakes the rows parked in helpers *)
          else {| l_chan := l_chan s; l_parked := l_parked s ++ [row]; l_acc := l_acc s;
                  l_done := l_done s; l_dropped := l_dropped s |}
      | [] =>
          if l_room cap s then l_accept s row []
          else {| l_chan := l_chan s; l_parked := [row]; l_acc := l_acc s;
                  l_done := l_done s; l_dropped := l_dropped s |}
      end
  | LRetry =>
      match l_parked s with
      | [] => s
      | row :: rest => if l_room cap s then l_accept s row rest else s
      end
  | LGiveUp =>
      match l_parked s with
      | [] => s
      | _ :: rest => {| l_chan := l_chan s; l_parked := rest; l_acc := l_acc s;
                        l_done := l_done s; l_dropped := S (l_dropped s) |}
      end
  | LStep =>
      match l_chan s with
      | [] => s
      | row :: rest => {| l_chan := rest; l_parked := l_parked s; l_acc := l_acc s;
                          l_done := l_done s ++ [row]; l_dropped := l_dropped s |}
      end
  end.

Definition linit : lstate := {| l_chan := []; l_parked := []; l_acc := []; l_done := []; l_dropped := 0 |}.
Definition lrun (inline : bool) (cap : nat) (ops : list lop) : lstate := fold_left (lstep inline cap) ops linit.

(* the rows the producer handed to Emit, in emission order *)
Definition lemitted (ops : list lop) : list xrow :=
  flat_map (fun o => match o with LEmit r => [r] | _ => [] end) ops.

(* what the synchronous sink has seen: the results of the handled rows, filtered rows left out *)
Definition l_sink (q : xquery) (s : lstate) : list xdirect := map (direct q) (l_done s).
Definition l_visible (q : xquery) (row : xrow) : bool :=
  match direct q row with DNone => false | _ => true end.
Definition l_delivered_rows (q : xquery) (s : lstate) : list xrow := filter (l_visible q) (l_done s).
