(* Model of window/watermark.go. Time is Z nanoseconds since the epoch; the zero time.Time
   ("not set") is None. The wall clock is an explicit argument of the steps that read it. *)
From Coq Require Export List ZArith Bool.
Export ListNotations.
Open Scope Z_scope.

Record wm := { maxEv : option Z;      (* maxEventTime *)
               cur : option Z;        (* currentWatermark *)
               sent : option Z;       (* lastSentWatermark *)
               lastEv : option Z;     (* lastEventTime (wall clock of the last UpdateEventTime) *)
               chan : list Z }.       (* watermarkChan, capacity 100, oldest first *)

Definition wm0 : wm := {| maxEv := None; cur := None; sent := None; lastEv := None; chan := [] |}.

(* a.After(b) where b may be the zero time *)
Definition ogt (a : Z) (b : option Z) : bool := match b with None => true | Some b => b <? a end.
Definition chan_cap : nat := 100.
Definition day : Z := 86400000000000.

(* sendWatermarkLocked *)
Definition send (w : wm) : wm :=
  match cur w with
  | None => w
  | Some c => if ogt c (sent w) && Nat.ltb (length (chan w)) chan_cap
              then {| maxEv := maxEv w; cur := cur w; sent := Some c; lastEv := lastEv w; chan := chan w ++ [c] |}
              else w
  end.

Definition raise_cur (v : Z) (c : option Z) : option Z := if ogt v c then Some v else c.

(* UpdateEventTime *)
Definition update_event_time (ooo now ts : Z) (w : wm) : wm :=
  let w0 := {| maxEv := maxEv w; cur := cur w; sent := sent w; lastEv := Some now; chan := chan w |} in
  if now + ooo + day <? ts then w0 else
  let w1 := if ogt ts (maxEv w0)
            then {| maxEv := Some ts; cur := raise_cur (ts - ooo) (cur w0);
                    sent := sent w0; lastEv := lastEv w0; chan := chan w0 |}
            else w0 in
  send w1.

(* update(): the periodic tick; idle = 0 means the idle-source mechanism is off *)
Definition tick (ooo idle now : Z) (w : wm) : wm :=
  match maxEv w with
  | None => w
  | Some m =>
      let nw := match lastEv w with
                | Some l => if (0 <? idle) && (idle <? now - l) then now - ooo else m - ooo
                | None => m - ooo
                end in
      send {| maxEv := maxEv w; cur := raise_cur nw (cur w); sent := sent w; lastEv := lastEv w; chan := chan w |}
  end.

(* IsEventTimeLate *)
Definition is_late (ts : Z) (w : wm) : bool := match cur w with Some c => ts <? c | None => false end.

Definition pop_chan (w : wm) : option (Z * wm) :=
  match chan w with
  | [] => None
  | x :: r => Some (x, {| maxEv := maxEv w; cur := cur w; sent := sent w; lastEv := lastEv w; chan := r |})
  end.

(* alignWindowStart: Go's integer division truncates towards zero *)
Definition align (t s : Z) : Z := if s <=? 0 then t else Z.quot t s * s.
