(* C05 — select items with quoted parts: how an item  <text> [AS alias]  of a direct query becomes a
   column of the result.
   Code anchors:
     rsql/ast.go                  ToStreamConfig: SimpleFields gets  text ":" alias  (no alias: the text; a string
                                  literal without alias: its content, quotes removed);
                                  buildSelectFieldsWithExpressions / ParseAggregateTypeWithExpression: a string
                                  literal ('..' or "..") and a text with an operator character are ALSO expression
                                  fields (FieldExpressions, keyed by the alias, else the content / the text)
     stream/processor_field.go    compileSimpleFieldInfo: splitFieldSpec (first ':' outside '..', ".." and `..`, a
                                  quoted section is closed by the character that opened it), back quotes around the
                                  field / the output name removed, isStringLiteral, isFunctionCall, hasNestedField;
                                  processSimpleField: skipped when the output name is an expression field, else
                                  literal / function / (nested) field, NULL when missing
     stream/stream.go             projectDirectRow: the expression fields first, then the simple fields in order
   The text of a path item may hold quoted map keys (m["it's"], m['a:b']): the separator of the spec is looked
   for outside quotes only, so the key may contain ':' and the other quote characters. *)
From SV Require Export Model.NestedPath.
From Coq Require Import ZArith NArith List.
Local Open Scope N_scope.

(* ---- splitFieldSpec ---- *)
Definition fs_is_quote (c : byte) : bool := (c =? 39) || (c =? 34) || (c =? 96).

(* [st]: None = outside quotes, Some q = inside a section opened by q.  Result: the text before the
   separator and, when one was found, the text after it *)
Fixpoint fs_split_st (st : option byte) (s : bytes) : bytes * option bytes :=
  match s with
  | [] => ([], None)
  | c :: s' =>
      match st with
      | Some q => let (a, b) := fs_split_st (if c =? q then None else Some q) s' in (c :: a, b)
      | None => if fs_is_quote c then let (a, b) := fs_split_st (Some c) s' in (c :: a, b)
                else if c =? 58 then ([], Some s')
                else let (a, b) := fs_split_st None s' in (c :: a, b)
      end
  end.
Definition fs_split (spec : bytes) : bytes * option bytes := fs_split_st None spec.

(* the scanner's state at the end of a text in which it met no separator (None: it met one) *)
Fixpoint fs_end (st : option byte) (s : bytes) : option (option byte) :=
  match s with
  | [] => Some st
  | c :: s' =>
      match st with
      | Some q => fs_end (if c =? q then None else Some q) s'
      | None => if fs_is_quote c then fs_end (Some c) s'
                else if c =? 58 then None
                else fs_end None s'
      end
  end.
(* every quoted section is closed and no ':' stands outside one *)
Definition fs_closed (s : bytes) : bool :=
  match fs_end None s with Some None => true | _ => false end.

(* back quotes around a name are removed: len >= 2, first and last byte '`' *)
Definition fs_strip_bt (s : bytes) : bytes :=
  match s with
  | c :: (_ :: _) as r => if (c =? 96) && (last s 0 =? 96) then removelast r else s
  | _ => s
  end.
Definition fs_literal (f : bytes) : option bytes :=
  match f with
  | c :: (_ :: _) as r =>
      if ((c =? 39) && (last f 0 =? 39)) || ((c =? 34) && (last f 0 =? 34)) then Some (removelast r) else None
  | _ => None
  end.

(* compileSimpleFieldInfo *)
Record fs_info := { fi_field : bytes; fi_out : bytes; fi_lit : option bytes; fi_call : bool }.
Definition fs_compile (spec : bytes) : fs_info :=
  let (f0, a) := fs_split spec in
  let f := fs_strip_bt f0 in
  {| fi_field := f;
     fi_out := match a with Some x => fs_strip_bt x | None => f end;
     fi_lit := fs_literal f;
     fi_call := np_has 40 f && np_has 41 f |}.

(* ---- items ---- *)
Inductive sitem :=
| SPath (text : bytes) (alias : option bytes)             (* a column or nested path, spelled text *)
| SLit (q : byte) (content : bytes) (alias : option bytes).   (* a string literal q content q, q = 39 or 34 (single / double quote) *)

Definition si_alias (i : sitem) : option bytes := match i with SPath _ a | SLit _ _ a => a end.
Definition si_text (i : sitem) : bytes := match i with SPath t _ => t | SLit q c _ => q :: c ++ [q] end.
(* the name the statement gives the column: the alias, else the text; a literal without alias is named
   by its content *)
Definition si_name (i : sitem) : bytes :=
  match si_alias i with
  | Some a => a
  | None => match i with SPath t _ => t | SLit _ c _ => c end
  end.
(* rsql/ast.go: the spec handed to the stream. A literal without alias is handed over as  'content':content
   (its quoted text, then its content as the output name; before the repair of finding F71 the bare content was
   handed over and cut at its first ':'); an empty literal without alias keeps its quotes *)
Definition si_spec (i : sitem) : bytes :=
  match si_alias i with
  | Some a => si_text i ++ 58 :: a
  | None => match i with
            | SPath t _ => t
            | SLit _ [] _ => si_text i
            | SLit _ c _ => si_text i ++ 58 :: c
            end
  end.

(* how rsql classifies the text of a path item; outside the model: an unclosed quote or a ':' outside
   quotes (the lexer's business), a text that starts with a back quote *)
Definition si_route (t : bytes) : nroute :=
  if negb (fs_closed t) || match t with c :: _ => c =? 96 | [] => true end then ROther
  else np_route_c false t.

(* projectDirectRow: the expression fields (a literal's value is its content) ... *)
Fixpoint si_expr_cells (is : list sitem) (acc : ncells) : option ncells :=
  match is with
  | [] => Some acc
  | i :: is' =>
      match i with
      | SLit _ c _ => si_expr_cells is' (nc_set acc (si_name i) (CVal (JS (VStr c))))
      | SPath t _ => match si_route t with
                     | RExpr => si_expr_cells is' (nc_set acc (si_name i) CUnm)
                     | RSimple => si_expr_cells is' acc
                     | ROther => None
                     end
      end
  end.

(* ... then every item's spec through processSimpleField, in SELECT order *)
Inductive spro := SpRow (r : ncells) | SpPanic | SpUnm.
Fixpoint si_simple_cells (row : jrow) (exprs : ncells) (is : list sitem) (acc : ncells) : spro :=
  match is with
  | [] => SpRow acc
  | i :: is' =>
      let info := fs_compile (si_spec i) in
      match nc_lookup exprs (fi_out info) with
      | Some _ => si_simple_cells row exprs is' acc                (* already an expression field *)
      | None =>
          match fi_lit info with
          | Some v => si_simple_cells row exprs is' (nc_set acc (fi_out info) (CVal (JS (VStr v))))
          | None =>
              if fi_call info then SpUnm                           (* a function call: C06 *)
              else match ni_value row (fi_field info) with
                   | NFound v => si_simple_cells row exprs is' (nc_set acc (fi_out info) (CVal v))
                   | NMissing => si_simple_cells row exprs is' (nc_set acc (fi_out info) (CVal jnull))
                   | NPanic => SpPanic
                   end
          end
      end
  end.

Record squery := { sq_items : list sitem; sq_where : option xexpr }.
Inductive sdirect_res := SDNone | SDRow (r : ncells) | SDPanic | SDUnm.

Definition sdirect (q : squery) (row : jrow) : sdirect_res :=
  match nwhere_ok {| nq_items := []; nq_where := sq_where q |} row with
  | None => SDUnm
  | Some false => SDNone
  | Some true =>
      match si_expr_cells (sq_items q) [] with
      | None => SDUnm
      | Some ex => match si_simple_cells row ex (sq_items q) ex with
                   | SpRow r => SDRow r
                   | SpPanic => SDPanic
                   | SpUnm => SDUnm
                   end
      end
  end.

(* the columns the statement demands of a star-free query: the names of its items *)
Definition sq_columns (q : squery) : list bytes := map si_name (sq_items q).
