(* C20 — caller data is never modified; instances do not influence each other.
   Executable model of the row path of one stream instance and of several instances sharing the
   process-wide expression cache.  All names carry the prefix iso_/I (one flat extraction).

   Code anchors (rulego/streamsql):
     streamsql.go              Emit / EmitSync            hand the caller's map on without copying
     stream/stream.go          enrichData, writesIntoRow, copyRow (the repair of F12),
                               applyWhereAndAnalytic, evalAnalytic, projectDirectRow, projectAnalytic,
                               processDirectDataSync
     stream/processor_data.go  processItem (window branch), processDirectData
     stream/processor_field.go injectGroupKeyExprs, processSimpleField
     stream/join.go            enrichJoin (works on a copy)
     functions/expr_bridge.go  EvaluateExpression, CompileExpressionWithStreamSQLFunctions (programCache)

   Go maps are heap objects that are shared by reference: the model keeps a heap of rows
   (address = position) so that "the caller's map", "the working map" and "the row given to a sink"
   are addresses and aliasing is explicit.  Nested maps/slices are immutable values here: the engine
   has no write into a nested value (validated on the implementation by deep snapshots). *)
From SV Require Export Base.Bytes.

(* ---------- values and rows ---------- *)
Inductive ival :=
| INull
| IInt (z : Z)
| IStr (s : bytes)
| IList (l : list ival)
| IMap (m : list (bytes * ival)).

Definition irow := list (bytes * ival).

Fixpoint iso_lookup (k : bytes) (r : irow) : option ival :=
  match r with
  | [] => None
  | (k', v) :: r' => if bytes_eqb k k' then Some v else iso_lookup k r'
  end.

(* m[k] = v *)
Fixpoint iso_set (k : bytes) (v : ival) (r : irow) : irow :=
  match r with
  | [] => [(k, v)]
  | (k', v') :: r' => if bytes_eqb k k' then (k, v) :: r' else (k', v') :: iso_set k v r'
  end.

Definition iso_set_all (kvs : list (bytes * ival)) (r : irow) : irow :=
  fold_left (fun acc kv => iso_set (fst kv) (snd kv) acc) kvs r.

(* ---------- heap of maps ---------- *)
Definition iheap := list irow.
Definition iso_hget (h : iheap) (a : nat) : irow := nth a h [].
Fixpoint iso_hput (h : iheap) (a : nat) (r : irow) : iheap :=
  match h, a with
  | [], _ => []
  | _ :: h', O => r :: h'
  | x :: h', S a' => x :: iso_hput h' a' r
  end.

(* ---------- the expression engine behind functions.ExprBridge.EvaluateExpression ----------
   expr.Compile(text, expr.Env(row)) derives the static types of the fields from the values of the
   row it is given (expr-lang conf.EnvWithCache, reflect.Map case), so a compiled program may be
   specialised to the shape of the FIRST row the text was used on; the cache key is the text only
   (the recorded reflect.Type of the env is map[string]any for every row, so the type test of the
   cache always succeeds and is not modelled).  expr.Run may fail on a row of another shape; then
   (and when compilation fails) the env path expr.Eval(text, env(row)) computes the value from the
   row alone. *)
Inductive ity := TyNull | TyInt | TyStr | TyList | TyMap.
Definition ishape := list (bytes * ity).
Definition iso_ty_of (v : ival) : ity :=
  match v with INull => TyNull | IInt _ => TyInt | IStr _ => TyStr | IList _ => TyList | IMap _ => TyMap end.
Definition iso_shape_of (r : irow) : ishape := map (fun kv => (fst kv, iso_ty_of (snd kv))) r.

Record iengine (prog : Type) : Type := {
  ie_compile : bytes -> ishape -> option prog;
  ie_exec : prog -> irow -> option ival;          (* None = runtime error *)
  ie_fresh : bytes -> irow -> option ival         (* env path; None = evaluation error *)
}.
Arguments ie_compile {prog}. Arguments ie_exec {prog}. Arguments ie_fresh {prog}.

Definition icache (prog : Type) := list (bytes * prog).
Fixpoint iso_cfind {P} (t : bytes) (c : icache P) : option P :=
  match c with
  | [] => None
  | (t', p) :: c' => if bytes_eqb t t' then Some p else iso_cfind t c'
  end.

(* EvaluateExpression: programCache.Load / Compile+Store / Run / fall back to the env path *)
Definition iso_eval_cached {P} (E : iengine P) (c : icache P) (t : bytes) (r : irow) : option ival * icache P :=
  let '(po, c') :=
    match iso_cfind t c with
    | Some p => (Some p, c)
    | None => match ie_compile E t (iso_shape_of r) with
              | Some p => (Some p, (t, p) :: c)
              | None => (None, c)
              end
    end in
  match po with
  | Some p => match ie_exec E p r with
              | Some v => (Some v, c')
              | None => (ie_fresh E t r, c')
              end
  | None => (ie_fresh E t r, c')
  end.

(* NOT the code: EvaluateExpression with the outcome of a compiled program taken as final - a program
   that was found in the cache or compiled now and FAILS at run time is not retried on the env path
   ("a program that did compile is authoritative").  Refuted in Proofs/IsolationProofs.v
   (iso_final_interference): the retry is what makes the text-keyed cache transparent. *)
Definition iso_eval_final {P} (E : iengine P) (c : icache P) (t : bytes) (r : irow) : option ival * icache P :=
  let '(po, c') :=
    match iso_cfind t c with
    | Some p => (Some p, c)
    | None => match ie_compile E t (iso_shape_of r) with
              | Some p => (Some p, (t, p) :: c)
              | None => (None, c)
              end
    end in
  match po with
  | Some p => (ie_exec E p r, c')
  | None => (ie_fresh E t r, c')
  end.

(* ---------- queries ---------- *)
Inductive icond :=
| ICnone
| ICfield (f : bytes) (c : Z)        (* WHERE f > c *)
| IClag (f : bytes) (c : Z).         (* WHERE lag(f) > c   -> placeholder __analytic_0__ > c *)

Inductive iitem :=
| ItField (f out : bytes)            (* f AS out *)
| ItPath (a b out : bytes)           (* a.b AS out  (joined column) *)
| ItLag (f alias : bytes)            (* lag(f) AS alias *)
| ItExpr (text out : bytes).         (* fn(f) AS out, evaluated by the bridge *)

Record ijoin := { ij_alias : bytes; ij_key : bytes; ij_left : bool; ij_table : list (Z * irow) }.

Record iquery := {
  iq_join : option ijoin;
  iq_where : icond;
  iq_star : bool;                    (* SELECT * *)
  iq_items : list iitem;
  iq_window : bool;                  (* NeedWindow: rows go to Window.Add *)
  iq_gkeys : list bytes              (* GROUP BY field texts *)
}.

(* "__analytic_0__" *)
Definition iso_placeholder : bytes :=
  [95; 95; 97; 110; 97; 108; 121; 116; 105; 99; 95; 48; 95; 95]%N.

(* analytic calls in the order of the engine: SELECT fields, then WHERE placeholders;
   (key to inject, source field) *)
Fixpoint iso_sel_calls (its : list iitem) : list (bytes * bytes) :=
  match its with
  | [] => []
  | ItLag f al :: r => (al, f) :: iso_sel_calls r
  | _ :: r => iso_sel_calls r
  end.
Definition iso_where_calls (w : icond) : list (bytes * bytes) :=
  match w with IClag f _ => [(iso_placeholder, f)] | _ => [] end.
Definition iso_calls (q : iquery) : list (bytes * bytes) :=
  iso_sel_calls (iq_items q) ++ iso_where_calls (iq_where q).

Definition iso_has_paren (t : bytes) : bool := existsb (N.eqb 40%N) t.

(* stream.go writesIntoRow *)
Definition iso_writes_into_row (q : iquery) : bool :=
  if iq_window q then existsb iso_has_paren (iq_gkeys q)
  else match iso_calls q with [] => false | _ => true end.

(* ---------- enrichData / enrichJoin ----------
   result: None = INNER JOIN without match (row dropped);
           Some (inplace, w): the working map; inplace = it IS the caller's map.
   [fixd = false] is the code before the repair (no copy without JOIN). *)
Fixpoint iso_table_find (k : Z) (t : list (Z * irow)) : option irow :=
  match t with
  | [] => None
  | (k', r) :: t' => if Z.eqb k k' then Some r else iso_table_find k t'
  end.

Definition iso_enrich (fixd : bool) (q : iquery) (caller : irow) : option (bool * irow) :=
  match iq_join q with
  | None => if fixd && iso_writes_into_row q then Some (false, caller) else Some (true, caller)
  | Some j =>
      let hit := match iso_lookup (ij_key j) caller with
                 | Some (IInt k) => iso_table_find k (ij_table j)
                 | _ => None
                 end in
      match hit with
      | Some tr => Some (false, iso_set (ij_alias j) (IMap tr) caller)
      | None => if ij_left j then Some (false, iso_set (ij_alias j) (IMap []) caller) else None
      end
  end.

(* ---------- analytic functions (lag, one global partition) ----------
   state: the last recorded argument value of every call.  Observed behaviour of the engine (the
   subject of C14, followed here): a NULL argument is not recorded (the state is kept); an argument
   column that is missing in the row evaluates to NULL as well (since the repair recorded as F27). *)
Definition istate := list ival.
Definition iso_arg (w : irow) (f : bytes) (old : ival) : ival :=
  match iso_lookup f w with
  | Some INull => old
  | None => old
  | Some v => v
  end.
Definition iso_st0 (q : iquery) : istate := map (fun _ => INull) (iso_calls q).
Fixpoint iso_next (w : irow) (calls : list (bytes * bytes)) (st : istate) : istate :=
  match calls, st with
  | c :: cs, s :: ss => iso_arg w (snd c) s :: iso_next w cs ss
  | _, _ => []
  end.
Definition iso_analytic (st : istate) (calls : list (bytes * bytes)) (w : irow) : list (bytes * ival) * istate :=
  (combine (map fst calls) st, iso_next w calls st).

(* condition.Evaluate on the working map *)
Definition iso_gt (v : option ival) (c : Z) : bool :=
  match v with Some (IInt z) => Z.ltb c z | _ => false end.
Definition iso_cond (w : icond) (r : irow) : bool :=
  match w with
  | ICnone => true
  | ICfield f c => iso_gt (iso_lookup f r) c
  | IClag _ c => iso_gt (iso_lookup iso_placeholder r) c
  end.
Definition iso_where_uses_analytic (w : icond) : bool :=
  match w with IClag _ _ => true | _ => false end.

(* ---------- projectDirectRow ---------- *)
Definition iso_opt (v : option ival) : ival := match v with Some x => x | None => INull end.

Fixpoint iso_project {P} (E : iengine P) (its : list iitem) (w : irow) (ares : list (bytes * ival))
         (c : icache P) (res : irow) : irow * icache P :=
  match its with
  | [] => (res, c)
  | ItField f out :: r => iso_project E r w ares c (iso_set out (iso_opt (iso_lookup f w)) res)
  | ItPath a b out :: r =>
      let v := match iso_lookup a w with
               | Some (IMap m) => iso_opt (iso_lookup b m)
               | _ => INull
               end in
      iso_project E r w ares c (iso_set out v res)
  | ItLag _ al :: r => iso_project E r w ares c (iso_set al (iso_opt (iso_lookup al ares)) res)
  | ItExpr t out :: r =>
      let '(v, c') := iso_eval_cached E c t w in
      iso_project E r w ares c' (iso_set out (iso_opt v) res)
  end.

(* ---------- one row on the direct path (processDirectDataSync / processDirectData) ----------
   returns: new analytic state, new cache, the result row (None = filtered/dropped),
            (inplace, final content of the working map) *)
Definition iso_direct {P} (E : iengine P) (fixd : bool) (q : iquery) (st : istate) (c : icache P) (caller : irow)
  : istate * icache P * option irow * (bool * irow) :=
  match iso_enrich fixd q caller with
  | None => (st, c, None, (true, caller))
  | Some (inplace, w0) =>
      let calls := iso_calls q in
      let finish (st' : istate) (ares : list (bytes * ival)) (w1 : irow) :=
        let '(res, c') := iso_project E (iq_items q) w1 ares c (if iq_star q then w1 else []) in
        (st', c', Some res, (inplace, w1)) in
      if iso_where_uses_analytic (iq_where q) then
        let '(ares, st') := iso_analytic st calls w0 in
        let w1 := iso_set_all ares w0 in
        if iso_cond (iq_where q) w1 then finish st' ares w1
        else (st', c, None, (inplace, w1))
      else if iso_cond (iq_where q) w0 then
        match calls with
        | [] => finish st [] w0            (* evalAnalytic returns nil: no field, no injection *)
        | _ => let '(ares, st') := iso_analytic st calls w0 in
               finish st' ares (iso_set_all ares w0)
        end
      else (st, c, None, (inplace, w0))
  end.

(* ---------- one row on the window path (processItem, NeedWindow) up to Window.Add ----------
   the "result" is the row handed to the window *)
Fixpoint iso_inject_gkeys {P} (E : iengine P) (gks : list bytes) (w : irow) (c : icache P) : irow * icache P :=
  match gks with
  | [] => (w, c)
  | g :: r =>
      if iso_has_paren g then
        let '(v, c') := iso_eval_cached E c g w in
        match v with
        | Some x => iso_inject_gkeys E r (iso_set g x w) c'
        | None => iso_inject_gkeys E r w c'
        end
      else iso_inject_gkeys E r w c
  end.

Definition iso_window {P} (E : iengine P) (fixd : bool) (q : iquery) (st : istate) (c : icache P) (caller : irow)
  : istate * icache P * option irow * (bool * irow) :=
  match iso_enrich fixd q caller with
  | None => (st, c, None, (true, caller))
  | Some (inplace, w0) =>
      if iso_cond (iq_where q) w0 then
        let '(w1, c') := iso_inject_gkeys E (iq_gkeys q) w0 c in
        (st, c', Some w1, (inplace, w1))
      else (st, c, None, (inplace, w0))
  end.

Definition iso_row {P} (E : iengine P) (fixd : bool) (q : iquery) (st : istate) (c : icache P) (caller : irow) :=
  if iq_window q then iso_window E fixd q st c caller else iso_direct E fixd q st c caller.

(* ---------- the same step on the heap: the caller's map is the object at address a ----------
   returns the address of the row given to the sink (direct path: a new map) *)
Definition iso_process {P} (E : iengine P) (fixd : bool) (q : iquery) (st : istate) (c : icache P) (h : iheap) (a : nat)
  : istate * icache P * iheap * option nat :=
  let '(st', c', res, (inplace, w)) := iso_row E fixd q st c (iso_hget h a) in
  let h1 := if inplace then iso_hput h a w else h ++ [w] in
  match res with
  | None => (st', c', h1, None)
  | Some r =>
      if iq_window q then (st', c', h1, Some (if inplace then a else length h))
      else (st', c', h1 ++ [r], Some (length h1))
  end.

(* ---------- several instances in one process ----------
   instance i runs query qs i; an event (i, row) is one Emit/EmitSync on instance i with a map the
   caller has just built.  The cache and the heap are shared by all instances. *)
Record isys (P : Type) := { is_st : nat -> istate; is_cache : icache P; is_heap : iheap }.
Arguments is_st {P}. Arguments is_cache {P}. Arguments is_heap {P}.

Definition iso_sys0 {P} (qs : nat -> iquery) : isys P :=
  {| is_st := fun i => iso_st0 (qs i); is_cache := []; is_heap := [] |}.

(* one event: the observable is (instance, address of the caller's map, address of the delivered row) *)
Definition iso_sys_step {P} (E : iengine P) (fixd : bool) (qs : nat -> iquery) (s : isys P) (ev : nat * irow)
  : isys P * (nat * nat * option nat) :=
  let i := fst ev in
  let a := length (is_heap s) in
  let '(st', c', h', out) := iso_process E fixd (qs i) (is_st s i) (is_cache s) (is_heap s ++ [snd ev]) a in
  ({| is_st := fun j => if Nat.eqb j i then st' else is_st s j; is_cache := c'; is_heap := h' |}, (i, a, out)).

Fixpoint iso_sys_run {P} (E : iengine P) (fixd : bool) (qs : nat -> iquery) (s : isys P) (evs : list (nat * irow))
  : isys P * list (nat * nat * option nat) :=
  match evs with
  | [] => (s, [])
  | ev :: r =>
      let '(s1, o) := iso_sys_step E fixd qs s ev in
      let '(s2, os) := iso_sys_run E fixd qs s1 r in
      (s2, o :: os)
  end.

(* what instance i delivered, as row contents at delivery time: the sequence of results of i *)
Fixpoint iso_sys_outputs {P} (E : iengine P) (fixd : bool) (qs : nat -> iquery) (s : isys P) (evs : list (nat * irow))
  : list (nat * option irow) :=
  match evs with
  | [] => []
  | ev :: r =>
      let '(s1, (i, _, out)) := iso_sys_step E fixd qs s ev in
      (i, match out with Some d => Some (iso_hget (is_heap s1) d) | None => None end)
        :: iso_sys_outputs E fixd qs s1 r
  end.

Definition iso_proj_out (i : nat) (os : list (nat * option irow)) : list (option irow) :=
  map snd (filter (fun o => Nat.eqb (fst o) i) os).
Definition iso_proj_in (i : nat) (evs : list (nat * irow)) : list irow :=
  map snd (filter (fun e => Nat.eqb (fst e) i) evs).

(* one instance alone in the process: its own cache (initially c), no other instance *)
Fixpoint iso_solo {P} (E : iengine P) (q : iquery) (st : istate) (c : icache P) (rows : list irow) : list (option irow) :=
  match rows with
  | [] => []
  | r :: rs =>
      let '(st', c', res, _) := iso_row E true q st c r in
      res :: iso_solo E q st' c' rs
  end.

(* ---------- the concrete engine used for the correspondence runs ----------
   texts "upper(f)" / "lower(f)".  A program records the static type the field had in the row it
   was compiled on; a program specialised to a string field fails on any other value (type
   assertion), every other program is generic. *)
Inductive ifn := FnUpper | FnLower.
Definition iso_upper_b (x : byte) : byte := if (N.leb 97 x && N.leb x 122)%N then (x - 32)%N else x.
Definition iso_lower_b (x : byte) : byte := if (N.leb 65 x && N.leb x 90)%N then (x + 32)%N else x.
Definition iso_apply (fn : ifn) (v : option ival) : option ival :=
  match v with
  | Some (IStr s) => Some (IStr (map (match fn with FnUpper => iso_upper_b | FnLower => iso_lower_b end) s))
  | Some INull => Some (IStr [])
  | None => Some (IStr [])
  | _ => None                                   (* other argument types are not generated *)
  end.

Definition iso_pre_upper : bytes := [117; 112; 112; 101; 114; 40]%N.   (* "upper(" *)
Definition iso_pre_lower : bytes := [108; 111; 119; 101; 114; 40]%N.   (* "lower(" *)
Fixpoint iso_drop_prefix (p t : bytes) : option bytes :=
  match p with
  | [] => Some t
  | x :: p' => match t with
               | c :: t' => if N.eqb x c then iso_drop_prefix p' t' else None
               | [] => None
               end
  end.
Definition iso_drop_last_paren (t : bytes) : option bytes :=
  match rev t with
  | c :: r => if N.eqb c 41%N then Some (rev r) else None
  | [] => None
  end.
Definition iso_parse (t : bytes) : option (ifn * bytes) :=
  match iso_drop_prefix iso_pre_upper t with
  | Some r => match iso_drop_last_paren r with Some f => Some (FnUpper, f) | None => None end
  | None => match iso_drop_prefix iso_pre_lower t with
            | Some r => match iso_drop_last_paren r with Some f => Some (FnLower, f) | None => None end
            | None => None
            end
  end.

Definition iprog0 := (ifn * bytes * ity)%type.
Fixpoint iso_shape_find (f : bytes) (sh : ishape) : ity :=
  match sh with
  | [] => TyNull
  | (k, t) :: r => if bytes_eqb f k then t else iso_shape_find f r
  end.
Definition iso_eng0 : iengine iprog0 := {|
  ie_compile := fun t sh => match iso_parse t with
                            | Some (fn, f) => Some (fn, f, iso_shape_find f sh)
                            | None => None
                            end;
  ie_exec := fun p r => let '(fn, f, ty) := p in
                        match ty with
                        | TyStr => match iso_lookup f r with
                                   | Some (IStr s) => iso_apply fn (Some (IStr s))
                                   | _ => None
                                   end
                        | _ => iso_apply fn (iso_lookup f r)
                        end;
  ie_fresh := fun t r => match iso_parse t with
                         | Some (fn, f) => iso_apply fn (iso_lookup f r)
                         | None => None
                         end |}.

(* entry points for the extracted driver: a whole EmitSync sequence of one instance *)
Fixpoint iso_run0 (fixd : bool) (q : iquery) (st : istate) (c : icache iprog0) (rows : list irow)
  : list (option irow * irow) :=
  match rows with
  | [] => []
  | r :: rs =>
      let '(st', c', res, (inplace, w)) := iso_row iso_eng0 fixd q st c r in
      (res, if inplace then w else r) :: iso_run0 fixd q st' c' rs
  end.
