(* C06 — built-in scalar functions, part 2: the documented value of the deterministic built-ins whose
   meaning is exact over integers, rationals and byte strings, and of the array functions over arrays
   of scalars.  Executable definitions only; proofs in Proofs/ExprFuncsProofs.v.
   Code anchors (each [Execute], followed branch by branch):
     functions/functions_math.go         trunc (functions_conversion.go), power / pow, bitand bitor bitxor bitnot,
                                         round with a precision
     functions/functions_string.go       trim ltrim rtrim substring replace startswith endswith indexof split,
                                         upper lower length concat lpad rpad on rendered numbers
     functions/functions_conversion.go   cast dec2hex hex2dec chr
     functions/functions_conditional.go  null_if (coalesce, if_null on arrays)
     functions/functions_type.go         is_null is_not_null is_numeric is_string is_bool is_array is_object
     functions/functions_array.go        array_length array_contains array_position array_remove array_distinct
                                         array_union array_intersect array_except
     functions/base.go                   ValidateArgCount (the argument-count table [fx_arity])
     utils/cast/cast.go                  ToStringE ([to_string_x]), ToInt64E / ToIntE ([to_int64]), ToBoolE ([to_bool_e])
   Conventions.  A value is a scalar of Model/ExprEval.v ([YS]) or an array of scalars ([YA]); nested
   arrays and objects are outside the model.  Numbers are exact rationals: an int and a float64 with the
   same value are the same number (the documented meaning; reflect.DeepEqual and Go map keys are
   type-sensitive, which the correspondence check reports as a finding where it shows).  Strings are
   byte strings; the functions that work on runes (upper lower trim substring, replace / split with an
   empty needle) are modelled on ASCII strings.  [YUnm] = this argument shape has no Gallina meaning. *)
From Coq Require Import Qabs.
From SV Require Export Model.Sem.

Inductive yvalue := YS (v : xvalue) | YA (l : list xvalue).
Inductive yres := YOk (v : yvalue) | YErr | YUnm.
Definition yrow := list (bytes * yvalue).
Fixpoint ylookup (r : yrow) (k : bytes) : option yvalue :=
  match r with
  | [] => None
  | (k', v) :: r' => if bytes_eqb k k' then Some v else ylookup r' k
  end.

(* ---- equality of values as the documentation means it ---- *)
Definition veq (a b : xvalue) : bool :=
  match a, b with
  | VNull, VNull => true
  | VNum x, VNum y => qeqb x y
  | VStr x, VStr y => bytes_eqb x y
  | VBool x, VBool y => Bool.eqb x y
  | _, _ => false
  end.
Fixpoint veq_list (a b : list xvalue) : bool :=
  match a, b with
  | [], [] => true
  | x :: a', y :: b' => veq x y && veq_list a' b'
  | _, _ => false
  end.
Definition yeq (a b : yvalue) : bool :=
  match a, b with
  | YS x, YS y => veq x y
  | YA x, YA y => veq_list x y
  | _, _ => false
  end.

(* ---- numbers as text: strconv.Itoa / strconv.FormatFloat(v, 'f', -1, 64) ----
   A float64 that equals a decimal with at most 15 significant digits is printed as that decimal
   (shortest text that reads back); other numbers are outside the model. *)
Definition digit_char (d : N) : byte := if N.ltb d 10 then (48 + d)%N else (87 + d)%N.
Fixpoint digits_rev (base : N) (fuel : nat) (n : N) : bytes :=
  match fuel with
  | O => []
  | S f => if N.ltb n base then [digit_char n]
           else digit_char (N.modulo n base) :: digits_rev base f (N.div n base)
  end.
Definition digits_of_N (base : N) (n : N) : bytes := rev (digits_rev base (S (N.to_nat (N.log2 n))) n).
Definition dec_of_N (n : N) : bytes := digits_of_N 10 n.
Definition dec_of_Z (z : Z) : bytes :=
  match z with
  | Zneg p => 45%N :: dec_of_N (Npos p)
  | _ => dec_of_N (Z.to_N z)
  end.
Definition p10 (k : nat) : Z := Z.pow 10 (Z.of_nat k).
Fixpoint find_scale (fuel k : nat) (den : positive) : option nat :=
  if Z.eqb (Z.modulo (p10 k) (Zpos den)) 0 then Some k
  else match fuel with O => None | S f => find_scale f (S k) den end.
Definition zero_pad (k : nat) (s : bytes) : bytes := repeat 48%N (k - length s) ++ s.
Definition num_to_string (q : Q) : option bytes :=
  let r := Qred q in
  match find_scale 15 0 (Qden r) with
  | None => None
  | Some k =>
      let m := Z.div (Z.abs (Qnum r) * p10 k) (Zpos (Qden r)) in
      if Z.leb (p10 15) m then None else
      let ip := Z.to_N (Z.div m (p10 k)) in
      let fp := Z.to_N (Z.modulo m (p10 k)) in
      Some ((if Z.ltb (Qnum r) 0 then [45%N] else []) ++ dec_of_N ip ++
            match k with O => [] | S _ => 46%N :: zero_pad k (dec_of_N fp) end)
  end.

(* cast.ToStringE on scalars *)
Definition to_string_x (v : xvalue) : option bytes :=
  match v with
  | VNum q => num_to_string q
  | _ => to_string v
  end.

(* cast.ToInt64E / ToIntE: a number is truncated toward zero, a string goes through strconv.Atoi
   ([+-]digits), anything else is an error.  Outside int64: not modelled. *)
Definition two63 : Z := Z.pow 2 63.
Definition in_int64 (z : Z) : xout Z := if Z.ltb (Z.abs z) two63 then OVal z else OUnm.
Definition atoi (s : bytes) : option Z :=
  let digits (neg : bool) (s1 : bytes) : option Z :=
    match dec_digits s1 0%Z O with
    | Some (v, n, []) => if Nat.eqb n O then None else Some (if neg then Z.opp v else v)
    | _ => None
    end in
  match s with
  | c :: r => if N.eqb c 45 then digits true r else if N.eqb c 43 then digits false r else digits false s
  | [] => None
  end.
Definition to_int64 (v : xvalue) : xout Z :=
  match v with
  | VNum q => in_int64 (qtrunc q)
  | VStr s => match atoi s with Some z => in_int64 z | None => OErr end
  | VBool _ | VNull => OErr
  end.

(* cast.ToBoolE *)
Definition to_bool_e (v : xvalue) : option bool :=
  match v with
  | VBool b => Some b
  | VNum q => Some (negb (qzero q))
  | VStr s => parse_bool s
  | VNull => None
  end.

(* ---- strings ---- *)
(* unicode.IsSpace on ASCII (strings.TrimSpace); the blank set of ltrim / rtrim *)
Definition is_space_go (c : byte) : bool := N.eqb c 32 || (N.leb 9 c && N.leb c 13).
Definition is_blank_lr (c : byte) : bool := N.eqb c 32 || N.eqb c 9 || N.eqb c 10 || N.eqb c 13.
Fixpoint drop_while (p : byte -> bool) (s : bytes) : bytes :=
  match s with
  | c :: r => if p c then drop_while p r else s
  | [] => []
  end.
Definition trim_left (p : byte -> bool) (s : bytes) : bytes := drop_while p s.
Definition trim_right (p : byte -> bool) (s : bytes) : bytes := rev (drop_while p (rev s)).
Definition trim_both (p : byte -> bool) (s : bytes) : bytes := trim_right p (trim_left p s).

(* substringByRune on an ASCII string: 0-based start, a negative start counts from the end *)
Definition substring_b (s : bytes) (start : Z) (len : option Z) : bytes :=
  let n := Z.of_nat (length s) in
  let st := if Z.ltb start 0 then (n + start)%Z else start in
  let st := if Z.ltb st 0 then 0%Z else st in
  if Z.leb n st then []
  else match len with
       | None => skipn (Z.to_nat st) s
       | Some l => if Z.ltb l 0 then [] else firstn (Z.to_nat l) (skipn (Z.to_nat st) s)
       end.

(* strings.ReplaceAll with a non-empty needle: leftmost, non-overlapping.  [skip] = bytes of the
   occurrence just replaced that are still to be passed over. *)
Fixpoint replace_go (old new : bytes) (skip : nat) (s : bytes) : bytes :=
  match s with
  | [] => []
  | c :: r =>
      match skip with
      | S k => replace_go old new k r
      | O => if has_prefix s old then new ++ replace_go old new (length old - 1) r
             else c :: replace_go old new O r
      end
  end.
(* ... with the empty needle (ASCII text): the replacement before every character and at the end *)
Definition replace_empty (new s : bytes) : bytes := new ++ flat_map (fun c => c :: new) s.
Definition replace_b (s old new : bytes) : bytes :=
  match old with [] => replace_empty new s | _ :: _ => replace_go old new O s end.

(* strings.Index *)
Fixpoint index_from (s p : bytes) (i : nat) : option nat :=
  if has_prefix s p then Some i
  else match s with [] => None | _ :: r => index_from r p (S i) end.
Definition index_b (s p : bytes) : Z :=
  match index_from s p O with Some i => Z.of_nat i | None => (-1)%Z end.

(* strings.Split with a non-empty separator; [cur] = the current piece, reversed *)
Fixpoint split_go (sep : bytes) (skip : nat) (cur : bytes) (s : bytes) : list bytes :=
  match s with
  | [] => [rev cur]
  | c :: r =>
      match skip with
      | S k => split_go sep k cur r
      | O => if has_prefix s sep then rev cur :: split_go sep (length sep - 1) [] r
             else split_go sep O (c :: cur) r
      end
  end.
Definition split_b (s sep : bytes) : list bytes :=
  match sep with [] => map (fun c => [c]) s | _ :: _ => split_go sep O [] s end.
Fixpoint join_b (sep : bytes) (l : list bytes) : bytes :=
  match l with
  | [] => []
  | [x] => x
  | x :: r => x ++ sep ++ join_b sep r
  end.

(* ---- hexadecimal: fmt.Sprintf("%x", int64) and strconv.ParseInt(s, 16, 64) ---- *)
Definition hex_of_Z (z : Z) : bytes :=
  match z with
  | Zneg p => 45%N :: digits_of_N 16 (Npos p)
  | _ => digits_of_N 16 (Z.to_N z)
  end.
Definition hex_digit (c : byte) : option Z :=
  if N.leb 48 c && N.leb c 57 then Some (Z.of_N (c - 48))
  else if N.leb 97 c && N.leb c 102 then Some (Z.of_N (c - 87))
  else if N.leb 65 c && N.leb c 70 then Some (Z.of_N (c - 55))
  else None.
Fixpoint hex_digits (s : bytes) (acc : Z) : option Z :=
  match s with
  | [] => Some acc
  | c :: r => match hex_digit c with Some d => hex_digits r (acc * 16 + d)%Z | None => None end
  end.
Definition parse_hex (s : bytes) : xout Z :=
  let digits (neg : bool) (s1 : bytes) : xout Z :=
    match s1 with
    | [] => OErr
    | _ :: _ => match hex_digits s1 0%Z with
                | None => OErr
                | Some v => if Nat.leb (length s1) 15 then OVal (if neg then Z.opp v else v) else OUnm
                end
    end in
  match s with
  | c :: r => if N.eqb c 45 then digits true r else if N.eqb c 43 then digits false r else digits false s
  | [] => OErr
  end.

(* ---- net/url QueryEscape / QueryUnescape, encoding/hex ---- *)
Definition is_alnum (c : byte) : bool :=
  (N.leb 48 c && N.leb c 57) || (N.leb 65 c && N.leb c 90) || (N.leb 97 c && N.leb c 122).
Definition url_unreserved (c : byte) : bool :=
  is_alnum c || N.eqb c 45 || N.eqb c 95 || N.eqb c 46 || N.eqb c 126.
Definition hex_upper (d : N) : byte := if N.ltb d 10 then (48 + d)%N else (55 + d)%N.
Fixpoint url_escape (s : bytes) : bytes :=
  match s with
  | [] => []
  | c :: r => if url_unreserved c then c :: url_escape r
              else if N.eqb c 32 then 43%N :: url_escape r
              else 37%N :: hex_upper (N.div c 16) :: hex_upper (N.modulo c 16) :: url_escape r
  end.
Fixpoint url_unescape (s : bytes) : option bytes :=
  match s with
  | [] => Some []
  | c :: r =>
      if N.eqb c 37 then
        match r with
        | h1 :: h2 :: r' =>
            match hex_digit h1, hex_digit h2 with
            | Some a, Some b => option_map (cons (Z.to_N (a * 16 + b))) (url_unescape r')
            | _, _ => None
            end
        | _ => None
        end
      else option_map (cons (if N.eqb c 43 then 32%N else c)) (url_unescape r)
  end.
Fixpoint hex_encode (s : bytes) : bytes :=
  match s with
  | [] => []
  | c :: r => digit_char (N.div c 16) :: digit_char (N.modulo c 16) :: hex_encode r
  end.
Fixpoint hex_decode (s : bytes) : option bytes :=
  match s with
  | [] => Some []
  | h1 :: h2 :: r => match hex_digit h1, hex_digit h2 with
                     | Some a, Some b => option_map (cons (Z.to_N (a * 16 + b))) (hex_decode r)
                     | _, _ => None
                     end
  | [_] => None
  end.

(* ---- arrays of scalars ---- *)
Definition mem_v (x : xvalue) (l : list xvalue) : bool := existsb (veq x) l.
(* hashSafeSet.add in a loop: keep an element unless an equal one was kept (or seen) before *)
Fixpoint distinct_v (seen l : list xvalue) : list xvalue :=
  match l with
  | [] => []
  | x :: r => if mem_v x seen then distinct_v seen r else x :: distinct_v (x :: seen) r
  end.
Definition arr_distinct (l : list xvalue) : list xvalue := distinct_v [] l.
Definition arr_remove (l : list xvalue) (v : xvalue) : list xvalue := filter (fun x => negb (veq x v)) l.
Fixpoint arr_position_from (l : list xvalue) (v : xvalue) (i : nat) : nat :=
  match l with
  | [] => O
  | x :: r => if veq x v then S i else arr_position_from r v (S i)
  end.
Definition arr_position (l : list xvalue) (v : xvalue) : nat := arr_position_from l v O.
Definition arr_union (a b : list xvalue) : list xvalue := distinct_v [] (a ++ b).
Definition arr_intersect (a b : list xvalue) : list xvalue := distinct_v [] (filter (fun x => mem_v x b) a).
Definition arr_except (a b : list xvalue) : list xvalue := distinct_v [] (filter (fun x => negb (mem_v x b)) a).

(* ---- function names ---- *)
Definition nm_trunc : bytes := [116;114;117;110;99]%N.
Definition nm_power : bytes := [112;111;119;101;114]%N.
Definition nm_pow : bytes := [112;111;119]%N.
Definition nm_bitand : bytes := [98;105;116;97;110;100]%N.
Definition nm_bitor : bytes := [98;105;116;111;114]%N.
Definition nm_bitxor : bytes := [98;105;116;120;111;114]%N.
Definition nm_bitnot : bytes := [98;105;116;110;111;116]%N.
Definition nm_null_if : bytes := [110;117;108;108;95;105;102]%N.
Definition nm_trim : bytes := [116;114;105;109]%N.
Definition nm_ltrim : bytes := [108;116;114;105;109]%N.
Definition nm_rtrim : bytes := [114;116;114;105;109]%N.
Definition nm_substring : bytes := [115;117;98;115;116;114;105;110;103]%N.
Definition nm_replace : bytes := [114;101;112;108;97;99;101]%N.
Definition nm_startswith : bytes := [115;116;97;114;116;115;119;105;116;104]%N.
Definition nm_endswith : bytes := [101;110;100;115;119;105;116;104]%N.
Definition nm_indexof : bytes := [105;110;100;101;120;111;102]%N.
Definition nm_split : bytes := [115;112;108;105;116]%N.
Definition nm_cast : bytes := [99;97;115;116]%N.
Definition nm_dec2hex : bytes := [100;101;99;50;104;101;120]%N.
Definition nm_hex2dec : bytes := [104;101;120;50;100;101;99]%N.
Definition nm_chr : bytes := [99;104;114]%N.
Definition nm_is_null : bytes := [105;115;95;110;117;108;108]%N.
Definition nm_is_not_null : bytes := [105;115;95;110;111;116;95;110;117;108;108]%N.
Definition nm_is_numeric : bytes := [105;115;95;110;117;109;101;114;105;99]%N.
Definition nm_is_string : bytes := [105;115;95;115;116;114;105;110;103]%N.
Definition nm_is_bool : bytes := [105;115;95;98;111;111;108]%N.
Definition nm_is_array : bytes := [105;115;95;97;114;114;97;121]%N.
Definition nm_is_object : bytes := [105;115;95;111;98;106;101;99;116]%N.
Definition nm_array_length : bytes := [97;114;114;97;121;95;108;101;110;103;116;104]%N.
Definition nm_array_contains : bytes := [97;114;114;97;121;95;99;111;110;116;97;105;110;115]%N.
Definition nm_array_position : bytes := [97;114;114;97;121;95;112;111;115;105;116;105;111;110]%N.
Definition nm_array_remove : bytes := [97;114;114;97;121;95;114;101;109;111;118;101]%N.
Definition nm_array_distinct : bytes := [97;114;114;97;121;95;100;105;115;116;105;110;99;116]%N.
Definition nm_array_union : bytes := [97;114;114;97;121;95;117;110;105;111;110]%N.
Definition nm_array_intersect : bytes := [97;114;114;97;121;95;105;110;116;101;114;115;101;99;116]%N.
Definition nm_array_except : bytes := [97;114;114;97;121;95;101;120;99;101;112;116]%N.
Definition nm_url_encode : bytes := [117;114;108;95;101;110;99;111;100;101]%N.
Definition nm_url_decode : bytes := [117;114;108;95;100;101;99;111;100;101]%N.
Definition nm_encode : bytes := [101;110;99;111;100;101]%N.
Definition nm_decode : bytes := [100;101;99;111;100;101]%N.
Definition fmt_hex : bytes := [104;101;120]%N.
Definition fmt_url : bytes := [117;114;108]%N.
Definition fmt_base64 : bytes := [98;97;115;101;54;52]%N.
Definition ty_string : bytes := [115;116;114;105;110;103]%N.
Definition ty_int : bytes := [105;110;116]%N.
Definition ty_bigint : bytes := [98;105;103;105;110;116]%N.
Definition ty_int64 : bytes := [105;110;116;54;52]%N.
Definition ty_int32 : bytes := [105;110;116;51;50]%N.
Definition ty_float : bytes := [102;108;111;97;116]%N.
Definition ty_float64 : bytes := [102;108;111;97;116;54;52]%N.
Definition ty_bool : bytes := [98;111;111;108]%N.
Definition ty_boolean : bytes := [98;111;111;108;101;97;110]%N.

(* ---- the argument-count table (NewBaseFunction(name, ..., minArgs, maxArgs); None = no upper bound) ---- *)
Definition name_in (n : bytes) (l : list bytes) : bool := existsb (bytes_eqb n) l.
Definition ar (lo : nat) (hi : option nat) : option (nat * option nat) := Some (lo, hi).
Definition fx_arity (n : bytes) : option (nat * option nat) :=
  if name_in n [nm_abs; nm_sign; nm_floor; nm_ceil; nm_ceiling; nm_bitnot; nm_upper; nm_lower; nm_trim; nm_ltrim;
                nm_rtrim; nm_length; nm_len; nm_dec2hex; nm_hex2dec; nm_chr; nm_is_null; nm_is_not_null;
                nm_is_numeric; nm_is_string; nm_is_bool; nm_is_array; nm_is_object; nm_array_length;
                nm_array_distinct; nm_url_encode; nm_url_decode] then ar 1 (Some 1%nat)
  else if name_in n [nm_mod; nm_power; nm_pow; nm_trunc; nm_bitand; nm_bitor; nm_bitxor; nm_if_null; nm_null_if;
                     nm_startswith; nm_endswith; nm_indexof; nm_split; nm_cast; nm_array_contains;
                     nm_array_position; nm_array_remove; nm_array_union; nm_array_intersect; nm_array_except;
                     nm_encode; nm_decode]
       then ar 2 (Some 2%nat)
  else if name_in n [nm_round] then ar 1 (Some 2%nat)
  else if name_in n [nm_substring; nm_lpad; nm_rpad] then ar 2 (Some 3%nat)
  else if name_in n [nm_replace] then ar 3 (Some 3%nat)
  else if name_in n [nm_coalesce; nm_greatest; nm_least; nm_concat] then ar 1 None
  else None.
Definition arity_ok (a : nat * option nat) (k : nat) : bool :=
  Nat.leb (fst a) k && match snd a with Some hi => Nat.leb k hi | None => true end.

(* ---- the functions ---- *)
Definition ynum (q : Q) : yres := YOk (YS (VNum q)).
Definition yint (z : Z) : yres := YOk (YS (VNum (qofz z))).
Definition ystr (s : bytes) : yres := YOk (YS (VStr s)).
Definition ybool (b : bool) : yres := YOk (YS (VBool b)).
Definition ynull : yres := YOk (YS VNull).

Definition of_fres (r : xfres) : yres :=
  match r with FOk v => YOk (YS v) | FErr => YErr | FUnmodelled => YUnm end.
Fixpoint scalars (l : list yvalue) : option (list xvalue) :=
  match l with
  | [] => Some []
  | YS v :: r => match scalars r with Some vs => Some (v :: vs) | None => None end
  | YA _ :: _ => None
  end.

(* an argument read with cast.ToStringE (an array would be rendered as JSON: not modelled) *)
Definition with_str (v : yvalue) (k : bytes -> yres) : yres :=
  match v with
  | YS x => match to_string_x x with Some s => k s | None => YUnm end
  | YA _ => YUnm
  end.
Definition with_ascii (v : yvalue) (k : bytes -> yres) : yres :=
  with_str v (fun s => if all_ascii s then k s else YUnm).
(* ... with cast.ToInt64E / ToIntE *)
Definition with_int (v : yvalue) (k : Z -> yres) : yres :=
  match v with
  | YS x => match to_int64 x with OVal z => k z | OErr => YErr | OUnm => YUnm end
  | YA _ => YErr
  end.
(* ... with cast.ToFloat64E *)
Definition with_float (v : yvalue) (k : Q -> yres) : yres :=
  match v with
  | YS x => match to_float x with Some q => k q | None => YErr end
  | YA _ => YErr
  end.
Definition with_arr (v : yvalue) (k : list xvalue -> yres) : yres :=
  match v with YA l => k l | YS _ => YErr end.
(* the value looked for in an array: a scalar (an array inside an array is outside the model) *)
Definition with_elem (v : yvalue) (k : xvalue -> yres) : yres :=
  match v with YS x => k x | YA _ => YUnm end.

Definition qscale (q : Q) (p : nat) : Q := qmul q (qofz (p10 p)).
Definition qunscale (z : Z) (p : nat) : Q := qdiv (qofz z) (qofz (p10 p)).

(* lpad / rpad with every argument coerced as the code does *)
Definition fx_pad (left : bool) (args : list yvalue) : yres :=
  let go (sv nv : yvalue) (pad : option yvalue) : yres :=
    with_str sv (fun s => with_int nv (fun z =>
      match pad with
      | None => ystr (pad_value left s (Z.to_nat z) [])
      | Some pv => with_str pv (fun p => ystr (pad_value left s (Z.to_nat z) p))
      end)) in
  match args with
  | [sv; nv] => go sv nv None
  | [sv; nv; pv] => go sv nv (Some pv)
  | _ => YErr
  end.

Definition fx_is (n : bytes) (v : yvalue) : bool :=
  if bytes_eqb n nm_is_null then match v with YS VNull => true | _ => false end
  else if bytes_eqb n nm_is_not_null then match v with YS VNull => false | _ => true end
  else if bytes_eqb n nm_is_numeric then match v with YS (VNum _) => true | _ => false end
  else if bytes_eqb n nm_is_string then match v with YS (VStr _) => true | _ => false end
  else if bytes_eqb n nm_is_bool then match v with YS (VBool _) => true | _ => false end
  else if bytes_eqb n nm_is_array then match v with YA _ => true | _ => false end
  else false (* is_object: maps and structs are not values of the model *).

Definition fx_cast (v : yvalue) (ty : bytes) : yres :=
  if bytes_eqb ty ty_bigint || bytes_eqb ty ty_int64 || bytes_eqb ty ty_int then with_int v yint
  else if bytes_eqb ty ty_int32 then
    with_int v (fun z => if Z.ltb 2147483647 z || Z.ltb z (-2147483648) then YErr else yint z)
  else if bytes_eqb ty ty_float || bytes_eqb ty ty_float64 then with_float v ynum
  else if bytes_eqb ty ty_string then with_str v ystr
  else if bytes_eqb ty ty_bool || bytes_eqb ty ty_boolean then
    match v with
    | YS x => match to_bool_e x with Some b => ybool b | None => YErr end
    | YA _ => YErr
    end
  else YErr.

(* the built-ins that ExprEval.v does not define, and the argument shapes it leaves open *)
Definition fx_body (n : bytes) (args : list yvalue) : yres :=
  (* ---- math ---- *)
  if name_in n [nm_abs; nm_sign; nm_floor; nm_ceil; nm_ceiling; nm_mod] then YErr (* an array where a number is read *)
  else if bytes_eqb n nm_trunc then
    match args with
    | [x; p] => with_float x (fun q => with_int p (fun z =>
        if Z.ltb z 0 then YErr
        else if Z.ltb 15 z then YUnm
        else let k := Z.to_nat z in
             ynum (if Qle_bool 0 q then qunscale (qfloor (qscale q k)) k else qunscale (qceil (qscale q k)) k)))
    | _ => YErr
    end
  else if bytes_eqb n nm_round then
    match args with
    | [YS VNull; _] => ynull
    | [x; p] => with_float x (fun q =>
        match p with
        | YS VNull => ynull
        | _ => with_int p (fun z =>
                 if Z.ltb z 0 || Z.ltb 15 z then YUnm
                 else let k := Z.to_nat z in ynum (qunscale (qround (qscale q k)) k))
        end)
    | _ => YErr
    end
  else if bytes_eqb n nm_power || bytes_eqb n nm_pow then
    match args with
    | [x; y] => with_float x (fun a => with_float y (fun b =>
        let r := Qred b in
        match Qden r with
        | 1%positive =>
            if Z.ltb 64 (Z.abs (Qnum r)) then YUnm
            else let k := Z.to_nat (Z.abs (Qnum r)) in
                 if Z.leb 0 (Qnum r) then ynum (qpown a k)
                 else if qzero a then YErr (* +Inf *)
                 else ynum (qdiv 1 (qpown a k))
        | _ => YUnm
        end))
    | _ => YErr
    end
  else if bytes_eqb n nm_bitand || bytes_eqb n nm_bitor || bytes_eqb n nm_bitxor then
    match args with
    | [x; y] => with_int x (fun a => with_int y (fun b =>
        yint (if bytes_eqb n nm_bitand then Z.land a b else if bytes_eqb n nm_bitor then Z.lor a b else Z.lxor a b)))
    | _ => YErr
    end
  else if bytes_eqb n nm_bitnot then
    match args with [x] => with_int x (fun a => yint (Z.lnot a)) | _ => YErr end
  (* ---- conditionals ---- *)
  else if bytes_eqb n nm_null_if then
    match args with [x; y] => if yeq x y then ynull else YOk x | _ => YErr end
  else if bytes_eqb n nm_coalesce then
    match args with
    | [] => YErr
    | _ => YOk ((fix go (l : list yvalue) : yvalue :=
                   match l with [] => YS VNull | YS VNull :: r => go r | v :: _ => v end) args)
    end
  else if bytes_eqb n nm_if_null then
    match args with
    | [YS VNull; y] => YOk y
    | [x; _] => YOk x
    | _ => YErr
    end
  (* ---- strings ---- *)
  else if bytes_eqb n nm_upper then
    match args with [v] => with_ascii v (fun s => ystr (map ascii_upper s)) | _ => YErr end
  else if bytes_eqb n nm_lower then
    match args with [v] => with_ascii v (fun s => ystr (map ascii_lower s)) | _ => YErr end
  else if bytes_eqb n nm_length || bytes_eqb n nm_len then
    match args with
    | [YA l] => yint (Z.of_nat (length l))
    | [v] => with_str v (fun s => yint (Z.of_nat (length s)))
    | _ => YErr
    end
  else if bytes_eqb n nm_concat then
    match args with
    | [] => YErr
    | _ => (fix go (l : list yvalue) (acc : bytes) : yres :=
              match l with [] => ystr acc | v :: r => with_str v (fun s => go r (acc ++ s)) end) args []
    end
  else if bytes_eqb n nm_lpad then fx_pad true args
  else if bytes_eqb n nm_rpad then fx_pad false args
  else if bytes_eqb n nm_trim then
    match args with [v] => with_ascii v (fun s => ystr (trim_both is_space_go s)) | _ => YErr end
  else if bytes_eqb n nm_ltrim then
    match args with [v] => with_str v (fun s => ystr (trim_left is_blank_lr s)) | _ => YErr end
  else if bytes_eqb n nm_rtrim then
    match args with [v] => with_str v (fun s => ystr (trim_right is_blank_lr s)) | _ => YErr end
  else if bytes_eqb n nm_substring then
    match args with
    | [v; st] => with_str v (fun s => with_int st (fun a =>
                   if all_ascii s then ystr (substring_b s a None) else YUnm))
    | [v; st; ln] => with_str v (fun s => with_int st (fun a => with_int ln (fun l =>
                   if all_ascii s then ystr (substring_b s a (Some l)) else YUnm)))
    | _ => YErr
    end
  else if bytes_eqb n nm_replace then
    match args with
    | [v; o; w] => with_str v (fun s => with_str o (fun old => with_str w (fun new =>
        match old with
        | [] => if all_ascii s then ystr (replace_b s old new) else YUnm
        | _ :: _ => ystr (replace_b s old new)
        end)))
    | _ => YErr
    end
  else if bytes_eqb n nm_startswith then
    match args with [v; p] => with_str v (fun s => with_str p (fun x => ybool (has_prefix s x))) | _ => YErr end
  else if bytes_eqb n nm_endswith then
    match args with [v; p] => with_str v (fun s => with_str p (fun x => ybool (has_suffix s x))) | _ => YErr end
  else if bytes_eqb n nm_indexof then
    match args with [v; p] => with_str v (fun s => with_str p (fun x => yint (index_b s x))) | _ => YErr end
  else if bytes_eqb n nm_split then
    match args with
    | [v; p] => with_str v (fun s => with_str p (fun sep =>
        match sep with
        | [] => if all_ascii s then YOk (YA (map VStr (split_b s sep))) else YUnm
        | _ :: _ => YOk (YA (map VStr (split_b s sep)))
        end))
    | _ => YErr
    end
  (* ---- conversions ---- *)
  else if bytes_eqb n nm_cast then
    match args with
    | [v; t] => match t with
                | YS tv => match to_string_x tv with Some ty => fx_cast v ty | None => YUnm end
                | YA _ => YUnm
                end
    | _ => YErr
    end
  else if bytes_eqb n nm_dec2hex then
    match args with [v] => with_int v (fun z => ystr (hex_of_Z z)) | _ => YErr end
  else if bytes_eqb n nm_hex2dec then
    match args with
    | [YS x] => match to_string_x x with
                | Some s => match parse_hex s with OVal z => yint z | OErr => YErr | OUnm => YUnm end
                | None => YUnm
                end
    | [YA _] => YErr (* rendered as JSON text, which is not hexadecimal *)
    | _ => YErr
    end
  else if bytes_eqb n nm_chr then
    match args with
    | [v] => with_int v (fun z => if Z.ltb z 0 || Z.ltb 127 z then YErr else ystr [Z.to_N z])
    | _ => YErr
    end
  else if bytes_eqb n nm_url_encode then
    match args with
    | [YS VNull] => YErr
    | [v] => with_str v (fun s => ystr (url_escape s))
    | _ => YErr
    end
  else if bytes_eqb n nm_url_decode then
    match args with
    | [YS VNull] => YErr
    | [v] => with_str v (fun s => match url_unescape s with Some r => ystr r | None => YErr end)
    | _ => YErr
    end
  else if bytes_eqb n nm_encode || bytes_eqb n nm_decode then
    (* Validate: the format (and for decode the input) must be a string, the format a known one;
       encode takes a string only *)
    match args with
    | [v; YS (VStr f)] =>
        if bytes_eqb f fmt_hex || bytes_eqb f fmt_url || bytes_eqb f fmt_base64 then
          match v with
          | YS (VStr s) =>
              if bytes_eqb f fmt_base64 then YUnm
              else if bytes_eqb n nm_encode then ystr (if bytes_eqb f fmt_hex then hex_encode s else url_escape s)
              else match (if bytes_eqb f fmt_hex then hex_decode s else url_unescape s) with
                   | Some r => ystr r
                   | None => YErr
                   end
          | _ => YErr
          end
        else YErr
    | [_; _] => YErr
    | _ => YErr
    end
  (* ---- type tests ---- *)
  else if name_in n [nm_is_null; nm_is_not_null; nm_is_numeric; nm_is_string; nm_is_bool; nm_is_array; nm_is_object] then
    match args with [v] => ybool (fx_is n v) | _ => YErr end
  (* ---- arrays ---- *)
  else if bytes_eqb n nm_array_length then
    match args with [a] => with_arr a (fun l => yint (Z.of_nat (length l))) | _ => YErr end
  else if bytes_eqb n nm_array_distinct then
    match args with [a] => with_arr a (fun l => YOk (YA (arr_distinct l))) | _ => YErr end
  else if bytes_eqb n nm_array_contains then
    match args with [a; v] => with_arr a (fun l => with_elem v (fun x => ybool (mem_v x l))) | _ => YErr end
  else if bytes_eqb n nm_array_position then
    match args with [a; v] => with_arr a (fun l => with_elem v (fun x => yint (Z.of_nat (arr_position l x)))) | _ => YErr end
  else if bytes_eqb n nm_array_remove then
    match args with [a; v] => with_arr a (fun l => with_elem v (fun x => YOk (YA (arr_remove l x)))) | _ => YErr end
  else if bytes_eqb n nm_array_union then
    match args with [a; b] => with_arr a (fun l => with_arr b (fun m => YOk (YA (arr_union l m)))) | _ => YErr end
  else if bytes_eqb n nm_array_intersect then
    match args with [a; b] => with_arr a (fun l => with_arr b (fun m => YOk (YA (arr_intersect l m)))) | _ => YErr end
  else if bytes_eqb n nm_array_except then
    match args with [a; b] => with_arr a (fun l => with_arr b (fun m => YOk (YA (arr_except l m)))) | _ => YErr end
  else YUnm.

(* a call: Validate (argument count), then Execute.  The functions of ExprEval.v keep their meaning
   on scalar arguments ([fn_call]); where that leaves the shape open, and for every other name, [fx_body]. *)
Definition fx_call (n : bytes) (args : list yvalue) : yres :=
  match fx_arity n with
  | None => YUnm
  | Some a =>
      if negb (arity_ok a (length args)) then YErr
      else match scalars args with
           | Some vs => match fn_call n vs with
                        | FOk v => YOk (YS v)
                        | FErr => YErr
                        | FUnmodelled => fx_body n args
                        end
           | None => fx_body n args
           end
  end.

(* ---- expressions built from literals, columns and calls ---- *)
Inductive ylres := LOk (l : list yvalue) | LErr | LUnm.
Section YMap.
Context (f : xexpr -> yres).
Fixpoint ymapM (l : list xexpr) : ylres :=
  match l with
  | [] => LOk []
  | a :: l' => match f a with
               | YOk v => match ymapM l' with LOk vs => LOk (v :: vs) | LErr => LErr | LUnm => LUnm end
               | YErr => LErr
               | YUnm => LUnm
               end
  end.
End YMap.

(* float64 has a negative zero (ceil(-0.5), round(-0.2), mod(-2, 1) ...) whose text is "-0"; the
   rationals do not.  A zero COMPUTED by a nested call is therefore outside the model where the outer
   function renders its argument as text (everywhere else -0 and 0 behave alike). *)
Definition renders_text (g : bytes) : bool :=
  name_in g [nm_upper; nm_lower; nm_trim; nm_ltrim; nm_rtrim; nm_length; nm_len; nm_concat; nm_substring;
             nm_replace; nm_startswith; nm_endswith; nm_indexof; nm_split; nm_lpad; nm_rpad; nm_cast; nm_hex2dec;
             nm_url_encode; nm_url_decode;
             nm_greatest; nm_least].
Definition is_call (e : xexpr) : bool :=
  match e with ECall _ _ | EParen (ECall _ _) => true | _ => false end.
Definition is_zero_val (v : yvalue) : bool :=
  match v with YS (VNum q) => qzero q | _ => false end.
Fixpoint computed_zero (es : list xexpr) (vs : list yvalue) : bool :=
  match es, vs with
  | e :: es', v :: vs' => (is_call e && is_zero_val v) || computed_zero es' vs'
  | _, _ => false
  end.

Section YSem.
Variable row : yrow.
(* a column that the row lacks is outside the model (the three dispatchers differ: finding F37) *)
Fixpoint ysem (e : xexpr) : yres :=
  match e with
  | ENum q => YOk (YS (VNum q))
  | EStr s => YOk (YS (VStr s))
  | ECol c => match ylookup row c with Some v => YOk v | None => YUnm end
  | EParen x => ysem x
  | ECall g args => match ymapM ysem args with
                    | LOk vs => if renders_text g && computed_zero args vs then YUnm else fx_call g vs
                    | LErr => YErr
                    | LUnm => YUnm
                    end
  | _ => YUnm
  end.
End YSem.

Fixpoint scalar_row (r : yrow) : xrow :=
  match r with
  | [] => []
  | (k, YS v) :: r' => (k, v) :: scalar_row r'
  | (_, YA _) :: r' => scalar_row r'
  end.

(* searched CASE around calls: the conditions are ordinary scalar conditions (reference semantics) *)
Fixpoint ysem_case (row : yrow) (ws : list (xexpr * xexpr)) (els : option xexpr) : yres :=
  match ws with
  | [] => match els with Some e => ysem row e | None => ynull end
  | (c, x) :: ws' =>
      if negb (is_cond c) then YUnm else
      match sem (scalar_row row) c with
      | Some v => match as_bool v with
                  | Some true => ysem row x
                  | Some false => ysem_case row ws' els
                  | None => YUnm
                  end
      | None => YUnm
      end
  end.
Definition ysem_top (row : yrow) (t : xetop) : yres :=
  match t with
  | ETop e => ysem row e
  | ECase None ws els => ysem_case row ws els
  | ECase (Some _) _ _ => YUnm
  end.

(* the outermost call of an expression has a wrong number of arguments somewhere (used by the driver
   to name the clause) *)
Fixpoint bad_arity (e : xexpr) : bool :=
  match e with
  | ECall g args =>
      match fx_arity g with
      | Some a => negb (arity_ok a (length args))
      | None => false
      end || existsb bad_arity args
  | EParen x => bad_arity x
  | _ => false
  end.
