(* The Go carriers of a numeric grouping value (C09, counting window + aggregator).
   A number reaches the stream in whatever Go type its producer uses: float64 from JSON, int / int32 /
   uint8 / float32 ... from Go-native producers. Two sites turn it into a key:
     utils/cast/cast.go      ToString -> convertNumericToString   (window/counting_window.go getKey: the
                                                                    per-key buffer a row is counted in)
     utils/cast/groupkey.go  groupTypeKey, groupFloatKey          (aggregator/group_aggregator.go Add: the
                                                                    group of a row inside ONE window batch)
   Both are type switches over the Go type; they are mirrored here branch by branch. Model/GroupKey.v
   speaks about the NUMBER ([KInt z], [KFlt text]); this file is the layer below it, and
   Proofs/NumCarrierProofs.v shows where the two coincide (and where the code makes them differ).
   Float printing is modelled, not verified: a non-integral float comes with the text of its
   renderings. *)
From SV Require Export Model.GroupKey Model.Counting.

Inductive gotype : Type :=
  | GInt | GInt8 | GInt16 | GInt32 | GInt64
  | GUint | GUint8 | GUint16 | GUint32 | GUint64
  | GFloat32 | GFloat64.

(* a number: an integer, or a non-integral float f given by
     t64 = strconv.FormatFloat(f, 'g', -1, 64)  (= the 'f' format for the magnitudes 1e-4 <= |f| < 1e6 the
           harness uses; 'g' is what groupFloatKey prints, 'f' what ToString prints)
     t32 = Some (strconv.FormatFloat(f, 'f', -1, 32)) if f is a float32, else None *)
Inductive gnum : Type :=
  | NumInt (z : Z)
  | NumFrac (t64 : bytes) (t32 : option bytes).

Definition in_range (lo hi z : Z) : bool := (lo <=? z)%Z && (z <=? hi)%Z.

(* [carries ty v]: the Go type holds exactly this number. The float types are used as carriers of an
   integer only where EVERY integer is a float of that type (|z| <= 2^24, 2^53). *)
Definition carries (ty : gotype) (v : gnum) : bool :=
  match v with
  | NumInt z =>
      match ty with
      | GInt | GInt64 => in_range (-9223372036854775808) 9223372036854775807 z
      | GInt8 => in_range (-128) 127 z
      | GInt16 => in_range (-32768) 32767 z
      | GInt32 => in_range (-2147483648) 2147483647 z
      | GUint | GUint64 => in_range 0 18446744073709551615 z
      | GUint8 => in_range 0 255 z
      | GUint16 => in_range 0 65535 z
      | GUint32 => in_range 0 4294967295 z
      | GFloat32 => in_range (-16777216) 16777216 z
      | GFloat64 => in_range (-9007199254740992) 9007199254740992 z
      end
  | NumFrac _ t32 =>
      match ty with
      | GFloat64 => true
      | GFloat32 => match t32 with Some _ => true | None => false end
      | _ => false
      end
  end.

(* ---- utils/cast/cast.go convertNumericToString ------------------------------------------------
     float64: FormatFloat(v,'f',-1,64)   float32: FormatFloat(float64(v),'f',-1,32)
     int64: FormatInt   uint, uint64: FormatUint   every other integer type T: strconv.Itoa(int(v))
   'f' with precision -1 prints an integral float as its decimal digits (no point, no exponent).
   (As found, uint went through strconv.Itoa(int(v)), which wraps at 2^63: repaired, finding F47.) *)

Definition go_to_string (ty : gotype) (v : gnum) : bytes :=
  match v with
  | NumInt z =>
      match ty with
      | GUint | GUint64 => k_dec_N (Z.to_N z)
      | _ => k_dec_Z z
      end
  | NumFrac t64 t32 =>
      match ty, t32 with
      | GFloat32, Some t => t
      | _, _ => t64
      end
  end.

(* ---- utils/cast/groupkey.go groupTypeKey / groupFloatKey ------------------------------------------ *)
Definition s_int_bar : bytes := [105; 110; 116; 124]%N.              (* "int|" *)
Definition s_float_bar : bytes := [102; 108; 111; 97; 116; 124]%N.   (* "float|" *)

(* groupFloatKey(f) (a float32 is widened first): an integral float in the int64 range gets the key of
   the integer it equals. (The last branch -- an integral float outside the int64 range, printed with
   an exponent -- is not reached by a carried number; its text is not modelled.) *)
Definition go_float_key (v : gnum) : bytes :=
  match v with
  | NumInt z =>
      if in_range (-9223372036854775808) 9223372036854775807 z
      then s_int_bar ++ k_dec_Z z
      else s_float_bar
  | NumFrac t64 _ => s_float_bar ++ t64
  end.

Definition go_type_key (ty : gotype) (v : gnum) : bytes :=
  match ty with
  | GFloat32 => go_float_key v                                      (* case float32: groupFloatKey(float64(x)) *)
  | GFloat64 => go_float_key v                                      (* case float64: groupFloatKey(x) *)
  | GUint | GUint8 | GUint16 | GUint32 | GUint64 =>                 (* "int|" + FormatUint(uint64(x), 10) *)
      match v with NumInt z => s_int_bar ++ k_dec_N (Z.to_N z) | NumFrac t _ => s_float_bar ++ t end
  | GInt | GInt8 | GInt16 | GInt32 | GInt64 =>                      (* "int|" + FormatInt(int64(x), 10) *)
      match v with NumInt z => s_int_bar ++ k_dec_Z z | NumFrac t _ => s_float_bar ++ t end
  end.

(* GroupKeyPart *)
Definition go_key_part (ty : gotype) (v : gnum) : bytes :=
  let tk := go_type_key ty v in
  k_dec_N (N.of_nat (length tk)) ++ k_colon :: tk ++ [k_bar].

(* ---- the number a carried value is ------------------------------------------------------------ *)
Definition num_value (v : gnum) : kvalue :=
  match v with
  | NumInt z => KInt z
  | NumFrac t64 _ => KFlt t64
  end.

(* [prints_alike ty v]: ToString of this carrier prints the text Model/GroupKey.v gives the number.
   Fails for a float32 whose float32 text ("1.1") is not the text of the same number as a float64
   ("1.100000023841858"). *)
Definition prints_alike (ty : gotype) (v : gnum) : bool :=
  match v with
  | NumInt z => true
  | NumFrac t64 (Some t) => bytes_eqb t t64
  | NumFrac _ None => true
  end.

(* ---- rows with carried numbers ---------------------------------------------------------------- *)
Inductive cvalue : Type :=
  | CPlain (v : option kvalue)           (* string, bool, NULL, missing: as in Model/GroupKey.v *)
  | CNum (ty : gotype) (v : gnum).       (* a number in a Go type *)

Record crow : Type := mkCRow { crid : Z; cvals : list cvalue }.

Definition erase_value (c : cvalue) : option kvalue :=
  match c with CPlain v => v | CNum _ v => Some (num_value v) end.
Definition erase_row (r : crow) : krow := mkKRow (crid r) (map erase_value (cvals r)).

Definition cvalue_carried (c : cvalue) : bool :=
  match c with CPlain _ => true | CNum ty v => carries ty v end.
Definition cvalue_alike (c : cvalue) : bool :=
  match c with CPlain _ => true | CNum ty v => prints_alike ty v end.
Definition crow_carried (r : crow) : bool := forallb cvalue_carried (cvals r).
Definition crow_alike (r : crow) : bool := forallb cvalue_alike (cvals r).

(* counting_window.go getKey on a carried row: EscapeGroupKeyText(cast.ToString(val)) per column *)
Definition c_col_text (c : cvalue) : bytes :=
  match c with
  | CPlain v => k_col_text (knorm v)
  | CNum ty v => k_esc (go_to_string ty v)
  end.
Definition c_cnt_key (r : crow) : bytes :=
  match cvals r with [] => s_global | vs => k_join_bar (map c_col_text vs) end.

(* group_aggregator.go Add on a carried row: concatenation of GroupKeyPart per column *)
Definition c_agg_part (c : cvalue) : bytes :=
  match c with
  | CPlain v => k_key_part (knorm v)
  | CNum ty v => go_key_part ty v
  end.
Definition c_agg_key (r : crow) : bytes := concat (map c_agg_part (cvals r)).
