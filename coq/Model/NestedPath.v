(* C05 — nested field paths of select items ( SELECT d.x AS y, arr[1] FROM stream ).
   Code anchors:
     utils/fieldpath/fieldpath.go   ParseFieldPath, parseComplexPart, parseBracketContent, GetNestedField,
                                    accessFieldPart, getArrayElement, getMapValue, getFieldValue,
                                    getNestedFieldSimple, IsNestedField
     stream/processor_field.go      compileSimpleFieldInfo (fieldName / outputName / hasNestedField),
                                    processSimpleField (ordinary field: found -> value, else NULL)
     rsql/ast.go                    ParseAggregateTypeWithExpression (textual test that sends an item to the
                                    expression engines instead: an operator character, AND / OR, a leading CASE)
   Values are JSON-shaped: scalars, []any, map[string]any.  Path texts are byte strings; TrimSpace is
   modelled for ASCII white space (the generated paths are ASCII). *)
From SV Require Export Model.Direct.
From Coq Require Import ZArith NArith List.
Local Open Scope N_scope.

(* ---- values ---- *)
Inductive jvalue :=
| JS (v : xvalue)                        (* nil / number / string / bool *)
| JArr (l : list jvalue)                 (* []any *)
| JMap (m : list (bytes * jvalue)).      (* map[string]any *)
Definition jrow := list (bytes * jvalue).
Definition jnull : jvalue := JS VNull.

Fixpoint jlookup (m : jrow) (k : bytes) : option jvalue :=
  match m with
  | [] => None
  | (k', v) :: m' => if bytes_eqb k k' then Some v else jlookup m' k
  end.

(* ---- FieldPart ---- *)
Inductive npart :=
| PField (name : bytes)      (* Type "field" *)
| PIndex (i : Z)             (* Type "array_index" (Key = the digits, KeyType "number") *)
| PKey (k : bytes).          (* Type "map_key", KeyType "string" *)

Inductive npres := POk (ps : list npart) | PErr | PPanic.
Definition np_cons (p : npart) (r : npres) : npres :=
  match r with POk l => POk (p :: l) | e => e end.
Definition np_app (a b : npres) : npres :=      (* sequential: the first failure wins *)
  match a with
  | POk l => match b with POk l' => POk (l ++ l') | e => e end
  | e => e
  end.

(* ---- strconv.Atoi: [+-]? digit+ within int64 ---- *)
Definition np_is_digit (c : byte) : bool := (48 <=? c) && (c <=? 57).
Fixpoint np_digits (s : bytes) (acc : Z) : option Z :=
  match s with
  | [] => Some acc
  | c :: s' => if np_is_digit c then np_digits s' (acc * 10 + Z.of_N (c - 48))%Z else None
  end.
Definition np_int64 (z : Z) : bool := ((- 9223372036854775808 <=? z) && (z <=? 9223372036854775807))%Z.
Definition np_atoi (s : bytes) : option Z :=
  let (neg, ds) := match s with
                   | 45 :: r => (true, r)
                   | 43 :: r => (false, r)
                   | _ => (false, s)
                   end in
  match ds with
  | [] => None
  | _ => match np_digits ds 0%Z with
         | Some v => let z := if neg then (- v)%Z else v in
                     if np_int64 z then Some z else None
         | None => None
         end
  end.

(* strconv.Itoa *)
Fixpoint np_dec_f (fuel : nat) (n : N) (acc : bytes) : bytes :=
  match fuel with
  | O => acc
  | S f => let acc' := (48 + n mod 10) :: acc in
           if (n / 10 =? 0) then acc' else np_dec_f f (n / 10) acc'
  end.
Definition np_dec (n : N) : bytes := np_dec_f (S (N.size_nat n)) n [].
Definition np_itoa (z : Z) : bytes :=
  match z with Zneg p => 45 :: np_dec (Npos p) | _ => np_dec (Z.to_N z) end.

(* ---- strings.TrimSpace (ASCII) ---- *)
Definition np_is_space (c : byte) : bool :=
  (c =? 32) || (c =? 9) || (c =? 10) || (c =? 11) || (c =? 12) || (c =? 13).
Fixpoint np_ltrim (s : bytes) : bytes :=
  match s with c :: s' => if np_is_space c then np_ltrim s' else s | [] => [] end.
Definition np_trim (s : bytes) : bytes := rev (np_ltrim (rev (np_ltrim s))).

(* ---- parseBracketContent ---- *)
Inductive nbres := BPart (p : npart) | BErr | BPanic.
Definition np_quoted (q : byte) (s : bytes) : bool :=
  match s with c :: _ => (c =? q) && (last s 0 =? q) | [] => false end.
Definition np_bracket (content : bytes) : nbres :=
  let c := np_trim content in
  if np_quoted 39 c || np_quoted 34 c then
    match c with
    | _ :: (_ :: _) as r => BPart (PKey (removelast r))     (* content[1 : len-1] *)
    | _ => BErr                                             (* a lone quote is an invalid bracket content (as found: a panic, F52, repaired) *)
    end
  else match np_atoi c with
       | Some z => BPart (PIndex z)
       | None => BErr
       end.

(* ---- parseComplexPart: name? then [..][..]..; what follows the last ']' and is not '[' is ignored ---- *)
(* [np_brk s acc]: s = the text after an opening '[', acc = the content read so far (reversed) *)
Fixpoint np_brk (s : bytes) (acc : bytes) : npres :=
  match s with
  | [] => PErr                                   (* unmatched bracket *)
  | c :: s' =>
      if c =? 93 then
        match np_bracket (rev acc) with
        | BPart p => match s' with
                     | d :: s'' => if d =? 91 then np_cons p (np_brk s'' []) else POk [p]
                     | [] => POk [p]
                     end
        | BErr => PErr
        | BPanic => PPanic
        end
      else np_brk s' (c :: acc)
  end.
(* the text up to the first '[' and the text after it *)
Fixpoint np_until_open (s : bytes) : option (bytes * bytes) :=
  match s with
  | [] => None
  | c :: s' => if c =? 91 then Some ([], s')
               else match np_until_open s' with Some (a, b) => Some (c :: a, b) | None => None end
  end.
Definition np_dot_part (part : bytes) : npres :=
  match part with
  | [] => POk []                                  (* empty parts are skipped *)
  | _ => match np_until_open part with
         | None => POk [PField part]
         | Some ([], rest) => np_brk rest []
         | Some (name, rest) => np_cons (PField name) (np_brk rest [])
         end
  end.

(* strings.Split(s, ".") *)
Fixpoint np_split_dot (s : bytes) : list bytes :=
  match s with
  | [] => [[]]
  | c :: s' => if c =? 46 then [] :: np_split_dot s'
               else match np_split_dot s' with
                    | p :: ps => (c :: p) :: ps
                    | [] => [[c]]
                    end
  end.

Fixpoint np_parts (ds : list bytes) : npres :=
  match ds with
  | [] => POk []
  | d :: ds' => np_app (np_dot_part d) (np_parts ds')
  end.
(* ParseFieldPath (a non-empty text) *)
Definition np_parse (text : bytes) : npres := np_parts (np_split_dot text).

(* ---- access ---- *)
(* getFieldValue *)
Definition np_field (v : jvalue) (name : bytes) : option jvalue :=
  match v with JMap m => jlookup m name | _ => None end.
(* getArrayElement *)
Definition np_index (v : jvalue) (i : Z) : option jvalue :=
  match v with
  | JArr l => let len := Z.of_nat (length l) in
              let j := if (i <? 0)%Z then (len + i)%Z else i in
              if ((j <? 0) || (len <=? j))%Z then None else nth_error l (Z.to_nat j)
  | JMap m => jlookup m (np_itoa i)      (* map[string]any: the decimal text of the index as the key *)
  | JS _ => None
  end.
(* getMapValue *)
Definition np_key (v : jvalue) (k : bytes) : option jvalue :=
  match v with JMap m => jlookup m k | _ => None end.
(* accessFieldPart; a nil value has no parts *)
Definition np_access (v : jvalue) (p : npart) : option jvalue :=
  match v with
  | JS VNull => None
  | _ => match p with
         | PField n => np_field v n
         | PIndex i => np_index v i
         | PKey k => np_key v k
         end
  end.
Fixpoint np_get (v : jvalue) (ps : list npart) : option jvalue :=
  match ps with
  | [] => Some v
  | p :: ps' => match np_access v p with Some u => np_get u ps' | None => None end
  end.
(* getNestedFieldSimple: every dot part is a plain field name (empty names included) *)
Fixpoint np_get_simple (v : jvalue) (ds : list bytes) : option jvalue :=
  match ds with
  | [] => Some v
  | d :: ds' => match v with
                | JS VNull => None
                | _ => match np_field v d with Some u => np_get_simple u ds' | None => None end
                end
  end.

Inductive nres := NFound (v : jvalue) | NMissing | NPanic.
Definition nres_of (o : option jvalue) : nres := match o with Some v => NFound v | None => NMissing end.

(* GetNestedField *)
Definition nested_field (data : jvalue) (text : bytes) : nres :=
  match text with
  | [] => NMissing
  | _ => match np_parse text with
         | PPanic => NPanic
         | PErr => nres_of (np_get_simple data (np_split_dot text))
         | POk [] => NMissing
         | POk ps => nres_of (np_get data ps)
         end
  end.

(* ---- canonical spelling of a structured path: names joined by '.', brackets appended ---- *)
Inductive nseg := SName (n : bytes) | SBr (content : bytes).
Definition np_render_seg (first : bool) (s : nseg) : bytes :=
  match s with
  | SName n => if first then n else 46 :: n
  | SBr c => 91 :: c ++ [93]
  end.
Fixpoint np_render_tail (ss : list nseg) : bytes :=
  match ss with [] => [] | s :: ss' => np_render_seg false s ++ np_render_tail ss' end.
Definition np_render (ss : list nseg) : bytes :=
  match ss with [] => [] | s :: ss' => np_render_seg true s ++ np_render_tail ss' end.
Definition np_seg_part (s : nseg) : nbres :=
  match s with SName n => BPart (PField n) | SBr c => np_bracket c end.

(* ---- select items: path [AS alias] ---- *)
Definition np_has (c : byte) (s : bytes) : bool := existsb (N.eqb c) s.
(* fieldpath.IsNestedField *)
Definition np_is_nested (s : bytes) : bool := np_has 46 s || np_has 91 s.
Definition np_upper (s : bytes) : bytes := map (fun c => if (97 <=? c) && (c <=? 122) then c - 32 else c) s.
(* how the item is processed: RSimple = processSimpleField's ordinary-field branch (this model);
   RExpr = ParseAggregateTypeWithExpression calls it an expression (an operator character, AND / OR
   anywhere in the text, a leading CASE): evaluated by the expression engines (C06), not here;
   ROther = function call / string literal / backticks / a ':' *)
Inductive nroute := RSimple | RExpr | ROther.
Definition np_opchars : bytes := [43; 45; 42; 47; 60; 62; 61; 33; 38; 124].   (* +-*/<>=!&| *)
(* [colon]: a ':' or a back quote anywhere in the text puts the item outside this model (NQ lines).  rsql's
   own tests do not look at either character; Model/SelectItems.v reads such texts through the
   "field:alias" spec split and uses [np_route_c false] *)
Definition np_route_c (colon : bool) (text : bytes) : nroute :=
  if np_has 40 text || np_has 41 text || (colon && (np_has 96 text || np_has 58 text))
     || match text with c :: _ => (c =? 39) || (c =? 34) | [] => true end then ROther
  else if existsb (fun c => np_has c text) np_opchars
          || contains (np_upper text) [65; 78; 68] || contains (np_upper text) [79; 82]
          || has_prefix (np_upper (np_trim text)) [67; 65; 83; 69] then RExpr
  else RSimple.
Definition np_route (text : bytes) : nroute := np_route_c true text.

Record nitem := { ni_path : bytes; ni_alias : option bytes }.
(* info.outputName: the alias, else the text of the item itself *)
Definition ni_out (i : nitem) : bytes := match ni_alias i with Some a => a | None => ni_path i end.

(* processSimpleField, ordinary field: the value, NULL when not found *)
Definition ni_value (row : jrow) (path : bytes) : nres :=
  if np_is_nested path then nested_field (JMap row) path else nres_of (jlookup row path).

Inductive ncell := CVal (v : jvalue) | CUnm.    (* CUnm: computed by an expression engine (not this model) *)
Definition ncells := list (bytes * ncell).
Fixpoint nc_lookup (r : ncells) (k : bytes) : option ncell :=
  match r with
  | [] => None
  | (k', v) :: r' => if bytes_eqb k k' then Some v else nc_lookup r' k
  end.
Fixpoint nc_set (r : ncells) (k : bytes) (v : ncell) : ncells :=
  match r with
  | [] => [(k, v)]
  | (k', v') :: r' => if bytes_eqb k k' then (k, v) :: r' else (k', v') :: nc_set r' k v
  end.

Record nquery := { nq_items : list nitem; nq_where : option xexpr }.

(* projectDirectRow: the expression fields first (config.FieldExpressions, keyed by output name) ... *)
Fixpoint np_expr_cells (is : list nitem) (acc : ncells) : option ncells :=
  match is with
  | [] => Some acc
  | i :: is' => match np_route (ni_path i) with
                | RExpr => np_expr_cells is' (nc_set acc (ni_out i) CUnm)
                | RSimple => np_expr_cells is' acc
                | ROther => None
                end
  end.
(* ... then the simple fields in SELECT order; one whose output name is an expression field is skipped *)
Inductive npro := PrRow (r : ncells) | PrPanic.
Fixpoint np_simple_cells (row : jrow) (exprs : ncells) (is : list nitem) (acc : ncells) : npro :=
  match is with
  | [] => PrRow acc
  | i :: is' =>
      match np_route (ni_path i) with
      | RSimple =>
          match nc_lookup exprs (ni_out i) with
          | Some _ => np_simple_cells row exprs is' acc
          | None => match ni_value row (ni_path i) with
                    | NFound v => np_simple_cells row exprs is' (nc_set acc (ni_out i) (CVal v))
                    | NMissing => np_simple_cells row exprs is' (nc_set acc (ni_out i) (CVal jnull))
                    | NPanic => PrPanic
                    end
          end
      | _ => np_simple_cells row exprs is' acc
      end
  end.

(* the scalar top-level fields: what a WHERE over plain columns sees *)
Fixpoint np_flat (row : jrow) : xrow :=
  match row with
  | [] => []
  | (k, JS v) :: r => (k, v) :: np_flat r
  | _ :: r => np_flat r
  end.
Fixpoint np_expr_cols (e : xexpr) : list bytes :=
  match e with
  | ENum _ | EStr _ => []
  | ECol c => [c]
  | ENeg x | EParen x => np_expr_cols x
  | EBin _ l r | ECmp _ l r | EAnd l r | EOr l r => np_expr_cols l ++ np_expr_cols r
  | ECall _ args => flat_map np_expr_cols args
  end.
Definition np_scalar_col (row : jrow) (c : bytes) : bool :=
  match jlookup row c with Some (JS _) | None => true | _ => false end.
(* WHERE over scalar columns of the row: the C06 predicate model; None = outside the model *)
Definition nwhere_ok (q : nquery) (row : jrow) : option bool :=
  match nq_where q with
  | None => Some true
  | Some e => if forallb (np_scalar_col row) (np_expr_cols e) then where_true (np_flat row) e else None
  end.

Inductive ndirect_res := NDNone | NDRow (r : ncells) | NDPanic | NDUnm.
Definition ndirect (q : nquery) (row : jrow) : ndirect_res :=
  match nwhere_ok q row with
  | None => NDUnm
  | Some false => NDNone
  | Some true =>
      match np_expr_cells (nq_items q) [] with
      | None => NDUnm
      | Some ex => match np_simple_cells row ex (nq_items q) ex with
                   | PrRow r => NDRow r
                   | PrPanic => NDPanic
                   end
      end
  end.
