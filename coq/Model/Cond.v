(* Model of the predicate fast paths and of the general evaluator they must agree with (C12).
   Code anchors (rulego/streamsql, condition/condition.go):
     NewExprCondition, ExprCondition.Evaluate          new_cond / evaluate
     fastFieldOpNum, fastFieldOpStr, tryFastCompare        parse_cmp, try_fast_compare
     fastAndOr, tryFastCompound                            split_logic, try_fast_compound
     fastCompare.eval / evalMap, fastCompound.eval   fast_cmp_eval, chain_eval, fast_eval
     toFloat64Fast, compareNum, compareStr                 to_float_fast, op_holds
   The general evaluator is expr-lang v1.17.8 on the texts of the shortcut shapes
   (vm/runtime/helpers[generated].go Equal/Less/More/LessOrEqual/MoreOrEqual, parser number and
   string literals, lexer unescape); its meaning is *assumed* here (general_cmp, gchain) and is
   validated on every run against NewExprCondition of the parenthesised text, which never gets a fast path.
   The model follows the code after the three "fix:" commits (F9 and the two findings next to it);
   the [_asis] definitions are the code as found. Executable definitions only. *)
From Coq Require Import List NArith ZArith Bool.
From SV Require Export Base.Bytes.
Import ListNotations.
Open Scope Z_scope.

(* ------------------------------------------------------------------ operators *)
(* >  >=  <  <=  ==  =  !=  <>  : what the two regexes accept (= and <> do not compile in expr-lang) *)
Inductive cop := OGt | OGe | OLt | OLe | OEq2 | OEq1 | ONe | ONe2.

(* compareNum / compareStr, and expr-lang's comparison, on the outcome of a three-way comparison
   ([None] = unordered: a NaN is involved) *)
Definition op_holds (o : cop) (c : option comparison) : bool :=
  match o with
  | OGt => match c with Some Gt => true | _ => false end
  | OGe => match c with Some Gt | Some Eq => true | _ => false end
  | OLt => match c with Some Lt => true | _ => false end
  | OLe => match c with Some Lt | Some Eq => true | _ => false end
  | OEq2 | OEq1 => match c with Some Eq => true | _ => false end
  | ONe | ONe2 => match c with Some Eq => false | _ => true end
  end.

(* ------------------------------------------------------------------ float64 values *)
(* a float64 is NaN, +-Inf or the exact dyadic m * 2^e (both zeros are m = 0) *)
Inductive fl := FNaN | FInf (neg : bool) | FFin (m e : Z).

Definition fcompare (a b : fl) : option comparison :=
  match a with
  | FNaN => None
  | FInf na =>
      match b with
      | FNaN => None
      | FInf nb => Some (if na then (if nb then Eq else Lt) else (if nb then Gt else Eq))
      | FFin _ _ => Some (if na then Lt else Gt)
      end
  | FFin m1 e1 =>
      match b with
      | FNaN => None
      | FInf nb => Some (if nb then Gt else Lt)
      | FFin m2 e2 => let e := Z.min e1 e2 in Some (Z.compare (m1 * 2 ^ (e1 - e)) (m2 * 2 ^ (e2 - e)))
      end
  end.

Definition two53 : Z := 9007199254740992.
Definition two63 : Z := 9223372036854775808.
Definition two64 : Z := 18446744073709551616.

(* floor (log2 z) for z > 0 (0 otherwise) *)
Fixpoint pos_log2 (p : positive) : Z :=
  match p with xH => 0 | xO q | xI q => 1 + pos_log2 q end.
Definition zlog2 (z : Z) : Z := match z with Zpos p => pos_log2 p | _ => 0 end.

(* Go's float64(x) for an integer x: round to nearest, ties to even, to 53 significant bits.
   The result is an integer again (|x| < 2^53 is kept; above, the low bits are rounded away). *)
Definition round64Z (z : Z) : Z :=
  let a := Z.abs z in
  if a <? two53 then z else
  let sh := zlog2 a - 52 in
  let q := a / 2 ^ sh in
  let r := a mod 2 ^ sh in
  let half := 2 ^ (sh - 1) in
  let q' := if half <? r then q + 1 else if (r =? half) && Z.odd q then q + 1 else q in
  Z.sgn z * (q' * 2 ^ sh).

Definition fl_of_Z (z : Z) : fl := FFin (round64Z z) 0.

(* strconv.ParseFloat on digits with a fraction: nearest-even float64 of a/d (a >= 0, d > 0),
   subnormals included; +Inf when out of range (ParseFloat then also reports an error) *)
Definition scale_q (a d e : Z) : Z * Z := if 0 <=? e then (a, d * 2 ^ e) else (a * 2 ^ (- e), d).
Definition round_q (a d : Z) : fl :=
  if a =? 0 then FFin 0 0 else
  let e0 := zlog2 a - zlog2 d in
  let '(n0, d0) := scale_q a d e0 in
  let et := if n0 <? d0 then e0 - 1 else e0 in        (* floor (log2 (a/d)) *)
  let e := Z.max (et - 52) (-1074) in
  let '(n, dd) := scale_q a d e in
  let q := n / dd in
  let r := n mod dd in
  let m := match Z.compare (2 * r) dd with
           | Gt => q + 1
           | Eq => if Z.odd q then q + 1 else q
           | Lt => q
           end in
  if (971 <? e) || ((e =? 971) && (two53 <=? m)) then FInf false else FFin m e.

Definition fneg (f : fl) : fl :=
  match f with FNaN => FNaN | FInf n => FInf (negb n) | FFin m e => FFin (- m) e end.

(* ------------------------------------------------------------------ literals, comparisons, shapes *)
(* number literal  -?\d+            : LInt  (value)
                   -?\d+\.\d+       : LFrac neg n k  = (+-) n / 10^k   (n = all digits, k = digits after the point)
   string literal  '[^']*'          : LStr  (the raw bytes between the quotes) *)
Inductive clit := LInt (z : Z) | LFrac (neg : bool) (n : Z) (k : nat) | LStr (s : bytes).

Record ccmp := mkCmp { c_field : bytes; c_op : cop; c_lit : clit }.

(* the shape language: one comparison, or a flat chain joined by only && (true) or only || (false) *)
Inductive shape := SCmp (c : ccmp) | SChain (is_and : bool) (cs : list ccmp).

Definition frac_float (neg : bool) (n : Z) (k : nat) : fl :=
  let f := round_q n (10 ^ Z.of_nat k) in if neg then fneg f else f.

(* ------------------------------------------------------------------ row values *)
Inductive ikind := KInt | KInt8 | KInt16 | KInt32 | KInt64 | KUint | KUint8 | KUint16 | KUint32 | KUint64.

Inductive value :=
| VMissing                       (* the column is not in the row *)
| VNil                           (* present with value nil (NULL) *)
| VI (k : ikind) (z : Z)         (* a Go integer of that type *)
| VF64 (f : fl) | VF32 (f : fl)  (* float64 / float32 (carried as the float64 it widens to) *)
| VStr (s : bytes)
| VBool (b : bool)
| VOther.                        (* any other Go type: slices, maps, structs, time.Duration ... *)

Definition row := list (bytes * value).

Fixpoint lookup (f : bytes) (r : row) : value :=
  match r with
  | [] => VMissing
  | (k, v) :: r' => if bytes_eqb k f then v else lookup f r'
  end.

Fixpoint bytes_compare (a b : bytes) : comparison :=
  match a, b with
  | [], [] => Eq
  | [], _ :: _ => Lt
  | _ :: _, [] => Gt
  | x :: a', y :: b' => match N.compare x y with Eq => bytes_compare a' b' | c => c end
  end.

(* ------------------------------------------------------------------ string literals in expr-lang *)
Definition in_rng (lo hi c : N) : bool := (N.leb lo c) && (N.leb c hi).

(* unicode/utf8.ValidString *)
Fixpoint utf8_valid (s : bytes) : bool :=
  match s with
  | [] => true
  | c :: r =>
    if N.ltb c 128 then utf8_valid r
    else if in_rng 194 223 c then
      match r with c1 :: r1 => in_rng 128 191 c1 && utf8_valid r1 | _ => false end
    else if in_rng 224 239 c then
      match r with
      | c1 :: c2 :: r2 =>
          (if N.eqb c 224 then in_rng 160 191 c1 else if N.eqb c 237 then in_rng 128 159 c1 else in_rng 128 191 c1)
          && in_rng 128 191 c2 && utf8_valid r2
      | _ => false
      end
    else if in_rng 240 244 c then
      match r with
      | c1 :: c2 :: c3 :: r3 =>
          (if N.eqb c 240 then in_rng 144 191 c1 else if N.eqb c 244 then in_rng 128 143 c1 else in_rng 128 191 c1)
          && in_rng 128 191 c2 && in_rng 128 191 c3 && utf8_valid r3
      | _ => false
      end
    else false
  end.

(* lexer.unescape: newlineNormalizer (CR LF -> LF, CR -> LF) ... *)
Fixpoint norm_newlines (s : bytes) : bytes :=
  match s with
  | [] => []
  | c :: r =>
      if N.eqb c 13 then
        match r with
        | c2 :: r2 => if N.eqb c2 10 then 10%N :: norm_newlines r2 else 10%N :: norm_newlines r
        | [] => [10%N]
        end
      else c :: norm_newlines r
  end.

(* ... then the escape sequences (parser/lexer: scanEscape lets a b f n r t v backslash, the quote
   itself -- which cannot occur between the quotes here --, three octal digits, \xHH, \uHHHH,
   \u{H..} with 1-6 digits and \UHHHHHHHH through; utils.go unescapeChar then decodes them). Every
   numeric form denotes a CODE POINT that is written as UTF-8 (multibyte = true): '\xe9' and '\351'
   are the two bytes of U+00E9, not the byte 0xE9 (strconv.Unquote would give the byte).
   [UUnknown]: a literal this model does not interpret (invalid UTF-8 in the text) *)
Inductive ures := UOk (s : bytes) | UBad | UUnknown.

Definition simple_escape (c : N) : option N :=
  if N.eqb c 97 then Some 7%N          (* \a *)
  else if N.eqb c 98 then Some 8%N     (* \b *)
  else if N.eqb c 102 then Some 12%N   (* \f *)
  else if N.eqb c 110 then Some 10%N   (* \n *)
  else if N.eqb c 114 then Some 13%N   (* \r *)
  else if N.eqb c 116 then Some 9%N    (* \t *)
  else if N.eqb c 118 then Some 11%N   (* \v *)
  else if N.eqb c 92 then Some 92%N    (* \\ *)
  else None.

(* lexer digitVal / utils unhex *)
Definition hex_val (c : N) : option N :=
  if in_rng 48 57 c then Some (c - 48)%N
  else if in_rng 97 102 c then Some (c - 87)%N
  else if in_rng 65 70 c then Some (c - 55)%N
  else None.

Definition oct_val (c : N) : option N := if in_rng 48 55 c then Some (c - 48)%N else None.

(* unicode/utf8.EncodeRune: a surrogate half and a value beyond U+10FFFF are written as U+FFFD *)
Definition max_rune : N := 1114111.
Definition utf8_encode (v : N) : bytes :=
  (if v <? 128 then [v]
   else if v <? 2048 then [192 + v / 64; 128 + v mod 64]
   else if in_rng 55296 57343 v || (max_rune <? v) then [239; 191; 189]
   else if v <? 65536 then [224 + v / 4096; 128 + (v / 64) mod 64; 128 + v mod 64]
   else [240 + v / 262144; 128 + (v / 4096) mod 64; 128 + (v / 64) mod 64; 128 + v mod 64])%N.

(* the bytes a numeric escape of value v contributes ([None]: "unable to unescape string").
   kind 0 = \xHH, 1 = \uHHHH, 2 = \UHHHHHHHH, 3 = \u{H..}, 4 = octal. The value is accumulated in
   a rune (int32): eight digits from 80000000 on are negative there, pass the v > MaxRune test and are
   written as the single byte byte(v) *)
Definition esc_value (kind v : N) : option bytes :=
  if N.eqb kind 2 && (2147483648 <=? v)%N then Some [(v mod 256)%N]
  else if (max_rune <? v)%N then None
  else Some (utf8_encode v).

(* where the scan stands inside a literal *)
Inductive estate :=
| ESText                                  (* ordinary text *)
| ESEsc                                   (* after a backslash *)
| ESHex (kind : N) (n : nat) (v : N)      (* n more hex digits of \x \u \U to read, value so far *)
| ESU                                     (* after \u : an opening brace or the first of four digits *)
| ESBrace (d : nat) (v : N)               (* inside \u{ : d digits read *)
| ESOct (n : nat) (v : N).                (* n more octal digits to read *)

Definition emit_to_text (o : option bytes) : option (estate * bytes) :=
  match o with Some b => Some (ESText, b) | None => None end.

Definition hex_step (kind : N) (n : nat) (v c : N) : option (estate * bytes) :=
  match hex_val c with
  | None => None
  | Some d =>
      let v' := (v * 16 + d)%N in
      match n with
      | O => None
      | S O => emit_to_text (esc_value kind v')
      | S m => Some (ESHex kind m v', [])
      end
  end.

(* one character of the literal: the next state and the bytes written ([None]: does not compile) *)
Definition estep (st : estate) (c : N) : option (estate * bytes) :=
  match st with
  | ESText => if N.eqb c 92 then Some (ESEsc, []) else Some (ESText, [c])
  | ESEsc =>
      match simple_escape c with
      | Some x => Some (ESText, [x])
      | None =>
          if N.eqb c 120 then Some (ESHex 0 2 0, [])             (* x *)
          else if N.eqb c 117 then Some (ESU, [])                  (* u *)
          else if N.eqb c 85 then Some (ESHex 2 8 0, [])           (* U *)
          else if in_rng 48 51 c then Some (ESOct 2 (c - 48)%N, []) (* 0-3; 4-7 pass the lexer, not unescapeChar *)
          else None                                                (* X, ?, backtick, double quote and everything else *)
      end
  | ESHex kind n v => hex_step kind n v c
  | ESU => if N.eqb c 123 then Some (ESBrace 0 0, []) else hex_step 1 4 0 c
  | ESBrace d v =>
      if N.eqb c 125 then match d with O => None | S _ => emit_to_text (esc_value 3 v) end
      else match hex_val c with
           | None => None
           | Some x => if Nat.leb 6 d then None else Some (ESBrace (S d) (v * 16 + x)%N, [])
           end
  | ESOct n v =>
      match oct_val c with
      | None => None
      | Some x =>
          let v' := (v * 8 + x)%N in
          match n with
          | O => None
          | S O => emit_to_text (esc_value 4 v')
          | S m => Some (ESOct m v', [])
          end
      end
  end.

Definition uapp (p : bytes) (u : ures) : ures := match u with UOk t => UOk (p ++ t) | o => o end.

Fixpoint unesc (st : estate) (s : bytes) : ures :=
  match s with
  | [] => match st with ESText => UOk [] | _ => UBad end      (* the literal ends inside an escape *)
  | c :: r => match estep st c with
              | None => UBad
              | Some (st', out) => uapp out (unesc st' r)
              end
  end.

Definition unescape (s : bytes) : ures := unesc ESText s.

(* the value expr-lang gives to the literal 'raw':
   UBad = the expression does not compile (raw line feed: literal not terminated; bad escape),
   UUnknown = outside this model (invalid UTF-8 in the text is replaced by U+FFFD) *)
Definition str_value (raw : bytes) : ures :=
  if existsb (N.eqb 10) raw then UBad
  else if negb (utf8_valid raw) then UUnknown
  else unescape (norm_newlines raw).

(* the raw text is the literal's value: no backslash, no carriage return, valid UTF-8
   (tryFastCompare: ContainsAny(m[3], backslash CR) || !utf8.ValidString(m[3]) -> nil) *)
Definition str_plain (raw : bytes) : bool :=
  negb (existsb (fun c => N.eqb c 92 || N.eqb c 13) raw) && utf8_valid raw.

(* ------------------------------------------------------------------ the general evaluator (assumed) *)
Inductive gres := GB (b : bool) | GErr.

(* int(x) of the generated helpers: every integer type is converted to int (64 bit); only uint and
   uint64 values >= 2^63 change *)
Definition to_int (k : ikind) (z : Z) : Z :=
  match k with
  | KUint | KUint64 => if two63 <=? z then z - two64 else z
  | _ => z
  end.

(* operands of different kinds: Equal falls through to reflect.DeepEqual (false), the ordering
   helpers panic (invalid operation), which expr.Run reports as an error *)
Definition mixed (o : cop) : gres :=
  match o with
  | OEq2 | OEq1 => GB false
  | ONe | ONe2 => GB true
  | _ => GErr
  end.

Definition lit_float (l : clit) : fl :=
  match l with
  | LInt n => fl_of_Z n
  | LFrac neg n k => frac_float neg n k
  | LStr _ => FNaN
  end.

Definition general_cmp (v : value) (o : cop) (l : clit) : gres :=
  match v with
  | VI k z =>
      match l with
      | LInt n => GB (op_holds o (Some (Z.compare (to_int k z) n)))        (* int(x) OP int(y) *)
      | LFrac _ _ _ => GB (op_holds o (fcompare (fl_of_Z z) (lit_float l))) (* float64(x) OP y *)
      | LStr _ => mixed o
      end
  | VF64 f | VF32 f =>
      match l with
      | LStr _ => mixed o
      | _ => GB (op_holds o (fcompare f (lit_float l)))                     (* float64(x) OP float64(y) *)
      end
  | VStr s =>
      match l with
      | LStr raw => match str_value raw with
                    | UOk u => GB (op_holds o (Some (bytes_compare s u)))
                    | _ => GErr
                    end
      | _ => mixed o
      end
  | _ => mixed o
  end.

Definition w_nil : bytes := [110; 105; 108]%N.
Definition w_true : bytes := [116; 114; 117; 101]%N.
Definition w_false : bytes := [102; 97; 108; 115; 101]%N.

(* AllowUndefinedVariables: a missing column reads as nil; the word nil is the literal nil *)
Definition gvalue (f : bytes) (r : row) : value :=
  if bytes_eqb f w_nil then VNil else lookup f r.

Definition gcmp (c : ccmp) (r : row) : gres := general_cmp (gvalue (c_field c) r) (c_op c) (c_lit c).

(* a && b && c  /  a || b || c : left to right, short circuit, an error aborts *)
Fixpoint gchain (is_and : bool) (cs : list ccmp) (r : row) : gres :=
  match cs with
  | [] => GB is_and
  | c :: rest =>
      match rest with
      | [] => gcmp c r
      | _ :: _ =>
          match gcmp c r with
          | GErr => GErr
          | GB b => if is_and then (if b then gchain is_and rest r else GB false)
                    else (if b then GB true else gchain is_and rest r)
          end
      end
  end.

Definition general (s : shape) (r : row) : gres :=
  match s with
  | SCmp c => gcmp c r
  | SChain a cs => gchain a cs r
  end.

(* Evaluate's general path: result, err := expr.Run(...); if err != nil { return false } *)
Definition eval_general (s : shape) (r : row) : bool :=
  match general s r with GB b => b | GErr => false end.

(* does expr.Compile accept the text of this shape? (0 = yes, 1 = no, 2 = outside the model)
   = and <> are not expr-lang operators; an integer literal must fit int64 (the sign is applied
   afterwards); a float literal must be finite; the string literal must unescape; true/false as the
   left operand do not type-check against a number or a string; nil only with == and != *)
Definition is_order (o : cop) : bool := match o with OGt | OGe | OLt | OLe => true | _ => false end.

Definition cmp_status (c : ccmp) : N :=
  match c_op c with
  | OEq1 | ONe2 => 1%N
  | o =>
    if bytes_eqb (c_field c) w_true || bytes_eqb (c_field c) w_false then 1%N
    else if bytes_eqb (c_field c) w_nil && is_order o then 1%N
    else match c_lit c with
         | LInt n => if Z.abs n <? two63 then 0%N else 1%N
         | LFrac neg n k => match frac_float neg n k with FFin _ _ => 0%N | _ => 1%N end
         | LStr raw => match str_value raw with UOk _ => 0%N | UBad => 1%N | UUnknown => 2%N end
         end
  end.

Fixpoint chain_status (cs : list ccmp) : N :=
  match cs with
  | [] => 0%N
  | c :: rest => match cmp_status c with 0%N => chain_status rest | 1%N => 1%N | x => match chain_status rest with 1%N => 1%N | _ => x end end
  end.

Definition shape_status (s : shape) : N :=
  match s with SCmp c => cmp_status c | SChain _ cs => chain_status cs end.

Definition compiles (s : shape) : bool := N.eqb (shape_status s) 0.

(* ------------------------------------------------------------------ the compiled shortcuts *)
Inductive flit := FLNum (n : fl) | FLStr (s : bytes).
Record fcmp := mkF { f_field : bytes; f_op : cop; f_lit : flit }.
Inductive fastprog := FSingle (c : fcmp) | FChain (is_and : bool) (cs : list fcmp).

(* tryFastCompare after the regex matched (repaired code): the literal words are not fields;
   an integer literal beyond +-2^53 and a string literal that expr-lang would rewrite get no shortcut;
   numLit = strconv.ParseFloat(text) *)
Definition compile_fast_cmp (c : ccmp) : option fcmp :=
  if bytes_eqb (c_field c) w_nil || bytes_eqb (c_field c) w_true || bytes_eqb (c_field c) w_false then None else
  match c_lit c with
  | LInt n => if Z.abs n <=? two53 then Some (mkF (c_field c) (c_op c) (FLNum (fl_of_Z n))) else None
  | LFrac neg n k => match frac_float neg n k with
                     | FInf _ => None      (* ParseFloat: value out of range *)
                     | f => Some (mkF (c_field c) (c_op c) (FLNum f))
                     end
  | LStr raw => if str_plain raw then Some (mkF (c_field c) (c_op c) (FLStr raw)) else None
  end.

(* the code as found: any identifier, any literal, the raw string *)
Definition compile_fast_cmp_asis (c : ccmp) : option fcmp :=
  match c_lit c with
  | LInt n => Some (mkF (c_field c) (c_op c) (FLNum (fl_of_Z n)))
  | LFrac neg n k => match frac_float neg n k with
                     | FInf _ => None
                     | f => Some (mkF (c_field c) (c_op c) (FLNum f))
                     end
  | LStr raw => Some (mkF (c_field c) (c_op c) (FLStr raw))
  end.

Fixpoint compile_all (f : ccmp -> option fcmp) (cs : list ccmp) : option (list fcmp) :=
  match cs with
  | [] => Some []
  | c :: rest => match f c with
                 | None => None
                 | Some x => match compile_all f rest with None => None | Some xs => Some (x :: xs) end
                 end
  end.

(* NewExprCondition: compound first (every part must compile), else the single comparison *)
Definition compile_fast_with (f : ccmp -> option fcmp) (s : shape) : option fastprog :=
  match s with
  | SCmp c => option_map FSingle (f c)
  | SChain a cs => option_map (FChain a) (compile_all f cs)
  end.
Definition compile_fast := compile_fast_with compile_fast_cmp.
Definition compile_fast_asis := compile_fast_with compile_fast_cmp_asis.

(* toFloat64Fast (repaired): float64, float32, int, int64, int32, uint, uint64, uint32; the four
   64-bit integer types only up to +-2^53 *)
Definition fast_kind (k : ikind) : bool :=
  match k with KInt | KInt64 | KInt32 | KUint | KUint64 | KUint32 => true | _ => false end.

Definition to_float_fast (v : value) : option fl :=
  match v with
  | VF64 f | VF32 f => Some f
  | VI k z => if fast_kind k then (if Z.abs z <=? two53 then Some (fl_of_Z z) else None) else None
  | _ => None
  end.

Definition to_float_fast_asis (v : value) : option fl :=
  match v with
  | VF64 f | VF32 f => Some f
  | VI k z => if fast_kind k then Some (fl_of_Z z) else None
  | _ => None
  end.

(* fastCompare.eval / evalMap *)
Definition fast_cmp_eval_with (tf : value -> option fl) (c : fcmp) (r : row) : option bool :=
  match lookup (f_field c) r with
  | VMissing | VNil => None
  | v =>
      match f_lit c with
      | FLStr s => match v with
                   | VStr t => Some (op_holds (f_op c) (Some (bytes_compare t s)))
                   | _ => None
                   end
      | FLNum n => match tf v with
                   | Some f => Some (op_holds (f_op c) (fcompare f n))
                   | None => None
                   end
      end
  end.

(* fastCompound.eval: result := op == AND; every part must answer *)
Fixpoint chain_eval_with (tf : value -> option fl) (is_and : bool) (cs : list fcmp) (r : row) (acc : bool) : option bool :=
  match cs with
  | [] => Some acc
  | c :: rest =>
      match fast_cmp_eval_with tf c r with
      | None => None
      | Some b => chain_eval_with tf is_and rest r (if is_and then acc && b else acc || b)
      end
  end.

Definition fast_eval_with (tf : value -> option fl) (p : fastprog) (r : row) : option bool :=
  match p with
  | FSingle c => fast_cmp_eval_with tf c r
  | FChain a cs => chain_eval_with tf a cs r a
  end.

Definition fast_cmp_eval := fast_cmp_eval_with to_float_fast.
Definition fast_eval := fast_eval_with to_float_fast.
Definition fast_eval_asis := fast_eval_with to_float_fast_asis.

(* the shortcut's answer for a shape ([None]: no shortcut compiled, or it declined this row) *)
Definition fast (s : shape) (r : row) : option bool :=
  match compile_fast s with Some p => fast_eval p r | None => None end.
Definition fast_asis (s : shape) (r : row) : option bool :=
  match compile_fast_asis s with Some p => fast_eval_asis p r | None => None end.

(* ExprCondition.Evaluate *)
Definition evaluate (s : shape) (r : row) : bool :=
  match fast s r with Some b => b | None => eval_general s r end.

(* ------------------------------------------------------------------ the recognisers on the text *)
Definition is_space (c : N) : bool := N.eqb c 9 || N.eqb c 10 || N.eqb c 12 || N.eqb c 13 || N.eqb c 32.   (* RE2 \s *)
Definition is_digit (c : N) : bool := in_rng 48 57 c.
Definition is_id0 (c : N) : bool := in_rng 65 90 c || in_rng 97 122 c || N.eqb c 95.
Definition is_idc (c : N) : bool := is_id0 c || is_digit c.

Fixpoint skip_ws (s : bytes) : bytes :=
  match s with c :: r => if is_space c then skip_ws r else s | [] => [] end.

Fixpoint take_while (p : N -> bool) (s : bytes) : bytes * bytes :=
  match s with
  | c :: r => if p c then let '(a, b) := take_while p r in (c :: a, b) else ([], s)
  | [] => ([], [])
  end.

Definition parse_ident (s : bytes) : option (bytes * bytes) :=
  match s with
  | c :: r => if is_id0 c then let '(a, b) := take_while is_idc r in Some (c :: a, b) else None
  | [] => None
  end.

(* (>=|<=|!=|<>|==|=|>|<) : a two-character alternative always wins (what follows a shorter
   alternative could not start a literal) *)
Definition parse_op (s : bytes) : option (cop * bytes) :=
  match s with
  | c :: r =>
      let two := match r with
                 | c2 :: r2 =>
                     if N.eqb c 62 && N.eqb c2 61 then Some (OGe, r2)
                     else if N.eqb c 60 && N.eqb c2 61 then Some (OLe, r2)
                     else if N.eqb c 33 && N.eqb c2 61 then Some (ONe, r2)
                     else if N.eqb c 60 && N.eqb c2 62 then Some (ONe2, r2)
                     else if N.eqb c 61 && N.eqb c2 61 then Some (OEq2, r2)
                     else None
                 | [] => None
                 end in
      match two with
      | Some x => Some x
      | None => if N.eqb c 61 then Some (OEq1, r) else if N.eqb c 62 then Some (OGt, r)
                else if N.eqb c 60 then Some (OLt, r) else None
      end
  | [] => None
  end.

Fixpoint dec_value (acc : Z) (ds : bytes) : Z :=
  match ds with d :: r => dec_value (acc * 10 + (Z.of_N d - 48)) r | [] => acc end.

(* the number literal -?\d+(?:\.\d+)? and the quoted literal without an inner quote; returns the literal
   and the rest of the text *)
Definition parse_lit (s : bytes) : option (clit * bytes) :=
  match s with
  | [] => None
  | c :: r =>
      if N.eqb c 39 then
        let '(body, rest) := take_while (fun x => negb (N.eqb x 39)) r in
        match rest with
        | _ :: rest' => Some (LStr body, rest')
        | [] => None
        end
      else
        let '(neg, s1) := if N.eqb c 45 then (true, r) else (false, s) in
        let '(ds, s2) := take_while is_digit s1 in
        match ds with
        | [] => None
        | _ :: _ =>
            let int_lit := LInt (if neg then - dec_value 0 ds else dec_value 0 ds) in
            match s2 with
            | p :: s3 =>
                if N.eqb p 46 then
                  let '(fs, s4) := take_while is_digit s3 in
                  match fs with
                  | [] => Some (int_lit, s2)
                  | _ :: _ => Some (LFrac neg (dec_value 0 (ds ++ fs)) (length fs), s4)
                  end
                else Some (int_lit, s2)
            | [] => Some (int_lit, s2)
            end
        end
  end.

(* ^\s* ident \s* op \s* literal \s*$ *)
Definition parse_cmp (s : bytes) : option ccmp :=
  match parse_ident (skip_ws s) with
  | None => None
  | Some (f, s1) =>
      match parse_op (skip_ws s1) with
      | None => None
      | Some (o, s2) =>
          match parse_lit (skip_ws s2) with
          | None => None
          | Some (l, s3) => match skip_ws s3 with [] => Some (mkCmp f o l) | _ :: _ => None end
          end
      end
  end.

Fixpoint has_sub2 (a b : N) (s : bytes) : bool :=
  match s with
  | c :: r => match r with
              | c2 :: _ => (N.eqb c a && N.eqb c2 b) || has_sub2 a b r
              | [] => false
              end
  | [] => false
  end.

(* fastAndOr.Split(expression, -1): leftmost non-overlapping && / || (the blanks around them stay
   with the pieces, where parse_cmp skips them) *)
Fixpoint split_logic (cur : bytes) (s : bytes) : list bytes :=
  match s with
  | [] => [rev cur]
  | c :: r =>
      match r with
      | c2 :: r2 =>
          if (N.eqb c 38 && N.eqb c2 38) || (N.eqb c 124 && N.eqb c2 124)
          then rev cur :: split_logic [] r2
          else split_logic (c :: cur) r
      | [] => [rev (c :: cur)]
      end
  end.

Fixpoint map_opt {A B} (f : A -> option B) (l : list A) : option (list B) :=
  match l with
  | [] => Some []
  | x :: r => match f x with
              | None => None
              | Some y => match map_opt f r with None => None | Some ys => Some (y :: ys) end
              end
  end.

(* the operator of a flat chain, when the text qualifies (tryFastCompound before the parts are looked at) *)
Definition chain_op (s : bytes) : option bool :=
  if existsb (fun c => N.eqb c 40 || N.eqb c 41) s then None else
  let ha := has_sub2 38 38 s in
  let ho := has_sub2 124 124 s in
  if ha && ho then None else if ha then Some true else if ho then Some false else None.

(* the reading of the text as a shape (pure syntax) *)
Definition parse_shape (s : bytes) : option shape :=
  match chain_op s with
  | Some a => match map_opt parse_cmp (split_logic [] s) with
              | Some cs => Some (SChain a cs)
              | None => option_map SCmp (parse_cmp s)
              end
  | None => option_map SCmp (parse_cmp s)
  end.

(* tryFastCompare / tryFastCompound / NewExprCondition on the text, branch by branch *)
Definition try_fast_compare (s : bytes) : option fcmp :=
  match parse_cmp s with Some c => compile_fast_cmp c | None => None end.

Definition try_fast_compound (s : bytes) : option fastprog :=
  match chain_op s with
  | Some a => option_map (FChain a) (map_opt try_fast_compare (split_logic [] s))
  | None => None
  end.

Definition fast_of_text (s : bytes) : option fastprog :=
  match try_fast_compound s with
  | Some p => Some p
  | None => option_map FSingle (try_fast_compare s)
  end.

(* ------------------------------------------------------------------ comparisons written literal-first *)
(* `20 <= x`, `'a' == status`: NOT a shortcut shape (both regexes of tryFastCompare start with the
   column), so such a text - alone or as a part of a flat chain - is always left to the general
   evaluator. Its meaning there is the comparison with the operands swapped: `lit OP x` holds exactly
   when `x mirror(OP) lit` does (mirror_op_swaps_operands); mixed kinds are symmetric (Equal ->
   DeepEqual false, an ordering helper fails whatever the side). *)
Definition mirror_op (o : cop) : cop :=
  match o with OGt => OLt | OGe => OLe | OLt => OGt | OLe => OGe | x => x end.

(* ^\s* literal \s* op \s* ident \s*$  read as the column-first comparison that means the same *)
Definition parse_cmp_lf (s : bytes) : option ccmp :=
  match parse_lit (skip_ws s) with
  | None => None
  | Some (l, s1) =>
      match parse_op (skip_ws s1) with
      | None => None
      | Some (o, s2) =>
          match parse_ident (skip_ws s2) with
          | None => None
          | Some (f, s3) => match skip_ws s3 with [] => Some (mkCmp f (mirror_op o) l) | _ :: _ => None end
          end
      end
  end.

Definition parse_cmp_any (s : bytes) : option ccmp :=
  match parse_cmp s with Some c => Some c | None => parse_cmp_lf s end.

(* the general evaluator's reading of a comparison / flat chain whose parts are written in either order
   (used only where parse_shape declines the text: some part is literal-first, no shortcut exists) *)
Definition parse_shape_any (s : bytes) : option shape :=
  match chain_op s with
  | Some a => match map_opt parse_cmp_any (split_logic [] s) with
              | Some cs => Some (SChain a cs)
              | None => option_map SCmp (parse_cmp_any s)
              end
  | None => option_map SCmp (parse_cmp_any s)
  end.
