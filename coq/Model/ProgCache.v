(* C05 — the program cache of the expression bridge, as far as it can make a row's result depend on
   EARLIER rows.
   Code anchors:
     functions/expr_bridge.go  CompileExpressionWithStreamSQLFunctions: programCache, a PROCESS-WIDE map keyed
                               by the expression TEXT; a miss compiles with expr.Env(data), data = the row at hand
                               EvaluateExpression: expr.Run(program, row); when the run FAILS the row is evaluated
                               again on the env path (expr.Eval with a fresh environment typed by THIS row)
     expr-lang compiler        derives static types from the VALUES of the env map; for == and != whose two
                               operands both have static type int (both string) it emits OpEqualInt
                               (OpEqualString), which asserts that dynamic type when it runs; every other
                               operator of this fragment is compiled to a generic opcode
   Rows carry the Go type of every value here ([trow]); [terase] forgets it and gives the rows of
   Model/Direct.v.  Static types are modelled for ATOMS (an int / string literal, a column, parentheses around
   them): the operands the statement's items compare.  For compound operands (c + 1 == 8) expr-lang
   specialises as well; the model under-approximates that (generic), which only matters for the refutation
   below (a witness over atoms), not for the theorems: they hold for EVERY set of rows a cached program accepts.
   [fallback = true] is the code.  [fallback = false] is NOT the code: the cached program's failure is final. *)
From SV Require Export Model.Direct.

Inductive gokind := GInt | GInt64 | GFloat | GString | GBool | GNil.
Definition gokind_eqb (a b : gokind) : bool :=
  match a, b with
  | GInt, GInt | GInt64, GInt64 | GFloat, GFloat | GString, GString | GBool, GBool | GNil, GNil => true
  | _, _ => false
  end.

Definition trow := list (bytes * (gokind * xvalue)).
Definition terase (r : trow) : xrow := map (fun kv => (fst kv, snd (snd kv))) r.
Fixpoint tkind (r : trow) (c : bytes) : gokind :=
  match r with
  | [] => GNil                                   (* a missing column is nil: no static type *)
  | (k, (g, _)) :: r' => if bytes_eqb c k then g else tkind r' c
  end.

(* the type of an atom when the program is compiled against [env] / the dynamic type of its value in [env] *)
Fixpoint okind (env : trow) (e : xexpr) : option gokind :=
  match e with
  | ENum q => Some (if Pos.eqb (Qden (Qred q)) 1 then GInt else GFloat)
  | EStr _ => Some GString
  | ECol c => Some (tkind env c)
  | EParen x => okind env x
  | _ => None
  end.

(* the specialised comparison opcodes *)
Definition spec_kind (a b : option gokind) : option gokind :=
  match a, b with
  | Some GInt, Some GInt => Some GInt
  | Some GString, Some GString => Some GString
  | _, _ => None
  end.
Definition okind_is (row : trow) (e : xexpr) (g : gokind) : bool :=
  match okind row e with Some g' => gokind_eqb g' g | None => false end.
Definition is_equality (c : xcmpop) : bool :=
  match c with CEq | CEq2 | CNe | CNe2 => true | _ => false end.

(* does [row] pass every type assertion of the program compiled against [env]?  (SQL AND / OR do not reach
   expr-lang in a select item: Model/Direct.v bridge_parses) *)
Fixpoint fits (env row : trow) (e : xexpr) : bool :=
  match e with
  | ENum _ | EStr _ | ECol _ => true
  | ENeg x | EParen x => fits env row x
  | EBin _ l r => fits env row l && fits env row r
  | ECmp c l r =>
      fits env row l && fits env row r &&
      (if is_equality c then
         match spec_kind (okind env l) (okind env r) with
         | Some g => okind_is row l g && okind_is row r g
         | None => true
         end
       else true)
  | EAnd _ _ | EOr _ _ => true
  | ECall _ args => forallb (fits env row) args
  end.

(* expr.Run of the program compiled against env *)
Definition run_prog (env row : trow) (e : xexpr) : xout xvalue :=
  if fits env row e then bx (terase row) e else OErr.

(* EvaluateExpression for one text: cache = the row the cached program was compiled against, if any *)
Definition cached_eval (fallback : bool) (cache : option trow) (row : trow) (e : xexpr)
  : xout xvalue * option trow :=
  let env := match cache with Some env => env | None => row end in
  (match run_prog env row e with
   | OErr => if fallback then bx (terase row) e else OErr
   | r => r
   end, Some env).

(* the result of [row] after the rows of [h] (oldest first) were evaluated with the same text, in this
   stream or any other stream of the process *)
Fixpoint after_history (fallback : bool) (cache : option trow) (h : list trow) (row : trow) (e : xexpr)
  : xout xvalue :=
  match h with
  | [] => fst (cached_eval fallback cache row e)
  | r :: h' => after_history fallback (snd (cached_eval fallback cache r e)) h' row e
  end.
