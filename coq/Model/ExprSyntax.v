(* C06 — the hand-written expression engine of rulego/streamsql, part 1: tokens, AST, parser, printer.
   Code anchors:
     expr/parser.go           parseExpression, parseOrExpression, parseAndExpression,
                              parseComparisonExpression, parseArithmeticExpression, parseTermExpression,
                              parsePowerExpression, parseUnaryExpression, parsePrimaryExpression,
                              parseFunctionCall
     expr/case_expression.go  parseCaseExpression
     expr/expression.go       ExprNode (Type/Value/Left/Right/Args/CaseExpr)
   The Go parser works on a []string produced by expr/tokenizer.go; the model works on the same
   sequence with each string classified once (number / quoted string / identifier / operator /
   keyword).  The tokenizer itself (bytes -> []string) is tied to [xprint] by the correspondence
   check (the harness renders the printed tokens as text and the real tokenizer must give them back).
   Not in the modelled alphabet: LIKE, IS [NOT] (property C13), backtick identifiers. *)
From Coq Require Export QArith.
From SV Require Export Base.Bytes.
Local Open Scope nat_scope.

Inductive xbinop := OAdd | OSub | OMul | ODiv | OMod | OPow.
(* "=" and "==" , "!=" and "<>" are different node values in Go; the evaluator treats them alike *)
Inductive xcmpop := CEq | CEq2 | CNe | CNe2 | CLt | CLe | CGt | CGe.

Inductive xtoken :=
| TNum (q : Q) | TStr (s : bytes) | TId (s : bytes)
| TBin (o : xbinop) | TCmp (c : xcmpop) | TAnd | TOr
| TLP | TRP | TComma
| TCase | TWhen | TThen | TElse | TEnd.

(* Go AST.  TypeParenthesis is a node of its own ([NParen]); unary minus is "0 - x". *)
Inductive xnode :=
| NNum (q : Q)
| NStr (s : bytes)
| NField (s : bytes)
| NBin (o : xbinop) (l r : xnode)
| NCmp (c : xcmpop) (l r : xnode)
| NAnd (l r : xnode)
| NOr (l r : xnode)
| NParen (e : xnode)
| NFun (f : bytes) (args : list xnode).

(* parseExpression: a CASE expression exists only at the root (tokens[0] = CASE) *)
Inductive xtop :=
| TopE (e : xnode)
| TopCase (v : option xnode) (whens : list (xnode * xnode)) (els : option xnode).

(* ---- source-level expressions (what a user means; no parenthesis nodes) ---- *)
Inductive xexpr :=
| ENum (q : Q)
| EStr (s : bytes)
| ECol (s : bytes)
| ENeg (e : xexpr)
| EBin (o : xbinop) (l r : xexpr)
| ECmp (c : xcmpop) (l r : xexpr)
| EAnd (l r : xexpr)
| EOr (l r : xexpr)
| ECall (f : bytes) (args : list xexpr)
| EParen (e : xexpr).   (* parentheses the user wrote although the grammar does not need them *)

Inductive xetop :=
| ETop (e : xexpr)
| ECase (v : option xexpr) (whens : list (xexpr * xexpr)) (els : option xexpr).

(* ---- precedence ladder of expr/parser.go ----
   0 parseOrExpression   1 parseAndExpression   2 parseComparisonExpression (one operator, not a loop)
   3 parseArithmeticExpression (+ -)   4 parseTermExpression ( * / % )
   5 parsePowerExpression (^, right associative)   6 parseUnaryExpression   7 parsePrimaryExpression *)
Definition binop_level (o : xbinop) : nat :=
  match o with OAdd | OSub => 3 | OMul | ODiv | OMod => 4 | OPow => 5 end.

(* the operator a token is at a given loop level (0,1,3,4), with the node it builds *)
Definition loop_op (p : nat) (t : xtoken) : option (xnode -> xnode -> xnode) :=
  match p, t with
  | 0, TOr => Some NOr
  | 1, TAnd => Some NAnd
  | 3, TBin OAdd => Some (NBin OAdd)
  | 3, TBin OSub => Some (NBin OSub)
  | 4, TBin OMul => Some (NBin OMul)
  | 4, TBin ODiv => Some (NBin ODiv)
  | 4, TBin OMod => Some (NBin OMod)
  | _, _ => None
  end.

(* parsePrimaryExpression: an identifier followed by a token that is neither "(", an operator, ")",
   "," nor WHEN/THEN/ELSE/END is "invalid function call" *)
Definition bad_after_ident (t : xtoken) : bool :=
  match t with
  | TNum _ | TStr _ | TId _ | TCase => true
  | _ => false
  end.

(* keywords are plain identifiers for parsePrimaryExpression (isIdentifier succeeds on them) *)
Definition kw_ident (t : xtoken) : option bytes :=
  match t with
  | TId s => Some s
  | TAnd => Some [65;78;68]%N | TOr => Some [79;82]%N
  | TCase => Some [67;65;83;69]%N | TWhen => Some [87;72;69;78]%N | TThen => Some [84;72;69;78]%N
  | TElse => Some [69;76;83;69]%N | TEnd => Some [69;78;68]%N
  | _ => None
  end.

Definition zeroQ : Q := 0%Q.

(* pe f p ts      : parse at ladder level p
   ploop f p l ts : the `for len(remaining) > 0 && remaining[0] == op` loop of levels 0,1,3,4
   pargs f g acc ts : the argument loop of parseFunctionCall (after the first "(" and a non-")" token) *)
Fixpoint pe (f : nat) (p : nat) (ts : list xtoken) {struct f} : option (xnode * list xtoken) :=
  match f with
  | O => None
  | S f =>
    match p with
    | 0 | 1 | 3 | 4 =>
        match pe f (S p) ts with
        | None => None
        | Some (l, r) => ploop f p l r
        end
    | 2 =>
        match pe f 3 ts with
        | None => None
        | Some (l, r) =>
            match r with
            | TCmp c :: r1 =>
                match pe f 3 r1 with
                | None => None
                | Some (x, r2) => Some (NCmp c l x, r2)
                end
            | _ => Some (l, r)
            end
        end
    | 5 =>
        match pe f 6 ts with
        | None => None
        | Some (l, r) =>
            match r with
            | TBin OPow :: r1 =>
                match pe f 5 r1 with
                | None => None
                | Some (x, r2) => Some (NBin OPow l x, r2)
                end
            | _ => Some (l, r)
            end
        end
    | 6 =>
        match ts with
        | [] => None
        | TBin OSub :: r =>
            match pe f 6 r with
            | None => None
            | Some (x, r') => Some (NBin OSub (NNum zeroQ) x, r')
            end
        | _ => pe f 7 ts
        end
    | _ =>
        match ts with
        | [] => None
        | TLP :: r =>
            match pe f 0 r with
            | Some (e, TRP :: r') => Some (NParen e, r')
            | _ => None
            end
        | TNum q :: r => Some (NNum q, r)
        | TStr s :: r => Some (NStr s, r)
        | t :: r =>
            match kw_ident t with
            | None => None          (* "unexpected token" (or, before "(", a function named by an operator: not modelled) *)
            | Some name =>
                match r with
                | TLP :: TRP :: r' => Some (NFun name [], r')
                | TLP :: r' => pargs f name [] r'
                | t1 :: _ => if bad_after_ident t1 then None else Some (NField name, r)
                | [] => Some (NField name, r)
                end
            end
        end
    end
  end
with ploop (f : nat) (p : nat) (l : xnode) (ts : list xtoken) {struct f} : option (xnode * list xtoken) :=
  match f with
  | O => None
  | S f =>
    match ts with
    | t :: r =>
        match loop_op p t with
        | None => Some (l, ts)
        | Some mk =>
            match pe f (S p) r with
            | None => None
            | Some (x, r') => ploop f p (mk l x) r'
            end
        end
    | [] => Some (l, ts)
    end
  end
with pargs (f : nat) (g : bytes) (acc : list xnode) (ts : list xtoken) {struct f} : option (xnode * list xtoken) :=
  match f with
  | O => None
  | S f =>
    match pe f 0 ts with
    | None => None
    | Some (a, r) =>
        match r with
        | TRP :: r' => Some (NFun g (rev (a :: acc)), r')
        | TComma :: r' => pargs f g (a :: acc) r'
        | _ => None
        end
    end
  end.

(* the WHEN loop of parseCaseExpression *)
Fixpoint pwhens (f : nat) (pf : nat) (acc : list (xnode * xnode)) (ts : list xtoken)
  : option (list (xnode * xnode) * list xtoken) :=
  match f with
  | O => None
  | S f =>
    match ts with
    | TWhen :: r =>
        match pe pf 0 r with
        | Some (c, TThen :: r1) =>
            match pe pf 0 r1 with
            | Some (x, r2) => pwhens f pf ((c, x) :: acc) r2
            | None => None
            end
        | _ => None
        end
    | _ => Some (rev acc, ts)
    end
  end.

Definition pcase (pf : nat) (ts : list xtoken) : option xtop :=
  (* ts = tokens after CASE *)
  let after_value :=
    match ts with
    | [] => Some (None, ts)
    | TWhen :: _ => Some (None, ts)
    | _ => match pe pf 0 ts with Some (v, r) => Some (Some v, r) | None => None end
    end in
  match after_value with
  | None => None
  | Some (v, r) =>
      match pwhens (S (length r)) pf [] r with
      | None => None
      | Some (ws, r1) =>
          match r1 with
          | TElse :: r2 =>
              match pe pf 0 r2 with
              | Some (e, [TEnd]) => Some (TopCase v ws (Some e))
              | _ => None
              end
          | [TEnd] => Some (TopCase v ws None)
          | _ => None
          end
      end
  end.

Definition xfuel (ts : list xtoken) : nat := 10 * length ts + 10.

(* parseExpression *)
Definition xparse (ts : list xtoken) : option xtop :=
  match ts with
  | [] => None
  | TCase :: r => pcase (xfuel ts) r
  | _ => match pe (xfuel ts) 0 ts with
         | Some (e, []) => Some (TopE e)
         | _ => None
         end
  end.

(* ---- printer: exactly the parentheses the ladder needs ---- *)
Definition xlevel (e : xexpr) : nat :=
  match e with
  | EOr _ _ => 0 | EAnd _ _ => 1 | ECmp _ _ _ => 2
  | EBin o _ _ => binop_level o
  | ENeg _ => 6
  | _ => 7
  end.

Fixpoint pr (p : nat) (e : xexpr) {struct e} : list xtoken :=
  let body :=
    match e with
    | ENum q => [TNum q]
    | EStr s => [TStr s]
    | ECol s => [TId s]
    | ENeg x => TBin OSub :: pr 6 x
    | EOr l r => pr 0 l ++ TOr :: pr 1 r
    | EAnd l r => pr 1 l ++ TAnd :: pr 2 r
    | ECmp c l r => pr 3 l ++ TCmp c :: pr 3 r
    | EBin OPow l r => pr 6 l ++ TBin OPow :: pr 5 r
    | EBin o l r => pr (binop_level o) l ++ TBin o :: pr (S (binop_level o)) r
    | ECall g args =>
        TId g :: TLP ::
        (fix go (first : bool) (l : list xexpr) : list xtoken :=
           match l with
           | [] => [TRP]
           | a :: l' => (if first then [] else [TComma]) ++ pr 0 a ++ go false l'
           end) true args
    | EParen x => TLP :: pr 0 x ++ [TRP]
    end in
  if Nat.leb p (xlevel e) then body else TLP :: body ++ [TRP].

Fixpoint elab (p : nat) (e : xexpr) {struct e} : xnode :=
  let body :=
    match e with
    | ENum q => NNum q
    | EStr s => NStr s
    | ECol s => NField s
    | ENeg x => NBin OSub (NNum zeroQ) (elab 6 x)
    | EOr l r => NOr (elab 0 l) (elab 1 r)
    | EAnd l r => NAnd (elab 1 l) (elab 2 r)
    | ECmp c l r => NCmp c (elab 3 l) (elab 3 r)
    | EBin OPow l r => NBin OPow (elab 6 l) (elab 5 r)
    | EBin o l r => NBin o (elab (binop_level o) l) (elab (S (binop_level o)) r)
    | ECall g args => NFun g (map (elab 0) args)
    | EParen x => NParen (elab 0 x)
    end in
  if Nat.leb p (xlevel e) then body else NParen body.

Definition xprint (t : xetop) : list xtoken :=
  match t with
  | ETop e => pr 0 e
  | ECase v ws els =>
      TCase :: (match v with Some x => pr 0 x | None => [] end)
      ++ flat_map (fun w => TWhen :: pr 0 (fst w) ++ TThen :: pr 0 (snd w)) ws
      ++ (match els with Some x => TElse :: pr 0 x | None => [] end) ++ [TEnd]
  end.

Definition xelab (t : xetop) : xtop :=
  match t with
  | ETop e => TopE (elab 0 e)
  | ECase v ws els =>
      TopCase (option_map (elab 0) v) (map (fun w => (elab 0 (fst w), elab 0 (snd w))) ws)
              (option_map (elab 0) els)
  end.

(* a CASE value expression must not begin with the identifier WHEN, and the printed form of a
   top-level expression must not begin with CASE: both are guaranteed because identifiers are
   [TId] tokens, never keyword tokens *)
