(* Model of window/tumbling_window.go (event time and processing time).
   Every piece of code that runs under one acquisition of tw.mu is one atomic step; the schedule
   (which goroutine runs next) is the list of steps. *)
From SV Require Export Model.Watermark.

Definition row := (Z * Z)%type.           (* (id, timestamp) *)
Definition rid (r : row) := fst r.
Definition rts (r : row) := snd r.

Record cfg := { size : Z; ooo : Z; lateness : Z; idle : Z }.

Record twin := { t_start : Z; t_end : Z; t_close : Z; t_snap : list row }.  (* triggeredWindowInfo *)

Record st := { init : bool; slot : Z (* currentSlot.Start *); data : list row;
               trig : list twin; w : wm; pend : option Z (* watermark being handled *);
               adv : bool (* ghost: the slot has advanced at least once; read by no step *) }.

Definition st0 : st := {| init := false; slot := 0; data := []; trig := []; w := wm0; pend := None; adv := false |}.

Record batch := { b_start : Z; b_end : Z; b_rows : list row; b_late : bool }.

(* observable events, in execution order *)
Inductive ev :=
| EvAdd (id ts : Z)        (* Add of a row with a usable timestamp *)
| EvNoTs (id : Z)          (* Add of a row without one *)
| EvTick
| EvDB (wmk : Z)           (* the trigger goroutine received watermark wmk *)
| EvD0                     (* ... or found the channel empty *)
| EvDE                     (* ... and finished handling it *)
| EvBatch (b : batch).     (* a batch handed to the callback / output channel *)

Definition inwin (c : cfg) (s ts : Z) : bool := (s <=? ts) && (ts <? s + size c).   (* TimeSlot.Contains *)
Definition in_twin (t : twin) (ts : Z) : bool := (t_start t <=? ts) && (ts <? t_end t).

Inductive op :=
| Add (id : Z) (ts : Z) (now : Z)     (* Add of a row with a usable timestamp; now = wall clock *)
| AddNoTs (id : Z)                    (* Add of a row without usable timestamp (event time: dropped) *)
| DeliverBegin                        (* the trigger goroutine receives one watermark from the channel *)
| FireStep                            (* checkAndTriggerWindows up to and including one firing / to its end *)
| Tick (now : Z).                     (* Watermark.update() *)

Definition set_w (s : st) (w' : wm) : st :=
  {| init := init s; slot := slot s; data := data s; trig := trig s; w := w'; pend := pend s; adv := adv s |}.

Fixpoint update_snap (l : list twin) (t : twin) (snap : list row) : list twin :=
  match l with
  | [] => []
  | x :: r => if (t_end x =? t_end t) then
                {| t_start := t_start x; t_end := t_end x; t_close := t_close x; t_snap := snap |} :: r
              else x :: update_snap r t snap
  end.

(* Add, event time *)
Definition add_core (c : cfg) (id ts now : Z) (s : st) : st * list batch :=
  let w' := update_event_time (ooo c) now ts (w s) in
  let sl0 := if init s then slot s else align ts (size c) in
  let late := is_late ts w' in
  (* an on-time row older than the not-yet-advanced first slot re-aligns that slot *)
  let sl := if init s && negb late && (ts <? sl0) then align ts (size c) else sl0 in
  let d := data s ++ [(id, ts)] in
  let keep := ({| init := true; slot := sl; data := d; trig := trig s; w := w'; pend := pend s; adv := adv s |}, []) in
  let drop := ({| init := true; slot := sl; data := data s; trig := trig s; w := w'; pend := pend s; adv := adv s |}, []) in
  if late then
    if inwin c sl ts then keep
    else if 0 <? lateness c then
      match find (fun t => in_twin t ts) (trig s) with
      | Some t =>
          let res := t_snap t ++ filter (fun r => in_twin t (rts r)) d in
          let kept := filter (fun r => negb (in_twin t (rts r))) d in
          ({| init := true; slot := sl; data := kept; trig := update_snap (trig s) t res; w := w'; pend := pend s; adv := adv s |},
           [{| b_start := t_start t; b_end := t_end t; b_rows := res; b_late := true |}])
      | None => drop
      end
    else drop
  else keep.

Definition add (c : cfg) (id ts now : Z) (s : st) : st * list ev :=
  let '(s', bs) := add_core c id ts now s in (s', EvAdd id ts :: map EvBatch bs).

(* closed form of the empty-slot skipping loop: the smallest aligned start a >= sl with
   a + size <= wmk that contains a buffered row *)
Definition cand (c : cfg) (sl wmk : Z) (d : list row) : list Z :=
  filter (fun a => (sl <=? a) && (a + size c <=? wmk))
         (map (fun r => sl + ((rts r - sl) / size c) * size c) (filter (fun r => sl <=? rts r) d)).
Fixpoint minl (l : list Z) : option Z :=
  match l with [] => None | x :: r => match minl r with None => Some x | Some m => Some (Z.min x m) end end.
Definition rest_slot (c : cfg) (sl wmk : Z) : Z :=
  if sl + size c <=? wmk then sl + ((wmk - sl) / size c) * size c else sl.

(* closeExpiredWindows *)
Definition close_expired (wmk : Z) (s : st) : st :=
  let expired := filter (fun t => t_close t <=? wmk) (trig s) in
  let live := filter (fun t => negb (t_close t <=? wmk)) (trig s) in
  let d := match expired with
           | [] => data s
           | _ => filter (fun r => negb (existsb (fun t => in_twin t (rts r)) expired)) (data s)
           end in
  {| init := init s; slot := slot s; data := d; trig := live; w := w s; pend := pend s; adv := adv s |}.

Definition fire_step (c : cfg) (s : st) : st * list ev :=
  match pend s with
  | None => (s, [])
  | Some wmk =>
    if negb (init s) then ({| init := init s; slot := slot s; data := data s; trig := trig s; w := w s; pend := None; adv := adv s |}, [EvDE]) else
    match minl (cand c (slot s) wmk (data s)) with
    | None =>
        let s1 := {| init := init s; slot := rest_slot c (slot s) wmk; data := data s; trig := trig s; w := w s; pend := None;
                    adv := adv s || (slot s + size c <=? wmk) |} in
        (close_expired wmk s1, [EvDE])
    | Some a =>
        let ins := filter (fun r => inwin c a (rts r)) (data s) in
        let outs := filter (fun r => negb (inwin c a (rts r))) (data s) in
        let tr := if 0 <? lateness c
                  then trig s ++ [{| t_start := a; t_end := a + size c; t_close := a + size c + lateness c; t_snap := ins |}]
                  else trig s in
        ({| init := init s; slot := a + size c; data := outs; trig := tr; w := w s; pend := pend s; adv := true |},
         [EvBatch {| b_start := a; b_end := a + size c; b_rows := ins; b_late := false |}])
    end
  end.

Definition step (c : cfg) (s : st) (o : op) : st * list ev :=
  match o with
  | Add id ts now => add c id ts now s
  | AddNoTs id => (s, [EvNoTs id])
  | DeliverBegin =>
      match pend s with
      | Some _ => (s, [])
      | None =>
        match pop_chan (w s) with
        | Some (x, w') =>
            ({| init := init s; slot := slot s; data := data s; trig := trig s; w := w'; pend := Some x; adv := adv s |}, [EvDB x])
        | None => (s, [EvD0])
        end
      end
  | FireStep => fire_step c s
  | Tick now => (set_w s (tick (ooo c) (idle c) now (w s)), [EvTick])
  end.

Fixpoint run (c : cfg) (s : st) (h : list op) : st * list ev :=
  match h with
  | [] => (s, [])
  | o :: r => let '(s1, b1) := step c s o in let '(s2, b2) := run c s1 r in (s2, b1 ++ b2)
  end.

(* ---- harness-level composite: one delivery, with Adds injected after the k-th firing ---- *)
Fixpoint run_adds (c : cfg) (s : st) (l : list op) : st * list ev :=
  match l with
  | [] => (s, [])
  | o :: r => let '(s1, b1) := step c s o in let '(s2, b2) := run_adds c s1 r in (s2, b1 ++ b2)
  end.

Fixpoint deliver_loop (c : cfg) (fuel : nat) (s : st) (inj : list (list op)) : st * list ev :=
  match fuel with
  | O => (s, [])
  | S f =>
      let '(s1, b1) := fire_step c s in
      match pend s1 with
      | None => (s1, b1)
      | Some _ =>
          let '(adds, rest) := match inj with [] => ([], []) | l :: r => (l, r) end in
          let '(s2, b2) := run_adds c s1 adds in
          let '(s3, b3) := deliver_loop c f s2 rest in
          (s3, b1 ++ b2 ++ b3)
      end
  end.

Definition count_ops (inj : list (list op)) : nat := fold_right (fun l n => (length l + n)%nat) O inj.

Definition deliver (c : cfg) (s : st) (inj : list (list op)) : st * list ev :=
  let '(s1, e1) := step c s DeliverBegin in
  match pend s1 with
  | None => (s1, e1)
  | Some _ => let '(s2, e2) := deliver_loop c (length (data s) + count_ops inj + 2) s1 inj in (s2, e1 ++ e2)
  end.

(* harness-level history: primitive steps and composite deliveries *)
Inductive top := TOp (o : op) | TDeliver (inj : list (list op)).
Definition top_step (c : cfg) (s : st) (t : top) : st * list ev :=
  match t with TOp o => step c s o | TDeliver inj => deliver c s inj end.
Fixpoint run_top (c : cfg) (s : st) (l : list top) : st * list ev :=
  match l with
  | [] => (s, [])
  | t :: r => let '(s1, e1) := top_step c s t in let '(s2, e2) := run_top c s1 r in (s2, e1 ++ e2)
  end.

(* ---- processing time: rows carry the wall clock of their Add; Trigger() is the ticker ---- *)
Record pst := { p_init : bool; p_slot : Z; p_data : list row }.
Definition pst0 : pst := {| p_init := false; p_slot := 0; p_data := [] |}.
Inductive pop := PAdd (id : Z) (now : Z) | PTrigger.

Definition pstep (c : cfg) (s : pst) (o : pop) : pst * list ev :=
  match o with
  | PAdd id now =>
      let sl := if p_init s then p_slot s else align now (size c) in
      ({| p_init := true; p_slot := sl; p_data := p_data s ++ [(id, now)] |}, [EvAdd id now])
  | PTrigger =>
      if negb (p_init s) then (s, [EvTick]) else
      let next := p_slot s + size c in
      let keep := filter (fun r => negb (rts r <? next)) (p_data s) in
      let res := filter (fun r => inwin c (p_slot s) (rts r)) (p_data s) in
      ({| p_init := true; p_slot := next; p_data := keep |},
       EvTick :: match res with [] => [] | _ => [EvBatch {| b_start := p_slot s; b_end := next; b_rows := res; b_late := false |}] end)
  end.

Fixpoint prun (c : cfg) (s : pst) (h : list pop) : pst * list ev :=
  match h with
  | [] => (s, [])
  | o :: r => let '(s1, b1) := pstep c s o in let '(s2, b2) := prun c s1 r in (s2, b1 ++ b2)
  end.
